From Coq Require Import ZArith List Bool Lia.
Import ListNotations.
From OL Require Import theories.Replay.
Local Open Scope Z_scope.

Lemma bytes_eqb_refl b : bytes_eqb b b = true.
Proof. induction b as [|x b IH]; simpl; [reflexivity|]. rewrite Z.eqb_refl. exact IH. Qed.

Lemma bytes_eqb_eq a : forall b, bytes_eqb a b = true -> a = b.
Proof.
  induction a as [|x a IH]; intros [|y b] H; simpl in *; try discriminate; [reflexivity|].
  apply andb_prop in H as [H1 H2]. apply Z.eqb_eq in H1. f_equal; [exact H1|apply IH; exact H2].
Qed.

Lemma mem_app h a b : mem h (a ++ b) = mem h a || mem h b.
Proof. induction a as [|x a IH]; simpl; [reflexivity|]. rewrite IH. apply orb_assoc. Qed.

Lemma mem_In h l : mem h l = true <-> In h l.
Proof.
  induction l as [|x l IH]; simpl; [split; [discriminate|contradiction]|].
  rewrite orb_true_iff, IH. split.
  - intros [H|H]; [left; symmetry; apply bytes_eqb_eq; exact H|right; exact H].
  - intros [->|H]; [left; apply bytes_eqb_refl|right; exact H].
Qed.

Section Replay.
  Variable content : Type.
  Variable decode : bytes -> option content.
  Variable state : Type.
  Variable admissible : content -> state -> bool.
  Variable apply : content -> state -> state.

  Notation check := (check content decode state admissible).
  Notation deliver := (deliver content decode state admissible apply).
  Notation commit := (commit state).
  Notation node := (node state).

  (* whatever is delivered in a block is in the index after the commit *)
  Theorem delivered_is_indexed (n : node) b :
    mem b (idx state (commit (snd (deliver n b)))) = true.
  Proof.
    unfold deliver, commit, hash. destruct (mem b (idx state n)) eqn:E; simpl.
    - rewrite mem_app, E. apply orb_true_r.
    - destruct (parse content decode b) as [c|]; [destruct (admissible c (st state n))|]; simpl;
        rewrite bytes_eqb_refl; reflexivity.
  Qed.

  (* the index only grows *)
  Theorem index_monotone (n : node) b h : mem h (idx state n) = true ->
    mem h (idx state (snd (deliver n b))) = true /\ mem h (idx state (commit n)) = true.
  Proof.
    intros H. split.
    - unfold deliver. destruct (mem (hash b) (idx state n)); [exact H|].
      destruct (parse content decode b) as [c|]; [destruct (admissible c (st state n))|]; exact H.
    - unfold commit. simpl. rewrite mem_app, H. apply orb_true_r.
  Qed.

  (* byte-identical resubmission of an indexed transaction: rejected by the mempool check as a
     duplicate, and delivering it changes nothing *)
  Theorem identical_bytes_noop (n : node) b : mem b (idx state n) = true ->
    check n b = Duplicate /\ deliver n b = (Duplicate, n).
  Proof. intros H. unfold check, deliver, hash. rewrite H. split; reflexivity. Qed.

  (* when encodings are canonical (no insignificant bytes) and the decoder is injective, the
     same signed content IS the same bytes, hence protected *)
  Definition canonical (b : bytes) : Prop := strip_ws b = b.
  Theorem canonical_same_content_noop (n : node) b b' :
    (forall x y c, decode x = Some c -> decode y = Some c -> x = y) ->
    canonical b -> canonical b' -> parse content decode b <> None ->
    parse content decode b' = parse content decode b ->
    mem b (idx state n) = true -> deliver n b' = (Duplicate, n).
  Proof.
    intros Hinj Hc Hc' Hsome Hsame Hin. unfold parse in *. rewrite Hc, Hc' in *.
    destruct (decode b) as [c|] eqn:E; [|contradiction].
    rewrite (Hinj b' b c Hsame E). apply identical_bytes_noop; exact Hin.
  Qed.
End Replay.

(* the full statement — ANY encoding of the same signed content is protected — is false of the
   faithful model: one leading space gives a different hash and the same parsed transaction *)
Theorem reencoding_executes_twice : exists (b b' : bytes),
  let decode := fun x : bytes => Some x in
  let adm := fun (_ : bytes) (_ : Z) => true in
  let app := fun (_ : bytes) (s : Z) => s + 1 in
  let n0 := {| idx := [] ; st := 0 ; pending := [] |} in
  let n1 := commit Z (snd (deliver bytes decode Z adm app n0 b)) in
  b' <> b /\ parse bytes decode b' = parse bytes decode b /\
  check bytes decode Z adm n1 b' = Accepted /\
  st Z (snd (deliver bytes decode Z adm app n1 b')) = 2.
Proof.
  exists [123; 125], [32; 123; 125]. vm_compute. repeat split; try reflexivity. discriminate.
Qed.
