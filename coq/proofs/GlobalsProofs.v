(* GlobalsProofs.v — the persisted tracker state does not depend on node-local inputs. *)
From Coq Require Import String List Bool Arith Lia.
From OL Require Import theories.Globals.
Import ListNotations.

(* one block end: whatever the node-local inputs are (as long as the node's own job database
   accepts writes), the persisted tracker is the same *)
Lemma persisted_local_independent t l1 l2 :
  l_write_ok l1 = true -> l_write_ok l2 = true ->
  persisted false t l1 = persisted false t l2.
Proof.
  intros H1 H2. unfold persisted, transition.
  destruct (t_state t) as [|[|[|n]]]; cbn [broadcasting finalizing finalization].
  - unfold broadcasting. rewrite H1, H2. destruct (l_flag l1), (l_flag l2); reflexivity.
  - unfold finalizing. rewrite H1, H2.
    destruct (l_flag l1), (l_flag l2), (l_self_voted l1), (l_self_voted l2),
      (l_bjob l1) as [[[] []]|], (l_bjob l2) as [[[] []]|], (l_fjob l1), (l_fjob l2); reflexivity.
  - unfold finalization. rewrite H1, H2.
    destruct (t_finalized t), (l_flag l1), (l_flag l2), (l_self_voted l1), (l_self_voted l2); reflexivity.
  - reflexivity.
Qed.

(* and it is a function of the consensus inputs alone *)
Definition consensus_step (t : tracker) : tracker :=
  match t_state t with
  | 0 => set_state t 1
  | 1 => if Nat.ltb 0 (t_votes t) then set_state t 2 else t
  | 2 => if t_finalized t then set_state t 3 else t
  | _ => t
  end.

Lemma persisted_is_consensus_step t l :
  l_write_ok l = true -> persisted false t l = consensus_step t.
Proof.
  intros H. unfold persisted, transition, consensus_step.
  destruct (t_state t) as [|[|[|n]]].
  - unfold broadcasting. rewrite H. destruct (l_flag l); reflexivity.
  - unfold finalizing. rewrite H.
    destruct (l_flag l), (l_self_voted l), (l_bjob l) as [[[] []]|], (l_fjob l), (Nat.ltb 0 (t_votes t)); reflexivity.
  - unfold finalization. rewrite H.
    destruct (t_finalized t), (l_flag l), (l_self_voted l); reflexivity.
  - reflexivity.
Qed.

(* histories: two nodes (or two lives of one node) fed the same consensus inputs hold the same tracker *)
Theorem run_local_independent h1 : forall h2 t,
  same_inputs h1 h2 -> writes_ok h1 = true -> writes_ok h2 = true ->
  run false t h1 = run false t h2.
Proof.
  induction h1 as [|[c1 l1] h1 IH]; intros [|[c2 l2] h2] t Hs W1 W2; try discriminate; [reflexivity|].
  unfold same_inputs in Hs. cbn [map fst] in Hs. injection Hs as Hc Hs. subst c2.
  cbn [writes_ok forallb] in W1, W2. apply andb_true_iff in W1 as [Wa W1]. apply andb_true_iff in W2 as [Wb W2].
  destruct c1 as [q|]; cbn [run].
  - apply IH; assumption.
  - rewrite (persisted_local_independent t l1 l2 Wa Wb). apply IH; assumption.
Qed.

(* necessity: with the old Finalizing (a missing broadcast job is an error) the node that holds the
   job and the node that does not end in different tracker states after the same inputs *)
Definition node_with_job : local :=
  {| l_flag := true; l_self_voted := false; l_bjob := Some (true, false); l_fjob := false; l_write_ok := true |}.
Definition node_restarted_without_job : local :=
  {| l_flag := true; l_self_voted := false; l_bjob := None; l_fjob := false; l_write_ok := true |}.
Definition fresh_node : local :=
  {| l_flag := false; l_self_voted := false; l_bjob := None; l_fjob := false; l_write_ok := true |}.

Example old_finalizing_node_dependent :
  let t := {| t_state := 1; t_votes := 1; t_finalized := false |} in
  t_state (persisted true t node_with_job) = 2 /\
  t_state (persisted true t fresh_node) = 2 /\
  t_state (persisted true t node_restarted_without_job) = 1 /\
  (* the repaired transition agrees on all three *)
  t_state (persisted false t node_restarted_without_job) = 2.
Proof. vm_compute. repeat split; reflexivity. Qed.

(* non-vacuity: a history that goes through every stage on two differently placed nodes *)
Example run_reaches_finalized :
  let t0 := {| t_state := 0; t_votes := 0; t_finalized := false |} in
  let cin := [EndBlock; Vote false; EndBlock; Vote true; EndBlock; EndBlock] in
  let h1 := map (fun c => (c, node_with_job)) cin in
  let h2 := map (fun c => (c, node_restarted_without_job)) cin in
  same_inputs h1 h2 /\ writes_ok h1 = true /\ writes_ok h2 = true /\
  t_state (run false t0 h1) = 3 /\ run false t0 h1 = run false t0 h2 /\
  t_state (run true t0 h2) = 1.
Proof. vm_compute. repeat split; reflexivity. Qed.
