(* TrackerProofs.v — lemmas and proofs about the model in theories/Tracker.v (property C15). *)
From stdpp Require Import gmap list.
From Coq Require Import ZArith Lia.
From OL Require Import theories.Tracker.
Local Open Scope Z_scope.

(* ---------- small facts ---------- *)

Lemma has_true (m : gmap name tracker) n : has m n = true <-> is_Some (m !! n).
Proof. unfold has. destruct (m !! n); split; intros H; try done; try (by eexists). by destruct H. Qed.
Lemma has_false (m : gmap name tracker) n : has m n = false <-> m !! n = None.
Proof. unfold has. destruct (m !! n); split; intros H; done. Qed.

Lemma vstep_cases E s o s' r :
  vstep E s o = (s', r) -> s' = s \/ (valid E o = true /\ step E s o = (s', r)).
Proof. unfold vstep. destruct (valid E o); [by right|intros [= <- _]; by left]. Qed.

Lemma balof_credit b a z c :
  balof (credit b a z) c = if decide (c = a) then balof b a + z else balof b c.
Proof.
  unfold credit, balof at 1. destruct (decide (c = a)) as [->|Hne].
  - by rewrite lookup_insert.
  - by rewrite lookup_insert_ne.
Qed.

(* ---------- votes ---------- *)

Lemma count_insert x y l k :
  l !! k = Some y ->
  forall v, count x (<[k := v]> l) = count x l - (if y =? x then 1 else 0) + (if v =? x then 1 else 0).
Proof.
  revert k. induction l as [|h r IH]; intros k Hk v; [done|].
  destruct k as [|k]; simpl in *.
  - inversion Hk; subst. lia.
  - rewrite (IH k Hk v). lia.
Qed.

Lemma count_bounds x l : 0 <= count x l <= Z.of_nat (length l).
Proof. induction l as [|h r IH]; simpl; [lia|]. destruct (h =? x); lia. Qed.

Lemma index_of_lookup a l i : index_of a l = Some i -> l !! i = Some a.
Proof.
  revert i. induction l as [|b r IH]; intros i; simpl; [done|].
  destruct (N.eqb_spec b a) as [->|Hne].
  - intros [= <-]. done.
  - destruct (index_of a r) as [j|]; simpl; [|done]. intros [= <-]. simpl. by apply IH.
Qed.

Lemma index_of_nodup a l i : NoDup l -> l !! i = Some a -> index_of a l = Some i.
Proof.
  intros Hnd. revert i. induction Hnd as [|b r Hnin Hnd IH]; intros i; [done|].
  destruct i as [|i]; simpl.
  - intros [= ->]. by rewrite N.eqb_refl.
  - intros Hi. destruct (N.eqb_spec b a) as [->|Hne].
    + exfalso. apply Hnin. by eapply elem_of_list_lookup_2.
    + by rewrite (IH i Hi).
Qed.

Lemma index_of_none a l : index_of a l = None -> a ∉ l.
Proof.
  induction l as [|b r IH]; simpl; [intros _; apply not_elem_of_nil|].
  destruct (N.eqb_spec b a) as [->|Hne]; [done|].
  destruct (index_of a r); [done|]. intros _ [->|Hin]%elem_of_cons; [done|]. by apply IH.
Qed.

(* what AddVote can do: nothing, or fill the slot the reporter is the recorded witness of *)
Lemma add_vote_ok t a idx v t' :
  add_vote t a idx v = AVOk t' ->
  t' = t \/
  exists k, idx = Z.of_nat k /\ t_wit t !! k = Some a /\ voted t a = false /\
            t' = set_votes t (<[k := vote_code v]> (t_votes t)).
Proof.
  unfold add_vote. destruct (_ <=? idx); [done|].
  destruct (voted t a) eqn:Hv; [done|].
  destruct (idx <? 0) eqn:Hneg; [done|]. apply Z.ltb_ge in Hneg.
  destruct (t_wit t !! Z.to_nat idx) as [b|] eqn:Hl; [|intros [= <-]; by left].
  destruct (N.eqb_spec b a) as [->|Hne]; intros [= <-]; [|by left].
  right. exists (Z.to_nat idx). split; [lia|]. done.
Qed.

Lemma add_vote_fields t a idx v t' :
  add_vote t a idx v = AVOk t' ->
  t_type t' = t_type t /\ t_state t' = t_state t /\ t_name t' = t_name t /\ t_tx t' = t_tx t /\
  t_wit t' = t_wit t /\ t_owner t' = t_owner t /\ length (t_votes t') = length (t_votes t).
Proof.
  intros [->|(k & _ & _ & _ & ->)]%add_vote_ok; [done|]. simpl. by rewrite insert_length.
Qed.

(* a reporter that is not a recorded witness changes no slot *)
Lemma add_vote_non_witness t a idx v t' :
  a ∉ t_wit t -> add_vote t a idx v = AVOk t' -> t' = t.
Proof.
  intros Hnin [->|(k & _ & Hk & _)]%add_vote_ok; [done|].
  exfalso. apply Hnin. by eapply elem_of_list_lookup_2.
Qed.

(* a recorded witness whose slot is already filled is refused *)
Lemma add_vote_second t a idx v k :
  NoDup (t_wit t) -> t_wit t !! k = Some a -> slot t k <> 0 -> 0 <= slot t k ->
  Z.of_nat (length (t_wit t)) <=? idx = false ->
  add_vote t a idx v = AVErr.
Proof.
  intros Hnd Hk Hs Hs0 Hlen. unfold add_vote. rewrite Hlen.
  unfold voted. rewrite (index_of_nodup _ _ _ Hnd Hk).
  destruct (0 <? slot t k) eqn:Hlt; [done|]. apply Z.ltb_ge in Hlt. lia.
Qed.

(* with duplicate-free witnesses the filled slot was empty *)
Lemma add_vote_slot_empty t a k :
  NoDup (t_wit t) -> t_wit t !! k = Some a -> voted t a = false -> slot t k <= 0.
Proof.
  intros Hnd Hk. unfold voted. rewrite (index_of_nodup _ _ _ Hnd Hk).
  intros Hlt. apply Z.ltb_ge in Hlt. done.
Qed.

(* ---------- the shape of a report-finality step ---------- *)

Inductive report_shape (E : env) (s : state) (n : name) (l : acct) (t t' : tracker) : state -> Prop :=
| RS_mint amt : finalizedb t' = true -> t_type t' = T_LOCK -> x_lock (e_tx E (t_tx t')) = Some amt ->
    report_shape E s n l t t'
      {| ongoing := <[n := set_state t' S_RELEASED]> (ongoing s); passed := passed s; failed := failed s;
         bal := credit (credit (bal s) (t_owner t') amt) (e_supply E) amt; log := Minted n (t_owner t') amt :: log s |}
| RS_release : finalizedb t' = true -> t_type t' = T_REDEEM ->
    report_shape E s n l t t' (upd_ongoing s (<[n := set_state t' S_RELEASED]> (ongoing s)))
| RS_faillock : finalizedb t' = false -> failedb t' = true -> t_type t' = T_LOCK ->
    report_shape E s n l t t' (upd_ongoing s (<[n := set_state t' S_FAILED]> (ongoing s)))
| RS_refund amt : finalizedb t' = false -> failedb t' = true -> t_type t' = T_REDEEM ->
    x_redeem (e_tx E (t_tx t')) = Some amt ->
    report_shape E s n l t t'
      {| ongoing := <[n := set_state t' S_FAILED]> (ongoing s); passed := passed s; failed := failed s;
         bal := credit (credit (bal s) (t_owner t') amt) (e_supply E) amt;
         log := Refunded n (t_owner t') amt :: log s |}
| RS_vote : finalizedb t' = false -> failedb t' = false ->
    report_shape E s n l t t' (upd_ongoing s (<[n := t']> (ongoing s))).

Lemma report_cases E s n l v idx b s' r :
  do_report E s n l v idx b = (s', r) ->
  s' = s \/
  exists t t', ongoing s !! n = Some t /\ finalizedb t = false /\ failedb t = false /\
               add_vote t v idx b = AVOk t' /\ r = Ok /\ report_shape E s n l t t' s'.
Proof.
  unfold do_report. destruct (ongoing s !! n) as [t|] eqn:Ht; [|intros [= <- _]; by left].
  destruct (finalizedb t) eqn:Hfin; simpl; [intros [= <- _]; by left|].
  destruct (failedb t) eqn:Hfail; simpl; [intros [= <- _]; by left|].
  destruct (add_vote t v idx b) as [| |t'] eqn:Hav; try (intros [= <- _]; by left).
  destruct (finalizedb t') eqn:Hfin'.
  - destruct (t_type t' =? T_LOCK) eqn:Hty.
    + apply Z.eqb_eq in Hty. destruct (x_lock (e_tx E (t_tx t'))) as [amt|] eqn:Hx; [|intros [= <- _]; by left].
      intros [= <- <-]. right. exists t, t'. repeat split; try done. by eapply RS_mint.
    + destruct (t_type t' =? T_REDEEM) eqn:Hty2; [|intros [= <- _]; by left].
      apply Z.eqb_eq in Hty2. intros [= <- <-]. right. exists t, t'. repeat split; try done. by apply RS_release.
  - destruct (failedb t') eqn:Hfail'.
    + destruct (t_type t' =? T_LOCK) eqn:Hty.
      * apply Z.eqb_eq in Hty. intros [= <- <-]. right. exists t, t'. repeat split; try done. by apply RS_faillock.
      * destruct (t_type t' =? T_REDEEM) eqn:Hty2; [|intros [= <- _]; by left].
        apply Z.eqb_eq in Hty2.
        destruct (x_redeem (e_tx E (t_tx t'))) as [amt|] eqn:Hx; [|intros [= <- _]; by left].
        intros [= <- <-]. right. exists t, t'. repeat split; try done. by eapply RS_refund.
    + intros [= <- <-]. right. exists t, t'. repeat split; try done. by apply RS_vote.
Qed.

Lemma count_insert_other x v l k : v <> x -> count x (<[k := v]> l) <= count x l.
Proof.
  intros Hne. destruct (l !! k) as [y|] eqn:Hk.
  - rewrite (count_insert _ _ _ _ Hk). destruct (Z.eqb_spec v x); [done|]. destruct (y =? x); lia.
  - rewrite list_insert_ge; [lia|]. by apply lookup_ge_None.
Qed.

Lemma list_neq_cons {A} (e : A) l : l <> e :: l.
Proof. intros H. apply (f_equal length) in H. simpl in H. lia. Qed.

(* ---------- block-end transitions touch neither balances nor the log ---------- *)

Lemma transition_bal_log nl s n : bal (transition nl s n).1 = bal s /\ log (transition nl s n).1 = log s.
Proof.
  unfold transition. destruct (ongoing s !! n) as [t|]; [|done].
  repeat (match goal with |- context [if ?c then _ else _] => destruct c end); done.
Qed.

Lemma end_block_bal_log nl names : forall s, bal (end_block nl s names).1 = bal s /\ log (end_block nl s names).1 = log s.
Proof.
  induction names as [|n r IH]; intros s; simpl; [done|].
  destruct (transition nl s n) as [s1 o1] eqn:H1. destruct (end_block nl s1 r) as [s2 o2] eqn:H2. simpl.
  pose proof (IH s1) as [Hb Hl]. rewrite H2 in Hb, Hl. simpl in *.
  pose proof (transition_bal_log nl s n) as [Hb1 Hl1]. rewrite H1 in Hb1, Hl1. simpl in *.
  split; congruence.
Qed.

(* ---------- mint: only at the crossing, of the recorded witnesses, in the locked amount ---------- *)

Theorem mint_gated E s o s' r n a z :
  step E s o = (s', r) -> log s' = Minted n a z :: log s ->
  exists l v idx k t,
    o = Report n l v idx true /\ r = Ok /\
    ongoing s !! n = Some t /\ t_type t = T_LOCK /\ a = t_owner t /\
    idx = Z.of_nat k /\ t_wit t !! k = Some v /\ voted t v = false /\
    let t' := set_votes t (<[k := 1]> (t_votes t)) in
    yes_votes t < threshold t /\ threshold t <= yes_votes t' /\
    x_lock (e_tx E (t_tx t)) = Some z /\
    ongoing s' !! n = Some (set_state t' S_RELEASED) /\
    passed s' = passed s /\ failed s' = failed s /\
    bal s' = credit (credit (bal s) a z) (e_supply E) z.
Proof.
  destruct o as [snd x|snd x|n0 l v idx b|f t0 amt|nl names]; simpl.
  - unfold do_lock. repeat case_match; intros [= <- _]; simpl; intros Hlg; try (by apply list_neq_cons in Hlg); done.
  - unfold do_redeem. repeat case_match; intros [= <- _]; simpl; intros Hlg; try (by apply list_neq_cons in Hlg); done.
  - intros Hstep Hlog. apply report_cases in Hstep as [->|(t & t' & Ht & Hfin & Hfail & Hav & -> & Hsh)].
    { by apply list_neq_cons in Hlog. }
    inversion Hsh as [amt Hfin' Hty Hx Hs'|? ? Hs'|? ? ? Hs'|amt ? ? ? ? Hs'|? ? Hs']; subst s'; simpl in Hlog;
      try (by apply list_neq_cons in Hlog); try done.
    injection Hlog as Hn Ha Hz; subst.
    apply add_vote_ok in Hav as Hav'. destruct Hav' as [->|(k & -> & Hk & Hvoted & ->)]; [congruence|].
    destruct b.
    2:{ exfalso. unfold finalizedb, threshold, yes_votes in *. simpl in *.
        pose proof (count_insert_other 1 2 (t_votes t) k ltac:(lia)). apply Z.leb_le in Hfin'. apply Z.leb_gt in Hfin. lia. }
    exists l, v, (Z.of_nat k), k, t. simpl in *.
    unfold finalizedb in Hfin, Hfin'. apply Z.leb_gt in Hfin. apply Z.leb_le in Hfin'. simpl in *.
    repeat split; try done; try lia; try (by rewrite lookup_insert).
  - unfold do_transfer. repeat case_match; intros [= <- _]; simpl; intros Hlg; by apply list_neq_cons in Hlg.
  - intros Hstep Hlog. pose proof (end_block_bal_log nl names s) as [_ Hl]. rewrite Hstep in Hl. simpl in Hl.
    rewrite Hl in Hlog. by apply list_neq_cons in Hlog.
Qed.

(* refund: only at the crossing of the no-votes, in the redeemed amount, to the tracker's owner *)
Theorem refund_gated E s o s' r n a z :
  step E s o = (s', r) -> log s' = Refunded n a z :: log s ->
  exists l v idx k t,
    o = Report n l v idx false /\ r = Ok /\
    ongoing s !! n = Some t /\ t_type t = T_REDEEM /\ a = t_owner t /\
    idx = Z.of_nat k /\ t_wit t !! k = Some v /\ voted t v = false /\
    let t' := set_votes t (<[k := 2]> (t_votes t)) in
    no_votes t < threshold t /\ threshold t <= no_votes t' /\
    x_redeem (e_tx E (t_tx t)) = Some z /\
    ongoing s' !! n = Some (set_state t' S_FAILED) /\
    passed s' = passed s /\ failed s' = failed s /\
    bal s' = credit (credit (bal s) a z) (e_supply E) z.
Proof.
  destruct o as [snd x|snd x|n0 l v idx b|f t0 amt|nl names]; simpl.
  - unfold do_lock. repeat case_match; intros [= <- _]; simpl; intros Hlg; try (by apply list_neq_cons in Hlg); done.
  - unfold do_redeem. repeat case_match; intros [= <- _]; simpl; intros Hlg; try (by apply list_neq_cons in Hlg); done.
  - intros Hstep Hlog. apply report_cases in Hstep as [->|(t & t' & Ht & Hfin & Hfail & Hav & -> & Hsh)].
    { by apply list_neq_cons in Hlog. }
    inversion Hsh as [amt Hfin' Hty Hx Hs'|? ? Hs'|? ? ? Hs'|amt Hfin' Hfail' Hty Hx Hs'|? ? Hs']; subst s'; simpl in Hlog;
      try (by apply list_neq_cons in Hlog); try done.
    injection Hlog as Hn Ha Hz; subst.
    apply add_vote_ok in Hav as Hav'. destruct Hav' as [->|(k & -> & Hk & Hvoted & ->)]; [congruence|].
    destruct b.
    { exfalso. unfold failedb, threshold, no_votes in *. simpl in *.
      pose proof (count_insert_other 2 1 (t_votes t) k ltac:(lia)). apply Z.leb_le in Hfail'. apply Z.leb_gt in Hfail. lia. }
    exists l, v, (Z.of_nat k), k, t. simpl in *.
    unfold failedb in Hfail, Hfail'. apply Z.leb_gt in Hfail. apply Z.leb_le in Hfail'. simpl in *.
    repeat split; try done; try lia; try (by rewrite lookup_insert).
  - unfold do_transfer. repeat case_match; intros [= <- _]; simpl; intros Hlg; by apply list_neq_cons in Hlg.
  - intros Hstep Hlog. pose proof (end_block_bal_log nl names s) as [_ Hl]. rewrite Hstep in Hl. simpl in Hl.
    rewrite Hl in Hlog. by apply list_neq_cons in Hlog.
Qed.

(* ---------- beneficiary: the account that submitted the lock ---------- *)

Theorem mint_to_submitter E s o s' r n a z :
  step E s o = (s', r) -> log s' = Minted n a z :: log s ->
  exists t, ongoing s !! n = Some t /\ t_type t = T_LOCK /\ a = t_owner t /\
            balof (bal s') a = balof (bal s) a + z + (if decide (a = e_supply E) then z else 0).
Proof.
  intros Hstep Hlog.
  destruct (mint_gated _ _ _ _ _ _ _ _ Hstep Hlog) as (l & v & idx & k & t & -> & _ & Ht & Hty & -> & _ & _ & _ & Hrest).
  destruct Hrest as (_ & _ & _ & _ & _ & _ & Hb).
  exists t. repeat split; try done. rewrite Hb, !balof_credit.
  destruct (decide (t_owner t = e_supply E)) as [->|Hne]; rewrite ?decide_True by done; lia.
Qed.

(* runLock records the sender as the owner *)
Theorem lock_records_sender E s a x s' :
  do_lock E s a x = (s', Ok) ->
  ongoing s' !! x_name (e_tx E x) = Some (new_tracker T_LOCK a x (x_name (e_tx E x)) (e_wits E)) /\
  ongoing s !! x_name (e_tx E x) = None /\ passed s !! x_name (e_tx E x) = None.
Proof.
  unfold do_lock. destruct (x_lock (e_tx E x)); [|done]. destruct (negb _); [done|].
  destruct (has (ongoing s) _) eqn:Ho; simpl; [done|]. destruct (has (passed s) _) eqn:Hp; simpl; [done|].
  intros [= <-]. simpl. apply has_false in Ho, Hp. by rewrite lookup_insert.
Qed.

(* ---------- redeem: the debit and the creation of the tracker are one step ---------- *)

Theorem redeem_debits E s a x s' :
  do_redeem E s a x = (s', Ok) ->
  exists amt, x_redeem (e_tx E x) = Some amt /\
    let n := x_name (e_tx E x) in
    ongoing s !! n = None /\ passed s !! n = None /\ failed s !! n = None /\
    ongoing s' !! n = Some (new_tracker T_REDEEM a x n (e_wits E)) /\
    amt <= balof (bal s) a /\
    bal s' = credit (credit (bal s) a (- amt)) (e_supply E) (- amt) /\
    log s' = Debited n a amt :: log s.
Proof.
  unfold do_redeem. destruct (x_redeem (e_tx E x)) as [amt|]; [|done].
  destruct (balof (bal s) a - amt <? 0) eqn:H1; [done|].
  destruct (balof (credit (bal s) a (- amt)) (e_supply E) - amt <? 0) eqn:H2; [done|].
  destruct (has (ongoing s) _) eqn:Ho; simpl; [done|]. destruct (has (failed s) _) eqn:Hf; simpl; [done|].
  destruct (has (passed s) _) eqn:Hp; simpl; [done|]. intros [= <-]. exists amt. simpl.
  apply has_false in Ho, Hf, Hp. apply Z.ltb_ge in H1.
  repeat split; try done; try lia. by rewrite lookup_insert.
Qed.

(* a failed handler changes nothing; a successful one other than redeem debits nobody *)
Lemma redeem_fail_noop E s a x s' r : do_redeem E s a x = (s', r) -> r <> Ok -> s' = s.
Proof. unfold do_redeem. repeat case_match; intros [= <- <-]; done. Qed.

(* ---------- the supply counter ---------- *)

Lemma tot_fresh (b : gmap acct Z) a v : b !! a = None -> tot (<[a := v]> b) = v + tot b.
Proof.
  intros Hb. unfold tot.
  rewrite (map_fold_insert_L (fun _ v acc => v + acc) 0 a v b); [done|intros; lia|done].
Qed.

Lemma tot_insert (b : gmap acct Z) a v : tot (<[a := v]> b) = tot b - balof b a + v.
Proof.
  unfold balof. destruct (b !! a) as [x|] eqn:Hb; simpl.
  - rewrite <- (insert_delete_insert b a v).
    rewrite tot_fresh by (by rewrite lookup_delete).
    rewrite <- (insert_delete b a x Hb) at 2.
    rewrite tot_fresh by (by rewrite lookup_delete). lia.
  - rewrite tot_fresh by done. lia.
Qed.

Lemma tot_credit b a z : tot (credit b a z) = tot b + z.
Proof. unfold credit. rewrite tot_insert. lia. Qed.

Theorem supply_step E s o s' r :
  supply_ok E s -> trig_supply E s o = false -> step E s o = (s', r) -> supply_ok E s'.
Proof.
  unfold supply_ok. intros Hok Htr.
  destruct o as [snd x|snd x|n l v idx b|f t0 amt|nl names]; simpl in *.
  - unfold do_lock. repeat case_match; intros [= <- _]; done.
  - apply N.eqb_neq in Htr. unfold do_redeem. repeat case_match; intros [= <- _]; try done. simpl.
    rewrite !tot_credit, !balof_credit. rewrite decide_True by done. rewrite decide_False by done. lia.
  - intros Hstep. apply report_cases in Hstep as [->|(t & t' & Ht & _ & _ & Hav & _ & Hsh)]; [done|].
    rewrite Ht in Htr. apply N.eqb_neq in Htr.
    apply add_vote_fields in Hav as (_ & _ & _ & _ & _ & Ho & _).
    inversion Hsh; subst; simpl; try done.
    + rewrite !tot_credit, !balof_credit. rewrite decide_True by done. rewrite decide_False by congruence. lia.
    + rewrite !tot_credit, !balof_credit. rewrite decide_True by done. rewrite decide_False by congruence. lia.
  - apply orb_false_iff in Htr as [Hf Ht]. apply N.eqb_neq in Hf, Ht.
    unfold do_transfer. repeat case_match; intros [= <- _]; try done. simpl.
    rewrite !tot_credit, !balof_credit. rewrite !decide_False by done. lia.
  - intros Hstep. pose proof (end_block_bal_log nl names s) as [Hb _]. rewrite Hstep in Hb. simpl in Hb. by rewrite Hb.
Qed.

Theorem supply_run E ops : forall s, supply_ok E s -> supply_guarded E s ops -> supply_ok E (run E s ops).
Proof.
  induction ops as [|o r IH]; intros s Hok Hg; [done|]. simpl in *. destruct Hg as [Htr Hg].
  apply IH; [|done]. destruct (vstep E s o) as [s' out] eqn:Hstep. simpl.
  apply vstep_cases in Hstep as [->|[_ Hstep]]; [done|]. by eapply supply_step.
Qed.

(* ---------- the shape of one block-end iteration ---------- *)

Lemma transition_cases nl s n s' r :
  transition nl s n = (s', r) ->
  s' = s \/
  exists t, ongoing s !! n = Some t /\
    ((exists X, (t_state t = S_NEW /\ X = S_BUSYBROADCASTING \/
                 t_state t = S_BUSYBROADCASTING /\ X = S_BUSYFINALIZING \/
                 t_state t = S_BUSYFINALIZING /\ X = S_FINALIZED /\ finalizedb t = true) /\
                s' = upd_ongoing s (<[n := set_state t X]> (ongoing s))) \/
     (t_state t = S_RELEASED /\ s' = move_to_passed s n t) \/
     (t_state t = S_FAILED /\ s' = move_to_failed s n t)).
Proof.
  unfold transition. destruct (ongoing s !! n) as [t|] eqn:Ht; [|intros [= <- _]; by left].
  repeat (match goal with |- context [if ?c then _ else _] => destruct c eqn:? end);
    intros [= <- _]; try (by left); right; exists t; (split; [done|]);
    repeat match goal with H : (_ =? _) = true |- _ => apply Z.eqb_eq in H end.
  all: try (left; eexists; split; [|reflexivity]; tauto).
  all: try (right; left; done).
  all: try (right; right; done).
Qed.

(* ---------- at most one mint per external transaction name ---------- *)

Definition mint_inv (s : state) : Prop :=
  forall n, n ∈ minted_names (log s) ->
    (exists t, ongoing s !! n = Some t /\ t_state t = S_RELEASED /\ finalizedb t = true) \/
    (ongoing s !! n = None /\ is_Some (passed s !! n)).

Lemma mint_inv_transition nl s n s' r : mint_inv s -> transition nl s n = (s', r) -> mint_inv s'.
Proof.
  intros Hinv Htr.
  pose proof (transition_bal_log nl s n) as [_ Hlog]. rewrite Htr in Hlog. simpl in Hlog.
  apply transition_cases in Htr as [->|(t & Ht & Hc)]; [done|].
  intros m Hm. rewrite Hlog in Hm. specialize (Hinv m Hm).
  destruct (decide (m = n)) as [->|Hne].
  - destruct Hinv as [(t0 & Ht0 & Hst & Hfin)|[Hnone _]]; [|congruence].
    rewrite Ht in Ht0. injection Ht0 as <-.
    destruct Hc as [(X & Hx & ->)|[[Hs ->]|[Hs ->]]]; simpl.
    + unfold S_NEW, S_BUSYBROADCASTING, S_BUSYFINALIZING, S_RELEASED in *. lia.
    + right. rewrite lookup_delete, lookup_insert. split; [done|by eexists].
    + unfold S_FAILED, S_RELEASED in *. lia.
  - destruct Hc as [(X & Hx & ->)|[[Hs ->]|[Hs ->]]]; simpl;
      rewrite ?lookup_insert_ne, ?lookup_delete_ne by done; done.
Qed.

Lemma mint_inv_end_block nl names : forall s s' r, mint_inv s -> end_block nl s names = (s', r) -> mint_inv s'.
Proof.
  induction names as [|n rest IH]; intros s s' r Hinv; simpl; [intros [= <- _]; done|].
  destruct (transition nl s n) as [s1 o1] eqn:H1. destruct (end_block nl s1 rest) as [s2 o2] eqn:H2.
  intros [= <- _]. eapply IH; [|exact H2]. by eapply mint_inv_transition.
Qed.

Lemma finalizedb_set_state t X : finalizedb (set_state t X) = finalizedb t.
Proof. done. Qed.
Lemma failedb_set_state t X : failedb (set_state t X) = failedb t.
Proof. done. Qed.

Lemma mint_inv_step E s o s' r : mint_inv s -> step E s o = (s', r) -> mint_inv s'.
Proof.
  intros Hinv. destruct o as [snd x|snd x|n l v idx b|f t0 amt|nl names]; simpl.
  - unfold do_lock. destruct (x_lock (e_tx E x)); [|intros [= <- _]; done].
    destruct (negb _); [intros [= <- _]; done|].
    destruct (has (ongoing s) _) eqn:Ho; simpl; [intros [= <- _]; done|].
    destruct (has (passed s) _) eqn:Hp; simpl; [intros [= <- _]; done|].
    intros [= <- _]. apply has_false in Ho, Hp. intros m Hm. simpl in *. specialize (Hinv m Hm).
    destruct (decide (m = x_name (e_tx E x))) as [->|Hne].
    + destruct Hinv as [(t0 & Ht0 & _)|[_ [? Hsome]]]; congruence.
    + rewrite lookup_insert_ne by done. done.
  - unfold do_redeem. destruct (x_redeem (e_tx E x)); [|intros [= <- _]; done].
    destruct (_ <? 0); [intros [= <- _]; done|]. destruct (_ <? 0); [intros [= <- _]; done|].
    destruct (has (ongoing s) _) eqn:Ho; simpl; [intros [= <- _]; done|].
    destruct (has (failed s) _) eqn:Hf; simpl; [intros [= <- _]; done|].
    destruct (has (passed s) _) eqn:Hp; simpl; [intros [= <- _]; done|].
    intros [= <- _]. apply has_false in Ho, Hp. intros m Hm. simpl in *. specialize (Hinv m Hm).
    destruct (decide (m = x_name (e_tx E x))) as [->|Hne].
    + destruct Hinv as [(t0 & Ht0 & _)|[_ [? Hsome]]]; congruence.
    + rewrite lookup_insert_ne by done. done.
  - intros Hstep. apply report_cases in Hstep as [->|(t & t' & Ht & Hfin & Hfail & Hav & _ & Hsh)]; [done|].
    assert (Hother : forall m, m <> n -> m ∈ minted_names (log s) ->
              forall o', (exists t0, <[n := o']> (ongoing s) !! m = Some t0 /\ t_state t0 = S_RELEASED /\ finalizedb t0 = true) \/
                         (<[n := o']> (ongoing s) !! m = None /\ is_Some (passed s !! m))).
    { intros m Hne Hm o'. rewrite lookup_insert_ne by done. by apply Hinv. }
    assert (Hn : n ∉ minted_names (log s)).
    { intros Hm. destruct (Hinv n Hm) as [(t0 & Ht0 & _ & Hf0)|[Hnone _]]; congruence. }
    inversion Hsh; subst; intros m Hm; simpl in *.
    + apply elem_of_cons in Hm as [->|Hm].
      * left. eexists. rewrite lookup_insert. split; [done|]. split; [done|]. by rewrite finalizedb_set_state.
      * destruct (decide (m = n)) as [->|Hne]; [done|]. by apply Hother.
    + destruct (decide (m = n)) as [->|Hne]; [done|]. by apply Hother.
    + destruct (decide (m = n)) as [->|Hne]; [done|]. by apply Hother.
    + destruct (decide (m = n)) as [->|Hne]; [done|]. by apply Hother.
    + destruct (decide (m = n)) as [->|Hne]; [done|]. by apply Hother.
  - unfold do_transfer. repeat case_match; intros [= <- _]; done.
  - intros Hstep. by eapply mint_inv_end_block.
Qed.

Lemma mint_inv_run E ops : forall s, mint_inv s -> mint_inv (run E s ops).
Proof.
  induction ops as [|o r IH]; intros s Hinv; [done|]. simpl. apply IH.
  destruct (vstep E s o) as [s' out] eqn:Hstep. simpl. apply vstep_cases in Hstep as [->|[_ Hstep]]; [done|]. by eapply mint_inv_step.
Qed.

Definition mint_once (s : state) : Prop := mint_inv s /\ NoDup (minted_names (log s)).

Lemma mint_once_step E s o s' r : mint_once s -> step E s o = (s', r) -> mint_once s'.
Proof.
  intros [Hinv Hnd] Hstep. split; [by eapply mint_inv_step|].
  destruct o as [snd x|snd x|n l v idx b|f t0 amt|nl names]; simpl in Hstep.
  - unfold do_lock in Hstep. repeat case_match; injection Hstep as <- _; done.
  - unfold do_redeem in Hstep. repeat case_match; injection Hstep as <- _; done.
  - apply report_cases in Hstep as [->|(t & t' & Ht & Hfin & Hfail & Hav & _ & Hsh)]; [done|].
    inversion Hsh; subst; simpl; try done.
    apply NoDup_cons. split; [|done].
    intros Hm. destruct (Hinv n Hm) as [(t0 & Ht0 & _ & Hf0)|[Hnone _]]; congruence.
  - unfold do_transfer in Hstep. repeat case_match; injection Hstep as <- _; done.
  - pose proof (end_block_bal_log nl names s) as [_ Hl]. rewrite Hstep in Hl. simpl in Hl. by rewrite Hl.
Qed.

Theorem mint_at_most_once E ops b : NoDup (minted_names (log (run E (init b) ops))).
Proof.
  assert (H : forall ops s, mint_once s -> mint_once (run E s ops)).
  { clear ops. induction ops as [|o r IH]; intros s Hs; [done|]. simpl. apply IH.
    destruct (vstep E s o) as [s' out] eqn:Hstep. simpl. apply vstep_cases in Hstep as [->|[_ Hstep]]; [done|]. by eapply mint_once_step. }
  apply H. split; [intros n Hn; simpl in Hn; by apply elem_of_nil in Hn|simpl; constructor].
Qed.

(* ---------- one tracker per external transaction name across the three stores ---------- *)

Definition stores_disjoint (s : state) : Prop :=
  (forall n, is_Some (ongoing s !! n) -> passed s !! n = None /\ failed s !! n = None) /\
  (forall n, is_Some (passed s !! n) -> failed s !! n = None).

Lemma disjoint_upd s n t t2 :
  stores_disjoint s -> ongoing s !! n = Some t -> stores_disjoint (upd_ongoing s (<[n := t2]> (ongoing s))).
Proof.
  intros [D1 D2] Ht. split; simpl; [|done].
  intros n0 Hs. destruct (decide (n0 = n)) as [->|Hne]; [apply D1; by eexists|].
  rewrite lookup_insert_ne in Hs by done. by apply D1.
Qed.

Lemma disjoint_transition nl s n s' r : stores_disjoint s -> transition nl s n = (s', r) -> stores_disjoint s'.
Proof.
  intros Hd Htr. apply transition_cases in Htr as [->|(t & Ht & Hc)]; [done|].
  destruct Hc as [(X & _ & ->)|[[_ ->]|[_ ->]]].
  - by eapply disjoint_upd.
  - destruct Hd as [D1 D2]. destruct (D1 n ltac:(by eexists)) as [Hp Hf]. split; simpl.
    + intros n0 Hs. destruct (decide (n0 = n)) as [->|Hne]; [rewrite lookup_delete in Hs; by destruct Hs|].
      rewrite lookup_delete_ne in Hs by done. rewrite lookup_insert_ne by done. by apply D1.
    + intros n0 Hs. destruct (decide (n0 = n)) as [->|Hne]; [done|].
      rewrite lookup_insert_ne in Hs by done. by apply D2.
  - destruct Hd as [D1 D2]. destruct (D1 n ltac:(by eexists)) as [Hp Hf]. split; simpl.
    + intros n0 Hs. destruct (decide (n0 = n)) as [->|Hne]; [rewrite lookup_delete in Hs; by destruct Hs|].
      rewrite lookup_delete_ne in Hs by done. rewrite lookup_insert_ne by done. by apply D1.
    + intros n0 Hs. destruct (decide (n0 = n)) as [->|Hne]; [rewrite Hp in Hs; by destruct Hs|].
      rewrite lookup_insert_ne by done. by apply D2.
Qed.

Lemma disjoint_end_block nl names : forall s s' r, stores_disjoint s -> end_block nl s names = (s', r) -> stores_disjoint s'.
Proof.
  induction names as [|n rest IH]; intros s s' r Hd; simpl; [intros [= <- _]; done|].
  destruct (transition nl s n) as [s1 o1] eqn:H1. destruct (end_block nl s1 rest) as [s2 o2] eqn:H2.
  intros [= <- _]. eapply IH; [|exact H2]. by eapply disjoint_transition.
Qed.

Lemma disjoint_step E s o s' r : stores_disjoint s -> step E s o = (s', r) -> stores_disjoint s'.
Proof.
  intros Hd. destruct o as [snd x|snd x|n l v idx b|f t0 amt|nl names]; simpl.
  - unfold do_lock. destruct (x_lock (e_tx E x)); [|intros [= <- _]; done].
    destruct (negb _); [intros [= <- _]; done|].
    destruct (has (ongoing s) _) eqn:Ho; simpl; [intros [= <- _]; done|].
    destruct (has (passed s) _) eqn:Hp; simpl; [intros [= <- _]; done|].
    intros [= <- _]. apply has_false in Ho, Hp. destruct Hd as [D1 D2]. split; simpl.
    + intros n0 Hs. destruct (decide (n0 = x_name (e_tx E x))) as [->|Hne]; [by rewrite lookup_delete|].
      rewrite lookup_insert_ne in Hs by done. rewrite lookup_delete_ne by done. by apply D1.
    + intros n0 Hs. destruct (decide (n0 = x_name (e_tx E x))) as [->|Hne]; [by rewrite lookup_delete|].
      rewrite lookup_delete_ne by done. by apply D2.
  - unfold do_redeem. destruct (x_redeem (e_tx E x)); [|intros [= <- _]; done].
    destruct (_ <? 0); [intros [= <- _]; done|]. destruct (_ <? 0); [intros [= <- _]; done|].
    destruct (has (ongoing s) _) eqn:Ho; simpl; [intros [= <- _]; done|].
    destruct (has (failed s) _) eqn:Hf; simpl; [intros [= <- _]; done|].
    destruct (has (passed s) _) eqn:Hp; simpl; [intros [= <- _]; done|].
    intros [= <- _]. apply has_false in Ho, Hf, Hp. destruct Hd as [D1 D2]. split; simpl; [|done].
    intros n0 Hs. destruct (decide (n0 = x_name (e_tx E x))) as [->|Hne]; [done|].
    rewrite lookup_insert_ne in Hs by done. by apply D1.
  - intros Hstep. apply report_cases in Hstep as [->|(t & t' & Ht & _ & _ & _ & _ & Hsh)]; [done|].
    inversion Hsh; subst; by eapply disjoint_upd.
  - unfold do_transfer. repeat case_match; intros [= <- _]; done.
  - intros Hstep. by eapply disjoint_end_block.
Qed.

Theorem unique_name E ops b : stores_disjoint (run E (init b) ops).
Proof.
  assert (H : forall ops s, stores_disjoint s -> stores_disjoint (run E s ops)).
  { clear ops. induction ops as [|o r IH]; intros s Hs; [done|]. simpl. apply IH.
    destruct (vstep E s o) as [s' out] eqn:Hstep. simpl. apply vstep_cases in Hstep as [->|[_ Hstep]]; [done|]. by eapply disjoint_step. }
  apply H. split; intros n [? Hs]; simpl in Hs; by rewrite lookup_empty in Hs.
Qed.

(* ---------- at most one refund per external transaction name ---------- *)

Definition in_store (s : state) (n : name) : Prop :=
  is_Some (ongoing s !! n) \/ is_Some (passed s !! n) \/ is_Some (failed s !! n).

Definition refund_inv (s : state) : Prop :=
  forall n, n ∈ refunded_names (log s) ->
    in_store s n /\
    forall t, ongoing s !! n = Some t -> t_type t = T_REDEEM -> t_state t = S_FAILED /\ failedb t = true.

Lemma refund_inv_transition nl s n s' r : refund_inv s -> transition nl s n = (s', r) -> refund_inv s'.
Proof.
  intros Hinv Htr.
  pose proof (transition_bal_log nl s n) as [_ Hlog]. rewrite Htr in Hlog. simpl in Hlog.
  apply transition_cases in Htr as [->|(t & Ht & Hc)]; [done|].
  intros m Hm. rewrite Hlog in Hm. destruct (Hinv m Hm) as [Hin Hty].
  destruct (decide (m = n)) as [->|Hne].
  - destruct Hc as [(X & Hx & ->)|[[Hs ->]|[Hs ->]]]; unfold in_store; simpl.
    + rewrite lookup_insert. split; [left; by eexists|]. intros t0 [= <-] Hr. simpl in Hr.
      destruct (Hty t Ht Hr) as [Hst _]. unfold S_NEW, S_BUSYBROADCASTING, S_BUSYFINALIZING, S_FAILED in *. lia.
    + rewrite lookup_delete, lookup_insert. split; [right; left; by eexists|done].
    + rewrite lookup_delete, lookup_insert. split; [right; right; by eexists|done].
  - destruct Hc as [(X & Hx & ->)|[[Hs ->]|[Hs ->]]]; unfold in_store in *; simpl;
      rewrite ?lookup_insert_ne, ?lookup_delete_ne by done; done.
Qed.

Lemma refund_inv_end_block nl names : forall s s' r, refund_inv s -> end_block nl s names = (s', r) -> refund_inv s'.
Proof.
  induction names as [|n rest IH]; intros s s' r Hinv; simpl; [intros [= <- _]; done|].
  destruct (transition nl s n) as [s1 o1] eqn:H1. destruct (end_block nl s1 rest) as [s2 o2] eqn:H2.
  intros [= <- _]. eapply IH; [|exact H2]. by eapply refund_inv_transition.
Qed.

Lemma refund_inv_step E s o s' r : refund_inv s -> step E s o = (s', r) -> refund_inv s'.
Proof.
  intros Hinv. destruct o as [snd x|snd x|n l v idx b|f t0 amt|nl names]; simpl.
  - unfold do_lock. destruct (x_lock (e_tx E x)); [|intros [= <- _]; done].
    destruct (negb _); [intros [= <- _]; done|].
    destruct (has (ongoing s) _) eqn:Ho; simpl; [intros [= <- _]; done|].
    destruct (has (passed s) _) eqn:Hp; simpl; [intros [= <- _]; done|].
    intros [= <- _]. intros m Hm. simpl in *. destruct (Hinv m Hm) as [Hin Hty]. unfold in_store in *. simpl.
    destruct (decide (m = x_name (e_tx E x))) as [->|Hne].
    + rewrite lookup_insert. split; [left; by eexists|]. intros t0 [= <-]. simpl. unfold T_LOCK, T_REDEEM. lia.
    + rewrite lookup_insert_ne, lookup_delete_ne by done. done.
  - unfold do_redeem. destruct (x_redeem (e_tx E x)); [|intros [= <- _]; done].
    destruct (_ <? 0); [intros [= <- _]; done|]. destruct (_ <? 0); [intros [= <- _]; done|].
    destruct (has (ongoing s) _) eqn:Ho; simpl; [intros [= <- _]; done|].
    destruct (has (failed s) _) eqn:Hf; simpl; [intros [= <- _]; done|].
    destruct (has (passed s) _) eqn:Hp; simpl; [intros [= <- _]; done|].
    intros [= <- _]. apply has_false in Ho, Hf, Hp. intros m Hm. simpl in *.
    destruct (Hinv m Hm) as [Hin Hty]. unfold in_store in *. simpl.
    destruct (decide (m = x_name (e_tx E x))) as [->|Hne].
    + exfalso. rewrite Ho, Hf, Hp in Hin. destruct Hin as [[? ?]|[[? ?]|[? ?]]]; done.
    + rewrite lookup_insert_ne by done. done.
  - intros Hstep. apply report_cases in Hstep as [->|(t & t' & Ht & Hfin & Hfail & Hav & _ & Hsh)]; [done|].
    apply add_vote_fields in Hav as (Hty' & _).
    assert (Hold : forall m X, m ∈ refunded_names (log s) ->
              (is_Some (<[n := X]> (ongoing s) !! m) \/ is_Some (passed s !! m) \/ is_Some (failed s !! m)) /\
              forall t0, <[n := X]> (ongoing s) !! m = Some t0 -> t_type X = t_type t' -> t_type t0 = T_REDEEM ->
                         t_state t0 = S_FAILED /\ failedb t0 = true).
    { intros m X Hm. destruct (Hinv m Hm) as [Hin Hty]. destruct (decide (m = n)) as [->|Hne].
      - rewrite lookup_insert. split; [left; by eexists|]. intros t0 [= <-] HX Hr.
        destruct (Hty t Ht ltac:(congruence)) as [_ Hf]. congruence.
      - rewrite lookup_insert_ne by done. split; [done|]. intros t0 Ht0 _ Hr. by apply Hty. }
    inversion Hsh; subst; intros m Hm; unfold in_store; simpl in *.
    + destruct (Hold m (set_state t' S_RELEASED) Hm) as [Hin Hty]. split; [done|]. intros t0 Ht0. by apply Hty.
    + destruct (Hold m (set_state t' S_RELEASED) Hm) as [Hin Hty]. split; [done|]. intros t0 Ht0. by apply Hty.
    + destruct (Hold m (set_state t' S_FAILED) Hm) as [Hin Hty]. split; [done|]. intros t0 Ht0. by apply Hty.
    + apply elem_of_cons in Hm as [->|Hm].
      * rewrite lookup_insert. split; [left; by eexists|]. intros t0 [= <-] _. simpl. by rewrite failedb_set_state.
      * destruct (Hold m (set_state t' S_FAILED) Hm) as [Hin Hty]. split; [done|]. intros t0 Ht0. by apply Hty.
    + destruct (Hold m t' Hm) as [Hin Hty]. split; [done|]. intros t0 Ht0. by apply Hty.
  - unfold do_transfer. repeat case_match; intros [= <- _]; done.
  - intros Hstep. by eapply refund_inv_end_block.
Qed.

Definition refund_once (s : state) : Prop := refund_inv s /\ NoDup (refunded_names (log s)).

Lemma refund_once_step E s o s' r : refund_once s -> step E s o = (s', r) -> refund_once s'.
Proof.
  intros [Hinv Hnd] Hstep. split; [by eapply refund_inv_step|].
  destruct o as [snd x|snd x|n l v idx b|f t0 amt|nl names]; simpl in Hstep.
  - unfold do_lock in Hstep. repeat case_match; injection Hstep as <- _; done.
  - unfold do_redeem in Hstep. repeat case_match; injection Hstep as <- _; done.
  - apply report_cases in Hstep as [->|(t & t' & Ht & Hfin & Hfail & Hav & _ & Hsh)]; [done|].
    apply add_vote_fields in Hav as (Hty' & _).
    inversion Hsh; subst; simpl; try done.
    apply NoDup_cons. split; [|done].
    intros Hm. destruct (Hinv n Hm) as [_ Hty]. destruct (Hty t Ht ltac:(congruence)) as [_ Hf]. congruence.
  - unfold do_transfer in Hstep. repeat case_match; injection Hstep as <- _; done.
  - pose proof (end_block_bal_log nl names s) as [_ Hl]. rewrite Hstep in Hl. simpl in Hl. by rewrite Hl.
Qed.

Theorem refund_at_most_once E ops b : NoDup (refunded_names (log (run E (init b) ops))).
Proof.
  assert (H : forall ops s, refund_once s -> refund_once (run E s ops)).
  { clear ops. induction ops as [|o r IH]; intros s Hs; [done|]. simpl. apply IH.
    destruct (vstep E s o) as [s' out] eqn:Hstep. simpl. apply vstep_cases in Hstep as [->|[_ Hstep]]; [done|]. by eapply refund_once_step. }
  apply H. split; [intros n Hn; simpl in Hn; by apply elem_of_nil in Hn|simpl; constructor].
Qed.

(* the recorded fields of an ongoing tracker never change *)
Definition same_record (t t' : tracker) : Prop :=
  t_type t' = t_type t /\ t_name t' = t_name t /\ t_tx t' = t_tx t /\ t_wit t' = t_wit t /\ t_owner t' = t_owner t.

Lemma transition_back nl s n s' r m t' :
  transition nl s n = (s', r) -> ongoing s' !! m = Some t' ->
  exists t, ongoing s !! m = Some t /\ same_record t t'.
Proof.
  intros Htr Hm. apply transition_cases in Htr as [->|(t & Ht & Hc)]; [by exists t'|].
  destruct (decide (m = n)) as [->|Hne].
  - destruct Hc as [(X & _ & ->)|[[_ ->]|[_ ->]]]; simpl in Hm.
    + rewrite lookup_insert in Hm. injection Hm as <-. by exists t.
    + by rewrite lookup_delete in Hm.
    + by rewrite lookup_delete in Hm.
  - destruct Hc as [(X & _ & ->)|[[_ ->]|[_ ->]]]; simpl in Hm;
      rewrite ?lookup_insert_ne, ?lookup_delete_ne in Hm by done; by exists t'.
Qed.

Lemma end_block_back nl names : forall s s' r m t',
  end_block nl s names = (s', r) -> ongoing s' !! m = Some t' ->
  exists t, ongoing s !! m = Some t /\ same_record t t'.
Proof.
  induction names as [|n rest IH]; intros s s' r m t'; simpl; [intros [= <- _] Hm; by exists t'|].
  destruct (transition nl s n) as [s1 o1] eqn:H1. destruct (end_block nl s1 rest) as [s2 o2] eqn:H2.
  intros [= <- _] Hm. destruct (IH _ _ _ _ _ H2 Hm) as (t1 & Ht1 & Hs1).
  destruct (transition_back _ _ _ _ _ _ _ H1 Ht1) as (t & Ht & Hs). exists t. split; [done|].
  unfold same_record in *. intuition congruence.
Qed.

Theorem record_stable E s o s' r n t t' :
  step E s o = (s', r) -> ongoing s !! n = Some t -> ongoing s' !! n = Some t' -> same_record t t'.
Proof.
  destruct o as [snd x|snd x|n0 l v idx b|f t0 amt|nl names]; simpl; intros Hstep Ht Ht'.
  - unfold do_lock in Hstep. destruct (x_lock (e_tx E x)); [|injection Hstep as <- _; rewrite Ht in Ht'; by injection Ht' as <-].
    destruct (negb _); [injection Hstep as <- _; rewrite Ht in Ht'; by injection Ht' as <-|].
    destruct (has (ongoing s) _) eqn:Ho; simpl in Hstep; [injection Hstep as <- _; rewrite Ht in Ht'; by injection Ht' as <-|].
    destruct (has (passed s) _) eqn:Hp; simpl in Hstep; [injection Hstep as <- _; rewrite Ht in Ht'; by injection Ht' as <-|].
    injection Hstep as <- _. simpl in Ht'. apply has_false in Ho.
    destruct (decide (n = x_name (e_tx E x))) as [->|Hne]; [congruence|].
    rewrite lookup_insert_ne in Ht' by done. rewrite Ht in Ht'. by injection Ht' as <-.
  - unfold do_redeem in Hstep. destruct (x_redeem (e_tx E x)); [|injection Hstep as <- _; rewrite Ht in Ht'; by injection Ht' as <-].
    destruct (_ <? 0); [injection Hstep as <- _; rewrite Ht in Ht'; by injection Ht' as <-|].
    destruct (_ <? 0); [injection Hstep as <- _; rewrite Ht in Ht'; by injection Ht' as <-|].
    destruct (has (ongoing s) _) eqn:Ho; simpl in Hstep; [injection Hstep as <- _; rewrite Ht in Ht'; by injection Ht' as <-|].
    destruct (has (failed s) _) eqn:Hf; simpl in Hstep; [injection Hstep as <- _; rewrite Ht in Ht'; by injection Ht' as <-|].
    destruct (has (passed s) _) eqn:Hp; simpl in Hstep; [injection Hstep as <- _; rewrite Ht in Ht'; by injection Ht' as <-|].
    injection Hstep as <- _. simpl in Ht'. apply has_false in Ho.
    destruct (decide (n = x_name (e_tx E x))) as [->|Hne]; [congruence|].
    rewrite lookup_insert_ne in Ht' by done. rewrite Ht in Ht'. by injection Ht' as <-.
  - apply report_cases in Hstep as [->|(t1 & t1' & Ht1 & _ & _ & Hav & _ & Hsh)]; [rewrite Ht in Ht'; by injection Ht' as <-|].
    apply add_vote_fields in Hav as (Hty & _ & Hnm & Htx & Hw & Hown & _).
    destruct (decide (n = n0)) as [->|Hne].
    + rewrite Ht in Ht1. injection Ht1 as <-.
      inversion Hsh; subst; simpl in Ht'; rewrite lookup_insert in Ht'; injection Ht' as <-; done.
    + inversion Hsh; subst; simpl in Ht'; rewrite lookup_insert_ne in Ht' by done; rewrite Ht in Ht'; by injection Ht' as <-.
  - unfold do_transfer in Hstep. repeat case_match; injection Hstep as <- _; simpl in Ht'; rewrite Ht in Ht'; by injection Ht' as <-.
  - destruct (end_block_back _ _ _ _ _ _ _ Hstep Ht') as (t1 & Ht1 & Hs). rewrite Ht in Ht1. by injection Ht1 as <-.
Qed.


(* ---------- ERC-20 lock (store effect, repaired rule): one tracker per name is kept ---------- *)

Theorem erc_lock_unique E okf s a x s' r :
  stores_disjoint s -> do_lock_erc E okf s a x = (s', r) -> stores_disjoint s'.
Proof.
  unfold do_lock_erc. intros Hd. destruct (negb (okf x)); [intros [= <- _]; done|].
  destruct (has (ongoing s) _) eqn:Ho; simpl; [intros [= <- _]; done|].
  destruct (has (passed s) _) eqn:Hp; simpl; [intros [= <- _]; done|].
  intros [= <- _]. apply has_false in Ho, Hp. destruct Hd as [D1 D2]. split; simpl.
  - intros n0 Hs. destruct (decide (n0 = x_name (e_tx E x))) as [->|Hne]; [by rewrite lookup_delete|].
    rewrite lookup_insert_ne in Hs by done. rewrite lookup_delete_ne by done. by apply D1.
  - intros n0 Hs. destruct (decide (n0 = x_name (e_tx E x))) as [->|Hne]; [by rewrite lookup_delete|].
    rewrite lookup_delete_ne by done. by apply D2.
Qed.

(* an ERC-20 lock never touches a tracker that is ongoing or passed *)
Theorem erc_lock_refuses E okf s a x :
  has (ongoing s) (x_name (e_tx E x)) || has (passed s) (x_name (e_tx E x)) = true ->
  do_lock_erc E okf s a x = (s, Fail).
Proof. unfold do_lock_erc. intros ->. by destruct (negb (okf x)). Qed.

(* ---------- the supply counter, full statement ---------- *)

Lemma owners_step E s o s' r :
  e_key E (e_supply E) = false -> owners_not_supply E s -> valid E o = true -> step E s o = (s', r) ->
  owners_not_supply E s'.
Proof.
  intros Hk Hown Hv. destruct o as [snd x|snd x|n l v idx b|f t0 amt|nl names]; simpl in *.
  - unfold do_lock. repeat case_match; intros [= <- _]; try done.
    intros m t. simpl. destruct (decide (m = x_name (e_tx E x))) as [->|Hne].
    + rewrite lookup_insert. intros [= <-]. simpl. intros ->. congruence.
    + rewrite lookup_insert_ne by done. apply Hown.
  - unfold do_redeem. repeat case_match; intros [= <- _]; try done.
    intros m t. simpl. destruct (decide (m = x_name (e_tx E x))) as [->|Hne].
    + rewrite lookup_insert. intros [= <-]. simpl. intros ->. congruence.
    + rewrite lookup_insert_ne by done. apply Hown.
  - intros Hstep. apply report_cases in Hstep as [->|(t & t' & Ht & _ & _ & Hav & _ & Hsh)]; [done|].
    apply add_vote_fields in Hav as (_ & _ & _ & _ & _ & Ho & _).
    assert (H : forall X, t_owner X = t_owner t' -> forall m t1, <[n := X]> (ongoing s) !! m = Some t1 -> t_owner t1 <> e_supply E).
    { intros X HX m t1. destruct (decide (m = n)) as [->|Hne].
      - rewrite lookup_insert. intros [= <-]. rewrite HX, Ho. by eapply Hown.
      - rewrite lookup_insert_ne by done. apply Hown. }
    inversion Hsh; subst; intros m t1; simpl; by apply H.
  - unfold do_transfer. repeat case_match; intros [= <- _]; done.
  - intros Hstep m t1 Ht1. destruct (end_block_back _ _ _ _ _ _ _ Hstep Ht1) as (t & Ht & (_ & _ & _ & _ & Ho)).
    rewrite Ho. by eapply Hown.
Qed.

Definition supply_inv (E : env) (s : state) : Prop := supply_ok E s /\ owners_not_supply E s.

Theorem supply_full_step E s o s' r :
  e_key E (e_supply E) = false -> e_len20 E (e_supply E) = false ->
  supply_inv E s -> vstep E s o = (s', r) -> supply_inv E s'.
Proof.
  intros Hk Hl [Hok Hown] Hstep. apply vstep_cases in Hstep as [->|[Hv Hstep]]; [done|].
  split; [|by eapply owners_step].
  eapply supply_step; [done| |exact Hstep].
  destruct o as [snd x|snd x|n l v idx b|f t0 amt|nl names]; simpl in *; try done.
  - destruct (N.eqb_spec snd (e_supply E)) as [->|]; [congruence|done].
  - destruct (N.eqb_spec snd (e_supply E)) as [->|]; [congruence|done].
  - destruct (ongoing s !! n) as [t|] eqn:Ht; [|done]. apply N.eqb_neq. by eapply Hown.
  - apply andb_true_iff in Hv as [Hv Ht]. apply andb_true_iff in Hv as [Hv Hf]. apply andb_true_iff in Hv as [Hkf _].
    destruct (N.eqb_spec f (e_supply E)) as [->|]; [congruence|].
    destruct (N.eqb_spec t0 (e_supply E)) as [->|]; [congruence|done].
Qed.

Theorem supply_always E ops b :
  e_key E (e_supply E) = false -> e_len20 E (e_supply E) = false ->
  tot b = 2 * balof b (e_supply E) -> supply_ok E (run E (init b) ops).
Proof.
  intros Hk Hl Hb.
  assert (H : forall ops s, supply_inv E s -> supply_inv E (run E s ops)).
  { clear ops. induction ops as [|o r IH]; intros s Hs; [done|]. simpl. apply IH.
    destruct (vstep E s o) as [s' out] eqn:Hstep. simpl. by eapply supply_full_step. }
  apply H. split; [done|]. intros n t Ht. simpl in Ht. by rewrite lookup_empty in Ht.
Qed.

(* ---------- the tracker stores do not depend on the node ---------- *)

Lemma transition_node_independent nl nl' s n : transition nl s n = transition nl' s n.
Proof. reflexivity. Qed.

Lemma end_block_node_independent nl nl' names : forall s, end_block nl s names = end_block nl' s names.
Proof.
  induction names as [|n r IH]; intros s; simpl; [done|].
  rewrite (transition_node_independent nl nl'). destruct (transition nl' s n) as [s1 o1]. by rewrite IH.
Qed.

Lemma vstep_sim E s o o' : op_sim o o' -> vstep E s o = vstep E s o'.
Proof.
  destruct o, o'; simpl; try (intros ->; done); try done.
  intros ->. unfold vstep. simpl. apply end_block_node_independent.
Qed.

Theorem state_node_independent E ops ops' : Forall2 op_sim ops ops' -> forall s, run E s ops = run E s ops'.
Proof.
  induction 1 as [|o o' r r' Ho _ IH]; intros s; [done|]. simpl. rewrite (vstep_sim E s o o' Ho). apply IH.
Qed.

(* ---------- one tracker per external (decoded) transaction ---------- *)

Lemma created_by E s o s' r n t' :
  step E s o = (s', r) -> ongoing s !! n = None -> ongoing s' !! n = Some t' ->
  exists a x, (o = Lock a x \/ (o = Redeem a x /\ failed s !! n = None)) /\
              n = x_name (e_tx E x) /\ t_tx t' = x /\ t_owner t' = a /\ accepted E x /\ passed s !! n = None.
Proof.
  destruct o as [snd x|snd x|n0 l v idx b|f t0 amt|nl names]; simpl; intros Hstep Hn Hn'.
  - unfold do_lock in Hstep. destruct (x_lock (e_tx E x)) as [amt|] eqn:Hx; [|injection Hstep as <- _; congruence].
    destruct (negb _); [injection Hstep as <- _; congruence|].
    destruct (has (ongoing s) _) eqn:Ho; simpl in Hstep; [injection Hstep as <- _; congruence|].
    destruct (has (passed s) _) eqn:Hp; simpl in Hstep; [injection Hstep as <- _; congruence|].
    injection Hstep as <- _. simpl in Hn'. apply has_false in Hp.
    destruct (decide (n = x_name (e_tx E x))) as [->|Hne]; [|rewrite lookup_insert_ne in Hn' by done; congruence].
    rewrite lookup_insert in Hn'. injection Hn' as <-. exists snd, x. simpl.
    repeat split; try done; [by left|left; congruence].
  - unfold do_redeem in Hstep. destruct (x_redeem (e_tx E x)) as [amt|] eqn:Hx; [|injection Hstep as <- _; congruence].
    destruct (_ <? 0); [injection Hstep as <- _; congruence|]. destruct (_ <? 0); [injection Hstep as <- _; congruence|].
    destruct (has (ongoing s) _) eqn:Ho; simpl in Hstep; [injection Hstep as <- _; congruence|].
    destruct (has (failed s) _) eqn:Hf; simpl in Hstep; [injection Hstep as <- _; congruence|].
    destruct (has (passed s) _) eqn:Hp; simpl in Hstep; [injection Hstep as <- _; congruence|].
    injection Hstep as <- _. simpl in Hn'. apply has_false in Hp, Hf.
    destruct (decide (n = x_name (e_tx E x))) as [->|Hne]; [|rewrite lookup_insert_ne in Hn' by done; congruence].
    rewrite lookup_insert in Hn'. injection Hn' as <-. exists snd, x. simpl.
    repeat split; try done; [by right|right; congruence].
  - exfalso. apply report_cases in Hstep as [->|(t1 & t1' & Ht1 & _ & _ & _ & _ & Hsh)]; [congruence|].
    destruct (decide (n = n0)) as [->|Hne]; [congruence|].
    inversion Hsh; subst; simpl in Hn'; rewrite lookup_insert_ne in Hn' by done; congruence.
  - exfalso. unfold do_transfer in Hstep. repeat case_match; injection Hstep as <- _; simpl in Hn'; congruence.
  - exfalso. destruct (end_block_back _ _ _ _ _ _ _ Hstep Hn') as (t1 & Ht1 & _). congruence.
Qed.

Theorem one_tracker_per_external_tx E s o s' r n t' :
  ext_canonical E ->
  step E s o = (s', r) -> ongoing s !! n = None -> ongoing s' !! n = Some t' ->
  forall x0, accepted E x0 -> x_ext (e_tx E x0) = x_ext (e_tx E (t_tx t')) ->
    x_name (e_tx E x0) = n /\ ongoing s !! x_name (e_tx E x0) = None /\ passed s !! x_name (e_tx E x0) = None.
Proof.
  intros Hcan Hstep Hn Hn' x0 Hacc Hext.
  destruct (created_by _ _ _ _ _ _ _ Hstep Hn Hn') as (a & x & _ & -> & Htx & _ & Hax & Hp).
  rewrite Htx in Hext. rewrite (Hcan x0 x Hacc Hax Hext). done.
Qed.
