(* TrackerProofs.v — lemmas and proofs about the model in theories/Tracker.v (property C15). *)
From stdpp Require Import gmap list.
From Coq Require Import ZArith Lia.
From OL Require Import theories.Tracker.
Local Open Scope Z_scope.

(* ---------- small facts ---------- *)

Lemma has_true (m : gmap name tracker) n : has m n = true <-> is_Some (m !! n).
Proof. unfold has. destruct (m !! n); split; intros H; try done; try (by eexists). by destruct H. Qed.
Lemma has_false (m : gmap name tracker) n : has m n = false <-> m !! n = None.
Proof. unfold has. destruct (m !! n); split; intros H; done. Qed.

Lemma balof_credit b a z c :
  balof (credit b a z) c = if decide (c = a) then balof b a + z else balof b c.
Proof.
  unfold credit, balof at 1. destruct (decide (c = a)) as [->|Hne].
  - by rewrite lookup_insert.
  - by rewrite lookup_insert_ne.
Qed.

(* ---------- votes ---------- *)

Lemma count_insert x y l k :
  l !! k = Some y ->
  forall v, count x (<[k := v]> l) = count x l - (if y =? x then 1 else 0) + (if v =? x then 1 else 0).
Proof.
  revert k. induction l as [|h r IH]; intros k Hk v; [done|].
  destruct k as [|k]; simpl in *.
  - inversion Hk; subst. lia.
  - rewrite (IH k Hk v). lia.
Qed.

Lemma count_bounds x l : 0 <= count x l <= Z.of_nat (length l).
Proof. induction l as [|h r IH]; simpl; [lia|]. destruct (h =? x); lia. Qed.

Lemma index_of_lookup a l i : index_of a l = Some i -> l !! i = Some a.
Proof.
  revert i. induction l as [|b r IH]; intros i; simpl; [done|].
  destruct (N.eqb_spec b a) as [->|Hne].
  - intros [= <-]. done.
  - destruct (index_of a r) as [j|]; simpl; [|done]. intros [= <-]. simpl. by apply IH.
Qed.

Lemma index_of_nodup a l i : NoDup l -> l !! i = Some a -> index_of a l = Some i.
Proof.
  intros Hnd. revert i. induction Hnd as [|b r Hnin Hnd IH]; intros i; [done|].
  destruct i as [|i]; simpl.
  - intros [= ->]. by rewrite N.eqb_refl.
  - intros Hi. destruct (N.eqb_spec b a) as [->|Hne].
    + exfalso. apply Hnin. by eapply elem_of_list_lookup_2.
    + by rewrite (IH i Hi).
Qed.

Lemma index_of_none a l : index_of a l = None -> a ∉ l.
Proof.
  induction l as [|b r IH]; simpl; [intros _; apply not_elem_of_nil|].
  destruct (N.eqb_spec b a) as [->|Hne]; [done|].
  destruct (index_of a r); [done|]. intros _ [->|Hin]%elem_of_cons; [done|]. by apply IH.
Qed.

(* what AddVote can do: nothing, or fill the slot the reporter is the recorded witness of *)
Lemma add_vote_ok t a idx v t' :
  add_vote t a idx v = AVOk t' ->
  t' = t \/
  exists k, idx = Z.of_nat k /\ t_wit t !! k = Some a /\ voted t a = false /\
            t' = set_votes t (<[k := vote_code v]> (t_votes t)).
Proof.
  unfold add_vote. destruct (_ <=? idx); [done|].
  destruct (voted t a) eqn:Hv; [done|].
  destruct (idx <? 0) eqn:Hneg; [done|]. apply Z.ltb_ge in Hneg.
  destruct (t_wit t !! Z.to_nat idx) as [b|] eqn:Hl; [|intros [= <-]; by left].
  destruct (N.eqb_spec b a) as [->|Hne]; intros [= <-]; [|by left].
  right. exists (Z.to_nat idx). split; [lia|]. done.
Qed.

Lemma add_vote_fields t a idx v t' :
  add_vote t a idx v = AVOk t' ->
  t_type t' = t_type t /\ t_state t' = t_state t /\ t_name t' = t_name t /\ t_tx t' = t_tx t /\
  t_wit t' = t_wit t /\ t_owner t' = t_owner t /\ length (t_votes t') = length (t_votes t).
Proof.
  intros [->|(k & _ & _ & _ & ->)]%add_vote_ok; [done|]. simpl. by rewrite insert_length.
Qed.

(* a reporter that is not a recorded witness changes no slot *)
Lemma add_vote_non_witness t a idx v t' :
  a ∉ t_wit t -> add_vote t a idx v = AVOk t' -> t' = t.
Proof.
  intros Hnin [->|(k & _ & Hk & _)]%add_vote_ok; [done|].
  exfalso. apply Hnin. by eapply elem_of_list_lookup_2.
Qed.

(* a recorded witness whose slot is already filled is refused *)
Lemma add_vote_second t a idx v k :
  NoDup (t_wit t) -> t_wit t !! k = Some a -> slot t k <> 0 -> 0 <= slot t k ->
  Z.of_nat (length (t_wit t)) <=? idx = false ->
  add_vote t a idx v = AVErr.
Proof.
  intros Hnd Hk Hs Hs0 Hlen. unfold add_vote. rewrite Hlen.
  unfold voted. rewrite (index_of_nodup _ _ _ Hnd Hk).
  destruct (0 <? slot t k) eqn:Hlt; [done|]. apply Z.ltb_ge in Hlt. lia.
Qed.

(* with duplicate-free witnesses the filled slot was empty *)
Lemma add_vote_slot_empty t a k :
  NoDup (t_wit t) -> t_wit t !! k = Some a -> voted t a = false -> slot t k <= 0.
Proof.
  intros Hnd Hk. unfold voted. rewrite (index_of_nodup _ _ _ Hnd Hk).
  intros Hlt. apply Z.ltb_ge in Hlt. done.
Qed.

(* ---------- the shape of a report-finality step ---------- *)

Inductive report_shape (E : env) (s : state) (n : name) (l : acct) (t t' : tracker) : state -> Prop :=
| RS_mint amt : finalizedb t' = true -> t_type t' = T_LOCK -> x_lock (e_tx E (t_tx t')) = Some amt ->
    report_shape E s n l t t'
      {| ongoing := <[n := set_state t' S_RELEASED]> (ongoing s); passed := passed s; failed := failed s;
         bal := credit (credit (bal s) l amt) (e_supply E) amt; log := Minted n l amt :: log s |}
| RS_release : finalizedb t' = true -> t_type t' = T_REDEEM ->
    report_shape E s n l t t' (upd_ongoing s (<[n := set_state t' S_RELEASED]> (ongoing s)))
| RS_faillock : finalizedb t' = false -> failedb t' = true -> t_type t' = T_LOCK ->
    report_shape E s n l t t' (upd_ongoing s (<[n := set_state t' S_FAILED]> (ongoing s)))
| RS_refund amt : finalizedb t' = false -> failedb t' = true -> t_type t' = T_REDEEM ->
    x_redeem (e_tx E (t_tx t')) = Some amt ->
    report_shape E s n l t t'
      {| ongoing := <[n := set_state t' S_FAILED]> (ongoing s); passed := passed s; failed := failed s;
         bal := credit (credit (bal s) (t_owner t') amt) (e_supply E) amt;
         log := Refunded n (t_owner t') amt :: log s |}
| RS_vote : finalizedb t' = false -> failedb t' = false ->
    report_shape E s n l t t' (upd_ongoing s (<[n := t']> (ongoing s))).

Lemma report_cases E s n l v idx b s' r :
  do_report E s n l v idx b = (s', r) ->
  s' = s \/
  exists t t', ongoing s !! n = Some t /\ finalizedb t = false /\ failedb t = false /\
               add_vote t v idx b = AVOk t' /\ r = Ok /\ report_shape E s n l t t' s'.
Proof.
  unfold do_report. destruct (ongoing s !! n) as [t|] eqn:Ht; [|intros [= <- _]; by left].
  destruct (finalizedb t) eqn:Hfin; simpl; [intros [= <- _]; by left|].
  destruct (failedb t) eqn:Hfail; simpl; [intros [= <- _]; by left|].
  destruct (add_vote t v idx b) as [| |t'] eqn:Hav; try (intros [= <- _]; by left).
  destruct (finalizedb t') eqn:Hfin'.
  - destruct (t_type t' =? T_LOCK) eqn:Hty.
    + apply Z.eqb_eq in Hty. destruct (x_lock (e_tx E (t_tx t'))) as [amt|] eqn:Hx; [|intros [= <- _]; by left].
      intros [= <- <-]. right. exists t, t'. repeat split; try done. by eapply RS_mint.
    + destruct (t_type t' =? T_REDEEM) eqn:Hty2; [|intros [= <- _]; by left].
      apply Z.eqb_eq in Hty2. intros [= <- <-]. right. exists t, t'. repeat split; try done. by apply RS_release.
  - destruct (failedb t') eqn:Hfail'.
    + destruct (t_type t' =? T_LOCK) eqn:Hty.
      * apply Z.eqb_eq in Hty. intros [= <- <-]. right. exists t, t'. repeat split; try done. by apply RS_faillock.
      * destruct (t_type t' =? T_REDEEM) eqn:Hty2; [|intros [= <- _]; by left].
        apply Z.eqb_eq in Hty2.
        destruct (x_redeem (e_tx E (t_tx t'))) as [amt|] eqn:Hx; [|intros [= <- _]; by left].
        intros [= <- <-]. right. exists t, t'. repeat split; try done. by eapply RS_refund.
    + intros [= <- <-]. right. exists t, t'. repeat split; try done. by apply RS_vote.
Qed.

Lemma count_insert_other x v l k : v <> x -> count x (<[k := v]> l) <= count x l.
Proof.
  intros Hne. destruct (l !! k) as [y|] eqn:Hk.
  - rewrite (count_insert _ _ _ _ Hk). destruct (Z.eqb_spec v x); [done|]. destruct (y =? x); lia.
  - rewrite list_insert_ge; [lia|]. by apply lookup_ge_None.
Qed.

Lemma list_neq_cons {A} (e : A) l : l <> e :: l.
Proof. intros H. apply (f_equal length) in H. simpl in H. lia. Qed.

(* ---------- block-end transitions touch neither balances nor the log ---------- *)

Lemma transition_bal_log nl s n : bal (transition nl s n).1 = bal s /\ log (transition nl s n).1 = log s.
Proof.
  unfold transition. destruct (ongoing s !! n) as [t|]; [|done].
  repeat (match goal with |- context [if ?c then _ else _] => destruct c end); done.
Qed.

Lemma end_block_bal_log nl names : forall s, bal (end_block nl s names).1 = bal s /\ log (end_block nl s names).1 = log s.
Proof.
  induction names as [|n r IH]; intros s; simpl; [done|].
  destruct (transition nl s n) as [s1 o1] eqn:H1. destruct (end_block nl s1 r) as [s2 o2] eqn:H2. simpl.
  pose proof (IH s1) as [Hb Hl]. rewrite H2 in Hb, Hl. simpl in *.
  pose proof (transition_bal_log nl s n) as [Hb1 Hl1]. rewrite H1 in Hb1, Hl1. simpl in *.
  split; congruence.
Qed.

(* ---------- mint: only at the crossing, of the recorded witnesses, in the locked amount ---------- *)

Theorem mint_gated E s o s' r n a z :
  step E s o = (s', r) -> log s' = Minted n a z :: log s ->
  exists v idx k t,
    o = Report n a v idx true /\ r = Ok /\
    ongoing s !! n = Some t /\ t_type t = T_LOCK /\
    idx = Z.of_nat k /\ t_wit t !! k = Some v /\ voted t v = false /\
    let t' := set_votes t (<[k := 1]> (t_votes t)) in
    yes_votes t < threshold t /\ threshold t <= yes_votes t' /\
    x_lock (e_tx E (t_tx t)) = Some z /\
    ongoing s' !! n = Some (set_state t' S_RELEASED) /\
    passed s' = passed s /\ failed s' = failed s /\
    bal s' = credit (credit (bal s) a z) (e_supply E) z.
Proof.
  destruct o as [snd x|snd x|n0 l v idx b|f t0 amt|nl names]; simpl.
  - unfold do_lock. repeat case_match; intros [= <- _]; simpl; intros Hlg; try (by apply list_neq_cons in Hlg); done.
  - unfold do_redeem. repeat case_match; intros [= <- _]; simpl; intros Hlg; try (by apply list_neq_cons in Hlg); done.
  - intros Hstep Hlog. apply report_cases in Hstep as [->|(t & t' & Ht & Hfin & Hfail & Hav & -> & Hsh)].
    { by apply list_neq_cons in Hlog. }
    inversion Hsh as [amt Hfin' Hty Hx Hs'|? ? Hs'|? ? ? Hs'|amt ? ? ? ? Hs'|? ? Hs']; subst s'; simpl in Hlog;
      try (by apply list_neq_cons in Hlog); try done.
    injection Hlog as Hn Ha Hz; subst.
    apply add_vote_ok in Hav as Hav'. destruct Hav' as [->|(k & -> & Hk & Hvoted & ->)]; [congruence|].
    destruct b.
    2:{ exfalso. unfold finalizedb, threshold, yes_votes in *. simpl in *.
        pose proof (count_insert_other 1 2 (t_votes t) k ltac:(lia)). apply Z.leb_le in Hfin'. apply Z.leb_gt in Hfin. lia. }
    exists v, (Z.of_nat k), k, t. simpl in *.
    unfold finalizedb in Hfin, Hfin'. apply Z.leb_gt in Hfin. apply Z.leb_le in Hfin'. simpl in *.
    repeat split; try done; try lia; try (by rewrite lookup_insert).
  - unfold do_transfer. repeat case_match; intros [= <- _]; simpl; intros Hlg; by apply list_neq_cons in Hlg.
  - intros Hstep Hlog. pose proof (end_block_bal_log nl names s) as [_ Hl]. rewrite Hstep in Hl. simpl in Hl.
    rewrite Hl in Hlog. by apply list_neq_cons in Hlog.
Qed.

(* refund: only at the crossing of the no-votes, in the redeemed amount, to the tracker's owner *)
Theorem refund_gated E s o s' r n a z :
  step E s o = (s', r) -> log s' = Refunded n a z :: log s ->
  exists l v idx k t,
    o = Report n l v idx false /\ r = Ok /\
    ongoing s !! n = Some t /\ t_type t = T_REDEEM /\ a = t_owner t /\
    idx = Z.of_nat k /\ t_wit t !! k = Some v /\ voted t v = false /\
    let t' := set_votes t (<[k := 2]> (t_votes t)) in
    no_votes t < threshold t /\ threshold t <= no_votes t' /\
    x_redeem (e_tx E (t_tx t)) = Some z /\
    ongoing s' !! n = Some (set_state t' S_FAILED) /\
    passed s' = passed s /\ failed s' = failed s /\
    bal s' = credit (credit (bal s) a z) (e_supply E) z.
Proof.
  destruct o as [snd x|snd x|n0 l v idx b|f t0 amt|nl names]; simpl.
  - unfold do_lock. repeat case_match; intros [= <- _]; simpl; intros Hlg; try (by apply list_neq_cons in Hlg); done.
  - unfold do_redeem. repeat case_match; intros [= <- _]; simpl; intros Hlg; try (by apply list_neq_cons in Hlg); done.
  - intros Hstep Hlog. apply report_cases in Hstep as [->|(t & t' & Ht & Hfin & Hfail & Hav & -> & Hsh)].
    { by apply list_neq_cons in Hlog. }
    inversion Hsh as [amt Hfin' Hty Hx Hs'|? ? Hs'|? ? ? Hs'|amt Hfin' Hfail' Hty Hx Hs'|? ? Hs']; subst s'; simpl in Hlog;
      try (by apply list_neq_cons in Hlog); try done.
    injection Hlog as Hn Ha Hz; subst.
    apply add_vote_ok in Hav as Hav'. destruct Hav' as [->|(k & -> & Hk & Hvoted & ->)]; [congruence|].
    destruct b.
    { exfalso. unfold failedb, threshold, no_votes in *. simpl in *.
      pose proof (count_insert_other 2 1 (t_votes t) k ltac:(lia)). apply Z.leb_le in Hfail'. apply Z.leb_gt in Hfail. lia. }
    exists l, v, (Z.of_nat k), k, t. simpl in *.
    unfold failedb in Hfail, Hfail'. apply Z.leb_gt in Hfail. apply Z.leb_le in Hfail'. simpl in *.
    repeat split; try done; try lia; try (by rewrite lookup_insert).
  - unfold do_transfer. repeat case_match; intros [= <- _]; simpl; intros Hlg; by apply list_neq_cons in Hlg.
  - intros Hstep Hlog. pose proof (end_block_bal_log nl names s) as [_ Hl]. rewrite Hstep in Hl. simpl in Hl.
    rewrite Hl in Hlog. by apply list_neq_cons in Hlog.
Qed.
