From Coq Require Import ZArith List Bool Lia.
Import ListNotations.
From OL Require Import theories.Auth.
Local Open Scope Z_scope.

Lemma rawtx_eqb_eq a b : rawtx_eqb a b = true <-> a = b.
Proof.
  unfold rawtx_eqb. split.
  - intros H. repeat (apply andb_prop in H; destruct H as [H ?]).
    destruct a, b; simpl in *. f_equal; apply Z.eqb_eq; assumption.
  - intros ->. rewrite !Z.eqb_refl. reflexivity.
Qed.

Lemma validate_sigs_authentic msg signers : forall sigs,
  validate_sigs msg signers sigs = true -> authentic msg signers sigs.
Proof.
  induction signers as [|a signers IH]; intros [|s sigs] H; simpl in *; try discriminate; auto.
  repeat (apply andb_prop in H; destruct H as [H ?]).
  split; [|apply IH; assumption].
  match goal with Hv : verify _ _ _ = true |- _ =>
    unfold verify in Hv; apply andb_prop in Hv; destruct Hv as [Hby Hover] end.
  repeat split.
  - apply Z.eqb_eq; assumption.
  - apply Z.eqb_eq; assumption.
  - apply rawtx_eqb_eq; assumption.
Qed.

(* soundness of admission: whatever passes ValidateBasic carries one authentic signature per
   required signer, in order *)
Theorem validate_basic_sound msg signers sigs :
  validate_basic msg signers sigs = true -> authentic msg signers sigs.
Proof.
  unfold validate_basic. intros H. apply andb_prop in H as [_ H].
  apply validate_sigs_authentic; exact H.
Qed.

(* completeness: authentic signatures with well-formed keys pass *)
Theorem validate_basic_complete msg signers :
  validate_basic msg signers (map (fun a => sign a msg) signers) = true.
Proof.
  unfold validate_basic. rewrite map_length, Nat.eqb_refl. simpl.
  induction signers as [|a signers IH]; simpl; [reflexivity|].
  unfold verify, addr_of. simpl. rewrite !Z.eqb_refl.
  assert (rawtx_eqb msg msg = true) as -> by (apply rawtx_eqb_eq; reflexivity).
  simpl. exact IH.
Qed.

(* tampering: the same signatures cannot pass for two different contents, as soon as the
   payload requires at least one signer *)
Theorem tamper_rejected msg msg' signers signers' sigs :
  validate_basic msg signers sigs = true -> validate_basic msg' signers' sigs = true ->
  signers' <> [] -> msg' = msg.
Proof.
  intros H1 H2 Hne.
  apply validate_basic_sound in H1. apply validate_basic_sound in H2.
  destruct signers' as [|a' signers']; [contradiction|].
  destruct sigs as [|s sigs]; [simpl in H2; contradiction|].
  destruct signers as [|a signers]; [simpl in H1; contradiction|].
  simpl in H1, H2. destruct H1 as [(_ & _ & E1) _]. destruct H2 as [(_ & _ & E2) _]. congruence.
Qed.

(* the keys presented are determined by the required signers: dropping, adding, reordering or
   substituting a signer (or signing with another key) is rejected *)
Theorem keys_determined msg signers sigs :
  validate_basic msg signers sigs = true -> map s_key sigs = signers.
Proof.
  intros H. apply validate_basic_sound in H. revert sigs H.
  induction signers as [|a signers IH]; intros [|s sigs] H; simpl in *; try contradiction; auto.
  destruct H as [(Ha & _ & _) H]. unfold addr_of in Ha. f_equal; [exact Ha|apply IH; exact H].
Qed.

Theorem wrong_count_rejected msg signers sigs :
  length sigs <> length signers -> validate_basic msg signers sigs = false.
Proof.
  intros Hn. unfold validate_basic.
  destruct (Nat.eqb (length signers) (length sigs)) eqn:E; [|reflexivity].
  apply Nat.eqb_eq in E. congruence.
Qed.

Theorem forged_signature_rejected msg signers sigs i s :
  nth_error sigs i = Some s -> (s_by s <> s_key s \/ s_over s <> msg \/ s_alg_ok s = false) ->
  validate_basic msg signers sigs = false.
Proof.
  intros Hn Hbad. destruct (validate_basic msg signers sigs) eqn:E; [|reflexivity]. exfalso.
  unfold validate_basic in E. apply andb_prop in E as [_ E].
  revert signers i E Hn. induction sigs as [|s0 sigs IH]; intros signers i E Hn.
  - destruct i; discriminate.
  - destruct signers as [|a signers]; [simpl in E; discriminate|].
    simpl in E. repeat (apply andb_prop in E; destruct E as [E ?]).
    destruct i as [|i]; simpl in Hn.
    + injection Hn as ->.
      match goal with Hv : verify _ _ _ = true |- _ =>
        unfold verify in Hv; apply andb_prop in Hv; destruct Hv as [Hby Hover] end.
      apply Z.eqb_eq in Hby. apply rawtx_eqb_eq in Hover.
      destruct Hbad as [Hb|[Hb|Hb]]; [congruence|congruence|congruence].
    + eapply IH; eassumption.
Qed.

Section Admission.
  Variable signers_of : rawtx -> list Z.
  Variable static_ok process_ok : rawtx -> bool.

  Theorem check_sound t : check_tx signers_of static_ok process_ok t = true ->
    authentic (t_raw t) (signers_of (t_raw t)) (t_sigs t).
  Proof.
    unfold check_tx, validate. intros H.
    apply andb_prop in H as [H _]. apply andb_prop in H as [H _].
    apply validate_basic_sound; exact H.
  Qed.

  Theorem deliver_sound_if_validated t :
    deliver_tx signers_of static_ok process_ok true t = true ->
    authentic (t_raw t) (signers_of (t_raw t)) (t_sigs t).
  Proof.
    unfold deliver_tx, validate. intros H.
    apply andb_prop in H as [H _]. apply andb_prop in H as [H _].
    apply validate_basic_sound; exact H.
  Qed.

  (* without the call the delivery verdict does not look at the signatures at all *)
  Theorem deliver_ignores_signatures t sigs' :
    deliver_tx signers_of static_ok process_ok false t =
    deliver_tx signers_of static_ok process_ok false {| t_raw := t_raw t ; t_sigs := sigs' |}.
  Proof. reflexivity. Qed.
End Admission.
