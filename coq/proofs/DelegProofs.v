(* DelegProofs.v — lemmas and proofs about theories/Deleg.v (C12). *)
From stdpp Require Import gmap list.
From Coq Require Import ZArith NArith Lia ZifyBool ZifyNat ZifyN.
Ltac Zify.zify_post_hook ::= Z.div_mod_to_equations.
From OL Require Import theories.Deleg.
Local Open Scope Z_scope.

(* ------------------------------------------------------------------ *)
(* 1. pool balance versus the sum of the active delegations            *)
(* ------------------------------------------------------------------ *)

Lemma asum_insert (m : gmap addr Z) a v : asum (<[a:=v]> m) = asum m - aget m a + v.
Proof.
  unfold asum, aget.
  destruct (m !! a) as [old|] eqn:E; simpl.
  - rewrite <- (insert_delete m a old E) at 2.
    rewrite <- (insert_delete_insert m a v).
    rewrite !map_fold_insert_L; try (intros; lia); try apply lookup_delete.
  - rewrite map_fold_insert_L; auto; try (intros; lia).
Qed.

Definition gap (s : st) : Z := pool s - asum (active s) - donated s.

Lemma charge_cases s0 s a fee :
  (charge s0 s a fee).1 = s0 \/
  (charge s0 s a fee).1 =
    with_tx s (fupd (bal s) a (bal s a - fee)) (pool s) (active s) (pend s) (rew s) (rpend s)
            (donated s) (und s) (rwd s) (taken s).
Proof. unfold charge. destruct (bal s a - fee <? 0); simpl; auto. Qed.

Lemma step_gap astr s o : gap (step astr s o).1 = gap s.
Proof.
  destruct o as [accr|a amt fee|a amt fee|a amt fee|a amt fee|a amt fee]; simpl.
  - destruct (mature (scan_und astr) (height s + 1) (bal s) (pend s)) as [b1 p1].
    destruct (mature (scan_rw astr) (height s + 1) b1 (rpend s)) as [b2 rp1]. reflexivity.
  - destruct ((amt <? 0) || (bal s a - amt <? 0)); [reflexivity|].
    match goal with |- gap (charge ?s0 ?s1 ?a ?f).1 = _ =>
      destruct (charge_cases s0 s1 a f) as [-> | ->]; [reflexivity|] end.
    unfold gap; simpl. rewrite asum_insert. lia.
  - destruct ((aget (active s) a - amt <? 0) || (pool s - amt <? 0)); [reflexivity|].
    match goal with |- gap (charge ?s0 ?s1 ?a ?f).1 = _ =>
      destruct (charge_cases s0 s1 a f) as [-> | ->]; [reflexivity|] end.
    unfold gap; simpl. rewrite asum_insert. lia.
  - destruct (rew s a - amt <? 0); [reflexivity|].
    match goal with |- gap (charge ?s0 ?s1 ?a ?f).1 = _ =>
      destruct (charge_cases s0 s1 a f) as [-> | ->]; reflexivity end.
  - destruct (rew s a - amt <? 0); [reflexivity|].
    match goal with |- gap (charge ?s0 ?s1 ?a ?f).1 = _ =>
      destruct (charge_cases s0 s1 a f) as [-> | ->]; [reflexivity|] end.
    unfold gap; simpl. rewrite asum_insert. lia.
  - destruct (bal s a - amt <? 0); [reflexivity|].
    match goal with |- gap (charge ?s0 ?s1 ?a ?f).1 = _ =>
      destruct (charge_cases s0 s1 a f) as [-> | ->]; [reflexivity|] end.
    unfold gap; simpl. lia.
Qed.

Lemma run_gap astr ops : forall s, gap (run astr s ops) = gap s.
Proof.
  induction ops as [|o ops IH]; intros s; [reflexivity|].
  unfold run in *. simpl. rewrite IH. apply step_gap.
Qed.

Definition is_donate (o : op) : bool := match o with Donate _ _ _ => true | _ => false end.

Lemma step_donated astr s o :
  (neg_donation o = false -> donated s <= donated (step astr s o).1) /\
  (is_donate o = false -> donated (step astr s o).1 = donated s).
Proof.
  destruct o as [accr|a amt fee|a amt fee|a amt fee|a amt fee|a amt fee]; simpl.
  - destruct (mature (scan_und astr) (height s + 1) (bal s) (pend s)) as [b1 p1].
    destruct (mature (scan_rw astr) (height s + 1) b1 (rpend s)) as [b2 rp1]. simpl. split; intros; lia.
  - destruct ((amt <? 0) || (bal s a - amt <? 0)); [split; intros; simpl; lia|].
    match goal with |- context [charge ?s0 ?s1 ?a ?f] =>
      destruct (charge_cases s0 s1 a f) as [-> | ->] end; simpl; split; intros; lia.
  - destruct ((aget (active s) a - amt <? 0) || (pool s - amt <? 0)); [split; intros; simpl; lia|].
    match goal with |- context [charge ?s0 ?s1 ?a ?f] =>
      destruct (charge_cases s0 s1 a f) as [-> | ->] end; simpl; split; intros; lia.
  - destruct (rew s a - amt <? 0); [split; intros; simpl; lia|].
    match goal with |- context [charge ?s0 ?s1 ?a ?f] =>
      destruct (charge_cases s0 s1 a f) as [-> | ->] end; simpl; split; intros; lia.
  - destruct (rew s a - amt <? 0); [split; intros; simpl; lia|].
    match goal with |- context [charge ?s0 ?s1 ?a ?f] =>
      destruct (charge_cases s0 s1 a f) as [-> | ->] end; simpl; split; intros; lia.
  - destruct (bal s a - amt <? 0); [split; intros; simpl; try lia; discriminate|].
    match goal with |- context [charge ?s0 ?s1 ?a ?f] =>
      destruct (charge_cases s0 s1 a f) as [-> | ->] end; simpl; split; intros H; try discriminate; lia.
Qed.

Lemma run_donated_nonneg astr ops : forall s,
  trig_neg_donation ops = false -> donated s <= donated (run astr s ops).
Proof.
  induction ops as [|o ops IH]; intros s H; [simpl; lia|].
  unfold trig_neg_donation in H. simpl in H. apply orb_false_elim in H as [H1 H2].
  unfold run in *. simpl. specialize (IH (step astr s o).1 H2).
  pose proof (proj1 (step_donated astr s o) H1). lia.
Qed.

Lemma run_donated_none astr ops : forall s,
  existsb is_donate ops = false -> donated (run astr s ops) = donated s.
Proof.
  induction ops as [|o ops IH]; intros s H; [reflexivity|].
  simpl in H. apply orb_false_elim in H as [H1 H2].
  unfold run in *. simpl. rewrite (IH _ H2). apply (proj2 (step_donated astr s o) H1).
Qed.

(* the exact relation, for every history *)
Lemma pool_exact astr s0 ops :
  pool (run astr s0 ops) =
  asum (active (run astr s0 ops)) + (pool s0 - asum (active s0)) + (donated (run astr s0 ops) - donated s0).
Proof. pose proof (run_gap astr ops s0) as H. unfold gap in H. lia. Qed.

Lemma run_app astr s a b : run astr s (a ++ b) = run astr (run astr s a) b.
Proof. unfold run. apply fold_left_app. Qed.

Lemma pool_covers_active_partial astr s0 pre post :
  asum (active s0) <= pool s0 ->
  trig_neg_donation (pre ++ post) = false ->
  asum (active (run astr s0 pre)) <= pool (run astr s0 pre).
Proof.
  intros H0 Ht. unfold trig_neg_donation in Ht. rewrite existsb_app in Ht.
  apply orb_false_elim in Ht as [Ht _].
  pose proof (pool_exact astr s0 pre). pose proof (run_donated_nonneg astr pre s0 Ht). lia.
Qed.

Lemma pool_equals_active_without_donation astr s0 pre post :
  existsb is_donate (pre ++ post) = false ->
  pool (run astr s0 pre) - asum (active (run astr s0 pre)) = pool s0 - asum (active s0).
Proof.
  intros Ht. rewrite existsb_app in Ht. apply orb_false_elim in Ht as [Ht _].
  pose proof (pool_exact astr s0 pre). rewrite (run_donated_none astr pre s0 Ht) in H. lia.
Qed.

(* ------------------------------------------------------------------ *)
(* 2. maturation: paid exactly once, at the maturity height            *)
(* ------------------------------------------------------------------ *)

Lemma collides_false scan h (p : pmap) : collides scan h p = false ->
  map_Forall (fun key _ => scan h key.1 key.2 && negb (key.1 =? h)%N = false) p.
Proof.
  unfold collides. intros H. apply negb_false_iff in H. by apply bool_decide_eq_true in H.
Qed.

Lemma collide_fold_id scan h init (m : pmap) :
  map_Forall (fun key _ => scan h key.1 key.2 && negb (key.1 =? h)%N = false) m ->
  map_fold (collide_step scan h) init m = init.
Proof.
  apply (map_fold_ind (fun r m =>
    map_Forall (fun key _ => scan h key.1 key.2 && negb (key.1 =? h)%N = false) m -> r = init)).
  - done.
  - intros [n a] x m' r Hnone IH HF. apply map_Forall_insert in HF as [Hc HF]; [|done].
    simpl in Hc. rewrite (IH HF). unfold collide_step. rewrite Hc. done.
Qed.

Lemma mature_nocoll scan h b p : collides scan h p = false ->
  mature scan h b p = (fun a => b a + pget p h a, own_zero h p).
Proof.
  intros H. unfold mature. rewrite collide_fold_id; [done | by apply collides_false].
Qed.

Lemma pget_own_zero h p n a : pget (own_zero h p) n a = if (n =? h)%N then 0 else pget p n a.
Proof.
  unfold pget, own_zero, pmap in *. rewrite map_lookup_imap.
  destruct (p !! (n, a)); simpl; by destruct (n =? h)%N.
Qed.

Lemma pget_insert (p : pmap) n a v n' a' :
  pget (<[(n, a) := v]> p) n' a' = if ((n' =? n) && (a' =? a))%N then v else pget p n' a'.
Proof.
  unfold pget, pmap in *. destruct (decide ((n, a) = (n', a'))) as [E|E].
  - inversion E; subst. rewrite lookup_insert, !N.eqb_refl. done.
  - rewrite lookup_insert_ne by done.
    destruct (n' =? n)%N eqn:E1; [|done]. destruct (a' =? a)%N eqn:E2; [|done].
    apply N.eqb_eq in E1, E2. subst. done.
Qed.

Definition inv_paid (p0 : pmap) (h : N) (pe : pmap) (un pa : N -> addr -> Z) : Prop :=
  (forall n a, (h < n)%N -> pget pe n a = un n a + pget p0 n a) /\
  (forall n a, (1 <= n <= h)%N -> pa n a = un n a + pget p0 n a) /\
  (forall n a, (h < n)%N -> pa n a = 0).

Lemma inv_begin p0 h pe un pa pa' :
  inv_paid p0 h pe un pa ->
  (forall n a, pa' n a = if (n =? h + 1)%N then pget pe (h + 1) a else pa n a) ->
  inv_paid p0 (h + 1) (own_zero (h + 1) pe) un pa'.
Proof.
  intros (I1 & I2 & I3) Hpa. repeat split; intros n a Hn.
  - rewrite pget_own_zero. destruct (n =? h + 1)%N eqn:E; [apply N.eqb_eq in E; lia|].
    apply I1. lia.
  - rewrite Hpa. destruct (n =? h + 1)%N eqn:E.
    + apply N.eqb_eq in E. subst. apply I1. lia.
    + apply N.eqb_neq in E. apply I2. lia.
  - rewrite Hpa. destruct (n =? h + 1)%N eqn:E; [apply N.eqb_eq in E; lia|]. apply I3. lia.
Qed.

Lemma inv_add p0 h pe un pa k a amt :
  inv_paid p0 h pe un pa -> (1 <= k)%N ->
  inv_paid p0 h (<[(h + k, a)%N := pget pe (h + k) a + amt]> pe)
           (fupd2 un (h + k) a (un (h + k)%N a + amt)) pa.
Proof.
  intros (I1 & I2 & I3) Hk. repeat split; intros n a' Hn.
  - rewrite pget_insert. unfold fupd2.
    destruct ((n =? h + k) && (a' =? a))%N eqn:E.
    + apply andb_true_iff in E as [E1 E2]. apply N.eqb_eq in E1, E2. subst.
      rewrite (I1 (h + k)%N a) by lia. lia.
    + apply I1. lia.
  - unfold fupd2. destruct (n =? h + k)%N eqn:E; [apply N.eqb_eq in E; lia|]. simpl. apply I2. lia.
  - apply I3. lia.
Qed.

Definition inv_und (p0 : pmap) (s : st) : Prop := inv_paid p0 (height s) (pend s) (und s) (paid s).
Definition inv_rwd (rp0 : pmap) (s : st) : Prop := inv_paid rp0 (height s) (rpend s) (rwd s) (rpaid s).

Lemma charge_proj s0 s a fee :
  let r := (charge s0 s a fee).1 in
  r = s0 \/
  (height r = height s /\ matk r = matk s /\ pend r = pend s /\ und r = und s /\ paid r = paid s /\
   rpend r = rpend s /\ rwd r = rwd s /\ rpaid r = rpaid s /\ collided r = collided s /\
   rew r = rew s /\ accrued r = accrued s /\ taken r = taken s).
Proof.
  destruct (charge_cases s0 s a fee) as [-> | ->]; [left; done|right]. simpl. repeat split.
Qed.

Lemma step_matk astr s o : matk (step astr s o).1 = matk s.
Proof.
  destruct o as [accr|a amt fee|a amt fee|a amt fee|a amt fee|a amt fee]; simpl.
  - destruct (mature (scan_und astr) (height s + 1) (bal s) (pend s)) as [b1 p1].
    destruct (mature (scan_rw astr) (height s + 1) b1 (rpend s)) as [b2 rp1]. reflexivity.
  - destruct ((amt <? 0) || (bal s a - amt <? 0)); [reflexivity|].
    match goal with |- context [charge ?s0 ?s1 ?a ?f] =>
      destruct (charge_proj s0 s1 a f) as [-> | (_ & -> & _)] end; reflexivity.
  - destruct ((aget (active s) a - amt <? 0) || (pool s - amt <? 0)); [reflexivity|].
    match goal with |- context [charge ?s0 ?s1 ?a ?f] =>
      destruct (charge_proj s0 s1 a f) as [-> | (_ & -> & _)] end; reflexivity.
  - destruct (rew s a - amt <? 0); [reflexivity|].
    match goal with |- context [charge ?s0 ?s1 ?a ?f] =>
      destruct (charge_proj s0 s1 a f) as [-> | (_ & -> & _)] end; reflexivity.
  - destruct (rew s a - amt <? 0); [reflexivity|].
    match goal with |- context [charge ?s0 ?s1 ?a ?f] =>
      destruct (charge_proj s0 s1 a f) as [-> | (_ & -> & _)] end; reflexivity.
  - destruct (bal s a - amt <? 0); [reflexivity|].
    match goal with |- context [charge ?s0 ?s1 ?a ?f] =>
      destruct (charge_proj s0 s1 a f) as [-> | (_ & -> & _)] end; reflexivity.
Qed.

Lemma step_collided_mono astr s o : collided s = true -> collided (step astr s o).1 = true.
Proof.
  intros Hc.
  destruct o as [accr|a amt fee|a amt fee|a amt fee|a amt fee|a amt fee]; simpl.
  - destruct (mature (scan_und astr) (height s + 1) (bal s) (pend s)) as [b1 p1].
    destruct (mature (scan_rw astr) (height s + 1) b1 (rpend s)) as [b2 rp1]. simpl. by rewrite Hc.
  - destruct ((amt <? 0) || (bal s a - amt <? 0)); [done|].
    match goal with |- context [charge ?s0 ?s1 ?a ?f] =>
      destruct (charge_proj s0 s1 a f) as [-> | (_ & _ & _ & _ & _ & _ & _ & _ & -> & _)] end; done.
  - destruct ((aget (active s) a - amt <? 0) || (pool s - amt <? 0)); [done|].
    match goal with |- context [charge ?s0 ?s1 ?a ?f] =>
      destruct (charge_proj s0 s1 a f) as [-> | (_ & _ & _ & _ & _ & _ & _ & _ & -> & _)] end; done.
  - destruct (rew s a - amt <? 0); [done|].
    match goal with |- context [charge ?s0 ?s1 ?a ?f] =>
      destruct (charge_proj s0 s1 a f) as [-> | (_ & _ & _ & _ & _ & _ & _ & _ & -> & _)] end; done.
  - destruct (rew s a - amt <? 0); [done|].
    match goal with |- context [charge ?s0 ?s1 ?a ?f] =>
      destruct (charge_proj s0 s1 a f) as [-> | (_ & _ & _ & _ & _ & _ & _ & _ & -> & _)] end; done.
  - destruct (bal s a - amt <? 0); [done|].
    match goal with |- context [charge ?s0 ?s1 ?a ?f] =>
      destruct (charge_proj s0 s1 a f) as [-> | (_ & _ & _ & _ & _ & _ & _ & _ & -> & _)] end; done.
Qed.

Lemma run_collided_mono astr ops : forall s, collided s = true -> collided (run astr s ops) = true.
Proof.
  induction ops as [|o ops IH]; intros s H; [done|].
  unfold run in *. simpl. apply IH. by apply step_collided_mono.
Qed.

(* one step preserves both maturity invariants as long as no scan collided *)
Lemma step_inv astr p0 rp0 s o :
  inv_und p0 s -> inv_rwd rp0 s -> (1 <= matk s)%N ->
  collided (step astr s o).1 = false ->
  inv_und p0 (step astr s o).1 /\ inv_rwd rp0 (step astr s o).1.
Proof.
  intros Iu Ir Hk.
  destruct o as [accr|a amt fee|a amt fee|a amt fee|a amt fee|a amt fee]; simpl.
  - destruct (collides (scan_und astr) (height s + 1) (pend s)) eqn:C1.
    { destruct (mature (scan_und astr) (height s + 1) (bal s) (pend s)) as [b1 p1].
      destruct (mature (scan_rw astr) (height s + 1) b1 (rpend s)) as [b2 rp1]. simpl.
      rewrite orb_true_r. discriminate. }
    destruct (collides (scan_rw astr) (height s + 1) (rpend s)) eqn:C2.
    { destruct (mature (scan_und astr) (height s + 1) (bal s) (pend s)) as [b1 p1].
      destruct (mature (scan_rw astr) (height s + 1) b1 (rpend s)) as [b2 rp1]. simpl.
      rewrite orb_true_r. discriminate. }
    rewrite (mature_nocoll _ _ _ _ C1). rewrite (mature_nocoll _ _ _ _ C2). simpl. intros _.
    split; unfold inv_und, inv_rwd; simpl.
    + apply (inv_begin _ _ _ _ (paid s)); [exact Iu|]. intros n a. destruct (n =? height s + 1)%N; lia.
    + apply (inv_begin _ _ _ _ (rpaid s)); [exact Ir|]. intros n a. destruct (n =? height s + 1)%N; lia.
  - destruct ((amt <? 0) || (bal s a - amt <? 0)); [done|].
    match goal with |- context [charge ?s0 ?s1 ?a ?f] =>
      destruct (charge_proj s0 s1 a f) as [-> | (E1 & E2 & E3 & E4 & E5 & E6 & E7 & E8 & _)] end; [done|].
    intros _. unfold inv_und, inv_rwd. rewrite E1, E3, E4, E5, E6, E7, E8. simpl. done.
  - destruct ((aget (active s) a - amt <? 0) || (pool s - amt <? 0)); [done|].
    match goal with |- context [charge ?s0 ?s1 ?a ?f] =>
      destruct (charge_proj s0 s1 a f) as [-> | (E1 & E2 & E3 & E4 & E5 & E6 & E7 & E8 & _)] end; [done|].
    intros _. unfold inv_und, inv_rwd. rewrite E1, E3, E4, E5, E6, E7, E8. simpl. split; [|done].
    by apply inv_add.
  - destruct (rew s a - amt <? 0); [done|].
    match goal with |- context [charge ?s0 ?s1 ?a ?f] =>
      destruct (charge_proj s0 s1 a f) as [-> | (E1 & E2 & E3 & E4 & E5 & E6 & E7 & E8 & _)] end; [done|].
    intros _. unfold inv_und, inv_rwd. rewrite E1, E3, E4, E5, E6, E7, E8. simpl. split; [done|].
    by apply inv_add.
  - destruct (rew s a - amt <? 0); [done|].
    match goal with |- context [charge ?s0 ?s1 ?a ?f] =>
      destruct (charge_proj s0 s1 a f) as [-> | (E1 & E2 & E3 & E4 & E5 & E6 & E7 & E8 & _)] end; [done|].
    intros _. unfold inv_und, inv_rwd. rewrite E1, E3, E4, E5, E6, E7, E8. simpl. done.
  - destruct (bal s a - amt <? 0); [done|].
    match goal with |- context [charge ?s0 ?s1 ?a ?f] =>
      destruct (charge_proj s0 s1 a f) as [-> | (E1 & E2 & E3 & E4 & E5 & E6 & E7 & E8 & _)] end; [done|].
    intros _. unfold inv_und, inv_rwd. rewrite E1, E3, E4, E5, E6, E7, E8. simpl. done.
Qed.

Lemma run_inv astr p0 rp0 ops : forall s,
  inv_und p0 s -> inv_rwd rp0 s -> (1 <= matk s)%N ->
  collided (run astr s ops) = false ->
  inv_und p0 (run astr s ops) /\ inv_rwd rp0 (run astr s ops).
Proof.
  induction ops as [|o ops IH]; intros s Iu Ir Hk Hc; [done|].
  unfold run in *. simpl in *.
  assert (Hs : collided (step astr s o).1 = false).
  { destruct (collided (step astr s o).1) eqn:E; [|done].
    pose proof (run_collided_mono astr ops _ E) as H. unfold run in H. congruence. }
  destruct (step_inv astr p0 rp0 s o Iu Ir Hk Hs) as [Iu' Ir'].
  apply IH; auto. by rewrite step_matk.
Qed.

Lemma inv_genesis k b pl ac pe rw rp :
  inv_und pe (genesis k b pl ac pe rw rp) /\ inv_rwd rp (genesis k b pl ac pe rw rp).
Proof. split; repeat split; simpl; intros; lia. Qed.

(* C12_paid_once_at_maturity (partial: no scan collided).  For every genesis and history:
   at every executed block n the maturation routine credited delegator a exactly the amount due
   at n (genesis entry for (n,a) + the successful undelegations maturing at n), nothing is credited
   for a height not yet reached, and what is not yet due is still pending. *)
Lemma paid_once_partial astr k b pl ac pe rw rp ops :
  (1 <= k)%N ->
  let s0 := genesis k b pl ac pe rw rp in
  let s := run astr s0 ops in
  trig_collision astr s0 ops = false ->
  forall n a,
    ((1 <= n <= height s)%N -> paid s n a = und s n a + pget pe n a) /\
    ((height s < n)%N -> paid s n a = 0 /\ pget (pend s) n a = und s n a + pget pe n a).
Proof.
  intros Hk s0 s Ht n a.
  destruct (inv_genesis k b pl ac pe rw rp) as [Iu Ir].
  destruct (run_inv astr pe rp ops s0 Iu Ir Hk Ht) as [(I1 & I2 & I3) _].
  split; intros Hn; [by apply I2|]. split; [by apply I3 | by apply I1].
Qed.

Lemma rewards_paid_once_partial astr k b pl ac pe rw rp ops :
  (1 <= k)%N ->
  let s0 := genesis k b pl ac pe rw rp in
  let s := run astr s0 ops in
  trig_collision astr s0 ops = false ->
  forall n a,
    ((1 <= n <= height s)%N -> rpaid s n a = rwd s n a + pget rp n a) /\
    ((height s < n)%N -> rpaid s n a = 0 /\ pget (rpend s) n a = rwd s n a + pget rp n a).
Proof.
  intros Hk s0 s Ht n a.
  destruct (inv_genesis k b pl ac pe rw rp) as [Iu Ir].
  destruct (run_inv astr pe rp ops s0 Iu Ir Hk Ht) as [_ (I1 & I2 & I3)].
  split; intros Hn; [by apply I2|]. split; [by apply I3 | by apply I1].
Qed.

(* the credit a delegator receives in BeginBlock is exactly paid + rpaid of that block *)
Lemma begin_credit astr s accr a :
  let s' := (step astr s (Begin accr)).1 in
  bal s' a - bal s a = paid s' (height s') a + rpaid s' (height s') a.
Proof.
  simpl.
  destruct (mature (scan_und astr) (height s + 1) (bal s) (pend s)) as [b1 p1].
  destruct (mature (scan_rw astr) (height s + 1) b1 (rpend s)) as [b2 rp1]. simpl.
  rewrite N.eqb_refl. lia.
Qed.

(* ------------------------------------------------------------------ *)
(* 3. reward withdrawals never exceed the accrued reward balance       *)
(* ------------------------------------------------------------------ *)

Lemma add_accr_diff l : forall f g a, add_accr f l a - add_accr g l a = f a - g a.
Proof.
  induction l as [|[a0 v] l IH]; intros f g a; [reflexivity|].
  unfold add_accr in *. simpl. rewrite IH. unfold fupd. destruct (a =? a0)%N eqn:E; [|lia].
  apply N.eqb_eq in E. subst. lia.
Qed.

Definition accr_nonneg (o : op) : bool :=
  match o with Begin accr => forallb (fun x => 0 <=? x.2) accr | _ => true end.

Lemma add_accr_nonneg l : forall f, (forall a, 0 <= f a) -> forallb (fun x => 0 <=? x.2) l = true ->
  forall a, 0 <= add_accr f l a.
Proof.
  induction l as [|[a0 v] l IH]; intros f Hf Hl a; [apply Hf|].
  simpl in Hl. apply andb_true_iff in Hl as [Hv Hl]. apply Z.leb_le in Hv.
  unfold add_accr in *. simpl. apply IH; [|done].
  intros x. unfold fupd. destruct (x =? a0)%N; [|apply Hf]. specialize (Hf a0). lia.
Qed.

Definition rbook (s : st) (a : addr) : Z := rew s a - accrued s a + taken s a.

Lemma step_rewards astr s o a :
  rbook (step astr s o).1 a = rbook s a /\
  ((forall x, 0 <= rew s x) -> accr_nonneg o = true -> 0 <= rew (step astr s o).1 a).
Proof.
  unfold rbook.
  destruct o as [accr|a0 amt fee|a0 amt fee|a0 amt fee|a0 amt fee|a0 amt fee]; simpl.
  - destruct (mature (scan_und astr) (height s + 1) (bal s) (pend s)) as [b1 p1].
    destruct (mature (scan_rw astr) (height s + 1) b1 (rpend s)) as [b2 rp1]. simpl. split.
    + pose proof (add_accr_diff accr (rew s) (accrued s) a). lia.
    + intros Hr Ha. by apply add_accr_nonneg.
  - destruct ((amt <? 0) || (bal s a0 - amt <? 0)); [simpl; split; [lia|intros H _; apply H]|].
    match goal with |- context [charge ?s0 ?s1 ?a ?f] =>
      destruct (charge_proj s0 s1 a f) as [-> | (_ & _ & _ & _ & _ & _ & _ & _ & _ & -> & -> & ->)] end;
      simpl; (split; [lia|intros H _; apply H]).
  - destruct ((aget (active s) a0 - amt <? 0) || (pool s - amt <? 0)); [simpl; split; [lia|intros H _; apply H]|].
    match goal with |- context [charge ?s0 ?s1 ?a ?f] =>
      destruct (charge_proj s0 s1 a f) as [-> | (_ & _ & _ & _ & _ & _ & _ & _ & _ & -> & -> & ->)] end;
      simpl; (split; [lia|intros H _; apply H]).
  - destruct (rew s a0 - amt <? 0) eqn:Hlt; [simpl; split; [lia|intros H _; apply H]|].
    apply Z.ltb_ge in Hlt.
    match goal with |- context [charge ?s0 ?s1 ?a ?f] =>
      destruct (charge_proj s0 s1 a f) as [-> | (_ & _ & _ & _ & _ & _ & _ & _ & _ & -> & -> & ->)] end;
      simpl; [simpl; split; [lia|intros H _; apply H]|].
    unfold fupd. destruct (a =? a0)%N eqn:E; [apply N.eqb_eq in E; subst|]; (split; [lia|intros H _; try apply H; lia]).
  - destruct (rew s a0 - amt <? 0) eqn:Hlt; [simpl; split; [lia|intros H _; apply H]|].
    apply Z.ltb_ge in Hlt.
    match goal with |- context [charge ?s0 ?s1 ?a ?f] =>
      destruct (charge_proj s0 s1 a f) as [-> | (_ & _ & _ & _ & _ & _ & _ & _ & _ & -> & -> & ->)] end;
      simpl; [simpl; split; [lia|intros H _; apply H]|].
    unfold fupd. destruct (a =? a0)%N eqn:E; [apply N.eqb_eq in E; subst|]; (split; [lia|intros H _; try apply H; lia]).
  - destruct (bal s a0 - amt <? 0); [simpl; split; [lia|intros H _; apply H]|].
    match goal with |- context [charge ?s0 ?s1 ?a ?f] =>
      destruct (charge_proj s0 s1 a f) as [-> | (_ & _ & _ & _ & _ & _ & _ & _ & _ & -> & -> & ->)] end;
      simpl; (split; [lia|intros H _; apply H]).
Qed.

Lemma run_rewards astr ops : forall s,
  (forall a, rbook (run astr s ops) a = rbook s a) /\
  ((forall x, 0 <= rew s x) -> forallb accr_nonneg ops = true -> forall a, 0 <= rew (run astr s ops) a).
Proof.
  induction ops as [|o ops IH]; intros s; [split; [done|intros H _; apply H]|].
  unfold run in *. simpl. destruct (IH (step astr s o).1) as [IH1 IH2]. split.
  - intros a. rewrite IH1. apply (step_rewards astr s o a).
  - intros Hr Ha. apply andb_true_iff in Ha as [Ha1 Ha2]. apply IH2; [|done].
    intros x. by apply (step_rewards astr s o x).
Qed.

(* for every genesis and history with non-negative accruals: the reward balance is
   genesis + accrued - (withdrawn + reinvested), it is never negative, hence what has been
   withdrawn or reinvested never exceeds what was there *)
Lemma reward_withdrawal_bounded astr k b pl ac pe rw rp ops a :
  let s := run astr (genesis k b pl ac pe rw rp) ops in
  rew s a = rw a + accrued s a - taken s a /\
  ((forall x, 0 <= rw x) -> forallb accr_nonneg ops = true ->
   0 <= rew s a /\ taken s a <= rw a + accrued s a).
Proof.
  intros s. destruct (run_rewards astr ops (genesis k b pl ac pe rw rp)) as [H1 H2].
  specialize (H1 a). unfold rbook in H1. simpl in H1. fold s in H1. split; [lia|].
  intros Hr Ha. specialize (H2 Hr Ha a). fold s in H2. lia.
Qed.

(* ------------------------------------------------------------------ *)
(* 4. the scans on the key strings: which keys does a block visit?     *)
(* ------------------------------------------------------------------ *)
Section Strings.
Local Open Scope N_scope.

Lemma lex_range_prefix d : forall k hi, lex_le d k = true -> lex_lt k (d ++ [hi]) = true -> exists rest, k = d ++ rest.
Proof.
  induction d as [|x d IH]; intros k hi H1 H2; [by exists k|].
  destruct k as [|y k]; [simpl in H1; discriminate|].
  unfold lex_le in H1. simpl in H1, H2.
  destruct (y <? x) eqn:E1; [discriminate|].
  destruct (y =? x) eqn:E2; [|discriminate H2].
  apply N.eqb_eq in E2; subst. destruct (IH k hi) as [r ->]; [exact H1| exact H2 |]. by exists r.
Qed.

Lemma strip_sep_snoc l c : strip_sep (l ++ [c]) = if (c =? SEP) then l else l ++ [c].
Proof.
  induction l as [|x l IH]; [simpl; by destruct (c =? SEP)|].
  change ((x :: l) ++ [c]) with (x :: (l ++ [c])).
  destruct (l ++ [c]) as [|z t] eqn:E; [by destruct l|].
  change (strip_sep (x :: z :: t)) with (x :: strip_sep (z :: t)). rewrite IH.
  by destruct (c =? SEP).
Qed.

Definition isdigit (c : N) : Prop := 48 <= c <= 57.

Lemma dec_le_digits f : forall n, Forall isdigit (dec_le f n).
Proof.
  induction f as [|f IH]; intros n; cbn [dec_le]; [constructor|].
  constructor.
  - unfold isdigit. assert (n mod 10 < 10) by (apply N.mod_upper_bound; done). lia.
  - destruct (n / 10 =? 0); [constructor | apply IH].
Qed.

Lemma dec_digits n : Forall isdigit (dec n).
Proof. unfold dec. apply Forall_rev, dec_le_digits. Qed.

Lemma dec_snoc n : exists l, dec n = l ++ [48 + n mod 10].
Proof. unfold dec. simpl. eexists. reflexivity. Qed.

Lemma nosep_prefix d : forall e rest s, Forall isdigit d -> d ++ rest = e ++ SEP :: s -> exists t, e = d ++ t.
Proof.
  induction d as [|x d IH]; intros e rest s Hd H; [by exists e|].
  inversion Hd as [|? ? Hx Hd']; subst.
  destruct e as [|y e]; simpl in H.
  - inversion H; subst. unfold isdigit, SEP in Hx. lia.
  - inversion H; subst. destruct (IH e rest s Hd' H2) as [t ->]. by exists t.
Qed.

Fixpoint vle (l : bytes) : N := match l with [] => 0 | c :: l' => (c - 48) + 10 * vle l' end.

Lemma vle_dec_le f : forall n, n < 2 ^ N.of_nat f -> vle (dec_le f n) = n.
Proof.
  induction f as [|f IH]; intros n Hn.
  - simpl in *. lia.
  - rewrite Nat2N.inj_succ, N.pow_succ_r' in Hn. cbn [dec_le vle].
    pose proof (N.div_mod' n 10) as Hdm. assert (n mod 10 < 10) by (apply N.mod_upper_bound; done).
    destruct (n / 10 =? 0) eqn:E.
    + apply N.eqb_eq in E. cbn [vle]. lia.
    + rewrite IH; [lia|]. apply N.eqb_neq in E. lia.
Qed.

Lemma dec_val n : vle (rev (dec n)) = n.
Proof.
  unfold dec. rewrite rev_involutive. apply vle_dec_le.
  rewrite Nat2N.inj_succ, N2Nat.id.
  destruct (N.eq_dec n 0) as [->|Hn]; [vm_compute; reflexivity|].
  apply N.log2_spec. lia.
Qed.

Lemma vle_app l1 : forall l2, vle (l1 ++ l2) = vle l1 + 10 ^ N.of_nat (length l1) * vle l2.
Proof.
  induction l1 as [|c l1 IH]; intros l2; [cbn [app vle length]; change (N.of_nat 0) with 0; rewrite N.pow_0_r; lia|].
  simpl length. rewrite Nat2N.inj_succ, N.pow_succ_r'. cbn [app vle]. rewrite IH. rewrite N.mul_add_distr_l, !N.mul_assoc. lia.
Qed.

Lemma dec_prefix_arith h n t : dec n = dec h ++ t -> n = h \/ 10 * h <= n.
Proof.
  intros H. pose proof (dec_val n) as Hn. rewrite H, rev_app_distr, vle_app, dec_val in Hn.
  destruct t as [|c t]; [left; cbn [rev app vle length] in Hn; change (N.of_nat 0) with 0 in Hn; rewrite N.pow_0_r in Hn; lia|right].
  rewrite rev_length in Hn. simpl length in Hn. rewrite Nat2N.inj_succ, N.pow_succ_r' in Hn.
  assert (1 <= 10 ^ N.of_nat (length t)) by (pose proof (N.pow_nonzero 10 (N.of_nat (length t))); lia).
  nia.
Qed.

Lemma scan_und_char astr h n a : scan_und astr h n a = true -> n = h \/ 10 * h <= n.
Proof.
  unfold scan_und, in_range, rangefix, pkey_str. intros H. apply andb_true_iff in H as [H1 H2].
  destruct (dec_snoc h) as [l Hl].
  assert (Hs : strip_sep (PFX_P ++ dec h) = PFX_P ++ dec h).
  { rewrite Hl, app_assoc, strip_sep_snoc.
    destruct (48 + h mod 10 =? SEP) eqn:E; [|done]. apply N.eqb_eq in E. unfold SEP in E.
    assert (h mod 10 < 10) by (apply N.mod_upper_bound; done). lia. }
  rewrite Hs in H2.
  destruct (lex_range_prefix _ _ _ H1 H2) as [rest Hr].
  rewrite <- app_assoc in Hr. apply app_inv_head in Hr. symmetry in Hr.
  destruct (nosep_prefix _ _ _ _ (dec_digits h) Hr) as [t Ht].
  by apply (dec_prefix_arith h n t).
Qed.

Lemma lex_range_sep i : forall k lo hi, lex_le (i ++ [lo]) k = true -> lex_lt k (i ++ [hi]) = true ->
  exists c rest, k = i ++ c :: rest /\ lo <= c.
Proof.
  induction i as [|x i IH]; intros k lo hi H1 H2.
  - destruct k as [|c rest]; [simpl in H1; discriminate|]. exists c, rest. split; [done|].
    unfold lex_le in H1. simpl in H1. destruct (c <? lo) eqn:E; [discriminate|]. apply N.ltb_ge in E. lia.
  - destruct k as [|y k]; [simpl in H1; discriminate|].
    unfold lex_le in H1. simpl in H1, H2.
    destruct (y <? x) eqn:E1; [discriminate|].
    destruct (y =? x) eqn:E2; [|discriminate H2].
    apply N.eqb_eq in E2; subst. destruct (IH k lo hi) as (c & r & -> & Hc); [exact H1| exact H2 |].
    by exists c, r.
Qed.

Lemma digits_sep_eq d : forall e s c rest, Forall isdigit d -> Forall isdigit e -> SEP <= c ->
  e ++ SEP :: s = d ++ c :: rest -> e = d.
Proof.
  induction d as [|x d IH]; intros e s c rest Hd He Hc H.
  - destruct e as [|y e]; [done|]. inversion He as [|? ? Hy _]; subst. simpl in H. inversion H; subst.
    unfold isdigit, SEP in *. lia.
  - inversion Hd as [|? ? Hx Hd']; subst. destruct e as [|y e]; simpl in H; inversion H; subst.
    + unfold isdigit, SEP in Hx. lia.
    + inversion He; subst. f_equal. by apply (IH e s c rest).
Qed.

Lemma dec_inj n h : dec n = dec h -> n = h.
Proof. intros H. rewrite <- (dec_val n), <- (dec_val h), H. done. Qed.

Lemma scan_rw_exact astr h n a : scan_rw astr h n a = true -> n = h.
Proof.
  unfold scan_rw, in_range, rangefix, pkey_str. intros H. apply andb_true_iff in H as [H1 H2].
  replace (PFX_R ++ dec h ++ [SEP]) with ((PFX_R ++ dec h) ++ [SEP]) in * by (by rewrite <- app_assoc).
  rewrite strip_sep_snoc, N.eqb_refl in H2.
  destruct (lex_range_sep _ _ _ _ H1 H2) as (c & rest & Hr & Hc).
  rewrite <- app_assoc in Hr. apply app_inv_head in Hr.
  apply dec_inj. by apply (digits_sep_eq (dec h) (dec n) (astr a) c rest (dec_digits h) (dec_digits n) Hc).
Qed.

Lemma collides_rw_false astr h (p : pmap) : collides (scan_rw astr) h p = false.
Proof.
  unfold collides. apply negb_false_iff, bool_decide_eq_true. intros [n a] v _. simpl.
  destruct (scan_rw astr h n a) eqn:E; [|done]. apply scan_rw_exact in E. subst. by rewrite N.eqb_refl.
Qed.

(* invariant of chains whose pending entries all stem from transactions *)
Definition inv_tx (s : st) : Prop :=
  1 <= height s /\ matk s <= 18 /\ collided s = false /\
  forall n a v, pend s !! (n, a) = Some v -> n <= height s + matk s.

Lemma inv_tx_no_collision astr s : inv_tx s -> collides (scan_und astr) (height s + 1) (pend s) = false.
Proof.
  intros (Hh & Hk & _ & Hp). unfold collides. apply negb_false_iff, bool_decide_eq_true.
  intros [n a] v Hl. simpl. specialize (Hp n a v Hl).
  destruct (scan_und astr (height s + 1) n a) eqn:E; [|done].
  apply scan_und_char in E. destruct E as [-> | E]; [by rewrite N.eqb_refl|]. lia.
Qed.

Lemma own_zero_lookup h (p : pmap) key v : own_zero h p !! key = Some v -> exists v0, p !! key = Some v0.
Proof.
  unfold own_zero, pmap in *. rewrite map_lookup_imap. destruct (p !! key) eqn:E; [by eexists|done].
Qed.

Lemma step_inv_tx astr s o : inv_tx s -> inv_tx (step astr s o).1.
Proof.
  intros I. pose proof I as (Hh & Hk & Hc & Hp).
  destruct o as [accr|a amt fee|a amt fee|a amt fee|a amt fee|a amt fee]; simpl.
  - rewrite (mature_nocoll _ _ _ _ (inv_tx_no_collision astr s I)).
    rewrite (mature_nocoll _ _ _ _ (collides_rw_false astr _ _)). simpl.
    rewrite (inv_tx_no_collision astr s I), (collides_rw_false astr), Hc. simpl.
    unfold inv_tx; simpl. split; [lia|]. split; [lia|]. split; [done|].
    intros n a v Hl. apply own_zero_lookup in Hl as [v0 Hl]. specialize (Hp n a v0 Hl). lia.
  - destruct ((amt <? 0)%Z || (bal s a - amt <? 0)%Z); [done|].
    match goal with |- context [charge ?s0 ?s1 ?a ?f] =>
      destruct (charge_proj s0 s1 a f) as [-> | (E1 & E2 & E3 & _ & _ & _ & _ & _ & E9 & _)] end; [done|].
    unfold inv_tx. rewrite E1, E2, E3, E9. simpl. done.
  - destruct ((aget (active s) a - amt <? 0)%Z || (pool s - amt <? 0)%Z); [done|].
    match goal with |- context [charge ?s0 ?s1 ?a ?f] =>
      destruct (charge_proj s0 s1 a f) as [-> | (E1 & E2 & E3 & _ & _ & _ & _ & _ & E9 & _)] end; [done|].
    unfold inv_tx. rewrite E1, E2, E3, E9. simpl. repeat split; try done.
    intros n a' v Hl. unfold pmap in *. apply lookup_insert_Some in Hl as [[Hl _]|[_ Hl]].
    + inversion Hl; subst. lia.
    + by apply (Hp n a' v).
  - destruct (rew s a - amt <? 0)%Z; [done|].
    match goal with |- context [charge ?s0 ?s1 ?a ?f] =>
      destruct (charge_proj s0 s1 a f) as [-> | (E1 & E2 & E3 & _ & _ & _ & _ & _ & E9 & _)] end; [done|].
    unfold inv_tx. rewrite E1, E2, E3, E9. simpl. done.
  - destruct (rew s a - amt <? 0)%Z; [done|].
    match goal with |- context [charge ?s0 ?s1 ?a ?f] =>
      destruct (charge_proj s0 s1 a f) as [-> | (E1 & E2 & E3 & _ & _ & _ & _ & _ & E9 & _)] end; [done|].
    unfold inv_tx. rewrite E1, E2, E3, E9. simpl. done.
  - destruct (bal s a - amt <? 0)%Z; [done|].
    match goal with |- context [charge ?s0 ?s1 ?a ?f] =>
      destruct (charge_proj s0 s1 a f) as [-> | (E1 & E2 & E3 & _ & _ & _ & _ & _ & E9 & _)] end; [done|].
    unfold inv_tx. rewrite E1, E2, E3, E9. simpl. done.
Qed.

Lemma run_inv_tx astr ops : forall s, inv_tx s -> inv_tx (run astr s ops).
Proof.
  induction ops as [|o ops IH]; intros s I; [done|]. unfold run in *. simpl. by apply IH, step_inv_tx.
Qed.

(* From a genesis WITHOUT pending undelegations, with maturity period k <= 18, no scan ever
   collides — for every history that starts with a BeginBlock (transactions live in blocks). *)
Lemma no_collision_from_empty_genesis astr k b pl ac rw rp accr ops :
  k <= 18 ->
  trig_collision astr (genesis k b pl ac ∅ rw rp) (Begin accr :: ops) = false.
Proof.
  intros Hk. unfold trig_collision.
  change (run astr ?s (?o :: ?l)) with (run astr (step astr s o).1 l).
  apply run_inv_tx. simpl.
  assert (C1 : collides (scan_und astr) (0 + 1) (∅ : pmap) = false).
  { unfold collides. apply negb_false_iff, bool_decide_eq_true. apply map_Forall_empty. }
  rewrite (mature_nocoll _ _ _ _ C1), (mature_nocoll _ _ _ _ (collides_rw_false astr _ _)). simpl.
  rewrite C1, (collides_rw_false astr). simpl.
  unfold inv_tx; simpl. split; [lia|]. split; [lia|]. split; [done|].
  intros n a v Hl. apply own_zero_lookup in Hl as [v0 Hl]. unfold pmap in *. by rewrite lookup_empty in Hl.
Qed.

Lemma pget_empty n a : pget (∅ : pmap) n a = 0%Z.
Proof. unfold pget, pmap. by rewrite lookup_empty. Qed.

Lemma paid_once_from_empty_genesis astr k b pl ac rw rp accr ops :
  1 <= k <= 18 ->
  let s := run astr (genesis k b pl ac ∅ rw rp) (Begin accr :: ops) in
  forall n a,
    (1 <= n <= height s -> paid s n a = und s n a) /\
    (height s < n -> paid s n a = 0%Z /\ pget (pend s) n a = und s n a).
Proof.
  intros [Hk1 Hk2] s n a.
  pose proof (paid_once_partial astr k b pl ac ∅ rw rp (Begin accr :: ops) Hk1
                (no_collision_from_empty_genesis astr k b pl ac rw rp accr ops Hk2) n a) as H.
  rewrite pget_empty in H. fold s in H.
  destruct H as [H1 H2]. split; intros Hn; [rewrite (H1 Hn); lia|].
  destruct (H2 Hn) as [-> ->]. split; lia.
Qed.

End Strings.
