(* DelegProofs.v — lemmas and proofs about theories/Deleg.v (C12). *)
From stdpp Require Import gmap list.
From Coq Require Import ZArith NArith Lia ZifyBool ZifyNat ZifyN.
Ltac Zify.zify_post_hook ::= Z.div_mod_to_equations.
From OL Require Import theories.Deleg.
Local Open Scope Z_scope.

(* ------------------------------------------------------------------ *)
(* 1. pool balance versus the sum of the active delegations            *)
(* ------------------------------------------------------------------ *)

Lemma asum_insert (m : gmap addr Z) a v : asum (<[a:=v]> m) = asum m - aget m a + v.
Proof.
  unfold asum, aget.
  destruct (m !! a) as [old|] eqn:E; simpl.
  - rewrite <- (insert_delete m a old E) at 2.
    rewrite <- (insert_delete_insert m a v).
    rewrite !map_fold_insert_L; try (intros; lia); try apply lookup_delete.
  - rewrite map_fold_insert_L; auto; try (intros; lia).
Qed.

Definition gap (s : st) : Z := pool s - asum (active s) - donated s.

Lemma charge_cases s0 s a fee :
  (charge s0 s a fee).1 = s0 \/
  (charge s0 s a fee).1 =
    with_tx s (fupd (bal s) a (bal s a - fee)) (pool s) (active s) (pend s) (rew s) (rpend s)
            (donated s) (und s) (rwd s) (taken s).
Proof. unfold charge. destruct (bal s a - fee <? 0); simpl; auto. Qed.

Lemma step_gap astr s o : gap (step astr s o).1 = gap s.
Proof.
  destruct o as [accr|a amt fee|a amt fee|a amt fee|a amt fee|a amt fee]; simpl.
  - destruct (mature (scan_und astr) (height s + 1) (bal s) (pend s)) as [b1 p1].
    destruct (mature (scan_rw astr) (height s + 1) b1 (rpend s)) as [b2 rp1]. reflexivity.
  - destruct ((amt <? 0) || (bal s a - amt <? 0)); [reflexivity|].
    match goal with |- gap (charge ?s0 ?s1 ?a ?f).1 = _ =>
      destruct (charge_cases s0 s1 a f) as [-> | ->]; [reflexivity|] end.
    unfold gap; simpl. rewrite asum_insert. lia.
  - destruct ((aget (active s) a - amt <? 0) || (pool s - amt <? 0)); [reflexivity|].
    match goal with |- gap (charge ?s0 ?s1 ?a ?f).1 = _ =>
      destruct (charge_cases s0 s1 a f) as [-> | ->]; [reflexivity|] end.
    unfold gap; simpl. rewrite asum_insert. lia.
  - destruct (rew s a - amt <? 0); [reflexivity|].
    match goal with |- gap (charge ?s0 ?s1 ?a ?f).1 = _ =>
      destruct (charge_cases s0 s1 a f) as [-> | ->]; reflexivity end.
  - destruct (rew s a - amt <? 0); [reflexivity|].
    match goal with |- gap (charge ?s0 ?s1 ?a ?f).1 = _ =>
      destruct (charge_cases s0 s1 a f) as [-> | ->]; [reflexivity|] end.
    unfold gap; simpl. rewrite asum_insert. lia.
  - destruct ((amt <? 0) || (bal s a - amt <? 0)); [reflexivity|].
    match goal with |- gap (charge ?s0 ?s1 ?a ?f).1 = _ =>
      destruct (charge_cases s0 s1 a f) as [-> | ->]; [reflexivity|] end.
    unfold gap; simpl. lia.
Qed.

Lemma run_gap astr ops : forall s, gap (run astr s ops) = gap s.
Proof.
  induction ops as [|o ops IH]; intros s; [reflexivity|].
  unfold run in *. simpl. rewrite IH. apply step_gap.
Qed.

Definition is_donate (o : op) : bool := match o with Donate _ _ _ => true | _ => false end.

Lemma step_donated astr s o :
  donated s <= donated (step astr s o).1 /\
  (is_donate o = false -> donated (step astr s o).1 = donated s).
Proof.
  destruct o as [accr|a amt fee|a amt fee|a amt fee|a amt fee|a amt fee]; simpl.
  - destruct (mature (scan_und astr) (height s + 1) (bal s) (pend s)) as [b1 p1].
    destruct (mature (scan_rw astr) (height s + 1) b1 (rpend s)) as [b2 rp1]. simpl. split; intros; lia.
  - destruct ((amt <? 0) || (bal s a - amt <? 0)); [split; intros; simpl; lia|].
    match goal with |- context [charge ?s0 ?s1 ?a ?f] =>
      destruct (charge_cases s0 s1 a f) as [-> | ->] end; simpl; split; intros; lia.
  - destruct ((aget (active s) a - amt <? 0) || (pool s - amt <? 0)); [split; intros; simpl; lia|].
    match goal with |- context [charge ?s0 ?s1 ?a ?f] =>
      destruct (charge_cases s0 s1 a f) as [-> | ->] end; simpl; split; intros; lia.
  - destruct (rew s a - amt <? 0); [split; intros; simpl; lia|].
    match goal with |- context [charge ?s0 ?s1 ?a ?f] =>
      destruct (charge_cases s0 s1 a f) as [-> | ->] end; simpl; split; intros; lia.
  - destruct (rew s a - amt <? 0); [split; intros; simpl; lia|].
    match goal with |- context [charge ?s0 ?s1 ?a ?f] =>
      destruct (charge_cases s0 s1 a f) as [-> | ->] end; simpl; split; intros; lia.
  - destruct (amt <? 0) eqn:Hneg; simpl; [split; intros; try lia; discriminate|].
    apply Z.ltb_ge in Hneg.
    destruct (bal s a - amt <? 0); [split; intros; simpl; try lia; discriminate|].
    match goal with |- context [charge ?s0 ?s1 ?a ?f] =>
      destruct (charge_cases s0 s1 a f) as [-> | ->] end; simpl; (split; [lia | intros H; discriminate]).
Qed.

(* direct transfers to the pool are never negative (runSendPool checks Amount.IsValid) *)
Lemma run_donated_nonneg astr ops : forall s, donated s <= donated (run astr s ops).
Proof.
  induction ops as [|o ops IH]; intros s; [simpl; lia|].
  unfold run in *. simpl. specialize (IH (step astr s o).1).
  pose proof (proj1 (step_donated astr s o)). lia.
Qed.

Lemma run_donated_none astr ops : forall s,
  existsb is_donate ops = false -> donated (run astr s ops) = donated s.
Proof.
  induction ops as [|o ops IH]; intros s H; [reflexivity|].
  simpl in H. apply orb_false_elim in H as [H1 H2].
  unfold run in *. simpl. rewrite (IH _ H2). apply (proj2 (step_donated astr s o) H1).
Qed.

(* the exact relation, for every history *)
Lemma pool_exact astr s0 ops :
  pool (run astr s0 ops) =
  asum (active (run astr s0 ops)) + (pool s0 - asum (active s0)) + (donated (run astr s0 ops) - donated s0).
Proof. pose proof (run_gap astr ops s0) as H. unfold gap in H. lia. Qed.

Lemma run_app astr s a b : run astr s (a ++ b) = run astr (run astr s a) b.
Proof. unfold run. apply fold_left_app. Qed.

(* C12_pool_covers_active, full: for every genesis whose pool covers the active set and every
   history, after every operation (in particular at every block boundary) *)
Lemma pool_covers_active astr s0 ops :
  asum (active s0) <= pool s0 ->
  asum (active (run astr s0 ops)) <= pool (run astr s0 ops).
Proof.
  intros H0. pose proof (pool_exact astr s0 ops). pose proof (run_donated_nonneg astr ops s0). lia.
Qed.

Lemma pool_equals_active_without_donation astr s0 pre post :
  existsb is_donate (pre ++ post) = false ->
  pool (run astr s0 pre) - asum (active (run astr s0 pre)) = pool s0 - asum (active s0).
Proof.
  intros Ht. rewrite existsb_app in Ht. apply orb_false_elim in Ht as [Ht _].
  pose proof (pool_exact astr s0 pre). rewrite (run_donated_none astr pre s0 Ht) in H. lia.
Qed.

(* ------------------------------------------------------------------ *)
(* ------------------------------------------------------------------ *)
(* 2. the scans on the key strings: which keys does a block visit?     *)
(* ------------------------------------------------------------------ *)
Section Strings.
Local Open Scope N_scope.

Lemma strip_sep_snoc l c : strip_sep (l ++ [c]) = if (c =? SEP) then l else l ++ [c].
Proof.
  induction l as [|x l IH]; [simpl; by destruct (c =? SEP)|].
  change ((x :: l) ++ [c]) with (x :: (l ++ [c])).
  destruct (l ++ [c]) as [|z t] eqn:E; [by destruct l|].
  change (strip_sep (x :: z :: t)) with (x :: strip_sep (z :: t)). rewrite IH.
  by destruct (c =? SEP).
Qed.

Definition isdigit (c : N) : Prop := 48 <= c <= 57.

Lemma dec_le_digits f : forall n, Forall isdigit (dec_le f n).
Proof.
  induction f as [|f IH]; intros n; cbn [dec_le]; [constructor|].
  constructor.
  - unfold isdigit. assert (n mod 10 < 10) by (apply N.mod_upper_bound; done). lia.
  - destruct (n / 10 =? 0); [constructor | apply IH].
Qed.

Lemma dec_digits n : Forall isdigit (dec n).
Proof. unfold dec. apply Forall_rev, dec_le_digits. Qed.

Fixpoint vle (l : bytes) : N := match l with [] => 0 | c :: l' => (c - 48) + 10 * vle l' end.

Lemma vle_dec_le f : forall n, n < 2 ^ N.of_nat f -> vle (dec_le f n) = n.
Proof.
  induction f as [|f IH]; intros n Hn.
  - simpl in *. lia.
  - rewrite Nat2N.inj_succ, N.pow_succ_r' in Hn. cbn [dec_le vle].
    pose proof (N.div_mod' n 10) as Hdm. assert (n mod 10 < 10) by (apply N.mod_upper_bound; done).
    destruct (n / 10 =? 0) eqn:E.
    + apply N.eqb_eq in E. cbn [vle]. lia.
    + rewrite IH; [lia|]. apply N.eqb_neq in E. lia.
Qed.

Lemma dec_val n : vle (rev (dec n)) = n.
Proof.
  unfold dec. rewrite rev_involutive. apply vle_dec_le.
  rewrite Nat2N.inj_succ, N2Nat.id.
  destruct (N.eq_dec n 0) as [->|Hn]; [vm_compute; reflexivity|].
  apply N.log2_spec. lia.
Qed.

Lemma lex_range_sep i : forall k lo hi, lex_le (i ++ [lo]) k = true -> lex_lt k (i ++ [hi]) = true ->
  exists c rest, k = i ++ c :: rest /\ lo <= c.
Proof.
  induction i as [|x i IH]; intros k lo hi H1 H2.
  - destruct k as [|c rest]; [simpl in H1; discriminate|]. exists c, rest. split; [done|].
    unfold lex_le in H1. simpl in H1. destruct (c <? lo) eqn:E; [discriminate|]. apply N.ltb_ge in E. lia.
  - destruct k as [|y k]; [simpl in H1; discriminate|].
    unfold lex_le in H1. simpl in H1, H2.
    destruct (y <? x) eqn:E1; [discriminate|].
    destruct (y =? x) eqn:E2; [|discriminate H2].
    apply N.eqb_eq in E2; subst. destruct (IH k lo hi) as (c & r & -> & Hc); [exact H1| exact H2 |].
    by exists c, r.
Qed.

Lemma digits_sep_eq d : forall e s c rest, Forall isdigit d -> Forall isdigit e -> SEP <= c ->
  e ++ SEP :: s = d ++ c :: rest -> e = d.
Proof.
  induction d as [|x d IH]; intros e s c rest Hd He Hc H.
  - destruct e as [|y e]; [done|]. inversion He as [|? ? Hy _]; subst. simpl in H. inversion H; subst.
    unfold isdigit, SEP in *. lia.
  - inversion Hd as [|? ? Hx Hd']; subst. destruct e as [|y e]; simpl in H; inversion H; subst.
    + unfold isdigit, SEP in Hx. lia.
    + inversion He; subst. f_equal. by apply (IH e s c rest).
Qed.

Lemma dec_inj n h : dec n = dec h -> n = h.
Proof. intros H. rewrite <- (dec_val n), <- (dec_val h), H. done. Qed.


(* the range scan [pfx ++ dec h ++ "_", Rangefix) visits the key pfx ++ dec n ++ "_" ++ addr
   only if n = h — for both stores *)
Lemma scan_exact (pfx : bytes) astr h n a :
  in_range (pfx ++ dec h ++ [SEP]) (pkey_str pfx astr n a) = true -> n = h.
Proof.
  unfold in_range, rangefix, pkey_str. intros H. apply andb_true_iff in H as [H1 H2].
  replace (pfx ++ dec h ++ [SEP]) with ((pfx ++ dec h) ++ [SEP]) in * by (by rewrite <- app_assoc).
  rewrite strip_sep_snoc, N.eqb_refl in H2.
  destruct (lex_range_sep _ _ _ _ H1 H2) as (c & rest & Hr & Hc).
  rewrite <- app_assoc in Hr. apply app_inv_head in Hr.
  apply dec_inj. by apply (digits_sep_eq (dec h) (dec n) (astr a) c rest (dec_digits h) (dec_digits n) Hc).
Qed.

Lemma scan_und_exact astr h n a : scan_und astr h n a = true -> n = h.
Proof. apply scan_exact. Qed.
Lemma scan_rw_exact astr h n a : scan_rw astr h n a = true -> n = h.
Proof. apply scan_exact. Qed.

Lemma collides_exact scan h (p : pmap) :
  (forall n a, scan h n a = true -> n = h) -> collides scan h p = false.
Proof.
  intros Hex. unfold collides. apply negb_false_iff, bool_decide_eq_true. intros [n a] v _. simpl.
  destruct (scan h n a) eqn:E; [|done]. apply Hex in E. subst. by rewrite N.eqb_refl.
Qed.
Lemma collides_und_false astr h (p : pmap) : collides (scan_und astr) h p = false.
Proof. apply collides_exact, scan_und_exact. Qed.
Lemma collides_rw_false astr h (p : pmap) : collides (scan_rw astr) h p = false.
Proof. apply collides_exact, scan_rw_exact. Qed.

End Strings.

(* ------------------------------------------------------------------ *)
(* 3. maturation: paid exactly once, at the maturity height            *)
(* ------------------------------------------------------------------ *)

Lemma collides_false scan h (p : pmap) : collides scan h p = false ->
  map_Forall (fun key _ => scan h key.1 key.2 && negb (key.1 =? h)%N = false) p.
Proof.
  unfold collides. intros H. apply negb_false_iff in H. by apply bool_decide_eq_true in H.
Qed.

Lemma collide_fold_id scan h init (m : pmap) :
  map_Forall (fun key _ => scan h key.1 key.2 && negb (key.1 =? h)%N = false) m ->
  map_fold (collide_step scan h) init m = init.
Proof.
  apply (map_fold_ind (fun r m =>
    map_Forall (fun key _ => scan h key.1 key.2 && negb (key.1 =? h)%N = false) m -> r = init)).
  - done.
  - intros [n a] x m' r Hnone IH HF. apply map_Forall_insert in HF as [Hc HF]; [|done].
    simpl in Hc. rewrite (IH HF). unfold collide_step. rewrite Hc. done.
Qed.

Lemma mature_nocoll scan h b p : collides scan h p = false ->
  mature scan h b p = (fun a => b a + pget p h a, own_zero h p).
Proof.
  intros H. unfold mature. rewrite collide_fold_id; [done | by apply collides_false].
Qed.

Lemma pget_own_zero h p n a : pget (own_zero h p) n a = if (n =? h)%N then 0 else pget p n a.
Proof.
  unfold pget, own_zero, pmap in *. rewrite map_lookup_imap.
  destruct (p !! (n, a)); simpl; by destruct (n =? h)%N.
Qed.

Lemma pget_insert (p : pmap) n a v n' a' :
  pget (<[(n, a) := v]> p) n' a' = if ((n' =? n) && (a' =? a))%N then v else pget p n' a'.
Proof.
  unfold pget, pmap in *. destruct (decide ((n, a) = (n', a'))) as [E|E].
  - inversion E; subst. rewrite lookup_insert, !N.eqb_refl. done.
  - rewrite lookup_insert_ne by done.
    destruct (n' =? n)%N eqn:E1; [|done]. destruct (a' =? a)%N eqn:E2; [|done].
    apply N.eqb_eq in E1, E2. subst. done.
Qed.

Definition inv_paid (p0 : pmap) (h : N) (pe : pmap) (un pa : N -> addr -> Z) : Prop :=
  (forall n a, (h < n)%N -> pget pe n a = un n a + pget p0 n a) /\
  (forall n a, (1 <= n <= h)%N -> pa n a = un n a + pget p0 n a) /\
  (forall n a, (h < n)%N -> pa n a = 0).

Lemma inv_begin p0 h pe un pa pa' :
  inv_paid p0 h pe un pa ->
  (forall n a, pa' n a = if (n =? h + 1)%N then pget pe (h + 1) a else pa n a) ->
  inv_paid p0 (h + 1) (own_zero (h + 1) pe) un pa'.
Proof.
  intros (I1 & I2 & I3) Hpa. repeat split; intros n a Hn.
  - rewrite pget_own_zero. destruct (n =? h + 1)%N eqn:E; [apply N.eqb_eq in E; lia|].
    apply I1. lia.
  - rewrite Hpa. destruct (n =? h + 1)%N eqn:E.
    + apply N.eqb_eq in E. subst. apply I1. lia.
    + apply N.eqb_neq in E. apply I2. lia.
  - rewrite Hpa. destruct (n =? h + 1)%N eqn:E; [apply N.eqb_eq in E; lia|]. apply I3. lia.
Qed.

Lemma inv_add p0 h pe un pa k a amt :
  inv_paid p0 h pe un pa -> (1 <= k)%N ->
  inv_paid p0 h (<[(h + k, a)%N := pget pe (h + k) a + amt]> pe)
           (fupd2 un (h + k) a (un (h + k)%N a + amt)) pa.
Proof.
  intros (I1 & I2 & I3) Hk. repeat split; intros n a' Hn.
  - rewrite pget_insert. unfold fupd2.
    destruct ((n =? h + k) && (a' =? a))%N eqn:E.
    + apply andb_true_iff in E as [E1 E2]. apply N.eqb_eq in E1, E2. subst.
      rewrite (I1 (h + k)%N a) by lia. lia.
    + apply I1. lia.
  - unfold fupd2. destruct (n =? h + k)%N eqn:E; [apply N.eqb_eq in E; lia|]. simpl. apply I2. lia.
  - apply I3. lia.
Qed.

Definition inv_und (p0 : pmap) (s : st) : Prop := inv_paid p0 (height s) (pend s) (und s) (paid s).
Definition inv_rwd (rp0 : pmap) (s : st) : Prop := inv_paid rp0 (height s) (rpend s) (rwd s) (rpaid s).

Lemma charge_proj s0 s a fee :
  let r := (charge s0 s a fee).1 in
  r = s0 \/
  (height r = height s /\ matk r = matk s /\ pend r = pend s /\ und r = und s /\ paid r = paid s /\
   rpend r = rpend s /\ rwd r = rwd s /\ rpaid r = rpaid s /\ collided r = collided s /\
   rew r = rew s /\ accrued r = accrued s /\ taken r = taken s).
Proof.
  destruct (charge_cases s0 s a fee) as [-> | ->]; [left; done|right]. simpl. repeat split.
Qed.

Lemma step_matk astr s o : matk (step astr s o).1 = matk s.
Proof.
  destruct o as [accr|a amt fee|a amt fee|a amt fee|a amt fee|a amt fee]; simpl.
  - destruct (mature (scan_und astr) (height s + 1) (bal s) (pend s)) as [b1 p1].
    destruct (mature (scan_rw astr) (height s + 1) b1 (rpend s)) as [b2 rp1]. reflexivity.
  - destruct ((amt <? 0) || (bal s a - amt <? 0)); [reflexivity|].
    match goal with |- context [charge ?s0 ?s1 ?a ?f] =>
      destruct (charge_proj s0 s1 a f) as [-> | (_ & -> & _)] end; reflexivity.
  - destruct ((aget (active s) a - amt <? 0) || (pool s - amt <? 0)); [reflexivity|].
    match goal with |- context [charge ?s0 ?s1 ?a ?f] =>
      destruct (charge_proj s0 s1 a f) as [-> | (_ & -> & _)] end; reflexivity.
  - destruct (rew s a - amt <? 0); [reflexivity|].
    match goal with |- context [charge ?s0 ?s1 ?a ?f] =>
      destruct (charge_proj s0 s1 a f) as [-> | (_ & -> & _)] end; reflexivity.
  - destruct (rew s a - amt <? 0); [reflexivity|].
    match goal with |- context [charge ?s0 ?s1 ?a ?f] =>
      destruct (charge_proj s0 s1 a f) as [-> | (_ & -> & _)] end; reflexivity.
  - destruct ((amt <? 0) || (bal s a - amt <? 0)); [reflexivity|].
    match goal with |- context [charge ?s0 ?s1 ?a ?f] =>
      destruct (charge_proj s0 s1 a f) as [-> | (_ & -> & _)] end; reflexivity.
Qed.

(* with exact scans no block ever visits a key of another height *)
Lemma step_collided astr s o : collided (step astr s o).1 = collided s.
Proof.
  destruct o as [accr|a amt fee|a amt fee|a amt fee|a amt fee|a amt fee]; simpl.
  - rewrite (mature_nocoll _ _ _ _ (collides_und_false astr _ _)).
    rewrite (mature_nocoll _ _ _ _ (collides_rw_false astr _ _)). simpl.
    by rewrite collides_und_false, collides_rw_false, orb_false_r.
  - destruct ((amt <? 0) || (bal s a - amt <? 0)); [done|].
    match goal with |- context [charge ?s0 ?s1 ?a ?f] =>
      destruct (charge_proj s0 s1 a f) as [-> | (E1 & E2 & E3 & E4 & E5 & E6 & E7 & E8 & E9 & _)] end; [done|].
    by rewrite E9.
  - destruct ((aget (active s) a - amt <? 0) || (pool s - amt <? 0)); [done|].
    match goal with |- context [charge ?s0 ?s1 ?a ?f] =>
      destruct (charge_proj s0 s1 a f) as [-> | (E1 & E2 & E3 & E4 & E5 & E6 & E7 & E8 & E9 & _)] end; [done|].
    by rewrite E9.
  - destruct (rew s a - amt <? 0); [done|].
    match goal with |- context [charge ?s0 ?s1 ?a ?f] =>
      destruct (charge_proj s0 s1 a f) as [-> | (E1 & E2 & E3 & E4 & E5 & E6 & E7 & E8 & E9 & _)] end; [done|].
    by rewrite E9.
  - destruct (rew s a - amt <? 0); [done|].
    match goal with |- context [charge ?s0 ?s1 ?a ?f] =>
      destruct (charge_proj s0 s1 a f) as [-> | (E1 & E2 & E3 & E4 & E5 & E6 & E7 & E8 & E9 & _)] end; [done|].
    by rewrite E9.
  - destruct ((amt <? 0) || (bal s a - amt <? 0)); [done|].
    match goal with |- context [charge ?s0 ?s1 ?a ?f] =>
      destruct (charge_proj s0 s1 a f) as [-> | (E1 & E2 & E3 & E4 & E5 & E6 & E7 & E8 & E9 & _)] end; [done|].
    by rewrite E9.
Qed.

Lemma no_scan_collides astr ops : forall s, collided (run astr s ops) = collided s.
Proof.
  induction ops as [|o ops IH]; intros s; [done|].
  unfold run in *. simpl. rewrite IH. apply step_collided.
Qed.

(* one step preserves both maturity invariants *)
Lemma step_inv astr p0 rp0 s o :
  inv_und p0 s -> inv_rwd rp0 s -> (1 <= matk s)%N ->
  inv_und p0 (step astr s o).1 /\ inv_rwd rp0 (step astr s o).1.
Proof.
  intros Iu Ir Hk.
  destruct o as [accr|a amt fee|a amt fee|a amt fee|a amt fee|a amt fee]; simpl.
  - rewrite (mature_nocoll _ _ _ _ (collides_und_false astr _ _)).
    rewrite (mature_nocoll _ _ _ _ (collides_rw_false astr _ _)). simpl.
    split; unfold inv_und, inv_rwd; simpl.
    + apply (inv_begin _ _ _ _ (paid s)); [exact Iu|]. intros n a. destruct (n =? height s + 1)%N; lia.
    + apply (inv_begin _ _ _ _ (rpaid s)); [exact Ir|]. intros n a. destruct (n =? height s + 1)%N; lia.
  - destruct ((amt <? 0) || (bal s a - amt <? 0)); [done|].
    match goal with |- context [charge ?s0 ?s1 ?a ?f] =>
      destruct (charge_proj s0 s1 a f) as [-> | (E1 & E2 & E3 & E4 & E5 & E6 & E7 & E8 & E9 & _)] end; [done|].
    unfold inv_und, inv_rwd. rewrite E1, E3, E4, E5, E6, E7, E8. simpl. done.
  - destruct ((aget (active s) a - amt <? 0) || (pool s - amt <? 0)); [done|].
    match goal with |- context [charge ?s0 ?s1 ?a ?f] =>
      destruct (charge_proj s0 s1 a f) as [-> | (E1 & E2 & E3 & E4 & E5 & E6 & E7 & E8 & E9 & _)] end; [done|].
    unfold inv_und, inv_rwd. rewrite E1, E3, E4, E5, E6, E7, E8. simpl. split; [|done].
    by apply inv_add.
  - destruct (rew s a - amt <? 0); [done|].
    match goal with |- context [charge ?s0 ?s1 ?a ?f] =>
      destruct (charge_proj s0 s1 a f) as [-> | (E1 & E2 & E3 & E4 & E5 & E6 & E7 & E8 & E9 & _)] end; [done|].
    unfold inv_und, inv_rwd. rewrite E1, E3, E4, E5, E6, E7, E8. simpl. split; [done|].
    by apply inv_add.
  - destruct (rew s a - amt <? 0); [done|].
    match goal with |- context [charge ?s0 ?s1 ?a ?f] =>
      destruct (charge_proj s0 s1 a f) as [-> | (E1 & E2 & E3 & E4 & E5 & E6 & E7 & E8 & E9 & _)] end; [done|].
    unfold inv_und, inv_rwd. rewrite E1, E3, E4, E5, E6, E7, E8. simpl. done.
  - destruct ((amt <? 0) || (bal s a - amt <? 0)); [done|].
    match goal with |- context [charge ?s0 ?s1 ?a ?f] =>
      destruct (charge_proj s0 s1 a f) as [-> | (E1 & E2 & E3 & E4 & E5 & E6 & E7 & E8 & E9 & _)] end; [done|].
    unfold inv_und, inv_rwd. rewrite E1, E3, E4, E5, E6, E7, E8. simpl. done.
Qed.

Lemma run_inv astr p0 rp0 ops : forall s,
  inv_und p0 s -> inv_rwd rp0 s -> (1 <= matk s)%N ->
  inv_und p0 (run astr s ops) /\ inv_rwd rp0 (run astr s ops).
Proof.
  induction ops as [|o ops IH]; intros s Iu Ir Hk; [done|].
  unfold run in *. simpl in *.
  destruct (step_inv astr p0 rp0 s o Iu Ir Hk) as [Iu' Ir'].
  apply IH; auto. by rewrite step_matk.
Qed.

Lemma inv_genesis k b pl ac pe rw rp :
  inv_und pe (genesis k b pl ac pe rw rp) /\ inv_rwd rp (genesis k b pl ac pe rw rp).
Proof. split; repeat split; simpl; intros; lia. Qed.

(* C12_paid_once_at_maturity, full.  For every genesis and history:
   at every executed block n the maturation routine credited delegator a exactly the amount due
   at n (genesis entry for (n,a) + the successful undelegations maturing at n), nothing is credited
   for a height not yet reached, and what is not yet due is still pending. *)
Lemma paid_once astr k b pl ac pe rw rp ops :
  (1 <= k)%N ->
  let s := run astr (genesis k b pl ac pe rw rp) ops in
  forall n a,
    ((1 <= n <= height s)%N -> paid s n a = und s n a + pget pe n a) /\
    ((height s < n)%N -> paid s n a = 0 /\ pget (pend s) n a = und s n a + pget pe n a).
Proof.
  intros Hk s n a.
  destruct (inv_genesis k b pl ac pe rw rp) as [Iu Ir].
  destruct (run_inv astr pe rp ops _ Iu Ir Hk) as [(I1 & I2 & I3) _].
  split; intros Hn; [by apply I2|]. split; [by apply I3 | by apply I1].
Qed.

Lemma rewards_paid_once astr k b pl ac pe rw rp ops :
  (1 <= k)%N ->
  let s := run astr (genesis k b pl ac pe rw rp) ops in
  forall n a,
    ((1 <= n <= height s)%N -> rpaid s n a = rwd s n a + pget rp n a) /\
    ((height s < n)%N -> rpaid s n a = 0 /\ pget (rpend s) n a = rwd s n a + pget rp n a).
Proof.
  intros Hk s n a.
  destruct (inv_genesis k b pl ac pe rw rp) as [Iu Ir].
  destruct (run_inv astr pe rp ops _ Iu Ir Hk) as [_ (I1 & I2 & I3)].
  split; intros Hn; [by apply I2|]. split; [by apply I3 | by apply I1].
Qed.

(* the credit a delegator receives in BeginBlock is exactly paid + rpaid of that block *)
Lemma begin_credit astr s accr a :
  let s' := (step astr s (Begin accr)).1 in
  bal s' a - bal s a = paid s' (height s') a + rpaid s' (height s') a.
Proof.
  simpl.
  destruct (mature (scan_und astr) (height s + 1) (bal s) (pend s)) as [b1 p1].
  destruct (mature (scan_rw astr) (height s + 1) b1 (rpend s)) as [b2 rp1]. simpl.
  rewrite N.eqb_refl. lia.
Qed.

(* ------------------------------------------------------------------ *)
(* 4. reward withdrawals never exceed the accrued reward balance       *)
(* ------------------------------------------------------------------ *)

Lemma add_accr_diff l : forall f g a, add_accr f l a - add_accr g l a = f a - g a.
Proof.
  induction l as [|[a0 v] l IH]; intros f g a; [reflexivity|].
  unfold add_accr in *. simpl. rewrite IH. unfold fupd. destruct (a =? a0)%N eqn:E; [|lia].
  apply N.eqb_eq in E. subst. lia.
Qed.

Definition accr_nonneg (o : op) : bool :=
  match o with Begin accr => forallb (fun x => 0 <=? x.2) accr | _ => true end.

Lemma add_accr_nonneg l : forall f, (forall a, 0 <= f a) -> forallb (fun x => 0 <=? x.2) l = true ->
  forall a, 0 <= add_accr f l a.
Proof.
  induction l as [|[a0 v] l IH]; intros f Hf Hl a; [apply Hf|].
  simpl in Hl. apply andb_true_iff in Hl as [Hv Hl]. apply Z.leb_le in Hv.
  unfold add_accr in *. simpl. apply IH; [|done].
  intros x. unfold fupd. destruct (x =? a0)%N; [|apply Hf]. specialize (Hf a0). lia.
Qed.

Definition rbook (s : st) (a : addr) : Z := rew s a - accrued s a + taken s a.

Lemma step_rewards astr s o a :
  rbook (step astr s o).1 a = rbook s a /\
  ((forall x, 0 <= rew s x) -> accr_nonneg o = true -> 0 <= rew (step astr s o).1 a).
Proof.
  unfold rbook.
  destruct o as [accr|a0 amt fee|a0 amt fee|a0 amt fee|a0 amt fee|a0 amt fee]; simpl.
  - destruct (mature (scan_und astr) (height s + 1) (bal s) (pend s)) as [b1 p1].
    destruct (mature (scan_rw astr) (height s + 1) b1 (rpend s)) as [b2 rp1]. simpl. split.
    + pose proof (add_accr_diff accr (rew s) (accrued s) a). lia.
    + intros Hr Ha. by apply add_accr_nonneg.
  - destruct ((amt <? 0) || (bal s a0 - amt <? 0)); [simpl; split; [lia|intros H _; apply H]|].
    match goal with |- context [charge ?s0 ?s1 ?a ?f] =>
      destruct (charge_proj s0 s1 a f) as [-> | (_ & _ & _ & _ & _ & _ & _ & _ & _ & -> & -> & ->)] end;
      simpl; (split; [lia|intros H _; apply H]).
  - destruct ((aget (active s) a0 - amt <? 0) || (pool s - amt <? 0)); [simpl; split; [lia|intros H _; apply H]|].
    match goal with |- context [charge ?s0 ?s1 ?a ?f] =>
      destruct (charge_proj s0 s1 a f) as [-> | (_ & _ & _ & _ & _ & _ & _ & _ & _ & -> & -> & ->)] end;
      simpl; (split; [lia|intros H _; apply H]).
  - destruct (rew s a0 - amt <? 0) eqn:Hlt; [simpl; split; [lia|intros H _; apply H]|].
    apply Z.ltb_ge in Hlt.
    match goal with |- context [charge ?s0 ?s1 ?a ?f] =>
      destruct (charge_proj s0 s1 a f) as [-> | (_ & _ & _ & _ & _ & _ & _ & _ & _ & -> & -> & ->)] end;
      simpl; [simpl; split; [lia|intros H _; apply H]|].
    unfold fupd. destruct (a =? a0)%N eqn:E; [apply N.eqb_eq in E; subst|]; (split; [lia|intros H _; try apply H; lia]).
  - destruct (rew s a0 - amt <? 0) eqn:Hlt; [simpl; split; [lia|intros H _; apply H]|].
    apply Z.ltb_ge in Hlt.
    match goal with |- context [charge ?s0 ?s1 ?a ?f] =>
      destruct (charge_proj s0 s1 a f) as [-> | (_ & _ & _ & _ & _ & _ & _ & _ & _ & -> & -> & ->)] end;
      simpl; [simpl; split; [lia|intros H _; apply H]|].
    unfold fupd. destruct (a =? a0)%N eqn:E; [apply N.eqb_eq in E; subst|]; (split; [lia|intros H _; try apply H; lia]).
  - destruct ((amt <? 0) || (bal s a0 - amt <? 0)); [simpl; split; [lia|intros H _; apply H]|].
    match goal with |- context [charge ?s0 ?s1 ?a ?f] =>
      destruct (charge_proj s0 s1 a f) as [-> | (_ & _ & _ & _ & _ & _ & _ & _ & _ & -> & -> & ->)] end;
      simpl; (split; [lia|intros H _; apply H]).
Qed.

Lemma run_rewards astr ops : forall s,
  (forall a, rbook (run astr s ops) a = rbook s a) /\
  ((forall x, 0 <= rew s x) -> forallb accr_nonneg ops = true -> forall a, 0 <= rew (run astr s ops) a).
Proof.
  induction ops as [|o ops IH]; intros s; [split; [done|intros H _; apply H]|].
  unfold run in *. simpl. destruct (IH (step astr s o).1) as [IH1 IH2]. split.
  - intros a. rewrite IH1. apply (step_rewards astr s o a).
  - intros Hr Ha. apply andb_true_iff in Ha as [Ha1 Ha2]. apply IH2; [|done].
    intros x. by apply (step_rewards astr s o x).
Qed.

(* for every genesis and history with non-negative accruals: the reward balance is
   genesis + accrued - (withdrawn + reinvested), it is never negative, hence what has been
   withdrawn or reinvested never exceeds what was there *)
Lemma reward_withdrawal_bounded astr k b pl ac pe rw rp ops a :
  let s := run astr (genesis k b pl ac pe rw rp) ops in
  rew s a = rw a + accrued s a - taken s a /\
  ((forall x, 0 <= rw x) -> forallb accr_nonneg ops = true ->
   0 <= rew s a /\ taken s a <= rw a + accrued s a).
Proof.
  intros s. destruct (run_rewards astr ops (genesis k b pl ac pe rw rp)) as [H1 H2].
  specialize (H1 a). unfold rbook in H1. simpl in H1. fold s in H1. split; [lia|].
  intros Hr Ha. specialize (H2 Hr Ha a). fold s in H2. lia.
Qed.

(* ------------------------------------------------------------------ *)
(* ------------------------------------------------------------------ *)
(* 5. matured payments are payments: never negative                    *)
(* ------------------------------------------------------------------ *)

Definition nn (f : N -> addr -> Z) : Prop := forall n a, 0 <= f n a.

Lemma nn_fupd2 f n a v : nn f -> 0 <= v -> nn (fupd2 f n a v).
Proof. intros Hf Hv m x. unfold fupd2. destruct ((m =? n) && (x =? a))%N; [done | apply Hf]. Qed.

Lemma step_nn astr s o :
  neg_undelegate o = false -> neg_withdraw o = false ->
  nn (und s) -> nn (rwd s) -> nn (und (step astr s o).1) /\ nn (rwd (step astr s o).1).
Proof.
  intros Hu Hw Nu Nr.
  destruct o as [accr|a amt fee|a amt fee|a amt fee|a amt fee|a amt fee]; simpl in *.
  - destruct (mature (scan_und astr) (height s + 1) (bal s) (pend s)) as [b1 p1].
    destruct (mature (scan_rw astr) (height s + 1) b1 (rpend s)) as [b2 rp1]. done.
  - destruct ((amt <? 0) || (bal s a - amt <? 0)); [done|].
    match goal with |- context [charge ?s0 ?s1 ?a ?f] =>
      destruct (charge_proj s0 s1 a f) as [-> | (E1 & E2 & E3 & E4 & E5 & E6 & E7 & E8 & E9 & _)] end; [done|].
    rewrite E4, E7. done.
  - destruct ((aget (active s) a - amt <? 0) || (pool s - amt <? 0)); [done|].
    match goal with |- context [charge ?s0 ?s1 ?a ?f] =>
      destruct (charge_proj s0 s1 a f) as [-> | (E1 & E2 & E3 & E4 & E5 & E6 & E7 & E8 & E9 & _)] end; [done|].
    rewrite E4, E7. simpl. split; [|done]. apply Z.ltb_ge in Hu.
    apply nn_fupd2; [done|]. specialize (Nu (height s + matk s)%N a). lia.
  - destruct (rew s a - amt <? 0); [done|].
    match goal with |- context [charge ?s0 ?s1 ?a ?f] =>
      destruct (charge_proj s0 s1 a f) as [-> | (E1 & E2 & E3 & E4 & E5 & E6 & E7 & E8 & E9 & _)] end; [done|].
    rewrite E4, E7. simpl. split; [done|]. apply Z.ltb_ge in Hw.
    apply nn_fupd2; [done|]. specialize (Nr (height s + matk s)%N a). lia.
  - destruct (rew s a - amt <? 0); [done|].
    match goal with |- context [charge ?s0 ?s1 ?a ?f] =>
      destruct (charge_proj s0 s1 a f) as [-> | (E1 & E2 & E3 & E4 & E5 & E6 & E7 & E8 & E9 & _)] end; [done|].
    rewrite E4, E7. done.
  - destruct ((amt <? 0) || (bal s a - amt <? 0)); [done|].
    match goal with |- context [charge ?s0 ?s1 ?a ?f] =>
      destruct (charge_proj s0 s1 a f) as [-> | (E1 & E2 & E3 & E4 & E5 & E6 & E7 & E8 & E9 & _)] end; [done|].
    rewrite E4, E7. done.
Qed.

Lemma run_nn astr ops : forall s,
  trig_neg_undelegate ops = false -> trig_neg_withdraw ops = false ->
  nn (und s) -> nn (rwd s) -> nn (und (run astr s ops)) /\ nn (rwd (run astr s ops)).
Proof.
  induction ops as [|o ops IH]; intros s Hu Hw Nu Nr; [done|].
  unfold trig_neg_undelegate, trig_neg_withdraw in *. simpl in Hu, Hw.
  apply orb_false_elim in Hu as [Hu1 Hu2]. apply orb_false_elim in Hw as [Hw1 Hw2].
  unfold run in *. simpl. destruct (step_nn astr s o Hu1 Hw1 Nu Nr) as [Nu' Nr']. by apply IH.
Qed.

(* outside the triggers C12.negative_undelegate / C12.negative_reward_withdrawal and with a genesis
   whose pending entries are non-negative, every matured payment is non-negative: BeginBlock never
   takes money from a delegator *)
Lemma payments_nonneg_partial astr k b pl ac pe rw rp ops :
  (1 <= k)%N ->
  (forall n a, 0 <= pget pe n a) -> (forall n a, 0 <= pget rp n a) ->
  trig_neg_undelegate ops = false -> trig_neg_withdraw ops = false ->
  let s := run astr (genesis k b pl ac pe rw rp) ops in
  forall n a, (1 <= n)%N -> 0 <= paid s n a /\ 0 <= rpaid s n a.
Proof.
  intros Hk Hpe Hrp Hu Hw s n a Hn.
  destruct (run_nn astr ops (genesis k b pl ac pe rw rp) Hu Hw) as [Nu Nr]; [by intros ? ?|by intros ? ?|].
  fold s in Nu, Nr.
  destruct (paid_once astr k b pl ac pe rw rp ops Hk n a) as [P1 P2].
  destruct (rewards_paid_once astr k b pl ac pe rw rp ops Hk n a) as [R1 R2]. fold s in P1, P2, R1, R2.
  destruct (N.le_gt_cases n (height s)) as [Hle|Hgt].
  - rewrite P1, R1 by lia. specialize (Nu n a). specialize (Nr n a). specialize (Hpe n a). specialize (Hrp n a). lia.
  - destruct (P2 Hgt) as [-> _]. destruct (R2 Hgt) as [-> _]. lia.
Qed.

(* ------------------------------------------------------------------ *)
(* 6. active delegations are never negative                            *)
(* ------------------------------------------------------------------ *)

Lemma aget_insert (m : gmap addr Z) a v x : aget (<[a:=v]> m) x = if (x =? a)%N then v else aget m x.
Proof.
  unfold aget. destruct (x =? a)%N eqn:E.
  - apply N.eqb_eq in E. subst. by rewrite lookup_insert.
  - apply N.eqb_neq in E. by rewrite lookup_insert_ne.
Qed.

Definition active_nn (s : st) : Prop := forall x, 0 <= aget (active s) x.

Lemma step_active_nn astr s o : neg_reinvest o = false -> active_nn s -> active_nn (step astr s o).1.
Proof.
  intros Hr Ha.
  destruct o as [accr|a amt fee|a amt fee|a amt fee|a amt fee|a amt fee]; simpl in *.
  - destruct (mature (scan_und astr) (height s + 1) (bal s) (pend s)) as [b1 p1].
    destruct (mature (scan_rw astr) (height s + 1) b1 (rpend s)) as [b2 rp1]. done.
  - destruct (amt <? 0) eqn:Hneg; simpl; [done|]. apply Z.ltb_ge in Hneg.
    destruct (bal s a - amt <? 0); [done|].
    match goal with |- context [charge ?s0 ?s1 ?a ?f] =>
      destruct (charge_cases s0 s1 a f) as [-> | ->] end; [done|].
    intros x. simpl. rewrite aget_insert. destruct (x =? a)%N; [|apply Ha]. specialize (Ha a). lia.
  - destruct (aget (active s) a - amt <? 0) eqn:Hrem; simpl; [done|]. apply Z.ltb_ge in Hrem.
    destruct (pool s - amt <? 0); [done|].
    match goal with |- context [charge ?s0 ?s1 ?a ?f] =>
      destruct (charge_cases s0 s1 a f) as [-> | ->] end; [done|].
    intros x. simpl. rewrite aget_insert. destruct (x =? a)%N; [lia|apply Ha].
  - destruct (rew s a - amt <? 0); [done|].
    match goal with |- context [charge ?s0 ?s1 ?a ?f] =>
      destruct (charge_cases s0 s1 a f) as [-> | ->] end; done.
  - apply Z.ltb_ge in Hr. destruct (rew s a - amt <? 0); [done|].
    match goal with |- context [charge ?s0 ?s1 ?a ?f] =>
      destruct (charge_cases s0 s1 a f) as [-> | ->] end; [done|].
    intros x. simpl. rewrite aget_insert. destruct (x =? a)%N; [|apply Ha]. specialize (Ha a). lia.
  - destruct ((amt <? 0) || (bal s a - amt <? 0)); [done|].
    match goal with |- context [charge ?s0 ?s1 ?a ?f] =>
      destruct (charge_cases s0 s1 a f) as [-> | ->] end; done.
Qed.

(* outside the trigger C12.negative_reinvest, from a genesis with non-negative active delegations,
   no active delegation is ever negative (so "pool >= sum active" really covers every delegator) *)
Lemma active_nonneg_partial astr ops : forall s,
  trig_neg_reinvest ops = false -> active_nn s -> active_nn (run astr s ops).
Proof.
  induction ops as [|o ops IH]; intros s Hr Ha; [done|].
  unfold trig_neg_reinvest in *. simpl in Hr. apply orb_false_elim in Hr as [Hr1 Hr2].
  unfold run in *. simpl. apply IH; [done|]. by apply step_active_nn.
Qed.
