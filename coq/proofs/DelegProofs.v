(* DelegProofs.v — lemmas and proofs about theories/Deleg.v (C12). *)
From stdpp Require Import gmap list.
From Coq Require Import ZArith NArith Lia.
From OL Require Import theories.Deleg.
Local Open Scope Z_scope.

(* ------------------------------------------------------------------ *)
(* 1. pool balance versus the sum of the active delegations            *)
(* ------------------------------------------------------------------ *)

Lemma asum_insert (m : gmap addr Z) a v : asum (<[a:=v]> m) = asum m - aget m a + v.
Proof.
  unfold asum, aget.
  destruct (m !! a) as [old|] eqn:E; simpl.
  - rewrite <- (insert_delete m a old E) at 2.
    rewrite <- (insert_delete_insert m a v).
    rewrite !map_fold_insert_L; try (intros; lia); try apply lookup_delete.
  - rewrite map_fold_insert_L; auto; try (intros; lia).
Qed.

Definition gap (s : st) : Z := pool s - asum (active s) - donated s.

Lemma charge_cases s0 s a fee :
  (charge s0 s a fee).1 = s0 \/
  (charge s0 s a fee).1 =
    with_tx s (fupd (bal s) a (bal s a - fee)) (pool s) (active s) (pend s) (rew s) (rpend s)
            (donated s) (und s) (rwd s) (taken s).
Proof. unfold charge. destruct (bal s a - fee <? 0); simpl; auto. Qed.

Lemma step_gap astr s o : gap (step astr s o).1 = gap s.
Proof.
  destruct o as [accr|a amt fee|a amt fee|a amt fee|a amt fee|a amt fee]; simpl.
  - destruct (mature (scan_und astr) (height s + 1) (bal s) (pend s)) as [b1 p1].
    destruct (mature (scan_rw astr) (height s + 1) b1 (rpend s)) as [b2 rp1]. reflexivity.
  - destruct ((amt <? 0) || (bal s a - amt <? 0)); [reflexivity|].
    match goal with |- gap (charge ?s0 ?s1 ?a ?f).1 = _ =>
      destruct (charge_cases s0 s1 a f) as [-> | ->]; [reflexivity|] end.
    unfold gap; simpl. rewrite asum_insert. lia.
  - destruct ((aget (active s) a - amt <? 0) || (pool s - amt <? 0)); [reflexivity|].
    match goal with |- gap (charge ?s0 ?s1 ?a ?f).1 = _ =>
      destruct (charge_cases s0 s1 a f) as [-> | ->]; [reflexivity|] end.
    unfold gap; simpl. rewrite asum_insert. lia.
  - destruct (rew s a - amt <? 0); [reflexivity|].
    match goal with |- gap (charge ?s0 ?s1 ?a ?f).1 = _ =>
      destruct (charge_cases s0 s1 a f) as [-> | ->]; reflexivity end.
  - destruct (rew s a - amt <? 0); [reflexivity|].
    match goal with |- gap (charge ?s0 ?s1 ?a ?f).1 = _ =>
      destruct (charge_cases s0 s1 a f) as [-> | ->]; [reflexivity|] end.
    unfold gap; simpl. rewrite asum_insert. lia.
  - destruct (bal s a - amt <? 0); [reflexivity|].
    match goal with |- gap (charge ?s0 ?s1 ?a ?f).1 = _ =>
      destruct (charge_cases s0 s1 a f) as [-> | ->]; [reflexivity|] end.
    unfold gap; simpl. lia.
Qed.

Lemma run_gap astr ops : forall s, gap (run astr s ops) = gap s.
Proof.
  induction ops as [|o ops IH]; intros s; [reflexivity|].
  unfold run in *. simpl. rewrite IH. apply step_gap.
Qed.

Definition is_donate (o : op) : bool := match o with Donate _ _ _ => true | _ => false end.

Lemma step_donated astr s o :
  (neg_donation o = false -> donated s <= donated (step astr s o).1) /\
  (is_donate o = false -> donated (step astr s o).1 = donated s).
Proof.
  destruct o as [accr|a amt fee|a amt fee|a amt fee|a amt fee|a amt fee]; simpl.
  - destruct (mature (scan_und astr) (height s + 1) (bal s) (pend s)) as [b1 p1].
    destruct (mature (scan_rw astr) (height s + 1) b1 (rpend s)) as [b2 rp1]. simpl. split; intros; lia.
  - destruct ((amt <? 0) || (bal s a - amt <? 0)); [split; intros; simpl; lia|].
    match goal with |- context [charge ?s0 ?s1 ?a ?f] =>
      destruct (charge_cases s0 s1 a f) as [-> | ->] end; simpl; split; intros; lia.
  - destruct ((aget (active s) a - amt <? 0) || (pool s - amt <? 0)); [split; intros; simpl; lia|].
    match goal with |- context [charge ?s0 ?s1 ?a ?f] =>
      destruct (charge_cases s0 s1 a f) as [-> | ->] end; simpl; split; intros; lia.
  - destruct (rew s a - amt <? 0); [split; intros; simpl; lia|].
    match goal with |- context [charge ?s0 ?s1 ?a ?f] =>
      destruct (charge_cases s0 s1 a f) as [-> | ->] end; simpl; split; intros; lia.
  - destruct (rew s a - amt <? 0); [split; intros; simpl; lia|].
    match goal with |- context [charge ?s0 ?s1 ?a ?f] =>
      destruct (charge_cases s0 s1 a f) as [-> | ->] end; simpl; split; intros; lia.
  - destruct (bal s a - amt <? 0); [split; intros; simpl; try lia; discriminate|].
    match goal with |- context [charge ?s0 ?s1 ?a ?f] =>
      destruct (charge_cases s0 s1 a f) as [-> | ->] end; simpl; split; intros H; try discriminate; lia.
Qed.

Lemma run_donated_nonneg astr ops : forall s,
  trig_neg_donation ops = false -> donated s <= donated (run astr s ops).
Proof.
  induction ops as [|o ops IH]; intros s H; [simpl; lia|].
  unfold trig_neg_donation in H. simpl in H. apply orb_false_elim in H as [H1 H2].
  unfold run in *. simpl. specialize (IH (step astr s o).1 H2).
  pose proof (proj1 (step_donated astr s o) H1). lia.
Qed.

Lemma run_donated_none astr ops : forall s,
  existsb is_donate ops = false -> donated (run astr s ops) = donated s.
Proof.
  induction ops as [|o ops IH]; intros s H; [reflexivity|].
  simpl in H. apply orb_false_elim in H as [H1 H2].
  unfold run in *. simpl. rewrite (IH _ H2). apply (proj2 (step_donated astr s o) H1).
Qed.

(* the exact relation, for every history *)
Lemma pool_exact astr s0 ops :
  pool (run astr s0 ops) =
  asum (active (run astr s0 ops)) + (pool s0 - asum (active s0)) + (donated (run astr s0 ops) - donated s0).
Proof. pose proof (run_gap astr ops s0) as H. unfold gap in H. lia. Qed.

Lemma run_app astr s a b : run astr s (a ++ b) = run astr (run astr s a) b.
Proof. unfold run. apply fold_left_app. Qed.

Lemma pool_covers_active_partial astr s0 pre post :
  asum (active s0) <= pool s0 ->
  trig_neg_donation (pre ++ post) = false ->
  asum (active (run astr s0 pre)) <= pool (run astr s0 pre).
Proof.
  intros H0 Ht. unfold trig_neg_donation in Ht. rewrite existsb_app in Ht.
  apply orb_false_elim in Ht as [Ht _].
  pose proof (pool_exact astr s0 pre). pose proof (run_donated_nonneg astr pre s0 Ht). lia.
Qed.

Lemma pool_equals_active_without_donation astr s0 pre post :
  existsb is_donate (pre ++ post) = false ->
  pool (run astr s0 pre) - asum (active (run astr s0 pre)) = pool s0 - asum (active s0).
Proof.
  intros Ht. rewrite existsb_app in Ht. apply orb_false_elim in Ht as [Ht _].
  pose proof (pool_exact astr s0 pre). rewrite (run_donated_none astr pre s0 Ht) in H. lia.
Qed.
