(* LedgerTxProofs.v — per-kind lemmas about the effect functions of theories/LedgerTx.v (C02, C03). *)
From stdpp Require Import gmap list.
From Coq Require Import ZArith NArith Lia ZifyBool ZifyNat ZifyN String.
From OL Require Import theories.Ledger theories.LedgerTx proofs.LedgerProofs.
Local Open Scope Z_scope.

Lemma E18_pos : 0 < E18.
Proof. unfold E18. lia. Qed.

Lemma wrap64_fits z : fits64 z = true -> wrap64 z = z.
Proof.
  unfold fits64, wrap64. intros H. apply andb_true_iff in H as [H1 H2].
  assert (A : - 2 ^ 63 <= z) by lia. assert (B : z < 2 ^ 63) by lia.
  change (2 ^ 64) with 18446744073709551616 in *. change (2 ^ 63) with 9223372036854775808 in *.
  rewrite Z.mod_small; lia.
Qed.

(* the three facts proved for every modelled kind:
   - no creation:   created - destroyed <= 0 in every currency (handler operations + fee step)
   - credits >= 0:  every added amount is non-negative (so no record becomes negative)
   - authority:     every owner the operations take from is the named signer field or the fee payer *)
Definition no_creation (ops : list lop) : Prop := forall c, minted c ops - burned c ops <= 0.
Definition credits_ok (ops : list lop) : Prop := forallb credit_nonneg ops = true.
Definition takes_only_from (ops : list lop) (who : list N) : Prop := forall a, In a (debited ops) -> In a who.

Ltac open_effect H :=
  repeat match type of H with
         | (if ?b then _ else _) = Some _ => let E := fresh "G" in destruct b eqn:E; [|discriminate H]
         end;
  injection H as <-.

Ltac split_guards :=
  repeat match goal with
         | G : (_ && _) = true |- _ => apply andb_true_iff in G; destruct G
         end.

Ltac tw_crush :=
  unfold no_creation, minted, burned, op_mint, op_burn, tw, k_cur, k_bucket, bal, feepool, mk, fee_ops; cbn;
  intros; repeat case_match; try lia; try nia.

Ltac deb_crush :=
  unfold takes_only_from, debited, op_debited, k_owner, bal, feepool, mk, fee_ops; cbn;
  intros; repeat case_match; cbn in *; intuition (try lia; try nia).

Ltac cred_crush :=
  unfold credits_ok, credit_nonneg, fee_ops; cbn; repeat (apply andb_true_iff; split); try lia; try nia.

Section Kinds.
Variables (payer fp : N) (fee : Z).
Hypothesis fee_nonneg : 0 <= fee.

(* ---- SEND ---- guard used: Amount.IsValid (value >= 0) *)
Lemma send_facts known cur from to v ops : effect_send known cur from to v = Some ops ->
  no_creation (ops ++ fee_ops payer fp fee) /\ credits_ok (ops ++ fee_ops payer fp fee) /\
  takes_only_from (ops ++ fee_ops payer fp fee) [from; payer].
Proof.
  unfold effect_send, amount_valid. intros H. open_effect H. split_guards.
  split; [tw_crush|split; [cred_crush|deb_crush]].
Qed.

(* ---- SENDPOOL ---- guard: IsValid, OLT *)
Lemma sendpool_facts known cur from pool v ops : effect_sendpool known cur from pool v = Some ops ->
  no_creation (ops ++ fee_ops payer fp fee) /\ credits_ok (ops ++ fee_ops payer fp fee) /\
  takes_only_from (ops ++ fee_ops payer fp fee) [from; payer].
Proof.
  unfold effect_sendpool, amount_valid. intros H. open_effect H. split_guards.
  split; [tw_crush|split; [cred_crush|deb_crush]].
Qed.

(* ---- STAKE ---- guards: handler v >= 0 and v fits int64 (48c76fc): then wrap64 v = v and debit = credit *)
Lemma stake_facts known cur staker val v ops : effect_stake known cur staker val v = Some ops ->
  no_creation (ops ++ fee_ops payer fp fee) /\ credits_ok (ops ++ fee_ops payer fp fee) /\
  takes_only_from (ops ++ fee_ops payer fp fee) [staker; payer].
Proof.
  unfold effect_stake. intros H. open_effect H. split_guards.
  rewrite (wrap64_fits v) by assumption. pose proof E18_pos.
  assert (0 <= v * E18) by nia. generalize dependent (v * E18). intros x Hx.
  split; [tw_crush|split; [cred_crush|deb_crush]].
Qed.

(* ---- UNSTAKE ---- *)
Lemma unstake_facts known cur staker val v h ops : effect_unstake known cur staker val v h = Some ops ->
  no_creation (ops ++ fee_ops payer fp fee) /\ credits_ok (ops ++ fee_ops payer fp fee) /\
  takes_only_from (ops ++ fee_ops payer fp fee) [staker; payer].
Proof.
  unfold effect_unstake. intros H. open_effect H. split_guards. pose proof E18_pos.
  assert (0 <= v * E18) by nia. generalize dependent (v * E18). intros x Hx.
  split; [tw_crush|split; [cred_crush|deb_crush]].
Qed.

(* ---- WITHDRAW ---- guards: v fits int64, so the balance credit wrap64(v) equals the withdrawable debit v *)
Lemma withdraw_facts known cur staker v ops : effect_withdraw known cur staker v = Some ops ->
  no_creation (ops ++ fee_ops payer fp fee) /\ credits_ok (ops ++ fee_ops payer fp fee) /\
  takes_only_from (ops ++ fee_ops payer fp fee) [staker; payer].
Proof.
  unfold effect_withdraw. intros H. open_effect H. split_guards.
  rewrite (wrap64_fits v) by assumption. pose proof E18_pos.
  assert (0 <= v * E18) by nia. generalize dependent (v * E18). intros x Hx.
  split; [tw_crush|split; [cred_crush|deb_crush]].
Qed.

(* ---- ADD_NETWORK_DELEGATE ---- guard: coin valid (>= 0), OLT *)
Lemma delegate_facts known cur u pool v ops : effect_delegate known cur u pool v = Some ops ->
  no_creation (ops ++ fee_ops payer fp fee) /\ credits_ok (ops ++ fee_ops payer fp fee) /\
  takes_only_from (ops ++ fee_ops payer fp fee) [u; payer].
Proof.
  unfold effect_delegate, amount_valid. intros H. open_effect H. split_guards.
  split; [tw_crush|split; [cred_crush|deb_crush]].
Qed.

(* ---- NETWORK_UNDELEGATE ---- guard (1d1d85c): amount valid, OLT.  The pool (not externally owned) is the source *)
Lemma undelegate_facts known cur u pool v h ops : effect_undelegate known cur u pool v h = Some ops ->
  no_creation (ops ++ fee_ops payer fp fee) /\ credits_ok (ops ++ fee_ops payer fp fee) /\
  takes_only_from (ops ++ fee_ops payer fp fee) [u; pool; payer].
Proof.
  unfold effect_undelegate, amount_valid. intros H. open_effect H. split_guards.
  split; [tw_crush|split; [cred_crush|deb_crush]].
Qed.

Lemma rewards_withdraw_facts known cur u v h ops : effect_rewards_withdraw known cur u v h = Some ops ->
  no_creation (ops ++ fee_ops payer fp fee) /\ credits_ok (ops ++ fee_ops payer fp fee) /\
  takes_only_from (ops ++ fee_ops payer fp fee) [u; payer].
Proof.
  unfold effect_rewards_withdraw, amount_valid. intros H. open_effect H. split_guards.
  split; [tw_crush|split; [cred_crush|deb_crush]].
Qed.

Lemma reinvest_facts known cur u pool v ops : effect_reinvest known cur u pool v = Some ops ->
  no_creation (ops ++ fee_ops payer fp fee) /\ credits_ok (ops ++ fee_ops payer fp fee) /\
  takes_only_from (ops ++ fee_ops payer fp fee) [u; payer].
Proof.
  unfold effect_reinvest, amount_valid. intros H. open_effect H. split_guards.
  split; [tw_crush|split; [cred_crush|deb_crush]].
Qed.

(* ---- WITHDRAW_REWARD ---- guards: v >= 0 (45cfd0d) and v fits int64 (ed95e98): the narrowed amount is v itself *)
Lemma withdraw_reward_facts known cur signer rpool v ops : effect_withdraw_reward known cur signer rpool v = Some ops ->
  no_creation (ops ++ fee_ops payer fp fee) /\ credits_ok (ops ++ fee_ops payer fp fee) /\
  takes_only_from (ops ++ fee_ops payer fp fee) [rpool; payer].
Proof.
  unfold effect_withdraw_reward. intros H. open_effect H. split_guards.
  rewrite (wrap64_fits v) by assumption. pose proof E18_pos.
  assert (0 <= v * E18) by nia. generalize dependent (v * E18). intros x Hx.
  split; [tw_crush|split; [cred_crush|deb_crush]].
Qed.

(* ---- PROPOSAL_CREATE ---- guards: OLT (Validate), initial-funding option <= v (handler); option value >= 0 is the env hypothesis *)
Lemma proposal_create_facts known cur p prop v init goal ops : 0 <= init ->
  effect_proposal_create known cur p prop v init goal = Some ops ->
  no_creation (ops ++ fee_ops payer fp fee) /\ credits_ok (ops ++ fee_ops payer fp fee) /\
  takes_only_from (ops ++ fee_ops payer fp fee) [p; payer].
Proof.
  unfold effect_proposal_create, is_olt. intros I H. open_effect H. split_guards.
  assert (cur = CUR_OLT) by lia. subst cur.
  split; [tw_crush|split; [cred_crush|deb_crush]].
Qed.

(* ---- PROPOSAL_FUND ---- guards: OLT (Validate), v > 0 (handler, 782c385) *)
Lemma proposal_fund_facts known cur f prop v ops : effect_proposal_fund known cur f prop v = Some ops ->
  no_creation (ops ++ fee_ops payer fp fee) /\ credits_ok (ops ++ fee_ops payer fp fee) /\
  takes_only_from (ops ++ fee_ops payer fp fee) [f; payer].
Proof.
  unfold effect_proposal_fund, is_olt. intros H. open_effect H. split_guards.
  assert (cur = CUR_OLT) by lia. subst cur.
  split; [tw_crush|split; [cred_crush|deb_crush]].
Qed.

(* ---- PROPOSAL_WITHDRAW_FUNDS ---- guards: OLT (Validate), v > 0 (handler, 19a3caa): only the funder's escrow is taken from *)
Lemma proposal_withdraw_facts known cur f b prop v ops : effect_proposal_withdraw known cur f b prop v = Some ops ->
  no_creation (ops ++ fee_ops payer fp fee) /\ credits_ok (ops ++ fee_ops payer fp fee) /\
  takes_only_from (ops ++ fee_ops payer fp fee) [f; payer].
Proof.
  unfold effect_proposal_withdraw, is_olt. intros H. open_effect H. split_guards.
  assert (cur = CUR_OLT) by lia. subst cur.
  split; [tw_crush|split; [cred_crush|deb_crush]].
Qed.

(* ---- DOMAIN_CREATE / DOMAIN_RENEW ---- guards: price > base price / fee per block; option values >= 0 are env hypotheses *)
Lemma domain_create_facts known cur o v base ops : 0 <= base -> effect_domain_create known cur o fp v base = Some ops ->
  no_creation (ops ++ fee_ops payer fp fee) /\ credits_ok (ops ++ fee_ops payer fp fee) /\
  takes_only_from (ops ++ fee_ops payer fp fee) [o; payer].
Proof.
  unfold effect_domain_create. intros I H. open_effect H. split_guards.
  split; [tw_crush|split; [cred_crush|deb_crush]].
Qed.

Lemma domain_renew_facts known cur o v pb ops : 0 <= pb -> effect_domain_renew known cur o fp v pb = Some ops ->
  no_creation (ops ++ fee_ops payer fp fee) /\ credits_ok (ops ++ fee_ops payer fp fee) /\
  takes_only_from (ops ++ fee_ops payer fp fee) [o; payer].
Proof.
  unfold effect_domain_renew. intros I H. open_effect H. split_guards.
  split; [tw_crush|split; [cred_crush|deb_crush]].
Qed.

(* ---- DOMAIN_PURCHASE ---- guards: asking price <= offer; env hypotheses: asking price >= 0 (DOMAIN_SELL validates it), base price >= 0 *)
Lemma domain_purchase_facts known cur buyer offer on_sale sale seller base ops : 0 <= sale -> 0 <= base ->
  effect_domain_purchase known cur buyer fp offer on_sale sale seller base = Some ops ->
  no_creation (ops ++ fee_ops payer fp fee) /\ credits_ok (ops ++ fee_ops payer fp fee) /\
  takes_only_from (ops ++ fee_ops payer fp fee) [buyer; payer].
Proof.
  unfold effect_domain_purchase. intros I J H.
  destruct (known && is_olt cur) eqn:G0; [|discriminate H].
  destruct on_sale.
  - destruct (sale <=? offer) eqn:G1; [|discriminate H]. injection H as <-. split_guards.
    split; [tw_crush|split; [cred_crush|deb_crush]].
  - destruct (base <=? offer) eqn:G1; [|discriminate H]. injection H as <-. split_guards.
    split; [tw_crush|split; [cred_crush|deb_crush]].
Qed.

(* ---- DOMAIN_SEND ---- guard: Amount.IsValid *)
Lemma domain_send_facts known cur from benef v ops : effect_domain_send known cur from benef v = Some ops ->
  no_creation (ops ++ fee_ops payer fp fee) /\ credits_ok (ops ++ fee_ops payer fp fee) /\
  takes_only_from (ops ++ fee_ops payer fp fee) [from; payer].
Proof.
  unfold effect_domain_send, amount_valid. intros H. open_effect H. split_guards.
  split; [tw_crush|split; [cred_crush|deb_crush]].
Qed.

End Kinds.

(* a rejected transaction is a no-op; a modelled one is bounded by the generic theorems *)
Lemma tx_ops_none payer fp fee : tx_ops None payer fp fee = None.
Proof. reflexivity. Qed.

Lemma no_creation_total c l ops : no_creation ops -> total c (run_tx l ops) <= total c l.
Proof.
  intros H. pose proof (run_tx_total_bound c l ops). unfold surplus in *. specialize (H c). lia.
Qed.

Lemma takes_only_holdings a c l ops who : takes_only_from ops who -> ~ In a who -> holdings a c l <= holdings a c (run_tx l ops).
Proof. intros H N. apply run_tx_holdings. intros I. apply N, H, I. Qed.

(* ---------------- block hooks ---------------- *)

Lemma maturity_own_moves (l : gmap key Z) b h target :
  holding_bucket b = true ->
  (forall k, k_owner (target k) = k_owner k /\ k_cur (target k) = k_cur k /\ holding_bucket (k_bucket (target k)) = true) ->
  forallb own_move (maturity_ops l b h target) = true.
Proof.
  intros HB HT. apply forallb_forall. intros o I. unfold maturity_ops in I.
  apply in_map_iff in I as [kv [<- I]]. apply elem_of_list_In, elem_of_list_filter in I as [M _].
  unfold matures in M. apply Is_true_true in M. apply andb_true_iff in M as [M1 _]. apply N.eqb_eq in M1.
  destruct (HT kv.1) as [T1 [T2 T3]]. simpl. rewrite T1, T2, T3, M1, HB, !N.eqb_refl. reflexivity.
Qed.

Lemma to_balance_ok k : k_owner (to_balance k) = k_owner k /\ k_cur (to_balance k) = k_cur k /\ holding_bucket (k_bucket (to_balance k)) = true.
Proof. unfold to_balance, bal, mk, k_owner, k_cur, k_bucket. simpl. auto. Qed.
Lemma to_withdrawable_ok k : k_owner (to_withdrawable k) = k_owner k /\ k_cur (to_withdrawable k) = k_cur k /\ holding_bucket (k_bucket (to_withdrawable k)) = true.
Proof. unfold to_withdrawable, mk, k_owner, k_cur, k_bucket. simpl. auto. Qed.

(* the three maturity hooks are movements between an account's own records *)
Lemma undelegation_maturity_neutral (a c : N) (l : gmap key Z) (h : N) :
  holdings a c (run_tx l (maturity_ops l B_UNDELEG h to_balance)) = holdings a c l.
Proof. apply run_tx_own_moves, maturity_own_moves; [reflexivity|apply to_balance_ok]. Qed.
Lemma reward_maturity_neutral (a c : N) (l : gmap key Z) (h : N) :
  holdings a c (run_tx l (maturity_ops l B_REWPEND h to_balance)) = holdings a c l.
Proof. apply run_tx_own_moves, maturity_own_moves; [reflexivity|apply to_balance_ok]. Qed.
Lemma stake_maturity_neutral (a c : N) (l : gmap key Z) (h : N) :
  holdings a c (run_tx l (maturity_ops l B_UNSTAKE h to_withdrawable)) = holdings a c l.
Proof. apply run_tx_own_moves, maturity_own_moves; [reflexivity|apply to_withdrawable_ok]. Qed.

(* own moves within the counted buckets of one currency create nothing *)
Lemma own_move_conservative o : own_move o = true ->
  (match o with Move s d _ => negb (k_bucket s =? B_DELEGACT)%N && negb (k_bucket d =? B_DELEGACT)%N | _ => true end) = true ->
  forall c, op_mint c o - op_burn c o = 0.
Proof.
  destruct o as [s d v|s v|d v]; simpl; try discriminate. intros H G c.
  apply andb_true_iff in H as [H _]. apply andb_true_iff in H as [H _]. apply andb_true_iff in H as [_ H2].
  apply N.eqb_eq in H2. apply andb_true_iff in G as [G1 G2]. unfold tw. rewrite H2, G1, G2. lia.
Qed.

(* BeginBlock creates exactly what it accrues to the delegators' reward claims (the allowance) *)
Lemma accrual_minted c accr : minted c (accrual_ops accr) - burned c (accrual_ops accr) = if (c =? CUR_OLT)%N then accrued accr else 0.
Proof.
  induction accr as [|x accr IH]; simpl.
  - destruct (c =? CUR_OLT)%N; reflexivity.
  - unfold tw, k_cur, k_bucket, mk, CUR_OLT in *. destruct c; simpl in *; lia.
Qed.

(* the fee distribution moves within the fee bucket: creates nothing, and its shares are non-negative *)
Lemma fee_dist_conservative fp total minfee tp vals : forallb conservative (fee_dist_ops fp total minfee tp vals) = true.
Proof.
  unfold fee_dist_ops. destruct (minfee <? total); [|reflexivity].
  induction vals as [|x vals IH]; simpl; [reflexivity|].
  destruct ((0 <? tp) && (0 <? x.2)); simpl; auto.
Qed.

Lemma fee_dist_credits fp total minfee tp vals : 0 <= total -> forallb credit_nonneg (fee_dist_ops fp total minfee tp vals) = true.
Proof.
  intros T. unfold fee_dist_ops. destruct (minfee <? total); [|reflexivity].
  induction vals as [|x vals IH]; simpl; [reflexivity|].
  destruct ((0 <? tp) && (0 <? x.2)) eqn:E; simpl; auto.
  apply andb_true_iff in E as [E1 E2]. rewrite IH, andb_true_r. unfold fee_share.
  apply Z.leb_le. apply Z.div_pos; nia.
Qed.

Lemma conservative_no_mint c ops : forallb conservative ops = true ->
  (forall o, In o ops -> match o with Move _ _ _ => True | _ => False end) -> minted c ops - burned c ops = 0.
Proof.
  induction ops as [|o ops IH]; simpl; [lia|]. intros H A. apply andb_true_iff in H as [H1 H2].
  assert (minted c ops - burned c ops = 0) by (apply IH; [exact H2|intros o' I'; apply A; right; exact I']).
  pose proof (A o (or_introl eq_refl)) as K. destruct o as [s d v|s v|d v]; try contradiction.
  pose proof (move_mints_nothing c s d v H1). simpl in *. lia.
Qed.

(* ---- bid app ---- *)
Section Bid.
Variables (payer fp : N) (fee : Z).
Hypothesis fee_nonneg : 0 <= fee.

Lemma bid_create_facts known cur bidder conv v hc c ops : effect_bid_create known cur bidder conv v hc c = Some ops ->
  no_creation (ops ++ fee_ops payer fp fee) /\ credits_ok (ops ++ fee_ops payer fp fee) /\
  takes_only_from (ops ++ fee_ops payer fp fee) [bidder; payer].
Proof.
  unfold effect_bid_create, amount_valid. intros H. open_effect H. split_guards.
  split; [tw_crush|split; [cred_crush|deb_crush]].
Qed.

(* unlocking / paying out the whole escrow record: creates nothing; takes from the bidder's escrow only *)
Lemma bid_escrow_move_facts (l : gmap key Z) (bidder conv : N) (dst : key) : nonneg l -> k_cur dst = CUR_OLT -> k_bucket dst = B_BAL ->
  let ops := [Move (esc bidder conv) dst (lget l (esc bidder conv))] in
  no_creation (ops ++ fee_ops payer fp fee) /\ credits_ok (ops ++ fee_ops payer fp fee) /\
  takes_only_from (ops ++ fee_ops payer fp fee) [bidder; payer].
Proof.
  intros NN C B. pose proof (NN (esc bidder conv)) as P. generalize dependent (lget l (esc bidder conv)). intros a P.
  destruct dst as [[[o b] c] s0]. unfold k_cur, k_bucket in C, B. simpl in C, B. subst c b.
  split; [tw_crush|split; [cred_crush|deb_crush]].
Qed.

Lemma bid_bidder_accept_facts bidder owner c ops : effect_bid_bidder_accept bidder owner c = Some ops ->
  no_creation (ops ++ fee_ops payer fp fee) /\ credits_ok (ops ++ fee_ops payer fp fee) /\
  takes_only_from (ops ++ fee_ops payer fp fee) [bidder; payer].
Proof.
  unfold effect_bid_bidder_accept. intros H. open_effect H.
  split; [tw_crush|split; [cred_crush|deb_crush]].
Qed.
End Bid.

Lemma bid_create_stmt : forall known cur bidder conv v hc c payer fp fee ops, 0 <= fee ->
  effect_bid_create known cur bidder conv v hc c = Some ops ->
  no_creation (ops ++ fee_ops payer fp fee) /\ credits_ok (ops ++ fee_ops payer fp fee) /\ takes_only_from (ops ++ fee_ops payer fp fee) [bidder; payer].
Proof. intros known cur bidder conv v hc c payer fp fee ops Hfee H. exact (bid_create_facts payer fp fee Hfee _ _ _ _ _ _ _ _ H). Qed.

Lemma bid_unlock_stmt : forall (l : gmap key Z) (bidder conv payer fp : N) (fee : Z), 0 <= fee -> nonneg l ->
  no_creation (unlock_ops l bidder conv ++ fee_ops payer fp fee) /\ credits_ok (unlock_ops l bidder conv ++ fee_ops payer fp fee) /\
  takes_only_from (unlock_ops l bidder conv ++ fee_ops payer fp fee) [bidder; payer] /\
  forall a c, a <> payer -> holdings a c (run_tx l (unlock_ops l bidder conv)) = holdings a c l.
Proof.
  intros l bidder conv payer fp fee Hfee NN.
  destruct (bid_escrow_move_facts payer fp fee Hfee l bidder conv (bal bidder CUR_OLT) NN eq_refl eq_refl) as [A [B C]].
  repeat split; auto. intros a c _. apply run_tx_own_moves. unfold unlock_ops, esc, bal, mk, own_move, k_owner, k_cur, k_bucket. simpl.
  rewrite !N.eqb_refl. reflexivity.
Qed.

Lemma bid_owner_accept_stmt : forall (l : gmap key Z) (bidder owner conv payer fp : N) (fee : Z) ops, 0 <= fee -> nonneg l ->
  effect_bid_owner_accept l bidder owner conv = Some ops ->
  no_creation (ops ++ fee_ops payer fp fee) /\ credits_ok (ops ++ fee_ops payer fp fee) /\ takes_only_from (ops ++ fee_ops payer fp fee) [bidder; payer].
Proof.
  intros l bidder owner conv payer fp fee ops Hfee NN H. unfold effect_bid_owner_accept in H. injection H as <-.
  exact (bid_escrow_move_facts payer fp fee Hfee l bidder conv (bal owner CUR_OLT) NN eq_refl eq_refl).
Qed.

Lemma bid_bidder_accept_stmt : forall bidder owner c payer fp fee ops, 0 <= fee -> effect_bid_bidder_accept bidder owner c = Some ops ->
  no_creation (ops ++ fee_ops payer fp fee) /\ credits_ok (ops ++ fee_ops payer fp fee) /\ takes_only_from (ops ++ fee_ops payer fp fee) [bidder; payer].
Proof. intros bidder owner c payer fp fee ops Hfee H. exact (bid_bidder_accept_facts payer fp fee Hfee _ _ _ _ H). Qed.

(* ---- wrapped currencies ---- *)
(* the mint of a lock creates exactly the locked amount, in the lock's currency only *)
Lemma eth_lock_mint_stmt : forall owner cur locked c,
  minted c (effect_eth_lock_mint owner cur locked) - burned c (effect_eth_lock_mint owner cur locked) = if (cur =? c)%N then locked else 0.
Proof.
  intros. unfold effect_eth_lock_mint, minted, burned, op_mint, op_burn, tw, k_cur, k_bucket, bal, mk. cbn.
  destruct (cur =? c)%N; cbn; lia.
Qed.
(* a redeem followed (any number of other operations later) by the refund of what it burnt is neutral: burn and refund cancel *)
Lemma eth_redeem_then_refund_stmt : forall owner cur amount ops mid c, effect_eth_redeem_burn owner cur amount = Some ops ->
  minted c (ops ++ mid ++ effect_eth_redeem_refund owner cur amount) - burned c (ops ++ mid ++ effect_eth_redeem_refund owner cur amount)
  = minted c mid - burned c mid.
Proof.
  intros owner cur amount ops mid c H. unfold effect_eth_redeem_burn in H. destruct (0 <=? amount); [|discriminate]. injection H as <-.
  assert (A : forall a b, minted c (a ++ b) = minted c a + minted c b) by (intros a b; induction a; simpl; lia).
  assert (B : forall a b, burned c (a ++ b) = burned c a + burned c b) by (intros a b; induction a; simpl; lia).
  rewrite !A, !B. unfold effect_eth_redeem_refund, minted, burned, op_mint, op_burn, tw, k_cur, k_bucket, bal, mk. cbn.
  destruct (cur =? c)%N; cbn; lia.
Qed.
(* a redeem destroys, takes from its owner only and adds nothing *)
Lemma eth_redeem_burn_stmt : forall owner cur amount payer fp fee ops, 0 <= fee -> effect_eth_redeem_burn owner cur amount = Some ops ->
  no_creation (ops ++ fee_ops payer fp fee) /\ credits_ok (ops ++ fee_ops payer fp fee) /\ takes_only_from (ops ++ fee_ops payer fp fee) [owner; payer].
Proof.
  intros owner cur amount payer fp fee ops Hfee H. unfold effect_eth_redeem_burn in H. open_effect H.
  split; [tw_crush|split; [cred_crush|deb_crush]].
Qed.

(* ---- OLVM transaction (transfer, call, contract creation) ---- *)
Lemma olvm_stmt : forall sender target fp value reverted fee ops, effect_olvm sender target fp value reverted fee = Some ops ->
  no_creation ops /\ credits_ok ops /\ takes_only_from ops [sender].
Proof.
  intros sender target fp value reverted fee ops H. unfold effect_olvm in H. open_effect H. split_guards.
  destruct reverted; (split; [tw_crush|split; [cred_crush|deb_crush]]).
Qed.
(* hence, for EVERY ledger - whatever the created contract's address already held - the total of every currency is unchanged
   or lower and the target's balance after a creation is exactly what it held plus the endowment *)

(* ---- allegation penalty / bounty (EndBlock, guilty verdict) ---- *)
Lemma penalty_amount_nonneg total pct dec : 0 <= total -> 0 <= pct -> 0 < dec -> 0 <= penalty_amount total pct dec.
Proof. intros. unfold penalty_amount. apply Z.div_pos; nia. Qed.

Lemma penalty_core_facts stake val bounty p bpct bdec : 0 <= p -> 0 <= bpct <= bdec -> 0 < bdec ->
  no_creation (penalty_core stake val bounty p bpct bdec) /\ credits_ok (penalty_core stake val bounty p bpct bdec) /\
  takes_only_from (penalty_core stake val bounty p bpct bdec) [stake].
Proof.
  intros P B D. pose proof E18_pos. assert (X : 0 <= p * E18) by nia.
  assert (Y : 0 <= p * E18 * bpct / bdec) by (apply Z.div_pos; nia).
  assert (W : p * E18 * bpct / bdec <= p * E18).
  { apply Z.div_le_upper_bound; [lia|]. nia. }
  unfold penalty_core. generalize dependent (p * E18 * bpct / bdec). intros y Y W.
  generalize dependent (p * E18). intros x X W.
  split; [tw_crush|split; [cred_crush|deb_crush]].
Qed.

Lemma penalty_ops_facts (l : gmap key Z) (stake val bounty : N) (pct dec bpct bdec : Z) :
  0 <= val_total l val -> 0 <= pct -> 0 < dec -> 0 <= bpct <= bdec -> 0 < bdec ->
  no_creation (penalty_ops l stake val bounty pct dec bpct bdec) /\ credits_ok (penalty_ops l stake val bounty pct dec bpct bdec) /\
  takes_only_from (penalty_ops l stake val bounty pct dec bpct bdec) [stake].
Proof.
  intros T P D B BD. unfold penalty_ops. destruct (_ <? 0).
  - split; [intros c; simpl; lia|split; [reflexivity|intros a []]].
  - apply penalty_core_facts; auto. apply penalty_amount_nonneg; auto.
Qed.

(* ---------------- the per-kind statements in the shape of props/C02.v and props/C03.v ---------------- *)
Lemma send_no_creation : forall known cur from to v payer fp fee ops, 0 <= fee -> effect_send known cur from to v = Some ops ->
  no_creation (ops ++ fee_ops payer fp fee) /\ credits_ok (ops ++ fee_ops payer fp fee).
Proof. intros known cur from to v payer fp fee ops Hfee  H. destruct (send_facts payer fp fee Hfee known cur from to v ops  H) as [A [B _]]. split; assumption. Qed.
Lemma send_authority : forall known cur from to v payer fp fee ops, 0 <= fee -> effect_send known cur from to v = Some ops ->
  takes_only_from (ops ++ fee_ops payer fp fee) [from; payer].
Proof. intros known cur from to v payer fp fee ops Hfee  H. destruct (send_facts payer fp fee Hfee known cur from to v ops  H) as [_ [_ C]]. exact C. Qed.
Lemma sendpool_no_creation : forall known cur from pool v payer fp fee ops, 0 <= fee -> effect_sendpool known cur from pool v = Some ops ->
  no_creation (ops ++ fee_ops payer fp fee) /\ credits_ok (ops ++ fee_ops payer fp fee).
Proof. intros known cur from pool v payer fp fee ops Hfee  H. destruct (sendpool_facts payer fp fee Hfee known cur from pool v ops  H) as [A [B _]]. split; assumption. Qed.
Lemma sendpool_authority : forall known cur from pool v payer fp fee ops, 0 <= fee -> effect_sendpool known cur from pool v = Some ops ->
  takes_only_from (ops ++ fee_ops payer fp fee) [from; payer].
Proof. intros known cur from pool v payer fp fee ops Hfee  H. destruct (sendpool_facts payer fp fee Hfee known cur from pool v ops  H) as [_ [_ C]]. exact C. Qed.
Lemma stake_no_creation : forall known cur staker val v payer fp fee ops, 0 <= fee -> effect_stake known cur staker val v = Some ops ->
  no_creation (ops ++ fee_ops payer fp fee) /\ credits_ok (ops ++ fee_ops payer fp fee).
Proof. intros known cur staker val v payer fp fee ops Hfee  H. destruct (stake_facts payer fp fee Hfee known cur staker val v ops  H) as [A [B _]]. split; assumption. Qed.
Lemma stake_authority : forall known cur staker val v payer fp fee ops, 0 <= fee -> effect_stake known cur staker val v = Some ops ->
  takes_only_from (ops ++ fee_ops payer fp fee) [staker; payer].
Proof. intros known cur staker val v payer fp fee ops Hfee  H. destruct (stake_facts payer fp fee Hfee known cur staker val v ops  H) as [_ [_ C]]. exact C. Qed.
Lemma unstake_no_creation : forall known cur staker val v h payer fp fee ops, 0 <= fee -> effect_unstake known cur staker val v h = Some ops ->
  no_creation (ops ++ fee_ops payer fp fee) /\ credits_ok (ops ++ fee_ops payer fp fee).
Proof. intros known cur staker val v h payer fp fee ops Hfee  H. destruct (unstake_facts payer fp fee Hfee known cur staker val v h ops  H) as [A [B _]]. split; assumption. Qed.
Lemma unstake_authority : forall known cur staker val v h payer fp fee ops, 0 <= fee -> effect_unstake known cur staker val v h = Some ops ->
  takes_only_from (ops ++ fee_ops payer fp fee) [staker; payer].
Proof. intros known cur staker val v h payer fp fee ops Hfee  H. destruct (unstake_facts payer fp fee Hfee known cur staker val v h ops  H) as [_ [_ C]]. exact C. Qed.
Lemma withdraw_no_creation : forall known cur staker v payer fp fee ops, 0 <= fee -> effect_withdraw known cur staker v = Some ops ->
  no_creation (ops ++ fee_ops payer fp fee) /\ credits_ok (ops ++ fee_ops payer fp fee).
Proof. intros known cur staker v payer fp fee ops Hfee  H. destruct (withdraw_facts payer fp fee Hfee known cur staker v ops  H) as [A [B _]]. split; assumption. Qed.
Lemma withdraw_authority : forall known cur staker v payer fp fee ops, 0 <= fee -> effect_withdraw known cur staker v = Some ops ->
  takes_only_from (ops ++ fee_ops payer fp fee) [staker; payer].
Proof. intros known cur staker v payer fp fee ops Hfee  H. destruct (withdraw_facts payer fp fee Hfee known cur staker v ops  H) as [_ [_ C]]. exact C. Qed.
Lemma delegate_no_creation : forall known cur u pool v payer fp fee ops, 0 <= fee -> effect_delegate known cur u pool v = Some ops ->
  no_creation (ops ++ fee_ops payer fp fee) /\ credits_ok (ops ++ fee_ops payer fp fee).
Proof. intros known cur u pool v payer fp fee ops Hfee  H. destruct (delegate_facts payer fp fee Hfee known cur u pool v ops  H) as [A [B _]]. split; assumption. Qed.
Lemma delegate_authority : forall known cur u pool v payer fp fee ops, 0 <= fee -> effect_delegate known cur u pool v = Some ops ->
  takes_only_from (ops ++ fee_ops payer fp fee) [u; payer].
Proof. intros known cur u pool v payer fp fee ops Hfee  H. destruct (delegate_facts payer fp fee Hfee known cur u pool v ops  H) as [_ [_ C]]. exact C. Qed.
Lemma undelegate_no_creation : forall known cur u pool v h payer fp fee ops, 0 <= fee -> effect_undelegate known cur u pool v h = Some ops ->
  no_creation (ops ++ fee_ops payer fp fee) /\ credits_ok (ops ++ fee_ops payer fp fee).
Proof. intros known cur u pool v h payer fp fee ops Hfee  H. destruct (undelegate_facts payer fp fee Hfee known cur u pool v h ops  H) as [A [B _]]. split; assumption. Qed.
Lemma undelegate_authority : forall known cur u pool v h payer fp fee ops, 0 <= fee -> effect_undelegate known cur u pool v h = Some ops ->
  takes_only_from (ops ++ fee_ops payer fp fee) [u; pool; payer].
Proof. intros known cur u pool v h payer fp fee ops Hfee  H. destruct (undelegate_facts payer fp fee Hfee known cur u pool v h ops  H) as [_ [_ C]]. exact C. Qed.
Lemma rewards_withdraw_no_creation : forall known cur u v h payer fp fee ops, 0 <= fee -> effect_rewards_withdraw known cur u v h = Some ops ->
  no_creation (ops ++ fee_ops payer fp fee) /\ credits_ok (ops ++ fee_ops payer fp fee).
Proof. intros known cur u v h payer fp fee ops Hfee  H. destruct (rewards_withdraw_facts payer fp fee Hfee known cur u v h ops  H) as [A [B _]]. split; assumption. Qed.
Lemma rewards_withdraw_authority : forall known cur u v h payer fp fee ops, 0 <= fee -> effect_rewards_withdraw known cur u v h = Some ops ->
  takes_only_from (ops ++ fee_ops payer fp fee) [u; payer].
Proof. intros known cur u v h payer fp fee ops Hfee  H. destruct (rewards_withdraw_facts payer fp fee Hfee known cur u v h ops  H) as [_ [_ C]]. exact C. Qed.
Lemma reinvest_no_creation : forall known cur u pool v payer fp fee ops, 0 <= fee -> effect_reinvest known cur u pool v = Some ops ->
  no_creation (ops ++ fee_ops payer fp fee) /\ credits_ok (ops ++ fee_ops payer fp fee).
Proof. intros known cur u pool v payer fp fee ops Hfee  H. destruct (reinvest_facts payer fp fee Hfee known cur u pool v ops  H) as [A [B _]]. split; assumption. Qed.
Lemma reinvest_authority : forall known cur u pool v payer fp fee ops, 0 <= fee -> effect_reinvest known cur u pool v = Some ops ->
  takes_only_from (ops ++ fee_ops payer fp fee) [u; payer].
Proof. intros known cur u pool v payer fp fee ops Hfee  H. destruct (reinvest_facts payer fp fee Hfee known cur u pool v ops  H) as [_ [_ C]]. exact C. Qed.
Lemma proposal_create_no_creation : forall known cur p prop v init goal payer fp fee ops, 0 <= fee -> 0 <= init -> effect_proposal_create known cur p prop v init goal = Some ops ->
  no_creation (ops ++ fee_ops payer fp fee) /\ credits_ok (ops ++ fee_ops payer fp fee).
Proof. intros known cur p prop v init goal payer fp fee ops Hfee Hy0 H. destruct (proposal_create_facts payer fp fee Hfee known cur p prop v init goal ops Hy0 H) as [A [B _]]. split; assumption. Qed.
Lemma proposal_create_authority : forall known cur p prop v init goal payer fp fee ops, 0 <= fee -> 0 <= init -> effect_proposal_create known cur p prop v init goal = Some ops ->
  takes_only_from (ops ++ fee_ops payer fp fee) [p; payer].
Proof. intros known cur p prop v init goal payer fp fee ops Hfee Hy0 H. destruct (proposal_create_facts payer fp fee Hfee known cur p prop v init goal ops Hy0 H) as [_ [_ C]]. exact C. Qed.
Lemma proposal_fund_no_creation : forall known cur f prop v payer fp fee ops, 0 <= fee -> effect_proposal_fund known cur f prop v = Some ops ->
  no_creation (ops ++ fee_ops payer fp fee) /\ credits_ok (ops ++ fee_ops payer fp fee).
Proof. intros known cur f prop v payer fp fee ops Hfee  H. destruct (proposal_fund_facts payer fp fee Hfee known cur f prop v ops  H) as [A [B _]]. split; assumption. Qed.
Lemma proposal_fund_authority : forall known cur f prop v payer fp fee ops, 0 <= fee -> effect_proposal_fund known cur f prop v = Some ops ->
  takes_only_from (ops ++ fee_ops payer fp fee) [f; payer].
Proof. intros known cur f prop v payer fp fee ops Hfee  H. destruct (proposal_fund_facts payer fp fee Hfee known cur f prop v ops  H) as [_ [_ C]]. exact C. Qed.
Lemma proposal_withdraw_no_creation : forall known cur f b prop v payer fp fee ops, 0 <= fee -> effect_proposal_withdraw known cur f b prop v = Some ops ->
  no_creation (ops ++ fee_ops payer fp fee) /\ credits_ok (ops ++ fee_ops payer fp fee).
Proof. intros known cur f b prop v payer fp fee ops Hfee  H. destruct (proposal_withdraw_facts payer fp fee Hfee known cur f b prop v ops  H) as [A [B _]]. split; assumption. Qed.
Lemma proposal_withdraw_authority : forall known cur f b prop v payer fp fee ops, 0 <= fee -> effect_proposal_withdraw known cur f b prop v = Some ops ->
  takes_only_from (ops ++ fee_ops payer fp fee) [f; payer].
Proof. intros known cur f b prop v payer fp fee ops Hfee  H. destruct (proposal_withdraw_facts payer fp fee Hfee known cur f b prop v ops  H) as [_ [_ C]]. exact C. Qed.
Lemma domain_create_no_creation : forall known cur o fp v base payer fee ops, 0 <= fee -> 0 <= base -> effect_domain_create known cur o fp v base = Some ops ->
  no_creation (ops ++ fee_ops payer fp fee) /\ credits_ok (ops ++ fee_ops payer fp fee).
Proof. intros known cur o fp v base payer fee ops Hfee Hy0 H. destruct (domain_create_facts payer fp fee Hfee known cur o v base ops Hy0 H) as [A [B _]]. split; assumption. Qed.
Lemma domain_create_authority : forall known cur o fp v base payer fee ops, 0 <= fee -> 0 <= base -> effect_domain_create known cur o fp v base = Some ops ->
  takes_only_from (ops ++ fee_ops payer fp fee) [o; payer].
Proof. intros known cur o fp v base payer fee ops Hfee Hy0 H. destruct (domain_create_facts payer fp fee Hfee known cur o v base ops Hy0 H) as [_ [_ C]]. exact C. Qed.
Lemma domain_renew_no_creation : forall known cur o fp v pb payer fee ops, 0 <= fee -> 0 <= pb -> effect_domain_renew known cur o fp v pb = Some ops ->
  no_creation (ops ++ fee_ops payer fp fee) /\ credits_ok (ops ++ fee_ops payer fp fee).
Proof. intros known cur o fp v pb payer fee ops Hfee Hy0 H. destruct (domain_renew_facts payer fp fee Hfee known cur o v pb ops Hy0 H) as [A [B _]]. split; assumption. Qed.
Lemma domain_renew_authority : forall known cur o fp v pb payer fee ops, 0 <= fee -> 0 <= pb -> effect_domain_renew known cur o fp v pb = Some ops ->
  takes_only_from (ops ++ fee_ops payer fp fee) [o; payer].
Proof. intros known cur o fp v pb payer fee ops Hfee Hy0 H. destruct (domain_renew_facts payer fp fee Hfee known cur o v pb ops Hy0 H) as [_ [_ C]]. exact C. Qed.
Lemma domain_purchase_no_creation : forall known cur buyer fp offer on_sale sale seller base payer fee ops, 0 <= fee -> 0 <= sale -> 0 <= base -> effect_domain_purchase known cur buyer fp offer on_sale sale seller base = Some ops ->
  no_creation (ops ++ fee_ops payer fp fee) /\ credits_ok (ops ++ fee_ops payer fp fee).
Proof. intros known cur buyer fp offer on_sale sale seller base payer fee ops Hfee Hy0 Hy1 H. destruct (domain_purchase_facts payer fp fee Hfee known cur buyer offer on_sale sale seller base ops Hy0 Hy1 H) as [A [B _]]. split; assumption. Qed.
Lemma domain_purchase_authority : forall known cur buyer fp offer on_sale sale seller base payer fee ops, 0 <= fee -> 0 <= sale -> 0 <= base -> effect_domain_purchase known cur buyer fp offer on_sale sale seller base = Some ops ->
  takes_only_from (ops ++ fee_ops payer fp fee) [buyer; payer].
Proof. intros known cur buyer fp offer on_sale sale seller base payer fee ops Hfee Hy0 Hy1 H. destruct (domain_purchase_facts payer fp fee Hfee known cur buyer offer on_sale sale seller base ops Hy0 Hy1 H) as [_ [_ C]]. exact C. Qed.
Lemma domain_send_no_creation : forall known cur from benef v payer fp fee ops, 0 <= fee -> effect_domain_send known cur from benef v = Some ops ->
  no_creation (ops ++ fee_ops payer fp fee) /\ credits_ok (ops ++ fee_ops payer fp fee).
Proof. intros known cur from benef v payer fp fee ops Hfee  H. destruct (domain_send_facts payer fp fee Hfee known cur from benef v ops  H) as [A [B _]]. split; assumption. Qed.
Lemma domain_send_authority : forall known cur from benef v payer fp fee ops, 0 <= fee -> effect_domain_send known cur from benef v = Some ops ->
  takes_only_from (ops ++ fee_ops payer fp fee) [from; payer].
Proof. intros known cur from benef v payer fp fee ops Hfee  H. destruct (domain_send_facts payer fp fee Hfee known cur from benef v ops  H) as [_ [_ C]]. exact C. Qed.

Lemma withdraw_reward_no_creation : forall known cur signer rpool v payer fp fee ops, 0 <= fee ->
  effect_withdraw_reward known cur signer rpool v = Some ops ->
  no_creation (ops ++ fee_ops payer fp fee) /\ credits_ok (ops ++ fee_ops payer fp fee).
Proof. intros known cur signer rpool v payer fp fee ops Hfee H. destruct (withdraw_reward_facts payer fp fee Hfee _ _ _ _ _ _ H) as [A [B _]]. auto. Qed.
Lemma withdraw_reward_authority : forall known cur signer rpool v payer fp fee ops, 0 <= fee ->
  effect_withdraw_reward known cur signer rpool v = Some ops -> takes_only_from (ops ++ fee_ops payer fp fee) [rpool; payer].
Proof. intros known cur signer rpool v payer fp fee ops Hfee H. destruct (withdraw_reward_facts payer fp fee Hfee _ _ _ _ _ _ H) as [_ [_ C]]. exact C. Qed.

(* a contract creation conserves every total whatever the new address already held *)
Lemma olvm_create_conserves : forall (l : gmap key Z) sender target fp value fee ops c, sender <> target ->
  effect_olvm sender target fp value false fee = Some ops -> forall l', apply_ops l ops = Some l' ->
  total c l' = total c l /\ lget l' (bal target CUR_OLT) = lget l (bal target CUR_OLT) + value.
Proof.
  intros l sender target fp value fee ops c NE H l' A. unfold effect_olvm in H. open_effect H. split_guards.
  split.
  - rewrite (total_exact c _ _ _ A). unfold minted, burned, op_mint, op_burn, tw, k_cur, k_bucket, bal, feepool, mk. cbn. repeat case_match; lia.
  - assert (K1 : bal sender CUR_OLT <> bal target CUR_OLT) by (unfold bal, mk; intros E; inversion E; congruence).
    assert (K2 : feepool fp <> bal target CUR_OLT) by (unfold feepool, bal, mk, B_FEE, B_BAL; intros E; inversion E).
    simpl in A. destruct (lget l (bal sender CUR_OLT) - value <? 0); [discriminate|].
    match type of A with context [if ?b then _ else _] => destruct b; [discriminate|] end. injection A as <-.
    rewrite !lget_ladd. repeat case_decide; try congruence; lia.
Qed.
