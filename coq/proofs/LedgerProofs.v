(* LedgerProofs.v — generic lemmas about theories/Ledger.v (C02, C03): conservation of weighted sums
   by operation lists, transactions, blocks and histories. *)
From stdpp Require Import gmap list.
From Coq Require Import ZArith NArith Lia ZifyBool ZifyNat ZifyN.
From OL Require Import theories.Ledger.
Local Open Scope Z_scope.

(* ---------------- records ---------------- *)

Lemma lget_lset l k v k' : lget (lset l k v) k' = if decide (k = k') then v else lget l k'.
Proof.
  unfold lget, lset. destruct (v =? 0) eqn:E.
  - destruct (decide (k = k')) as [->|N].
    + rewrite lookup_delete. simpl. lia.
    + rewrite lookup_delete_ne; auto.
  - destruct (decide (k = k')) as [->|N].
    + rewrite lookup_insert. reflexivity.
    + rewrite lookup_insert_ne; auto.
Qed.

Lemma lget_ladd l k v k' : lget (ladd l k v) k' = if decide (k = k') then lget l k + v else lget l k'.
Proof. unfold ladd. apply lget_lset. Qed.

Lemma wsum_insert (w : key -> Z) (l : gmap key Z) k v : wsum w (<[k:=v]> l) = wsum w l + w k * (v - lget l k).
Proof.
  unfold wsum, lget.
  destruct (l !! k) as [old|] eqn:E; simpl.
  - rewrite <- (insert_delete l k old E) at 2.
    rewrite <- (insert_delete_insert l k v).
    rewrite !map_fold_insert_L; try (intros; lia); try apply lookup_delete.
  - rewrite map_fold_insert_L; auto; try (intros; lia).
Qed.

Lemma wsum_delete (w : key -> Z) (l : gmap key Z) k : wsum w (delete k l) = wsum w l - w k * lget l k.
Proof.
  unfold wsum, lget.
  destruct (l !! k) as [old|] eqn:E; simpl.
  - rewrite <- (insert_delete l k old E) at 2.
    rewrite map_fold_insert_L; try (intros; lia); try apply lookup_delete.
  - rewrite delete_notin; auto. lia.
Qed.

Lemma wsum_lset (w : key -> Z) (l : gmap key Z) k v : wsum w (lset l k v) = wsum w l + w k * (v - lget l k).
Proof.
  unfold lset. destruct (v =? 0) eqn:E.
  - rewrite wsum_delete. assert (v = 0) by lia. subst. lia.
  - apply wsum_insert.
Qed.

Lemma wsum_ladd (w : key -> Z) (l : gmap key Z) k v : wsum w (ladd l k v) = wsum w l + w k * v.
Proof. unfold ladd. rewrite wsum_lset. lia. Qed.

Lemma wsum_empty (w : key -> Z) : wsum w ∅ = 0.
Proof. unfold wsum. apply map_fold_empty. Qed.

(* ---------------- operation lists ---------------- *)

Lemma apply_op_delta (w : key -> Z) (l : gmap key Z) o l' : apply_op l o = Some l' -> wsum w l' = wsum w l + op_delta w o.
Proof.
  destruct o as [s d v|s v|d v]; simpl.
  - destruct (lget l s - v <? 0); [discriminate|]. intros [= <-]. rewrite !wsum_ladd. lia.
  - destruct (lget l s - v <? 0); [discriminate|]. intros [= <-]. rewrite wsum_ladd. lia.
  - intros [= <-]. rewrite wsum_ladd. lia.
Qed.

Lemma apply_ops_delta (w : key -> Z) ops : forall l l', apply_ops l ops = Some l' -> wsum w l' = wsum w l + ops_delta w ops.
Proof.
  induction ops as [|o ops IH]; intros l l'; simpl.
  - intros [= <-]. lia.
  - destruct (apply_op l o) as [l1|] eqn:E; [|discriminate].
    intros H. rewrite (IH _ _ H), (apply_op_delta w _ _ _ E). lia.
Qed.

Lemma run_tx_cases l ops : (run_tx l ops = l /\ apply_ops l ops = None) \/ (exists l', apply_ops l ops = Some l' /\ run_tx l ops = l').
Proof. unfold run_tx. destruct (apply_ops l ops) as [l'|]; simpl; eauto. Qed.

(* ---------------- C02: totals ---------------- *)

Lemma op_delta_total c o : op_delta (tw c) o = op_mint c o - op_burn c o.
Proof. destruct o; simpl; lia. Qed.

Lemma ops_delta_total c ops : ops_delta (tw c) ops = minted c ops - burned c ops.
Proof. induction ops as [|o ops IH]; simpl; [lia|]. rewrite op_delta_total. lia. Qed.

(* exact accounting: total after = total before + created - destroyed *)
Lemma total_exact c l ops l' : apply_ops l ops = Some l' ->
  total c l' = total c l + minted c ops - burned c ops.
Proof. intros H. unfold total. rewrite (apply_ops_delta _ _ _ _ H), ops_delta_total. lia. Qed.

Lemma tw_conservative c s d v : conservative (Move s d v) = true -> tw c s = tw c d.
Proof.
  unfold conservative, tw. intros H.
  apply andb_true_iff in H as [H1 H2]. apply N.eqb_eq in H1. apply Bool.eqb_prop in H2.
  rewrite H1, H2. reflexivity.
Qed.

(* a conservative Move creates nothing *)
Lemma move_mints_nothing c s d v : conservative (Move s d v) = true -> op_mint c (Move s d v) = 0.
Proof. intros H. simpl. rewrite (tw_conservative c s d v H). lia. Qed.

Definition surplus (c : N) (ops : list lop) : Z := Z.max 0 (minted c ops - burned c ops).

Lemma run_tx_total_bound c l ops : total c (run_tx l ops) <= total c l + surplus c ops.
Proof.
  unfold surplus. destruct (run_tx_cases l ops) as [[-> _]|[l' [H ->]]]; [lia|].
  rewrite (total_exact c _ _ _ H). lia.
Qed.

Definition block_surplus (c : N) (txs : list (list lop)) : Z := fold_right (fun ops acc => surplus c ops + acc) 0 txs.

Lemma run_block_total_bound c txs : forall l, total c (run_block l txs) <= total c l + block_surplus c txs.
Proof.
  induction txs as [|ops txs IH]; intros l; simpl; [lia|].
  unfold run_block in *. simpl. specialize (IH (run_tx l ops)).
  pose proof (run_tx_total_bound c l ops). lia.
Qed.

Definition history_surplus (c : N) (bs : list (list (list lop))) : Z := fold_right (fun b acc => block_surplus c b + acc) 0 bs.

Lemma run_history_total_bound c bs : forall l, total c (run_history l bs) <= total c l + history_surplus c bs.
Proof.
  induction bs as [|b bs IH]; intros l; simpl; [lia|].
  unfold run_history in *. simpl. specialize (IH (run_block l b)).
  pose proof (run_block_total_bound c b l). lia.
Qed.

Lemma surplus_nonneg c ops : 0 <= surplus c ops.
Proof. unfold surplus. lia. Qed.

(* a block whose transactions create nothing beyond what they destroy, except for hooks with a stated allowance *)
Lemma block_surplus_bound c txs allow :
  Forall2 (fun ops a => minted c ops - burned c ops <= a /\ 0 <= a) txs allow ->
  block_surplus c txs <= fold_right Z.add 0 allow.
Proof.
  induction 1 as [|ops a txs allow [H1 H2] _ IH]; simpl; [lia|]. unfold surplus. lia.
Qed.

(* ---------------- C02: no negative record ---------------- *)

Lemma apply_op_nonneg l o l' : nonneg l -> credit_nonneg o = true -> apply_op l o = Some l' -> nonneg l'.
Proof.
  intros N C. destruct o as [s d v|s v|d v]; simpl in *.
  - destruct (lget l s - v <? 0) eqn:G; [discriminate|]. intros [= <-] k.
    rewrite !lget_ladd. pose proof (N k). pose proof (N s). pose proof (N d).
    destruct (decide (d = k)); destruct (decide (s = k)); destruct (decide (s = d)); subst; try congruence; lia.
  - destruct (lget l s - v <? 0) eqn:G; [discriminate|]. intros [= <-] k.
    rewrite lget_ladd. pose proof (N k). destruct (decide (s = k)); subst; lia.
  - intros [= <-] k. rewrite lget_ladd. pose proof (N k). pose proof (N d). destruct (decide (d = k)); subst; lia.
Qed.

Lemma apply_ops_nonneg ops : forall l l', nonneg l -> forallb credit_nonneg ops = true ->
  apply_ops l ops = Some l' -> nonneg l'.
Proof.
  induction ops as [|o ops IH]; intros l l' N C; simpl in *.
  - intros [= <-]. exact N.
  - apply andb_true_iff in C as [C1 C2].
    destruct (apply_op l o) as [l1|] eqn:E; [|discriminate].
    intros H. apply (IH l1 l'); auto. apply (apply_op_nonneg l o l1); auto.
Qed.

Lemma run_tx_nonneg l ops : nonneg l -> forallb credit_nonneg ops = true -> nonneg (run_tx l ops).
Proof.
  intros N C. destruct (run_tx_cases l ops) as [[-> _]|[l' [H ->]]]; auto. eapply apply_ops_nonneg; eauto.
Qed.

Lemma run_block_nonneg txs : forall l, nonneg l -> Forall (fun ops => forallb credit_nonneg ops = true) txs ->
  nonneg (run_block l txs).
Proof.
  induction txs as [|ops txs IH]; intros l N F; simpl; auto.
  inversion F; subst. unfold run_block in *. simpl. apply IH; auto. apply run_tx_nonneg; auto.
Qed.

Lemma run_history_nonneg bs : forall l, nonneg l ->
  Forall (Forall (fun ops => forallb credit_nonneg ops = true)) bs -> nonneg (run_history l bs).
Proof.
  induction bs as [|b bs IH]; intros l N F; simpl; auto.
  inversion F; subst. unfold run_history in *. simpl. apply IH; auto. apply run_block_nonneg; auto.
Qed.

Lemma nonneg_empty : nonneg ∅.
Proof. intros k. unfold lget. rewrite lookup_empty. simpl. lia. Qed.

(* ---------------- C03: holdings ---------------- *)

Lemma hw_range a c k : hw a c k = 0 \/ hw a c k = 1.
Proof. unfold hw. destruct (_ && _); auto. Qed.

Lemma hw_other a c k : k_owner k <> a -> hw a c k = 0.
Proof.
  unfold hw. intros H. destruct (k_owner k =? a)%N eqn:E; [apply N.eqb_eq in E; congruence|reflexivity].
Qed.

Lemma inb_In a l : inb a l = true <-> In a l.
Proof.
  unfold inb. rewrite existsb_exists. split.
  - intros [x [H1 H2]]. apply N.eqb_eq in H2. subst. auto.
  - intros H. exists a. split; auto. apply N.eqb_refl.
Qed.

Lemma op_not_debited a c o : ~ In a (op_debited o) -> 0 <= op_delta (hw a c) o.
Proof.
  destruct o as [s d v|s v|d v]; simpl; intros H.
  - destruct (0 <? v) eqn:P.
    + assert (k_owner s <> a) by (intros E; apply H; simpl; auto).
      rewrite (hw_other a c s); auto. destruct (hw_range a c d) as [->| ->]; lia.
    + destruct (v <? 0) eqn:Q.
      * assert (k_owner d <> a) by (intros E; apply H; simpl; auto).
        rewrite (hw_other a c d); auto. destruct (hw_range a c s) as [->| ->]; lia.
      * assert (v = 0) by lia. subst. lia.
  - destruct (0 <? v) eqn:P.
    + assert (k_owner s <> a) by (intros E; apply H; simpl; auto).
      rewrite (hw_other a c s); auto. lia.
    + destruct (hw_range a c s) as [->| ->]; lia.
  - destruct (v <? 0) eqn:Q.
    + assert (k_owner d <> a) by (intros E; apply H; simpl; auto).
      rewrite (hw_other a c d); auto. lia.
    + destruct (hw_range a c d) as [->| ->]; lia.
Qed.

Lemma ops_not_debited a c ops : ~ In a (debited ops) -> 0 <= ops_delta (hw a c) ops.
Proof.
  induction ops as [|o ops IH]; simpl; [lia|]. intros H.
  unfold debited in H. simpl in H. rewrite in_app_iff in H.
  assert (0 <= op_delta (hw a c) o) by (apply op_not_debited; tauto).
  assert (0 <= ops_delta (hw a c) ops) by (apply IH; unfold debited; tauto). lia.
Qed.

(* the holdings of an account that no operation of the list takes from do not decrease *)
Lemma run_tx_holdings a c l ops : ~ In a (debited ops) -> holdings a c l <= holdings a c (run_tx l ops).
Proof.
  intros H. destruct (run_tx_cases l ops) as [[-> _]|[l' [E ->]]]; [lia|].
  unfold holdings. rewrite (apply_ops_delta _ _ _ _ E). pose proof (ops_not_debited a c ops H). lia.
Qed.

Lemma run_tx_debit_needs_source a c l ops : holdings a c (run_tx l ops) < holdings a c l -> In a (debited ops).
Proof.
  intros H. destruct (in_dec N.eq_dec a (debited ops)) as [I|I]; auto.
  pose proof (run_tx_holdings a c l ops I). lia.
Qed.

Lemma run_block_debit_needs_source a c txs : forall l,
  holdings a c (run_block l txs) < holdings a c l -> exists ops, In ops txs /\ In a (debited ops).
Proof.
  induction txs as [|ops txs IH]; intros l; unfold run_block in *; simpl; [lia|].
  intros H. destruct (in_dec N.eq_dec a (debited ops)) as [I|I].
  - exists ops. auto.
  - pose proof (run_tx_holdings a c l ops I).
    destruct (IH (run_tx l ops)) as [o [H1 H2]]; [lia|]. exists o. auto.
Qed.

Lemma run_history_debit_needs_source a c bs : forall l,
  holdings a c (run_history l bs) < holdings a c l ->
  exists b ops, In b bs /\ In ops b /\ In a (debited ops).
Proof.
  induction bs as [|b bs IH]; intros l; unfold run_history in *; simpl; [lia|].
  intros H. destruct (Z_lt_ge_dec (holdings a c (run_block l b)) (holdings a c l)) as [L|G].
  - destruct (run_block_debit_needs_source a c b l L) as [ops [H1 H2]]. exists b, ops. auto.
  - destruct (IH (run_block l b)) as [b' [ops [H1 [H2 H3]]]]; [lia|]. exists b', ops. auto.
Qed.

(* movements between an owner's own records change nobody's holdings *)
Lemma own_move_neutral a c o : own_move o = true -> op_delta (hw a c) o = 0.
Proof.
  destruct o as [s d v|s v|d v]; simpl; try discriminate. intros H.
  apply andb_true_iff in H as [H H4]. apply andb_true_iff in H as [H H3]. apply andb_true_iff in H as [H1 H2].
  apply N.eqb_eq in H1, H2. unfold hw. rewrite H1, H2, H3, H4. lia.
Qed.

Lemma own_moves_neutral a c ops : forallb own_move ops = true -> ops_delta (hw a c) ops = 0.
Proof.
  induction ops as [|o ops IH]; simpl; [lia|]. intros H. apply andb_true_iff in H as [H1 H2].
  rewrite (own_move_neutral a c o H1), (IH H2). lia.
Qed.

Lemma run_tx_own_moves a c l ops : forallb own_move ops = true -> holdings a c (run_tx l ops) = holdings a c l.
Proof.
  intros H. destruct (run_tx_cases l ops) as [[-> _]|[l' [E ->]]]; [lia|].
  unfold holdings. rewrite (apply_ops_delta _ _ _ _ E), (own_moves_neutral a c ops H). lia.
Qed.

(* an own-move list is also conservative for the chain total when it stays within the counted buckets *)
Lemma subsetb_In a b : subsetb a b = true -> forall x, In x a -> In x b.
Proof.
  unfold subsetb. rewrite forallb_forall. intros H x I. apply inb_In. auto.
Qed.
