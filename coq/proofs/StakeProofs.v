(* StakeProofs.v — lemmas and proofs about Stake.v (property C11). *)
From stdpp Require Import gmap list.
Require Import ZArith Lia.
From OL Require Import theories.Stake.
Open Scope Z_scope.

(* ---------- generic: weighted sum over a gmap ---------- *)
Section msum.
  Context {K A : Type} `{Countable K}.
  Variable w : K -> A -> Z.

  Lemma msum_empty : msum w (∅ : gmap K A) = 0.
  Proof. unfold msum. apply map_fold_empty. Qed.

  Lemma msum_insert_fresh (m : gmap K A) k x :
    m !! k = None -> msum w (<[k := x]> m) = w k x + msum w m.
  Proof.
    intros Hn. unfold msum.
    apply (map_fold_insert_L (fun k x acc => w k x + acc)); [| exact Hn].
    intros. lia.
  Qed.

  Definition wget (m : gmap K A) (k : K) : Z := match m !! k with Some y => w k y | None => 0 end.

  Lemma msum_insert (m : gmap K A) k x :
    msum w (<[k := x]> m) = msum w m + w k x - wget m k.
  Proof.
    unfold wget. destruct (m !! k) as [y|] eqn:E.
    - rewrite <- (insert_delete m k y E) at 2.
      rewrite <- (insert_delete_insert m k x).
      rewrite !msum_insert_fresh by apply lookup_delete. lia.
    - rewrite msum_insert_fresh by exact E. lia.
  Qed.

  Lemma msum_nonneg (m : gmap K A) : (forall k x, m !! k = Some x -> 0 <= w k x) -> 0 <= msum w m.
  Proof.
    induction m as [|k x m Hk IH] using map_ind; intros Hall.
    - rewrite msum_empty. lia.
    - rewrite msum_insert_fresh by exact Hk.
      assert (0 <= w k x) by (apply Hall; apply lookup_insert).
      assert (0 <= msum w m).
      { apply IH. intros k' x' E. apply Hall. rewrite lookup_insert_ne; [exact E|].
        intros ->. rewrite Hk in E. discriminate. }
      lia.
  Qed.
End msum.

Lemma zget_zadd {K} `{Countable K} (m : gmap K Z) k z k' :
  zget (zadd k z m) k' = if decide (k = k') then zget m k + z else zget m k'.
Proof.
  unfold zadd, zget at 1. destruct (decide (k = k')) as [->|Hne].
  - rewrite lookup_insert. reflexivity.
  - rewrite lookup_insert_ne by exact Hne. reflexivity.
Qed.

Lemma msum_zadd {K} `{Countable K} (P : K -> bool) (m : gmap K Z) k a :
  msum (fun k x => if P k then x else 0) (zadd k a m) = msum (fun k x => if P k then x else 0) m + (if P k then a else 0).
Proof.
  unfold zadd. rewrite msum_insert. unfold wget, zget.
  destruct (m !! k); simpl; destruct (P k); lia.
Qed.

(* ---------- C11_validator_total : the sum invariant ---------- *)
Definition sums_ok (s : state) : Prop :=
  (forall v, zget (vtot s) v = esum_v s v) /\ (forall d, zget (deff s) d = esum_d s d).

Lemma sums_ok_ext s s' :
  eff s' = eff s -> vtot s' = vtot s -> deff s' = deff s -> sums_ok s -> sums_ok s'.
Proof.
  intros E1 E2 E3 [Hv Hd]. unfold sums_ok, esum_v, esum_d. rewrite E1, E2, E3. split; assumption.
Qed.

Lemma sums_ok_delta s s' v d a :
  eff s' = zadd (v, d) a (eff s) -> vtot s' = zadd v a (vtot s) -> deff s' = zadd d a (deff s) ->
  sums_ok s -> sums_ok s'.
Proof.
  intros E1 E2 E3 [Hv Hd]. unfold sums_ok, esum_v, esum_d in *. rewrite E1, E2, E3. split.
  - intros v'. rewrite zget_zadd, (msum_zadd (fun k => Pos.eqb (fst k) v')). simpl.
    rewrite <- Hv. destruct (decide (v = v')) as [->|Hne].
    + rewrite Pos.eqb_refl. lia.
    + destruct (Pos.eqb_spec v v'); [contradiction|]. lia.
  - intros d'. rewrite zget_zadd, (msum_zadd (fun k => Pos.eqb (snd k) d')). simpl.
    rewrite <- Hd. destruct (decide (d = d')) as [->|Hne].
    + rewrite Pos.eqb_refl. lia.
    + destruct (Pos.eqb_spec d d'); [contradiction|]. lia.
Qed.

Lemma sums_ok_empty : sums_ok empty_state.
Proof.
  split; intros; unfold esum_v, esum_d; simpl; rewrite msum_empty; reflexivity.
Qed.

Lemma minus3_cases s v d a :
  (minus3 s v d a = (s, 0%nat)) \/
  (exists s1, minus3 s v d a = (s1, 1%nat)) \/
  (exists s2, minus3 s v d a = (s2, 2%nat)) \/
  (exists s3, minus3 s v d a = (s3, 3%nat) /\
     eff s3 = zadd (v, d) (- a) (eff s) /\ vtot s3 = zadd v (- a) (vtot s) /\ deff s3 = zadd d (- a) (deff s) /\
     dbnd s3 = dbnd s /\ mat s3 = mat s /\ vrecs s3 = vrecs s /\ vprev s3 = vprev s /\ pend s3 = pend s /\
     g_staked s3 = g_staked s /\ g_withdrawn s3 = g_withdrawn s /\ g_pen s3 = g_pen s /\ g_in s3 = g_in s /\ g_out s3 = g_out s /\
     0 <= zget (deff s) d - a).
Proof.
  unfold minus3.
  destruct (zget (vtot s) v - a <? 0); [left; reflexivity|].
  destruct (zget (eff s) (v, d) - a <? 0); [right; left; eexists; reflexivity|].
  destruct (zget (deff s) d - a <? 0) eqn:E; [right; right; left; eexists; reflexivity|].
  right; right; right. eexists. split; [reflexivity|]. simpl. repeat split; try reflexivity. lia.
Qed.

Lemma sums_ok_stake s v d a fz bal h m pb ff : sums_ok s -> sums_ok (fst (do_stake s v d a fz bal h m pb ff)).
Proof.
  intros Hs. unfold do_stake.
  destruct fz; [exact Hs|]. destruct (stake_update s v d h m); [|exact Hs].
  destruct (bal - debit_of a <? 0); [exact Hs|]. destruct pb; [exact Hs|]. destruct ff; [exact Hs|].
  simpl. eapply (sums_ok_delta s _ v d a); try reflexivity. exact Hs.
Qed.

Lemma sums_ok_unstake s v d a fz ro h m pb ff : sums_ok s -> sums_ok (fst (do_unstake s v d a fz ro h m pb ff)).
Proof.
  intros Hs. unfold do_unstake.
  destruct fz; [exact Hs|]. destruct ro; [exact Hs|].
  destruct (minus3_cases s v d a) as [E|[[s1 E]|[[s1 E]|[s3 [E (E1 & E2 & E3 & _)]]]]]; rewrite E; try exact Hs.
  destruct (vrecs s !! v); [|exact Hs]. destruct pb; [exact Hs|]. destruct ff; [exact Hs|].
  simpl. eapply (sums_ok_delta s _ v d (- a)); simpl; try eassumption.
Qed.

Lemma sums_ok_withdraw s v d a fz ff : sums_ok s -> sums_ok (fst (do_withdraw s v d a fz ff)).
Proof.
  intros Hs. unfold do_withdraw.
  destruct fz; [exact Hs|]. destruct (zget (dbnd s) d - a <? 0); [exact Hs|]. destruct ff; [exact Hs|].
  simpl. eapply sums_ok_ext; [| | |exact Hs]; reflexivity.
Qed.

Lemma sums_ok_verdict s e : verdict_atomic s e = true -> sums_ok s -> sums_ok (verdict s e).
Proof.
  destruct e as [[v pct] dec]. unfold verdict_atomic, verdict. intros Ha Hs.
  destruct (vprev s !! v) as [r|]; [|exact Hs].
  set (p := penalty_amount (zget (vtot s) v) pct dec) in *.
  destruct (minus3_cases s v (vr_saddr r) p) as [E|[[s1 E]|[[s1 E]|[s3 [E (E1 & E2 & E3 & _)]]]]];
    rewrite E in *; simpl in Ha; try discriminate.
  - simpl. eapply sums_ok_ext; [| | |exact Hs]; reflexivity.
  - simpl. eapply (sums_ok_delta s _ v (vr_saddr r) (- p)); simpl; try eassumption.
Qed.

Lemma sums_ok_verdicts vs : forall s, verdicts_atomic s vs = true -> sums_ok s -> sums_ok (fold_left verdict vs s).
Proof.
  induction vs as [|e vs IH]; intros s Ha Hs; simpl in *; [exact Hs|].
  apply andb_true_iff in Ha as [H1 H2]. apply IH; [exact H2|]. apply sums_ok_verdict; assumption.
Qed.

Lemma sums_ok_step s o : trig_penalty_not_atomic s o = false -> sums_ok s -> sums_ok (fst (step s o)).
Proof.
  intros Ht Hs. destruct o; simpl.
  - apply sums_ok_stake; exact Hs.
  - apply sums_ok_unstake; exact Hs.
  - apply sums_ok_withdraw; exact Hs.
  - eapply sums_ok_ext; [| | |exact Hs]; reflexivity.
  - unfold do_end. simpl in Ht. destruct (h <=? 1) eqn:Eh.
    + eapply sums_ok_ext; [| | |exact Hs]; reflexivity.
    + assert (1 <? h = true) as Eh' by lia. rewrite Eh' in Ht. simpl in Ht.
      apply negb_false_iff in Ht.
      eapply sums_ok_ext; [reflexivity|reflexivity|reflexivity|].
      apply sums_ok_verdicts; [exact Ht|].
      eapply sums_ok_ext; [| | |exact Hs]; reflexivity.
  - unfold do_genstake. eapply (sums_ok_delta s _ v d a); try reflexivity. exact Hs.
  - eapply sums_ok_ext; [| | |exact Hs]; reflexivity.
Qed.

Lemma sums_ok_run os : forall s, guarded trig_penalty_not_atomic s os = true -> sums_ok s -> sums_ok (run s os).
Proof.
  induction os as [|o os IH]; intros s Hg Hs; simpl in *; [exact Hs|].
  apply andb_true_iff in Hg as [H1 H2]. apply negb_true_iff in H1.
  apply IH; [exact H2|]. apply sums_ok_step; assumption.
Qed.

Theorem validator_total_partial os :
  guarded trig_penalty_not_atomic empty_state os = true ->
  let s := run empty_state os in
  (forall v, zget (vtot s) v = esum_v s v) /\ (forall d, zget (deff s) d = esum_d s d).
Proof. intros Hg. apply sums_ok_run; [exact Hg|apply sums_ok_empty]. Qed.

(* ---------- C11_frozen ---------- *)
Theorem frozen_no_effect s v d a bal h m ro pb ff :
  step s (OStake v d a true bal h m pb ff) = (s, false) /\
  step s (OUnstake v d a true ro h m pb ff) = (s, false) /\
  step s (OWithdraw v d a true ff) = (s, false).
Proof. repeat split. Qed.

(* ---------- C11_maturity (step level) ---------- *)
(* a successful UNSTAKE at height h with maturity option m creates exactly one entry, at h + m,
   and leaves the withdrawable amounts alone *)
Theorem unstake_entry s v d a ro h m pb ff s' :
  step s (OUnstake v d a false ro h m pb ff) = (s', true) ->
  mat s' = <[h + m := mat_at s (h + m) ++ [(d, a)]]> (mat s) /\ dbnd s' = dbnd s.
Proof.
  simpl. unfold do_unstake. destruct ro; [discriminate|].
  destruct (minus3_cases s v d a) as [E|[[s1 E]|[[s1 E]|[s3 [E (_ & _ & _ & Eb & Em & _)]]]]]; rewrite E; try discriminate.
  destruct (vrecs s !! v); [|discriminate]. destruct pb; [discriminate|]. destruct ff; [discriminate|].
  intros Heq. inversion Heq; subst; clear Heq. simpl. unfold mat_at. simpl. rewrite Em, Eb. split; reflexivity.
Qed.

(* outside the end-block hook the withdrawable amount of nobody grows, for non-negative amounts *)
Theorem withdrawable_not_growing_in_tx s o d' :
  trig_negative o = false ->
  match o with OStake _ _ _ _ _ _ _ _ _ | OUnstake _ _ _ _ _ _ _ _ _ | OWithdraw _ _ _ _ _ | OBegin _ => True | _ => False end ->
  zget (dbnd (fst (step s o))) d' <= zget (dbnd s) d'.
Proof.
  intros Hn Hk. destruct o; try contradiction; simpl.
  - unfold do_stake. destruct frozen; [simpl; lia|]. destruct (stake_update s v d h m); [|simpl; lia].
    destruct (bal - debit_of a <? 0); [simpl; lia|]. destruct purge_block; [simpl; lia|]. destruct fee_fail; simpl; lia.
  - unfold do_unstake. destruct frozen; [simpl; lia|]. destruct req_open; [simpl; lia|].
    destruct (minus3_cases s v d a) as [E|[[s1 E]|[[s1 E]|[s3 [E (_ & _ & _ & Eb & _)]]]]]; rewrite E; try (simpl; lia).
    destruct (vrecs s !! v); [|simpl; lia]. destruct purge_block; [simpl; lia|]. destruct fee_fail; simpl; [lia|]. rewrite Eb. lia.
  - unfold do_withdraw. destruct frozen; [simpl; lia|]. destruct (zget (dbnd s) d - a <? 0); [simpl; lia|].
    destruct fee_fail; simpl; [lia|]. unfold trig_negative in Hn. simpl in Hn.
    rewrite zget_zadd. destruct (decide (d = d')) as [->|]; lia.
  - lia.
Qed.
