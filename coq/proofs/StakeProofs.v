(* StakeProofs.v — lemmas and proofs about Stake.v (property C11). *)
From stdpp Require Import gmap list.
Require Import ZArith Lia.
From OL Require Import theories.Stake.
Open Scope Z_scope.

(* ---------- generic: weighted sum over a gmap ---------- *)
Section msum.
  Context {K A : Type} `{Countable K}.
  Variable w : K -> A -> Z.

  Lemma msum_empty : msum w (∅ : gmap K A) = 0.
  Proof. unfold msum. apply map_fold_empty. Qed.

  Lemma msum_insert_fresh (m : gmap K A) k x :
    m !! k = None -> msum w (<[k := x]> m) = w k x + msum w m.
  Proof.
    intros Hn. unfold msum.
    apply (map_fold_insert_L (fun k x acc => w k x + acc)); [| exact Hn].
    intros. lia.
  Qed.

  Definition wget (m : gmap K A) (k : K) : Z := match m !! k with Some y => w k y | None => 0 end.

  Lemma msum_insert (m : gmap K A) k x :
    msum w (<[k := x]> m) = msum w m + w k x - wget m k.
  Proof.
    unfold wget. destruct (m !! k) as [y|] eqn:E.
    - rewrite <- (insert_delete m k y E) at 2.
      rewrite <- (insert_delete_insert m k x).
      rewrite !msum_insert_fresh by apply lookup_delete. lia.
    - rewrite msum_insert_fresh by exact E. lia.
  Qed.

  Lemma msum_nonneg (m : gmap K A) : (forall k x, m !! k = Some x -> 0 <= w k x) -> 0 <= msum w m.
  Proof.
    induction m as [|k x m Hk IH] using map_ind; intros Hall.
    - rewrite msum_empty. lia.
    - rewrite msum_insert_fresh by exact Hk.
      assert (0 <= w k x) by (apply Hall; apply lookup_insert).
      assert (0 <= msum w m).
      { apply IH. intros k' x' E. apply Hall. rewrite lookup_insert_ne; [exact E|].
        intros ->. rewrite Hk in E. discriminate. }
      lia.
  Qed.
End msum.

Lemma zget_zadd {K} `{Countable K} (m : gmap K Z) k z k' :
  zget (zadd k z m) k' = if decide (k = k') then zget m k + z else zget m k'.
Proof.
  unfold zadd, zget at 1. destruct (decide (k = k')) as [->|Hne].
  - rewrite lookup_insert. reflexivity.
  - rewrite lookup_insert_ne by exact Hne. reflexivity.
Qed.

Lemma msum_zadd {K} `{Countable K} (P : K -> bool) (m : gmap K Z) k a :
  msum (fun k x => if P k then x else 0) (zadd k a m) = msum (fun k x => if P k then x else 0) m + (if P k then a else 0).
Proof.
  unfold zadd. rewrite msum_insert. unfold wget, zget.
  destruct (m !! k); simpl; destruct (P k); lia.
Qed.

(* ---------- C11_validator_total : the sum invariant ---------- *)
Definition sums_ok (s : state) : Prop :=
  (forall v, zget (vtot s) v = esum_v s v) /\ (forall d, zget (deff s) d = esum_d s d).

Lemma sums_ok_ext s s' :
  eff s' = eff s -> vtot s' = vtot s -> deff s' = deff s -> sums_ok s -> sums_ok s'.
Proof.
  intros E1 E2 E3 [Hv Hd]. unfold sums_ok, esum_v, esum_d. rewrite E1, E2, E3. split; assumption.
Qed.

Lemma sums_ok_delta s s' v d a :
  eff s' = zadd (v, d) a (eff s) -> vtot s' = zadd v a (vtot s) -> deff s' = zadd d a (deff s) ->
  sums_ok s -> sums_ok s'.
Proof.
  intros E1 E2 E3 [Hv Hd]. unfold sums_ok, esum_v, esum_d in *. rewrite E1, E2, E3. split.
  - intros v'. rewrite zget_zadd, (msum_zadd (fun k => Pos.eqb (fst k) v')). simpl.
    rewrite <- Hv. destruct (decide (v = v')) as [->|Hne].
    + rewrite Pos.eqb_refl. lia.
    + destruct (Pos.eqb_spec v v'); [contradiction|]. lia.
  - intros d'. rewrite zget_zadd, (msum_zadd (fun k => Pos.eqb (snd k) d')). simpl.
    rewrite <- Hd. destruct (decide (d = d')) as [->|Hne].
    + rewrite Pos.eqb_refl. lia.
    + destruct (Pos.eqb_spec d d'); [contradiction|]. lia.
Qed.

Lemma sums_ok_empty : sums_ok empty_state.
Proof.
  split; intros; unfold esum_v, esum_d; simpl; rewrite msum_empty; reflexivity.
Qed.

Lemma minus3_cases s v d a :
  (minus3 s v d a = (s, 0%nat)) \/
  (exists s1, minus3 s v d a = (s1, 1%nat)) \/
  (exists s2, minus3 s v d a = (s2, 2%nat)) \/
  (exists s3, minus3 s v d a = (s3, 3%nat) /\
     eff s3 = zadd (v, d) (- a) (eff s) /\ vtot s3 = zadd v (- a) (vtot s) /\ deff s3 = zadd d (- a) (deff s) /\
     dbnd s3 = dbnd s /\ mat s3 = mat s /\ vrecs s3 = vrecs s /\ vprev s3 = vprev s /\ pend s3 = pend s /\
     g_staked s3 = g_staked s /\ g_withdrawn s3 = g_withdrawn s /\ g_pen s3 = g_pen s /\ g_in s3 = g_in s /\ g_out s3 = g_out s /\
     0 <= zget (deff s) d - a).
Proof.
  unfold minus3.
  destruct (zget (vtot s) v - a <? 0) eqn:E1; [left; reflexivity|].
  destruct (zget (eff s) (v, d) - a <? 0) eqn:E2; [left; reflexivity|].
  destruct (zget (deff s) d - a <? 0) eqn:E3; [left; reflexivity|].
  right; right; right. eexists. split; [reflexivity|]. simpl. repeat split; try reflexivity. lia.
Qed.

Lemma sums_ok_stake s v d a fz bal h m pb ff : sums_ok s -> sums_ok (fst (do_stake s v d a fz bal h m pb ff)).
Proof.
  intros Hs. unfold do_stake. destruct (negb (validate_stake a bal)); [exact Hs|]. destruct (negb (amount_ok a)); [exact Hs|].
  destruct fz; [exact Hs|]. destruct (stake_update s v d h m); [|exact Hs].
  destruct (bal - debit_of a <? 0); [exact Hs|]. destruct pb; [exact Hs|]. destruct ff; [exact Hs|].
  simpl. eapply (sums_ok_delta s _ v d a); try reflexivity. exact Hs.
Qed.

Lemma sums_ok_unstake s v d a fz ro h m pb ff : sums_ok s -> sums_ok (fst (do_unstake s v d a fz ro h m pb ff)).
Proof.
  intros Hs. unfold do_unstake. destruct (negb (validate_unstake s v d a)); [exact Hs|]. destruct (negb (amount_ok a)); [exact Hs|].
  destruct fz; [exact Hs|]. destruct ro; [exact Hs|].
  destruct (minus3_cases s v d a) as [E|[[s1 E]|[[s1 E]|[s3 [E (E1 & E2 & E3 & _)]]]]]; rewrite E; try exact Hs.
  destruct (vrecs s !! v) as [r0|]; [|exact Hs]. destruct (vr_staking r0 - a <? 0); [exact Hs|]. destruct pb; [exact Hs|]. destruct ff; [exact Hs|].
  simpl. eapply (sums_ok_delta s _ v d (- a)); simpl; try eassumption.
Qed.

Lemma sums_ok_withdraw s v d a fz ff : sums_ok s -> sums_ok (fst (do_withdraw s v d a fz ff)).
Proof.
  intros Hs. unfold do_withdraw. destruct (negb (validate_unstake s v d a)); [exact Hs|]. destruct (negb (amount_ok a)); [exact Hs|].
  destruct fz; [exact Hs|]. destruct (zget (dbnd s) d - a <? 0); [exact Hs|]. destruct ff; [exact Hs|].
  simpl. eapply sums_ok_ext; [| | |exact Hs]; reflexivity.
Qed.

Lemma sums_ok_verdict s e : verdict_atomic s e = true -> sums_ok s -> sums_ok (verdict s e).
Proof.
  destruct e as [[v pct] dec]. unfold verdict_atomic, verdict. intros Ha Hs.
  destruct (vprev s !! v) as [r|]; [|exact Hs].
  set (p := penalty_amount (zget (vtot s) v) pct dec) in *.
  destruct (minus3_cases s v (vr_saddr r) p) as [E|[[s1 E]|[[s1 E]|[s3 [E (E1 & E2 & E3 & _)]]]]];
    rewrite E in *; simpl in Ha; try discriminate.
  - simpl. eapply sums_ok_ext; [| | |exact Hs]; reflexivity.
  - simpl. eapply (sums_ok_delta s _ v (vr_saddr r) (- p)); simpl; try eassumption.
Qed.

Lemma sums_ok_verdicts vs : forall s, verdicts_atomic s vs = true -> sums_ok s -> sums_ok (fold_left verdict vs s).
Proof.
  induction vs as [|e vs IH]; intros s Ha Hs; simpl in *; [exact Hs|].
  apply andb_true_iff in Ha as [H1 H2]. apply IH; [exact H2|]. apply sums_ok_verdict; assumption.
Qed.

Lemma verdict_atomic_true s e : verdict_atomic s e = true.
Proof.
  destruct e as [[v pct] dec]. unfold verdict_atomic. destruct (vprev s !! v) as [r|]; [|reflexivity].
  unfold minus3. destruct (_ || _ || _); reflexivity.
Qed.

Lemma verdicts_atomic_true vs : forall s, verdicts_atomic s vs = true.
Proof. induction vs as [|e vs IH]; intros s; simpl; [reflexivity|]. rewrite verdict_atomic_true, IH. reflexivity. Qed.

Lemma sums_ok_step s o : sums_ok s -> sums_ok (fst (step s o)).
Proof.
  intros Hs. destruct o; simpl.
  - apply sums_ok_stake; exact Hs.
  - apply sums_ok_unstake; exact Hs.
  - apply sums_ok_withdraw; exact Hs.
  - eapply sums_ok_ext; [| | |exact Hs]; reflexivity.
  - unfold do_end. destruct (h <=? 1) eqn:Eh.
    + eapply sums_ok_ext; [| | |exact Hs]; reflexivity.
    + eapply sums_ok_ext; [reflexivity|reflexivity|reflexivity|].
      apply sums_ok_verdicts; [apply verdicts_atomic_true|].
      eapply sums_ok_ext; [| | |exact Hs]; reflexivity.
  - unfold do_genstake. eapply (sums_ok_delta s _ v d a); try reflexivity. exact Hs.
  - eapply sums_ok_ext; [| | |exact Hs]; reflexivity.
Qed.

Lemma sums_ok_run os : forall s, sums_ok s -> sums_ok (run s os).
Proof.
  induction os as [|o os IH]; intros s Hs; simpl in *; [exact Hs|].
  apply IH. apply sums_ok_step; assumption.
Qed.

(* since fix cb71748 (atomic penalty) for EVERY history, without any guard *)
Theorem validator_total os :
  let s := run empty_state os in
  (forall v, zget (vtot s) v = esum_v s v) /\ (forall d, zget (deff s) d = esum_d s d).
Proof. apply sums_ok_run. apply sums_ok_empty. Qed.

(* ---------- C11_frozen ---------- *)
Theorem frozen_no_effect s v d a bal h m ro pb ff :
  step s (OStake v d a true bal h m pb ff) = (s, false) /\
  step s (OUnstake v d a true ro h m pb ff) = (s, false) /\
  step s (OWithdraw v d a true ff) = (s, false).
Proof.
  simpl. unfold do_stake, do_unstake, do_withdraw.
  destruct (negb (validate_stake a bal)), (negb (validate_unstake s v d a)), (negb (amount_ok a)); repeat split.
Qed.

(* ---------- C11_maturity (step level) ---------- *)
(* a successful UNSTAKE at height h with maturity option m creates exactly one entry, at h + m,
   and leaves the withdrawable amounts alone *)
Theorem unstake_entry s v d a ro h m pb ff s' :
  step s (OUnstake v d a false ro h m pb ff) = (s', true) ->
  mat s' = <[h + m := mat_at s (h + m) ++ [(d, a)]]> (mat s) /\ dbnd s' = dbnd s.
Proof.
  simpl. unfold do_unstake. destruct (negb (validate_unstake s v d a)); [discriminate|]. destruct (negb (amount_ok a)); [discriminate|]. destruct ro; [discriminate|].
  destruct (minus3_cases s v d a) as [E|[[s1 E]|[[s1 E]|[s3 [E (_ & _ & _ & Eb & Em & _)]]]]]; rewrite E; try discriminate.
  destruct (vrecs s !! v) as [r0|]; [|discriminate]. destruct (vr_staking r0 - a <? 0); [discriminate|]. destruct pb; [discriminate|]. destruct ff; [discriminate|].
  intros Heq. inversion Heq; subst; clear Heq. simpl. unfold mat_at. simpl. rewrite Em, Eb. split; reflexivity.
Qed.

(* outside the end-block hook the withdrawable amount of nobody grows (since fix 48c76fc without
   any condition on the amounts: negative amounts are rejected by the handlers) *)
Theorem withdrawable_not_growing_in_tx s o d' :
  match o with OStake _ _ _ _ _ _ _ _ _ | OUnstake _ _ _ _ _ _ _ _ _ | OWithdraw _ _ _ _ _ | OBegin _ => True | _ => False end ->
  zget (dbnd (fst (step s o))) d' <= zget (dbnd s) d'.
Proof.
  intros Hk. destruct o; try contradiction; simpl.
  - unfold do_stake. destruct (negb (validate_stake a bal)); [simpl; lia|]. destruct (negb (amount_ok a)); [simpl; lia|].
    destruct frozen; [simpl; lia|]. destruct (stake_update s v d h m); [|simpl; lia].
    destruct (bal - debit_of a <? 0); [simpl; lia|]. destruct purge_block; [simpl; lia|]. destruct fee_fail; simpl; lia.
  - unfold do_unstake. destruct (negb (validate_unstake s v d a)); [simpl; lia|]. destruct (negb (amount_ok a)); [simpl; lia|].
    destruct frozen; [simpl; lia|]. destruct req_open; [simpl; lia|].
    destruct (minus3_cases s v d a) as [E|[[s1 E]|[[s1 E]|[s3 [E (_ & _ & _ & Eb & _)]]]]]; rewrite E; try (simpl; lia).
    destruct (vrecs s !! v) as [r0|]; [|simpl; lia]. destruct (vr_staking r0 - a <? 0); [simpl; lia|]. destruct purge_block; [simpl; lia|]. destruct fee_fail; simpl; [lia|]. rewrite Eb. lia.
  - unfold do_withdraw. destruct (negb (validate_unstake s v d a)); [simpl; lia|]. destruct (negb (amount_ok a)) eqn:Ea; [simpl; lia|].
    destruct frozen; [simpl; lia|]. destruct (zget (dbnd s) d - a <? 0); [simpl; lia|].
    destruct fee_fail; simpl; [lia|]. unfold amount_ok in Ea.
    rewrite zget_zadd. destruct (decide (d = d')) as [->|]; lia.
  - lia.
Qed.

(* amounts outside [0, 2^63) are rejected by all three handlers (fix 48c76fc) *)
Theorem out_of_range_rejected s v d a fz bal h m ro pb ff :
  amount_ok a = false ->
  step s (OStake v d a fz bal h m pb ff) = (s, false) /\
  step s (OUnstake v d a fz ro h m pb ff) = (s, false) /\
  step s (OWithdraw v d a fz ff) = (s, false).
Proof.
  intros Ha. simpl. unfold do_stake, do_unstake, do_withdraw. rewrite Ha. simpl.
  destruct (negb (validate_stake a bal)), (negb (validate_unstake s v d a)); repeat split.
Qed.

(* ---------- C11_withdraw_bounded : conservation + non-negativity, all histories ---------- *)
Definition conserved (s : state) : Prop :=
  forall d, zget (g_staked s) d - zget (g_pen s) d - zget (g_withdrawn s) d
            = zget (deff s) d + zget (dbnd s) d + maturing s d.
Definition nonneg (s : state) : Prop :=
  (forall d, 0 <= zget (deff s) d) /\ (forall d, 0 <= zget (dbnd s) d) /\
  (forall h l, mat s !! h = Some l -> Forall (fun e => 0 <= e.2) l).
Definition base_ok (s : state) : Prop :=
  forall d, zget (g_in s) d = zget (g_staked s) d * base /\ zget (g_out s) d = zget (g_withdrawn s) d * base.
Definition inv (s : state) : Prop := conserved s /\ nonneg s /\ base_ok s.

Lemma entries_of_app l d a d' :
  entries_of (l ++ [(d, a)]) d' = entries_of l d' + (if Pos.eqb d d' then a else 0).
Proof.
  induction l as [|[ed ea] l IH]; simpl.
  - destruct (Pos.eqb d d'); lia.
  - rewrite IH. destruct (Pos.eqb ed d'), (Pos.eqb d d'); lia.
Qed.

Lemma entries_of_nonneg l d : Forall (fun e => 0 <= e.2) l -> 0 <= entries_of l d.
Proof.
  induction 1 as [|[ed ea] l He Hl IH]; simpl in *; [lia|]. destruct (Pos.eqb ed d); lia.
Qed.

Lemma maturing_insert (m : gmap Z (list (addr * Z))) k l d :
  msum (fun (_ : Z) l => entries_of l d) (<[k := l]> m)
  = msum (fun (_ : Z) l => entries_of l d) m + entries_of l d - entries_of (default [] (m !! k)) d.
Proof. rewrite msum_insert. unfold wget. destruct (m !! k); simpl; lia. Qed.

Lemma maturing_nonneg s d : nonneg s -> 0 <= maturing s d.
Proof.
  intros (_ & _ & Hm). unfold maturing. apply msum_nonneg. intros k l E. apply entries_of_nonneg. eapply Hm; exact E.
Qed.

Lemma credit_sum es b d : zget (foldr credit_entry b es) d = zget b d + entries_of es d.
Proof.
  induction es as [|[ed ea] es IH]; simpl; [lia|]. unfold credit_entry at 1. simpl. destruct (ea =? 0) eqn:E.
  - apply Z.eqb_eq in E. rewrite IH. destruct (Pos.eqb ed d); lia.
  - rewrite zget_zadd. destruct (decide (ed = d)) as [->|Hne].
    + rewrite Pos.eqb_refl, IH. lia.
    + destruct (Pos.eqb_spec ed d); [contradiction|]. rewrite IH. lia.
Qed.

Lemma wrap64_small a : amount_ok a = true -> wrap64 a = a.
Proof.
  unfold amount_ok, wrap64. intros Ha. apply andb_true_iff in Ha as [H1 H2].
  assert (2 ^ 63 = 9223372036854775808) as E63 by reflexivity.
  assert (2 ^ 64 = 18446744073709551616) as E64 by reflexivity.
  rewrite E63 in *. rewrite E64. rewrite Z.mod_small by lia. lia.
Qed.

Lemma minus3_frame s v d a s1 n :
  minus3 s v d a = (s1, n) ->
  dbnd s1 = dbnd s /\ mat s1 = mat s /\ g_staked s1 = g_staked s /\ g_withdrawn s1 = g_withdrawn s /\
  g_pen s1 = g_pen s /\ g_in s1 = g_in s /\ g_out s1 = g_out s /\
  ((n <> 3%nat /\ deff s1 = deff s) \/ (n = 3%nat /\ deff s1 = zadd d (- a) (deff s) /\ 0 <= zget (deff s) d - a)).
Proof.
  unfold minus3.
  destruct (zget (vtot s) v - a <? 0) eqn:E1; [intros E; inversion E; subst; repeat split; left; split; [lia|reflexivity]|].
  destruct (zget (eff s) (v, d) - a <? 0) eqn:E2; [intros E; inversion E; subst; repeat split; left; split; [lia|reflexivity]|].
  destruct (zget (deff s) d - a <? 0) eqn:E3; [intros E; inversion E; subst; repeat split; left; split; [lia|reflexivity]|].
  intros E; inversion E; subst; simpl. repeat split. right. repeat split. lia.
Qed.

Lemma inv_empty : inv empty_state.
Proof.
  split; [|split].
  - intros d. unfold maturing. simpl. rewrite msum_empty. reflexivity.
  - split; [|split]; simpl.
    + intros d. unfold zget. rewrite lookup_empty. simpl. lia.
    + intros d. unfold zget. rewrite lookup_empty. simpl. lia.
    + intros h l E. rewrite lookup_empty in E. discriminate.
  - intros d. simpl. unfold zget. rewrite !lookup_empty. simpl. lia.
Qed.

(* framing: a state that differs only in fields the invariant does not read *)
Lemma inv_frame s s' :
  deff s' = deff s -> dbnd s' = dbnd s -> mat s' = mat s -> g_staked s' = g_staked s -> g_withdrawn s' = g_withdrawn s ->
  g_pen s' = g_pen s -> g_in s' = g_in s -> g_out s' = g_out s -> inv s -> inv s'.
Proof.
  intros E1 E2 E3 E4 E5 E6 E7 E8 (HC & HN & HB). unfold inv, conserved, nonneg, base_ok, maturing in *.
  rewrite E1, E2, E3, E4, E5, E6, E7, E8. repeat split; try apply HC; try apply HN; apply HB.
Qed.

Lemma inv_stake s v d a fz bal h m pb ff : inv s -> inv (fst (do_stake s v d a fz bal h m pb ff)).
Proof.
  intros Hs. unfold do_stake. destruct (negb (validate_stake a bal)); [exact Hs|]. destruct (amount_ok a) eqn:Ea; simpl; [|exact Hs].
  destruct fz; [exact Hs|]. destruct (stake_update s v d h m); [|exact Hs].
  destruct (bal - debit_of a <? 0); [exact Hs|]. destruct pb; [exact Hs|]. destruct ff; [exact Hs|].
  destruct Hs as (HC & (Hd & Hb & Hm) & HB). simpl.
  assert (0 <= a) by (unfold amount_ok in Ea; lia).
  assert (debit_of a = a * base) as Edeb by (unfold debit_of; rewrite wrap64_small by exact Ea; reflexivity).
  split; [|split].
  - intros d'. unfold maturing. simpl. specialize (HC d'). unfold maturing in HC.
    rewrite !zget_zadd. destruct (decide (d = d')) as [->|]; lia.
  - split; [|split]; simpl; [|exact Hb|exact Hm].
    intros d'. rewrite zget_zadd. specialize (Hd d'). destruct (decide (d = d')) as [->|]; lia.
  - intros d'. simpl. rewrite !zget_zadd, Edeb. destruct (HB d') as [B1 B2]. destruct (decide (d = d')) as [->|]; split; lia.
Qed.

Lemma inv_unstake s v d a fz ro h m pb ff : inv s -> inv (fst (do_unstake s v d a fz ro h m pb ff)).
Proof.
  intros Hs. unfold do_unstake. destruct (negb (validate_unstake s v d a)); [exact Hs|]. destruct (amount_ok a) eqn:Ea; simpl; [|exact Hs].
  destruct fz; [exact Hs|]. destruct ro; [exact Hs|].
  destruct (minus3 s v d a) as [s1 n] eqn:E. destruct (minus3_frame _ _ _ _ _ _ E) as (Fb & Fm & F1 & F2 & F3 & F4 & F5 & Fd).
  destruct n as [|[|[|[|n]]]]; try exact Hs.
  destruct (vrecs s !! v) as [r0|]; [|exact Hs]. destruct (vr_staking r0 - a <? 0); [exact Hs|]. destruct pb; [exact Hs|]. destruct ff; [exact Hs|].
  destruct Fd as [[Hn _]|(_ & Fd & Hge)]; [contradiction|].
  destruct Hs as (HC & (Hd & Hb & Hm) & HB). simpl.
  assert (0 <= a) by (unfold amount_ok in Ea; lia).
  split; [|split].
  - intros d'. unfold maturing, mat_at. simpl. rewrite maturing_insert, entries_of_app.
    rewrite Fm, Fd, Fb, F1, F2, F3. specialize (HC d'). unfold maturing in HC.
    rewrite zget_zadd. destruct (decide (d = d')) as [->|Hne].
    + rewrite Pos.eqb_refl. lia.
    + destruct (Pos.eqb_spec d d'); [contradiction|]. lia.
  - split; [|split]; simpl.
    + intros d'. rewrite Fd, zget_zadd. specialize (Hd d'). destruct (decide (d = d')) as [->|]; lia.
    + rewrite Fb. exact Hb.
    + intros k l. unfold mat_at. simpl. rewrite Fm. destruct (decide (k = h + m)) as [->|Hne].
      * rewrite lookup_insert. intros El. inversion El; subst. apply Forall_app. split.
        -- destruct (mat s !! (h + m)) as [l0|] eqn:E0; simpl; [eapply Hm; exact E0|constructor].
        -- constructor; [simpl; lia|constructor].
      * rewrite lookup_insert_ne by (intros Heq; apply Hne; symmetry; exact Heq). apply Hm.
  - intros d'. simpl. rewrite F1, F2, F4, F5. apply HB.
Qed.

Lemma inv_withdraw s v d a fz ff : inv s -> inv (fst (do_withdraw s v d a fz ff)).
Proof.
  intros Hs. unfold do_withdraw. destruct (negb (validate_unstake s v d a)); [exact Hs|]. destruct (amount_ok a) eqn:Ea; simpl; [|exact Hs].
  destruct fz; [exact Hs|]. destruct (zget (dbnd s) d - a <? 0) eqn:Eb; [exact Hs|]. destruct ff; [exact Hs|].
  destruct Hs as (HC & (Hd & Hb & Hm) & HB). simpl.
  assert (debit_of a = a * base) as Edeb by (unfold debit_of; rewrite wrap64_small by exact Ea; reflexivity).
  split; [|split].
  - intros d'. unfold maturing. simpl. specialize (HC d'). unfold maturing in HC.
    rewrite !zget_zadd. destruct (decide (d = d')) as [->|]; lia.
  - split; [|split]; simpl; [exact Hd| |exact Hm].
    intros d'. rewrite zget_zadd. specialize (Hb d'). destruct (decide (d = d')) as [->|]; lia.
  - intros d'. simpl. rewrite !zget_zadd, Edeb. destruct (HB d') as [B1 B2]. destruct (decide (d = d')) as [->|]; split; lia.
Qed.

Lemma inv_mature s h : inv s -> inv (mature s h).
Proof.
  intros (HC & (Hd & Hb & Hm) & HB). unfold mature, mat_at.
  assert (Forall (fun e => 0 <= e.2) (default [] (mat s !! h))) as Hes.
  { destruct (mat s !! h) as [l|] eqn:E; simpl; [eapply Hm; exact E|constructor]. }
  split; [|split].
  - intros d'. unfold maturing. simpl. rewrite credit_sum. specialize (HC d'). unfold maturing in HC.
    destruct (default [] (mat s !! h)) as [|e es] eqn:El.
    + simpl. lia.
    + rewrite maturing_insert, El. simpl (entries_of [] d'). lia.
  - split; [|split]; simpl; [exact Hd| |].
    + intros d'. rewrite credit_sum. specialize (Hb d'). pose proof (entries_of_nonneg _ d' Hes). lia.
    + intros k l. destruct (default [] (mat s !! h)) as [|e es]; [apply Hm|].
      destruct (decide (k = h)) as [->|Hne].
      * rewrite lookup_insert. intros El; inversion El; subst. constructor.
      * rewrite lookup_insert_ne by (intros Heq; apply Hne; symmetry; exact Heq). apply Hm.
  - exact HB.
Qed.

Lemma inv_verdict s e : inv s -> inv (verdict s e).
Proof.
  destruct e as [[v pct] dec]. unfold verdict. intros Hs.
  destruct (vprev s !! v) as [r|]; [|exact Hs].
  set (p := penalty_amount (zget (vtot s) v) pct dec).
  destruct (minus3 s v (vr_saddr r) p) as [s1 n] eqn:E.
  destruct (minus3_frame _ _ _ _ _ _ E) as (Fb & Fm & F1 & F2 & F3 & F4 & F5 & Fd).
  destruct Hs as (HC & (Hd & Hb & Hm) & HB).
  destruct Fd as [[Hn Fd]|(-> & Fd & Hge)].
  - assert ((match n with 3%nat => zadd (vr_saddr r) p (g_pen s1) | _ => g_pen s1 end) = g_pen s1) as Ep.
    { destruct n as [|[|[|[|n]]]]; try reflexivity. contradiction. }
    rewrite Ep. split; [|split].
    + intros d'. unfold maturing. simpl. rewrite Fm, Fd, Fb, F1, F2, F3. apply HC.
    + split; [|split]; simpl; [rewrite Fd; exact Hd|rewrite Fb; exact Hb|rewrite Fm; exact Hm].
    + intros d'. simpl. rewrite F1, F2, F4, F5. apply HB.
  - split; [|split].
    + intros d'. unfold maturing. simpl. rewrite Fm, Fd, Fb, F1, F2, F3. specialize (HC d'). unfold maturing in HC.
      rewrite !zget_zadd. destruct (decide (vr_saddr r = d')) as [<-|]; lia.
    + split; [|split]; simpl; [|rewrite Fb; exact Hb|rewrite Fm; exact Hm].
      intros d'. rewrite Fd, zget_zadd. specialize (Hd d'). destruct (decide (vr_saddr r = d')) as [<-|]; lia.
    + intros d'. simpl. rewrite F1, F2, F4, F5. apply HB.
Qed.

Lemma inv_verdicts vs : forall s, inv s -> inv (fold_left verdict vs s).
Proof. induction vs as [|e vs IH]; intros s Hs; simpl; [exact Hs|]. apply IH, inv_verdict, Hs. Qed.

Definition gen_nonneg (o : op) : bool :=
  match o with OGenStake _ _ a | OGenMature _ _ a => 0 <=? a | _ => true end.

Lemma inv_step s o : gen_nonneg o = true -> inv s -> inv (fst (step s o)).
Proof.
  intros Hg Hs. destruct o; simpl.
  - apply inv_stake, Hs.
  - apply inv_unstake, Hs.
  - apply inv_withdraw, Hs.
  - eapply inv_frame; [..|exact Hs]; reflexivity.
  - unfold do_end. destruct (h <=? 1).
    + eapply inv_frame; [..|exact Hs]; reflexivity.
    + eapply inv_frame; [reflexivity..|]. apply inv_verdicts, inv_mature.
      eapply inv_frame; [..|exact Hs]; reflexivity.
  - simpl in Hg. assert (0 <= a) by lia. unfold do_genstake.
    destruct Hs as (HC & (Hd & Hb & Hm) & HB). split; [|split].
    + intros d'. unfold maturing. simpl. specialize (HC d'). unfold maturing in HC.
      rewrite !zget_zadd. destruct (decide (d = d')) as [->|]; lia.
    + split; [|split]; simpl; [|exact Hb|exact Hm].
      intros d'. rewrite zget_zadd. specialize (Hd d'). destruct (decide (d = d')) as [->|]; lia.
    + intros d'. simpl. rewrite !zget_zadd. destruct (HB d') as [B1 B2]. destruct (decide (d = d')) as [->|]; split; lia.
  - simpl in Hg. assert (0 <= a) by lia. unfold do_genmature.
    destruct Hs as (HC & (Hd & Hb & Hm) & HB). split; [|split].
    + intros d'. unfold maturing, mat_at. simpl. rewrite maturing_insert, entries_of_app.
      specialize (HC d'). unfold maturing in HC. rewrite zget_zadd.
      destruct (decide (d = d')) as [->|Hne].
      * rewrite Pos.eqb_refl. lia.
      * destruct (Pos.eqb_spec d d'); [contradiction|]. lia.
    + split; [|split]; simpl; [exact Hd|exact Hb|].
      intros k l. unfold mat_at. destruct (decide (k = h)) as [->|Hne].
      * rewrite lookup_insert. intros El. inversion El; subst. apply Forall_app. split.
        -- destruct (mat s !! h) as [l0|] eqn:E0; simpl; [eapply Hm; exact E0|constructor].
        -- constructor; [simpl; lia|constructor].
      * rewrite lookup_insert_ne by (intros Heq; apply Hne; symmetry; exact Heq). apply Hm.
    + intros d'. simpl. rewrite !zget_zadd. destruct (HB d') as [B1 B2]. destruct (decide (d = d')) as [->|]; split; lia.
Qed.

Lemma inv_run os : forall s, forallb gen_nonneg os = true -> inv s -> inv (run s os).
Proof.
  induction os as [|o os IH]; intros s Hg Hs; simpl in *; [exact Hs|].
  apply andb_true_iff in Hg as [H1 H2]. apply IH; [exact H2|]. apply inv_step; assumption.
Qed.

(* for every history (any interleaving, any environment inputs, any verdicts) over a genesis with
   non-negative amounts: what a delegator has withdrawn never exceeds what it staked minus the
   penalties, in whole OLT and on the balance side in base units; and the difference is exactly
   what is still locked, withdrawable or maturing (each unit is in exactly one place) *)
Theorem withdraw_bounded os :
  forallb gen_nonneg os = true ->
  let s := run empty_state os in
  forall d,
    zget (g_withdrawn s) d <= zget (g_staked s) d - zget (g_pen s) d /\
    zget (g_out s) d <= zget (g_in s) d - zget (g_pen s) d * base /\
    zget (g_staked s) d - zget (g_pen s) d - zget (g_withdrawn s) d
      = zget (deff s) d + zget (dbnd s) d + maturing s d /\
    0 <= zget (deff s) d /\ 0 <= zget (dbnd s) d /\ 0 <= maturing s d.
Proof.
  intros Hg s d. destruct (inv_run os empty_state Hg inv_empty) as (HC & HN & HB). fold s in HC, HN, HB.
  pose proof (maturing_nonneg s d HN) as Hm. destruct HN as (Hd & Hb & _).
  specialize (HC d). specialize (Hd d). specialize (Hb d). destruct (HB d) as [B1 B2].
  assert (0 < base) by (unfold base; lia).
  repeat split; try lia; rewrite B1, B2; nia.
Qed.

(* ---------- C11_validator_record : v_ record stake = st__t_ (+ penalty awaiting BeginBlock) ---------- *)
(* assumptions of the theorem, as boolean predicates over (state, operation) *)
Definition rec_staking (s : state) (v : addr) : Z := match vrecs s !! v with Some r => vr_staking r | None => 0 end.
(* the stake of one validator record stays below 2^63 whole OLT (calculatePower narrows to int64) *)
Definition stake_overflow (s : state) (o : op) : bool :=
  match o with
  | OStake v _ a _ _ _ _ _ _ | OGenStake v _ a => 2 ^ 63 <=? rec_staking s v + a
  | _ => false
  end.
(* evidence options: PenaltyBasePercentage >= 0, PenaltyBaseDecimals > 0 *)
Definition verdict_params_ok (o : op) : bool :=
  match o with OEnd _ vs => forallb (fun e => (0 <=? e.1.2) && (0 <? e.2)) vs | _ => true end.
(* environment assumptions of C11_validator_record (not triggers of any defect) *)
Definition record_env_violated (s : state) (o : op) : bool :=
  negb (gen_nonneg o) || stake_overflow s o || negb (verdict_params_ok o).

Definition rec_ok (s : state) (v : addr) : Prop :=
  match vrecs s !! v with
  | Some r => vr_staking r = zget (vtot s) v + entries_of (pend s) v /\ vr_power r = wrap64 (vr_staking r) /\ vr_staking r < 2 ^ 63
  | None => zget (vtot s) v = 0 /\ entries_of (pend s) v = 0
  end.
Definition rec_inv (s : state) : Prop :=
  (forall v, 0 <= zget (vtot s) v) /\ Forall (fun e => 0 <= e.2) (pend s) /\ (forall v, rec_ok s v).

Lemma rec_inv_frame s s' :
  vtot s' = vtot s -> pend s' = pend s -> vrecs s' = vrecs s -> rec_inv s -> rec_inv s'.
Proof. intros E1 E2 E3 (H1 & H2 & H3). unfold rec_inv, rec_ok in *. rewrite E1, E2, E3. auto. Qed.

Lemma rec_inv_update s s' v r' x :
  vtot s' = zadd v x (vtot s) -> pend s' = pend s -> vrecs s' = <[v := r']> (vrecs s) ->
  0 <= zget (vtot s) v + x ->
  vr_staking r' = zget (vtot s) v + x + entries_of (pend s) v -> vr_power r' = wrap64 (vr_staking r') -> vr_staking r' < 2 ^ 63 ->
  rec_inv s -> rec_inv s'.
Proof.
  intros E1 E2 E3 Hx Hs Hp Hb (H1 & H2 & H3). unfold rec_inv, rec_ok in *. rewrite E1, E2, E3. split; [|split; [exact H2|]].
  - intros v'. rewrite zget_zadd. destruct (decide (v = v')) as [->|]; [lia|apply H1].
  - intros v'. rewrite zget_zadd. destruct (decide (v = v')) as [->|Hne].
    + rewrite lookup_insert. auto.
    + rewrite lookup_insert_ne by exact Hne. apply H3.
Qed.

Lemma minus3_atomic s v d a :
  minus3 s v d a = (s, 0%nat) \/
  exists s3, minus3 s v d a = (s3, 3%nat) /\ vtot s3 = zadd v (- a) (vtot s) /\ pend s3 = pend s /\ vrecs s3 = vrecs s /\
             0 <= zget (vtot s) v - a.
Proof.
  unfold minus3.
  destruct (zget (vtot s) v - a <? 0) eqn:E1; [left; reflexivity|].
  destruct (zget (eff s) (v, d) - a <? 0) eqn:E2; [left; reflexivity|].
  destruct (zget (deff s) d - a <? 0) eqn:E3; [left; reflexivity|].
  right. eexists. split; [reflexivity|]. simpl. repeat split. lia.
Qed.

Lemma rec_inv_empty : rec_inv empty_state.
Proof.
  split; [|split].
  - intros v. simpl. unfold zget. rewrite lookup_empty. simpl. lia.
  - constructor.
  - intros v. unfold rec_ok. simpl. rewrite lookup_empty. unfold zget. rewrite lookup_empty. simpl. split; reflexivity.
Qed.

Lemma rec_inv_stake_like s v d a u (s' : state) :
  vtot s' = zadd v a (vtot s) -> pend s' = pend s -> vrecs s' = <[v := stake_rec s v d a u]> (vrecs s) ->
  0 <= a -> rec_staking s v + a < 2 ^ 63 -> rec_inv s -> rec_inv s'.
Proof.
  intros E1 E2 E3 Ha Hb Hs. pose proof Hs as (H1 & H2 & H3).
  specialize (H3 v). specialize (H1 v). unfold rec_ok in H3. unfold rec_staking in Hb. unfold stake_rec in E3.
  destruct (vrecs s !! v) as [r|] eqn:Er.
  - destruct H3 as (S1 & S2 & S3). eapply (rec_inv_update s s' v _ a); try eassumption; simpl; try lia; try reflexivity.
  - destruct H3 as (S1 & S2). eapply (rec_inv_update s s' v _ a); try eassumption; simpl; try lia; try reflexivity.
Qed.

Lemma rec_inv_stake s v d a fz bal h m pb ff :
  stake_overflow s (OStake v d a fz bal h m pb ff) = false -> rec_inv s -> rec_inv (fst (do_stake s v d a fz bal h m pb ff)).
Proof.
  intros Ho Hs. unfold do_stake. destruct (negb (validate_stake a bal)); [exact Hs|].
  destruct (amount_ok a) eqn:Ea; simpl; [|exact Hs].
  destruct fz; [exact Hs|]. destruct (stake_update s v d h m) as [u|]; [|exact Hs].
  destruct (bal - debit_of a <? 0); [exact Hs|]. destruct pb; [exact Hs|]. destruct ff; [exact Hs|].
  simpl. simpl in Ho. unfold amount_ok in Ea.
  eapply (rec_inv_stake_like s v d a u); try reflexivity; try lia. exact Hs.
Qed.

Lemma rec_inv_unstake s v d a fz ro h m pb ff : rec_inv s -> rec_inv (fst (do_unstake s v d a fz ro h m pb ff)).
Proof.
  intros Hs. unfold do_unstake. destruct (negb (validate_unstake s v d a)); [exact Hs|].
  destruct (amount_ok a) eqn:Ea; simpl; [|exact Hs].
  destruct fz; [exact Hs|]. destruct ro; [exact Hs|].
  destruct (minus3_atomic s v d a) as [E|(s3 & E & Ev & Ep & Er & Hge)]; rewrite E; [exact Hs|].
  destruct (vrecs s !! v) as [r|] eqn:Erec; [|exact Hs]. destruct (vr_staking r - a <? 0) eqn:Eneg; [exact Hs|].
  destruct pb; [exact Hs|]. destruct ff; [exact Hs|]. simpl.
  pose proof Hs as (H1 & H2 & H3). specialize (H3 v). unfold rec_ok in H3. rewrite Erec in H3. destruct H3 as (S1 & S2 & S3).
  unfold amount_ok in Ea.
  eapply (rec_inv_update s _ v (VRec (vr_saddr r) (vr_staking r - a) (wrap64 (vr_staking r - a))) (- a));
    simpl; try reflexivity; try lia; try assumption.
  rewrite Er. reflexivity.
Qed.

Lemma apply_pending_fold blocked l : 
  Forall (fun e => 0 <= e.2) l ->
  forall (recs : gmap addr vrec) (X : addr -> Z),
    (forall v, 0 <= X v) ->
    (forall v r, recs !! v = Some r -> vr_staking r = X v + entries_of l v /\ vr_power r = wrap64 (vr_staking r) /\ vr_staking r < 2 ^ 63) ->
    forall v, match foldr (apply_pending blocked) recs l !! v with
              | Some r => vr_staking r = X v /\ vr_power r = wrap64 (vr_staking r) /\ vr_staking r < 2 ^ 63
              | None => recs !! v = None
              end.
Proof.
  induction 1 as [|[ev ep] l Hep Hl IH]; intros recs X HX Hrec v.
  - simpl. destruct (recs !! v) as [r|] eqn:E; [|reflexivity]. destruct (Hrec v r E) as (S1 & S2 & S3). simpl in S1. repeat split; [lia|exact S2|exact S3].
  - simpl in Hep. simpl foldr.
    set (X' := fun v => X v + (if Pos.eqb ev v then ep else 0)).
    assert (forall v, 0 <= X' v) as HX' by (intros v0; unfold X'; specialize (HX v0); destruct (Pos.eqb ev v0); lia).
    assert (forall v r, recs !! v = Some r -> vr_staking r = X' v + entries_of l v /\ vr_power r = wrap64 (vr_staking r) /\ vr_staking r < 2 ^ 63) as Hrec'.
    { intros v0 r0 E0. destruct (Hrec v0 r0 E0) as (S1 & S2 & S3). simpl in S1. unfold X'. repeat split; [|exact S2|exact S3].
      destruct (Pos.eqb ev v0); lia. }
    pose proof (IH recs X' HX' Hrec') as Hin. set (inner := foldr (apply_pending blocked) recs l) in *.
    unfold apply_pending. simpl.
    destruct (inner !! ev) as [r0|] eqn:E0.
    + pose proof (Hin ev) as Hev. rewrite E0 in Hev. destruct Hev as (T1 & T2 & T3). unfold X' in T1. rewrite Pos.eqb_refl in T1.
      destruct (vr_staking r0 - ep <? 0) eqn:En; [specialize (HX ev); lia|].
      destruct (decide (ev = v)) as [->|Hne].
      * rewrite lookup_insert. simpl. specialize (HX v). repeat split; lia.
      * rewrite lookup_insert_ne by exact Hne. specialize (Hin v). destruct (inner !! v); [|exact Hin].
        unfold X' in Hin. destruct (Pos.eqb_spec ev v); [contradiction|]. destruct Hin as (U1 & U2 & U3). repeat split; [lia|exact U2|exact U3].
    + specialize (Hin v). destruct (inner !! v) as [r1|] eqn:E1; [|exact Hin].
      unfold X' in Hin. destruct (Pos.eqb_spec ev v) as [->|]; [rewrite E0 in E1; discriminate|].
      destruct Hin as (U1 & U2 & U3). repeat split; [lia|exact U2|exact U3].
Qed.

Lemma rec_inv_begin s blocked : rec_inv s -> rec_inv (do_begin s blocked).
Proof.
  intros (H1 & H2 & H3).
  pose proof (apply_pending_fold blocked (pend s) H2 (vrecs s) (fun v => zget (vtot s) v) H1) as Hf.
  assert (forall v r, vrecs s !! v = Some r -> vr_staking r = zget (vtot s) v + entries_of (pend s) v /\ vr_power r = wrap64 (vr_staking r) /\ vr_staking r < 2 ^ 63) as Hrec.
  { intros v r E. specialize (H3 v). unfold rec_ok in H3. rewrite E in H3. exact H3. }
  specialize (Hf Hrec).
  split; [exact H1|split; [constructor|]].
  intros v. unfold rec_ok, do_begin. simpl. specialize (Hf v).
  destruct (foldr (apply_pending blocked) (vrecs s) (pend s) !! v) as [r|].
  - destruct Hf as (S1 & S2 & S3). repeat split; [lia|exact S2|exact S3].
  - specialize (H3 v). unfold rec_ok in H3. rewrite Hf in H3. destruct H3 as [Z1 _]. split; [exact Z1|reflexivity].
Qed.

Lemma delete_powerless_spec prev recs v :
  delete_powerless prev recs !! v = recs !! v \/ (delete_powerless prev recs !! v = None /\ powerless_now recs v = true).
Proof.
  unfold delete_powerless. induction (map_to_list prev) as [|e l IH]; simpl; [left; reflexivity|].
  destruct ((vr_power e.2 <=? 0) && powerless_now recs e.1) eqn:E; [|exact IH].
  apply andb_true_iff in E as [_ E]. destruct (decide (e.1 = v)) as [<-|Hne].
  - right. rewrite lookup_delete. split; [reflexivity|exact E].
  - rewrite lookup_delete_ne by exact Hne. exact IH.
Qed.

Lemma rec_inv_delete s (s' : state) :
  vtot s' = vtot s -> pend s' = pend s -> vrecs s' = delete_powerless (vprev s) (vrecs s) -> rec_inv s -> rec_inv s'.
Proof.
  intros E1 E2 E3 (H1 & H2 & H3). unfold rec_inv, rec_ok in *. rewrite E1, E2, E3. split; [exact H1|split; [exact H2|]].
  intros v. destruct (delete_powerless_spec (vprev s) (vrecs s) v) as [->|[-> Hp]]; [apply H3|].
  specialize (H3 v). unfold powerless_now in Hp. destruct (vrecs s !! v) as [r|]; [|discriminate].
  destruct H3 as (S1 & S2 & S3). pose proof (entries_of_nonneg _ v H2) as He. specialize (H1 v).
  assert (amount_ok (vr_staking r) = true) as Hok by (unfold amount_ok; lia).
  rewrite S2, (wrap64_small _ Hok) in Hp. lia.
Qed.

Lemma penalty_nonneg t pct dec : 0 <= t -> 0 <= pct -> 0 < dec -> 0 <= penalty_amount t pct dec.
Proof. intros. unfold penalty_amount. apply Z.quot_pos; nia. Qed.

Lemma penalty_zero pct dec : 0 < dec -> penalty_amount 0 pct dec = 0.
Proof. intros. unfold penalty_amount. apply Z.quot_small. lia. Qed.

Lemma rec_inv_verdict s e : (0 <=? e.1.2) && (0 <? e.2) = true -> rec_inv s -> rec_inv (verdict s e).
Proof.
  destruct e as [[v pct] dec]. simpl. intros Hp Hs. unfold verdict.
  destruct (vprev s !! v) as [r|]; [|exact Hs].
  pose proof Hs as (H1 & H2 & H3).
  set (p := penalty_amount (zget (vtot s) v) pct dec).
  assert (0 <= p) as Hp0 by (apply penalty_nonneg; [apply H1|lia|lia]).
  destruct (minus3_atomic s v (vr_saddr r) p) as [E|(s3 & E & Ev & Epd & Er & Hge)]; rewrite E.
  - eapply rec_inv_frame; [..|exact Hs]; reflexivity.
  - unfold rec_inv, rec_ok. simpl. rewrite Ev, Epd, Er. split; [|split].
    + intros v'. rewrite zget_zadd. destruct (decide (v = v')) as [->|]; [lia|apply H1].
    + constructor; [simpl; lia|exact H2].
    + intros v'. specialize (H3 v'). unfold rec_ok in H3. rewrite zget_zadd. simpl.
      destruct (decide (v = v')) as [->|Hne].
      * rewrite Pos.eqb_refl. destruct (vrecs s !! v') as [r1|].
        -- destruct H3 as (S1 & S2 & S3). repeat split; [lia|exact S2|exact S3].
        -- destruct H3 as (Z1 & Z2). assert (p = 0) as -> by (unfold p; rewrite Z1; apply penalty_zero; lia). split; lia.
      * destruct (Pos.eqb_spec v v'); [contradiction|]. exact H3.
Qed.

Lemma rec_inv_verdicts vs : forall s, forallb (fun e => (0 <=? e.1.2) && (0 <? e.2)) vs = true -> rec_inv s -> rec_inv (fold_left verdict vs s).
Proof.
  induction vs as [|e vs IH]; intros s Hp Hs; simpl in *; [exact Hs|].
  apply andb_true_iff in Hp as [P1 P2]. apply IH; [exact P2|]. apply rec_inv_verdict; assumption.
Qed.

Lemma rec_inv_step s o : record_env_violated s o = false -> rec_inv s -> rec_inv (fst (step s o)).
Proof.
  unfold record_env_violated. intros Ht Hs.
  apply orb_false_iff in Ht as [Ht T3]. apply orb_false_iff in Ht as [T1 T2].
  apply negb_false_iff in T1. apply negb_false_iff in T3.
  destruct o; simpl.
  - apply rec_inv_stake; assumption.
  - apply rec_inv_unstake; assumption.
  - unfold do_withdraw. destruct (negb (validate_unstake s v d a)); [exact Hs|]. destruct (negb (amount_ok a)); [exact Hs|].
    destruct frozen; [exact Hs|]. destruct (zget (dbnd s) d - a <? 0); [exact Hs|]. destruct fee_fail; [exact Hs|].
    eapply rec_inv_frame; [..|exact Hs]; reflexivity.
  - apply rec_inv_begin; assumption.
  - unfold do_end. destruct (h <=? 1).
    + eapply rec_inv_frame; [..|exact Hs]; reflexivity.
    + eapply rec_inv_frame; [reflexivity..|]. simpl in T3. apply rec_inv_verdicts; [exact T3|].
      eapply rec_inv_frame; [reflexivity..|]. eapply rec_inv_delete; [..|exact Hs]; reflexivity.
  - simpl in T1, T2. unfold do_genstake.
    eapply rec_inv_frame; [reflexivity..|].
    eapply (rec_inv_stake_like s v d a false); try reflexivity; try lia. exact Hs.
  - eapply rec_inv_frame; [..|exact Hs]; reflexivity.
Qed.

Lemma rec_inv_run os : forall s, guarded record_env_violated s os = true -> rec_inv s -> rec_inv (run s os).
Proof.
  induction os as [|o os IH]; intros s Hg Hs; simpl in *; [exact Hs|].
  apply andb_true_iff in Hg as [H1 H2]. apply negb_true_iff in H1. apply IH; [exact H2|]. apply rec_inv_step; assumption.
Qed.

(* FULL since fix 0ce270f.  The validator's recorded stake equals the validator total plus the penalty decided in the last
   end-block and not yet applied to the record (applied by the next BeginBlock: then pend = []),
   its power equals its stake, and a validator without a record has no locked stake *)
Theorem validator_record os :
  guarded record_env_violated empty_state os = true ->
  let s := run empty_state os in
  forall v,
    match vrecs s !! v with
    | Some r => vr_staking r = zget (vtot s) v + entries_of (pend s) v /\ vr_power r = vr_staking r /\ 0 <= vr_staking r
    | None => zget (vtot s) v = 0
    end.
Proof.
  intros Hg s v. destruct (rec_inv_run os empty_state Hg rec_inv_empty) as (H1 & H2 & H3). fold s in H1, H2, H3.
  specialize (H3 v). unfold rec_ok in H3. destruct (vrecs s !! v) as [r|].
  - destruct H3 as (S1 & S2 & S3). pose proof (entries_of_nonneg _ v H2). specialize (H1 v).
    assert (amount_ok (vr_staking r) = true) as Hok by (unfold amount_ok; lia).
    rewrite (wrap64_small _ Hok) in S2. repeat split; [exact S1|exact S2|lia].
  - apply H3.
Qed.

(* ---------- governance proposals: frame over the maturity option ---------- *)
Theorem unfinalised_proposals_frame l : forall gs, grun gs l = grun gs (filter (fun g => not_unfinalised g = true) l).
Proof.
  induction l as [|g l IH]; intros gs; [reflexivity|].
  destruct g as [o|[|] n].
  - rewrite filter_cons_True by reflexivity. simpl. apply IH.
  - rewrite filter_cons_True by reflexivity. simpl. apply IH.
  - rewrite filter_cons_False by (simpl; discriminate). simpl. destruct gs as [s m]. simpl. apply IH.
Qed.

(* an unstake run through [gstep] is recorded at height + the option in force in the store *)
Theorem gstep_unstake_entry s m v d a ro h m0 pb ff :
  snd (step s (OUnstake v d a false ro h m pb ff)) = true ->
  mat (fst (gstep (s, m) (GOp (OUnstake v d a false ro h m0 pb ff))))
    = <[h + m := mat_at s (h + m) ++ [(d, a)]]> (mat s).
Proof.
  intros Hok. unfold gstep, set_m. cbn [fst snd].
  destruct (step s (OUnstake v d a false ro h m pb ff)) as [s' ok] eqn:E. simpl in Hok. subst ok.
  destruct (unstake_entry _ _ _ _ _ _ _ _ _ _ E) as [Hm _]. exact Hm.
Qed.
