(* OlvmProofs.v — lemmas about theories/Olvm.v *)
From stdpp Require Import gmap list.
From Coq Require Import ZArith Lia ZifyBool.
From OL Require Import theories.Olvm.
Local Open Scope Z_scope.

(* ---------- elementary facts about the ledger operations ---------- *)
Lemma balance_add_bal s a d b :
  balance (add_bal s a d) b = if decide (b = a) then balance s a + d else balance s b.
Proof.
  unfold add_bal, set_bal, balance; simpl.
  destruct (decide (b = a)) as [->|Hne].
  - rewrite lookup_insert. reflexivity.
  - rewrite lookup_insert_ne by congruence. reflexivity.
Qed.

Lemma nonce_add_bal s a d b : nonce_of (add_bal s a d) b = nonce_of s b.
Proof. reflexivity. Qed.
Lemma pool_add_bal s a d : pool (add_bal s a d) = pool s.
Proof. reflexivity. Qed.
Lemma seqs_add_bal s a d : seqs (add_bal s a d) = seqs s.
Proof. reflexivity. Qed.

Lemma balance_set_nonce s a n b : balance (set_nonce s a n) b = balance s b.
Proof. reflexivity. Qed.
Lemma pool_set_nonce s a n : pool (set_nonce s a n) = pool s.
Proof. reflexivity. Qed.
Lemma nonce_set_nonce s a n b :
  nonce_of (set_nonce s a n) b = if decide (b = a) then n else nonce_of s b.
Proof.
  unfold set_nonce, nonce_of; simpl.
  destruct (decide (b = a)) as [->|Hne].
  - rewrite lookup_insert. reflexivity.
  - rewrite lookup_insert_ne by congruence. reflexivity.
Qed.

Lemma balance_add_pool s d b : balance (add_pool s d) b = balance s b.
Proof. reflexivity. Qed.
Lemma nonce_add_pool s d b : nonce_of (add_pool s d) b = nonce_of s b.
Proof. reflexivity. Qed.
Lemma pool_add_pool s d : pool (add_pool s d) = pool s + d.
Proof. reflexivity. Qed.

(* ---------- one ledger: the EVM's view of a balance is the native record ---------- *)
Lemma evm_view_eq s a : evm_view s a = balance s a.
Proof.
  unfold evm_view, keeper_get.
  destruct (seqs s !! a) as [n|]; simpl; [reflexivity|].
  destruct (balance s a =? 0) eqn:E; simpl; [|reflexivity].
  apply Z.eqb_eq in E. symmetry. exact E.
Qed.

Lemma one_ledger s a : evm_view s a = native_view s a.
Proof. apply evm_view_eq. Qed.

Lemma evm_nonce_eq s a : evm_nonce s a = nonce_of s a.
Proof.
  unfold evm_nonce, keeper_get, nonce_of.
  destruct (seqs s !! a) as [n|]; simpl; [reflexivity|].
  destruct (balance s a =? 0); reflexivity.
Qed.

(* ---------- internal transfers ---------- *)
Lemma balance_apply_int l : forall s a, balance (apply_int s l) a = balance s a + delta_int l a.
Proof.
  induction l as [|[b d] l IH]; intros s a; simpl; [lia|].
  rewrite IH, balance_add_bal. destruct (decide (a = b)) as [->|]; lia.
Qed.
Lemma nonce_apply_int l : forall s a, nonce_of (apply_int s l) a = nonce_of s a.
Proof. induction l as [|[b d] l IH]; intros s a; simpl; [reflexivity|]. rewrite IH. reflexivity. Qed.
Lemma pool_apply_int l : forall s, pool (apply_int s l) = pool s.
Proof. induction l as [|[b d] l IH]; intros s; simpl; [reflexivity|]. rewrite IH. reflexivity. Qed.

(* ---------- gas arithmetic ---------- *)
Lemma gas_final_bounds g o :
  0 <= o_left o <= g -> 0 <= o_refund o ->
  o_left o <= gas_final g o /\ gas_final g o <= o_left o + (g - o_left o) / 3.
Proof.
  intros Hl Hr. unfold gas_final, RefundQuotient.
  destruct (o_refund o <? (g - o_left o) / 3) eqn:E.
  - apply Z.ltb_lt in E. lia.
  - assert (0 <= (g - o_left o) / 3) by (apply Z.div_pos; lia). lia.
Qed.

Lemma intrinsic_ge t ig : 0 <= t_nz t -> 0 <= t_z t -> intrinsic_gas t = Some ig -> TxGas <= ig.
Proof.
  intros Hnz Hz. unfold intrinsic_gas.
  assert (Hg0 : TxGas <= (if is_create t then TxGasContractCreation else TxGas))
    by (destruct (is_create t); unfold TxGas, TxGasContractCreation; lia).
  set (g0 := if is_create t then TxGasContractCreation else TxGas) in *.
  unfold TxDataNonZeroGas, TxDataZeroGas.
  destruct (t_nz t + t_z t =? 0); [intros [= <-]; exact Hg0|].
  destruct (_ <? t_nz t); [discriminate|].
  destruct (_ <? t_z t); [discriminate|].
  intros [= <-]. lia.
Qed.

(* used gas of an executed transaction: at least two thirds of the intrinsic gas, at most the limit *)
Lemma used_bounds g ig o :
  TxGas <= ig -> ig <= g -> 0 <= o_left o <= g - ig -> 0 <= o_refund o ->
  0 < g - gas_final g o <= g.
Proof.
  intros Hig Hg Hl Hr. unfold TxGas in Hig.
  destruct (gas_final_bounds g o) as [H1 H2]; [lia|lia|].
  assert ((g - o_left o) / 3 * 3 <= g - o_left o).
  { pose proof (Z.mul_div_le (g - o_left o) 3). lia. }
  lia.
Qed.

Lemma wrap64_id z : - 2^63 <= z < 2^63 -> wrap64 z = z.
Proof.
  intros H. unfold wrap64.
  rewrite Z.mod_small by lia. lia.
Qed.

(* ---------- the shape of a delivered OLVM transaction ---------- *)
(* the state an executed transaction commits *)
Definition exec_state (s : state) (e : env) (t : otx) (o : oracle) : state :=
  let from := t_from t in
  let g := gas_u64 t in
  let s1 := add_bal s from (- (g * t_price t)) in
  let s2 := set_nonce s1 from (nonce_of s from + 1) in
  let to := recipient e t in
  let s3 := if o_failed o then s2
            else
              let s' := add_bal (add_bal s2 from (- t_value t)) to (t_value t) in
              let s'' := if is_create t then set_nonce s' to 1 else s' in
              apply_int s'' (o_int o) in
  let gf := gas_final g o in
  let s4 := add_bal s3 from (gf * t_price t) in
  let s5 := if o_failed o then s4 else restore_dead s4 (o_dead o) in
  add_pool s5 (t_price t * (g - gf)).

Definition passes (s : state) (e : env) (t : otx) : Prop :=
  e_dup e = false /\
  nonce_of s (t_from t) = t_nonce t /\
  e_sender_code e = false /\
  gas_u64 t * t_price t <= balance s (t_from t) /\
  gas_u64 t <= e_block_gas e /\
  exists ig, intrinsic_gas t = Some ig /\ ig <= gas_u64 t /\
    (0 < t_value t -> t_value t <= balance s (t_from t) - gas_u64 t * t_price t).

Definition well_formed (e : env) (t : otx) (o : oracle) : Prop :=
  e_block_gas e <= MaxInt64 /\ - 2^63 <= t_gas t < 2^63 /\ 0 <= t_nz t /\ 0 <= t_z t /\
  oracle_ok t o.

Ltac notpass Eig :=
  let P1 := fresh in let P2 := fresh in let P3 := fresh in let P4 := fresh in let P5 := fresh in
  let ig' := fresh "ig" in let P6 := fresh in let P7 := fresh in let P8 := fresh in
  intros (P1 & P2 & P3 & P4 & P5 & ig' & P6 & P7 & P8);
  try congruence; try lia;
  try (rewrite Eig in P6; first [discriminate | injection P6 as <-; lia]).

Lemma deliver_olvm_cases s e t o :
  well_formed e t o ->
  ((deliver_olvm s e t o).2 = s /\
   ((deliver_olvm s e t o).1 = NotExecuted \/ (deliver_olvm s e t o).1 = Duplicate) /\
   ~ passes s e t)
  \/
  (passes s e t /\ gas_u64 t = t_gas t /\
   0 < t_gas t - gas_final (t_gas t) o <= t_gas t /\
   deliver_olvm s e t o =
     (Executed (o_failed o) (t_gas t - gas_final (t_gas t) o), exec_state s e t o)).
Proof.
  intros (Hbg & Hgas & Hnz & Hz & Hor & Href).
  unfold deliver_olvm.
  destruct (e_dup e) eqn:Edup; [left; simpl; repeat split; auto; notpass Edup|].
  unfold handler, transition.
  rewrite !evm_nonce_eq, !evm_view_eq.
  destruct (nonce_of s (t_from t) <? t_nonce t) eqn:E0; [left; simpl; repeat split; auto; notpass E0|].
  destruct (t_nonce t <? nonce_of s (t_from t)) eqn:E1; [left; simpl; repeat split; auto; notpass E1|].
  destruct (e_sender_code e) eqn:E2; [left; simpl; repeat split; auto; notpass E2|].
  destruct (balance s (t_from t) <? gas_u64 t * t_price t) eqn:E3; [left; simpl; repeat split; auto; notpass E3|].
  destruct (e_block_gas e <? gas_u64 t) eqn:E4; [left; simpl; repeat split; auto; notpass E4|].
  unfold oracle_ok in Hor.
  destruct (intrinsic_gas t) as [ig|] eqn:Eig; [|left; simpl; repeat split; auto; notpass Eig].
  destruct (gas_u64 t <? ig) eqn:E5; [left; simpl; repeat split; auto; notpass Eig|].
  rewrite ?evm_view_eq, ?evm_nonce_eq.
  rewrite balance_add_bal. destruct (decide (t_from t = t_from t)) as [_|]; [|congruence].
  destruct ((0 <? t_value t) &&
            (balance s (t_from t) + - (gas_u64 t * t_price t) <? t_value t)) eqn:E6;
    [left; simpl; repeat split; auto; notpass Eig|].
  (* executed *)
  apply Z.ltb_ge in E0, E1, E3, E4, E5.
  assert (Hg : gas_u64 t = t_gas t).
  { unfold gas_u64 in *. unfold MaxInt64 in Hbg.
    assert (0 <= t_gas t mod 2^64 < 2^64) by (apply Z.mod_pos_bound; lia).
    destruct (Z_lt_le_dec (t_gas t) 0) as [Hneg|Hpos].
    - exfalso.
      assert (t_gas t mod 2^64 = t_gas t + 2^64).
      { symmetry. apply Z.mod_unique_pos with (q := -1); lia. }
      lia.
    - apply Z.mod_small. lia. }
  pose proof (intrinsic_ge t ig Hnz Hz Eig) as Hig.
  rewrite Hg in *.
  pose proof (used_bounds (t_gas t) ig o Hig E5 Hor Href) as Hused.
  right. split; [|split; [reflexivity|split; [exact Hused|]]].
  - unfold passes. rewrite Hg. repeat split; try lia; try assumption.
    exists ig. repeat split; try lia; try assumption.
  - rewrite nonce_add_bal.
    set (used := t_gas t - gas_final (t_gas t) o) in *.
    rewrite wrap64_id by lia.
    unfold contract_fee.
    destruct (used =? -1) eqn:F1; [lia|].
    destruct (used =? 0) eqn:F2; [lia|].
    destruct (t_gas t <? used) eqn:F3; [lia|].
    simpl. unfold exec_state. rewrite Hg. reflexivity.
Qed.

(* ---------- the property statements ---------- *)

(* failed pre-check (or fee step, or duplicate): nothing changes *)
Lemma not_executed_unchanged s e t o :
  (forall f u, (deliver_olvm s e t o).1 <> Executed f u) -> (deliver_olvm s e t o).2 = s.
Proof.
  intros H. unfold deliver_olvm in *.
  destruct (e_dup e); [reflexivity|].
  destruct (handler s e t o) as [[ok gu] s1].
  destruct (contract_fee s1 t gu) as [fee_ok s2].
  destruct (ok && fee_ok); simpl in *; [|reflexivity].
  exfalso. eapply H. reflexivity.
Qed.


Lemma balance_restore_dead l : forall s a, balance (restore_dead s l) a = balance s a.
Proof.
  unfold restore_dead. induction l as [|b l IH]; intros s a; simpl; [reflexivity|].
  rewrite IH. reflexivity.
Qed.
Lemma pool_restore_dead l : forall s, pool (restore_dead s l) = pool s.
Proof.
  unfold restore_dead. induction l as [|a l IH]; intros s; simpl; [reflexivity|].
  rewrite IH. reflexivity.
Qed.
Lemma nonce_restore_dead l : forall s a, a ∉ l -> nonce_of (restore_dead s l) a = nonce_of s a.
Proof.
  unfold restore_dead. induction l as [|b l IH]; intros s a Hn; simpl; [reflexivity|].
  rewrite IH by (intros H; apply Hn; right; exact H).
  unfold nonce_of, drop_account; simpl.
  rewrite lookup_delete_ne; [reflexivity|]. intros ->. apply Hn. left.
Qed.

(* the account survives the transaction: it did not execute SELFDESTRUCT (an externally owned
   sender has no code to do so) *)
Definition survives (o : oracle) (a : addr) : Prop := o_failed o = true \/ a ∉ o_dead o.

Lemma balance_finalised o X b :
  balance (if o_failed o then X else restore_dead X (o_dead o)) b = balance X b.
Proof. destruct (o_failed o); [reflexivity|apply balance_restore_dead]. Qed.
Lemma nonce_finalised o X a : survives o a ->
  nonce_of (if o_failed o then X else restore_dead X (o_dead o)) a = nonce_of X a.
Proof.
  intros [H|H]; [rewrite H; reflexivity|].
  destruct (o_failed o); [reflexivity|apply nonce_restore_dead; exact H].
Qed.

Lemma exec_state_balance s e t o a :
  balance (exec_state s e t o) a =
    balance s a
    + (if decide (a = t_from t)
       then - ((t_gas t mod 2^64 - gas_final (t_gas t mod 2^64) o) * t_price t + moved t (o_failed o))
       else 0)
    + (if decide (a = recipient e t) then moved t (o_failed o) else 0)
    + (if o_failed o then 0 else delta_int (o_int o) a).
Proof.
  unfold exec_state, gas_u64, moved.
  rewrite balance_add_pool, balance_finalised, balance_add_bal.
  generalize (recipient e t) as r. generalize (t_from t) as fr. intros fr r.
  destruct (o_failed o).
  - rewrite !balance_set_nonce, !balance_add_bal.
    repeat destruct (decide _); subst; try congruence; lia.
  - rewrite !balance_apply_int.
    assert (Hin : forall s' b, balance (if is_create t then set_nonce s' r 1 else s') b
                             = balance s' b) by (intros s' b; destruct (is_create t); reflexivity).
    rewrite !Hin.
    rewrite !balance_add_bal, !balance_set_nonce, !balance_add_bal.
    repeat destruct (decide _); subst; try congruence; lia.
Qed.

Lemma exec_state_pool s e t o :
  pool (exec_state s e t o) = pool s + t_price t * (gas_u64 t - gas_final (gas_u64 t) o).
Proof.
  unfold exec_state. rewrite pool_add_pool.
  assert (Hp : forall X, pool (if o_failed o then X else restore_dead X (o_dead o)) = pool X)
    by (intros X; destruct (o_failed o); [reflexivity|apply pool_restore_dead]).
  rewrite Hp, pool_add_bal.
  destruct (o_failed o).
  - reflexivity.
  - rewrite pool_apply_int. destruct (is_create t); reflexivity.
Qed.

Lemma exec_state_nonce s e t o a :
  survives o a ->
  recipient e t <> t_from t \/ is_create t = false \/ o_failed o = true ->
  nonce_of (exec_state s e t o) a =
    if decide (a = t_from t) then nonce_of s (t_from t) + 1
    else if decide (a = recipient e t) then
           (if is_create t && negb (o_failed o) then 1 else nonce_of s a)
    else nonce_of s a.
Proof.
  intros Hsd Hside. unfold exec_state.
  rewrite nonce_add_pool, (nonce_finalised o _ a Hsd), nonce_add_bal.
  destruct (o_failed o) eqn:Ef.
  - rewrite nonce_set_nonce, nonce_add_bal, andb_false_r.
    destruct (decide (a = t_from t)); [reflexivity|].
    destruct (decide (a = recipient e t)); reflexivity.
  - rewrite nonce_apply_int. rewrite andb_true_r.
    destruct (is_create t) eqn:Ec.
    + rewrite nonce_set_nonce, !nonce_add_bal, nonce_set_nonce, nonce_add_bal.
      destruct (decide (a = recipient e t)) as [->|Hr].
      * destruct (decide (recipient e t = t_from t)) as [Heq|]; [|reflexivity].
        exfalso. destruct Hside as [H|[H|H]]; congruence.
      * destruct (decide (a = t_from t)); reflexivity.
    + rewrite !nonce_add_bal, nonce_set_nonce, nonce_add_bal.
      destruct (decide (a = t_from t)); [reflexivity|].
      destruct (decide (a = recipient e t)); reflexivity.
Qed.

(* the exact-charge theorem *)
Lemma exact_charge s e t o f used s' :
  well_formed e t o ->
  deliver_olvm s e t o = (Executed f used, s') ->
  f = o_failed o /\ 0 < used <= t_gas t /\
  pool s' = pool s + used * t_price t /\
  (forall a, balance s' a =
     balance s a
     + (if decide (a = t_from t) then - (used * t_price t + moved t f) else 0)
     + (if decide (a = recipient e t) then moved t f else 0)
     + (if f then 0 else delta_int (o_int o) a)) /\
  (survives o (t_from t) -> recipient e t <> t_from t ->
   nonce_of s' (t_from t) = nonce_of s (t_from t) + 1).
Proof.
  intros Hwf Hd.
  destruct (deliver_olvm_cases s e t o Hwf) as [(Hs & [Ho|Ho] & _)|(Hp & Hg & Hu & Heq)].
  - rewrite Hd in Ho. discriminate.
  - rewrite Hd in Ho. discriminate.
  - rewrite Hd in Heq. injection Heq as -> -> ->.
    split; [reflexivity|]. split; [exact Hu|].
    split; [rewrite exec_state_pool, Hg; lia|].
    split.
    + intros a. rewrite exec_state_balance. unfold gas_u64 in Hg. rewrite Hg. reflexivity.
    + intros Hsd Hne. rewrite exec_state_nonce by (try exact Hsd; left; exact Hne).
      destruct (decide (t_from t = t_from t)); [reflexivity|congruence].
Qed.

(* ---------- conservation ---------- *)
Fixpoint sum_over (f : addr -> Z) (l : list addr) : Z :=
  match l with [] => 0 | a :: r => f a + sum_over f r end.

Lemma total_over_sum s l : total_over s l = sum_over (balance s) l + pool s.
Proof. unfold total_over. f_equal. induction l; simpl; [reflexivity|]. rewrite IHl. reflexivity. Qed.

Lemma sum_over_ext f g l : (forall a, f a = g a) -> sum_over f l = sum_over g l.
Proof. intros H. induction l; simpl; [reflexivity|]. rewrite H, IHl. reflexivity. Qed.

Lemma sum_over_plus f g l : sum_over (fun a => f a + g a) l = sum_over f l + sum_over g l.
Proof. induction l; simpl; lia. Qed.

Lemma sum_over_indicator x c l :
  NoDup l -> sum_over (fun a => if decide (a = x) then c else 0) l = if decide (x ∈ l) then c else 0.
Proof.
  induction 1 as [|a l Hnin Hnd IH]; simpl.
  - destruct (decide (x ∈ [])) as [H|]; [inversion H|reflexivity].
  - rewrite IH. destruct (decide (a = x)) as [->|Hne].
    + destruct (decide (x ∈ l)); [contradiction|].
      destruct (decide (x ∈ x :: l)) as [|Hn]; [lia|]. exfalso. apply Hn. left.
    + destruct (decide (x ∈ l)) as [Hin|Hnin'].
      * destruct (decide (x ∈ a :: l)) as [|Hn]; [lia|]. exfalso. apply Hn. right. exact Hin.
      * destruct (decide (x ∈ a :: l)) as [Hin|]; [|lia].
        apply elem_of_cons in Hin. destruct Hin; [congruence|contradiction].
Qed.

Lemma sum_over_zero l : sum_over (fun _ => 0) l = 0.
Proof. induction l; simpl; lia. Qed.

Lemma sum_over_delta_int li : forall l,
  NoDup l -> (forall p, p ∈ li -> p.1 ∈ l) ->
  sum_over (delta_int li) l = sum_int li.
Proof.
  induction li as [|[b d] li IH]; intros l Hnd Hall; simpl.
  - apply sum_over_zero.
  - change (sum_over (fun a => (if decide (a = b) then d else 0) + delta_int li a) l = sum_int ((b, d) :: li)).
    rewrite sum_over_plus, IH; auto.
    + rewrite (sum_over_indicator b d l Hnd).
      destruct (decide (b ∈ l)) as [|Hn]; [unfold sum_int; simpl; lia|].
      exfalso. apply Hn. apply (Hall (b, d)). left.
    + intros p Hp. apply Hall. right. exact Hp.
Qed.

Lemma conservation s e t o f used s' l :
  well_formed e t o ->
  deliver_olvm s e t o = (Executed f used, s') ->
  NoDup l -> t_from t ∈ l -> recipient e t ∈ l -> (forall p, p ∈ o_int o -> p.1 ∈ l) ->
  total_over s' l = total_over s l + (if f then 0 else sum_int (o_int o)).
Proof.
  intros Hwf Hd Hnd Hfrom Hto Hint.
  destruct (exact_charge s e t o f used s' Hwf Hd) as (Hf & Hu & Hpool & Hbal & _).
  rewrite !total_over_sum, Hpool.
  rewrite (sum_over_ext _ _ l Hbal).
  rewrite !sum_over_plus.
  rewrite (sum_over_indicator (t_from t) _ l Hnd), (sum_over_indicator (recipient e t) _ l Hnd).
  destruct (decide (t_from t ∈ l)); [|contradiction].
  destruct (decide (recipient e t ∈ l)); [|contradiction].
  destruct f.
  - rewrite sum_over_zero. lia.
  - pose proof (sum_over_delta_int (o_int o) l Hnd Hint) as Hs.
    change (sum_over (fun a : addr => delta_int (o_int o) a) l) with (sum_over (delta_int (o_int o)) l).
    lia.
Qed.

(* ---------- nonce rule ---------- *)
Lemma executed_nonce_exact s e t o f used s' :
  well_formed e t o ->
  deliver_olvm s e t o = (Executed f used, s') -> t_nonce t = nonce_of s (t_from t).
Proof.
  intros Hwf Hd.
  destruct (deliver_olvm_cases s e t o Hwf) as [(Hs & [Ho|Ho] & _)|(Hp & _)].
  - rewrite Hd in Ho. discriminate.
  - rewrite Hd in Ho. discriminate.
  - destruct Hp as (_ & Hn & _). lia.
Qed.

(* a transaction whose nonce is not the account's nonce is never executed, whatever its
   encoding, the environment and the interpreter's behaviour *)
Lemma stale_nonce_not_executed s e t o :
  well_formed e t o -> nonce_of s (t_from t) <> t_nonce t ->
  forall f u, (deliver_olvm s e t o).1 <> Executed f u.
Proof.
  intros Hwf Hne f u H.
  destruct (deliver_olvm_cases s e t o Hwf) as [(Hs & [Ho|Ho] & _)|(Hp & _)].
  - rewrite Ho in H. discriminate.
  - rewrite Ho in H. discriminate.
  - destruct Hp as (_ & Hn & _). contradiction.
Qed.

(* an executed transaction can never execute again: the account nonce is then above its nonce *)
Lemma no_second_execution s e t o f used s' e2 o2 :
  well_formed e t o -> well_formed e2 t o2 ->
  survives o (t_from t) -> recipient e t <> t_from t ->
  deliver_olvm s e t o = (Executed f used, s') ->
  t_nonce t < nonce_of s' (t_from t) /\
  forall f2 u2, (deliver_olvm s' e2 t o2).1 <> Executed f2 u2.
Proof.
  intros Hwf Hwf2 Hsd Hne Hd.
  pose proof (executed_nonce_exact s e t o f used s' Hwf Hd) as Hn.
  destruct (exact_charge s e t o f used s' Hwf Hd) as (_ & _ & _ & _ & Hnonce).
  specialize (Hnonce Hsd Hne).
  split; [lia|].
  apply stale_nonce_not_executed; [exact Hwf2|lia].
Qed.

(* ---------- a transaction accepted by CheckTx on the same ledger, carrying exactly the
   account's nonce, passes the pre-checks ---------- *)
Lemma validated_executes s e t o min_fee :
  well_formed e t o -> validate s min_fee t = true -> nonce_gap s t = false ->
  e_dup e = false -> e_sender_code e = false -> gas_u64 t <= e_block_gas e ->
  exists f u, (deliver_olvm s e t o).1 = Executed f u.
Proof.
  intros Hwf Hv Hgap Hdup Hcode Hbg.
  destruct (deliver_olvm_cases s e t o Hwf) as [(_ & _ & Hnp)|(_ & _ & _ & Heq)].
  2:{ rewrite Heq. eauto. }
  exfalso. apply Hnp.
  unfold validate in Hv. unfold nonce_gap in Hgap. rewrite evm_nonce_eq in Hv, Hgap.
  unfold native_view in Hv.
  repeat (apply andb_prop in Hv; destruct Hv as [Hv ?]).
  assert (0 <= gas_u64 t) by (unfold gas_u64; apply Z.mod_pos_bound; lia).
  unfold passes.
  destruct (intrinsic_gas t) as [ig|] eqn:Eig; [|discriminate].
  repeat split; try assumption; try lia.
  exists ig. repeat split; try lia.
Qed.

(* ---------- native SEND ---------- *)
Lemma send_exact s t used s' :
  deliver_send s t used = (true, s') ->
  pool s' = pool s + n_price t * used /\
  (forall a, balance s' a = balance s a
     + (if decide (a = n_from t) then - (n_amount t + n_price t * used) else 0)
     + (if decide (a = n_to t) then n_amount t else 0)) /\
  (forall a, nonce_of s' a = nonce_of s a).
Proof.
  unfold deliver_send.
  destruct (balance s (n_from t) <? n_amount t); [discriminate|].
  destruct (n_gas t <? used); [discriminate|].
  destruct (balance _ _ <? _); [discriminate|].
  intros [= <-]. split; [reflexivity|]. split; [|reflexivity].
  intros a. rewrite balance_add_pool.
  generalize (n_from t) as fr. generalize (n_to t) as r. intros r fr.
  rewrite !balance_add_bal.
  repeat destruct (decide _); subst; try congruence; lia.
Qed.

Lemma send_failed_unchanged s t used : (deliver_send s t used).1 = false -> (deliver_send s t used).2 = s.
Proof.
  unfold deliver_send.
  destruct (balance s (n_from t) <? n_amount t); [reflexivity|].
  destruct (n_gas t <? used); [reflexivity|].
  destruct (balance _ _ <? _); [reflexivity|]. simpl. discriminate.
Qed.

Lemma send_conservation s t used s' l :
  deliver_send s t used = (true, s') -> NoDup l -> n_from t ∈ l -> n_to t ∈ l ->
  total_over s' l = total_over s l.
Proof.
  intros Hd Hnd Hf Ht.
  destruct (send_exact s t used s' Hd) as (Hpool & Hbal & _).
  rewrite !total_over_sum, Hpool, (sum_over_ext _ _ l Hbal), !sum_over_plus.
  rewrite (sum_over_indicator (n_from t) _ l Hnd), (sum_over_indicator (n_to t) _ l Hnd).
  destruct (decide (n_from t ∈ l)); [|contradiction].
  destruct (decide (n_to t ∈ l)); [|contradiction]. lia.
Qed.

(* ---------- histories ---------- *)
Lemma history_one_ledger l s a : evm_view (run s l) a = native_view (run s l) a.
Proof. apply one_ledger. Qed.
