(* OnsInv.v — "every sub-name belongs to its parent's owner": preserved by every transaction
   outside the trigger C20.purchase_misses_uncommitted_sub (refuted inside it: props/C20.v). *)
From Coq Require Import ZArith Ascii String Lia.
From stdpp Require Import gmap list strings.
From OL Require Import theories.Ons theories.OnsCheck proofs.OnsProofs.
Local Open Scope Z_scope.

Definition names_wf (r : gmap name domain) : Prop :=
  forall (n : name) d, r !! n = Some d -> (2 <= length n)%nat.
Definition subs_owned (r : gmap name domain) : Prop :=
  forall (n : name) d, r !! n = Some d -> is_sub n = true ->
    exists p, r !! parent_name n = Some p /\ d_owner p = d_owner d.
Definition sub_owner_inv (s : state) : Prop := names_wf (reg s) /\ subs_owned (reg s).

Lemma name_valid_len o n : name_valid o n = true -> (2 <= length n)%nat.
Proof.
  unfold name_valid, name_syntax_ok. intros H. apply andb_true_iff in H as [H _].
  destruct (reverse n) as [|tld rest] eqn:Hr; [discriminate|].
  apply andb_true_iff in H as [H _]. apply andb_true_iff in H as [H _].
  apply andb_true_iff in H as [H _]. apply Nat.leb_le in H.
  apply (f_equal length) in Hr. rewrite reverse_length in Hr. simpl in Hr. lia.
Qed.

Lemma parent_len n : (2 <= length n)%nat -> length (parent_name n) = 2%nat.
Proof. intros H. unfold parent_name. rewrite drop_length. lia. Qed.

Lemma parent_not_sub n : (2 <= length n)%nat -> is_sub (parent_name n) = false.
Proof. intros H. unfold is_sub. rewrite parent_len by done. reflexivity. Qed.

(* (a) owners and domain unchanged *)
Lemma inv_owner_preserving (r r1 : gmap name domain) :
  (forall n, d_owner <$> r1 !! n = d_owner <$> r !! n) ->
  names_wf r /\ subs_owned r -> names_wf r1 /\ subs_owned r1.
Proof.
  intros Ho [Hwf Hso]. split.
  - intros n d Hd. specialize (Ho n). rewrite Hd in Ho. simpl in Ho.
    destruct (r !! n) as [d0|] eqn:H0; [|discriminate]. by eapply Hwf.
  - intros n d Hd Hs. pose proof (Ho n) as Hn. rewrite Hd in Hn. simpl in Hn.
    destruct (r !! n) as [d0|] eqn:H0; [|discriminate]. injection Hn as Hn.
    destruct (Hso n d0 H0 Hs) as (p & Hp & Hpo).
    pose proof (Ho (parent_name n)) as Hpn. rewrite Hp in Hpn. simpl in Hpn.
    destruct (r1 !! parent_name n) as [p1|]; [|discriminate]. injection Hpn as Hpn.
    exists p1. split; [done|]. congruence.
Qed.

(* (b) only sub-names removed *)
Lemma inv_delete_subs (r r1 : gmap name domain) :
  (forall n, r1 !! n = r !! n \/ (r1 !! n = None /\ is_sub n = true)) ->
  names_wf r /\ subs_owned r -> names_wf r1 /\ subs_owned r1.
Proof.
  intros Hd [Hwf Hso]. split.
  - intros n d H1. destruct (Hd n) as [He|[He _]]; rewrite He in H1; [by eapply Hwf|discriminate].
  - intros n d H1 Hs. destruct (Hd n) as [He|[He _]]; rewrite He in H1; [|discriminate].
    destruct (Hso n d H1 Hs) as (p & Hp & Hpo). exists p. split; [|done].
    destruct (Hd (parent_name n)) as [Hpe|[_ Hps]]; [by rewrite Hpe|].
    rewrite parent_not_sub in Hps; [discriminate|]. by eapply Hwf.
Qed.

Lemma trig_false_committed s a b p offer n d :
  trig_purchase_uncommitted s (Purchase a b p offer) = false ->
  reg s !! n = Some d -> is_sub_of p n = true -> visited s p n = true.
Proof.
  unfold trig_purchase_uncommitted, visited. intros Ht Hn Hs. rewrite Hs. simpl.
  destruct (bool_decide (n ∈ snap s)) eqn:Hin; [done|exfalso].
  assert (existsb (fun n0 => is_sub_of p n0 && negb (bool_decide (n0 ∈ snap s)))
            (map fst (map_to_list (reg s))) = true) as Hex; [|congruence].
  apply existsb_exists. exists n. split.
  - apply elem_of_list_In. apply elem_of_list_fmap. exists (n, d). split; [done|].
    by apply elem_of_map_to_list.
  - by rewrite Hs, Hin.
Qed.

Theorem run_op_sub_owner_inv e s o s1 : run_op e s o = Some s1 ->
  trig_purchase_uncommitted s o = false -> sub_owner_inv s -> sub_owner_inv s1.
Proof.
  intros H Ht Hinv. unfold sub_owner_inv in *.
  destruct o as [a b n0 uo u p|a b n0 act uo u|a n0 p c|a b n0 p|a n0 p|a n0 p|a n0]; simpl in H.
  - (* create *)
    unfold run_create in H.
    destruct (p <=? o_base (e_opts e)); [discriminate|].
    destruct (bool_decide (is_Some (reg s !! n0))) eqn:Hex; [discriminate|].
    apply bool_decide_eq_false in Hex. rewrite <- eq_None_not_Some in Hex.
    destruct (debit (bal s) a p); [|discriminate].
    destruct (negb (name_valid (e_opts e) n0)) eqn:Hval; [discriminate|].
    apply negb_false_iff, name_valid_len in Hval.
    destruct (negb (u =? "")%string && negb uo); [discriminate|].
    destruct Hinv as [Hwf Hso].
    assert (forall (x : option Z) d', (if is_sub n0 then
               match reg s !! parent_name n0 with
               | Some p0 => if bool_decide (d_owner p0 = a) then Some (d_expiry p0) else None
               | None => None end else x) = Some d' ->
             is_sub n0 = true -> exists p0, reg s !! parent_name n0 = Some p0 /\ d_owner p0 = a) as Hpar.
    { intros x d' Hm Hs. rewrite Hs in Hm. destruct (reg s !! parent_name n0) as [p0|]; [|discriminate].
      destruct (bool_decide (d_owner p0 = a)) eqn:Hb; [|discriminate]. apply bool_decide_eq_true in Hb.
      by exists p0. }
    match type of H with match ?X with _ => _ end = _ => destruct X as [x|] eqn:Hx; [|discriminate] end.
    injection H as <-. simpl. split.
    + intros n d Hd. destruct (decide (n = n0)) as [->|Hne]; [done|].
      rewrite lookup_insert_ne in Hd by done. by eapply Hwf.
    + intros n d Hd Hs. destruct (decide (n = n0)) as [->|Hne].
      * rewrite lookup_insert in Hd. injection Hd as <-. simpl.
        destruct (Hpar _ _ Hx Hs) as (p0 & Hp0 & Ho). exists p0. split; [|done].
        rewrite lookup_insert_ne; [done|]. intros Heq. rewrite Heq in Hp0. congruence.
      * rewrite lookup_insert_ne in Hd by done. destruct (Hso n d Hd Hs) as (p0 & Hp0 & Ho).
        exists p0. split; [|done]. rewrite lookup_insert_ne; [done|]. intros Heq.
        rewrite <- Heq in Hp0. congruence.
  - (* update *)
    unfold run_update in H.
    destruct (reg s !! n0) as [d|] eqn:Hd; [|discriminate].
    destruct (negb (is_changeable d (e_h e))); [discriminate|].
    destruct (negb (bool_decide (d_owner d = a))); [discriminate|].
    destruct (negb (u =? "")%string && negb uo); [discriminate|].
    injection H as <-. simpl. eapply inv_owner_preserving; [|exact Hinv].
    intros n. destruct (decide (n = n0)) as [->|Hne].
    + by rewrite lookup_insert, Hd.
    + rewrite lookup_insert_ne by done. destruct (negb act && negb (is_sub n0)); [|done].
      rewrite lookup_map_subs. destruct (visited s n0 n); [|done].
      destruct (reg s !! n); reflexivity.
  - (* sell *)
    unfold run_sell in H.
    destruct (p <=? o_perblock (e_opts e)); [discriminate|].
    destruct (p <? 0); [discriminate|]. destruct (is_sub n0); [discriminate|].
    destruct (reg s !! n0) as [d|] eqn:Hd; [|discriminate].
    destruct (negb (bool_decide (d_owner d = a))); [discriminate|].
    destruct (negb (is_changeable d (e_h e))); [discriminate|].
    destruct (is_expired d (e_h e)); [discriminate|].
    injection H as <-. simpl. eapply inv_owner_preserving; [|exact Hinv].
    intros n. destruct (decide (n = n0)) as [->|Hne].
    + rewrite lookup_insert, Hd. by destruct c.
    + by rewrite lookup_insert_ne.
  - (* purchase *)
    unfold run_purchase in H.
    destruct (reg s !! n0) as [d|] eqn:Hd; [|discriminate].
    destruct (negb (d_onsale d) && (e_v e <=? d_expiry d)); [discriminate|].
    destruct (is_sub n0) eqn:Hsub0; [discriminate|].
    destruct Hinv as [Hwf Hso].
    assert (length n0 = 2%nat) as Hlen.
    { pose proof (Hwf _ _ Hd). unfold is_sub in Hsub0. apply Nat.leb_gt in Hsub0. lia. }
    assert (forall d' : domain,
      names_wf (<[n0:=d']> (delete_subs s n0)) /\ subs_owned (<[n0:=d']> (delete_subs s n0))) as Hgoal.
    { intros d'. split.
      - intros n dn Hn. destruct (decide (n = n0)) as [->|Hne]; [lia|].
        rewrite lookup_insert_ne in Hn by done. rewrite lookup_delete_subs in Hn.
        destruct (visited s n0 n); [discriminate|]. by eapply Hwf.
      - intros n dn Hn Hs. destruct (decide (n = n0)) as [->|Hne]; [congruence|].
        rewrite lookup_insert_ne in Hn by done. rewrite lookup_delete_subs in Hn.
        destruct (visited s n0 n) eqn:Hv; [discriminate|].
        destruct (Hso n dn Hn Hs) as (p0 & Hp0 & Ho).
        destruct (decide (parent_name n = n0)) as [Hpn|Hpn].
        + exfalso. pose proof (parent_is_sub_of n Hs) as Hso'. rewrite Hpn in Hso'.
          pose proof (trig_false_committed _ _ _ _ _ _ _ Ht Hn Hso'). congruence.
        + exists p0. split; [|done]. rewrite lookup_insert_ne by done. rewrite lookup_delete_subs.
          destruct (visited s n0 (parent_name n)) eqn:Hvp; [|done].
          apply visited_sub in Hvp. apply (is_sub_of_parent _ _ Hlen) in Hvp as [_ Hps].
          rewrite parent_not_sub in Hps; [discriminate|]. by eapply Hwf. }
    repeat (match type of H with
            | match ?X with _ => _ end = _ => destruct X eqn:?; try discriminate
            | (if ?X then _ else _) = _ => destruct X eqn:?; try discriminate
            | (let '(_, _) := ?X in _) = _ => destruct X eqn:?
            end).
    all: injection H as <-; simpl; apply Hgoal.
  - (* send *)
    apply send_changes in H as (Hr & _). by rewrite Hr.
  - (* renew *)
    unfold run_renew in H.
    destruct (p <=? o_perblock (e_opts e)); [discriminate|].
    destruct (is_sub n0); [discriminate|].
    destruct (reg s !! n0) as [d|] eqn:Hd; [|discriminate].
    destruct (negb (is_changeable d (e_h e))); [discriminate|].
    destruct (is_expired d (e_v e)); [discriminate|].
    destruct (negb (bool_decide (d_owner d = a))); [discriminate|].
    destruct (debit (bal s) a p); [|discriminate].
    destruct (blocks_bought p (o_perblock (e_opts e))); [|discriminate].
    destruct (expiry_overflows (d_expiry d) z); [discriminate|].
    injection H as <-. simpl. eapply inv_owner_preserving; [|exact Hinv].
    intros n. destruct (decide (n = n0)) as [->|Hne].
    + by rewrite lookup_insert, Hd.
    + rewrite lookup_insert_ne by done. rewrite lookup_map_subs.
      destruct (visited s n0 n); [|done]. destruct (reg s !! n); reflexivity.
  - (* delete-sub *)
    unfold run_deletesub in H.
    destruct (reg s !! (if is_sub n0 then parent_name n0 else n0)) as [p|] eqn:Hp; [|discriminate].
    destruct (negb (is_changeable p (e_h e))); [discriminate|].
    destruct (negb (bool_decide (d_owner p = a))); [discriminate|].
    destruct (is_sub n0) eqn:Hsub.
    + destruct (reg s !! n0) as [d|] eqn:Hd; [|discriminate].
      injection H as <-. simpl. eapply inv_delete_subs; [|exact Hinv].
      intros n. destruct (decide (n = n0)) as [->|Hne].
      * right. by rewrite lookup_delete.
      * left. by rewrite lookup_delete_ne.
    + injection H as <-. simpl. eapply inv_delete_subs; [|exact Hinv].
      intros n. rewrite lookup_delete_subs. destruct (visited s n0 n) eqn:Hv; [right|by left].
      split; [done|]. apply visited_sub in Hv. destruct Hinv as [Hwf _].
      pose proof (Hwf _ _ Hp) as Hl. unfold is_sub_of in Hv. apply andb_true_iff in Hv as [Hv _].
      apply Nat.ltb_lt in Hv. unfold is_sub. apply Nat.leb_le. lia.
Qed.

Theorem deliver_sub_owner_inv s t : trig_purchase_uncommitted s (t_op t) = false ->
  sub_owner_inv s -> sub_owner_inv (deliver s t).1.
Proof.
  intros Ht Hinv. unfold deliver. destruct (negb (validate t)); [done|].
  destruct (run_op (t_env t) s (t_op t)) as [s1|] eqn:Hop; [|done].
  destruct (fee_step s1 t) as [s2|] eqn:Hf; [|done]. simpl.
  apply fee_step_spec in Hf as (f & _ & Hr & _). unfold sub_owner_inv. rewrite Hr.
  by eapply run_op_sub_owner_inv.
Qed.

(* over histories: as long as no purchase meets an uncommitted sub-name, every sub-name
   belongs to its parent's owner, starting from the empty registry *)
Fixpoint no_trigger (s : state) (evs : list event) : Prop :=
  match evs with
  | [] => True
  | Tx t :: rest => trig_purchase_uncommitted s (t_op t) = false /\ no_trigger (deliver s t).1 rest
  | EndBlock :: rest => no_trigger (end_block s) rest
  end.

Theorem history_sub_owner_inv evs : forall s, sub_owner_inv s -> no_trigger s evs ->
  sub_owner_inv (run s evs).
Proof.
  induction evs as [|ev evs IH]; intros s Hinv Hnt; simpl in *; [done|].
  destruct ev as [t|]; simpl in *.
  - destruct Hnt as [Ht Hnt]. apply IH; [by apply deliver_sub_owner_inv|done].
  - apply IH; done.
Qed.

Lemma init_sub_owner_inv b : sub_owner_inv (init_state b).
Proof. split; intros n d H; simpl in H; by rewrite lookup_empty in H. Qed.

(* ---- "a sub-name expires with its parent": every sub-name's expiry height equals its
   parent's, preserved by every transaction outside the uncommitted-sub-name trigger ---- *)
Definition subs_expire (r : gmap name domain) : Prop :=
  forall (n : name) d, r !! n = Some d -> is_sub n = true ->
    exists p, r !! parent_name n = Some p /\ d_expiry p = d_expiry d.
Definition sub_expiry_eq_inv (s : state) : Prop := names_wf (reg s) /\ subs_expire (reg s).

Lemma inv_expiry_preserving (r r1 : gmap name domain) :
  (forall n, d_expiry <$> r1 !! n = d_expiry <$> r !! n) ->
  names_wf r /\ subs_expire r -> names_wf r1 /\ subs_expire r1.
Proof.
  intros Ho [Hwf Hso]. split.
  - intros n d Hd. specialize (Ho n). rewrite Hd in Ho. simpl in Ho.
    destruct (r !! n) as [d0|] eqn:H0; [|discriminate]. by eapply Hwf.
  - intros n d Hd Hs. pose proof (Ho n) as Hn. rewrite Hd in Hn. simpl in Hn.
    destruct (r !! n) as [d0|] eqn:H0; [|discriminate]. injection Hn as Hn.
    destruct (Hso n d0 H0 Hs) as (p & Hp & Hpo).
    pose proof (Ho (parent_name n)) as Hpn. rewrite Hp in Hpn. simpl in Hpn.
    destruct (r1 !! parent_name n) as [p1|]; [|discriminate]. injection Hpn as Hpn.
    exists p1. split; [done|]. congruence.
Qed.

Lemma inv_expiry_delete_subs (r r1 : gmap name domain) :
  (forall n, r1 !! n = r !! n \/ (r1 !! n = None /\ is_sub n = true)) ->
  names_wf r /\ subs_expire r -> names_wf r1 /\ subs_expire r1.
Proof.
  intros Hd [Hwf Hso]. split.
  - intros n d H1. destruct (Hd n) as [He|[He _]]; rewrite He in H1; [by eapply Hwf|discriminate].
  - intros n d H1 Hs. destruct (Hd n) as [He|[He _]]; rewrite He in H1; [|discriminate].
    destruct (Hso n d H1 Hs) as (p & Hp & Hpo). exists p. split; [|done].
    destruct (Hd (parent_name n)) as [Hpe|[_ Hps]]; [by rewrite Hpe|].
    rewrite parent_not_sub in Hps; [discriminate|]. by eapply Hwf.
Qed.

Lemma uncommitted_false s p n d :
  existsb (fun n0 => is_sub_of p n0 && negb (bool_decide (n0 ∈ snap s)))
          (map fst (map_to_list (reg s))) = false ->
  reg s !! n = Some d -> is_sub_of p n = true -> visited s p n = true.
Proof.
  unfold visited. intros Ht Hn Hs. rewrite Hs. simpl.
  destruct (bool_decide (n ∈ snap s)) eqn:Hin; [done|exfalso].
  assert (existsb (fun n0 => is_sub_of p n0 && negb (bool_decide (n0 ∈ snap s)))
            (map fst (map_to_list (reg s))) = true) as Hex; [|congruence].
  apply existsb_exists. exists n. split.
  - apply elem_of_list_In. apply elem_of_list_fmap. exists (n, d). split; [done|].
    by apply elem_of_map_to_list.
  - by rewrite Hs, Hin.
Qed.

Theorem run_op_sub_expiry_inv e s o s1 : run_op e s o = Some s1 ->
  trig_uncommitted s o = false -> sub_expiry_eq_inv s -> sub_expiry_eq_inv s1.
Proof.
  intros H Ht Hinv. unfold sub_expiry_eq_inv in *.
  destruct o as [a b n0 uo u p|a b n0 act uo u|a n0 p c|a b n0 p|a n0 p|a n0 p|a n0]; simpl in H.
  - (* create *)
    unfold run_create in H.
    destruct (p <=? o_base (e_opts e)); [discriminate|].
    destruct (bool_decide (is_Some (reg s !! n0))) eqn:Hex; [discriminate|].
    apply bool_decide_eq_false in Hex. rewrite <- eq_None_not_Some in Hex.
    destruct (debit (bal s) a p); [|discriminate].
    destruct (negb (name_valid (e_opts e) n0)) eqn:Hval; [discriminate|].
    apply negb_false_iff, name_valid_len in Hval.
    destruct (negb (u =? "")%string && negb uo); [discriminate|].
    destruct Hinv as [Hwf Hso].
    assert (forall (x : option Z) x', (if is_sub n0 then
               match reg s !! parent_name n0 with
               | Some p0 => if bool_decide (d_owner p0 = a) then Some (d_expiry p0) else None
               | None => None end else x) = Some x' ->
             is_sub n0 = true -> exists p0, reg s !! parent_name n0 = Some p0 /\ d_expiry p0 = x') as Hpar.
    { intros x x' Hm Hs. rewrite Hs in Hm. destruct (reg s !! parent_name n0) as [p0|]; [|discriminate].
      destruct (bool_decide (d_owner p0 = a)); [|discriminate]. injection Hm as <-. by exists p0. }
    match type of H with match ?X with _ => _ end = _ => destruct X as [x|] eqn:Hx; [|discriminate] end.
    injection H as <-. simpl. split.
    + intros n d Hd. destruct (decide (n = n0)) as [->|Hne]; [done|].
      rewrite lookup_insert_ne in Hd by done. by eapply Hwf.
    + intros n d Hd Hs. destruct (decide (n = n0)) as [->|Hne].
      * rewrite lookup_insert in Hd. injection Hd as <-. simpl.
        destruct (Hpar _ _ Hx Hs) as (p0 & Hp0 & Ho). exists p0. split; [|done].
        rewrite lookup_insert_ne; [done|]. intros Heq. rewrite Heq in Hp0. congruence.
      * rewrite lookup_insert_ne in Hd by done. destruct (Hso n d Hd Hs) as (p0 & Hp0 & Ho).
        exists p0. split; [|done]. rewrite lookup_insert_ne; [done|]. intros Heq.
        rewrite <- Heq in Hp0. congruence.
  - (* update *)
    unfold run_update in H.
    destruct (reg s !! n0) as [d|] eqn:Hd; [|discriminate].
    destruct (negb (is_changeable d (e_h e))); [discriminate|].
    destruct (negb (bool_decide (d_owner d = a))); [discriminate|].
    destruct (negb (u =? "")%string && negb uo); [discriminate|].
    injection H as <-. simpl. eapply inv_expiry_preserving; [|exact Hinv].
    intros n. destruct (decide (n = n0)) as [->|Hne].
    + by rewrite lookup_insert, Hd.
    + rewrite lookup_insert_ne by done. destruct (negb act && negb (is_sub n0)); [|done].
      rewrite lookup_map_subs. destruct (visited s n0 n); [|done].
      destruct (reg s !! n); reflexivity.
  - (* sell *)
    unfold run_sell in H.
    destruct (p <=? o_perblock (e_opts e)); [discriminate|].
    destruct (p <? 0); [discriminate|]. destruct (is_sub n0); [discriminate|].
    destruct (reg s !! n0) as [d|] eqn:Hd; [|discriminate].
    destruct (negb (bool_decide (d_owner d = a))); [discriminate|].
    destruct (negb (is_changeable d (e_h e))); [discriminate|].
    destruct (is_expired d (e_h e)); [discriminate|].
    injection H as <-. simpl. eapply inv_expiry_preserving; [|exact Hinv].
    intros n. destruct (decide (n = n0)) as [->|Hne].
    + rewrite lookup_insert, Hd. by destruct c.
    + by rewrite lookup_insert_ne.
  - (* purchase *)
    unfold run_purchase in H.
    destruct (reg s !! n0) as [d|] eqn:Hd; [|discriminate].
    destruct (negb (d_onsale d) && (e_v e <=? d_expiry d)); [discriminate|].
    destruct (is_sub n0) eqn:Hsub0; [discriminate|].
    destruct Hinv as [Hwf Hso].
    assert (length n0 = 2%nat) as Hlen.
    { pose proof (Hwf _ _ Hd). unfold is_sub in Hsub0. apply Nat.leb_gt in Hsub0. lia. }
    assert (forall d' : domain,
      names_wf (<[n0:=d']> (delete_subs s n0)) /\ subs_expire (<[n0:=d']> (delete_subs s n0))) as Hgoal.
    { intros d'. split.
      - intros n dn Hn. destruct (decide (n = n0)) as [->|Hne]; [lia|].
        rewrite lookup_insert_ne in Hn by done. rewrite lookup_delete_subs in Hn.
        destruct (visited s n0 n); [discriminate|]. by eapply Hwf.
      - intros n dn Hn Hs. destruct (decide (n = n0)) as [->|Hne]; [congruence|].
        rewrite lookup_insert_ne in Hn by done. rewrite lookup_delete_subs in Hn.
        destruct (visited s n0 n) eqn:Hv; [discriminate|].
        destruct (Hso n dn Hn Hs) as (p0 & Hp0 & Ho).
        destruct (decide (parent_name n = n0)) as [Hpn|Hpn].
        + exfalso. pose proof (parent_is_sub_of n Hs) as Hso'. rewrite Hpn in Hso'.
          pose proof (uncommitted_false _ _ _ _ Ht Hn Hso'). congruence.
        + exists p0. split; [|done]. rewrite lookup_insert_ne by done. rewrite lookup_delete_subs.
          destruct (visited s n0 (parent_name n)) eqn:Hvp; [|done].
          apply visited_sub in Hvp. apply (is_sub_of_parent _ _ Hlen) in Hvp as [_ Hps].
          rewrite parent_not_sub in Hps; [discriminate|]. by eapply Hwf. }
    repeat (match type of H with
            | match ?X with _ => _ end = _ => destruct X eqn:?; try discriminate
            | (if ?X then _ else _) = _ => destruct X eqn:?; try discriminate
            | (let '(_, _) := ?X in _) = _ => destruct X eqn:?
            end).
    all: injection H as <-; simpl; apply Hgoal.
  - (* send *)
    apply send_changes in H as (Hr & _). by rewrite Hr.
  - (* renew: the parent and every committed sub-name get the same new expiry; outside the
       trigger there is no other sub-name *)
    unfold run_renew in H.
    destruct (p <=? o_perblock (e_opts e)); [discriminate|].
    destruct (is_sub n0) eqn:Hsub0; [discriminate|].
    destruct (reg s !! n0) as [d|] eqn:Hd; [|discriminate].
    destruct (negb (is_changeable d (e_h e))); [discriminate|].
    destruct (is_expired d (e_v e)); [discriminate|].
    destruct (negb (bool_decide (d_owner d = a))); [discriminate|].
    destruct (debit (bal s) a p); [|discriminate].
    destruct (blocks_bought p (o_perblock (e_opts e))); [|discriminate].
    destruct (expiry_overflows (d_expiry d) z); [discriminate|].
    destruct Hinv as [Hwf Hso].
    assert (length n0 = 2%nat) as Hlen.
    { pose proof (Hwf _ _ Hd). unfold is_sub in Hsub0. apply Nat.leb_gt in Hsub0. lia. }
    injection H as <-. simpl. split.
    + intros n dn Hn. destruct (decide (n = n0)) as [->|Hne]; [lia|].
      rewrite lookup_insert_ne in Hn by done. rewrite lookup_map_subs in Hn.
      destruct (reg s !! n) as [d0|] eqn:H0; [by eapply Hwf|].
      destruct (visited s n0 n); discriminate.
    + intros n dn Hn Hs. destruct (decide (n = n0)) as [->|Hne]; [congruence|].
      rewrite lookup_insert_ne in Hn by done. rewrite lookup_map_subs in Hn.
      destruct (reg s !! n) as [d0|] eqn:H0; [|destruct (visited s n0 n); discriminate].
      destruct (visited s n0 n) eqn:Hv.
      * simpl in Hn. injection Hn as <-. simpl.
        pose proof (visited_sub _ _ _ Hv) as Hsub. apply (is_sub_of_parent _ _ Hlen) in Hsub as [Hpn _].
        rewrite Hpn, lookup_insert. eexists. split; [done|]. done.
      * injection Hn as <-. destruct (Hso n d0 H0 Hs) as (p0 & Hp0 & Ho).
        destruct (decide (parent_name n = n0)) as [Hpn|Hpn].
        -- exfalso. pose proof (parent_is_sub_of n Hs) as Hso'. rewrite Hpn in Hso'.
           pose proof (uncommitted_false _ _ _ _ Ht H0 Hso'). congruence.
        -- exists p0. split; [|done]. rewrite lookup_insert_ne by done. rewrite lookup_map_subs.
           destruct (visited s n0 (parent_name n)) eqn:Hvp; [|done].
           apply visited_sub in Hvp. apply (is_sub_of_parent _ _ Hlen) in Hvp as [_ Hps].
           rewrite parent_not_sub in Hps; [discriminate|]. by eapply Hwf.
  - (* delete-sub *)
    unfold run_deletesub in H.
    destruct (reg s !! (if is_sub n0 then parent_name n0 else n0)) as [p|] eqn:Hp; [|discriminate].
    destruct (negb (is_changeable p (e_h e))); [discriminate|].
    destruct (negb (bool_decide (d_owner p = a))); [discriminate|].
    destruct (is_sub n0) eqn:Hsub.
    + destruct (reg s !! n0) as [d|] eqn:Hd; [|discriminate].
      injection H as <-. simpl. eapply inv_expiry_delete_subs; [|exact Hinv].
      intros n. destruct (decide (n = n0)) as [->|Hne].
      * right. by rewrite lookup_delete.
      * left. by rewrite lookup_delete_ne.
    + injection H as <-. simpl. eapply inv_expiry_delete_subs; [|exact Hinv].
      intros n. rewrite lookup_delete_subs. destruct (visited s n0 n) eqn:Hv; [right|by left].
      split; [done|]. apply visited_sub in Hv. destruct Hinv as [Hwf _].
      pose proof (Hwf _ _ Hp) as Hl. unfold is_sub_of in Hv. apply andb_true_iff in Hv as [Hv _].
      apply Nat.ltb_lt in Hv. unfold is_sub. apply Nat.leb_le. lia.
Qed.

Theorem deliver_sub_expiry_inv s t : trig_uncommitted s (t_op t) = false ->
  sub_expiry_eq_inv s -> sub_expiry_eq_inv (deliver s t).1.
Proof.
  intros Ht Hinv. unfold deliver. destruct (negb (validate t)); [done|].
  destruct (run_op (t_env t) s (t_op t)) as [s1|] eqn:Hop; [|done].
  destruct (fee_step s1 t) as [s2|] eqn:Hf; [|done]. simpl.
  apply fee_step_spec in Hf as (f & _ & Hr & _). unfold sub_expiry_eq_inv. rewrite Hr.
  by eapply run_op_sub_expiry_inv.
Qed.

Fixpoint no_trigger_u (s : state) (evs : list event) : Prop :=
  match evs with
  | [] => True
  | Tx t :: rest => trig_uncommitted s (t_op t) = false /\ no_trigger_u (deliver s t).1 rest
  | EndBlock :: rest => no_trigger_u (end_block s) rest
  end.

Theorem history_sub_expiry_inv evs : forall s, sub_expiry_eq_inv s -> no_trigger_u s evs ->
  sub_expiry_eq_inv (run s evs).
Proof.
  induction evs as [|ev evs IH]; intros s Hinv Hnt; simpl in *; [done|].
  destruct ev as [t|]; simpl in *.
  - destruct Hnt as [Ht Hnt]. apply IH; [by apply deliver_sub_expiry_inv|done].
  - apply IH; done.
Qed.

Lemma init_sub_expiry_inv b : sub_expiry_eq_inv (init_state b).
Proof. split; intros n d H; simpl in H; by rewrite lookup_empty in H. Qed.
