(* AllegationProofs.v — lemmas about the allegation model (coq/theories/Allegation.v). *)
From stdpp Require Import gmap list.
From Coq Require Import ZArith Bool Lia.
From OL Require Import theories.Allegation.
Local Open Scope Z_scope.
