(* AllegationProofs.v — lemmas about the allegation model (coq/theories/Allegation.v). *)
From stdpp Require Import gmap list.
From Coq Require Import ZArith Bool Lia.
From OL Require Import theories.Allegation.
Local Open Scope Z_scope.

(* ---------- handlers: who may open / vote; frozen guards; release time ---------- *)
Lemma allege_ok : forall s id rep mal bh s' ev,
  do_allege s id rep mal bh = (s', ev) -> In (EvTx true) ev ->
  is_active s rep = true /\ is_frozen s mal = false /\ rep <> mal /\ bh <= height s /\
  reqs s !! id = None /\ request_exists s mal = false.
Proof.
  intros s id rep mal bh s' ev H Hin. unfold do_allege in H.
  destruct (bh >? height s) eqn:E1; simpl in H.
  { inversion H; subst. simpl in Hin. intuition congruence. }
  destruct (is_frozen s mal) eqn:E2; simpl in H.
  { inversion H; subst. simpl in Hin. intuition congruence. }
  destruct (is_active s rep) eqn:E3; simpl in H.
  2:{ inversion H; subst. simpl in Hin. intuition congruence. }
  destruct (rep =? mal) eqn:E4; simpl in H.
  { inversion H; subst. simpl in Hin. intuition congruence. }
  destruct (bool_decide (is_Some (reqs s !! id))) eqn:E5; simpl in H.
  { inversion H; subst. simpl in Hin. intuition congruence. }
  destruct (request_exists s mal) eqn:E6; simpl in H.
  { inversion H; subst. simpl in Hin. intuition congruence. }
  apply bool_decide_eq_false in E5. rewrite <- eq_None_not_Some in E5.
  repeat split; auto; lia.
Qed.

Lemma vote_ok : forall s id a ch s' ev,
  do_vote s id a ch = (s', ev) -> In (EvTx true) ev ->
  is_active s a = true /\ is_frozen s a = false /\ (ch = YES \/ ch = NO) /\
  exists r, reqs s !! id = Some r /\ voted a (r_votes r) = false /\
    s' = set_reqs s (<[id := {| r_rep := r_rep r; r_mal := r_mal r; r_h := r_h r; r_status := r_status r;
                               r_votes := ins_vote (a, ch) (r_votes r) |}]> (reqs s)) /\
    ev = [EvTx true; EvVote id a ch].
Proof.
  intros s id a ch s' ev H Hin. unfold do_vote in H.
  destruct (is_frozen s a) eqn:E1; simpl in H.
  { inversion H; subst. simpl in Hin. intuition congruence. }
  destruct (is_active s a) eqn:E2; simpl in H.
  2:{ inversion H; subst. simpl in Hin. intuition congruence. }
  destruct (reqs s !! id) as [r|] eqn:E3.
  2:{ inversion H; subst. simpl in Hin. intuition congruence. }
  destruct ((ch =? YES) || (ch =? NO)) eqn:E4; simpl in H.
  2:{ inversion H; subst. simpl in Hin. intuition congruence. }
  destruct (r_status r =? GUILTY) eqn:E5; simpl in H.
  { inversion H; subst. simpl in Hin. intuition congruence. }
  destruct (r_status r =? INNOCENT) eqn:E6; simpl in H.
  { inversion H; subst. simpl in Hin. intuition congruence. }
  destruct (voted a (r_votes r)) eqn:E7; simpl in H.
  { inversion H; subst. simpl in Hin. intuition congruence. }
  inversion H; subst. repeat split; auto.
  - apply orb_true_iff in E4. destruct E4 as [E|E]; apply Z.eqb_eq in E; auto.
  - exists r. auto.
Qed.

Lemma outsider_cannot_open : forall s id rep mal bh,
  is_active s rep = false -> do_allege s id rep mal bh = (s, [EvTx false]).
Proof.
  intros. unfold do_allege. rewrite H. simpl. rewrite !orb_true_r. simpl. reflexivity.
Qed.
Lemma outsider_cannot_vote : forall s id a ch,
  is_active s a = false -> do_vote s id a ch = (s, [EvTx false]).
Proof. intros. unfold do_vote. rewrite H. simpl. rewrite orb_true_r. reflexivity. Qed.
Lemma frozen_cannot_vote : forall s id a ch,
  is_frozen s a = true -> do_vote s id a ch = (s, [EvTx false]).
Proof. intros. unfold do_vote. rewrite H. reflexivity. Qed.
Lemma frozen_not_accused_again : forall s id rep mal bh,
  is_frozen s mal = true -> do_allege s id rep mal bh = (s, [EvTx false]).
Proof. intros. unfold do_allege. rewrite H. rewrite orb_true_r. reflexivity. Qed.

Lemma frozen_staking_rejected : forall s kind v envok delta,
  is_frozen s v = true -> do_stake s kind v envok delta = (s, [EvTx false]).
Proof. intros. unfold do_stake. rewrite H. reflexivity. Qed.

Lemma release_ok : forall c s a s' ev,
  do_release c s a = (s', ev) -> In (EvTx true) ev ->
  exists l, susp s !! a = Some l /\ lvh_frozen l = true /\
    (l_status l = MISSED \/ (l_status l = BYZ /\ now s > l_fat l + releaseDays c * DAY)) /\
    susp s' !! a = Some {| l_status := l_status l; l_fh := l_fh l; l_fat := l_fat l; l_rh := height s; l_rat := Some (now s) |}.
Proof.
  intros c s a s' ev H Hin. unfold do_release in H.
  destruct (susp s !! a) as [l|] eqn:E.
  2:{ inversion H; subst. simpl in Hin. intuition congruence. }
  destruct (lvh_frozen l) eqn:E1; simpl in H.
  2:{ inversion H; subst. simpl in Hin. intuition congruence. }
  destruct (release_ready c l (now s)) eqn:E2; simpl in H.
  2:{ inversion H; subst. simpl in Hin. intuition congruence. }
  inversion H; subst. exists l. repeat split; auto.
  - unfold release_ready in E2. destruct (l_status l =? MISSED) eqn:E3.
    + left. apply Z.eqb_eq in E3. auto.
    + destruct (l_status l =? BYZ) eqn:E4; [|discriminate]. right. apply Z.eqb_eq in E4. split; auto. lia.
  - simpl. apply lookup_insert.
Qed.

Lemma release_unfreezes_iff_later : forall c s a s' ev l,
  do_release c s a = (s', ev) -> In (EvTx true) ev -> susp s !! a = Some l ->
  is_frozen s' a = negb (now s >? l_fat l).
Proof.
  intros c s a s' ev l H Hin Hl. destruct (release_ok _ _ _ _ _ H Hin) as (l' & E & _ & _ & E').
  rewrite Hl in E. inversion E; subst l'. unfold is_frozen. rewrite E'. reflexivity.
Qed.

(* ---------- penalty and bounty arithmetic ---------- *)
Lemma penalty_rounds_half_up : forall c st, 0 < penDec c ->
  2 * penDec c * penalty c st <= 2 * st * penBase c + penDec c < 2 * penDec c * (penalty c st + 1).
Proof.
  intros c st Hd. unfold penalty.
  pose proof (Z.div_mod (2 * st * penBase c + penDec c) (2 * penDec c)).
  pose proof (Z.mod_pos_bound (2 * st * penBase c + penDec c) (2 * penDec c)). lia.
Qed.

Lemma penalty_nonneg : forall c st, 0 < penDec c -> 0 <= penBase c -> 0 <= st -> 0 <= penalty c st.
Proof. intros. unfold penalty. apply Z.div_pos; nia. Qed.

Lemma penalty_le_stake : forall c st, 0 < penDec c -> 0 <= penBase c <= penDec c -> 0 <= st ->
  penalty c st <= st.
Proof.
  intros c st Hd Hb Hs. pose proof (penalty_rounds_half_up c st Hd) as [H1 _]. nia.
Qed.

Lemma bounty_le_penalty : forall c p, 0 <= p -> 0 < oltDec c -> 0 < bountyDec c ->
  0 <= bountyPct c <= bountyDec c -> 0 <= bounty_of c p <= p * oltDec c.
Proof.
  intros c p Hp Ho Hd Hb. unfold bounty_of. split.
  - apply Z.div_pos; nia.
  - apply Z.div_le_upper_bound; nia.
Qed.

(* ---------- votes: one per validator, every recorded vote was cast by a vote transaction ---------- *)
Definition votes_inv (s : St) (log : list Ev) : Prop :=
  forall id r, reqs s !! id = Some r ->
    NoDup (r_votes r).*1 /\ forall a ch, (a, ch) ∈ r_votes r -> EvVote id a ch ∈ log.

Lemma voted_false : forall a vs, voted a vs = false -> a ∉ vs.*1.
Proof.
  induction vs as [|v vs IH]; simpl; intros H.
  - apply not_elem_of_nil.
  - apply orb_false_iff in H. destruct H as [H1 H2]. apply not_elem_of_cons. split.
    + apply Z.eqb_neq in H1. congruence.
    + apply IH. exact H2.
Qed.

Lemma ins_vote_perm : forall v vs, ins_vote v vs ≡ₚ v :: vs.
Proof.
  induction vs as [|w vs IH]; simpl; [reflexivity|].
  destruct (v.1 <? w.1); [reflexivity|]. rewrite IH. apply Permutation_swap.
Qed.

Lemma NoDup_filter_fst : forall (P : Z * Z -> Prop) `{!forall x, Decision (P x)} (l : list (Z * Z)),
  NoDup l.*1 -> NoDup (filter P l).*1.
Proof.
  intros P HP l. induction l as [|x l IH]; simpl; intros H; [constructor|].
  apply NoDup_cons in H. destruct H as [H1 H2]. rewrite filter_cons.
  destruct (decide (P x)); [|auto]. simpl. apply NoDup_cons. split; [|auto].
  intros Hin. apply H1. apply elem_of_list_fmap in Hin. destruct Hin as (y & Hy & Hin).
  apply elem_of_list_filter in Hin. apply elem_of_list_fmap. exists y. tauto.
Qed.

Lemma clean_go_sub : forall ids seen rq k r, clean_go ids seen rq !! k = Some r -> rq !! k = Some r.
Proof.
  induction ids as [|id ids IH]; simpl; intros seen rq k r H; [exact H|].
  destruct (rq !! id) as [r0|] eqn:E.
  - destruct (inb (r_mal r0) seen).
    + apply IH in H. apply lookup_delete_Some in H. tauto.
    + eapply IH. exact H.
  - eapply IH. exact H.
Qed.

Lemma clean_reqs_sub : forall s, reqs (clean s) ⊆ reqs s.
Proof. intros s. apply map_subseteq_spec. intros k r H. simpl in H. eapply clean_go_sub. exact H. Qed.

(* the events of BeginBlock / EndBlock contain no vote events *)
Definition not_vote_ev (e : Ev) : Prop := match e with EvVote _ _ _ => False | _ => True end.

Definition scan_frame (x y : St * list Z * list Ev) : Prop :=
  reqs y.1.1 = reqs x.1.1 /\ vstat y.1.1 = vstat x.1.1 /\ stake y.1.1 = stake x.1.1 /\
  bounty y.1.1 = bounty x.1.1 /\ tracker y.1.1 = tracker x.1.1 /\ ckeys y.1.1 = ckeys x.1.1 /\
  (Forall not_vote_ev x.2 -> Forall not_vote_ev y.2).

Lemma scan_one_frame : forall c h t acc a, scan_frame acc (scan_one h t c acc a).
Proof.
  intros c h t [[s m] ev] a. unfold scan_one, scan_frame.
  destruct (inb a m); [simpl; tauto|].
  destruct (vstat s !! a) as [v|]; [|simpl; tauto].
  destruct (v_active v && (v_height v + blockVotesDiff c <=? h)); simpl; [|tauto].
  repeat split; auto. intros F. apply Forall_app. split; auto. repeat constructor.
Qed.

Lemma scan_fold_frame : forall c h t low acc, scan_frame acc (fold_left (scan_one h t c) low acc).
Proof.
  induction low as [|a low IH]; simpl; intros acc.
  - unfold scan_frame. tauto.
  - pose proof (scan_one_frame c h t acc a) as A. pose proof (IH (scan_one h t c acc a)) as B.
    unfold scan_frame in *. destruct A as (A1&A2&A3&A4&A5&A6&A7). destruct B as (B1&B2&B3&B4&B5&B6&B7).
    repeat split; try congruence. auto.
Qed.

Lemma begin_block_frame : forall c s h t low s' ev, begin_block c s h t low = (s', ev) ->
  reqs s' = reqs s /\ vstat s' = vstat s /\ stake s' = stake s /\ bounty s' = bounty s /\ Forall not_vote_ev ev.
Proof.
  intros c s h t low s' ev H. unfold begin_block in H. destruct (h <=? blockVotesDiff c).
  - inversion H; subst. simpl. repeat split; auto.
  - pose proof (scan_fold_frame c h t low (s, frozen_keys s, [])) as F.
    destruct (fold_left (scan_one h t c) low (s, frozen_keys s, [])) as [[s1 m] ev1] eqn:E.
    inversion H; subst. unfold scan_frame in F. simpl in *. destruct F as (H1 & H2 & H3 & H4 & _ & _ & H7).
    repeat split; auto.
Qed.

(* ---------- the tally ---------- *)
Definition verdict_sound (c : Cfg) (rq0 : gmap Z Req) (req active : Z) (e : Ev) : Prop :=
  match e with
  | EvVerdict id mal st yes no rq act =>
      rq = req /\ act = active /\
      exists r, rq0 !! id = Some r /\ r_mal r = mal /\
        yes = count_choice YES (r_votes r) /\ no = count_choice NO (r_votes r) /\
        ((st = GUILTY /\ guilty_x c yes req = true) \/
         (st = INNOCENT /\ guilty_x c yes req = false /\ innocent_x c no req = true))
  | EvVote _ _ _ => False
  | _ => True
  end.

Lemma process_req_sound : forall c q active req rq0 acc id,
  reqs acc.1.1 ⊆ rq0 -> Forall (verdict_sound c rq0 req active) acc.2 ->
  reqs (process_req c q active req acc id).1.1 ⊆ rq0 /\
  Forall (verdict_sound c rq0 req active) (process_req c q active req acc id).2 /\
  vstat (process_req c q active req acc id).1.1 = vstat acc.1.1.
Proof.
  intros c q active req rq0 [[s dec] ev] id Hsub Hev. simpl in Hsub, Hev. unfold process_req.
  destruct (reqs s !! id) as [r|] eqn:E; [|simpl; auto].
  assert (Hr : rq0 !! id = Some r) by (eapply lookup_weaken; eauto).
  destruct (guilty_x c (count_choice YES (r_votes r)) req) eqn:G.
  - destruct (negb (inb (r_mal r) q.*1)).
    + simpl. repeat split; auto. apply Forall_app. split; auto. repeat constructor.
    + destruct (0 <=? default 0 (stake (set_susp s _) !! r_mal r) - penalty c _) eqn:P; simpl.
      * repeat split; auto.
        -- etrans; [apply delete_subseteq|]. exact Hsub.
        -- rewrite !Forall_app. repeat split; auto; repeat constructor; auto.
           exists r. repeat split; auto.
      * repeat split; auto.
        -- etrans; [apply delete_subseteq|]. exact Hsub.
        -- rewrite !Forall_app. repeat split; auto; repeat constructor; auto.
           exists r. repeat split; auto.
  - destruct (innocent_x c (count_choice NO (r_votes r)) req) eqn:I; simpl; [|auto].
    repeat split; auto.
    + etrans; [apply delete_subseteq|]. exact Hsub.
    + apply Forall_app. split; auto. repeat constructor; auto. exists r. repeat split; auto.
Qed.

Lemma process_fold_sound : forall c q active req rq0 ids acc,
  reqs acc.1.1 ⊆ rq0 -> Forall (verdict_sound c rq0 req active) acc.2 ->
  reqs (fold_left (process_req c q active req) ids acc).1.1 ⊆ rq0 /\
  Forall (verdict_sound c rq0 req active) (fold_left (process_req c q active req) ids acc).2 /\
  vstat (fold_left (process_req c q active req) ids acc).1.1 = vstat acc.1.1.
Proof.
  induction ids as [|id ids IH]; simpl; intros acc H1 H2; [auto|].
  destruct (process_req_sound c q active req rq0 acc id H1 H2) as (A & B & C).
  destruct (IH _ A B) as (A' & B' & C'). repeat split; auto. congruence.
Qed.

Lemma verdict_sound_mono : forall c rq0 rq1 req active e, rq0 ⊆ rq1 ->
  verdict_sound c rq0 req active e -> verdict_sound c rq1 req active e.
Proof.
  intros c rq0 rq1 req active e Hsub H. destruct e; simpl in *; auto.
  destruct H as (A & B & r & Hr & H). repeat split; auto. exists r. split; auto.
  eapply lookup_weaken; eauto.
Qed.

Lemma end_block_sound : forall c s q ord s' ev, end_block c s q ord = (s', ev) ->
  reqs s' ⊆ reqs s /\
  Forall (verdict_sound c (reqs s) (required_x c (elect c s q).2) (elect c s q).2) ev /\
  (1 < height s -> vstat s' = (elect c s q).1).
Proof.
  intros c s q ord s' ev H. unfold end_block in H.
  destruct (height s <=? 1) eqn:Hh.
  { inversion H; subst. simpl. repeat split; auto. lia. }
  destruct (elect c s q) as [vs active] eqn:El.
  destruct (active =? 0).
  { inversion H; subst. simpl. repeat split; auto. }
  destruct ((voteDec c <=? 0) || (allegDec c <=? 0)).
  { inversion H; subst. simpl. repeat split; auto. }
  set (s2 := clean (set_vstat s vs)) in *.
  destruct (fold_left (process_req c q active (required_x c active)) (range_order (tracker s2) ord) (s2, [], []))
    as [[s3 dec] ev3] eqn:F.
  inversion H; subst. simpl.
  pose proof (process_fold_sound c q active (required_x c active) (reqs s2) (range_order (tracker s2) ord) (s2, [], [])
               (reflexivity _) (Forall_nil_2 _)) as (A & B & C).
  rewrite F in A, B, C. simpl in A, B, C.
  assert (Hs2 : reqs s2 ⊆ reqs s) by (subst s2; apply (clean_reqs_sub (set_vstat s vs))).
  repeat split.
  - etrans; eauto.
  - eapply Forall_impl; [exact B|]. intros e He. eapply verdict_sound_mono; eauto.
  - intros _. rewrite C. reflexivity.
Qed.

Lemma classic_tx_ok : forall ev : list Ev, In (EvTx true) ev \/ ~ In (EvTx true) ev.
Proof.
  induction ev as [|e ev IH]; simpl; [tauto|].
  destruct IH as [IH|IH]; [tauto|].
  destruct e as [[|]| | | | | |]; try (right; intros [H|H]; [discriminate|tauto]). left. auto.
Qed.

(* ---------- invariant preservation and the verdict theorem ---------- *)
Lemma votes_inv_weaken : forall s s' log log', reqs s' ⊆ reqs s -> (forall e, e ∈ log -> e ∈ log') ->
  votes_inv s log -> votes_inv s' log'.
Proof.
  intros s s' log log' Hsub Hlog Inv id r Hr.
  destruct (Inv id r (lookup_weaken _ _ _ _ Hr Hsub)) as [A B]. split; auto.
Qed.

Lemma step_inv : forall c s o s' ev log, votes_inv s log -> step c s o = (s', ev) -> votes_inv s' (log ++ ev).
Proof.
  intros c s o s' ev log Inv H. destruct o as [h t low|id rep mal bh|id a ch|a|k v ok d| |q ord]; simpl in H.
  - apply begin_block_frame in H. destruct H as (Hr & _). eapply votes_inv_weaken; [| |exact Inv].
    + rewrite Hr. reflexivity.
    + intros e He. apply elem_of_app. auto.
  - unfold do_allege in H.
    destruct ((bh >? height s) || is_frozen s mal || negb (is_active s rep) || (rep =? mal)
              || bool_decide (is_Some (reqs s !! id)) || request_exists s mal) eqn:E.
    + inversion H; subst. eapply votes_inv_weaken; [reflexivity| |exact Inv]. intros e He. apply elem_of_app. auto.
    + inversion H; subst. intros k r Hk. simpl in Hk. apply clean_go_sub in Hk.
      destruct (decide (k = id)) as [->|Hne].
      * rewrite lookup_insert in Hk. inversion Hk; subst. simpl. split; [constructor|].
        intros a ch Hin. apply elem_of_nil in Hin. tauto.
      * rewrite lookup_insert_ne in Hk by congruence. destruct (Inv k r Hk) as [A B]. split; auto.
        intros a ch Hin. apply elem_of_app. auto.
  - destruct (classic_tx_ok ev) as [Hok|Hno].
    + destruct (vote_ok _ _ _ _ _ _ H Hok) as (Ha & Hf & Hc & r & Hr & Hv & -> & ->).
      intros k r' Hk. simpl in Hk. destruct (decide (k = id)) as [->|Hne].
      * rewrite lookup_insert in Hk. inversion Hk; subst. simpl. destruct (Inv id r Hr) as [A B]. split.
        -- rewrite (ins_vote_perm (a, ch) (r_votes r)). simpl. apply NoDup_cons. split; auto.
           apply voted_false. exact Hv.
        -- intros a' ch' Hin. rewrite (ins_vote_perm (a, ch) (r_votes r)) in Hin.
           apply elem_of_cons in Hin. destruct Hin as [Heq|Hin].
           ++ inversion Heq; subst. apply elem_of_app. right. apply elem_of_cons. right. apply elem_of_list_singleton. reflexivity.
           ++ apply elem_of_app. left. auto.
      * rewrite lookup_insert_ne in Hk by congruence. destruct (Inv k r' Hk) as [A B]. split; auto.
        intros a' ch' Hin. apply elem_of_app. auto.
    + assert (s' = s) as ->.
      { unfold do_vote in H. destruct (is_frozen s a || negb (is_active s a)); [inversion H; auto|].
        destruct (reqs s !! id) as [r|]; [|inversion H; auto].
        destruct (negb ((ch =? YES) || (ch =? NO)) || (r_status r =? GUILTY) || (r_status r =? INNOCENT) || voted a (r_votes r)).
        - inversion H; auto.
        - inversion H; subst. exfalso. apply Hno. simpl. auto. }
      eapply votes_inv_weaken; [reflexivity| |exact Inv]. intros e He. apply elem_of_app. auto.
  - unfold do_release in H. destruct (susp s !! a) as [l|].
    + destruct (negb (lvh_frozen l) || negb (release_ready c l (now s))); inversion H; subst;
        (eapply votes_inv_weaken; [reflexivity| |exact Inv]; intros e He; apply elem_of_app; auto).
    + inversion H; subst. eapply votes_inv_weaken; [reflexivity| |exact Inv]. intros e He. apply elem_of_app. auto.
  - unfold do_stake in H. destruct (is_frozen s v); [|destruct ((k =? 1) && request_exists s v); [|destruct ok]];
      inversion H; subst; (eapply votes_inv_weaken; [reflexivity| |exact Inv]; intros e He; apply elem_of_app; auto).
  - inversion H; subst. eapply votes_inv_weaken; [reflexivity| |exact Inv]. intros e He. apply elem_of_app. auto.
  - apply end_block_sound in H. destruct H as (Hsub & _). eapply votes_inv_weaken; [exact Hsub| |exact Inv].
    intros e He. apply elem_of_app. auto.
Qed.

Lemma run_inv : forall c ops s log s' log', votes_inv s log -> run c s ops = (s', log') -> votes_inv s' (log ++ log').
Proof.
  induction ops as [|o ops IH]; simpl; intros s log s' log' Inv H.
  - inversion H; subst. rewrite app_nil_r. exact Inv.
  - destruct (step c s o) as [s1 e1] eqn:E1. destruct (run c s1 ops) as [s2 e2] eqn:E2.
    inversion H; subst. rewrite app_assoc. eapply IH; [|exact E2]. eapply step_inv; eauto.
Qed.

Lemma votes_inv_init : forall stk, votes_inv (init_with stk) [].
Proof. intros stk id r H. simpl in H. rewrite lookup_empty in H. discriminate. Qed.

Lemma run_app : forall c ops1 ops2 s s1 l1 s2 l2,
  run c s ops1 = (s1, l1) -> run c s1 ops2 = (s2, l2) -> run c s (ops1 ++ ops2) = (s2, l1 ++ l2).
Proof.
  induction ops1 as [|o ops1 IH]; simpl; intros ops2 s s1 l1 s2 l2 H1 H2.
  - inversion H1; subst. exact H2.
  - destruct (step c s o) as [sa ea] eqn:Ea. destruct (run c sa ops1) as [sb eb] eqn:Eb.
    inversion H1; subst. rewrite (IH ops2 sa s1 eb s2 l2 Eb H2). rewrite app_assoc. reflexivity.
Qed.

(* what a verdict event of a block end certifies, against the log of everything before that block end *)
Definition verdict_certified (c : Cfg) (log : list Ev) (e : Ev) : Prop :=
  match e with
  | EvVerdict id mal st yes no req active =>
      req = required_x c active /\
      ((st = GUILTY /\ guilty_x c yes req = true) \/
       (st = INNOCENT /\ guilty_x c yes req = false /\ innocent_x c no req = true)) /\
      exists ys ns : list Z,
        NoDup ys /\ NoDup ns /\ Z.of_nat (length ys) = yes /\ Z.of_nat (length ns) = no /\
        (forall a, a ∈ ys -> EvVote id a YES ∈ log) /\ (forall a, a ∈ ns -> EvVote id a NO ∈ log)
  | _ => True
  end.

Lemma voters_of : forall (vs : list (Z * Z)) ch id (log : list Ev),
  NoDup vs.*1 -> (forall a c0, (a, c0) ∈ vs -> EvVote id a c0 ∈ log) ->
  exists l : list Z, NoDup l /\ Z.of_nat (length l) = count_choice ch vs /\ forall a, a ∈ l -> EvVote id a ch ∈ log.
Proof.
  intros vs ch id log ND Hlog. exists (filter (fun v : Z * Z => v.2 = ch) vs).*1. repeat split.
  - apply NoDup_filter_fst. exact ND.
  - unfold count_choice. rewrite fmap_length. reflexivity.
  - intros a Ha. apply elem_of_list_fmap in Ha. destruct Ha as ([a' c'] & -> & Hin).
    apply elem_of_list_filter in Hin. simpl in Hin. destruct Hin as [-> Hin]. simpl. auto.
Qed.

Lemma end_block_certified : forall c s q ord s' ev log, votes_inv s log ->
  end_block c s q ord = (s', ev) -> Forall (verdict_certified c log) ev.
Proof.
  intros c s q ord s' ev log Inv H. apply end_block_sound in H. destruct H as (_ & H & _).
  eapply Forall_impl; [exact H|]. intros e He. destruct e; simpl in *; auto.
  destruct He as (-> & -> & r & Hr & Hm & Hy & Hn & Hv). destruct (Inv _ _ Hr) as [ND Hlog].
  split; [reflexivity|]. split; [exact Hv|].
  destruct (voters_of (r_votes r) YES id log ND Hlog) as (ys & A1 & A2 & A3).
  destruct (voters_of (r_votes r) NO id log ND Hlog) as (ns & B1 & B2 & B3).
  exists ys, ns. repeat split; auto; congruence.
Qed.

Lemma verdict_follows_votes : forall c stk ops1 q ord s1 log1 s2 ev,
  run c (init_with stk) ops1 = (s1, log1) -> step c s1 (OEnd q ord) = (s2, ev) ->
  Forall (verdict_certified c log1) ev.
Proof.
  intros c stk ops1 q ord s1 log1 s2 ev H1 H2. simpl in H2.
  eapply end_block_certified; [|exact H2].
  pose proof (run_inv c ops1 _ [] _ _ (votes_inv_init stk) H1) as Inv. exact Inv.
Qed.

Lemma one_vote_per_validator : forall c stk ops s log id r,
  run c (init_with stk) ops = (s, log) -> reqs s !! id = Some r -> NoDup (r_votes r).*1.
Proof.
  intros c stk ops s log id r H Hr.
  pose proof (run_inv c ops _ [] _ _ (votes_inv_init stk) H) as Inv. destruct (Inv id r Hr). auto.
Qed.

(* a vote event is only produced by an accepted vote transaction of an active, non-frozen validator *)
Lemma step_vote_event : forall c s o s' ev id a ch, step c s o = (s', ev) -> EvVote id a ch ∈ ev ->
  o = OVote id a ch /\ is_active s a = true /\ is_frozen s a = false.
Proof.
  intros c s o s' ev id a ch H Hin. destruct o as [h t low|id' rep mal bh|id' a' ch'|a'|k v ok d| |q ord]; simpl in H.
  - apply begin_block_frame in H. destruct H as (_ & _ & _ & _ & F). rewrite Forall_forall in F.
    exfalso. apply (F _ Hin).
  - unfold do_allege in H. destruct ((bh >? height s) || is_frozen s mal || negb (is_active s rep) || (rep =? mal)
              || bool_decide (is_Some (reqs s !! id')) || request_exists s mal); inversion H; subst;
    repeat (apply elem_of_cons in Hin; destruct Hin as [Hin|Hin]; [discriminate|]); apply elem_of_nil in Hin; tauto.
  - destruct (classic_tx_ok ev) as [Hok|Hno].
    + destruct (vote_ok _ _ _ _ _ _ H Hok) as (Ha & Hf & Hc & r & Hr & Hv & _ & ->).
      apply elem_of_cons in Hin. destruct Hin as [Hin|Hin]; [discriminate|].
      apply elem_of_list_singleton in Hin. inversion Hin; subst. auto.
    + exfalso. unfold do_vote in H. destruct (is_frozen s a' || negb (is_active s a')).
      { inversion H; subst. apply elem_of_list_singleton in Hin. discriminate. }
      destruct (reqs s !! id') as [r|].
      2:{ inversion H; subst. apply elem_of_list_singleton in Hin. discriminate. }
      destruct (negb ((ch' =? YES) || (ch' =? NO)) || (r_status r =? GUILTY) || (r_status r =? INNOCENT) || voted a' (r_votes r)).
      * inversion H; subst. apply elem_of_list_singleton in Hin. discriminate.
      * inversion H; subst. apply Hno. simpl. auto.
  - exfalso. unfold do_release in H. destruct (susp s !! a') as [l|].
    + destruct (negb (lvh_frozen l) || negb (release_ready c l (now s))); inversion H; subst;
      repeat (apply elem_of_cons in Hin; destruct Hin as [Hin|Hin]; [discriminate|]); apply elem_of_nil in Hin; tauto.
    + inversion H; subst. apply elem_of_list_singleton in Hin. discriminate.
  - exfalso. unfold do_stake in H. destruct (is_frozen s v); [|destruct ((k =? 1) && request_exists s v); [|destruct ok]];
      inversion H; subst; apply elem_of_list_singleton in Hin; discriminate.
  - exfalso. inversion H; subst. apply elem_of_list_singleton in Hin. discriminate.
  - exfalso. apply end_block_sound in H. destruct H as (_ & F & _). rewrite Forall_forall in F.
    apply (F _ Hin).
Qed.

Lemma vote_events_from_active : forall c ops s0 s' log id a ch,
  run c s0 ops = (s', log) -> EvVote id a ch ∈ log ->
  exists ops1 ops2 s1 l1, ops = ops1 ++ OVote id a ch :: ops2 /\ run c s0 ops1 = (s1, l1) /\
    is_active s1 a = true /\ is_frozen s1 a = false.
Proof.
  induction ops as [|o ops IH]; simpl; intros s0 s' log id a ch H Hin.
  - inversion H; subst. apply elem_of_nil in Hin. tauto.
  - destruct (step c s0 o) as [s1 e1] eqn:E1. destruct (run c s1 ops) as [s2 e2] eqn:E2.
    inversion H; subst. apply elem_of_app in Hin. destruct Hin as [Hin|Hin].
    + destruct (step_vote_event _ _ _ _ _ _ _ _ E1 Hin) as (-> & A & B).
      exists [], ops, s0, []. simpl. auto.
    + destruct (IH _ _ _ _ _ _ E2 Hin) as (ops1 & ops2 & sx & lx & -> & R & A & B).
      exists (o :: ops1), ops2, sx, (e1 ++ lx). simpl. rewrite E1, R. auto.
Qed.

(* ---------- the shares, in integers ---------- *)
Lemma tally_exact : forall c active yes no req, 0 < voteDec c ->
  (required_x c active - 1) * voteDec c < active * votePct c <= required_x c active * voteDec c /\
  (guilty_x c yes req = true <-> yes * allegDec c > allegPct c * req) /\
  (innocent_x c no req = true <-> no * allegDec c > (allegDec c - allegPct c) * req).
Proof.
  intros c active yes no req Hd. split; [|split].
  - unfold required_x.
    pose proof (Z.div_mod (- (active * votePct c)) (voteDec c)).
    pose proof (Z.mod_pos_bound (- (active * votePct c)) (voteDec c)). nia.
  - unfold guilty_x. rewrite Z.gtb_lt. lia.
  - unfold innocent_x. rewrite Z.gtb_lt. lia.
Qed.

(* ---------- guilty: frozen record, exact penalty, bounty ---------- *)
Lemma process_req_guilty : forall c q active req s dec ev id r s' dec' ev',
  process_req c q active req (s, dec, ev) id = (s', dec', ev') ->
  reqs s !! id = Some r -> guilty_x c (count_choice YES (r_votes r)) req = true ->
  susp s' !! r_mal r = Some {| l_status := BYZ; l_fh := height s; l_fat := now s; l_rh := 0; l_rat := None |} /\
  is_frozen s' (r_mal r) = true /\
  (forall b, b <> r_mal r -> stake s' !! b = stake s !! b) /\
  (inb (r_mal r) q.*1 = true ->
     let amt := default 0 (stake s !! r_mal r) in
     (penalty c amt <= amt -> stake s' !! r_mal r = Some (amt - penalty c amt) /\
                              bounty s' = bounty s + bounty_of c (penalty c amt)) /\
     (amt < penalty c amt -> stake s' = stake s /\ bounty s' = bounty s)).
Proof.
  intros c q active req s dec ev id r s' dec' ev' H Hr G. unfold process_req in H. rewrite Hr, G in H.
  destruct (inb (r_mal r) q.*1) eqn:Q; simpl in H.
  - destruct (0 <=? default 0 (stake s !! r_mal r) - penalty c (default 0 (stake s !! r_mal r))) eqn:P;
      inversion H; subst; simpl.
    + split; [apply lookup_insert|]. split; [unfold is_frozen; simpl; rewrite lookup_insert; reflexivity|].
      split; [intros b Hb; rewrite lookup_insert_ne by congruence; reflexivity|].
      intros _. split.
      * intros _. split; [apply lookup_insert|reflexivity].
      * intros Hlt. lia.
    + split; [apply lookup_insert|]. split; [unfold is_frozen; simpl; rewrite lookup_insert; reflexivity|].
      split; [intros b Hb; reflexivity|].
      intros _. split.
      * intros Hle. lia.
      * intros _. split; reflexivity.
  - inversion H; subst; simpl.
    split; [apply lookup_insert|]. split; [unfold is_frozen; simpl; rewrite lookup_insert; reflexivity|].
    split; [intros b Hb; reflexivity|]. intros D. discriminate.
Qed.

(* ---------- frozen stays frozen ---------- *)
Lemma scan_one_mal : forall c h t a acc x, inb a acc.1.2 = true -> inb a (scan_one h t c acc x).1.2 = true.
Proof.
  intros c h t a [[s m] ev] x H. unfold scan_one. simpl in *. destruct (inb x m); [exact H|].
  destruct (vstat s !! x) as [v|]; [|exact H].
  destruct (v_active v && (v_height v + blockVotesDiff c <=? h)); [|exact H]. simpl. rewrite H. apply orb_true_r.
Qed.

(* an address that is already in the exclusion map keeps its record during the scan *)
Lemma scan_fold_susp : forall c h t a low acc, inb a acc.1.2 = true ->
  susp (fold_left (scan_one h t c) low acc).1.1 !! a = susp acc.1.1 !! a.
Proof.
  induction low as [|x low IH]; simpl; intros acc Hm; [reflexivity|].
  rewrite IH by (apply scan_one_mal; exact Hm).
  destruct acc as [[s m] ev]. unfold scan_one. simpl in *. destruct (inb x m) eqn:Ex; [reflexivity|].
  destruct (vstat s !! x) as [v|]; [|reflexivity].
  destruct (v_active v && (v_height v + blockVotesDiff c <=? h)); [|reflexivity]. simpl.
  destruct (decide (x = a)) as [->|Hne]; [congruence|]. rewrite lookup_insert_ne by congruence. reflexivity.
Qed.

Lemma process_req_byz : forall c q active req acc id a,
  byz_frozen_m acc.1.1 a = true -> byz_frozen_m (process_req c q active req acc id).1.1 a = true.
Proof.
  intros c q active req [[s dec] ev] id a H. simpl in H. unfold process_req.
  destruct (reqs s !! id) as [r|]; [|exact H].
  assert (K : byz_frozen_m (set_susp s (<[r_mal r := {| l_status := BYZ; l_fh := height s; l_fat := now s; l_rh := 0; l_rat := None |}]> (susp s))) a = true).
  { unfold byz_frozen_m in *. simpl. destruct (decide (r_mal r = a)) as [->|Hne].
    - rewrite lookup_insert. reflexivity.
    - rewrite lookup_insert_ne by congruence. exact H. }
  destruct (guilty_x c (count_choice YES (r_votes r)) req).
  - destruct (negb (inb (r_mal r) q.*1)); [exact K|].
    destruct (0 <=? _ - _); simpl; exact K.
  - destruct (innocent_x c (count_choice NO (r_votes r)) req); simpl; exact H.
Qed.

Lemma process_fold_byz : forall c q active req ids acc a,
  byz_frozen_m acc.1.1 a = true -> byz_frozen_m (fold_left (process_req c q active req) ids acc).1.1 a = true.
Proof.
  induction ids as [|id ids IH]; simpl; intros acc a H; [exact H|]. apply IH. apply process_req_byz. exact H.
Qed.

Lemma inb_true_iff : forall x l, inb x l = true <-> x ∈ l.
Proof.
  intros x l. unfold inb. rewrite existsb_exists. split.
  - intros (y & Hy & E). apply Z.eqb_eq in E. subst. apply elem_of_list_In. exact Hy.
  - intros H. exists x. split; [apply elem_of_list_In; exact H|apply Z.eqb_refl].
Qed.

Lemma frozen_in_keys : forall s a, is_frozen s a = true -> inb a (frozen_keys s) = true.
Proof.
  intros s a Hf. apply inb_true_iff. unfold frozen_keys. apply elem_of_list_filter. split; [exact Hf|].
  unfold is_frozen in Hf. destruct (susp s !! a) as [l|] eqn:E; [|discriminate].
  apply elem_of_list_fmap. exists (a, l). split; [reflexivity|]. apply elem_of_map_to_list. exact E.
Qed.

Lemma byz_frozen_is_frozen : forall s a, byz_frozen_m s a = true -> is_frozen s a = true.
Proof.
  intros s a H. unfold byz_frozen_m, is_frozen in *. destruct (susp s !! a); [|discriminate].
  apply andb_true_iff in H. tauto.
Qed.

Lemma frozen_stays_frozen : forall c s o s' ev a,
  byz_frozen_m s a = true -> step c s o = (s', ev) -> o <> ORelease a -> byz_frozen_m s' a = true.
Proof.
  intros c s o s' ev a B H Hne. destruct o as [h t low|id rep mal bh|id a' ch|a'|k v ok d| |q ord]; simpl in H.
  - unfold begin_block in H. destruct (h <=? blockVotesDiff c) eqn:Eh.
    + inversion H; subst. exact B.
    + pose proof (scan_fold_susp c h t a low (s, frozen_keys s, [])
                    (frozen_in_keys s a (byz_frozen_is_frozen s a B))) as F.
      destruct (fold_left (scan_one h t c) low (s, frozen_keys s, [])) as [[s1 m] ev1] eqn:E.
      inversion H; subst. unfold byz_frozen_m in *. simpl in *. rewrite F. exact B.
  - unfold do_allege in H. destruct ((bh >? height s) || is_frozen s mal || negb (is_active s rep) || (rep =? mal)
              || bool_decide (is_Some (reqs s !! id)) || request_exists s mal); inversion H; subst; exact B.
  - unfold do_vote in H. destruct (is_frozen s a' || negb (is_active s a')); [inversion H; subst; exact B|].
    destruct (reqs s !! id) as [r|]; [|inversion H; subst; exact B].
    destruct (negb ((ch =? YES) || (ch =? NO)) || (r_status r =? GUILTY) || (r_status r =? INNOCENT) || voted a' (r_votes r));
      inversion H; subst; exact B.
  - unfold do_release in H. destruct (susp s !! a') as [l|]; [|inversion H; subst; exact B].
    destruct (negb (lvh_frozen l) || negb (release_ready c l (now s))); inversion H; subst; [exact B|].
    unfold byz_frozen_m in *. simpl. rewrite lookup_insert_ne; [exact B|]. intros ->. apply Hne. reflexivity.
  - unfold do_stake in H. destruct (is_frozen s v); [|destruct ((k =? 1) && request_exists s v); [|destruct ok]];
      inversion H; subst; exact B.
  - inversion H; subst. exact B.
  - unfold end_block in H. destruct (height s <=? 1); [inversion H; subst; exact B|].
    destruct (elect c s q) as [vs active]. destruct (active =? 0); [inversion H; subst; exact B|].
    destruct ((voteDec c <=? 0) || (allegDec c <=? 0)); [inversion H; subst; exact B|].
    set (s2 := clean (set_vstat s vs)) in *.
    pose proof (process_fold_byz c q active (required_x c active) (range_order (tracker s2) ord) (s2, [], []) a B) as F.
    destruct (fold_left _ _ _) as [[s3 dec] ev3]. inversion H; subst. exact F.
Qed.

(* whole histories: once found guilty, frozen until released *)
Lemma frozen_until_released : forall c ops s a, byz_frozen_m s a = true ->
  ~ In (ORelease a) ops -> byz_frozen_m (run c s ops).1 a = true.
Proof.
  induction ops as [|o ops IH]; simpl; intros s a B Hn; [exact B|].
  destruct (step c s o) as [s1 e1] eqn:E1. destruct (run c s1 ops) as [s2 e2] eqn:E2. simpl.
  assert (B1 : byz_frozen_m s1 a = true).
  { eapply frozen_stays_frozen; [exact B|exact E1|]. intros ->. apply Hn. left. reflexivity. }
  specialize (IH s1 a B1). rewrite E2 in IH. apply IH. intros Hin. apply Hn. right. exact Hin.
Qed.

(* ---------- a frozen validator drops out of the active set ---------- *)
Lemma scan_fold_mal : forall c h t a low acc, inb a acc.1.2 = true ->
  inb a (fold_left (scan_one h t c) low acc).1.2 = true.
Proof.
  induction low as [|x low IH]; simpl; intros acc H; [exact H|]. apply IH. apply scan_one_mal. exact H.
Qed.

Lemma begin_malicious : forall c s h t low a, is_frozen s a = true ->
  inb a (malicious (begin_block c s h t low).1) = true.
Proof.
  intros c s h t low a Hf. unfold begin_block. destruct (h <=? blockVotesDiff c).
  - simpl. apply frozen_in_keys. exact Hf.
  - pose proof (scan_fold_mal c h t a low (s, frozen_keys s, [])) as F.
    destruct (fold_left (scan_one h t c) low (s, frozen_keys s, [])) as [[s1 m] ev1]. simpl in *. apply F.
    apply frozen_in_keys. exact Hf.
Qed.

Lemma elect_inactive : forall c mal h a q acc, inb a mal = true ->
  (a ∈ q.*1 \/ exists v, acc.1 !! a = Some v /\ v_active v = false) ->
  exists v, (fold_left (elect_one c mal h) q acc).1 !! a = Some v /\ v_active v = false.
Proof.
  intros c mal h a. induction q as [|x q IH]; simpl; intros acc Hm H.
  - destruct H as [H|H]; [apply elem_of_nil in H; tauto|exact H].
  - apply IH; [exact Hm|]. destruct acc as [vs cnt]. unfold elect_one. simpl.
    destruct (decide (x.1 = a)) as [Hx|Hx].
    + right. rewrite Hx. rewrite Hm. rewrite andb_false_r.
      destruct (vs !! a) as [v|] eqn:E.
      * destruct (Bool.eqb (v_active v) false) eqn:B; simpl.
        -- exists v. split; [exact E|]. apply eqb_prop in B. exact B.
        -- eexists. rewrite lookup_insert. split; reflexivity.
      * simpl. eexists. rewrite lookup_insert. split; reflexivity.
    + destruct H as [H|H].
      * left. apply elem_of_cons in H. destruct H as [H|H]; [congruence|exact H].
      * right. destruct H as (v & E & A). exists v. split; [|exact A]. simpl in E.
        destruct (vs !! x.1) as [v0|]; [destruct (Bool.eqb (v_active v0) _)|]; simpl;
          try rewrite lookup_insert_ne by congruence; exact E.
Qed.

Lemma end_excludes : forall c s q ord a, 1 < height s -> inb a (malicious s) = true -> a ∈ q.*1 ->
  is_active (end_block c s q ord).1 a = false.
Proof.
  intros c s q ord a Hh Hm Hq. destruct (end_block c s q ord) as [s' ev] eqn:E.
  apply end_block_sound in E. destruct E as (_ & _ & V). simpl. unfold is_active. rewrite (V Hh).
  unfold elect. destruct (elect_inactive c (malicious s) (height s) a q (vstat s, 0) Hm (or_introl Hq)) as (v & -> & A).
  exact A.
Qed.

Definition is_tx_op (o : Op) : bool := match o with OBegin _ _ _ | OEnd _ _ => false | _ => true end.

Lemma tx_frame : forall c s o, is_tx_op o = true ->
  malicious (step c s o).1 = malicious s /\ height (step c s o).1 = height s.
Proof.
  intros c s o H. destruct o as [h t low|id rep mal bh|id a ch|a|k v ok d| |q ord]; try discriminate; simpl.
  - unfold do_allege. destruct ((bh >? height s) || is_frozen s mal || negb (is_active s rep) || (rep =? mal)
              || bool_decide (is_Some (reqs s !! id)) || request_exists s mal); simpl; auto.
  - unfold do_vote. destruct (is_frozen s a || negb (is_active s a)); simpl; auto.
    destruct (reqs s !! id) as [r|]; simpl; auto.
    destruct (negb ((ch =? YES) || (ch =? NO)) || (r_status r =? GUILTY) || (r_status r =? INNOCENT) || voted a (r_votes r)); simpl; auto.
  - unfold do_release. destruct (susp s !! a) as [l|]; simpl; auto.
    destruct (negb (lvh_frozen l) || negb (release_ready c l (now s))); simpl; auto.
  - unfold do_stake. destruct (is_frozen s v); simpl; auto.
    destruct ((k =? 1) && request_exists s v); simpl; auto. destruct ok; simpl; auto.
  - auto.
Qed.

Lemma txs_frame : forall c txs s, forallb is_tx_op txs = true ->
  malicious (run c s txs).1 = malicious s /\ height (run c s txs).1 = height s.
Proof.
  induction txs as [|o txs IH]; simpl; intros s H; [auto|].
  apply andb_true_iff in H. destruct H as [H1 H2].
  destruct (step c s o) as [s1 e1] eqn:E1. destruct (run c s1 txs) as [s2 e2] eqn:E2. simpl.
  destruct (tx_frame c s o H1) as [A B]. rewrite E1 in A, B. simpl in A, B.
  destruct (IH s1 H2) as [A' B']. rewrite E2 in A', B'. simpl in A', B'. split; congruence.
Qed.

Lemma begin_height : forall c s h t low, height (begin_block c s h t low).1 = h.
Proof.
  intros. unfold begin_block. destruct (h <=? blockVotesDiff c); [reflexivity|].
  destruct (fold_left _ _ _) as [[s1 m] ev1]. reflexivity.
Qed.

(* whole block: frozen at the start of a block above BlockVotesDiff => inactive after its EndBlock *)
Lemma frozen_drops_out : forall c s h t low txs q ord a,
  1 < h -> is_frozen s a = true -> a ∈ q.*1 -> forallb is_tx_op txs = true ->
  is_active (run c s (OBegin h t low :: txs ++ [OEnd q ord])).1 a = false.
Proof.
  intros c s h t low txs q ord a Hh Hf Hq Htx.
  destruct (begin_block c s h t low) as [s1 e1] eqn:E1.
  destruct (run c s1 txs) as [s2 e2] eqn:E2.
  destruct (end_block c s2 q ord) as [s3 e3] eqn:E3.
  assert (R : run c s (OBegin h t low :: txs ++ [OEnd q ord]) = (s3, e1 ++ (e2 ++ (e3 ++ [])))).
  { simpl. rewrite E1. erewrite (run_app c txs [OEnd q ord] s1 s2 e2 s3 (e3 ++ [])); [reflexivity|exact E2|].
    simpl. rewrite E3. reflexivity. }
  rewrite R. simpl.
  pose proof (begin_malicious c s h t low a Hf) as M. rewrite E1 in M. simpl in M.
  pose proof (begin_height c s h t low) as Hh1. rewrite E1 in Hh1. simpl in Hh1.
  destruct (txs_frame c txs s1 Htx) as [A B]. rewrite E2 in A, B. simpl in A, B.
  pose proof (end_excludes c s2 q ord a) as X. rewrite E3 in X. simpl in X. apply X; [lia|congruence|exact Hq].
Qed.

(* ---------- a request whose votes cross the share is closed in that EndBlock ---------- *)
Lemma process_req_sub : forall c q active req acc id,
  reqs (process_req c q active req acc id).1.1 ⊆ reqs acc.1.1.
Proof.
  intros c q active req [[s dec] ev] id. unfold process_req. simpl.
  destruct (reqs s !! id) as [r|]; [|reflexivity].
  destruct (guilty_x c (count_choice YES (r_votes r)) req).
  - destruct (negb (inb (r_mal r) q.*1)); [reflexivity|].
    destruct (0 <=? _ - _); simpl; apply delete_subseteq.
  - destruct (innocent_x c (count_choice NO (r_votes r)) req); simpl; [apply delete_subseteq|reflexivity].
Qed.

Lemma process_fold_sub : forall c q active req ids acc,
  reqs (fold_left (process_req c q active req) ids acc).1.1 ⊆ reqs acc.1.1.
Proof.
  induction ids as [|x ids IH]; simpl; intros acc; [reflexivity|].
  etrans; [apply IH|apply process_req_sub].
Qed.

(* what is left of request [id] right after it was processed *)
Lemma process_req_left : forall c q active req acc id r,
  reqs (process_req c q active req acc id).1.1 !! id = Some r ->
  verdict_x c (count_choice YES (r_votes r)) (count_choice NO (r_votes r)) req = VOTING \/
  guilty_without_record c q req r = true.
Proof.
  intros c q active req [[s dec] ev] id r. unfold process_req. simpl.
  destruct (reqs s !! id) as [r0|] eqn:E; [|simpl; congruence].
  unfold verdict_x, guilty_without_record.
  destruct (guilty_x c (count_choice YES (r_votes r0)) req) eqn:G.
  - destruct (inb (r_mal r0) q.*1) eqn:Q; simpl.
    + destruct (0 <=? _ - _); simpl; rewrite lookup_delete; discriminate.
    + intros H. rewrite E in H. inversion H; subst. right. rewrite G, Q. reflexivity.
  - destruct (innocent_x c (count_choice NO (r_votes r0)) req) eqn:I; simpl.
    + rewrite lookup_delete. discriminate.
    + intros H. rewrite E in H. inversion H; subst. left. rewrite G, I. reflexivity.
Qed.

Lemma process_fold_closed : forall c q active req ids acc id r,
  id ∈ ids -> reqs (fold_left (process_req c q active req) ids acc).1.1 !! id = Some r ->
  verdict_x c (count_choice YES (r_votes r)) (count_choice NO (r_votes r)) req = VOTING \/
  guilty_without_record c q req r = true.
Proof.
  induction ids as [|x ids IH]; simpl; intros acc id r Hin Hl; [apply elem_of_nil in Hin; tauto|].
  destruct (decide (id = x)) as [->|Hne].
  - eapply process_req_left. eapply lookup_weaken; [exact Hl|apply process_fold_sub].
  - apply elem_of_cons in Hin. destruct Hin as [Hin|Hin]; [congruence|]. eapply IH; eauto.
Qed.

Lemma range_order_all : forall tr ord i, i ∈ tr -> i ∈ range_order tr ord.
Proof.
  intros tr ord i Hi. unfold range_order. apply elem_of_app.
  destruct (inb i ord) eqn:E.
  - left. apply elem_of_list_filter. split; [apply inb_true_iff; exact Hi|].
    apply elem_of_remove_dups. apply inb_true_iff. exact E.
  - right. apply elem_of_list_filter. split; [exact E|exact Hi].
Qed.

Lemma end_block_closes : forall c s q ord s' ev id r,
  end_block c s q ord = (s', ev) -> 1 < height s -> (elect c s q).2 <> 0 ->
  0 < voteDec c -> 0 < allegDec c ->
  id ∈ tracker s -> reqs s' !! id = Some r ->
  let req := required_x c (elect c s q).2 in
  verdict_x c (count_choice YES (r_votes r)) (count_choice NO (r_votes r)) req = VOTING \/
  guilty_without_record c q req r = true.
Proof.
  intros c s q ord s' ev id r H Hh Ha Hv Hd Hid Hr. unfold end_block in H.
  assert (height s <=? 1 = false) as E1 by lia. rewrite E1 in H.
  destruct (elect c s q) as [vs active] eqn:El. simpl in Ha.
  assert (active =? 0 = false) as E2 by lia. rewrite E2 in H.
  assert ((voteDec c <=? 0) || (allegDec c <=? 0) = false) as E3 by lia. rewrite E3 in H.
  set (s2 := clean (set_vstat s vs)) in *.
  pose proof (process_fold_closed c q active (required_x c active) (range_order (tracker s2) ord) (s2, [], []) id r) as F.
  destruct (fold_left _ _ _) as [[s3 dec] ev3]. inversion H; subst. simpl in *.
  apply F; [|exact Hr]. apply range_order_all. exact Hid.
Qed.

(* ---------- the evidence status is the election: at most TopValidatorCount stakers are active ---------- *)
(* one queue entry: the status written for it is its election result, and an elected entry takes a slot *)
Lemma elect_one_status : forall c mal h vs cnt q,
  let upd := (minPower c <=? q.2) && (cnt <? topN c) && negb (inb q.1 mal) in
  active_in (elect_one c mal h (vs, cnt) q).1 q.1 = upd /\
  (elect_one c mal h (vs, cnt) q).2 = (if upd then cnt + 1 else cnt) /\
  (forall b, b <> q.1 -> (elect_one c mal h (vs, cnt) q).1 !! b = vs !! b).
Proof.
  intros c mal h vs cnt q upd. unfold elect_one. fold upd. unfold active_in.
  destruct (vs !! q.1) as [v|] eqn:E; simpl.
  - destruct (Bool.eqb (v_active v) upd) eqn:B; simpl.
    + rewrite E. apply eqb_prop in B. repeat split; auto.
    + rewrite lookup_insert. simpl. repeat split; auto. intros b Hb. rewrite lookup_insert_ne by congruence. reflexivity.
  - rewrite lookup_insert. simpl. repeat split; auto. intros b Hb. rewrite lookup_insert_ne by congruence. reflexivity.
Qed.

Lemma elect_fold_le : forall c mal h q vs cnt, cnt <= Z.max cnt (topN c) ->
  cnt <= (fold_left (elect_one c mal h) q (vs, cnt)).2 <= Z.max cnt (topN c).
Proof.
  induction q as [|x q IH]; cbn [fold_left]; intros vs cnt H; [simpl; lia|].
  destruct (elect_one_status c mal h vs cnt x) as (_ & Hc & _).
  destruct (elect_one c mal h (vs, cnt) x) as [vs1 cnt1] eqn:E. simpl in Hc.
  destruct ((minPower c <=? x.2) && (cnt <? topN c) && negb (inb x.1 mal)) eqn:U.
  - apply andb_true_iff in U. destruct U as [U _]. apply andb_true_iff in U. destruct U as [_ U].
    apply Z.ltb_lt in U. subst cnt1.
    assert (P : cnt + 1 <= Z.max (cnt + 1) (topN c)) by lia. pose proof (IH vs1 (cnt + 1) P) as Q. lia.
  - subst cnt1. apply IH. lia.
Qed.

Lemma active_count_le_top : forall c s q, 0 <= topN c -> 0 <= (elect c s q).2 <= topN c.
Proof.
  intros c s q H. unfold elect. pose proof (elect_fold_le c (malicious s) (height s) q (vstat s) 0). lia.
Qed.

(* a staker below the cut-off (all slots taken when its turn comes) is recorded inactive *)
Lemma standby_inactive : forall c mal h vs cnt q,
  topN c <= cnt -> active_in (elect_one c mal h (vs, cnt) q).1 q.1 = false.
Proof.
  intros c mal h vs cnt q H. destruct (elect_one_status c mal h vs cnt q) as (A & _). rewrite A.
  assert (cnt <? topN c = false) as -> by lia. rewrite andb_false_r. reflexivity.
Qed.

(* ---------- votes of validators that have left the active set ---------- *)
Lemma count_active_all : forall vs ch votes, stale_votes vs votes = false ->
  count_active_choice vs ch votes = count_choice ch votes.
Proof.
  intros vs ch votes H. unfold stale_votes in H. apply negb_false_iff in H.
  unfold count_active_choice, count_choice. f_equal. f_equal.
  induction votes as [|v votes IH]; [reflexivity|]. simpl in H. apply andb_true_iff in H. destruct H as [H1 H2].
  rewrite !filter_cons. destruct (decide (v.2 = ch)) as [E|E].
  - destruct (decide (v.2 = ch /\ active_in vs v.1 = true)) as [_|N]; [rewrite IH by exact H2; reflexivity|tauto].
  - destruct (decide (v.2 = ch /\ active_in vs v.1 = true)) as [[N _]|_]; [tauto|apply IH; exact H2].
Qed.

(* verdict events, strict reading, outside the trigger: every verdict of an EndBlock is reached on
   the votes of validators active after that block's election *)
Lemma end_block_active_votes : forall c s q ord s' ev e,
  end_block c s q ord = (s', ev) -> e ∈ ev ->
  match e with
  | EvVerdict id mal st yes no req active =>
      exists r, reqs s !! id = Some r /\
        (stale_votes (elect c s q).1 (r_votes r) = false ->
         (st = GUILTY -> guilty_x c (count_active_choice (elect c s q).1 YES (r_votes r)) req = true) /\
         (st = INNOCENT -> innocent_x c (count_active_choice (elect c s q).1 NO (r_votes r)) req = true))
  | _ => True
  end.
Proof.
  intros c s q ord s' ev e H Hin. apply end_block_sound in H. destruct H as (_ & F & _).
  rewrite Forall_forall in F. specialize (F e Hin). destruct e; auto. simpl in F.
  destruct F as (-> & -> & r & Hr & Hm & Hy & Hn & Hv). exists r. split; [exact Hr|].
  intros Hs. rewrite !(count_active_all _ _ _ Hs). subst yes no. split.
  - intros ->. destruct Hv as [[_ G]|[D _]]; [exact G|discriminate].
  - intros ->. destruct Hv as [[D _]|[_ [_ I]]]; [discriminate|exact I].
Qed.
