(* OptionsProofs.v — coherence of the in-memory option copies under the writer discipline. *)
From Coq Require Import String List Bool ZArith Lia.
Import ListNotations.
From OL Require Import theories.Options.

Definition coherent (s : ost) : Prop := copy s = rec_d s.

Lemma ostep_coherent s e : coherent s -> disciplined_ev e = true -> coherent (fst (ostep s e)).
Proof.
  unfold coherent; intros Hc Hd.
  destruct e as [|reload|v| |v applies|v early|]; cbn in *; try assumption; try reflexivity.
  - destruct reload; [reflexivity|assumption].
  - destruct applies; [discriminate|assumption].
  - destruct early; [discriminate|assumption].
Qed.

Lemma ostep_sstep s e : coherent s -> ostep s e = sstep s e.
Proof.
  unfold coherent; intros Hc; destruct e; cbn; try reflexivity. now rewrite Hc.
Qed.

(* every consensus read returns the option as persisted in the deliver state *)
Theorem options_coherent : forall evs s, coherent s -> disciplined evs = true -> orun s evs = srun s evs.
Proof.
  induction evs as [|e r IH]; intros s Hc Hd; [reflexivity|].
  cbn [disciplined forallb] in Hd. apply andb_prop in Hd as [He Hr].
  cbn [orun srun]. rewrite <- (ostep_sstep s e Hc).
  pose proof (ostep_coherent s e Hc He) as Hc1.
  destruct (ostep s e) as [s1 o1]; cbn [fst] in Hc1.
  rewrite (IH s1 Hc1 Hr). reflexivity.
Qed.

(* states that differ in the check-state record only *)
Definition eq_mod_c (a b : ost) : Prop := com a = com b /\ rec_d a = rec_d b /\ copy a = copy b.

Lemma ostep_mod_c a b e : eq_mod_c a b -> is_check e = false ->
  eq_mod_c (fst (ostep a e)) (fst (ostep b e)) /\ snd (ostep a e) = snd (ostep b e).
Proof.
  unfold eq_mod_c; intros (H1 & H2 & H3) He.
  destruct e as [|reload|v| |v applies|v early|]; cbn in *; try discriminate; repeat split; try congruence.
  destruct reload; congruence.
Qed.

Lemma ostep_check_mod_c a e : is_check e = true -> disciplined_ev e = true ->
  eq_mod_c (fst (ostep a e)) a /\ snd (ostep a e) = [].
Proof.
  unfold eq_mod_c; destruct e as [|reload|v| |v applies|v early|]; cbn; try discriminate; intros _ Hd.
  - destruct applies; [discriminate|]. repeat split; reflexivity.
  - destruct early; [discriminate|]. repeat split; reflexivity.
Qed.

Lemma eq_mod_c_trans a b c : eq_mod_c a b -> eq_mod_c b c -> eq_mod_c a c.
Proof. unfold eq_mod_c; intuition congruence. Qed.

Lemma orun_mod_c : forall evs a b, eq_mod_c a b -> disciplined evs = true ->
  snd (orun a evs) = snd (orun b (strip_ochecks evs)) /\ eq_mod_c (fst (orun a evs)) (fst (orun b (strip_ochecks evs))).
Proof.
  induction evs as [|e r IH]; intros a b Hab Hd; [cbn; split; [reflexivity|assumption]|].
  cbn [disciplined forallb] in Hd. apply andb_prop in Hd as [He Hr].
  cbn [strip_ochecks filter]. destruct (is_check e) eqn:Hc; cbn [negb].
  - destruct (ostep_check_mod_c a e Hc He) as [Hs Ho].
    cbn [orun]. destruct (ostep a e) as [a1 o1]; cbn [fst snd] in Hs, Ho; subst o1.
    destruct (IH a1 b (eq_mod_c_trans _ _ _ Hs Hab) Hr) as [H1 H2].
    fold (strip_ochecks r) in *. destruct (orun a1 r) as [a2 o2]; cbn [fst snd] in *. split; assumption.
  - destruct (ostep_mod_c a b e Hab Hc) as [Hs Ho].
    cbn [orun]. destruct (ostep a e) as [a1 o1], (ostep b e) as [b1 o1']; cbn [fst snd] in Hs, Ho; subst o1'.
    destruct (IH a1 b1 Hs Hr) as [H1 H2].
    fold (strip_ochecks r) in *. destruct (orun a1 r) as [a2 o2], (orun b1 (strip_ochecks r)) as [b2 o2']; cbn [fst snd] in *.
    split; [congruence|assumption].
Qed.

(* under the discipline the mempool calls are invisible in what the consensus calls read *)
Theorem option_checks_invisible : forall evs s, disciplined evs = true ->
  snd (orun s evs) = snd (orun s (strip_ochecks evs)).
Proof.
  intros evs s Hd. apply (orun_mod_c evs s s); [repeat split; reflexivity|assumption].
Qed.

(* a copy that BeginBlock reloads heals: whatever happened before, the reads after a reloading BeginBlock
   are right as long as the discipline holds from then on *)
Theorem option_reload_heals : forall post s, disciplined post = true ->
  snd (orun s (OBegin true :: post)) = snd (srun s (OBegin true :: post)).
Proof.
  intros post s Hd. cbn [orun srun ostep sstep].
  rewrite (options_coherent post _ (eq_refl : coherent {| com := com s; rec_d := rec_d s; rec_c := rec_c s; copy := rec_d s |}) Hd).
  reflexivity.
Qed.

(* a restart rebuilds the copy from the committed record: whatever the process held before, the reads
   after it are right (the copy has no life of its own across processes) *)
Theorem option_restart_coherent : forall post s, disciplined post = true ->
  snd (orun s (OStart :: post)) = snd (srun s (OStart :: post)).
Proof.
  intros post s Hd. cbn [orun srun ostep sstep].
  rewrite (options_coherent post _ (eq_refl : coherent {| com := com s; rec_d := com s; rec_c := com s; copy := com s |}) Hd).
  reflexivity.
Qed.

(* the discipline is necessary: a finalize that is only CHECKED but runs in update mode, after BeginBlock,
   changes what the next DeliverTx reads (the defect found in /repo: FinalizeProposal.ProcessCheck) ... *)
Theorem option_applying_check_visible : exists evs s, coherent s /\ disciplined evs = false /\
  snd (orun s evs) <> snd (orun s (strip_ochecks evs)).
Proof.
  exists [OBegin true; OCheck 8 true; ORead], {| com := 9; rec_d := 9; rec_c := 9; copy := 9 |}.
  repeat split; cbn; discriminate.
Qed.

(* ... and so is a setter placed before the validate-only return of an update function *)
Theorem option_early_write_visible : exists evs s, coherent s /\ disciplined evs = false /\
  snd (orun s evs) <> snd (orun s (strip_ochecks evs)).
Proof.
  exists [OBegin true; OCheckValidate 0 true; ORead], {| com := 9; rec_d := 9; rec_c := 9; copy := 9 |}.
  repeat split; cbn; discriminate.
Qed.

(* a copy nobody reads on a consensus path cannot be seen, disciplined writers or not *)
Theorem option_unread_copy_invisible : forall evs s, no_reads evs = true -> snd (orun s evs) = [].
Proof.
  induction evs as [|e r IH]; intros s Hn; [reflexivity|].
  cbn [no_reads forallb] in Hn. apply andb_prop in Hn as [He Hr].
  cbn [orun]. destruct e; try discriminate; cbn [ostep];
    match goal with |- context [orun ?s1 r] => specialize (IH s1 Hr); destruct (orun s1 r) as [s2 o2]; cbn [snd] in *; subst; reflexivity end.
Qed.

(* non-vacuity: a disciplined history with finalisations, checks, a restart and reads *)
Example options_nonvacuous :
  let evs := [OBegin true; ORead; OCheck 8 false; OCheckValidate 3 false; ORead; OFinalD 8; OCommit; OBegin true; ORead; OStart; ORead] in
  disciplined evs = true /\ snd (orun {| com := 9; rec_d := 9; rec_c := 9; copy := 9 |} evs) = [9; 9; 8; 8]%Z.
Proof. cbn. split; reflexivity. Qed.
