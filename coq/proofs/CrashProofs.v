From Coq Require Import ZArith List Bool Lia.
Import ListNotations.
From OL Require Import theories.Crash.
Local Open Scope Z_scope.

Lemma cur_eqb_refl c : cur_eqb c c = true.
Proof. destruct c; simpl; [apply Z.eqb_refl|reflexivity]. Qed.

(* with a registered currency the three Coin operations on coins of that currency answer *)
Lemma coin_minus_same cur a b : coin_minus {| c_cur := Some cur ; c_amt := Some a |} {| c_cur := Some cur ; c_amt := Some b |} <> Crash.
Proof. unfold coin_minus. simpl. rewrite Z.eqb_refl. simpl. destruct (a - b <? 0); discriminate. Qed.

Lemma coin_plus_same cur a b : coin_plus {| c_cur := Some cur ; c_amt := Some a |} {| c_cur := Some cur ; c_amt := Some b |} <> Crash.
Proof. unfold coin_plus. simpl. rewrite Z.eqb_refl. simpl. discriminate. Qed.

(* the fee step never stops the node on a transaction that passed the fee part of Validate,
   whatever its price, gas figures, the payer's balance and the pool hold *)
Theorem validated_fee_step_no_crash x nsigners i guard :
  registered x (fee_cur x) = true -> (1 <= nsigners)%nat ->
  validate_fee x nsigners i = true -> fee_step guard x i <> Crash.
Proof.
  intros Hreg Hn Hv. unfold validate_fee in Hv.
  apply andb_prop in Hv as [Hv Hs]. apply andb_prop in Hv as [Hc _].
  apply Z.eqb_eq in Hc. apply Nat.eqb_eq in Hs.
  unfold fee_step. destruct (gas_limit i <? used i); [discriminate|].
  destruct (nsigs i) as [|n]; [lia|].
  unfold to_coin. rewrite Hc, Hreg. simpl.
  unfold coin_minus. simpl. rewrite Z.eqb_refl. simpl.
  destruct (payer_balance x (Some (fee_cur x)) - price_val i * used i <? 0); [discriminate|].
  unfold coin_plus. simpl. rewrite Z.eqb_refl. simpl. discriminate.
Qed.

(* hence the deliverer that validates never stops in its fee step *)
Theorem deliver_fee_no_crash x nsigners i guard :
  registered x (fee_cur x) = true -> (1 <= nsigners)%nat ->
  deliver_fee true guard x nsigners i <> Crash.
Proof.
  intros Hreg Hn. unfold deliver_fee. simpl.
  destruct (validate_fee x nsigners i) eqn:E; simpl; [|discriminate].
  apply (validated_fee_step_no_crash x nsigners i guard Hreg Hn E).
Qed.

(* a handler that checks Amount.IsValid never stops in its debit/credit, for any amount, any
   currency name, any balances — provided the pool's currency is the one the amount is in when
   that is registered (pools hold the native currency; the handler checks the currency) *)
Theorem checked_debit_credit_no_crash reg cur v bal poolamt :
  debit_credit true reg cur v bal cur poolamt <> Crash.
Proof.
  unfold debit_credit, amount_valid. simpl.
  destruct (reg cur) eqn:Er; simpl.
  - destruct (0 <=? v); simpl; [|discriminate].
    unfold to_coin. rewrite Er. unfold coin_minus. simpl. rewrite Z.eqb_refl. simpl.
    destruct (bal - v <? 0); [discriminate|].
    unfold coin_plus. simpl. rewrite Z.eqb_refl. simpl. discriminate.
  - discriminate.
Qed.
