(* GovProofs.v — lemmas about the governance model (theories/Gov.v). *)
From stdpp Require Import gmap list.
From Coq Require Import ZArith Lia.
From OL Require Import theories.Gov.
Local Open Scope Z_scope.

Lemma guard_some (b : bool) (r : hres) x : cguard b r = Some x -> r = Some x.
Proof. destruct b; simpl; [auto | discriminate]. Qed.

(* ---------- the state helpers do not touch the proposal map ---------- *)
Lemma props_fold_add_bal : forall (l : list N) (x : Z) (s : state),
  g_props (fold_left (fun acc v => add_bal acc v x) l s) = g_props s.
Proof. induction l as [|a l IH]; intros x s; simpl; [reflexivity|]. rewrite IH. reflexivity. Qed.

Lemma distribute_props : forall s e id p d s' paid bad,
  distribute s e id p d = (s', paid, bad) -> g_props s' = g_props s.
Proof.
  intros s e id p d s' paid bad H. unfold distribute in H. inversion H; subst. simpl.
  rewrite props_fold_add_bal. reflexivity.
Qed.

Lemma h_fold_add_bal : forall (l : list N) (x : Z) (s : state),
  g_h (fold_left (fun acc v => add_bal acc v x) l s) = g_h s.
Proof. induction l as [|a l IH]; intros x s; simpl; [reflexivity|]. rewrite IH. reflexivity. Qed.

Lemma distribute_h : forall s e id p d s' paid bad,
  distribute s e id p d = (s', paid, bad) -> g_h s' = g_h s.
Proof.
  intros s e id p d s' paid bad H. unfold distribute in H. inversion H; subst. simpl.
  rewrite h_fold_add_bal. reflexivity.
Qed.

Lemma h_anom (c : bool) x : g_h (if c then set_anom x else x) = g_h x.
Proof. destruct c; reflexivity. Qed.

(* ---------- per-record invariant ---------- *)
Definition PInv (p : prec) : Prop :=
  (p_status p = StFunding -> p_votes p = []) /\
  (p_votes p <> [] -> p_store p <> SFinalized -> p_extra p <> 8 -> p_goal p <= p_total p) /\
  (refundable (p_outcome p) = true -> p_votes p = []) /\
  (p_store p = SFinalized \/ p_extra p = 8 -> p_indiv p = []) /\
  (p_store p = SFinalized \/ p_store p = SFinFailed -> p_votes p <> []) /\
  (p_store p = SActive -> p_outcome p = OInProgress) /\
  (p_store p = SActive -> p_extra p = 0) /\
  (p_store p = SPassed -> p_outcome p = OCompletedYes).

Definition Inv (s : state) : Prop := forall id p, g_props s !! id = Some p -> PInv p.

Definition rank_le (s s' : state) : Prop := forall id, (rank_of s id <= rank_of s' id)%nat.

(* what a successful handler may do to the proposal map *)
Definition good_update (s s' : state) : Prop :=
  g_props s' = g_props s \/
  exists id p', g_props s' = <[id := p']> (g_props s) /\
    match g_props s !! id with
    | Some p => PInv p -> PInv p' /\ (rank p <= rank p')%nat
    | None => PInv p' /\ (1 <= rank p')%nat
    end.

Lemma good_update_sound : forall s s', good_update s s' -> Inv s -> Inv s' /\ rank_le s s'.
Proof.
  intros s s' [Heq | (id & p' & Heq & Hm)] HI.
  - split.
    + intros i p Hp. rewrite Heq in Hp. eauto.
    + intros i. unfold rank_of. rewrite Heq. lia.
  - split.
    + intros i p Hp. rewrite Heq in Hp. destruct (decide (i = id)) as [->|Hne].
      * rewrite lookup_insert in Hp. inversion Hp; subst.
        destruct (g_props s !! id) as [p0|] eqn:E.
        -- apply Hm. eauto.
        -- apply Hm.
      * rewrite lookup_insert_ne in Hp by congruence. eauto.
    + intros i. unfold rank_of. rewrite Heq. destruct (decide (i = id)) as [->|Hne].
      * rewrite lookup_insert. destruct (g_props s !! id) as [p0|] eqn:E.
        -- apply Hm. eauto.
        -- destruct Hm as [_ Hm]. lia.
      * rewrite lookup_insert_ne by congruence. lia.
Qed.

Lemma good_update_refl : forall s, good_update s s.
Proof. intros s. left. reflexivity. Qed.

Lemma vote_update_nonempty : forall v o vs vs', vote_update v o vs = Some vs' -> vs <> [] /\ vs' <> [].
Proof.
  intros v o vs vs' H. destruct vs as [|x r]; simpl in H; [discriminate|].
  split; [done|]. destruct (N.eqb (v_val x) v).
  - injection H as <-. done.
  - destruct (vote_update v o r); [injection H as <-|]; done.
Qed.

Ltac pinv_split := unfold PInv in *; simpl in *.

(* ---------- handlers ---------- *)
Lemma create_good : forall s e id ty pr amt fdl vdl goal pass cv s' ev,
  h_create s e id ty pr amt fdl vdl goal pass cv = Some (s', ev) -> good_update s s'.
Proof.
  intros s e id ty pr amt fdl vdl goal pass cv s' ev H. unfold h_create in H. cbv zeta in H.
  repeat match type of H with (if ?c then None else _) = _ =>
    match type of c with bool => destruct c; [discriminate|] end end.
  destruct (g_props s !! id) eqn:E; [discriminate|].
  destruct (bal s pr - amt <? 0); [discriminate|]. inversion H; subst; clear H.
  right. exists id. eexists. split; [reflexivity|]. rewrite E. split.
  - unfold add_funds. simpl. unfold PInv; simpl. repeat split; intros; try done;
      try (match goal with Hx : _ \/ _ |- _ => destruct Hx; done end).
  - unfold add_funds, rank. simpl. lia.
Qed.

Lemma af_store b p f a : p_store (add_funds b p f a) = p_store p.
Proof. unfold add_funds. destruct (alookup f (p_indiv p)); reflexivity. Qed.
Lemma af_status b p f a : p_status (add_funds b p f a) = p_status p.
Proof. unfold add_funds. destruct (alookup f (p_indiv p)); reflexivity. Qed.
Lemma af_outcome b p f a : p_outcome (add_funds b p f a) = p_outcome p.
Proof. unfold add_funds. destruct (alookup f (p_indiv p)); reflexivity. Qed.
Lemma af_votes b p f a : p_votes (add_funds b p f a) = p_votes p.
Proof. unfold add_funds. destruct (alookup f (p_indiv p)); reflexivity. Qed.
Lemma af_goal b p f a : p_goal (add_funds b p f a) = p_goal p.
Proof. unfold add_funds. destruct (alookup f (p_indiv p)); reflexivity. Qed.
Lemma af_total b p f a : p_total (add_funds b p f a) = p_total p + a.
Proof. unfold add_funds. destruct (alookup f (p_indiv p)); reflexivity. Qed.
Lemma af_indiv b p f a : p_indiv (add_funds b p f a) = aupd f a (p_indiv p).
Proof. unfold add_funds. destruct (alookup f (p_indiv p)); reflexivity. Qed.
Lemma af_extra b p f a : p_extra (add_funds b p f a) = p_extra p.
Proof. unfold add_funds. destruct (alookup f (p_indiv p)); reflexivity. Qed.
Lemma af_vdl b p f a : p_vdl (add_funds b p f a) = p_vdl p.
Proof. unfold add_funds. destruct (alookup f (p_indiv p)); reflexivity. Qed.
Lemma af_rank b p f a : rank (add_funds b p f a) = rank p.
Proof. unfold rank. rewrite af_store, af_status. reflexivity. Qed.

Ltac pinv HP :=
  let H1 := fresh "H1" in let H2 := fresh "H2" in let H3 := fresh "H3" in
  let H4 := fresh "H4" in let H5 := fresh "H5" in let H6 := fresh "H6" in let H7 := fresh "H7" in let H8 := fresh "H8" in
  destruct HP as (H1 & H2 & H3 & H4 & H5 & H6 & H7 & H8); unfold PInv;
  rewrite ?af_store, ?af_status, ?af_outcome, ?af_votes, ?af_goal, ?af_total, ?af_indiv, ?af_extra; simpl;
  repeat split; intros;
  try solve [ congruence | discriminate | lia | intuition congruence | intuition discriminate
            | intuition lia | exfalso; intuition congruence | exfalso; intuition lia
            | match goal with Ha : ?st = SActive, Hb : ?st = SActive -> ?oc = OInProgress |- _ =>
                rewrite (Hb Ha) in *; simpl in *; discriminate end ].

Lemma fund_good : forall s e id f amt s' ev, h_fund s e id f amt = Some (s', ev) -> good_update s s'.
Proof.
  intros s e id f amt s' ev H. unfold h_fund in H.
  destruct (amt <=? 0) eqn:Eamt; [discriminate|].
  destruct (g_props s !! id) as [p|] eqn:E; [|discriminate].
  destruct (bool_decide (p_store p = SActive)) eqn:E1; simpl in H; [|discriminate].
  destruct (p_fdl p <? g_h s); [discriminate|].
  destruct (bool_decide (p_status p = StFunding)) eqn:E2; simpl in H; [|discriminate].
  apply bool_decide_eq_true in E1, E2.
  destruct (bal s f - amt <? 0); [discriminate|]. inversion H; subst; clear H.
  right. exists id. eexists. split; [reflexivity|]. rewrite E. intros HP.
  destruct (p_goal p <=? amt + p_total p) eqn:Eg.
  - apply Z.leb_le in Eg. split.
    + pinv HP.
    + rewrite af_rank. unfold with_voting, rank. simpl. rewrite E1, E2. lia.
  - split.
    + pinv HP.
    + rewrite af_rank. lia.
Qed.

Lemma vote_good : forall s e id v o s' ev, h_vote s e id v o = Some (s', ev) -> good_update s s'.
Proof.
  intros s e id v o s' ev H. unfold h_vote in H.
  destruct (g_props s !! id) as [p|] eqn:E; [|discriminate].
  destruct (bool_decide (p_store p = SActive)) eqn:E1; simpl in H; [|discriminate].
  destruct (bool_decide (p_status p = StVoting)) eqn:E2; simpl in H; [|discriminate].
  apply bool_decide_eq_true in E1, E2.
  destruct (p_vdl p <? g_h s); [discriminate|].
  destruct (bool_decide (v ∈ e_vals e)); simpl in H; [|discriminate].
  destruct (vote_update v o (p_votes p)) as [vs|] eqn:Ev; [|discriminate].
  destruct (p_snapblk p =? g_blk s); [discriminate|].
  apply vote_update_nonempty in Ev. destruct Ev as [Hne Hne'].
  inversion H; subst; clear H.
  right. exists id. eexists. split; [reflexivity|]. rewrite E. intros HP.
  destruct (tally vs (p_pass p)); split; try (pinv HP);
    unfold rank; simpl; rewrite ?E1, ?E2; lia.
Qed.

Lemma cancel_good : forall s id pr s' ev, h_cancel s id pr = Some (s', ev) -> good_update s s'.
Proof.
  intros s id pr s' ev H. unfold h_cancel in H.
  destruct (g_props s !! id) as [p|] eqn:E; [|discriminate].
  destruct (bool_decide (p_store p = SActive)) eqn:E1; simpl in H; [|discriminate].
  destruct (bool_decide (p_status p = StFunding)) eqn:E2; simpl in H; [|discriminate].
  apply bool_decide_eq_true in E1, E2.
  destruct (p_fdl p <? g_h s); [discriminate|].
  destruct (N.eqb (p_proposer p) pr); simpl in H; [|discriminate].
  inversion H; subst; clear H.
  right. exists id. eexists. split; [reflexivity|]. rewrite E. intros HP. split.
  - pinv HP.
  - unfold rank. simpl. rewrite E1, E2. lia.
Qed.

Lemma expire_good : forall s id s' ev, h_expire s id = Some (s', ev) -> good_update s s'.
Proof.
  intros s id s' ev H. unfold h_expire in H.
  destruct (g_props s !! id) as [p|] eqn:E; [|discriminate].
  destruct (bool_decide (p_store p = SActive)) eqn:E1; simpl in H; [|discriminate].
  apply bool_decide_eq_true in E1.
  destruct (bool_decide (p_status p = StVoting)); simpl in H; [|discriminate].
  destruct (g_h s <=? p_vdl p); [discriminate|].
  inversion H; subst; clear H.
  right. exists id. eexists. split; [reflexivity|]. rewrite E. intros HP. split.
  - pinv HP.
  - unfold rank. simpl. rewrite E1. destruct (p_status p); lia.
Qed.

Lemma alookup_nil f : alookup f [] = None.
Proof. reflexivity. Qed.

Lemma withdraw_good : forall s id f amt ben s' ev, h_withdraw s id f amt ben = Some (s', ev) -> good_update s s'.
Proof.
  intros s id f amt ben s' ev H. unfold h_withdraw in H.
  destruct (g_props s !! id) as [p|] eqn:E; [|discriminate].
  destruct (bool_decide (p_store p = SActive) || bool_decide (p_store p = SFailed)) eqn:Est; simpl in H; [|discriminate].
  destruct (amt <=? 0) eqn:Eamt; [discriminate|]. apply Z.leb_gt in Eamt.
  assert (Hst : p_store p = SActive \/ p_store p = SFailed).
  { apply orb_prop in Est. destruct Est as [X|X]; apply bool_decide_eq_true in X; auto. }
  clear Est.
  destruct (refundable (p_outcome p)) eqn:Er.
  - destruct (funded_visible (g_blk s) p f); [|discriminate].
    destruct (alookup f (p_indiv p)) as [cur|] eqn:El; [|discriminate].
    destruct (cur - amt <? 0); [discriminate|].
    destruct (p_total p - amt <? 0); [discriminate|].
    inversion H; subst; clear H.
    right. exists id. eexists. split; [reflexivity|]. rewrite E. intros HP. split.
    + pinv HP. all: try (match goal with Hx : _ \/ _ |- _ => rewrite (H4 Hx) in El; discriminate end).
      all: try (exfalso; apply H; auto).
    + unfold rank. simpl. lia.
  - destruct ((p_goal p <=? p_total p) || (g_h s <=? p_fdl p)) eqn:Ec; [discriminate|].
    apply orb_false_iff in Ec. destruct Ec as [Ec _]. apply Z.leb_gt in Ec.
    cbv zeta in H. simpl in H.
    destruct (funded_visible (g_blk s) _ f) eqn:Ef; [|discriminate].
    unfold funded_visible in Ef. simpl in Ef.
    destruct (alookup f (p_indiv p)) as [cur|] eqn:El; [|discriminate].
    simpl in H.
    destruct (cur - amt <? 0); [discriminate|].
    destruct (p_total p - amt <? 0); [discriminate|].
    inversion H; subst; clear H.
    right. exists id. eexists. split; [reflexivity|]. rewrite E. intros HP.
    assert (Hcommon : p_votes p = [] /\ p_extra p <> 8).
    { destruct HP as (H1 & H2 & H3 & H4 & H5 & H6 & H7 & H8).
      assert (Hnf : p_store p <> SFinalized) by (destruct Hst; congruence).
      assert (Hne8 : p_extra p <> 8).
      { intros Hs. rewrite (H4 (or_intror Hs)) in El. discriminate. }
      split; [|exact Hne8].
      destruct (p_votes p) eqn:Ev; [reflexivity|]. exfalso.
      assert (p_goal p <= p_total p) by (apply H2; [done | exact Hnf | exact Hne8]). lia. }
    destruct Hcommon as (Hv & Hne8). split.
    + pinv HP. all: try (match goal with Hx : _ \/ _ |- _ => destruct Hx; [discriminate | contradiction] end).
    + unfold rank; simpl. destruct Hst as [Hs|Hs]; rewrite Hs; [destruct (p_status p); lia | lia].
Qed.

Lemma filter_none {A} (P : A -> bool) (l : list A) : (forall x, P x = false) -> List.filter P l = [].
Proof. intros H. induction l as [|a l IH]; simpl; [reflexivity|]. rewrite H. exact IH. Qed.

Lemma del_funds_indiv_nokeep (p : prec) : p_indiv (del_funds p) = [].
Proof. reflexivity. Qed.

Lemma props_anom (c : bool) x : g_props (if c then set_anom x else x) = g_props x.
Proof. destruct c; reflexivity. Qed.

Local Opaque distribute.

Lemma finalize_good : forall s e id s' ev, True ->
  h_finalize s e id = Some (s', ev) -> good_update s s'.
Proof.
  intros s e id s' ev Hk H. unfold h_finalize, fin_move in H.
  destruct (g_props s !! id) as [p|] eqn:E; [|discriminate].
  destruct (8 <=? p_extra p) eqn:Ex. { inversion H; subst. apply good_update_refl. }
  apply Z.leb_gt in Ex.
  destruct (p_store p) eqn:Es; try discriminate;
    try (inversion H; subst; apply good_update_refl).
  all: destruct (bool_decide (p_status p = StCompleted)) eqn:E2; simpl in H; [|discriminate].
  all: destruct (if p_snapblk p =? g_blk s then [] else p_votes p) as [|v0 vr] eqn:Ev; [discriminate|].
  all: assert (Hvne : p_votes p <> []) by (destruct (p_snapblk p =? g_blk s); [discriminate | rewrite Ev; done]).
  all: destruct (tally (p_votes p) (p_pass p)); try discriminate.
  all: try (destruct (bool_decide (p_type p = TConfig) && bool_decide (id ∈ e_cfgfail e))).
  all: try (destruct (distribute _ e id p _) as [[s1 paid] bad] eqn:Ed; apply distribute_props in Ed).
  all: simpl in H; inversion H; subst; clear H.
  all: right; exists id; eexists.
  all: (split; [ rewrite ?props_anom; simpl; rewrite ?Ed; try destruct (bool_decide (p_type p = TConfig)); reflexivity |]).
  all: rewrite E; intros HP; split;
    [ destruct HP as (H1 & H2 & H3 & H4 & H5 & H6 & H7 & H8); unfold PInv;
      rewrite ?del_funds_indiv_nokeep; unfold del_funds; simpl; rewrite ?Es;
      repeat split; intros;
      try solve [ congruence | discriminate | lia | intuition congruence | intuition discriminate
                | exfalso; intuition congruence
                | apply H2; [assumption | congruence | lia] ]
    | unfold rank, del_funds; simpl; rewrite ?Es; lia ].
Qed.

(* ---------- histories ---------- *)
Definition pres (s s' : state) : Prop := Inv s -> Inv s' /\ rank_le s s'.

Lemma pres_refl s : pres s s.
Proof. intros H. split; [exact H|]. intros id. lia. Qed.

Lemma pres_trans s1 s2 s3 : pres s1 s2 -> pres s2 s3 -> pres s1 s3.
Proof.
  intros H12 H23 HI. destruct (H12 HI) as [HI2 R12]. destruct (H23 HI2) as [HI3 R23].
  split; [exact HI3|]. intros id. specialize (R12 id). specialize (R23 id). lia.
Qed.

Lemma pres_same_props s s' : g_props s' = g_props s -> pres s s'.
Proof. intros Heq HI. apply good_update_sound; [left; exact Heq | exact HI]. Qed.

Lemma run_queue_pres : forall (h : state -> N -> hres) q s,
  (forall st id st' ev, h st id = Some (st', ev) -> good_update st st') ->
  pres s (run_queue h q s).1.
Proof.
  intros h q s Hh. unfold run_queue.
  assert (G : forall q acc, pres s acc.1 ->
            pres s (fold_left (fun acc id => match h acc.1 id with
                                             | Some (s', ev) => (s', acc.2 ++ ev)
                                             | None => acc end) q acc).1).
  { induction q0 as [|id q0 IH]; intros acc Hacc; simpl; [exact Hacc|].
    apply IH. destruct (h acc.1 id) as [[st' ev]|] eqn:Eh; [|exact Hacc].
    simpl. eapply pres_trans; [exact Hacc|]. intros HI. apply good_update_sound; [|exact HI]. eapply Hh; eauto. }
  apply G. simpl. apply pres_refl.
Qed.

Lemma end_block_pres s e : True -> pres s (end_block s e).1.
Proof.
  intros Hk. unfold end_block.
  destruct (run_queue h_expire (g_qexp s) s) as [s1 ev1] eqn:E1.
  destruct (run_queue (fun st id => h_finalize st e id) (g_qfin s) s1) as [s2 ev2] eqn:E2.
  simpl. eapply pres_trans; [|eapply pres_trans].
  - pose proof (run_queue_pres h_expire (g_qexp s) s) as H. rewrite E1 in H. apply H.
    intros; eapply expire_good; eauto.
  - pose proof (run_queue_pres (fun st id => h_finalize st e id) (g_qfin s) s1) as H. rewrite E2 in H. apply H.
    intros; eapply finalize_good; eauto.
  - apply pres_same_props. reflexivity.
Qed.

Lemma charge_props r payer fee s' ev : charge r payer fee = Some (s', ev) ->
  exists s1, r = Some (s1, ev) /\ g_props s' = g_props s1.
Proof.
  unfold charge. destruct r as [[s1 ev1]|]; [|discriminate].
  destruct (bal s1 payer - fee <? 0); [discriminate|]. intros H. inversion H; subst.
  exists s1. split; reflexivity.
Qed.

Definition nokeep (t : txop) : Prop := True.

Lemma step_pres s t : nokeep t -> pres s (step s t).1.1.
Proof.
  intros Hk. unfold step.
  assert (Hc : forall r, (forall s1 ev, r = Some (s1, ev) -> good_update s s1) ->
               pres s (match charge r (t_payer t) (t_fee t) with
                       | Some (s', ev) => (s', true, ev) | None => (s, false, []) end).1.1).
  { intros r Hr. destruct (charge r (t_payer t) (t_fee t)) as [[s' ev]|] eqn:Ec; simpl; [|apply pres_refl].
    apply charge_props in Ec. destruct Ec as (s1 & -> & Heq).
    eapply pres_trans; [|apply pres_same_props; exact Heq].
    intros HI. apply good_update_sound; [|exact HI]. eapply Hr; eauto. }
  destruct (t_op t) eqn:Eo.
  - simpl. apply pres_same_props. reflexivity.
  - apply Hc. intros ? ? HG; apply guard_some in HG; eapply create_good; eauto.
  - apply Hc. intros ? ? HG; apply guard_some in HG; eapply fund_good; eauto.
  - apply Hc. intros; eapply vote_good; eauto.
  - apply Hc. intros; eapply cancel_good; eauto.
  - apply Hc. intros ? ? HG; apply guard_some in HG; eapply withdraw_good; eauto.
  - destruct (h_expire s id) as [[s' ev]|] eqn:Eh; simpl; [|apply pres_refl].
    intros HI. apply good_update_sound; [|exact HI]. eapply expire_good; eauto.
  - destruct (h_finalize s (t_env t) id) as [[s' ev]|] eqn:Eh; simpl; [|apply pres_refl].
    intros HI. apply good_update_sound; [|exact HI]. eapply finalize_good; eauto.
  - pose proof (end_block_pres s (t_env t) Hk) as H. destruct (end_block s (t_env t)) as [s' ev]. exact H.
  - apply Hc. intros s1 ev H. inversion H; subst. left. reflexivity.
Qed.

Lemma run_pres : forall ts s, Forall nokeep ts -> pres s (run s ts).1.
Proof.
  induction ts as [|t ts IH]; intros s Hk; simpl; [apply pres_refl|].
  inversion Hk as [|? ? Ht Hts]; subst.
  pose proof (step_pres s t Ht) as H1.
  destruct (step s t) as [[s1 ok] ev]. simpl in H1.
  pose proof (IH s1 Hts) as H2. destruct (run s1 ts) as [s2 ev2]. simpl in *.
  eapply pres_trans; eauto.
Qed.

Lemma Forall_nokeep_early ts : Forall nokeep ts.
Proof. induction ts; constructor; [exact I | assumption]. Qed.

Lemma Inv_init : Inv init.
Proof. intros id p H. unfold init in H. simpl in H. rewrite lookup_empty in H. discriminate. Qed.

(* stage order is monotone along every history *)
Theorem stage_monotone : forall ts1 ts2 id,
  (rank_of (run init ts1).1 id <= rank_of (run (run init ts1).1 ts2).1 id)%nat.
Proof.
  intros ts1 ts2 id.
  destruct (run_pres ts1 init (Forall_nokeep_early ts1) Inv_init) as [HI _].
  destruct (run_pres ts2 _ (Forall_nokeep_early ts2) HI) as [_ R]. apply R.
Qed.

Theorem stage_monotone_from : forall s ts, Inv s ->
  Inv (run s ts).1 /\ forall id, (rank_of s id <= rank_of (run s ts).1 id)%nat.
Proof. intros s ts HI. exact (run_pres ts s (Forall_nokeep_early ts) HI). Qed.

(* ---------- per-handler facts (any state, any sender, any height) ---------- *)
Lemma set_prop_lookup s id p : g_props (set_prop s id p) !! id = Some p.
Proof. simpl. apply lookup_insert. Qed.

(* voting starts only through a contribution made no later than the funding deadline that brings the
   recorded total to the goal; the voting deadline is set from the current height *)
Theorem fund_to_voting : forall s e id f amt s' ev p p',
  h_fund s e id f amt = Some (s', ev) -> g_props s !! id = Some p -> g_props s' !! id = Some p' ->
  p_status p = StFunding /\ p_store p = SActive /\ g_h s <= p_fdl p /\ p_total p' = p_total p + amt /\
  (p_status p' = StVoting -> p_goal p <= p_total p' /\ p_vdl p' = g_h s + o_vdelta (opts_of e (p_type p))) /\
  (p_status p' = StFunding -> p_total p' < p_goal p).
Proof.
  intros s e id f amt s' ev p p' H E E'. unfold h_fund in H. destruct (amt <=? 0) eqn:Eamt; [discriminate|]. rewrite E in H.
  destruct (bool_decide (p_store p = SActive)) eqn:E1; simpl in H; [|discriminate].
  destruct (p_fdl p <? g_h s) eqn:Ef; [discriminate|].
  destruct (bool_decide (p_status p = StFunding)) eqn:E2; simpl in H; [|discriminate].
  apply bool_decide_eq_true in E1, E2. apply Z.ltb_ge in Ef.
  destruct (bal s f - amt <? 0); [discriminate|]. inversion H; subst; clear H.
  simpl in E'. rewrite lookup_insert in E'. inversion E'; subst; clear E'.
  rewrite af_status, af_total, af_vdl.
  split; [exact E2|]. split; [exact E1|]. split; [exact Ef|].
  destruct (p_goal p <=? amt + p_total p) eqn:Eg; simpl.
  - apply Z.leb_le in Eg. split; [reflexivity|]. split; [intros _; split; [lia|reflexivity] | discriminate].
  - apply Z.leb_gt in Eg. split; [reflexivity|]. split; [congruence | intros _; lia].
Qed.

(* the BeginBlock rule queues exactly the voting proposals whose deadline is behind the block height *)
Theorem expire_queue_sound : forall s h id, id ∈ g_qexp (begin_block s h) ->
  exists p, g_props s !! id = Some p /\ p_store p = SActive /\ p_status p = StVoting /\ p_vdl p < h.
Proof.
  intros s h id H. simpl in H. unfold ids_where in H.
  apply elem_of_list_fmap in H. destruct H as ([k p] & -> & H).
  apply elem_of_list_filter in H. destruct H as [Hw H]. apply elem_of_map_to_list in H.
  exists p. split; [exact H|]. simpl in Hw. unfold want_expire in Hw.
  apply andb_prop in Hw. destruct Hw as [Hw H3]. apply andb_prop in Hw. destruct Hw as [H1 H2].
  apply bool_decide_eq_true in H1, H2. apply Z.ltb_lt in H3. auto.
Qed.

(* a vote moves the proposal to the passed / failed store exactly as the tally of the recorded votes says;
   only the opinion of the voter's snapshot record changes *)
Theorem vote_per_tally : forall s e id v o s' ev p p',
  h_vote s e id v o = Some (s', ev) -> g_props s !! id = Some p -> g_props s' !! id = Some p' ->
  p_store p = SActive /\ p_status p = StVoting /\ g_h s <= p_vdl p /\
  vote_update v o (p_votes p) = Some (p_votes p') /\
  match tally (p_votes p') (p_pass p) with
  | RPassed => p_store p' = SPassed /\ p_outcome p' = OCompletedYes
  | RFailed => p_store p' = SFailed /\ p_outcome p' = OCompletedNo
  | RTBD => p_store p' = SActive /\ p_outcome p' = p_outcome p
  end.
Proof.
  intros s e id v o s' ev p p' H E E'. unfold h_vote in H. rewrite E in H.
  destruct (bool_decide (p_store p = SActive)) eqn:E1; simpl in H; [|discriminate].
  destruct (bool_decide (p_status p = StVoting)) eqn:E2; simpl in H; [|discriminate].
  apply bool_decide_eq_true in E1, E2.
  destruct (p_vdl p <? g_h s) eqn:Ev; [discriminate|]. apply Z.ltb_ge in Ev.
  destruct (bool_decide (v ∈ e_vals e)); simpl in H; [|discriminate].
  destruct (vote_update v o (p_votes p)) as [vs|] eqn:Eu; [|discriminate].
  destruct (p_snapblk p =? g_blk s); [discriminate|].
  inversion H; subst; clear H. simpl in E'. rewrite lookup_insert in E'. inversion E'; subst; clear E'.
  destruct (tally vs (p_pass p)) eqn:Et; simpl; rewrite ?Et; repeat split; auto.
Qed.

Lemma vote_update_powers : forall v o vs vs', vote_update v o vs = Some vs' ->
  map (fun x => (v_val x, v_power x)) vs' = map (fun x => (v_val x, v_power x)) vs.
Proof.
  intros v o. induction vs as [|x r IH]; intros vs' H; simpl in H; [discriminate|].
  destruct (N.eqb (v_val x) v).
  - injection H as <-. reflexivity.
  - destruct (vote_update v o r) as [r'|]; [|discriminate]. injection H as <-. simpl. rewrite (IH r'); reflexivity.
Qed.

(* a configuration change is emitted only by the finalisation of a configuration proposal whose recorded
   votes pass under the proposal's own percentage; afterwards the proposal is finalised *)
Theorem config_event_sound : forall s e id s' ev id', h_finalize s e id = Some (s', ev) -> EvConfig id' ∈ ev ->
  id' = id /\ exists p, g_props s !! id = Some p /\ p_type p = TConfig /\
    (p_store p = SPassed \/ p_store p = SFailed) /\ p_extra p < 8 /\
    tally (p_votes p) (p_pass p) = RPassed /\ p_votes p <> [] /\ (p_store p = SPassed -> rank_of s' id = 4%nat).
Proof.
  intros s e id s' ev id' H Hin. unfold h_finalize, fin_move in H.
  destruct (g_props s !! id) as [p|] eqn:E; [|discriminate].
  destruct (8 <=? p_extra p) eqn:Ex. { injection H as _ <-. apply elem_of_nil in Hin. destruct Hin. }
  apply Z.leb_gt in Ex.
  destruct (p_store p) eqn:Es; try discriminate;
    try (injection H as _ <-; apply elem_of_nil in Hin; destruct Hin).
  all: destruct (bool_decide (p_status p = StCompleted)) eqn:E2; simpl in H; [|discriminate].
  all: destruct (if p_snapblk p =? g_blk s then [] else p_votes p) as [|v0 vr] eqn:Ev; [discriminate|].
  all: assert (Hvne : p_votes p <> []) by (destruct (p_snapblk p =? g_blk s); [discriminate | rewrite Ev; done]).
  all: destruct (tally (p_votes p) (p_pass p)) eqn:Et; try discriminate.
  all: try (destruct (bool_decide (p_type p = TConfig) && bool_decide (id ∈ e_cfgfail e));
            [simpl in H; injection H as _ <-; apply elem_of_nil in Hin; destruct Hin|]).
  all: destruct (distribute _ e id p _) as [[s1 paid] bad] eqn:Ed; apply distribute_props in Ed.
  all: simpl in H; inversion H; subst; clear H.
  all: try (apply elem_of_list_singleton in Hin; discriminate).
  all: destruct (bool_decide (p_type p = TConfig)) eqn:Ety; simpl in Hin;
       [| apply elem_of_list_singleton in Hin; discriminate].
  all: apply bool_decide_eq_true in Ety.
  all: apply elem_of_cons in Hin; destruct Hin as [Hin|Hin];
       [| apply elem_of_list_singleton in Hin; discriminate].
  all: injection Hin as ->; split; [reflexivity|]; exists p; repeat split; auto.
  all: intros Hsp; try congruence; unfold rank_of; rewrite ?props_anom; simpl; rewrite lookup_insert; reflexivity.
Qed.

(* finalising a finalised proposal does nothing: no event, no state change *)
Theorem finalize_terminal_noop : forall s e id p, g_props s !! id = Some p ->
  p_store p = SFinalized \/ p_store p = SFinFailed \/ 8 <= p_extra p -> h_finalize s e id = Some (s, []).
Proof.
  intros s e id p E Hs. unfold h_finalize. rewrite E.
  destruct (8 <=? p_extra p) eqn:Ex; [reflexivity|]. apply Z.leb_gt in Ex.
  destruct Hs as [-> | [-> | Hx]]; [reflexivity | reflexivity | lia].
Qed.

Local Transparent distribute.

(* the distribution never pays out more than the recorded total *)
Theorem distribute_paid_le : forall s e id p d s' paid bad,
  distribute s e id p d = (s', paid, bad) -> e_vals e <> [] -> 0 <= p_total p -> 0 <= d_burn d ->
  paid <= p_total p.
Proof.
  intros s e id p d s' paid bad H Hne Ht Hb. unfold distribute in H. inversion H; subst; clear H.
  set (n := Z.of_nat (length (e_vals e))).
  assert (Hn : 0 < n). { unfold n. destruct (e_vals e); [congruence|]. simpl length. lia. }
  set (xv := share (p_total p) (d_val d)).
  assert (H1 : xv / n * n <= xv). { rewrite Z.mul_comm. apply Z.mul_div_le. exact Hn. }
  assert (H2 : 0 <= share (p_total p) (d_burn d)).
  { unfold share. apply Z.div_pos; [|lia]. apply Z.mul_nonneg_nonneg; lia. }
  lia.
Qed.

(* a successful withdrawal refunds exactly the requested amount out of the funder's own record, and only
   for a cancelled proposal or one that missed its goal *)
Theorem withdraw_refund_exact : forall s id f amt ben s' ev p,
  h_withdraw s id f amt ben = Some (s', ev) -> g_props s !! id = Some p ->
  ev = [EvRefund id f ben amt] /\ 0 < amt /\ (p_store p = SActive \/ p_store p = SFailed) /\
  exists p' cur, g_props s' !! id = Some p' /\ refundable (p_outcome p') = true /\
    alookup f (p_indiv p) = Some cur /\ amt <= cur /\ amt <= p_total p /\
    p_total p' = p_total p - amt /\ p_indiv p' = aupd f (- amt) (p_indiv p) /\
    (refundable (p_outcome p) = false -> p_total p < p_goal p /\ p_fdl p < g_h s).
Proof.
  intros s id f amt ben s' ev p0 H E0. unfold h_withdraw in H.
  destruct (g_props s !! id) as [p|] eqn:E; [|discriminate].
  destruct (bool_decide (p_store p = SActive) || bool_decide (p_store p = SFailed)) eqn:Est; simpl in H; [|discriminate].
  destruct (amt <=? 0) eqn:Eamt; [discriminate|]. apply Z.leb_gt in Eamt.
  assert (Hst : p_store p = SActive \/ p_store p = SFailed).
  { apply orb_prop in Est. destruct Est as [X|X]; apply bool_decide_eq_true in X; auto. }
  clear Est.
  assert (Hpp : p0 = p) by congruence. subst p0.
  destruct (refundable (p_outcome p)) eqn:Er.
  - destruct (funded_visible (g_blk s) p f); [|discriminate].
    destruct (alookup f (p_indiv p)) as [cur|] eqn:El; [|discriminate].
    destruct (cur - amt <? 0) eqn:E1; [discriminate|].
    destruct (p_total p - amt <? 0) eqn:E2; [discriminate|].
    apply Z.ltb_ge in E1, E2. inversion H; subst; clear H. split; [reflexivity|]. split; [exact Eamt|]. split; [exact Hst|].
    eexists. exists cur. simpl. rewrite lookup_insert. repeat split; auto; try lia; try congruence.
  - destruct ((p_goal p <=? p_total p) || (g_h s <=? p_fdl p)) eqn:Ec; [discriminate|].
    apply orb_false_iff in Ec. destruct Ec as [Ec1 Ec2]. apply Z.leb_gt in Ec1, Ec2.
    cbv zeta in H. simpl in H.
    destruct (funded_visible (g_blk s) _ f) eqn:Ef; [|discriminate].
    unfold funded_visible in Ef. simpl in Ef.
    destruct (alookup f (p_indiv p)) as [cur|] eqn:El; [|discriminate]. simpl in H.
    destruct (cur - amt <? 0) eqn:E1; [discriminate|].
    destruct (p_total p - amt <? 0) eqn:E2; [discriminate|].
    apply Z.ltb_ge in E1, E2.
    inversion H; subst; clear H. split; [reflexivity|]. split; [exact Eamt|]. split; [exact Hst|].
    eexists; exists cur; simpl; rewrite lookup_insert; repeat split; auto; lia.
Qed.

(* ---------- expiry: only in the voting stage, only after the voting deadline (every step of every history) ---------- *)
Definition expirable (s : state) (p : prec) : Prop :=
  p_store p = SActive /\ p_status p = StVoting /\ p_vdl p < g_h s.

(* the relation every step satisfies; it composes (exp_trans), so it also holds across the EndBlock queues *)
Definition exp_rel (s s' : state) : Prop :=
  g_h s' = g_h s /\
  forall id p', g_props s' !! id = Some p' ->
    match g_props s !! id with
    | Some p =>
        (p_store p <> SActive -> p_store p' <> SActive /\ (p_outcome p' = OInsufVotes -> p_outcome p = OInsufVotes)) /\
        (p_store p = SActive -> p_outcome p' = OInsufVotes -> expirable s p /\ p_store p' <> SActive)
    | None => p_outcome p' <> OInsufVotes
    end.

Definition exp_update (s s' : state) : Prop :=
  g_h s' = g_h s /\
  (g_props s' = g_props s \/
   exists id p', g_props s' = <[id := p']> (g_props s) /\
     match g_props s !! id with
     | Some p =>
        (p_store p <> SActive -> p_store p' <> SActive /\ (p_outcome p' = OInsufVotes -> p_outcome p = OInsufVotes)) /\
        (p_store p = SActive -> p_outcome p = OInProgress -> p_outcome p' = OInsufVotes -> expirable s p /\ p_store p' <> SActive) /\
        (p_store p' = SActive -> p_store p = SActive /\ p_outcome p' = p_outcome p)
     | None => p_outcome p' = OInProgress
     end).

Lemma exp_rel_same s s' : g_h s' = g_h s -> g_props s' = g_props s ->
  (forall id p, g_props s !! id = Some p -> p_store p = SActive -> p_outcome p <> OInsufVotes) -> exp_rel s s'.
Proof.
  intros Hh Heq Hact. split; [exact Hh|]. intros id p' Hp'. rewrite Heq in Hp'. rewrite Hp'.
  split; [intros Hn; split; auto | intros Ha Ho; exfalso; eapply Hact; eauto].
Qed.

(* active proposals are in progress (part of the invariant) *)
Definition ActInv (s : state) : Prop :=
  forall id p, g_props s !! id = Some p -> p_store p = SActive -> p_outcome p = OInProgress.

Lemma Inv_ActInv s : Inv s -> ActInv s.
Proof. intros HI id p Hp Ha. destruct (HI id p Hp) as (_ & _ & _ & _ & _ & H6 & _). auto. Qed.

Lemma exp_update_sound s s' : ActInv s -> exp_update s s' -> exp_rel s s'.
Proof.
  intros HA [Hh [Heq | (id & p' & Heq & Hm)]].
  - apply exp_rel_same; auto. intros i p Hp Ha Ho. rewrite (HA i p Hp Ha) in Ho. discriminate.
  - split; [exact Hh|]. intros i q Hq. rewrite Heq in Hq. destruct (decide (i = id)) as [->|Hne].
    + rewrite lookup_insert in Hq. inversion Hq; subst.
      destruct (g_props s !! id) as [p|] eqn:Ep; [|rewrite Hm; discriminate]. destruct Hm as (Hm1 & Hm2 & _).
      split; [exact Hm1|]. intros Ha. apply Hm2; auto. eapply HA; eauto.
    + rewrite lookup_insert_ne in Hq by congruence. rewrite Hq.
      split; [intros Hn; split; auto | intros Ha Ho; exfalso; rewrite (HA i q Hq Ha) in Ho; discriminate].
Qed.

Lemma exp_update_actinv s s' : ActInv s -> exp_update s s' -> ActInv s'.
Proof.
  intros HA [Hh [Heq | (id & p' & Heq & Hm)]]; intros i q Hq Ha; rewrite Heq in Hq; [eauto|].
  destruct (decide (i = id)) as [->|Hne].
  - rewrite lookup_insert in Hq. inversion Hq; subst.
    destruct (g_props s !! id) as [p|] eqn:Ep; [|exact Hm]. destruct Hm as (_ & _ & Hm3).
    destruct (Hm3 Ha) as [Hpa Ho]. rewrite Ho. eapply HA; eauto.
  - rewrite lookup_insert_ne in Hq by congruence. eauto.
Qed.

Ltac exp_solve E :=
  right; eexists; eexists; (split; [reflexivity|]); rewrite E; unfold expirable;
  rewrite ?af_store, ?af_outcome; simpl;
  repeat split; intros; try congruence; try discriminate; try lia; auto.

Lemma create_exp : forall s e id ty pr amt fdl vdl goal pass cv s' ev,
  h_create s e id ty pr amt fdl vdl goal pass cv = Some (s', ev) -> exp_update s s'.
Proof.
  intros s e id ty pr amt fdl vdl goal pass cv s' ev H. unfold h_create in H. cbv zeta in H.
  repeat match type of H with (if ?c then None else _) = _ =>
    match type of c with bool => destruct c; [discriminate|] end end.
  destruct (g_props s !! id) eqn:E; [discriminate|].
  destruct (bal s pr - amt <? 0); [discriminate|]. inversion H; subst; clear H.
  split; [reflexivity|]. exp_solve E.
Qed.

Lemma fund_exp : forall s e id f amt s' ev, h_fund s e id f amt = Some (s', ev) -> exp_update s s'.
Proof.
  intros s e id f amt s' ev H. unfold h_fund in H.
  destruct (amt <=? 0) eqn:Eamt; [discriminate|].
  destruct (g_props s !! id) as [p|] eqn:E; [|discriminate].
  destruct (bool_decide (p_store p = SActive)) eqn:E1; simpl in H; [|discriminate].
  destruct (p_fdl p <? g_h s); [discriminate|].
  destruct (bool_decide (p_status p = StFunding)) eqn:E2; simpl in H; [|discriminate].
  apply bool_decide_eq_true in E1, E2.
  destruct (bal s f - amt <? 0); [discriminate|]. inversion H; subst; clear H.
  split; [reflexivity|].
  destruct (p_goal p <=? amt + p_total p); exp_solve E.
Qed.

Lemma vote_exp : forall s e id v o s' ev, h_vote s e id v o = Some (s', ev) -> exp_update s s'.
Proof.
  intros s e id v o s' ev H. unfold h_vote in H.
  destruct (g_props s !! id) as [p|] eqn:E; [|discriminate].
  destruct (bool_decide (p_store p = SActive)) eqn:E1; simpl in H; [|discriminate].
  destruct (bool_decide (p_status p = StVoting)) eqn:E2; simpl in H; [|discriminate].
  apply bool_decide_eq_true in E1, E2.
  destruct (p_vdl p <? g_h s); [discriminate|].
  destruct (bool_decide (v ∈ e_vals e)); simpl in H; [|discriminate].
  destruct (vote_update v o (p_votes p)) as [vs|] eqn:Ev; [|discriminate].
  destruct (p_snapblk p =? g_blk s); [discriminate|].
  inversion H; subst; clear H. split; [reflexivity|].
  destruct (tally vs (p_pass p)); exp_solve E.
Qed.

Lemma cancel_exp : forall s id pr s' ev, h_cancel s id pr = Some (s', ev) -> exp_update s s'.
Proof.
  intros s id pr s' ev H. unfold h_cancel in H.
  destruct (g_props s !! id) as [p|] eqn:E; [|discriminate].
  destruct (bool_decide (p_store p = SActive)) eqn:E1; simpl in H; [|discriminate].
  destruct (bool_decide (p_status p = StFunding)) eqn:E2; simpl in H; [|discriminate].
  destruct (p_fdl p <? g_h s); [discriminate|].
  destruct (N.eqb (p_proposer p) pr); simpl in H; [|discriminate].
  inversion H; subst; clear H. split; [reflexivity|]. exp_solve E.
Qed.

Lemma expire_exp : forall s id s' ev, h_expire s id = Some (s', ev) -> exp_update s s'.
Proof.
  intros s id s' ev H. unfold h_expire in H.
  destruct (g_props s !! id) as [p|] eqn:E; [|discriminate].
  destruct (bool_decide (p_store p = SActive)) eqn:E1; simpl in H; [|discriminate].
  destruct (bool_decide (p_status p = StVoting)) eqn:E2; simpl in H; [|discriminate].
  apply bool_decide_eq_true in E1, E2.
  destruct (g_h s <=? p_vdl p) eqn:E3; [discriminate|]. apply Z.leb_gt in E3.
  inversion H; subst; clear H. split; [reflexivity|]. exp_solve E.
Qed.

Lemma withdraw_exp : forall s id f amt ben s' ev, h_withdraw s id f amt ben = Some (s', ev) -> exp_update s s'.
Proof.
  intros s id f amt ben s' ev H. unfold h_withdraw in H.
  destruct (g_props s !! id) as [p|] eqn:E; [|discriminate].
  destruct (bool_decide (p_store p = SActive) || bool_decide (p_store p = SFailed)) eqn:Est; simpl in H; [|discriminate].
  destruct (amt <=? 0) eqn:Eamt; [discriminate|]. apply Z.leb_gt in Eamt.
  destruct (refundable (p_outcome p)) eqn:Er.
  - destruct (funded_visible (g_blk s) p f); [|discriminate].
    destruct (alookup f (p_indiv p)) as [cur|] eqn:El; [|discriminate].
    destruct (cur - amt <? 0); [discriminate|].
    destruct (p_total p - amt <? 0); [discriminate|].
    inversion H; subst; clear H. split; [reflexivity|]. exp_solve E.
    all: try match goal with Ho : p_outcome ?q = OInsufVotes |- _ => rewrite Ho in Er; discriminate end.
  - destruct ((p_goal p <=? p_total p) || (g_h s <=? p_fdl p)) eqn:Ec; [discriminate|].
    cbv zeta in H. simpl in H.
    destruct (funded_visible (g_blk s) _ f) eqn:Ef; [|discriminate].
    unfold funded_visible in Ef. simpl in Ef.
    destruct (alookup f (p_indiv p)) as [cur|] eqn:El; [|discriminate]. simpl in H.
    destruct (cur - amt <? 0); [discriminate|].
    destruct (p_total p - amt <? 0); [discriminate|].
    inversion H; subst; clear H. split; [reflexivity|]. exp_solve E.
Qed.

Local Opaque distribute.

Lemma finalize_exp : forall s e id s' ev, h_finalize s e id = Some (s', ev) -> exp_update s s'.
Proof.
  intros s e id s' ev H. unfold h_finalize, fin_move in H.
  destruct (g_props s !! id) as [p|] eqn:E; [|discriminate].
  destruct (8 <=? p_extra p). { inversion H; subst. split; [reflexivity|]. left. reflexivity. }
  destruct (p_store p) eqn:Es; try discriminate;
    try (inversion H; subst; split; [reflexivity|]; left; reflexivity).
  all: destruct (bool_decide (p_status p = StCompleted)) eqn:E2; simpl in H; [|discriminate].
  all: destruct (if p_snapblk p =? g_blk s then [] else p_votes p) as [|v0 vr] eqn:Ev; [discriminate|].
  all: destruct (tally (p_votes p) (p_pass p)); try discriminate.
  all: try (destruct (bool_decide (p_type p = TConfig) && bool_decide (id ∈ e_cfgfail e))).
  all: try (destruct (distribute _ e id p _) as [[s1 paid] bad] eqn:Ed;
            pose proof (distribute_h _ _ _ _ _ _ _ _ Ed) as Edh; apply distribute_props in Ed).
  all: simpl in H; inversion H; subst; clear H.
  all: (split; [ rewrite ?h_anom; simpl; rewrite ?Edh; try destruct (bool_decide (p_type p = TConfig)); reflexivity |]).
  all: right; exists id; eexists.
  all: (split; [ rewrite ?props_anom; simpl; rewrite ?Ed; try destruct (bool_decide (p_type p = TConfig)); reflexivity |]).
  all: rewrite E; unfold expirable, del_funds; simpl; rewrite ?Es;
       repeat split; intros; try congruence; try discriminate; auto.
Qed.

(* the relation the two EndBlock handlers satisfy; it composes along the queues *)
Definition qrel (s s' : state) : Prop :=
  g_h s' = g_h s /\
  forall id, g_props s' !! id = g_props s !! id \/
    exists p p', g_props s !! id = Some p /\ g_props s' !! id = Some p' /\ p_store p' <> SActive /\
      (p_outcome p' = OInsufVotes -> p_outcome p = OInsufVotes \/ expirable s p).

Lemma qrel_refl s : qrel s s.
Proof. split; [reflexivity|]. intros id. left. reflexivity. Qed.

Lemma qrel_trans s1 s2 s3 : qrel s1 s2 -> qrel s2 s3 -> qrel s1 s3.
Proof.
  intros [H12 R12] [H23 R23]. split; [congruence|]. intros id.
  destruct (R12 id) as [E12 | (p1 & p2 & E1 & E2 & Hs2 & Ho2)];
  destruct (R23 id) as [E23 | (q2 & p3 & F2 & F3 & Hs3 & Ho3)].
  - left. congruence.
  - right. rewrite E12 in F2. exists q2, p3. repeat split; auto.
    intros Ho. destruct (Ho3 Ho) as [?|Hx]; [left; auto|]. right.
    unfold expirable in *. rewrite <- H12. exact Hx.
  - right. exists p1, p2. rewrite E23. repeat split; auto.
  - right. rewrite E2 in F2. inversion F2; subst q2. exists p1, p3. repeat split; auto.
    intros Ho. destruct (Ho3 Ho) as [Hiv | Hx].
    + apply Ho2. exact Hiv.
    + exfalso. destruct Hx as [Ha _]. congruence.
Qed.

Lemma qrel_upd s s' id p p' : g_h s' = g_h s -> g_props s !! id = Some p ->
  g_props s' = <[id := p']> (g_props s) -> p_store p' <> SActive ->
  (p_outcome p' = OInsufVotes -> p_outcome p = OInsufVotes \/ expirable s p) -> qrel s s'.
Proof.
  intros Hh E Heq Hs Ho. split; [exact Hh|]. intros i. rewrite Heq. destruct (decide (i = id)) as [->|Hne].
  - right. exists p, p'. rewrite lookup_insert. auto.
  - left. rewrite lookup_insert_ne by congruence. reflexivity.
Qed.

Lemma expire_qrel : forall s id s' ev, h_expire s id = Some (s', ev) -> qrel s s'.
Proof.
  intros s id s' ev H. unfold h_expire in H.
  destruct (g_props s !! id) as [p|] eqn:E; [|discriminate].
  destruct (bool_decide (p_store p = SActive)) eqn:E1; simpl in H; [|discriminate].
  destruct (bool_decide (p_status p = StVoting)) eqn:E2; simpl in H; [|discriminate].
  apply bool_decide_eq_true in E1, E2.
  destruct (g_h s <=? p_vdl p) eqn:E3; [discriminate|]. apply Z.leb_gt in E3.
  inversion H; subst; clear H.
  eapply qrel_upd; [reflexivity | exact E | reflexivity | simpl; discriminate |].
  intros _. right. unfold expirable. auto.
Qed.

Lemma finalize_qrel : forall s e id s' ev, h_finalize s e id = Some (s', ev) -> qrel s s'.
Proof.
  intros s e id s' ev H. unfold h_finalize, fin_move in H.
  destruct (g_props s !! id) as [p|] eqn:E; [|discriminate].
  destruct (8 <=? p_extra p). { inversion H; subst. apply qrel_refl. }
  destruct (p_store p) eqn:Es; try discriminate;
    try (inversion H; subst; apply qrel_refl).
  all: destruct (bool_decide (p_status p = StCompleted)) eqn:E2; simpl in H; [|discriminate].
  all: destruct (if p_snapblk p =? g_blk s then [] else p_votes p) as [|v0 vr] eqn:Ev; [discriminate|].
  all: destruct (tally (p_votes p) (p_pass p)); try discriminate.
  all: try (destruct (bool_decide (p_type p = TConfig) && bool_decide (id ∈ e_cfgfail e))).
  all: try (destruct (distribute _ e id p _) as [[s1 paid] bad] eqn:Ed;
            pose proof (distribute_h _ _ _ _ _ _ _ _ Ed) as Edh; apply distribute_props in Ed).
  all: simpl in H; inversion H; subst; clear H.
  all: eapply qrel_upd;
    [ rewrite ?h_anom; simpl; rewrite ?Edh; try destruct (bool_decide (p_type p = TConfig)); reflexivity
    | exact E
    | rewrite ?props_anom; simpl; rewrite ?Ed; try destruct (bool_decide (p_type p = TConfig)); reflexivity
    | unfold del_funds; simpl; rewrite ?Es; discriminate
    | unfold del_funds; simpl; intros Ho; left; exact Ho ].
Qed.

Lemma run_queue_qrel : forall (h : state -> N -> hres) q s,
  (forall st id st' ev, h st id = Some (st', ev) -> qrel st st') -> qrel s (run_queue h q s).1.
Proof.
  intros h q s Hh. unfold run_queue.
  assert (G : forall q acc, qrel s acc.1 ->
            qrel s (fold_left (fun acc id => match h acc.1 id with
                                             | Some (s', ev) => (s', acc.2 ++ ev)
                                             | None => acc end) q acc).1).
  { induction q0 as [|id q0 IH]; intros acc Hacc; simpl; [exact Hacc|].
    apply IH. destruct (h acc.1 id) as [[st' ev]|] eqn:Eh; [|exact Hacc].
    simpl. eapply qrel_trans; [exact Hacc|]. eapply Hh; eauto. }
  apply G. simpl. apply qrel_refl.
Qed.

Lemma end_block_qrel s e : qrel s (end_block s e).1.
Proof.
  unfold end_block.
  destruct (run_queue h_expire (g_qexp s) s) as [s1 ev1] eqn:E1.
  destruct (run_queue (fun st id => h_finalize st e id) (g_qfin s) s1) as [s2 ev2] eqn:E2.
  simpl. eapply qrel_trans; [|eapply qrel_trans].
  - pose proof (run_queue_qrel h_expire (g_qexp s) s) as H. rewrite E1 in H. apply H.
    intros; eapply expire_qrel; eauto.
  - pose proof (run_queue_qrel (fun st id => h_finalize st e id) (g_qfin s) s1) as H. rewrite E2 in H. apply H.
    intros; eapply finalize_qrel; eauto.
  - split; [reflexivity|]. intros id. left. reflexivity.
Qed.

(* what one step may do about expiry *)
Definition exp_step_ok (s s' : state) : Prop :=
  forall id p', g_props s' !! id = Some p' -> p_outcome p' = OInsufVotes ->
    exists p, g_props s !! id = Some p /\ (p_outcome p = OInsufVotes \/ expirable s p).

Lemma exp_rel_step_ok s s' : exp_rel s s' -> exp_step_ok s s'.
Proof.
  intros [_ R] id p' Hp' Ho. specialize (R id p' Hp').
  destruct (g_props s !! id) as [p|]; [|congruence]. exists p. split; [reflexivity|].
  destruct R as [RA RB]. destruct (decide (p_store p = SActive)) as [Ha|Hn].
  - right. apply RB; auto.
  - left. apply RA; auto.
Qed.

Lemma qrel_step_ok s s' : qrel s s' -> exp_step_ok s s'.
Proof.
  intros [_ R] id p' Hp' Ho. destruct (R id) as [E | (p & q & E1 & E2 & _ & H)].
  - exists p'. split; [congruence|]. left. exact Ho.
  - rewrite E2 in Hp'. inversion Hp'; subst q. exists p. auto.
Qed.

Lemma qrel_actinv s s' : qrel s s' -> ActInv s -> ActInv s'.
Proof.
  intros [_ R] HA id p' Hp' Ha. destruct (R id) as [E | (p & q & E1 & E2 & Hs & _)].
  - rewrite E in Hp'. eauto.
  - rewrite E2 in Hp'. inversion Hp'; subst q. congruence.
Qed.

Lemma step_exp s t : ActInv s -> exp_step_ok s (step s t).1.1 /\ ActInv (step s t).1.1.
Proof.
  intros HA. unfold step.
  assert (Hrefl : exp_step_ok s s).
  { intros id p' Hp' Ho. exists p'. auto. }
  assert (Hc : forall r, (forall s1 ev, r = Some (s1, ev) -> exp_update s s1) ->
               let s' := (match charge r (t_payer t) (t_fee t) with
                          | Some (s', ev) => (s', true, ev) | None => (s, false, []) end).1.1 in
               exp_step_ok s s' /\ ActInv s').
  { intros r Hr. destruct (charge r (t_payer t) (t_fee t)) as [[s' ev]|] eqn:Ec; simpl; [|auto].
    apply charge_props in Ec. destruct Ec as (s1 & -> & Heq).
    specialize (Hr s1 ev eq_refl).
    pose proof (exp_update_sound s s1 HA Hr) as R1. pose proof (exp_update_actinv s s1 HA Hr) as A1.
    split.
    - intros id p' Hp' Ho. rewrite Heq in Hp'. eapply exp_rel_step_ok; eauto.
    - intros id p Hp Ha. rewrite Heq in Hp. eauto. }
  assert (Hn : forall r : hres, (forall s1 ev, r = Some (s1, ev) -> exp_update s s1) ->
               let s' := (match r with Some (s', ev) => (s', true, ev) | None => (s, false, @nil event) end).1.1 in
               exp_step_ok s s' /\ ActInv s').
  { intros r Hr. destruct r as [[s' ev]|]; simpl; [|auto]. specialize (Hr s' ev eq_refl).
    split; [apply exp_rel_step_ok, exp_update_sound; auto | eapply exp_update_actinv; eauto]. }
  destruct (t_op t) eqn:Eo.
  - simpl. split; [|exact HA]. intros id p' Hp' Ho. exists p'. auto.
  - apply Hc. intros ? ? HG; apply guard_some in HG; eapply create_exp; eauto.
  - apply Hc. intros ? ? HG; apply guard_some in HG; eapply fund_exp; eauto.
  - apply Hc. intros; eapply vote_exp; eauto.
  - apply Hc. intros; eapply cancel_exp; eauto.
  - apply Hc. intros ? ? HG; apply guard_some in HG; eapply withdraw_exp; eauto.
  - apply (Hn (h_expire s id)). intros; eapply expire_exp; eauto.
  - apply (Hn (h_finalize s (t_env t) id)). intros; eapply finalize_exp; eauto.
  - pose proof (end_block_qrel s (t_env t)) as Q. destruct (end_block s (t_env t)) as [s' ev]. simpl in *.
    split; [apply qrel_step_ok; exact Q | eapply qrel_actinv; eauto].
  - apply Hc. intros s1 ev H. inversion H; subst. split; [reflexivity|]. left. reflexivity.
Qed.

Lemma run_actinv : forall ts s, ActInv s -> ActInv (run s ts).1.
Proof.
  induction ts as [|t ts IH]; intros s HA; simpl; [exact HA|].
  pose proof (step_exp s t HA) as [_ A1]. destruct (step s t) as [[s1 ok] ev]. simpl in A1.
  specialize (IH s1 A1). destruct (run s1 ts) as [s2 ev2]. exact IH.
Qed.

Lemma ActInv_init : ActInv init.
Proof. intros id p H. unfold init in H. simpl in H. rewrite lookup_empty in H. discriminate. Qed.

(* a proposal gets the outcome insufficientVotes only in its voting stage and only after its voting deadline:
   for every history, every next operation (any kind, any sender, any height, any inputs) and every proposal *)
Theorem expiry_after_deadline : forall ts t id p',
  let s := (run init ts).1 in
  g_props (step s t).1.1 !! id = Some p' -> p_outcome p' = OInsufVotes ->
  exists p, g_props s !! id = Some p /\
    (p_outcome p = OInsufVotes \/ (p_store p = SActive /\ p_status p = StVoting /\ p_vdl p < g_h s)).
Proof.
  intros ts t id p' s Hp' Ho.
  destruct (step_exp s t (run_actinv ts init ActInv_init)) as [H _]. exact (H id p' Hp' Ho).
Qed.

(* a cancelled / goal-missed proposal refunds a funder's whole record as long as the recorded total covers it *)
Theorem refund_available : forall s id f ben p cur,
  g_props s !! id = Some p -> p_store p = SFailed -> refundable (p_outcome p) = true ->
  funded_visible (g_blk s) p f = true -> alookup f (p_indiv p) = Some cur -> 0 < cur -> cur <= p_total p ->
  exists s', h_withdraw s id f cur ben = Some (s', [EvRefund id f ben cur]).
Proof.
  intros s id f ben p cur E Hs Hr Hv Hl Hc Ht. unfold h_withdraw. rewrite E, Hs. simpl.
  replace (cur <=? 0) with false by (symmetry; apply Z.leb_gt; lia).
  rewrite Hr, Hv, Hl.
  replace (cur - cur <? 0) with false by (symmetry; apply Z.ltb_ge; lia).
  replace (p_total p - cur <? 0) with false by (symmetry; apply Z.ltb_ge; lia).
  eexists. reflexivity.
Qed.

(* a configuration change is applied only for a proposal in the passed store — unless the proposal sits in the
   failed store with votes that pass under its own percentage *)
Theorem config_only_passed_partial : forall s e id s' ev id' p,
  h_finalize s e id = Some (s', ev) -> EvConfig id' ∈ ev -> g_props s !! id = Some p ->
  trig_failed_but_passing p = false ->
  id' = id /\ p_store p = SPassed /\ p_outcome p = p_outcome p /\ rank_of s' id = 4%nat.
Proof.
  intros s e id s' ev id' p H Hin E Ht.
  destruct (config_event_sound s e id s' ev id' H Hin) as (-> & q & Eq & Hty & Hst & Hx & Htal & Hvne & Hr).
  rewrite E in Eq. inversion Eq; subst q.
  assert (Hp : p_store p = SPassed).
  { destruct Hst as [Hs|Hs]; [exact Hs|]. exfalso. unfold trig_failed_but_passing in Ht.
    rewrite (bool_decide_eq_true_2 _ Hs), (bool_decide_eq_true_2 _ Htal) in Ht. discriminate. }
  repeat split; auto.
Qed.

(* ---------- funds: the recorded total is the sum of non-negative funder records, along every history of
   non-negative contributions in which DeleteAllFunds reaches every record ---------- *)
Definition nn (kv : N * Z) : Prop := 0 <= kv.2.
Definition FInv (p : prec) : Prop := Forall nn (p_indiv p) /\ p_total p = asum (p_indiv p).
Definition FundsInv (s : state) : Prop := forall id p, g_props s !! id = Some p -> FInv p.

Lemma asum_aupd f d l : asum (aupd f d l) = asum l + d.
Proof.
  induction l as [|[k v] l IH]; simpl; [lia|]. destruct (N.eqb f k); simpl; [lia|]. unfold asum in *. simpl. lia.
Qed.

Lemma aupd_nn_add f d l : Forall nn l -> 0 <= d -> Forall nn (aupd f d l).
Proof.
  intros H Hd. induction l as [|[k v] l IH]; simpl.
  - constructor; [unfold nn; simpl; lia|constructor].
  - inversion H as [|? ? Hv Hl]; subst. destruct (N.eqb f k).
    + constructor; [unfold nn in *; simpl in *; lia | exact Hl].
    + constructor; [exact Hv | apply IH; exact Hl].
Qed.

Lemma aupd_nn_sub f a c l : Forall nn l -> alookup f l = Some c -> 0 <= c - a -> Forall nn (aupd f (- a) l).
Proof.
  intros H Hl Hc. induction l as [|[k v] l IH]; simpl in *; [discriminate|].
  inversion H as [|? ? Hv Hr]; subst. destruct (N.eqb f k).
  - injection Hl as ->. constructor; [unfold nn; simpl; lia | exact Hr].
  - constructor; [exact Hv | apply IH; auto].
Qed.

Lemma alookup_le_asum f c l : Forall nn l -> alookup f l = Some c -> c <= asum l.
Proof.
  intros H Hl. induction l as [|[k v] l IH]; simpl in *; [discriminate|].
  inversion H as [|? ? Hv Hr]; subst. unfold nn in Hv; simpl in Hv.
  assert (0 <= asum l). { clear -Hr. induction Hr as [|x l Hx _ IH']; unfold asum in *; simpl; [lia|]. unfold nn in Hx. lia. }
  destruct (N.eqb f k); unfold asum in *; simpl.
  - injection Hl as ->. lia.
  - specialize (IH Hr Hl). lia.
Qed.

Definition fupd (s s' : state) : Prop :=
  g_props s' = g_props s \/
  exists id p', g_props s' = <[id := p']> (g_props s) /\
    match g_props s !! id with Some p => FInv p -> FInv p' | None => FInv p' end.

Lemma fupd_sound s s' : fupd s s' -> FundsInv s -> FundsInv s'.
Proof.
  intros [Heq | (id & p' & Heq & Hm)] HI i p Hp; rewrite Heq in Hp; [eauto|].
  destruct (decide (i = id)) as [->|Hne].
  - rewrite lookup_insert in Hp. inversion Hp; subst.
    destruct (g_props s !! id) as [p0|] eqn:E; [apply Hm; eauto | exact Hm].
  - rewrite lookup_insert_ne in Hp by congruence. eauto.
Qed.

Lemma FInv_add_funds b p f a : FInv p -> 0 <= a -> FInv (add_funds b p f a).
Proof.
  intros [Hn Ht] Ha. unfold FInv. rewrite af_indiv, af_total, asum_aupd. split; [apply aupd_nn_add; auto | lia].
Qed.

Lemma create_fupd : forall s e id ty pr amt fdl vdl goal pass cv s' ev, 0 <= o_init (opts_of e ty) ->
  h_create s e id ty pr amt fdl vdl goal pass cv = Some (s', ev) -> fupd s s'.
Proof.
  intros s e id ty pr amt fdl vdl goal pass cv s' ev Hinit H. unfold h_create in H. cbv zeta in H.
  destruct (amt <? o_init (opts_of e ty)) eqn:Ea; [discriminate|]. apply Z.ltb_ge in Ea.
  repeat match type of H with (if ?c then None else _) = _ =>
    match type of c with bool => destruct c; [discriminate|] end end.
  destruct (g_props s !! id) eqn:E; [discriminate|].
  destruct (bal s pr - amt <? 0); [discriminate|]. inversion H; subst; clear H.
  right. exists id. eexists. split; [reflexivity|]. rewrite E.
  apply FInv_add_funds; [|lia]. split; [constructor | reflexivity].
Qed.

Lemma fund_fupd : forall s e id f amt s' ev, h_fund s e id f amt = Some (s', ev) -> fupd s s'.
Proof.
  intros s e id f amt s' ev H. unfold h_fund in H.
  destruct (amt <=? 0) eqn:Eamt; [discriminate|]. apply Z.leb_gt in Eamt.
  destruct (g_props s !! id) as [p|] eqn:E; [|discriminate].
  destruct (bool_decide (p_store p = SActive)); simpl in H; [|discriminate].
  destruct (p_fdl p <? g_h s); [discriminate|].
  destruct (bool_decide (p_status p = StFunding)); simpl in H; [|discriminate].
  destruct (bal s f - amt <? 0); [discriminate|]. inversion H; subst; clear H.
  right. exists id. eexists. split; [reflexivity|]. rewrite E. intros HF.
  apply FInv_add_funds; [|lia]. destruct (p_goal p <=? amt + p_total p); exact HF.
Qed.

Lemma stage_only_fupd s s' id p p' : g_props s !! id = Some p -> g_props s' = <[id := p']> (g_props s) ->
  p_indiv p' = p_indiv p -> p_total p' = p_total p -> fupd s s'.
Proof.
  intros E Heq Hi Ht. right. exists id, p'. split; [exact Heq|]. rewrite E. unfold FInv. rewrite Hi, Ht. auto.
Qed.

Lemma vote_fupd : forall s e id v o s' ev, h_vote s e id v o = Some (s', ev) -> fupd s s'.
Proof.
  intros s e id v o s' ev H. unfold h_vote in H.
  destruct (g_props s !! id) as [p|] eqn:E; [|discriminate].
  destruct (bool_decide (p_store p = SActive)); simpl in H; [|discriminate].
  destruct (bool_decide (p_status p = StVoting)); simpl in H; [|discriminate].
  destruct (p_vdl p <? g_h s); [discriminate|].
  destruct (bool_decide (v ∈ e_vals e)); simpl in H; [|discriminate].
  destruct (vote_update v o (p_votes p)) as [vs|]; [|discriminate].
  destruct (p_snapblk p =? g_blk s); [discriminate|].
  inversion H; subst; clear H.
  eapply stage_only_fupd; [exact E | reflexivity | |]; destruct (tally vs _); reflexivity.
Qed.

Lemma cancel_fupd : forall s id pr s' ev, h_cancel s id pr = Some (s', ev) -> fupd s s'.
Proof.
  intros s id pr s' ev H. unfold h_cancel in H.
  destruct (g_props s !! id) as [p|] eqn:E; [|discriminate].
  destruct (bool_decide (p_store p = SActive)); simpl in H; [|discriminate].
  destruct (bool_decide (p_status p = StFunding)); simpl in H; [|discriminate].
  destruct (p_fdl p <? g_h s); [discriminate|].
  destruct (N.eqb (p_proposer p) pr); simpl in H; [|discriminate].
  inversion H; subst; clear H. eapply stage_only_fupd; [exact E | reflexivity | reflexivity | reflexivity].
Qed.

Lemma expire_fupd : forall s id s' ev, h_expire s id = Some (s', ev) -> fupd s s'.
Proof.
  intros s id s' ev H. unfold h_expire in H.
  destruct (g_props s !! id) as [p|] eqn:E; [|discriminate].
  destruct (bool_decide (p_store p = SActive)); simpl in H; [|discriminate].
  destruct (bool_decide (p_status p = StVoting)); simpl in H; [|discriminate].
  destruct (g_h s <=? p_vdl p); [discriminate|].
  inversion H; subst; clear H. eapply stage_only_fupd; [exact E | reflexivity | reflexivity | reflexivity].
Qed.

Lemma withdraw_fupd : forall s id f amt ben s' ev, h_withdraw s id f amt ben = Some (s', ev) -> fupd s s'.
Proof.
  intros s id f amt ben s' ev H. unfold h_withdraw in H.
  destruct (g_props s !! id) as [p|] eqn:E; [|discriminate].
  destruct (bool_decide (p_store p = SActive) || bool_decide (p_store p = SFailed)) eqn:Est; simpl in H; [|discriminate].
  destruct (amt <=? 0) eqn:Eamt; [discriminate|]. apply Z.leb_gt in Eamt.
  destruct (refundable (p_outcome p)) eqn:Er.
  - destruct (funded_visible (g_blk s) p f); [|discriminate].
    destruct (alookup f (p_indiv p)) as [cur|] eqn:El; [|discriminate].
    destruct (cur - amt <? 0) eqn:E1; [discriminate|]. apply Z.ltb_ge in E1.
    destruct (p_total p - amt <? 0); [discriminate|].
    inversion H; subst; clear H.
    right. exists id. eexists. split; [reflexivity|]. rewrite E. intros [Hn Ht]. unfold FInv. simpl.
    rewrite asum_aupd. split; [eapply aupd_nn_sub; eauto | lia].
  - destruct ((p_goal p <=? p_total p) || (g_h s <=? p_fdl p)); [discriminate|].
    cbv zeta in H. simpl in H.
    destruct (funded_visible (g_blk s) _ f) eqn:Ef; [|discriminate].
    unfold funded_visible in Ef. simpl in Ef.
    destruct (alookup f (p_indiv p)) as [cur|] eqn:El; [|discriminate]. simpl in H.
    destruct (cur - amt <? 0) eqn:E1; [discriminate|]. apply Z.ltb_ge in E1.
    destruct (p_total p - amt <? 0); [discriminate|].
    inversion H; subst; clear H.
    right; exists id; eexists; (split; [reflexivity|]); rewrite E; intros [Hn Ht]; unfold FInv; simpl;
      rewrite asum_aupd; split; [eapply aupd_nn_sub; eauto | lia].
Qed.

Lemma finalize_fupd : forall s e id s' ev, True -> h_finalize s e id = Some (s', ev) -> fupd s s'.
Proof.
  intros s e id s' ev Hk H. unfold h_finalize, fin_move in H.
  destruct (g_props s !! id) as [p|] eqn:E; [|discriminate].
  destruct (8 <=? p_extra p). { inversion H; subst. left. reflexivity. }
  destruct (p_store p) eqn:Es; try discriminate;
    try (inversion H; subst; left; reflexivity).
  all: destruct (bool_decide (p_status p = StCompleted)) eqn:E2; simpl in H; [|discriminate].
  all: destruct (if p_snapblk p =? g_blk s then [] else p_votes p) as [|v0 vr] eqn:Ev; [discriminate|].
  all: destruct (tally (p_votes p) (p_pass p)); try discriminate.
  all: try (destruct (bool_decide (p_type p = TConfig) && bool_decide (id ∈ e_cfgfail e))).
  all: try (destruct (distribute _ e id p _) as [[s1 paid] bad] eqn:Ed; apply distribute_props in Ed).
  all: simpl in H; inversion H; subst; clear H.
  all: right; exists id; eexists.
  all: (split; [ rewrite ?props_anom; simpl; rewrite ?Ed; try destruct (bool_decide (p_type p = TConfig)); reflexivity |]).
  all: rewrite E; intros [Hn Ht]; unfold FInv;
       rewrite ?del_funds_indiv_nokeep; unfold del_funds; simpl;
       (split; [ first [constructor | exact Hn] | first [reflexivity | exact Ht] ]).
Qed.

(* the proposal options in force when a proposal is created are sane (ValidateProposal demands an initial funding
   >= 1 and a pass percentage in 51..80 of every option set, at genesis and at every governance update) *)
Definition sane_op (t : txop) : Prop :=
  match t_op t with
  | OCreate _ ty _ _ _ _ _ _ _ =>
      0 <= o_init (opts_of (t_env t) ty) /\ 0 < o_pass (opts_of (t_env t) ty) <= 100
  | _ => True
  end.

Lemma run_queue_funds : forall (h : state -> N -> hres) q s,
  (forall st id st' ev, h st id = Some (st', ev) -> fupd st st') -> FundsInv s -> FundsInv (run_queue h q s).1.
Proof.
  intros h q s Hh. unfold run_queue.
  assert (G : forall q acc, FundsInv acc.1 ->
            FundsInv (fold_left (fun acc id => match h acc.1 id with
                                               | Some (s', ev) => (s', acc.2 ++ ev)
                                               | None => acc end) q acc).1).
  { induction q0 as [|id q0 IH]; intros acc Hacc; simpl; [exact Hacc|].
    apply IH. destruct (h acc.1 id) as [[st' ev]|] eqn:Eh; [|exact Hacc].
    simpl. eapply fupd_sound; [eapply Hh; eauto | exact Hacc]. }
  intros HI. apply G. exact HI.
Qed.

Lemma step_funds s t : sane_op t -> FundsInv s -> FundsInv (step s t).1.1.
Proof.
  intros Hn HI. pose proof I as Hk. unfold step.
  assert (Hc : forall r, (forall s1 ev, r = Some (s1, ev) -> fupd s s1) ->
               FundsInv (match charge r (t_payer t) (t_fee t) with
                         | Some (s', ev) => (s', true, ev) | None => (s, false, []) end).1.1).
  { intros r Hr. destruct (charge r (t_payer t) (t_fee t)) as [[s' ev]|] eqn:Ec; simpl; [|exact HI].
    apply charge_props in Ec. destruct Ec as (s1 & -> & Heq).
    intros i p Hp. rewrite Heq in Hp. eapply (fupd_sound s s1); eauto. }
  unfold sane_op in Hn. destruct (t_op t) eqn:Eo.
  - exact HI.
  - apply Hc. intros ? ? HG; apply guard_some in HG; eapply create_fupd; [apply Hn | eauto].
  - apply Hc. intros ? ? HG; apply guard_some in HG; eapply fund_fupd; eauto.
  - apply Hc. intros; eapply vote_fupd; eauto.
  - apply Hc. intros; eapply cancel_fupd; eauto.
  - apply Hc. intros ? ? HG; apply guard_some in HG; eapply withdraw_fupd; eauto.
  - destruct (h_expire s id) as [[s' ev]|] eqn:Eh; simpl; [|exact HI].
    eapply fupd_sound; [eapply expire_fupd; eauto | exact HI].
  - destruct (h_finalize s (t_env t) id) as [[s' ev]|] eqn:Eh; simpl; [|exact HI].
    eapply fupd_sound; [eapply finalize_fupd; eauto | exact HI].
  - unfold end_block.
    destruct (run_queue h_expire (g_qexp s) s) as [s1 ev1] eqn:E1.
    destruct (run_queue (fun st id => h_finalize st (t_env t) id) (g_qfin s) s1) as [s2 ev2] eqn:E2.
    simpl.
    pose proof (run_queue_funds h_expire (g_qexp s) s (fun st i st' ev H => expire_fupd st i st' ev H) HI) as Q1.
    rewrite E1 in Q1. simpl in Q1.
    pose proof (run_queue_funds (fun st id => h_finalize st (t_env t) id) (g_qfin s) s1
                 (fun st i st' ev H => finalize_fupd st (t_env t) i st' ev Hk H) Q1) as Q2.
    rewrite E2 in Q2. exact Q2.
  - apply Hc. intros s1 ev H. inversion H; subst. left. reflexivity.
Qed.

Lemma run_funds : forall ts s, Forall sane_op ts -> FundsInv s -> FundsInv (run s ts).1.
Proof.
  induction ts as [|t ts IH]; intros s Hn HI; simpl; [exact HI|].
  inversion Hn as [|? ? Hn1 Hn2]; subst.
  pose proof (step_funds s t Hn1 HI) as S1.
  destruct (step s t) as [[s1 ok] ev]. simpl in S1.
  specialize (IH s1 Hn2 S1). destruct (run s1 ts) as [s2 ev2]. exact IH.
Qed.

Lemma Forall_nokeep ts : Forall nokeep ts.
Proof. induction ts; constructor; [exact I | assumption]. Qed.

Lemma FundsInv_init : FundsInv init.
Proof. intros i q H. unfold init in H. simpl in H. rewrite lookup_empty in H. discriminate. Qed.

Lemma refundable_failed p : PInv p -> refundable (p_outcome p) = true -> p_store p = SFailed.
Proof.
  intros (H1 & H2 & H3 & H4 & H5 & H6 & H7 & H8) Hr. specialize (H3 Hr).
  destruct (p_store p) eqn:Es; auto.
  - rewrite (H6 eq_refl) in Hr. discriminate.
  - rewrite (H8 eq_refl) in Hr. discriminate.
  - exfalso. apply H5; auto.
  - exfalso. apply H5; auto.
Qed.

(* "returned in full", history level, FULL: after any history (sane options at creation), a funder of a cancelled /
   goal-missed proposal whose record is committed and positive can withdraw the whole record *)
Theorem refund_in_full : forall ts id f ben p cur,
  Forall sane_op ts ->
  let s := (run init ts).1 in
  g_props s !! id = Some p -> refundable (p_outcome p) = true -> funded_visible (g_blk s) p f = true ->
  alookup f (p_indiv p) = Some cur -> 0 < cur ->
  exists s', h_withdraw s id f cur ben = Some (s', [EvRefund id f ben cur]).
Proof.
  intros ts id f ben p cur Hn s E Hr Hv Hl Hc.
  assert (HF : FundsInv s) by (apply run_funds; [exact Hn | exact FundsInv_init]).
  destruct (run_pres ts init (Forall_nokeep ts) Inv_init) as [HI _].
  destruct (HF id p E) as [Hnn Ht].
  eapply refund_available; eauto.
  - eapply refundable_failed; eauto.
  - rewrite Ht. eapply alookup_le_asum; eauto.
Qed.

(* ---------- the tally and the store agree (votes are tallied with the proposal's own percentage) ---------- *)
Definition unk (v : vote) : Prop := v_op v = OpUnknown.

Lemma vote_setup_unk v pw vs : Forall unk vs -> Forall unk (vote_setup v pw vs).
Proof.
  intros H. induction vs as [|x r IH]; simpl; [constructor; [reflexivity|constructor]|].
  inversion H as [|? ? Hx Hr]; subst. destruct (N.eqb (v_val x) v); constructor; auto. reflexivity.
Qed.

Lemma snapshot_unk act : forall vs, Forall unk vs -> Forall unk (snapshot act vs).
Proof.
  unfold snapshot. induction act as [|a act IH]; intros vs H; simpl; [exact H|].
  apply IH. apply vote_setup_unk. exact H.
Qed.

Lemma power_of_unk o vs : Forall unk vs -> o <> OpUnknown -> power_of o vs = 0.
Proof.
  intros H Ho. induction H as [|x l Hx _ IH]; [reflexivity|]. unfold power_of in *. simpl. rewrite IH.
  unfold unk in Hx. rewrite Hx. rewrite bool_decide_eq_false_2 by congruence. lia.
Qed.

Lemma tally_unk vs pass : Forall unk vs -> 0 < pass <= 100 -> tally vs pass = RTBD.
Proof.
  intros H Hp. unfold tally.
  rewrite (power_of_unk OpGiveup vs H), (power_of_unk OpYes vs H), (power_of_unk OpNo vs H) by discriminate.
  destruct (0 <? power_all vs - 0) eqn:Et.
  - apply Z.ltb_lt in Et.
    replace (pass * (power_all vs - 0) <=? 0 * 100) with false by (symmetry; apply Z.leb_gt; nia).
    replace ((power_all vs - 0 - 0) * 100 <? pass * (power_all vs - 0)) with false by (symmetry; apply Z.ltb_ge; nia).
    reflexivity.
  - replace (pass <=? 0) with false by (symmetry; apply Z.leb_gt; lia).
    replace (100 <? pass) with false by (symmetry; apply Z.ltb_ge; lia). reflexivity.
Qed.

Definition TP (p : prec) : Prop :=
  0 < p_pass p <= 100 /\
  (p_store p = SActive -> p_votes p = [] \/ tally (p_votes p) (p_pass p) = RTBD) /\
  (p_store p = SFailed -> p_votes p = [] \/ tally (p_votes p) (p_pass p) <> RPassed).
Definition TInv (s : state) : Prop := forall id p, g_props s !! id = Some p -> TP p.

Definition tupd (s s' : state) : Prop :=
  g_props s' = g_props s \/
  exists id p', g_props s' = <[id := p']> (g_props s) /\
    match g_props s !! id with Some p => PInv p -> TP p -> TP p' | None => TP p' end.

Lemma tupd_sound s s' : tupd s s' -> Inv s -> TInv s -> TInv s'.
Proof.
  intros [Heq | (id & p' & Heq & Hm)] HI HT i p Hp; rewrite Heq in Hp; [eauto|].
  destruct (decide (i = id)) as [->|Hne].
  - rewrite lookup_insert in Hp. inversion Hp; subst.
    destruct (g_props s !! id) as [p0|] eqn:E; [apply Hm; eauto | exact Hm].
  - rewrite lookup_insert_ne in Hp by congruence. eauto.
Qed.

Ltac tp_same E := right; eexists; eexists; (split; [reflexivity|]); rewrite E;
  intros HP (Hpass & Hact & Hfail); unfold TP; rewrite ?af_store, ?af_votes; simpl.

Lemma af_pass b p f a : p_pass (add_funds b p f a) = p_pass p.
Proof. unfold add_funds. destruct (alookup f (p_indiv p)); reflexivity. Qed.

Lemma create_tupd : forall s e id ty pr amt fdl vdl goal pass cv s' ev, 0 < o_pass (opts_of e ty) <= 100 ->
  h_create s e id ty pr amt fdl vdl goal pass cv = Some (s', ev) -> tupd s s'.
Proof.
  intros s e id ty pr amt fdl vdl goal pass cv s' ev Hsane H. unfold h_create in H. cbv zeta in H.
  destruct (amt <? o_init (opts_of e ty)); [discriminate|].
  destruct (o_goal (opts_of e ty) <=? amt); [discriminate|].
  destruct (goal =? o_goal (opts_of e ty)); simpl in H; [|discriminate].
  destruct (pass =? o_pass (opts_of e ty)) eqn:Ep; simpl in H; [|discriminate]. apply Z.eqb_eq in Ep.
  repeat match type of H with (if ?c then None else _) = _ =>
    match type of c with bool => destruct c; [discriminate|] end end.
  destruct (g_props s !! id) eqn:E; [discriminate|].
  destruct (bal s pr - amt <? 0); [discriminate|]. inversion H; subst; clear H.
  right. exists id. eexists. split; [reflexivity|]. rewrite E.
  unfold TP. rewrite af_pass, af_store, af_votes. simpl. repeat split; try lia; intros; auto; discriminate.
Qed.

Lemma fund_tupd : forall s e id f amt s' ev, h_fund s e id f amt = Some (s', ev) -> tupd s s'.
Proof.
  intros s e id f amt s' ev H. unfold h_fund in H.
  destruct (amt <=? 0); [discriminate|].
  destruct (g_props s !! id) as [p|] eqn:E; [|discriminate].
  destruct (bool_decide (p_store p = SActive)) eqn:E1; simpl in H; [|discriminate].
  destruct (p_fdl p <? g_h s); [discriminate|].
  destruct (bool_decide (p_status p = StFunding)) eqn:E2; simpl in H; [|discriminate].
  apply bool_decide_eq_true in E1, E2.
  destruct (bal s f - amt <? 0); [discriminate|]. inversion H; subst; clear H.
  right. exists id. eexists. split; [reflexivity|]. rewrite E.
  intros HP (Hpass & Hact & Hfail). destruct HP as (H1 & _). specialize (H1 E2).
  unfold TP. rewrite af_pass, af_store, af_votes.
  destruct (p_goal p <=? amt + p_total p); simpl.
  - split; [exact Hpass|]. split; [|rewrite E1; discriminate].
    intros _. right. apply tally_unk; [|exact Hpass]. apply snapshot_unk. rewrite H1. constructor.
  - split; [exact Hpass|]. split; [intros _; left; exact H1 | rewrite E1; discriminate].
Qed.

Lemma vote_tupd : forall s e id v o s' ev, h_vote s e id v o = Some (s', ev) -> tupd s s'.
Proof.
  intros s e id v o s' ev H. unfold h_vote in H.
  destruct (g_props s !! id) as [p|] eqn:E; [|discriminate].
  destruct (bool_decide (p_store p = SActive)) eqn:E1; simpl in H; [|discriminate].
  destruct (bool_decide (p_status p = StVoting)); simpl in H; [|discriminate].
  apply bool_decide_eq_true in E1.
  destruct (p_vdl p <? g_h s); [discriminate|].
  destruct (bool_decide (v ∈ e_vals e)); simpl in H; [|discriminate].
  destruct (vote_update v o (p_votes p)) as [vs|]; [|discriminate].
  destruct (p_snapblk p =? g_blk s); [discriminate|].
  inversion H; subst; clear H.
  right. exists id. eexists. split; [reflexivity|]. rewrite E.
  intros HP (Hpass & Hact & Hfail). unfold TP.
  destruct (tally vs (p_pass p)) eqn:Et; simpl; (split; [exact Hpass|]); rewrite ?E1, ?Et;
    (split; intros; try discriminate; right; congruence).
Qed.

Lemma cancel_tupd : forall s id pr s' ev, h_cancel s id pr = Some (s', ev) -> tupd s s'.
Proof.
  intros s id pr s' ev H. unfold h_cancel in H.
  destruct (g_props s !! id) as [p|] eqn:E; [|discriminate].
  destruct (bool_decide (p_store p = SActive)); simpl in H; [|discriminate].
  destruct (bool_decide (p_status p = StFunding)) eqn:E2; simpl in H; [|discriminate].
  apply bool_decide_eq_true in E2.
  destruct (p_fdl p <? g_h s); [discriminate|].
  destruct (N.eqb (p_proposer p) pr); simpl in H; [|discriminate].
  inversion H; subst; clear H.
  right. exists id. eexists. split; [reflexivity|]. rewrite E.
  intros (H1 & _) (Hpass & Hact & Hfail). unfold TP. simpl.
  split; [exact Hpass|]. split; [discriminate | intros _; left; auto].
Qed.

Lemma expire_tupd : forall s id s' ev, h_expire s id = Some (s', ev) -> tupd s s'.
Proof.
  intros s id s' ev H. unfold h_expire in H.
  destruct (g_props s !! id) as [p|] eqn:E; [|discriminate].
  destruct (bool_decide (p_store p = SActive)) eqn:E1; simpl in H; [|discriminate].
  apply bool_decide_eq_true in E1.
  destruct (bool_decide (p_status p = StVoting)); simpl in H; [|discriminate].
  destruct (g_h s <=? p_vdl p); [discriminate|].
  inversion H; subst; clear H.
  right. exists id. eexists. split; [reflexivity|]. rewrite E.
  intros _ (Hpass & Hact & Hfail). unfold TP. simpl.
  split; [exact Hpass|]. split; [discriminate|]. intros _.
  destruct (Hact E1) as [Hv|Ht]; [left; exact Hv | right; congruence].
Qed.

Lemma withdraw_tupd : forall s id f amt ben s' ev, h_withdraw s id f amt ben = Some (s', ev) -> tupd s s'.
Proof.
  intros s id f amt ben s' ev H. unfold h_withdraw in H.
  destruct (g_props s !! id) as [p|] eqn:E; [|discriminate].
  destruct (bool_decide (p_store p = SActive) || bool_decide (p_store p = SFailed)) eqn:Est; simpl in H; [|discriminate].
  destruct (amt <=? 0); [discriminate|].
  assert (Hst : p_store p = SActive \/ p_store p = SFailed).
  { apply orb_prop in Est. destruct Est as [X|X]; apply bool_decide_eq_true in X; auto. }
  destruct (refundable (p_outcome p)) eqn:Er.
  - destruct (funded_visible (g_blk s) p f); [|discriminate].
    destruct (alookup f (p_indiv p)) as [cur|]; [|discriminate].
    destruct (cur - amt <? 0); [discriminate|].
    destruct (p_total p - amt <? 0); [discriminate|].
    inversion H; subst; clear H.
    right. exists id. eexists. split; [reflexivity|]. rewrite E. intros _ HT. exact HT.
  - destruct ((p_goal p <=? p_total p) || (g_h s <=? p_fdl p)); [discriminate|].
    cbv zeta in H. simpl in H.
    destruct (funded_visible (g_blk s) _ f); [|discriminate].
    destruct (alookup f (p_indiv p)) as [cur|]; [|discriminate]. simpl in H.
    destruct (cur - amt <? 0); [discriminate|].
    destruct (p_total p - amt <? 0); [discriminate|].
    inversion H; subst; clear H.
    right. exists id. eexists. split; [reflexivity|]. rewrite E.
    intros _ (Hpass & Hact & Hfail). unfold TP. simpl.
    split; [exact Hpass|]. split; [discriminate|]. intros _.
    destruct Hst as [Hs|Hs]; [destruct (Hact Hs) as [Hv|Ht]; [left; exact Hv | right; congruence] | exact (Hfail Hs)].
Qed.

Lemma finalize_tupd : forall s e id s' ev, h_finalize s e id = Some (s', ev) -> tupd s s'.
Proof.
  intros s e id s' ev H. unfold h_finalize, fin_move in H.
  destruct (g_props s !! id) as [p|] eqn:E; [|discriminate].
  destruct (8 <=? p_extra p). { inversion H; subst. left. reflexivity. }
  destruct (p_store p) eqn:Es; try discriminate;
    try (inversion H; subst; left; reflexivity).
  all: destruct (bool_decide (p_status p = StCompleted)) eqn:E2; simpl in H; [|discriminate].
  all: destruct (if p_snapblk p =? g_blk s then [] else p_votes p) as [|v0 vr] eqn:Ev; [discriminate|].
  all: destruct (tally (p_votes p) (p_pass p)); try discriminate.
  all: try (destruct (bool_decide (p_type p = TConfig) && bool_decide (id ∈ e_cfgfail e))).
  all: try (destruct (distribute _ e id p _) as [[s1 paid] bad] eqn:Ed; apply distribute_props in Ed).
  all: simpl in H; inversion H; subst; clear H.
  all: right; exists id; eexists.
  all: (split; [ rewrite ?props_anom; simpl; rewrite ?Ed; try destruct (bool_decide (p_type p = TConfig)); reflexivity |]).
  all: rewrite E; intros _ (Hpass & Hact & Hfail); unfold TP, del_funds; simpl; rewrite ?Es;
       (split; [exact Hpass|]); (split; intros; try discriminate; auto).
Qed.

Definition Good (s : state) : Prop := Inv s /\ TInv s.

Lemma good_step_handler s s' : good_update s s' -> tupd s s' -> Good s -> Good s'.
Proof.
  intros Hg Ht [HI HT]. split; [apply (good_update_sound s s' Hg HI) | eapply tupd_sound; eauto].
Qed.

Lemma good_same s s' : g_props s' = g_props s -> Good s -> Good s'.
Proof. intros Heq. apply good_step_handler; left; exact Heq. Qed.

(* the finalisation of a good state applies a configuration change only for a proposal in the passed store *)
Lemma finalize_config_passed : forall s e id s' ev id', Good s ->
  h_finalize s e id = Some (s', ev) -> EvConfig id' ∈ ev ->
  id' = id /\ exists p, g_props s !! id = Some p /\ p_type p = TConfig /\ p_store p = SPassed /\
    p_outcome p = OCompletedYes /\ tally (p_votes p) (p_pass p) = RPassed /\ rank_of s' id = 4%nat.
Proof.
  intros s e id s' ev id' [HI HT] H Hin.
  destruct (config_event_sound s e id s' ev id' H Hin) as (-> & p & E & Hty & Hst & Hx & Htal & Hvne & Hr).
  split; [reflexivity|]. exists p.
  assert (Hp : p_store p = SPassed).
  { destruct Hst as [Hs|Hs]; [exact Hs|]. exfalso. destruct (HT id p E) as (_ & _ & Hfail).
    destruct (Hfail Hs) as [Hv|Hn]; [exact (Hvne Hv) | exact (Hn Htal)]. }
  destruct (HI id p E) as (_ & _ & _ & _ & _ & _ & _ & H8).
  repeat split; auto.
Qed.

(* where a configuration change was applied: in some good state the proposal was in the passed store *)
Definition cfg_passed (id : N) : Prop :=
  exists st p, Good st /\ g_props st !! id = Some p /\ p_type p = TConfig /\ p_store p = SPassed /\
    p_outcome p = OCompletedYes /\ tally (p_votes p) (p_pass p) = RPassed.

Lemma run_queue_fin_good : forall e q s, Good s ->
  Good (run_queue (fun st id => h_finalize st e id) q s).1 /\
  forall id, EvConfig id ∈ (run_queue (fun st id => h_finalize st e id) q s).2 -> cfg_passed id.
Proof.
  intros e q s HG. unfold run_queue.
  assert (G : forall q (acc : state * list event), Good acc.1 -> (forall id, EvConfig id ∈ acc.2 -> cfg_passed id) ->
            let r := fold_left (fun acc id => match h_finalize acc.1 e id with
                                              | Some (s', ev) => (s', acc.2 ++ ev)
                                              | None => acc end) q acc in
            Good r.1 /\ forall id, EvConfig id ∈ r.2 -> cfg_passed id).
  { induction q0 as [|i q0 IH]; intros acc Hacc Hev; simpl; [auto|].
    apply IH; destruct (h_finalize acc.1 e i) as [[st' ev]|] eqn:Eh; simpl; auto.
    - eapply good_step_handler; [eapply finalize_good; eauto | eapply finalize_tupd; eauto | exact Hacc].
    - intros id Hin. apply elem_of_app in Hin. destruct Hin as [Hin|Hin]; [auto|].
      destruct (finalize_config_passed _ _ _ _ _ _ Hacc Eh Hin) as (-> & p & E & Hty & Hs & Ho & Ht & _).
      exists acc.1, p. auto 10. }
  apply G; [exact HG|]. simpl. intros id Hin. apply elem_of_nil in Hin. destruct Hin.
Qed.

Lemma run_queue_exp_good : forall q s, Good s ->
  Good (run_queue h_expire q s).1 /\ (run_queue h_expire q s).2 = [].
Proof.
  intros q s HG. unfold run_queue.
  assert (G : forall q (acc : state * list event), Good acc.1 -> acc.2 = [] ->
            let r := fold_left (fun acc id => match h_expire acc.1 id with
                                              | Some (s', ev) => (s', acc.2 ++ ev)
                                              | None => acc end) q acc in
            Good r.1 /\ r.2 = []).
  { induction q0 as [|i q0 IH]; intros acc Hacc Hev; simpl; [auto|].
    apply IH; destruct (h_expire acc.1 i) as [[st' ev]|] eqn:Eh; simpl; auto.
    - eapply good_step_handler; [eapply expire_good; eauto | eapply expire_tupd; eauto | exact Hacc].
    - rewrite Hev. unfold h_expire in Eh. destruct (g_props acc.1 !! i); [|discriminate].
      repeat match type of Eh with (if ?c then None else _) = _ => destruct c; [discriminate|] end.
      inversion Eh. reflexivity. }
  apply G; [exact HG | reflexivity].
Qed.

Lemma step_good s t : sane_op t -> Good s ->
  Good (step s t).1.1 /\ forall id, EvConfig id ∈ (step s t).2 -> cfg_passed id.
Proof.
  intros Hn HG. unfold step.
  assert (Hc : forall r, (forall s1 ev, r = Some (s1, ev) -> good_update s s1 /\ tupd s s1 /\ forall id, EvConfig id ∉ ev) ->
               let x := match charge r (t_payer t) (t_fee t) with
                        | Some (s', ev) => (s', true, ev) | None => (s, false, []) end in
               Good x.1.1 /\ forall id, EvConfig id ∈ x.2 -> cfg_passed id).
  { intros r Hr. destruct (charge r (t_payer t) (t_fee t)) as [[s' ev]|] eqn:Ec; simpl.
    - apply charge_props in Ec. destruct Ec as (s1 & -> & Heq).
      destruct (Hr s1 ev eq_refl) as (Hg & Ht & Hne). split.
      + eapply good_same; [exact Heq|]. eapply good_step_handler; eauto.
      + intros id Hin. exfalso. exact (Hne id Hin).
    - split; [exact HG|]. intros id Hin. apply elem_of_nil in Hin. destruct Hin. }
  assert (Hsing : forall (x : event) id, (forall i, x <> EvConfig i) -> EvConfig id ∉ [x]).
  { intros x id Hx Hin. apply elem_of_list_singleton in Hin. exact (Hx id (eq_sym Hin)). }
  unfold sane_op in Hn. destruct (t_op t) eqn:Eo.
  - simpl. split; [eapply good_same; [reflexivity | exact HG]|]. intros id Hin. apply elem_of_nil in Hin. destruct Hin.
  - apply Hc. intros s1 ev H. apply guard_some in H. split; [eapply create_good; eauto|]. split; [eapply create_tupd; [apply Hn | eauto]|].
    unfold h_create in H. cbv zeta in H.
    repeat match type of H with (if ?c then None else _) = _ =>
      match type of c with bool => destruct c; [discriminate|] end end.
    destruct (g_props s !! id); [discriminate|]. destruct (bal s proposer - amt <? 0); [discriminate|].
    inversion H; subst. intros i. apply Hsing. discriminate.
  - apply Hc. intros s1 ev H. apply guard_some in H. split; [eapply fund_good; eauto|]. split; [eapply fund_tupd; eauto|].
    unfold h_fund in H. destruct (amt <=? 0); [discriminate|]. destruct (g_props s !! id); [|discriminate].
    repeat match type of H with (if ?c then None else _) = _ =>
      match type of c with bool => destruct c; [discriminate|] end end.
    inversion H; subst. intros i. apply Hsing. discriminate.
  - apply Hc. intros s1 ev H. split; [eapply vote_good; eauto|]. split; [eapply vote_tupd; eauto|].
    unfold h_vote in H. destruct (g_props s !! id); [|discriminate].
    repeat match type of H with (if ?c then None else _) = _ =>
      match type of c with bool => destruct c; [discriminate|] end end.
    destruct (vote_update val o _); [|discriminate]. destruct (_ =? _); [discriminate|].
    inversion H; subst. intros i Hin. apply elem_of_nil in Hin. destruct Hin.
  - apply Hc. intros s1 ev H. split; [eapply cancel_good; eauto|]. split; [eapply cancel_tupd; eauto|].
    unfold h_cancel in H. destruct (g_props s !! id); [|discriminate].
    repeat match type of H with (if ?c then None else _) = _ =>
      match type of c with bool => destruct c; [discriminate|] end end.
    inversion H; subst. intros i Hin. apply elem_of_nil in Hin. destruct Hin.
  - apply Hc. intros s1 ev H. apply guard_some in H. split; [eapply withdraw_good; eauto|]. split; [eapply withdraw_tupd; eauto|].
    destruct (g_props s !! id) as [p|] eqn:E.
    + destruct (withdraw_refund_exact _ _ _ _ _ _ _ _ H E) as [-> _]. intros i. apply Hsing. discriminate.
    + unfold h_withdraw in H. rewrite E in H. discriminate.
  - destruct (h_expire s id) as [[s' ev]|] eqn:Eh; simpl.
    + split; [eapply good_step_handler; [eapply expire_good; eauto | eapply expire_tupd; eauto | exact HG]|].
      unfold h_expire in Eh. destruct (g_props s !! id); [|discriminate].
      repeat match type of Eh with (if ?c then None else _) = _ => destruct c; [discriminate|] end.
      inversion Eh; subst. intros i Hin. apply elem_of_nil in Hin. destruct Hin.
    + split; [exact HG|]. intros i Hin. apply elem_of_nil in Hin. destruct Hin.
  - destruct (h_finalize s (t_env t) id) as [[s' ev]|] eqn:Eh; simpl.
    + split; [eapply good_step_handler; [eapply finalize_good; eauto | eapply finalize_tupd; eauto | exact HG]|].
      intros i Hin. destruct (finalize_config_passed _ _ _ _ _ _ HG Eh Hin) as (-> & p & E & Hty & Hs & Ho & Ht & _).
      exists s, p. auto 10.
    + split; [exact HG|]. intros i Hin. apply elem_of_nil in Hin. destruct Hin.
  - unfold end_block.
    destruct (run_queue_exp_good (g_qexp s) s HG) as [G1 Ev1].
    destruct (run_queue h_expire (g_qexp s) s) as [s1 ev1]. simpl in G1, Ev1. subst ev1.
    destruct (run_queue_fin_good (t_env t) (g_qfin s) s1 G1) as [G2 Ev2].
    destruct (run_queue (fun st id => h_finalize st (t_env t) id) (g_qfin s) s1) as [s2 ev2]. simpl in *.
    split; [eapply good_same; [reflexivity | exact G2] | exact Ev2].
  - apply Hc. intros s1 ev H. inversion H; subst.
    split; [left; reflexivity|]. split; [left; reflexivity|]. intros i Hin. apply elem_of_nil in Hin. destruct Hin.
Qed.

Lemma run_good : forall ts s, Forall sane_op ts -> Good s -> Good (run s ts).1.
Proof.
  induction ts as [|t ts IH]; intros s Hn HG; simpl; [exact HG|].
  inversion Hn as [|? ? Hn1 Hn2]; subst.
  destruct (step_good s t Hn1 HG) as [S1 _]. destruct (step s t) as [[s1 ok] ev]. simpl in S1.
  specialize (IH s1 Hn2 S1). destruct (run s1 ts) as [s2 ev2]. exact IH.
Qed.

Lemma Good_init : Good init.
Proof. split; [exact Inv_init|]. intros i q H. unfold init in H. simpl in H. rewrite lookup_empty in H. discriminate. Qed.

(* FULL: along every history (sane options at creation), whatever the next operation is, a configuration change is
   applied only for a configuration proposal that is recorded as passed (passed store, outcome completedYes, votes
   passing under its own percentage) in the state in which its finalisation runs *)
Theorem config_only_for_passed : forall ts t id, Forall sane_op ts -> sane_op t ->
  EvConfig id ∈ (step (run init ts).1 t).2 -> cfg_passed id.
Proof.
  intros ts t id Hn Ht Hin.
  destruct (step_good (run init ts).1 t Ht (run_good ts init Hn Good_init)) as [_ H]. exact (H id Hin).
Qed.

(* ---------- ids are unique across all five stores; terminal records are never touched again ---------- *)
Definition terminal (p : prec) : Prop := p_store p = SFinalized \/ p_store p = SFinFailed.

(* what a successful handler may do: it rewrites at most one record, and never a terminal one *)
Definition nt_update (s s' : state) : Prop :=
  g_props s' = g_props s \/
  exists id p', g_props s' = <[id := p']> (g_props s) /\
    match g_props s !! id with Some p => ~ terminal p | None => True end.

Definition term_kept (s s' : state) : Prop :=
  forall id p, g_props s !! id = Some p -> terminal p -> g_props s' !! id = Some p.

Lemma nt_update_kept s s' : nt_update s s' -> term_kept s s'.
Proof.
  intros [Heq | (i & p' & Heq & Hm)] id p Hp Ht; rewrite Heq; [exact Hp|].
  destruct (decide (id = i)) as [->|Hne].
  - rewrite Hp in Hm. contradiction.
  - rewrite lookup_insert_ne by congruence. exact Hp.
Qed.

Lemma term_kept_trans s1 s2 s3 : term_kept s1 s2 -> term_kept s2 s3 -> term_kept s1 s3.
Proof. intros H12 H23 id p Hp Ht. apply H23; auto. Qed.

Ltac nt_active E E1 := right; eexists; eexists; (split; [reflexivity|]); rewrite E; unfold terminal; rewrite E1;
  intros [X|X]; discriminate.

Lemma create_nt : forall s e id ty pr amt fdl vdl goal pass cv s' ev,
  h_create s e id ty pr amt fdl vdl goal pass cv = Some (s', ev) -> nt_update s s' /\ g_props s !! id = None.
Proof.
  intros s e id ty pr amt fdl vdl goal pass cv s' ev H. unfold h_create in H. cbv zeta in H.
  repeat match type of H with (if ?c then None else _) = _ =>
    match type of c with bool => destruct c; [discriminate|] end end.
  destruct (g_props s !! id) eqn:E; [discriminate|].
  destruct (bal s pr - amt <? 0); [discriminate|]. inversion H; subst; clear H.
  split; [|reflexivity]. right. eexists. eexists. split; [reflexivity|]. rewrite E. exact I.
Qed.

Lemma fund_nt : forall s e id f amt s' ev, h_fund s e id f amt = Some (s', ev) -> nt_update s s'.
Proof.
  intros s e id f amt s' ev H. unfold h_fund in H.
  destruct (amt <=? 0); [discriminate|].
  destruct (g_props s !! id) as [p|] eqn:E; [|discriminate].
  destruct (bool_decide (p_store p = SActive)) eqn:E1; simpl in H; [|discriminate]. apply bool_decide_eq_true in E1.
  destruct (p_fdl p <? g_h s); [discriminate|].
  destruct (bool_decide (p_status p = StFunding)); simpl in H; [|discriminate].
  destruct (bal s f - amt <? 0); [discriminate|]. inversion H; subst; clear H. nt_active E E1.
Qed.

Lemma vote_nt : forall s e id v o s' ev, h_vote s e id v o = Some (s', ev) -> nt_update s s'.
Proof.
  intros s e id v o s' ev H. unfold h_vote in H.
  destruct (g_props s !! id) as [p|] eqn:E; [|discriminate].
  destruct (bool_decide (p_store p = SActive)) eqn:E1; simpl in H; [|discriminate]. apply bool_decide_eq_true in E1.
  destruct (bool_decide (p_status p = StVoting)); simpl in H; [|discriminate].
  destruct (p_vdl p <? g_h s); [discriminate|].
  destruct (bool_decide (v ∈ e_vals e)); simpl in H; [|discriminate].
  destruct (vote_update v o (p_votes p)); [|discriminate].
  destruct (p_snapblk p =? g_blk s); [discriminate|].
  inversion H; subst; clear H. nt_active E E1.
Qed.

Lemma cancel_nt : forall s id pr s' ev, h_cancel s id pr = Some (s', ev) -> nt_update s s'.
Proof.
  intros s id pr s' ev H. unfold h_cancel in H.
  destruct (g_props s !! id) as [p|] eqn:E; [|discriminate].
  destruct (bool_decide (p_store p = SActive)) eqn:E1; simpl in H; [|discriminate]. apply bool_decide_eq_true in E1.
  destruct (bool_decide (p_status p = StFunding)); simpl in H; [|discriminate].
  destruct (p_fdl p <? g_h s); [discriminate|].
  destruct (N.eqb (p_proposer p) pr); simpl in H; [|discriminate].
  inversion H; subst; clear H. nt_active E E1.
Qed.

Lemma expire_nt : forall s id s' ev, h_expire s id = Some (s', ev) -> nt_update s s'.
Proof.
  intros s id s' ev H. unfold h_expire in H.
  destruct (g_props s !! id) as [p|] eqn:E; [|discriminate].
  destruct (bool_decide (p_store p = SActive)) eqn:E1; simpl in H; [|discriminate]. apply bool_decide_eq_true in E1.
  destruct (bool_decide (p_status p = StVoting)); simpl in H; [|discriminate].
  destruct (g_h s <=? p_vdl p); [discriminate|].
  inversion H; subst; clear H. nt_active E E1.
Qed.

Lemma withdraw_nt : forall s id f amt ben s' ev, h_withdraw s id f amt ben = Some (s', ev) -> nt_update s s'.
Proof.
  intros s id f amt ben s' ev H. unfold h_withdraw in H.
  destruct (g_props s !! id) as [p|] eqn:E; [|discriminate].
  destruct (bool_decide (p_store p = SActive) || bool_decide (p_store p = SFailed)) eqn:Est; simpl in H; [|discriminate].
  destruct (amt <=? 0); [discriminate|].
  assert (Hnt : ~ terminal p).
  { apply orb_prop in Est. unfold terminal.
    destruct Est as [X|X]; apply bool_decide_eq_true in X; rewrite X; intros [Y|Y]; discriminate. }
  destruct (refundable (p_outcome p)).
  - destruct (funded_visible (g_blk s) p f); [|discriminate].
    destruct (alookup f (p_indiv p)); [|discriminate].
    destruct (_ - amt <? 0); [discriminate|]. destruct (p_total p - amt <? 0); [discriminate|].
    inversion H; subst; clear H. right. eexists. eexists. split; [reflexivity|]. rewrite E. exact Hnt.
  - destruct ((p_goal p <=? p_total p) || (g_h s <=? p_fdl p)); [discriminate|].
    cbv zeta in H. simpl in H.
    destruct (funded_visible (g_blk s) _ f); [|discriminate].
    destruct (alookup f (p_indiv p)); [|discriminate]. simpl in H.
    destruct (_ - amt <? 0); [discriminate|]. destruct (p_total p - amt <? 0); [discriminate|].
    inversion H; subst; clear H. right. eexists. eexists. split; [reflexivity|]. rewrite E. exact Hnt.
Qed.

Lemma finalize_nt : forall s e id s' ev, h_finalize s e id = Some (s', ev) -> nt_update s s'.
Proof.
  intros s e id s' ev H. unfold h_finalize, fin_move in H.
  destruct (g_props s !! id) as [p|] eqn:E; [|discriminate].
  destruct (8 <=? p_extra p). { inversion H; subst. left. reflexivity. }
  destruct (p_store p) eqn:Es; try discriminate;
    try (inversion H; subst; left; reflexivity).
  all: destruct (bool_decide (p_status p = StCompleted)) eqn:E2; simpl in H; [|discriminate].
  all: destruct (if p_snapblk p =? g_blk s then [] else p_votes p) as [|v0 vr] eqn:Ev; [discriminate|].
  all: destruct (tally (p_votes p) (p_pass p)); try discriminate.
  all: try (destruct (bool_decide (p_type p = TConfig) && bool_decide (id ∈ e_cfgfail e))).
  all: try (destruct (distribute _ e id p _) as [[s1 paid] bad] eqn:Ed; apply distribute_props in Ed).
  all: simpl in H; inversion H; subst; clear H.
  all: right; exists id; eexists.
  all: (split; [ rewrite ?props_anom; simpl; rewrite ?Ed; try destruct (bool_decide (p_type p = TConfig)); reflexivity |]).
  all: rewrite E; unfold terminal; rewrite Es; intros [X|X]; discriminate.
Qed.

Lemma run_queue_kept : forall (h : state -> N -> hres) q s,
  (forall st id st' ev, h st id = Some (st', ev) -> nt_update st st') -> term_kept s (run_queue h q s).1.
Proof.
  intros h q s Hh. unfold run_queue.
  assert (G : forall q acc, term_kept s acc.1 ->
            term_kept s (fold_left (fun acc id => match h acc.1 id with
                                                  | Some (s', ev) => (s', acc.2 ++ ev)
                                                  | None => acc end) q acc).1).
  { induction q0 as [|id q0 IH]; intros acc Hacc; simpl; [exact Hacc|].
    apply IH. destruct (h acc.1 id) as [[st' ev]|] eqn:Eh; [|exact Hacc].
    simpl. eapply term_kept_trans; [exact Hacc|]. apply nt_update_kept. eapply Hh; eauto. }
  apply G. intros id p Hp _. exact Hp.
Qed.

Lemma step_kept s t : term_kept s (step s t).1.1.
Proof.
  unfold step.
  assert (Hrefl : term_kept s s) by (intros id p Hp _; exact Hp).
  assert (Hc : forall r, (forall s1 ev, r = Some (s1, ev) -> nt_update s s1) ->
               term_kept s (match charge r (t_payer t) (t_fee t) with
                            | Some (s', ev) => (s', true, ev) | None => (s, false, []) end).1.1).
  { intros r Hr. destruct (charge r (t_payer t) (t_fee t)) as [[s' ev]|] eqn:Ec; simpl; [|exact Hrefl].
    apply charge_props in Ec. destruct Ec as (s1 & -> & Heq).
    intros id p Hp Ht. rewrite Heq. eapply nt_update_kept; eauto. }
  destruct (t_op t) eqn:Eo.
  - exact Hrefl.
  - apply Hc. intros s1 ev H. apply guard_some in H. eapply create_nt; eauto.
  - apply Hc. intros ? ? HG; apply guard_some in HG; eapply fund_nt; eauto.
  - apply Hc. intros; eapply vote_nt; eauto.
  - apply Hc. intros; eapply cancel_nt; eauto.
  - apply Hc. intros ? ? HG; apply guard_some in HG; eapply withdraw_nt; eauto.
  - destruct (h_expire s id) as [[s' ev]|] eqn:Eh; simpl; [|exact Hrefl].
    apply nt_update_kept. eapply expire_nt; eauto.
  - destruct (h_finalize s (t_env t) id) as [[s' ev]|] eqn:Eh; simpl; [|exact Hrefl].
    apply nt_update_kept. eapply finalize_nt; eauto.
  - unfold end_block.
    pose proof (run_queue_kept h_expire (g_qexp s) s (fun st i st' ev H => expire_nt st i st' ev H)) as K1.
    destruct (run_queue h_expire (g_qexp s) s) as [s1 ev1]. simpl in K1.
    pose proof (run_queue_kept (fun st id => h_finalize st (t_env t) id) (g_qfin s) s1
                  (fun st i st' ev H => finalize_nt st (t_env t) i st' ev H)) as K2.
    destruct (run_queue (fun st id => h_finalize st (t_env t) id) (g_qfin s) s1) as [s2 ev2]. simpl in *.
    eapply term_kept_trans; eauto.
  - apply Hc. intros s1 ev H. inversion H; subst. left. reflexivity.
Qed.

Lemma run_kept : forall ts s, term_kept s (run s ts).1.
Proof.
  induction ts as [|t ts IH]; intros s; simpl; [intros id p Hp _; exact Hp|].
  pose proof (step_kept s t) as K1. destruct (step s t) as [[s1 ok] ev]. simpl in K1.
  specialize (IH s1). destruct (run s1 ts) as [s2 ev2]. simpl in *. eapply term_kept_trans; eauto.
Qed.

(* terminal states are never left: once a proposal is in the finalized or the finalize-failed store, no history
   changes its record in any way (from ANY state, no invariant needed) *)
Theorem terminal_never_left : forall s ts id p, g_props s !! id = Some p ->
  p_store p = SFinalized \/ p_store p = SFinFailed -> g_props (run s ts).1 !! id = Some p.
Proof. intros s ts id p Hp Ht. exact (run_kept ts s id p Hp Ht). Qed.

(* ids are unique across all five stores: along every history, an id that has ever been created (whatever store
   holds it now) is never accepted by PROPOSAL_CREATE again, whoever sends it with whatever parameters *)
Theorem id_never_created_twice : forall ts1 ts2 id ty pr amt fdl vdl goal pass cv e payer fee cur,
  (1 <= rank_of (run init ts1).1 id)%nat ->
  let s := (run (run init ts1).1 ts2).1 in
  step s (mkTx (OCreate id ty pr amt fdl vdl goal pass cv) e payer fee cur) = (s, false, []).
Proof.
  intros ts1 ts2 id ty pr amt fdl vdl goal pass cv e payer fee cur Hr s.
  pose proof (stage_monotone ts1 ts2 id) as Hm. fold s in Hm.
  assert (Hex : exists p, g_props s !! id = Some p).
  { destruct (g_props s !! id) as [p|] eqn:Ep; [exists p; reflexivity|]. exfalso.
    unfold rank_of at 2 in Hm. rewrite Ep in Hm. lia. }
  destruct Hex as [p Hp]. unfold step. simpl.
  assert (Hc : h_create s e id ty pr amt fdl vdl goal pass cv = None).
  { unfold h_create. cbv zeta. rewrite Hp.
    repeat match goal with |- (if ?c then None else _) = None => destruct c; [reflexivity|] end. reflexivity. }
  rewrite Hc. unfold cguard. destruct (cur_ok _); reflexivity.
Qed.

(* and a successful create always concerns an id that no store holds *)
Theorem create_only_fresh : forall s e id ty pr amt fdl vdl goal pass cv s' ev,
  h_create s e id ty pr amt fdl vdl goal pass cv = Some (s', ev) -> g_props s !! id = None.
Proof. intros. eapply create_nt; eauto. Qed.

(* ====================== relaunch from an exported state (dump / load) ====================== *)
Definition WP (p : prec) : Prop := NoDup (map v_val (p_votes p)) /\ NoDup (map fst (p_indiv p)).
Definition WInv (s : state) : Prop := forall id p, g_props s !! id = Some p -> WP p.

Lemma aupd_keys f d l : map fst (aupd f d l) = if bool_decide (f ∈ map fst l) then map fst l else map fst l ++ [f].
Proof.
  induction l as [|[k v] l IH]; simpl; [reflexivity|].
  destruct (N.eqb f k) eqn:E.
  - apply N.eqb_eq in E. subst. simpl. rewrite bool_decide_eq_true_2 by (left). reflexivity.
  - apply N.eqb_neq in E. simpl. rewrite IH.
    destruct (bool_decide (f ∈ map fst l)) eqn:Eb.
    + apply bool_decide_eq_true in Eb. rewrite bool_decide_eq_true_2 by (right; exact Eb). reflexivity.
    + apply bool_decide_eq_false in Eb. rewrite bool_decide_eq_false_2; [reflexivity|].
      intros Hin. apply elem_of_cons in Hin. destruct Hin; [congruence|contradiction].
Qed.

Lemma aupd_nodup f d l : NoDup (map fst l) -> NoDup (map fst (aupd f d l)).
Proof.
  intros H. rewrite aupd_keys. destruct (bool_decide (f ∈ map fst l)) eqn:Eb; [exact H|].
  apply bool_decide_eq_false in Eb. apply NoDup_app. split; [exact H|]. split.
  - intros x Hx Hin. apply elem_of_list_singleton in Hin. subst. contradiction.
  - apply NoDup_singleton.
Qed.

Lemma aupd_absent f d l : f ∉ map fst l -> aupd f d l = l ++ [(f, d)].
Proof.
  induction l as [|[k v] l IH]; simpl; intros H; [reflexivity|].
  destruct (N.eqb f k) eqn:E.
  - apply N.eqb_eq in E. subst. exfalso. apply H. left.
  - rewrite IH; [reflexivity|]. intros Hin. apply H. right. exact Hin.
Qed.

Lemma vote_setup_vals v pw vs :
  map v_val (vote_setup v pw vs) = if bool_decide (v ∈ map v_val vs) then map v_val vs else map v_val vs ++ [v].
Proof.
  induction vs as [|x r IH]; simpl; [reflexivity|].
  destruct (N.eqb (v_val x) v) eqn:E.
  - apply N.eqb_eq in E. subst. simpl. rewrite bool_decide_eq_true_2 by left. reflexivity.
  - apply N.eqb_neq in E. simpl. rewrite IH.
    destruct (bool_decide (v ∈ map v_val r)) eqn:Eb.
    + apply bool_decide_eq_true in Eb. rewrite bool_decide_eq_true_2 by (right; exact Eb). reflexivity.
    + apply bool_decide_eq_false in Eb. rewrite bool_decide_eq_false_2; [reflexivity|].
      intros Hin. apply elem_of_cons in Hin. destruct Hin; [congruence|contradiction].
Qed.

Lemma vote_setup_nodup v pw vs : NoDup (map v_val vs) -> NoDup (map v_val (vote_setup v pw vs)).
Proof.
  intros H. rewrite vote_setup_vals. destruct (bool_decide (v ∈ map v_val vs)) eqn:Eb; [exact H|].
  apply bool_decide_eq_false in Eb. apply NoDup_app. split; [exact H|]. split.
  - intros x Hx Hin. apply elem_of_list_singleton in Hin. subst. contradiction.
  - apply NoDup_singleton.
Qed.

Lemma snapshot_nodup act : forall vs, NoDup (map v_val vs) -> NoDup (map v_val (snapshot act vs)).
Proof.
  unfold snapshot. induction act as [|a act IH]; intros vs H; simpl; [exact H|].
  apply IH. apply vote_setup_nodup. exact H.
Qed.

Lemma vote_update_vals : forall v o vs vs', vote_update v o vs = Some vs' -> map v_val vs' = map v_val vs.
Proof.
  intros v o. induction vs as [|x r IH]; intros vs' H; simpl in H; [discriminate|].
  destruct (N.eqb (v_val x) v).
  - injection H as <-. reflexivity.
  - destruct (vote_update v o r) as [r'|]; [|discriminate]. injection H as <-. simpl. rewrite (IH r'); reflexivity.
Qed.

Definition wupd (s s' : state) : Prop :=
  g_props s' = g_props s \/
  exists id p', g_props s' = <[id := p']> (g_props s) /\
    match g_props s !! id with Some p => WP p -> WP p' | None => WP p' end.

Lemma wupd_sound s s' : wupd s s' -> WInv s -> WInv s'.
Proof.
  intros [Heq | (id & p' & Heq & Hm)] HI i p Hp; rewrite Heq in Hp; [eauto|].
  destruct (decide (i = id)) as [->|Hne].
  - rewrite lookup_insert in Hp. inversion Hp; subst.
    destruct (g_props s !! id) as [p0|] eqn:E; [apply Hm; eauto | exact Hm].
  - rewrite lookup_insert_ne in Hp by congruence. eauto.
Qed.

Lemma WP_add_funds b p f a : WP p -> WP (add_funds b p f a).
Proof. intros [Hv Hi]. unfold WP. rewrite af_votes, af_indiv. split; [exact Hv | apply aupd_nodup; exact Hi]. Qed.

Lemma same_funds_votes_wupd s s' id p p' : g_props s !! id = Some p -> g_props s' = <[id := p']> (g_props s) ->
  p_indiv p' = p_indiv p -> map v_val (p_votes p') = map v_val (p_votes p) -> wupd s s'.
Proof.
  intros E Heq Hi Hv. right. exists id, p'. split; [exact Heq|]. rewrite E. unfold WP. rewrite Hi, Hv. auto.
Qed.

Lemma create_wupd : forall s e id ty pr amt fdl vdl goal pass cv s' ev,
  h_create s e id ty pr amt fdl vdl goal pass cv = Some (s', ev) -> wupd s s'.
Proof.
  intros s e id ty pr amt fdl vdl goal pass cv s' ev H. unfold h_create in H. cbv zeta in H.
  repeat match type of H with (if ?c then None else _) = _ =>
    match type of c with bool => destruct c; [discriminate|] end end.
  destruct (g_props s !! id) eqn:E; [discriminate|].
  destruct (bal s pr - amt <? 0); [discriminate|]. inversion H; subst; clear H.
  right. exists id. eexists. split; [reflexivity|]. rewrite E.
  apply WP_add_funds. split; simpl; constructor.
Qed.

Lemma fund_wupd : forall s e id f amt s' ev, h_fund s e id f amt = Some (s', ev) -> wupd s s'.
Proof.
  intros s e id f amt s' ev H. unfold h_fund in H.
  destruct (amt <=? 0); [discriminate|].
  destruct (g_props s !! id) as [p|] eqn:E; [|discriminate].
  destruct (bool_decide (p_store p = SActive)); simpl in H; [|discriminate].
  destruct (p_fdl p <? g_h s); [discriminate|].
  destruct (bool_decide (p_status p = StFunding)); simpl in H; [|discriminate].
  destruct (bal s f - amt <? 0); [discriminate|]. inversion H; subst; clear H.
  right. exists id. eexists. split; [reflexivity|]. rewrite E. intros HW.
  apply WP_add_funds. destruct (p_goal p <=? amt + p_total p); [|exact HW].
  destruct HW as [Hv Hi]. split; simpl; [apply snapshot_nodup; exact Hv | exact Hi].
Qed.

Lemma vote_wupd : forall s e id v o s' ev, h_vote s e id v o = Some (s', ev) -> wupd s s'.
Proof.
  intros s e id v o s' ev H. unfold h_vote in H.
  destruct (g_props s !! id) as [p|] eqn:E; [|discriminate].
  destruct (bool_decide (p_store p = SActive)); simpl in H; [|discriminate].
  destruct (bool_decide (p_status p = StVoting)); simpl in H; [|discriminate].
  destruct (p_vdl p <? g_h s); [discriminate|].
  destruct (bool_decide (v ∈ e_vals e)); simpl in H; [|discriminate].
  destruct (vote_update v o (p_votes p)) as [vs|] eqn:Ev; [|discriminate].
  destruct (p_snapblk p =? g_blk s); [discriminate|].
  inversion H; subst; clear H. apply vote_update_vals in Ev.
  eapply same_funds_votes_wupd; [exact E | reflexivity | |]; destruct (tally vs _); simpl; auto.
Qed.

Lemma cancel_wupd : forall s id pr s' ev, h_cancel s id pr = Some (s', ev) -> wupd s s'.
Proof.
  intros s id pr s' ev H. unfold h_cancel in H.
  destruct (g_props s !! id) as [p|] eqn:E; [|discriminate].
  repeat match type of H with (if ?c then None else _) = _ =>
    match type of c with bool => destruct c; [discriminate|] end end.
  inversion H; subst; clear H. eapply same_funds_votes_wupd; [exact E | reflexivity | reflexivity | reflexivity].
Qed.

Lemma expire_wupd : forall s id s' ev, h_expire s id = Some (s', ev) -> wupd s s'.
Proof.
  intros s id s' ev H. unfold h_expire in H.
  destruct (g_props s !! id) as [p|] eqn:E; [|discriminate].
  repeat match type of H with (if ?c then None else _) = _ =>
    match type of c with bool => destruct c; [discriminate|] end end.
  inversion H; subst; clear H. eapply same_funds_votes_wupd; [exact E | reflexivity | reflexivity | reflexivity].
Qed.

Lemma withdraw_wupd : forall s id f amt ben s' ev, h_withdraw s id f amt ben = Some (s', ev) -> wupd s s'.
Proof.
  intros s id f amt ben s' ev H. unfold h_withdraw in H.
  destruct (g_props s !! id) as [p|] eqn:E; [|discriminate].
  destruct (bool_decide (p_store p = SActive) || bool_decide (p_store p = SFailed)); simpl in H; [|discriminate].
  destruct (amt <=? 0); [discriminate|].
  destruct (refundable (p_outcome p)).
  - destruct (funded_visible (g_blk s) p f); [|discriminate].
    destruct (alookup f (p_indiv p)); [|discriminate].
    destruct (_ - amt <? 0); [discriminate|]. destruct (p_total p - amt <? 0); [discriminate|].
    inversion H; subst; clear H. right. eexists. eexists. split; [reflexivity|]. rewrite E.
    intros [Hv Hi]. split; simpl; [exact Hv | apply aupd_nodup; exact Hi].
  - destruct ((p_goal p <=? p_total p) || (g_h s <=? p_fdl p)); [discriminate|].
    cbv zeta in H. simpl in H.
    destruct (funded_visible (g_blk s) _ f); [|discriminate].
    destruct (alookup f (p_indiv p)); [|discriminate]. simpl in H.
    destruct (_ - amt <? 0); [discriminate|]. destruct (p_total p - amt <? 0); [discriminate|].
    inversion H; subst; clear H. right. eexists. eexists. split; [reflexivity|]. rewrite E.
    intros [Hv Hi]. split; simpl; [exact Hv | apply aupd_nodup; exact Hi].
Qed.

Lemma finalize_wupd : forall s e id s' ev, h_finalize s e id = Some (s', ev) -> wupd s s'.
Proof.
  intros s e id s' ev H. unfold h_finalize, fin_move in H.
  destruct (g_props s !! id) as [p|] eqn:E; [|discriminate].
  destruct (8 <=? p_extra p). { inversion H; subst. left. reflexivity. }
  destruct (p_store p) eqn:Es; try discriminate;
    try (inversion H; subst; left; reflexivity).
  all: destruct (bool_decide (p_status p = StCompleted)) eqn:E2; simpl in H; [|discriminate].
  all: destruct (if p_snapblk p =? g_blk s then [] else p_votes p) as [|v0 vr] eqn:Ev; [discriminate|].
  all: destruct (tally (p_votes p) (p_pass p)); try discriminate.
  all: try (destruct (bool_decide (p_type p = TConfig) && bool_decide (id ∈ e_cfgfail e))).
  all: try (destruct (distribute _ e id p _) as [[s1 paid] bad] eqn:Ed; apply distribute_props in Ed).
  all: simpl in H; inversion H; subst; clear H.
  all: right; exists id; eexists.
  all: (split; [ rewrite ?props_anom; simpl; rewrite ?Ed; try destruct (bool_decide (p_type p = TConfig)); reflexivity |]).
  all: rewrite E; intros [Hv Hi]; unfold WP, del_funds; simpl; (split; [exact Hv | first [exact Hi | constructor]]).
Qed.

Lemma run_queue_winv : forall (h : state -> N -> hres) q s,
  (forall st id st' ev, h st id = Some (st', ev) -> wupd st st') -> WInv s -> WInv (run_queue h q s).1.
Proof.
  intros h q s Hh. unfold run_queue.
  assert (G : forall q acc, WInv acc.1 ->
            WInv (fold_left (fun acc id => match h acc.1 id with
                                           | Some (s', ev) => (s', acc.2 ++ ev)
                                           | None => acc end) q acc).1).
  { induction q0 as [|id q0 IH]; intros acc Hacc; simpl; [exact Hacc|].
    apply IH. destruct (h acc.1 id) as [[st' ev]|] eqn:Eh; [|exact Hacc].
    simpl. eapply wupd_sound; [eapply Hh; eauto | exact Hacc]. }
  intros HI. apply G. exact HI.
Qed.

Lemma step_winv s t : WInv s -> WInv (step s t).1.1.
Proof.
  intros HI. unfold step.
  assert (Hc : forall r, (forall s1 ev, r = Some (s1, ev) -> wupd s s1) ->
               WInv (match charge r (t_payer t) (t_fee t) with
                     | Some (s', ev) => (s', true, ev) | None => (s, false, []) end).1.1).
  { intros r Hr. destruct (charge r (t_payer t) (t_fee t)) as [[s' ev]|] eqn:Ec; simpl; [|exact HI].
    apply charge_props in Ec. destruct Ec as (s1 & -> & Heq).
    intros i p Hp. rewrite Heq in Hp. eapply (wupd_sound s s1); eauto. }
  destruct (t_op t) eqn:Eo.
  - exact HI.
  - apply Hc. intros ? ? HG; apply guard_some in HG; eapply create_wupd; eauto.
  - apply Hc. intros ? ? HG; apply guard_some in HG; eapply fund_wupd; eauto.
  - apply Hc. intros; eapply vote_wupd; eauto.
  - apply Hc. intros; eapply cancel_wupd; eauto.
  - apply Hc. intros ? ? HG; apply guard_some in HG; eapply withdraw_wupd; eauto.
  - destruct (h_expire s id) as [[s' ev]|] eqn:Eh; simpl; [|exact HI].
    eapply wupd_sound; [eapply expire_wupd; eauto | exact HI].
  - destruct (h_finalize s (t_env t) id) as [[s' ev]|] eqn:Eh; simpl; [|exact HI].
    eapply wupd_sound; [eapply finalize_wupd; eauto | exact HI].
  - unfold end_block.
    destruct (run_queue h_expire (g_qexp s) s) as [s1 ev1] eqn:E1.
    destruct (run_queue (fun st id => h_finalize st (t_env t) id) (g_qfin s) s1) as [s2 ev2] eqn:E2.
    simpl.
    pose proof (run_queue_winv h_expire (g_qexp s) s (fun st i st' ev H => expire_wupd st i st' ev H) HI) as Q1.
    rewrite E1 in Q1. simpl in Q1.
    pose proof (run_queue_winv (fun st id => h_finalize st (t_env t) id) (g_qfin s) s1
                 (fun st i st' ev H => finalize_wupd st (t_env t) i st' ev H) Q1) as Q2.
    rewrite E2 in Q2. exact Q2.
  - apply Hc. intros s1 ev H. inversion H; subst. left. reflexivity.
Qed.

(* ---- load ∘ dump ---- *)
Local Arguments add_funds : simpl never.
Lemma load_dump_lookup s ver blk (i : N) :
  load blk (dump s ver) !! i = (fun p => load_rec blk (dump_rec ver p)) <$> (g_props s !! i).
Proof.
  unfold load, dump. rewrite map_map. simpl.
  change (map (fun x : N * prec => (x.1, load_rec blk (dump_rec ver x.2))) (map_to_list (g_props s)))
    with (prod_map (fun x : N => x) (fun p => load_rec blk (dump_rec ver p)) <$> map_to_list (g_props s)).
  rewrite list_to_map_fmap, list_to_map_to_list, lookup_fmap. reflexivity.
Qed.

Definition lf (blk : Z) (ind : list (N * Z)) (q : prec) : prec :=
  fold_left (fun q kv => add_funds blk q kv.1 kv.2) ind q.
Lemma lf_cons blk f a ind q : lf blk ((f, a) :: ind) q = lf blk ind (add_funds blk q f a).
Proof. reflexivity. Qed.

Lemma load_funds_fields blk : forall ind q,
  p_store (lf blk ind q) = p_store q /\ p_status (lf blk ind q) = p_status q /\ p_outcome (lf blk ind q) = p_outcome q /\
  p_goal (lf blk ind q) = p_goal q /\ p_votes (lf blk ind q) = p_votes q /\ p_extra (lf blk ind q) = p_extra q /\
  p_vdl (lf blk ind q) = p_vdl q /\ p_pass (lf blk ind q) = p_pass q /\
  p_total (lf blk ind q) = p_total q + asum ind /\
  p_indiv (lf blk ind q) = fold_left (fun l kv => aupd kv.1 kv.2 l) ind (p_indiv q).
Proof.
  induction ind as [|[f a] ind IH]; intros q.
  - unfold lf, asum. simpl. repeat split; try reflexivity. lia.
  - rewrite lf_cons. destruct (IH (add_funds blk q f a)) as (H1 & H2 & H3 & H4 & H5 & H6 & H7 & H8 & H9 & H10).
    rewrite H1, H2, H3, H4, H5, H6, H7, H8, H9, H10.
    rewrite af_store, af_status, af_outcome, af_goal, af_votes, af_extra, af_vdl, af_pass, af_total, af_indiv.
    repeat split; try reflexivity. unfold asum. simpl. lia.
Qed.

Lemma fold_aupd_nodup : forall ind l0, NoDup (map fst (l0 ++ ind)) ->
  fold_left (fun l (kv : N * Z) => aupd kv.1 kv.2 l) ind l0 = l0 ++ ind.
Proof.
  induction ind as [|[f a] ind IH]; intros l0 H; simpl; [rewrite app_nil_r; reflexivity|].
  rewrite aupd_absent.
  - rewrite IH; [rewrite <- app_assoc; reflexivity|]. rewrite <- app_assoc. exact H.
  - rewrite map_app in H. apply NoDup_app in H. destruct H as (_ & H & _).
    intros Hin. apply (H f Hin). simpl. left.
Qed.

Lemma vote_setup_absent v pw vs : v ∉ map v_val vs -> vote_setup v pw vs = vs ++ [mkVote v pw OpUnknown].
Proof.
  induction vs as [|x r IH]; simpl; intros H; [reflexivity|].
  destruct (N.eqb (v_val x) v) eqn:E.
  - apply N.eqb_eq in E. subst. exfalso. apply H. left.
  - rewrite IH; [reflexivity|]. intros Hin. apply H. right. exact Hin.
Qed.

Lemma vote_update_last v pw o vs : v ∉ map v_val vs ->
  vote_update v o (vs ++ [mkVote v pw OpUnknown]) = Some (vs ++ [mkVote v pw o]).
Proof.
  induction vs as [|x r IH]; simpl; intros H.
  - rewrite N.eqb_refl. reflexivity.
  - destruct (N.eqb (v_val x) v) eqn:E.
    + apply N.eqb_eq in E. subst. exfalso. apply H. left.
    + rewrite IH; [reflexivity|]. intros Hin. apply H. right. exact Hin.
Qed.

Lemma load_votes_nodup_gen : forall vs acc, NoDup (map v_val (acc ++ vs)) ->
  fold_left (fun acc v => match vote_update (v_val v) (v_op v) (vote_setup (v_val v) (v_power v) acc) with
                          | Some acc' => acc' | None => acc end) vs acc = acc ++ vs.
Proof.
  induction vs as [|x vs IH]; intros acc H; simpl; [rewrite app_nil_r; reflexivity|].
  assert (Hx : v_val x ∉ map v_val acc).
  { rewrite map_app in H. apply NoDup_app in H. destruct H as (_ & H & _).
    intros Hin. apply (H _ Hin). simpl. left. }
  rewrite vote_setup_absent by exact Hx. rewrite vote_update_last by exact Hx.
  replace (mkVote (v_val x) (v_power x) (v_op x)) with x by (destruct x; reflexivity).
  rewrite IH; [rewrite <- app_assoc; reflexivity|]. rewrite <- app_assoc. exact H.
Qed.

Lemma load_votes_nodup vs : NoDup (map v_val vs) -> load_votes vs = vs.
Proof. intros H. unfold load_votes. rewrite load_votes_nodup_gen; [reflexivity | exact H]. Qed.

(* what a record looks like after export + import: everything but the bookkeeping of storage visibility is preserved;
   the deadlines of an active proposal are relative to the exported version *)
Definition same_record (ver : Z) (p r : prec) : Prop :=
  p_store r = p_store p /\ p_status r = p_status p /\ p_outcome r = p_outcome p /\ p_type r = p_type p /\
  p_proposer r = p_proposer p /\ p_goal r = p_goal p /\ p_pass r = p_pass p /\ p_extra r = p_extra p /\
  p_total r = p_total p /\ p_indiv r = p_indiv p /\ p_votes r = p_votes p /\
  (p_store p = SActive -> p_fdl r = Z.max 0 (p_fdl p - ver) /\ p_vdl r = Z.max 0 (p_vdl p - ver)) /\
  (p_store p <> SActive -> p_fdl r = p_fdl p /\ p_vdl r = p_vdl p).

Lemma dump_rec_fields ver p :
  let d := dump_rec ver p in
  p_store d = p_store p /\ p_status d = p_status p /\ p_outcome d = p_outcome p /\ p_type d = p_type p /\
  p_proposer d = p_proposer p /\ p_goal d = p_goal p /\ p_pass d = p_pass p /\ p_extra d = p_extra p /\
  p_total d = p_total p /\ p_indiv d = p_indiv p /\ p_votes d = p_votes p.
Proof. unfold dump_rec. destruct (bool_decide (p_store p = SActive)); simpl; repeat split; reflexivity. Qed.

Theorem load_dump_record : forall blk ver p, WP p -> p_total p = asum (p_indiv p) ->
  same_record ver p (load_rec blk (dump_rec ver p)).
Proof.
  intros blk ver p [Hv Hi] Ht.
  destruct (dump_rec_fields ver p) as (D1 & D2 & D3 & D4 & D5 & D6 & D7 & D8 & D9 & D10 & D11).
  pose proof (load_funds_fields blk (p_indiv (dump_rec ver p)) (with_newf (with_funds (dump_rec ver p) 0 []) [])) as L.
  destruct L as (L1 & L2 & L3 & L4 & L5 & L6 & L7 & L8 & L9 & L10).
  unfold lf in *. simpl in L1, L2, L3, L4, L5, L6, L7, L8, L9, L10.
  unfold same_record, load_rec, load_funds. simpl.
  rewrite L1, L2, L3, L4, L6, L7, L8, L9, L10, D10, D11.
  rewrite (fold_aupd_nodup (p_indiv p) []) by exact Hi. rewrite load_votes_nodup by exact Hv. simpl.
  assert (Ho : forall (l : list (N * Z)) (q : prec),
            p_outcome (fold_left (fun q kv => add_funds blk q kv.1 kv.2) l q) = p_outcome q /\
            p_type (fold_left (fun q kv => add_funds blk q kv.1 kv.2) l q) = p_type q /\
            p_proposer (fold_left (fun q kv => add_funds blk q kv.1 kv.2) l q) = p_proposer q /\
            p_fdl (fold_left (fun q kv => add_funds blk q kv.1 kv.2) l q) = p_fdl q).
  { induction l as [|[f a] l IH]; intros q; simpl; [auto|].
    destruct (IH (add_funds blk q f a)) as (A1 & A2 & A3 & A4). rewrite A1, A2, A3, A4.
    unfold add_funds. destruct (alookup f (p_indiv q)); simpl; auto. }
  destruct (Ho (p_indiv p) (with_newf (with_funds (dump_rec ver p) 0 []) [])) as (O1 & O2 & O3 & O4).
  simpl in O1, O2, O3, O4. rewrite O2, O3, O4.
  repeat split; try congruence; try lia.
  all: unfold dump_rec.
  all: match goal with Hs : p_store ?x = SActive |- _ => rewrite (bool_decide_eq_true_2 _ Hs)
                     | Hs : p_store ?x <> SActive |- _ => rewrite (bool_decide_eq_false_2 _ Hs) end; reflexivity.
Qed.

(* ---- the invariants (hence every theorem above) carry over a relaunch ---- *)
Lemma same_record_PInv ver p r : same_record ver p r -> PInv p -> PInv r.
Proof.
  intros (E1 & E2 & E3 & E4 & E5 & E6 & E7 & E8 & E9 & E10 & E11 & _ & _) HP.
  unfold PInv in *. rewrite E1, E2, E3, E6, E8, E9, E10, E11. exact HP.
Qed.

Lemma same_record_TP ver p r : same_record ver p r -> TP p -> TP r.
Proof.
  intros (E1 & E2 & E3 & E4 & E5 & E6 & E7 & E8 & E9 & E10 & E11 & _ & _) HP.
  unfold TP in *. rewrite E1, E7, E11. exact HP.
Qed.

Lemma same_record_FInv ver p r : same_record ver p r -> FInv p -> FInv r.
Proof.
  intros (E1 & E2 & E3 & E4 & E5 & E6 & E7 & E8 & E9 & E10 & E11 & _ & _) HP.
  unfold FInv in *. rewrite E9, E10. exact HP.
Qed.

Lemma same_record_WP ver p r : same_record ver p r -> WP p -> WP r.
Proof.
  intros (E1 & E2 & E3 & E4 & E5 & E6 & E7 & E8 & E9 & E10 & E11 & _ & _) HP.
  unfold WP in *. rewrite E10, E11. exact HP.
Qed.

Definition AllInv (s : state) : Prop := Inv s /\ TInv s /\ FundsInv s /\ WInv s.

(* load ∘ dump preserves every proposal record, its fund records and its votes *)
Theorem reload_preserves : forall s ver bals pool, FundsInv s -> WInv s ->
  forall id, match g_props s !! id with
             | Some p => exists r, g_props (reload s ver bals pool) !! id = Some r /\ same_record ver p r
             | None => g_props (reload s ver bals pool) !! id = None
             end.
Proof.
  intros s ver bals pool HF HW id. unfold reload. simpl. rewrite load_dump_lookup.
  destruct (g_props s !! id) as [p|] eqn:E; simpl; [|reflexivity].
  eexists. split; [reflexivity|]. apply load_dump_record; [exact (HW id p E) | exact (proj2 (HF id p E))].
Qed.

Theorem reload_allinv : forall s ver bals pool, AllInv s ->
  AllInv (reload s ver bals pool) /\ forall id, rank_of (reload s ver bals pool) id = rank_of s id.
Proof.
  intros s ver bals pool (HI & HT & HF & HW).
  pose proof (reload_preserves s ver bals pool HF HW) as HR.
  assert (Hback : forall id r, g_props (reload s ver bals pool) !! id = Some r ->
            exists p, g_props s !! id = Some p /\ same_record ver p r).
  { intros id r Hr. specialize (HR id). destruct (g_props s !! id) as [p|] eqn:E.
    - destruct HR as (r' & Hr' & Hs). rewrite Hr in Hr'. inversion Hr'; subst. eauto.
    - rewrite Hr in HR. discriminate. }
  split; [split; [|split; [|split]]|].
  - intros id r Hr. destruct (Hback id r Hr) as (p & E & Hs). eapply same_record_PInv; eauto.
  - intros id r Hr. destruct (Hback id r Hr) as (p & E & Hs). eapply same_record_TP; eauto.
  - intros id r Hr. destruct (Hback id r Hr) as (p & E & Hs). eapply same_record_FInv; eauto.
  - intros id r Hr. destruct (Hback id r Hr) as (p & E & Hs). eapply same_record_WP; eauto.
  - intros id. unfold rank_of. specialize (HR id). destruct (g_props s !! id) as [p|] eqn:E.
    + destruct HR as (r & Hr & (E1 & E2 & _)). rewrite Hr. unfold rank. rewrite E1, E2. reflexivity.
    + rewrite HR. reflexivity.
Qed.

Definition sane_hop (h : hop) : Prop := match h with HOp t => sane_op t | HReload _ _ _ => True end.

Lemma hstep_allinv s h : sane_hop h -> AllInv s ->
  AllInv (hstep s h).1.1 /\ forall id, (rank_of s id <= rank_of (hstep s h).1.1 id)%nat.
Proof.
  intros Hs (HI & HT & HF & HW). destruct h as [t|ver bals pool]; simpl in *.
  - destruct (step_pres s t I HI) as [HI' HR].
    destruct (step_good s t Hs (conj HI HT)) as [[_ HT'] _].
    split; [|exact HR]. split; [exact HI'|]. split; [exact HT'|]. split; [apply step_funds; auto | apply step_winv; auto].
  - destruct (reload_allinv s ver bals pool (conj HI (conj HT (conj HF HW)))) as [HA HR].
    split; [exact HA|]. intros id. rewrite HR. lia.
Qed.

(* every history, relaunches included: all invariants hold and the stage never moves backwards *)
Theorem hrun_allinv : forall hs s, Forall sane_hop hs -> AllInv s ->
  AllInv (hrun s hs).1 /\ forall id, (rank_of s id <= rank_of (hrun s hs).1 id)%nat.
Proof.
  induction hs as [|h hs IH]; intros s Hn HA; simpl; [split; [exact HA | intros; lia]|].
  inversion Hn as [|? ? Hn1 Hn2]; subst.
  destruct (hstep_allinv s h Hn1 HA) as [A1 R1]. destruct (hstep s h) as [[s1 ok] ev]. simpl in *.
  destruct (IH s1 Hn2 A1) as [A2 R2]. destruct (hrun s1 hs) as [s2 ev2]. simpl in *.
  split; [exact A2|]. intros id. specialize (R1 id). specialize (R2 id). lia.
Qed.

Lemma AllInv_init : AllInv init.
Proof.
  split; [exact Inv_init|]. split; [exact (proj2 Good_init)|]. split; [exact FundsInv_init|].
  intros i q H. unfold init in H. simpl in H. rewrite lookup_empty in H. discriminate.
Qed.

Theorem refund_in_full_inv : forall s id f ben p cur, Inv s -> FundsInv s ->
  g_props s !! id = Some p -> refundable (p_outcome p) = true -> funded_visible (g_blk s) p f = true ->
  alookup f (p_indiv p) = Some cur -> 0 < cur ->
  exists s', h_withdraw s id f cur ben = Some (s', [EvRefund id f ben cur]).
Proof.
  intros s id f ben p cur HI HF E Hr Hv Hl Hc. destruct (HF id p E) as [Hnn Ht].
  eapply refund_available; eauto.
  - eapply refundable_failed; eauto.
  - rewrite Ht. eapply alookup_le_asum; eauto.
Qed.

(* a create / fund / withdraw whose amount is not denominated in OLT is refused and changes nothing, whoever sends it
   and whatever they own *)
Theorem non_olt_refused : forall s t, t_cur t <> 0%N ->
  match t_op t with OCreate _ _ _ _ _ _ _ _ _ | OFund _ _ _ | OWithdraw _ _ _ _ => step s t = (s, false, []) | _ => True end.
Proof.
  intros s t Hc. unfold step, cur_ok. rewrite (proj2 (N.eqb_neq _ _) Hc). destruct (t_op t); simpl; auto.
Qed.
