(* RewardsProofs.v — lemmas and proofs about theories/Rewards.v (C13) *)
From Coq Require Import ZArith List Bool Lia.
From OL Require Import theories.Rewards.
Import ListNotations.
Local Open Scope Z_scope.

(* ------------------------------------------------------------------------------------------ *)
(* arithmetic                                                                                   *)

Lemma ediv_pos a b : 0 < b -> ediv a b = a / b.
Proof. intros H. unfold ediv. destruct (0 <? b) eqn:E; [reflexivity|]. apply Z.ltb_ge in E. lia. Qed.

Lemma div_add_le a b T : 0 < T -> a / T + b / T <= (a + b) / T.
Proof.
  intros HT. apply Z.div_le_lower_bound; [lia|].
  pose proof (Z.mul_div_le a T HT). pose proof (Z.mul_div_le b T HT). lia.
Qed.

Lemma div_nonneg a T : 0 <= a -> 0 < T -> 0 <= a / T.
Proof. intros. apply Z.div_pos; lia. Qed.

Lemma div_frac_le X S T : 0 <= X -> 0 <= S -> S <= T -> 0 < T -> X * S / T <= X.
Proof.
  intros HX HS HST HT. apply Z.div_le_upper_bound; [lia|]. nia.
Qed.

Lemma zsum_app l1 l2 : zsum (l1 ++ l2) = zsum l1 + zsum l2.
Proof. induction l1; simpl; lia. Qed.

Lemma zsum_map_add {A} (f g : A -> Z) l :
  zsum (map (fun x => f x + g x) l) = zsum (map f l) + zsum (map g l).
Proof. induction l; simpl; lia. Qed.

Lemma zsum_nonneg l : Forall (fun x => 0 <= x) l -> 0 <= zsum l.
Proof. induction 1; simpl; lia. Qed.

(* the floor-sum lemma: shares computed by floor division never add up to more than the
   floor of the whole *)
Lemma floor_sum X T (ps : list Z) : 0 < T -> 0 <= X -> Forall (fun p => 0 <= p) ps ->
  zsum (map (fun p => X * p / T) ps) <= X * zsum ps / T.
Proof.
  intros HT HX H. induction H as [|p ps Hp Hps IH]; simpl.
  - rewrite Z.mul_0_r. rewrite Z.div_0_l; lia.
  - replace (X * (p + zsum ps)) with (X * p + X * zsum ps) by lia.
    pose proof (div_add_le (X * p) (X * zsum ps) T HT). lia.
Qed.

Lemma floor_sum_each_nonneg X T (ps : list Z) : 0 < T -> 0 <= X -> Forall (fun p => 0 <= p) ps ->
  Forall (fun x => 0 <= x) (map (fun p => X * p / T) ps).
Proof.
  intros HT HX H. induction H; simpl; constructor; auto. apply div_nonneg; nia.
Qed.

Lemma floor_sum_le X T ps : 0 < T -> 0 <= X -> Forall (fun p => 0 <= p) ps -> zsum ps <= T ->
  zsum (map (fun p => X * p / T) ps) <= X.
Proof.
  intros HT HX H HS. pose proof (floor_sum X T ps HT HX H).
  pose proof (div_frac_le X (zsum ps) T HX (zsum_nonneg _ H) HS HT). lia.
Qed.

(* ------------------------------------------------------------------------------------------ *)
(* (a) split                                                                                    *)

Lemma pow_lookup_notin votes a acc : ~ In a (map v_addr votes) -> pow_lookup votes a acc = acc.
Proof.
  revert acc. induction votes as [|v r IH]; simpl; intros acc H; [reflexivity|].
  destruct (v_addr v =? a) eqn:E.
  - apply Z.eqb_eq in E. exfalso. apply H. left. exact E.
  - apply IH. intro. apply H. right. assumption.
Qed.

Lemma pow_lookup_nodup votes v acc : NoDup (map v_addr votes) -> In v votes ->
  pow_lookup votes (v_addr v) acc = vpow v.
Proof.
  revert acc. induction votes as [|w r IH]; simpl; intros acc ND HIn; [contradiction|].
  inversion ND as [|? ? Hni ND']; subst. destruct HIn as [->|HIn].
  - rewrite Z.eqb_refl. apply pow_lookup_notin. exact Hni.
  - apply IH; assumption.
Qed.

Lemma filter_addr_incl (f : vote -> bool) votes a :
  In a (map v_addr (filter f votes)) -> In a (map v_addr votes).
Proof.
  induction votes as [|v r IH]; simpl; [tauto|]. destruct (f v); simpl; [intros [H|H]; auto | auto].
Qed.

Lemma nodup_filter_addr (f : vote -> bool) votes :
  NoDup (map v_addr votes) -> NoDup (map v_addr (filter f votes)).
Proof.
  induction votes as [|v r IH]; simpl; intros ND; [constructor|].
  inversion ND as [|? ? Hni ND']; subst. destruct (f v); simpl; auto.
  constructor; auto. intro H. apply Hni. eapply filter_addr_incl. exact H.
Qed.

Lemma zsum_filter_le (f : vote -> bool) votes : Forall (fun v => 0 <= v_power v) votes ->
  zsum (map vpow (filter f votes)) <= zsum (map vpow votes).
Proof.
  induction 1 as [|v r Hv Hr IH]; simpl; [lia|].
  assert (0 <= vpow v) by (unfold vpow, UNIT; lia).
  destruct (f v); simpl; lia.
Qed.

Lemma vpow_nonneg votes : Forall (fun v => 0 <= v_power v) votes ->
  Forall (fun p => 0 <= p) (map vpow votes).
Proof. induction 1; simpl; constructor; auto. unfold vpow, UNIT. lia. Qed.

Lemma forall_filter {A} (P : A -> Prop) f l : Forall P l -> Forall P (filter f l).
Proof. induction 1; simpl; [constructor|]. destruct (f x); auto. Qed.

(* the proposer bonus is paid at most once when addresses are distinct *)
Lemma proposer_once (l : list vote) pr P : 0 <= P -> NoDup (map v_addr l) ->
  0 <= zsum (map (fun v => if v_addr v =? pr then P else 0) l) <= P.
Proof.
  intros HP. induction l as [|v r IH]; simpl; intros ND; [lia|].
  inversion ND as [|? ? Hni ND']; subst. specialize (IH ND').
  destruct (v_addr v =? pr) eqn:E; [|lia].
  apply Z.eqb_eq in E.
  assert (zsum (map (fun v0 : vote => if v_addr v0 =? pr then P else 0) r) = 0) as ->; [|lia].
  clear IH ND ND'. induction r as [|w r IH]; simpl; [reflexivity|].
  destruct (v_addr w =? pr) eqn:E2.
  - apply Z.eqb_eq in E2. exfalso. apply Hni. left. congruence.
  - rewrite IH; [lia|]. intro. apply Hni. right. assumption.
Qed.

Lemma zsum_map_snd_pair {A} (f : A -> Z) (g : A -> Z) l :
  zsum (map snd (map (fun v => (f v, g v)) l)) = zsum (map g l).
Proof. induction l; simpl; lia. Qed.

Lemma zsum_map_ext_in {A} (f g : A -> Z) l : (forall x, In x l -> f x = g x) ->
  zsum (map f l) = zsum (map g l).
Proof. intros H. f_equal. apply map_ext_in. exact H. Qed.

Lemma zsum_map_map {A} (f : A -> Z) (g : Z -> Z) l : zsum (map g (map f l)) = zsum (map (fun x => g (f x)) l).
Proof. rewrite map_map. reflexivity. Qed.

Definition consts_ok (k : consts) : Prop := 0 <= COMM k <= 100 /\ 0 <= BPC k <= 100.

Lemma pct_bounds c x : 0 <= c <= 100 -> 0 <= x -> 0 <= c * x / 100 <= x.
Proof.
  intros Hc Hx. split.
  - apply Z.div_pos; nia.
  - apply Z.div_le_upper_bound; nia.
Qed.

Section Split.
  Variables (k : consts) (votes : list vote) (dp : Z) (delegs : list (Z * Z)) (proposer R : Z).
  Hypothesis Hk : consts_ok k.
  Hypothesis HR : 0 <= R.
  Hypothesis Hdp : 0 <= dp.
  Hypothesis Hpow : Forall (fun v => 0 <= v_power v) votes.
  Hypothesis Hnd : NoDup (map v_addr votes).
  Hypothesis Hdel : Forall (fun d => 0 <= snd d) delegs.
  Hypothesis Hdsum : zsum (map snd delegs) <= dp.

  Let T := zsum (map vpow votes) + dp.
  Let cr := filter credited votes.

  Lemma totval_nonneg : 0 <= zsum (map vpow votes).
  Proof. apply zsum_nonneg, vpow_nonneg, Hpow. Qed.

  Lemma split_bounded_lemma out : split k votes dp delegs proposer R = Some out ->
    zsum (map snd (so_vals out)) + zsum (map snd (so_delegs out)) <= R /\
    so_consumed out <= R /\
    Forall (fun c => 0 <= snd c) (so_vals out) /\
    Forall (fun c => 0 <= snd c) (so_delegs out).
  Proof.
    unfold split. fold T. fold cr.
    pose proof totval_nonneg as HTV.
    destruct ((T =? 0) && ((0 <? dp) || negb match cr with [] => true | _ :: _ => false end)) eqn:Ecrash;
      [discriminate|].
    intros Hout. injection Hout as <-. cbn [so_vals so_delegs so_consumed].
    (* the credited votes *)
    assert (Hcrpow : Forall (fun p => 0 <= p) (map vpow cr)).
    { apply vpow_nonneg. apply forall_filter. exact Hpow. }
    assert (Hcrsum : zsum (map vpow cr) <= zsum (map vpow votes)) by (apply zsum_filter_le; exact Hpow).
    assert (Hcrnd : NoDup (map v_addr cr)) by (apply nodup_filter_addr; exact Hnd).
    assert (Hlook : forall v, In v cr -> pow_lookup votes (v_addr v) 0 = vpow v).
    { intros v Hv. apply pow_lookup_nodup; [exact Hnd|]. apply filter_In in Hv. tauto. }
    destruct (T =? 0) eqn:ET.
    { (* T = 0: nothing is credited and the pool is empty *)
      apply Z.eqb_eq in ET. simpl in Ecrash. apply orb_false_iff in Ecrash as [E1 E2].
      rewrite E1. apply negb_false_iff in E2. destruct cr eqn:Ecr; [|discriminate].
      simpl. repeat split; try lia; constructor. }
    apply Z.eqb_neq in ET. assert (HT : 0 < T) by (unfold T in *; lia).
    rewrite zsum_map_snd_pair.
    destruct (0 <? dp) eqn:Edp.
    2:{ (* no delegation pool *)
      apply Z.ltb_ge in Edp. assert (dp = 0) by lia. subst dp. cbn [d_credits d_rewards dresp0].
      unfold val_amount. rewrite Z.ltb_irrefl.
      rewrite (zsum_map_ext_in _ (fun v => R * vpow v / T) cr).
      2:{ intros v Hv. rewrite (Hlook v Hv), ediv_pos by exact HT. lia. }
      rewrite <- zsum_map_map with (g := fun p => R * p / T).
      pose proof (floor_sum_le R T (map vpow cr) HT HR Hcrpow ltac:(unfold T; lia)) as Hle.
      simpl. repeat split; try lia.
      - apply Forall_forall. intros [a x] Hin. apply in_map_iff in Hin as [v [Heq Hv]].
        injection Heq as <- <-. rewrite (Hlook v Hv), ediv_pos by exact HT. simpl.
        assert (0 <= vpow v) by (rewrite Forall_forall in Hcrpow; apply Hcrpow, in_map, Hv).
        pose proof (div_nonneg (R * vpow v) T ltac:(nia) HT). lia.
      - constructor. }
    (* with a delegation pool *)
    apply Z.ltb_lt in Edp. destruct Hk as [HC HB].
    unfold deleg_split. rewrite !ediv_pos by lia.
    set (D := R * dp / T).
    assert (HD : 0 <= D <= R).
    { unfold D. split; [apply div_nonneg; nia|]. apply div_frac_le; unfold T; lia. }
    set (C := COMM k * D / 100). assert (HCb : 0 <= C <= D) by (apply pct_bounds; lia).
    set (P := BPC k * C / 100). assert (HPb : 0 <= P <= C) by (apply pct_bounds; lia).
    destruct (D - C <? 0) eqn:E1; [apply Z.ltb_lt in E1; lia|].
    destruct (C - P <? 0) eqn:E2; [apply Z.ltb_lt in E2; lia|].
    cbn [d_credits d_rewards d_commission d_proposer].
    unfold val_amount. cbn [d_commission d_proposer].
    assert (Edp' : (0 <? dp) = true) by (apply Z.ltb_lt; lia). rewrite Edp'.
    rewrite (zsum_map_ext_in _
      (fun v => R * vpow v / T + ((C - P) * vpow v / T + (if v_addr v =? proposer then P else 0))) cr).
    2:{ intros v Hv. rewrite (Hlook v Hv), !ediv_pos by exact HT. reflexivity. }
    rewrite zsum_map_add, zsum_map_add.
    rewrite <- (zsum_map_map vpow (fun p => R * p / T)).
    rewrite <- (zsum_map_map vpow (fun p => (C - P) * p / T)).
    pose proof (floor_sum R T (map vpow cr) HT HR Hcrpow) as H1.
    pose proof (floor_sum_le (C - P) T (map vpow cr) HT ltac:(lia) Hcrpow ltac:(unfold T; lia)) as H2.
    pose proof (proposer_once cr proposer P ltac:(lia) Hcrnd) as H3.
    (* delegators *)
    rewrite zsum_map_snd_pair.
    assert (H4 : zsum (map (fun d : Z * Z => ediv ((D - C) * snd d) dp) delegs) <= D - C).
    { rewrite (zsum_map_ext_in _ (fun d => (D - C) * snd d / dp) delegs)
        by (intros; rewrite ediv_pos by lia; reflexivity).
      rewrite <- (zsum_map_map snd (fun p => (D - C) * p / dp)).
      apply floor_sum_le; try lia.
      clear -Hdel. induction Hdel; simpl; constructor; auto. }
    (* R*S/T + R*dp/T <= R *)
    assert (H5 : R * zsum (map vpow cr) / T + D <= R).
    { unfold D. pose proof (div_add_le (R * zsum (map vpow cr)) (R * dp) T HT).
      replace (R * zsum (map vpow cr) + R * dp) with (R * (zsum (map vpow cr) + dp)) in H by lia.
      pose proof (div_frac_le R (zsum (map vpow cr) + dp) T HR
                    ltac:(pose proof (zsum_nonneg _ Hcrpow); lia) ltac:(unfold T; lia) HT). lia. }
    repeat split; try lia.
    - apply Forall_forall. intros [a x] Hin. apply in_map_iff in Hin as [v [Heq Hv]].
      injection Heq as <- <-. rewrite (Hlook v Hv), !ediv_pos by exact HT. simpl.
      assert (0 <= vpow v) by (rewrite Forall_forall in Hcrpow; apply Hcrpow, in_map, Hv).
      pose proof (div_nonneg (R * vpow v) T ltac:(nia) HT).
      pose proof (div_nonneg ((C - P) * vpow v) T ltac:(nia) HT).
      destruct (v_addr v =? proposer); lia.
    - apply Forall_forall. intros [a x] Hin. apply in_map_iff in Hin as [d [Heq Hd]].
      injection Heq as <- <-. simpl. rewrite ediv_pos by lia.
      rewrite Forall_forall in Hdel. specialize (Hdel d Hd). apply div_nonneg; nia.
  Qed.
End Split.

(* ------------------------------------------------------------------------------------------ *)
(* (c) cumulative balance / withdrawn records                                                   *)

Local Arguments cset : simpl never.

Lemma cget_cset_same s v x : cget (cset s v x) v = x.
Proof. unfold cset. simpl. rewrite Z.eqb_refl. reflexivity. Qed.

Lemma cget_cset_other s v w x : v <> w -> cget (cset s v x) w = cget s w.
Proof. intros H. unfold cset. simpl. destruct (v =? w) eqn:E; [apply Z.eqb_eq in E; contradiction|reflexivity]. Qed.

Opaque cset.

Lemma withdraw_step_bounded s v a : snd (cstep s (Withdraw v a)) = true ->
  a <= fst (cget s v) /\
  fst (cget (fst (cstep s (Withdraw v a))) v) = fst (cget s v) - a /\
  snd (cget (fst (cstep s (Withdraw v a))) v) = snd (cget s v) + a.
Proof.
  simpl. destruct (fst (cget s v) - a <? 0) eqn:E; simpl; [discriminate|].
  apply Z.ltb_ge in E. intros _. rewrite ?cget_cset_same, ?Z.eqb_refl. simpl. lia.
Qed.

Lemma crun_inv ops : forall s, Forall (fun op => matured_ok op = true) ops ->
  (forall v, 0 <= fst (cget s v)) ->
  forall v, 0 <= fst (cget (crun s ops) v) /\
    fst (cget (crun s ops) v) + snd (cget (crun s ops) v)
      = fst (cget s v) + snd (cget s v) + matured_of ops v /\
    snd (cget (crun s ops) v) = snd (cget s v) + paid_of s ops v.
Proof.
  induction ops as [|op r IH]; intros s Hok Hs v.
  - simpl. specialize (Hs v). lia.
  - inversion Hok as [|? ? Hop Hr]; subst.
    change (crun s (op :: r)) with (crun (fst (cstep s op)) r).
    assert (Hs1 : forall w, 0 <= fst (cget (fst (cstep s op)) w)).
    { intros w. destruct op as [a x|a x]; simpl.
      - simpl in Hop. apply Z.leb_le in Hop. destruct (Z.eq_dec a w) as [->|Hne].
        + rewrite cget_cset_same. simpl. specialize (Hs w). lia.
        + rewrite cget_cset_other by exact Hne. apply Hs.
      - destruct (fst (cget s a) - x <? 0) eqn:E; simpl; [apply Hs|].
        apply Z.ltb_ge in E. destruct (Z.eq_dec a w) as [->|Hne].
        + rewrite cget_cset_same. simpl. lia.
        + rewrite cget_cset_other by exact Hne. apply Hs. }
    destruct (IH (fst (cstep s op)) Hr Hs1 v) as [H1 [H2 H3]].
    split; [exact H1|]. rewrite H2, H3. clear IH H1 H2 H3.
    destruct op as [a x|a x]; simpl.
    + destruct (Z.eq_dec a v) as [->|Hne].
      * rewrite cget_cset_same, Z.eqb_refl. simpl. lia.
      * rewrite cget_cset_other by exact Hne.
        destruct (a =? v) eqn:E; [apply Z.eqb_eq in E; contradiction|]. lia.
    + destruct (fst (cget s a) - x <? 0) eqn:E; simpl.
      * rewrite andb_false_r. lia.
      * rewrite andb_true_r. destruct (Z.eq_dec a v) as [->|Hne].
        -- rewrite cget_cset_same, Z.eqb_refl. simpl. lia.
        -- rewrite cget_cset_other by exact Hne.
           destruct (a =? v) eqn:E2; [apply Z.eqb_eq in E2; contradiction|]. lia.
Qed.

Lemma withdraw_bounded ops : Forall (fun op => matured_ok op = true) ops -> forall v,
  let s := crun [] ops in
  0 <= fst (cget s v) /\
  fst (cget s v) + snd (cget s v) = matured_of ops v /\
  snd (cget s v) = paid_of [] ops v /\
  paid_of [] ops v <= matured_of ops v.
Proof.
  intros Hok v. destruct (crun_inv ops [] Hok (fun _ => Z.le_refl 0) v) as [H1 [H2 H3]].
  simpl in *. repeat split; try lia.
Qed.

(* ------------------------------------------------------------------------------------------ *)
(* (b) calculator                                                                               *)
Transparent cset.

Lemma ediv_le_self x n : 0 <= x -> ediv x n <= x.
Proof.
  intros Hx. unfold ediv. destruct (0 <? n) eqn:E.
  - apply Z.ltb_lt in E. apply Z.div_le_upper_bound; nia.
  - apply Z.ltb_ge in E. destruct (Z.eq_dec n 0) as [->|Hn].
    + simpl. rewrite Zdiv_0_r. lia.
    + assert (0 <= x / - n) by (apply Z.div_pos; lia). lia.
Qed.

Lemma ediv_nonneg x n : 0 <= x -> 0 < n -> 0 <= ediv x n.
Proof. intros. rewrite ediv_pos by lia. apply Z.div_pos; lia. Qed.

Lemma secs_pos o bt h : 0 < fst (secs_per_cycle o bt h).
Proof. unfold secs_per_cycle. destruct (o_cycle o <? h); simpl; lia. Qed.

Lemma recompute_spec o bt ys h c r c' : recompute o bt ys h c = (r, c') ->
  match r with
  | CErr => c' = cold
  | COk a =>
      c_amt c' = a /\ c_cycle c' = cycle_no o h /\
      (if c_burned c' then a = o_burnout o else a <= year_left o ys (c_year c'))
  end.
Proof.
  unfold recompute.
  set (nb := more_blocks o _ _ ys 0).
  destruct (fst nb =? 0).
  - intros H. injection H as <- <-. simpl. auto.
  - fold (year_left o ys (snd nb)).
    destruct (year_left o ys (snd nb) <? 0) eqn:E.
    + intros H. injection H as <- <-. reflexivity.
    + apply Z.ltb_ge in E. intros H. injection H as <- <-. simpl.
      repeat split; auto. apply ediv_le_self. exact E.
Qed.

(* the result of a recalculation does not depend on the cache it starts from *)
Lemma recompute_indep o bt ys h c c2 : recompute o bt ys h c = recompute o bt ys h c2.
Proof. reflexivity. Qed.

Lemma cycle_no_pos o h : 0 < o_cycle o -> 1 <= h -> 0 < cycle_no o h.
Proof.
  intros Hc Hh. unfold cycle_no. assert (0 <= (h - 1) / o_cycle o) by (apply Z.div_pos; lia). lia.
Qed.

Lemma cache_inv_cold o ys : cache_inv o ys cold.
Proof. intros H. discriminate. Qed.

Lemma calculate_err_cold o bt ys h c c' : calculate o bt ys h c = (CErr, c') -> c' = cold.
Proof.
  unfold calculate. destruct (warm c); [destruct (negb (first_in_cycle o h)); [discriminate|]|];
    intros H; apply recompute_spec in H; exact H.
Qed.

Lemma pull_err_cold o bt ys h pool c c' : pull o bt ys h pool c = (CErr, c') -> c' = cold.
Proof.
  unfold pull. destruct (calculate o bt ys h c) as [[a|] c1] eqn:E; [discriminate|].
  intros H. injection H as <-. eapply calculate_err_cold. exact E.
Qed.

(* one PullRewards: from a cache that satisfies the invariant (a cold cache does), or at the first
   block of a cycle from ANY cache, a successful pull is within the bound and re-establishes the
   invariant *)
Lemma pull_bounded_step o bt ys h pool c a c' :
  cache_inv o ys c \/ first_in_cycle o h = true ->
  pull o bt ys h pool c = (COk a, c') ->
  pull_bound o ys pool c' a = true /\ cache_inv o ys c'.
Proof.
  intros Hinv. unfold pull.
  destruct (calculate o bt ys h c) as [r c1] eqn:Ecalc. destruct r as [a1|]; [|discriminate].
  intros H. injection H as <- <-.
  assert (Hres : (c_burned c1 = true -> a1 = o_burnout o /\ c_amt c1 = o_burnout o) /\
                 (c_burned c1 = false -> a1 <= year_left o ys (c_year c1) /\ c_amt c1 = a1)).
  { unfold calculate in Ecalc.
    assert (Hrec : forall c0, recompute o bt ys h c0 = (COk a1, c1) ->
              (c_burned c1 = true -> a1 = o_burnout o /\ c_amt c1 = o_burnout o) /\
              (c_burned c1 = false -> a1 <= year_left o ys (c_year c1) /\ c_amt c1 = a1)).
    { intros c0 Hr. apply recompute_spec in Hr. destruct Hr as [Ha [_ Hb]].
      destruct (c_burned c1); split; intros; try discriminate; split; congruence || lia. }
    destruct (warm c) eqn:Ew; [|eapply Hrec; eauto].
    destruct (first_in_cycle o h) eqn:Ef; simpl in Ecalc; [eapply Hrec; eauto|].
    injection Ecalc as <- <-.
    destruct Hinv as [Hinv|Hf]; [|discriminate].
    specialize (Hinv Ew). destruct (c_burned c); split; intros; try discriminate; auto. }
  destruct Hres as [Hb Hn]. unfold pull_bound, cache_inv.
  destruct (c_burned c1) eqn:Eb.
  - destruct (Hb eq_refl) as [-> Hamt]. simpl. split; [|intros _; exact Hamt].
    destruct (pool <? o_burnout o) eqn:E.
    + apply Z.ltb_lt in E. apply Z.leb_le. lia.
    + apply Z.ltb_ge in E. apply Z.leb_le. lia.
  - destruct (Hn eq_refl) as [Hle Hamt]. simpl. split; [apply Z.leb_le; exact Hle|].
    intros _. lia.
Qed.

Lemma nth_upd_year_till ys n f d k : (forall y, y_till (f y) = y_till y) ->
  y_till (nth k (upd_year ys n f) d) = y_till (nth k ys d).
Proof.
  intros Hf. revert n k. induction ys as [|y r IH]; intros n k; simpl; [reflexivity|].
  destruct n; destruct k; simpl; auto.
Qed.

Lemma consume_keeps_inv o ys h c x : last_in_cycle o h = false -> cache_inv o ys c ->
  cache_inv o (consume o ys h c x) c.
Proof.
  intros Hl Hinv Hw. specialize (Hinv Hw). destruct (c_burned c) eqn:Eb; [exact Hinv|].
  unfold consume. rewrite Eb. destruct (c_year c <? 0); [exact Hinv|].
  unfold year_left, nthZ in *. rewrite nth_upd_year_till; [exact Hinv|].
  intros y. rewrite Hl. reflexivity.
Qed.

Lemma first_after_last o h : last_in_cycle o h = true -> first_in_cycle o (h + 1) = true.
Proof. unfold last_in_cycle, first_in_cycle. replace (h + 1 - 1) with h by lia. auto. Qed.

Lemma pull_hyp_next o ys h c x : cache_inv o ys c ->
  cache_inv o (consume o ys h c x) c \/ first_in_cycle o (h + 1) = true.
Proof.
  intros Hinv. destruct (last_in_cycle o h) eqn:El.
  - right. apply first_after_last. exact El.
  - left. apply consume_keeps_inv; assumption.
Qed.

(* every successful pull of every run is within the bound — no guard *)
Lemma pull_bounded_run steps : forall o bt ys c h,
  cache_inv o ys c \/ first_in_cycle o h = true -> all_bounded o bt ys c h steps.
Proof.
  induction steps as [|[pool x] r IH]; intros o bt ys c h Hinv; simpl; [exact I|].
  destruct (pull o bt ys h pool c) as [[a|] c'] eqn:Ep.
  - destruct (pull_bounded_step o bt ys h pool c a c' Hinv Ep) as [Hb Hc].
    split; [exact Hb|]. apply IH. apply pull_hyp_next. exact Hc.
  - apply pull_err_cold in Ep. subst c'. apply IH. left. apply cache_inv_cold.
Qed.

(* non-negativity of the pulled amount *)
Lemma more_blocks_pos o secs tend ys i n y :
  0 < secs -> 0 < o_cycle o -> 0 <= o_window o ->
  Forall (fun yr => 0 <= dur_secs (y_close yr - tend) * o_cycle o < 2^63) ys ->
  more_blocks o secs tend ys i = (n, y) -> 0 <= n.
Proof.
  intros Hs Hc Hw Hall. revert i. induction Hall as [|yr r Hyr Hr IH]; simpl; intros i H.
  - injection H as <- <-. lia.
  - destruct (o_window o <=? dur_secs (y_close yr - tend)) eqn:E; [|eauto].
    assert (Hwrap : wrap64 (dur_secs (y_close yr - tend) * o_cycle o) = dur_secs (y_close yr - tend) * o_cycle o).
    { unfold wrap64. rewrite Z.mod_small; lia. }
    rewrite Hwrap in H. unfold f2i in H.
    destruct (secs =? 0) eqn:E0; [apply Z.eqb_eq in E0; lia|].
    destruct (Z.quot (dur_secs (y_close yr - tend) * o_cycle o) secs =? 0); [eauto|].
    injection H as <- <-. apply Z.quot_pos; lia.
Qed.

Lemma pull_nonneg o bt ys h pool c a c' :
  0 < o_cycle o -> 0 <= o_window o -> 0 <= o_burnout o -> 0 <= pool ->
  Forall (fun yr => 0 <= dur_secs (y_close yr - snd (secs_per_cycle o bt h)) * o_cycle o < 2^63) ys ->
  (warm c = true -> 0 <= c_amt c) ->
  pull o bt ys h pool c = (COk a, c') -> 0 <= a /\ 0 <= c_amt c'.
Proof.
  intros Hc Hw Hb Hp Hall Hcache. pose proof (secs_pos o bt h) as Hs. unfold pull.
  destruct (calculate o bt ys h c) as [r c1] eqn:Ecalc. destruct r as [a1|]; [|discriminate].
  intros H. injection H as <- <-.
  assert (Hres : 0 <= a1 /\ 0 <= c_amt c1).
  { unfold calculate in Ecalc.
    assert (Hrec : forall c0, recompute o bt ys h c0 = (COk a1, c1) -> 0 <= a1 /\ 0 <= c_amt c1).
    { intros c0. unfold recompute.
      destruct (more_blocks o (fst (secs_per_cycle o bt h)) (snd (secs_per_cycle o bt h)) ys 0) as [n y] eqn:Enb.
      pose proof (more_blocks_pos _ _ _ _ _ _ _ Hs Hc Hw Hall Enb) as Hn. simpl.
      destruct (n =? 0) eqn:En.
      - intros H. injection H as <- <-. simpl. lia.
      - apply Z.eqb_neq in En.
        destruct (nthZ (o_shares o) y 0 - y_till (nthZ ys y (mkYear 0 0 0)) <? 0) eqn:El; [discriminate|].
        apply Z.ltb_ge in El. intros H. injection H as <- <-. simpl.
        pose proof (ediv_nonneg _ n El ltac:(lia)). lia. }
    destruct (warm c) eqn:Ew; [|eapply Hrec; eauto].
    destruct (first_in_cycle o h); simpl in Ecalc; [eapply Hrec; eauto|].
    injection Ecalc as <- <-. specialize (Hcache eq_refl). lia. }
  destruct Hres as [Ha Hc1]. split; [|exact Hc1].
  destruct (c_burned c1 && (pool <? a1)); lia.
Qed.

(* restart independence *)
Lemma more_blocks_sched o secs tend ys i :
  more_blocks o secs tend (sched ys) i = more_blocks o secs tend ys i.
Proof. revert i. induction ys as [|y r IH]; simpl; intros i; [reflexivity|]. rewrite !IH. reflexivity. Qed.

Lemma nthZ_sched_till ys i :
  y_till (nthZ (sched ys) i (mkYear 0 0 0)) = y_till (nthZ ys i (mkYear 0 0 0)).
Proof.
  unfold nthZ, sched.
  change (mkYear 0 0 0) with ((fun y => mkYear (y_close y) 0 (y_till y)) (mkYear 0 0 0)) at 1.
  rewrite map_nth. reflexivity.
Qed.

Lemma recompute_sched o bt ys h c : recompute o bt (sched ys) h c = recompute o bt ys h c.
Proof. unfold recompute. cbv zeta. rewrite !more_blocks_sched, !nthZ_sched_till. reflexivity. Qed.

Lemma same_cycle_facts o h0 h : 0 < o_cycle o -> 1 <= h0 -> first_in_cycle o h0 = true ->
  h0 <= h -> cycle_no o h = cycle_no o h0 ->
  cycle_end o h = cycle_end o h0 /\ (o_cycle o <? h) = (o_cycle o <? h0) /\
  (h <> h0 -> first_in_cycle o h = false).
Proof.
  unfold first_in_cycle, cycle_no, cycle_end. intros HC Hh0 Hf Hle Hcn.
  apply Z.eqb_eq in Hf.
  assert (Hq : (h - 1) / o_cycle o = (h0 - 1) / o_cycle o) by lia.
  pose proof (Z.div_mod (h - 1) (o_cycle o) ltac:(lia)) as E1.
  pose proof (Z.div_mod (h0 - 1) (o_cycle o) ltac:(lia)) as E0.
  pose proof (Z.mod_pos_bound (h - 1) (o_cycle o) HC) as B1.
  assert (0 <= (h0 - 1) / o_cycle o) as Hk by (apply Z.div_pos; lia).
  rewrite Hq in *. set (k := (h0 - 1) / o_cycle o) in *. set (r := (h - 1) mod o_cycle o) in *.
  rewrite Hf in E0. split; [reflexivity|]. split.
  - assert (Hk01 : k = 0 \/ o_cycle o <= o_cycle o * k) by (destruct (Z.eq_dec k 0); [left; assumption|right; nia]).
    clearbody k r.
    destruct (Z.ltb_spec (o_cycle o) h); destruct (Z.ltb_spec (o_cycle o) h0); try reflexivity; exfalso;
      destruct Hk01 as [->|Hge]; lia.
  - intros Hne. apply Z.eqb_neq. lia.
Qed.

Lemma recompute_same_cycle o bt ys h0 h c : 0 < o_cycle o -> 1 <= h0 -> first_in_cycle o h0 = true ->
  h0 <= h -> cycle_no o h = cycle_no o h0 -> recompute o bt ys h c = recompute o bt ys h0 c.
Proof.
  intros HC Hh0 Hf Hle Hcn. destruct (same_cycle_facts o h0 h HC Hh0 Hf Hle Hcn) as [He [Hlt _]].
  unfold recompute, secs_per_cycle. rewrite He, Hlt, Hcn. reflexivity.
Qed.

(* full: whatever cache c0 the running node had when the cycle started at h0 (first block of the
   cycle), and whether the calculation there succeeded or failed, at every block h of the cycle
   the running node (cache c1) and a restarted node (cold cache) compute the same result and end
   with the same cache — namely the result of h0 *)
Lemma restart_independent o bt ys ys' h0 h c0 :
  0 < o_cycle o -> 1 <= h0 -> first_in_cycle o h0 = true -> h0 <= h -> cycle_no o h = cycle_no o h0 ->
  sched ys' = sched ys ->
  let res := calculate o bt ys h0 c0 in
  calculate o bt ys' h (snd res) = res /\ calculate o bt ys' h cold = res.
Proof.
  intros HC Hh0 Hf Hle Hcn Hsch res.
  assert (Hres : res = recompute o bt ys h0 cold).
  { unfold res, calculate. rewrite Hf. simpl. destruct (warm c0); reflexivity. }
  assert (Hany : forall c, recompute o bt ys' h c = res).
  { intros c. rewrite <- recompute_sched, Hsch, recompute_sched.
    rewrite (recompute_same_cycle o bt ys h0 h c HC Hh0 Hf Hle Hcn). rewrite Hres. reflexivity. }
  assert (Hcold : calculate o bt ys' h cold = res) by (unfold calculate; simpl; apply Hany).
  split; [|exact Hcold].
  destruct res as [r c1] eqn:Er. simpl.
  symmetry in Hres. pose proof (recompute_spec _ _ _ _ _ _ _ Hres) as Hspec.
  destruct r as [a|].
  - destruct Hspec as [Hamt [Hcyc _]].
    assert (Hw : warm c1 = true).
    { unfold warm. rewrite Hcyc. apply Z.ltb_lt. apply cycle_no_pos; assumption. }
    unfold calculate. rewrite Hw.
    destruct (Z.eq_dec h h0) as [->|Hne].
    + rewrite Hf. simpl. apply Hany.
    + destruct (same_cycle_facts o h0 h HC Hh0 Hf Hle Hcn) as [_ [_ Hnf]].
      rewrite (Hnf Hne). simpl. rewrite Hamt. reflexivity.
  - subst c1. exact Hcold.
Qed.

(* ------------------------------------------------------------------------------------------ *)
(* the WITHDRAW_REWARD transaction                                                              *)
Lemma withdraw_tx_invalid value bal wd pool : value < 0 \/ 2^63 <= value ->
  withdraw_tx value bal wd pool = (false, bal, wd).
Proof.
  intros H. unfold withdraw_tx, withdraw_amount_ok.
  destruct (0 <=? value) eqn:E1; destruct (value <? 2^63) eqn:E2; simpl; try reflexivity.
  apply Z.leb_le in E1. apply Z.ltb_lt in E2. lia.
Qed.

Lemma wrap64_small z : - 2^63 <= z < 2^63 -> wrap64 z = z.
Proof. intros H. unfold wrap64. rewrite Z.mod_small; lia. Qed.

(* over ALL amounts: refused without any change, or exactly a = value * 10^18 moved, with
   0 <= a <= balance and a <= pool *)
Lemma withdraw_tx_total value bal wd pool ok bal' wd' :
  withdraw_tx value bal wd pool = (ok, bal', wd') ->
  (ok = false /\ bal' = bal /\ wd' = wd) \/
  (ok = true /\ let a := value * UNIT in 0 <= a <= bal /\ a <= pool /\ bal' = bal - a /\ wd' = wd + a).
Proof.
  unfold withdraw_tx, withdraw_amount_ok.
  destruct (0 <=? value) eqn:E1; destruct (value <? 2^63) eqn:E2; simpl;
    try (intros H; injection H as <- <- <-; left; auto; fail).
  apply Z.leb_le in E1. apply Z.ltb_lt in E2. rewrite wrap64_small by lia.
  destruct ((bal - value * UNIT <? 0) || (pool - value * UNIT <? 0)) eqn:E3.
  - intros H; injection H as <- <- <-; left; auto.
  - apply orb_false_iff in E3 as [E4 E5]. apply Z.ltb_ge in E4, E5.
    intros H; injection H as <- <- <-. right. simpl. unfold UNIT in *. repeat split; lia.
Qed.

(* ------------------------------------------------------------------------------------------ *)
(* state export / import: interval records                                                      *)
Lemma chunk_idx_default o h : 0 < o_interval o -> 0 <= h -> chunk_idx o [] h = h / o_interval o + 1.
Proof.
  intros Hi Hh. unfold chunk_idx, get_interval. simpl. rewrite Z.sub_0_r.
  rewrite Z.quot_div_nonneg by lia. lia.
Qed.

Lemma get_interval_single c h : 2 <= h -> get_interval [mkIvl c 2] h = mkIvl c 2.
Proof.
  intros Hh. unfold get_interval. simpl.
  destruct (2 <=? h) eqn:E; [reflexivity|]. apply Z.leb_gt in E. lia.
Qed.

Lemma chunk_idx_imported o c h : 0 < o_interval o -> 2 <= h ->
  chunk_idx o (load_intervals (mkIvl c 2)) h = c + (h - 2) / o_interval o + 1.
Proof.
  intros Hi Hh. unfold chunk_idx, load_intervals. rewrite get_interval_single by exact Hh. simpl.
  rewrite Z.quot_div_nonneg by lia. reflexivity.
Qed.

(* the interval record written by an export at ANY version V (multiples of the interval included)
   names the chunk that was open — i.e. credited — at V *)
Lemma export_open_chunk o V : 0 < o_interval o -> 0 <= V ->
  dump_interval o [] V = mkIvl (V / o_interval o + 1) 2 /\
  iv_index (dump_interval o [] V) = chunk_idx o [] V.
Proof. intros Hi HV. unfold dump_interval. rewrite chunk_idx_default by assumption. auto. Qed.

(* after the import every credit (heights >= 2; block 1 has no votes) goes to a chunk beyond the
   exported ones: what was exported is final *)
Lemma import_credits_fresh o V h : 0 < o_interval o -> 0 <= V -> 2 <= h ->
  chunk_idx o [] V < chunk_idx o (load_intervals (dump_interval o [] V)) h.
Proof.
  intros Hi HV Hh. unfold dump_interval. rewrite chunk_idx_imported by assumption.
  assert (0 <= (h - 2) / o_interval o) by (apply Z.div_pos; lia). lia.
Qed.

(* the exporting chain matured, at its last maturity height, the chunk two below the open one *)
Lemma export_frontier o V : 0 < o_interval o -> 0 <= V ->
  matured_idx o [] (last_maturity_height o V) = chunk_idx o [] V - 2.
Proof.
  intros Hi HV. unfold matured_idx, last_maturity_height.
  assert (0 <= V / o_interval o) by (apply Z.div_pos; lia).
  rewrite !chunk_idx_default by (try assumption; nia).
  rewrite Z.div_mul by lia. reflexivity.
Qed.

(* the importing chain matures, at its k-th maturity height, the chunk k-2 above the exported open
   one: the first is the successor of the exporter's frontier, then one by one — every chunk
   matures exactly once across the relaunch, for ALL export versions *)
Lemma import_maturity_sequence o V k : 2 <= o_interval o -> 0 <= V -> 1 <= k ->
  matured_idx o (load_intervals (dump_interval o [] V)) (k * o_interval o) = chunk_idx o [] V + k - 2.
Proof.
  intros Hi HV Hk. unfold matured_idx, dump_interval.
  rewrite chunk_idx_imported by nia.
  assert ((k * o_interval o - 2) / o_interval o = k - 1) as ->; [|lia].
  symmetry. apply (Z.div_unique _ _ _ (o_interval o - 2)); [lia|ring].
Qed.

Lemma import_maturity_sequence_1 o V h : o_interval o = 1 -> 0 <= V -> 2 <= h ->
  matured_idx o (load_intervals (dump_interval o [] V)) h = chunk_idx o [] V + h - 3.
Proof.
  intros Hi HV Hh. unfold matured_idx, dump_interval.
  rewrite chunk_idx_imported by lia. rewrite Hi, Z.div_1_r. lia.
Qed.
