(* RewardsProofs.v — lemmas and proofs about theories/Rewards.v (C13) *)
From Coq Require Import ZArith List Bool Lia.
From OL Require Import theories.Rewards.
Import ListNotations.
Local Open Scope Z_scope.

(* ------------------------------------------------------------------------------------------ *)
(* arithmetic                                                                                   *)

Lemma ediv_pos a b : 0 < b -> ediv a b = a / b.
Proof. intros H. unfold ediv. destruct (0 <? b) eqn:E; [reflexivity|]. apply Z.ltb_ge in E. lia. Qed.

Lemma div_add_le a b T : 0 < T -> a / T + b / T <= (a + b) / T.
Proof.
  intros HT. apply Z.div_le_lower_bound; [lia|].
  pose proof (Z.mul_div_le a T HT). pose proof (Z.mul_div_le b T HT). lia.
Qed.

Lemma div_nonneg a T : 0 <= a -> 0 < T -> 0 <= a / T.
Proof. intros. apply Z.div_pos; lia. Qed.

Lemma div_frac_le X S T : 0 <= X -> 0 <= S -> S <= T -> 0 < T -> X * S / T <= X.
Proof.
  intros HX HS HST HT. apply Z.div_le_upper_bound; [lia|]. nia.
Qed.

Lemma zsum_app l1 l2 : zsum (l1 ++ l2) = zsum l1 + zsum l2.
Proof. induction l1; simpl; lia. Qed.

Lemma zsum_map_add {A} (f g : A -> Z) l :
  zsum (map (fun x => f x + g x) l) = zsum (map f l) + zsum (map g l).
Proof. induction l; simpl; lia. Qed.

Lemma zsum_nonneg l : Forall (fun x => 0 <= x) l -> 0 <= zsum l.
Proof. induction 1; simpl; lia. Qed.

(* the floor-sum lemma: shares computed by floor division never add up to more than the
   floor of the whole *)
Lemma floor_sum X T (ps : list Z) : 0 < T -> 0 <= X -> Forall (fun p => 0 <= p) ps ->
  zsum (map (fun p => X * p / T) ps) <= X * zsum ps / T.
Proof.
  intros HT HX H. induction H as [|p ps Hp Hps IH]; simpl.
  - rewrite Z.mul_0_r. rewrite Z.div_0_l; lia.
  - replace (X * (p + zsum ps)) with (X * p + X * zsum ps) by lia.
    pose proof (div_add_le (X * p) (X * zsum ps) T HT). lia.
Qed.

Lemma floor_sum_each_nonneg X T (ps : list Z) : 0 < T -> 0 <= X -> Forall (fun p => 0 <= p) ps ->
  Forall (fun x => 0 <= x) (map (fun p => X * p / T) ps).
Proof.
  intros HT HX H. induction H; simpl; constructor; auto. apply div_nonneg; nia.
Qed.

Lemma floor_sum_le X T ps : 0 < T -> 0 <= X -> Forall (fun p => 0 <= p) ps -> zsum ps <= T ->
  zsum (map (fun p => X * p / T) ps) <= X.
Proof.
  intros HT HX H HS. pose proof (floor_sum X T ps HT HX H).
  pose proof (div_frac_le X (zsum ps) T HX (zsum_nonneg _ H) HS HT). lia.
Qed.

(* ------------------------------------------------------------------------------------------ *)
(* (a) split                                                                                    *)

Lemma pow_lookup_notin votes a acc : ~ In a (map v_addr votes) -> pow_lookup votes a acc = acc.
Proof.
  revert acc. induction votes as [|v r IH]; simpl; intros acc H; [reflexivity|].
  destruct (v_addr v =? a) eqn:E.
  - apply Z.eqb_eq in E. exfalso. apply H. left. exact E.
  - apply IH. intro. apply H. right. assumption.
Qed.

Lemma pow_lookup_nodup votes v acc : NoDup (map v_addr votes) -> In v votes ->
  pow_lookup votes (v_addr v) acc = vpow v.
Proof.
  revert acc. induction votes as [|w r IH]; simpl; intros acc ND HIn; [contradiction|].
  inversion ND as [|? ? Hni ND']; subst. destruct HIn as [->|HIn].
  - rewrite Z.eqb_refl. apply pow_lookup_notin. exact Hni.
  - apply IH; assumption.
Qed.

Lemma filter_addr_incl (f : vote -> bool) votes a :
  In a (map v_addr (filter f votes)) -> In a (map v_addr votes).
Proof.
  induction votes as [|v r IH]; simpl; [tauto|]. destruct (f v); simpl; [intros [H|H]; auto | auto].
Qed.

Lemma nodup_filter_addr (f : vote -> bool) votes :
  NoDup (map v_addr votes) -> NoDup (map v_addr (filter f votes)).
Proof.
  induction votes as [|v r IH]; simpl; intros ND; [constructor|].
  inversion ND as [|? ? Hni ND']; subst. destruct (f v); simpl; auto.
  constructor; auto. intro H. apply Hni. eapply filter_addr_incl. exact H.
Qed.

Lemma zsum_filter_le (f : vote -> bool) votes : Forall (fun v => 0 <= v_power v) votes ->
  zsum (map vpow (filter f votes)) <= zsum (map vpow votes).
Proof.
  induction 1 as [|v r Hv Hr IH]; simpl; [lia|].
  assert (0 <= vpow v) by (unfold vpow, UNIT; lia).
  destruct (f v); simpl; lia.
Qed.

Lemma vpow_nonneg votes : Forall (fun v => 0 <= v_power v) votes ->
  Forall (fun p => 0 <= p) (map vpow votes).
Proof. induction 1; simpl; constructor; auto. unfold vpow, UNIT. lia. Qed.

Lemma forall_filter {A} (P : A -> Prop) f l : Forall P l -> Forall P (filter f l).
Proof. induction 1; simpl; [constructor|]. destruct (f x); auto. Qed.

(* the proposer bonus is paid at most once when addresses are distinct *)
Lemma proposer_once (l : list vote) pr P : 0 <= P -> NoDup (map v_addr l) ->
  0 <= zsum (map (fun v => if v_addr v =? pr then P else 0) l) <= P.
Proof.
  intros HP. induction l as [|v r IH]; simpl; intros ND; [lia|].
  inversion ND as [|? ? Hni ND']; subst. specialize (IH ND').
  destruct (v_addr v =? pr) eqn:E; [|lia].
  apply Z.eqb_eq in E.
  assert (zsum (map (fun v0 : vote => if v_addr v0 =? pr then P else 0) r) = 0) as ->; [|lia].
  clear IH ND ND'. induction r as [|w r IH]; simpl; [reflexivity|].
  destruct (v_addr w =? pr) eqn:E2.
  - apply Z.eqb_eq in E2. exfalso. apply Hni. left. congruence.
  - rewrite IH; [lia|]. intro. apply Hni. right. assumption.
Qed.

Lemma zsum_map_snd_pair {A} (f : A -> Z) (g : A -> Z) l :
  zsum (map snd (map (fun v => (f v, g v)) l)) = zsum (map g l).
Proof. induction l; simpl; lia. Qed.

Lemma zsum_map_ext_in {A} (f g : A -> Z) l : (forall x, In x l -> f x = g x) ->
  zsum (map f l) = zsum (map g l).
Proof. intros H. f_equal. apply map_ext_in. exact H. Qed.

Lemma zsum_map_map {A} (f : A -> Z) (g : Z -> Z) l : zsum (map g (map f l)) = zsum (map (fun x => g (f x)) l).
Proof. rewrite map_map. reflexivity. Qed.

Definition consts_ok (k : consts) : Prop := 0 <= COMM k <= 100 /\ 0 <= BPC k <= 100.

Lemma pct_bounds c x : 0 <= c <= 100 -> 0 <= x -> 0 <= c * x / 100 <= x.
Proof.
  intros Hc Hx. split.
  - apply Z.div_pos; nia.
  - apply Z.div_le_upper_bound; nia.
Qed.

Section Split.
  Variables (k : consts) (votes : list vote) (dp : Z) (delegs : list (Z * Z)) (proposer R : Z).
  Hypothesis Hk : consts_ok k.
  Hypothesis HR : 0 <= R.
  Hypothesis Hdp : 0 <= dp.
  Hypothesis Hpow : Forall (fun v => 0 <= v_power v) votes.
  Hypothesis Hnd : NoDup (map v_addr votes).
  Hypothesis Hdel : Forall (fun d => 0 <= snd d) delegs.
  Hypothesis Hdsum : zsum (map snd delegs) <= dp.

  Let T := zsum (map vpow votes) + dp.
  Let cr := filter credited votes.

  Lemma totval_nonneg : 0 <= zsum (map vpow votes).
  Proof. apply zsum_nonneg, vpow_nonneg, Hpow. Qed.

  Lemma split_bounded_lemma out : split k votes dp delegs proposer R = Some out ->
    zsum (map snd (so_vals out)) + zsum (map snd (so_delegs out)) <= R /\
    so_consumed out <= R /\
    Forall (fun c => 0 <= snd c) (so_vals out) /\
    Forall (fun c => 0 <= snd c) (so_delegs out).
  Proof.
    unfold split. fold T. fold cr.
    pose proof totval_nonneg as HTV.
    destruct ((T =? 0) && ((0 <? dp) || negb match cr with [] => true | _ :: _ => false end)) eqn:Ecrash;
      [discriminate|].
    intros Hout. injection Hout as <-. cbn [so_vals so_delegs so_consumed].
    (* the credited votes *)
    assert (Hcrpow : Forall (fun p => 0 <= p) (map vpow cr)).
    { apply vpow_nonneg. apply forall_filter. exact Hpow. }
    assert (Hcrsum : zsum (map vpow cr) <= zsum (map vpow votes)) by (apply zsum_filter_le; exact Hpow).
    assert (Hcrnd : NoDup (map v_addr cr)) by (apply nodup_filter_addr; exact Hnd).
    assert (Hlook : forall v, In v cr -> pow_lookup votes (v_addr v) 0 = vpow v).
    { intros v Hv. apply pow_lookup_nodup; [exact Hnd|]. apply filter_In in Hv. tauto. }
    destruct (T =? 0) eqn:ET.
    { (* T = 0: nothing is credited and the pool is empty *)
      apply Z.eqb_eq in ET. simpl in Ecrash. apply orb_false_iff in Ecrash as [E1 E2].
      rewrite E1. apply negb_false_iff in E2. destruct cr eqn:Ecr; [|discriminate].
      simpl. repeat split; try lia; constructor. }
    apply Z.eqb_neq in ET. assert (HT : 0 < T) by (unfold T in *; lia).
    rewrite zsum_map_snd_pair.
    destruct (0 <? dp) eqn:Edp.
    2:{ (* no delegation pool *)
      apply Z.ltb_ge in Edp. assert (dp = 0) by lia. subst dp. cbn [d_credits d_rewards dresp0].
      unfold val_amount. rewrite Z.ltb_irrefl.
      rewrite (zsum_map_ext_in _ (fun v => R * vpow v / T) cr).
      2:{ intros v Hv. rewrite (Hlook v Hv), ediv_pos by exact HT. lia. }
      rewrite <- zsum_map_map with (g := fun p => R * p / T).
      pose proof (floor_sum_le R T (map vpow cr) HT HR Hcrpow ltac:(unfold T; lia)) as Hle.
      simpl. repeat split; try lia.
      - apply Forall_forall. intros [a x] Hin. apply in_map_iff in Hin as [v [Heq Hv]].
        injection Heq as <- <-. rewrite (Hlook v Hv), ediv_pos by exact HT. simpl.
        assert (0 <= vpow v) by (rewrite Forall_forall in Hcrpow; apply Hcrpow, in_map, Hv).
        pose proof (div_nonneg (R * vpow v) T ltac:(nia) HT). lia.
      - constructor. }
    (* with a delegation pool *)
    apply Z.ltb_lt in Edp. destruct Hk as [HC HB].
    unfold deleg_split. rewrite !ediv_pos by lia.
    set (D := R * dp / T).
    assert (HD : 0 <= D <= R).
    { unfold D. split; [apply div_nonneg; nia|]. apply div_frac_le; unfold T; lia. }
    set (C := COMM k * D / 100). assert (HCb : 0 <= C <= D) by (apply pct_bounds; lia).
    set (P := BPC k * C / 100). assert (HPb : 0 <= P <= C) by (apply pct_bounds; lia).
    destruct (D - C <? 0) eqn:E1; [apply Z.ltb_lt in E1; lia|].
    destruct (C - P <? 0) eqn:E2; [apply Z.ltb_lt in E2; lia|].
    cbn [d_credits d_rewards d_commission d_proposer].
    unfold val_amount. cbn [d_commission d_proposer].
    assert (Edp' : (0 <? dp) = true) by (apply Z.ltb_lt; lia). rewrite Edp'.
    rewrite (zsum_map_ext_in _
      (fun v => R * vpow v / T + ((C - P) * vpow v / T + (if v_addr v =? proposer then P else 0))) cr).
    2:{ intros v Hv. rewrite (Hlook v Hv), !ediv_pos by exact HT. reflexivity. }
    rewrite zsum_map_add, zsum_map_add.
    rewrite <- (zsum_map_map vpow (fun p => R * p / T)).
    rewrite <- (zsum_map_map vpow (fun p => (C - P) * p / T)).
    pose proof (floor_sum R T (map vpow cr) HT HR Hcrpow) as H1.
    pose proof (floor_sum_le (C - P) T (map vpow cr) HT ltac:(lia) Hcrpow ltac:(unfold T; lia)) as H2.
    pose proof (proposer_once cr proposer P ltac:(lia) Hcrnd) as H3.
    (* delegators *)
    rewrite zsum_map_snd_pair.
    assert (H4 : zsum (map (fun d : Z * Z => ediv ((D - C) * snd d) dp) delegs) <= D - C).
    { rewrite (zsum_map_ext_in _ (fun d => (D - C) * snd d / dp) delegs)
        by (intros; rewrite ediv_pos by lia; reflexivity).
      rewrite <- (zsum_map_map snd (fun p => (D - C) * p / dp)).
      apply floor_sum_le; try lia.
      clear -Hdel. induction Hdel; simpl; constructor; auto. }
    (* R*S/T + R*dp/T <= R *)
    assert (H5 : R * zsum (map vpow cr) / T + D <= R).
    { unfold D. pose proof (div_add_le (R * zsum (map vpow cr)) (R * dp) T HT).
      replace (R * zsum (map vpow cr) + R * dp) with (R * (zsum (map vpow cr) + dp)) in H by lia.
      pose proof (div_frac_le R (zsum (map vpow cr) + dp) T HR
                    ltac:(pose proof (zsum_nonneg _ Hcrpow); lia) ltac:(unfold T; lia) HT). lia. }
    repeat split; try lia.
    - apply Forall_forall. intros [a x] Hin. apply in_map_iff in Hin as [v [Heq Hv]].
      injection Heq as <- <-. rewrite (Hlook v Hv), !ediv_pos by exact HT. simpl.
      assert (0 <= vpow v) by (rewrite Forall_forall in Hcrpow; apply Hcrpow, in_map, Hv).
      pose proof (div_nonneg (R * vpow v) T ltac:(nia) HT).
      pose proof (div_nonneg ((C - P) * vpow v) T ltac:(nia) HT).
      destruct (v_addr v =? proposer); lia.
    - apply Forall_forall. intros [a x] Hin. apply in_map_iff in Hin as [d [Heq Hd]].
      injection Heq as <- <-. simpl. rewrite ediv_pos by lia.
      rewrite Forall_forall in Hdel. specialize (Hdel d Hd). apply div_nonneg; nia.
  Qed.
End Split.
