From stdpp Require Import gmap list.
From Coq Require Import ZArith Lia.
From OL Require Import theories.Store theories.StoreSpec.
Local Open Scope Z_scope.

(* ---------- overlays ---------- *)

Definition wf (o : overlay) : Prop :=
  NoDup (okeys o) /\ forall k, k ∈ okeys o <-> is_Some (ovals o !! k).

Lemma wf_empty : wf oempty.
Proof.
  split; [constructor|]. intros k; simpl. rewrite lookup_empty.
  split; [inversion 1| intros [? ?]; discriminate].
Qed.

Lemma wf_oset o k v : wf o -> wf (oset o k v).
Proof.
  intros [Hnd Hdom]. unfold oset; split; simpl.
  - destruct (ovals o !! k) eqn:E; [exact Hnd|].
    apply NoDup_app; split; [exact Hnd|]. split; [|apply NoDup_singleton].
    intros x Hx Hx'. apply elem_of_list_singleton in Hx'. subst.
    apply Hdom in Hx. rewrite E in Hx. destruct Hx; discriminate.
  - intros k'. destruct (decide (k' = k)) as [->|Hne].
    + rewrite lookup_insert. split; [eauto|]. intros _.
      destruct (ovals o !! k) eqn:E; [apply Hdom; rewrite E; eauto|].
      apply elem_of_app; right; apply elem_of_list_singleton; reflexivity.
    + rewrite lookup_insert_ne by congruence.
      destruct (ovals o !! k) eqn:E; [apply Hdom|].
      rewrite elem_of_app, elem_of_list_singleton. rewrite <- Hdom. tauto.
Qed.

Lemma wf_odel o k : wf o -> wf (odel o k).
Proof. apply wf_oset. Qed.

Definition replay_f (o : overlay) :=
  fun acc k => match ovals o !! k with Some v => oset acc k v | None => acc end.

Lemma wf_replay_gen o ks p : wf p -> wf (fold_left (replay_f o) ks p).
Proof.
  revert p. induction ks as [|a ks IH]; intros p Hp; simpl; [exact Hp|].
  apply IH. unfold replay_f. destruct (ovals o !! a); [apply wf_oset|]; exact Hp.
Qed.

Lemma wf_replay o p : wf p -> wf (replay o p).
Proof. apply wf_replay_gen. Qed.

Lemma replay_f_lookup o p a k :
  ovals (replay_f o p a) !! k
  = if decide (k = a) then (match ovals o !! a with Some v => Some v | None => ovals p !! k end)
    else ovals p !! k.
Proof.
  unfold replay_f. destruct (ovals o !! a) eqn:Ea; simpl.
  - destruct (decide (k = a)) as [->|Hne];
      [apply lookup_insert | apply lookup_insert_ne; congruence].
  - destruct (decide (k = a)); reflexivity.
Qed.

Lemma replay_lookup_gen (o : overlay) (ks : list key) (p : overlay) k :
  ovals (fold_left (replay_f o) ks p) !! k
  = if decide (k ∈ ks) then (match ovals o !! k with Some v => Some v | None => ovals p !! k end)
    else ovals p !! k.
Proof.
  revert p. induction ks as [|a ks IH]; intros p; simpl.
  - destruct (decide (k ∈ [])) as [H|H]; [inversion H|reflexivity].
  - rewrite IH, replay_f_lookup.
    destruct (decide (k ∈ ks)) as [Hin|Hnin]; destruct (decide (k = a)) as [->|Hne];
      destruct (decide (_ ∈ _ :: _)) as [Hin'|Hnin']; try reflexivity;
      try (exfalso; apply Hnin'; set_solver).
    + destruct (ovals o !! a); reflexivity.
    + exfalso. apply elem_of_cons in Hin' as [?|?]; congruence.
Qed.

(* reading through a session replayed into its parent = session first, parent second *)
Lemma replay_lookup o p k : wf o ->
  ovals (replay o p) !! k = match ovals o !! k with Some v => Some v | None => ovals p !! k end.
Proof.
  intros [_ Hdom]. unfold replay. fold (replay_f o). rewrite replay_lookup_gen.
  destruct (decide (k ∈ okeys o)) as [Hin|Hnin]; [reflexivity|].
  destruct (ovals o !! k) eqn:E; [|reflexivity].
  exfalso; apply Hnin, Hdom. rewrite E; eauto.
Qed.

(* ---------- abstraction of an overlay ---------- *)

Definition abs_ov (o : overlay) : layer := hide <$> ovals o.

Lemma hide_tomb : hide TOMB = None.
Proof. unfold hide, is_tomb. rewrite bool_decide_eq_true_2; reflexivity. Qed.

Lemma hide_other v : v <> TOMB -> hide v = Some v.
Proof. intros H. unfold hide, is_tomb. rewrite bool_decide_eq_false_2; [reflexivity|exact H]. Qed.

Lemma abs_oset o k v : v <> TOMB -> abs_ov (oset o k v) = <[k:=Some v]> (abs_ov o).
Proof. intros H. unfold abs_ov, oset; simpl. rewrite fmap_insert, hide_other; auto. Qed.

Lemma abs_odel o k : abs_ov (odel o k) = <[k:=None]> (abs_ov o).
Proof. unfold abs_ov, odel, oset; simpl. rewrite fmap_insert, hide_tomb; auto. Qed.

Lemma abs_empty : abs_ov oempty = ∅.
Proof. unfold abs_ov; simpl. apply fmap_empty. Qed.

Lemma abs_lookup o k : abs_ov o !! k = hide <$> (ovals o !! k).
Proof. unfold abs_ov. apply lookup_fmap. Qed.

Lemma abs_replay o p : wf o -> abs_ov (replay o p) = abs_ov o ∪ abs_ov p.
Proof.
  intros Hwf. apply map_eq; intros k.
  rewrite abs_lookup, replay_lookup by exact Hwf.
  rewrite lookup_union, !abs_lookup.
  destruct (ovals o !! k); simpl; [|destruct (ovals p !! k); reflexivity].
  destruct (hide <$> ovals p !! k); reflexivity.
Qed.

(* ---------- flushing the block cache into the tree ---------- *)

Lemma flush_step_fst t l a v :
  (flush_step (t, l) (a, v)).1 = if is_tomb v then delete a t else <[a:=v]> t.
Proof. unfold flush_step. destruct (is_tomb v); reflexivity. Qed.

Lemma flush_lookup (kvs : list (key * val)) t l k :
  NoDup (kvs.*1) ->
  (fold_left flush_step kvs (t, l)).1 !! k
  = match list_find (fun kv => kv.1 = k) kvs with
    | Some (_, (_, v)) => hide v
    | None => t !! k
    end.
Proof.
  revert t l. induction kvs as [|[a v] kvs IH]; intros t l Hnd; [reflexivity|].
  inversion Hnd as [|? ? Hnotin Hnd']; subst.
  cbn [fold_left].
  pose proof (flush_step_fst t l a v) as Hfst.
  destruct (flush_step (t, l) (a, v)) as [t' l'] eqn:E. cbn [fst] in Hfst. subst t'.
  rewrite IH by exact Hnd'. cbn [list_find]. cbn [fst].
  destruct (decide (a = k)) as [->|Hne].
  - assert (Hnone : list_find (fun kv : key * val => kv.1 = k) kvs = None).
    { apply list_find_None. apply Forall_forall. intros [k' v'] Hin Heq; simpl in Heq; subst.
      apply Hnotin. apply elem_of_list_fmap. exists (k, v'); auto. }
    rewrite Hnone. unfold hide. destruct (is_tomb v);
      [apply lookup_delete | apply lookup_insert].
  - destruct (list_find (fun kv : key * val => kv.1 = k) kvs) as [[i [k' v']]|] eqn:Ef;
      cbn [fmap option_fmap option_map]; [reflexivity|].
    destruct (is_tomb v); [apply lookup_delete_ne | apply lookup_insert_ne]; exact Hne.
Qed.

Definition kvf (o : overlay) :=
  fun k => match ovals o !! k with Some v => Some (k, v) | None => None end.

Lemma okvs_fst_gen o ks :
  (forall k, k ∈ ks -> is_Some (ovals o !! k)) -> (omap (kvf o) ks).*1 = ks.
Proof.
  induction ks as [|a ks IH]; intros H; [reflexivity|].
  cbn [omap list_omap]. unfold kvf at 1.
  destruct (H a) as [v Hv]; [left|]. rewrite Hv. cbn. f_equal.
  apply IH. intros k Hk. apply H. right; exact Hk.
Qed.

Lemma okvs_fst o : wf o -> (okvs o).*1 = okeys o.
Proof. intros [_ Hdom]. apply okvs_fst_gen. intros k Hk. apply Hdom, Hk. Qed.

Lemma elem_of_okvs o k v : wf o -> (k, v) ∈ okvs o <-> ovals o !! k = Some v.
Proof.
  intros [_ Hdom]. unfold okvs. rewrite elem_of_list_omap. split.
  - intros (k' & Hin & Hf). unfold kvf in Hf.
    destruct (ovals o !! k') eqn:E; [|discriminate]. injection Hf as -> ->. exact E.
  - intros Hv. exists k. split; [apply Hdom; rewrite Hv; eauto|].
    unfold kvf. rewrite Hv. reflexivity.
Qed.

Lemma okvs_find o k : wf o ->
  match list_find (fun kv : key * val => kv.1 = k) (okvs o) with
  | Some (_, (_, v)) => ovals o !! k = Some v
  | None => ovals o !! k = None
  end.
Proof.
  intros Hwf.
  destruct (list_find (fun kv : key * val => kv.1 = k) (okvs o)) as [[i [k' v]]|] eqn:Ef.
  - apply list_find_Some in Ef as (Hl & Hk & _). simpl in Hk; subst k'.
    apply (elem_of_okvs o k v Hwf). eapply elem_of_list_lookup_2; exact Hl.
  - destruct (ovals o !! k) as [v|] eqn:E; [|reflexivity]. exfalso.
    rewrite list_find_None in Ef. rewrite Forall_forall in Ef.
    apply (Ef (k, v)); [|reflexivity]. apply elem_of_okvs; assumption.
Qed.

Lemma flush_apply o t l : wf o ->
  (fold_left flush_step (okvs o) (t, l)).1 = apply_layer (abs_ov o) t.
Proof.
  intros Hwf. apply map_eq; intros k.
  rewrite flush_lookup by (rewrite okvs_fst by exact Hwf; apply Hwf).
  unfold apply_layer. rewrite lookup_merge. rewrite abs_lookup.
  pose proof (okvs_find o k Hwf) as Hf.
  destruct (list_find (fun kv : key * val => kv.1 = k) (okvs o)) as [[i [k' v]]|].
  - rewrite Hf. cbn. destruct (hide v), (t !! k); reflexivity.
  - rewrite Hf. cbn. destruct (t !! k); reflexivity.
Qed.

(* ---------- refinement: Store refines StoreSpec ---------- *)

(* the gas counter has not reached the block limit (with the margin one Exists needs) *)
Definition gas_ok (s : state) : Prop :=
  match gas s with None => True | Some g => gused g + CHECKEXIST < glimit g end.

(* no written value is the delete marker itself *)
Definition op_ok (o : op) : Prop :=
  match o with Set_ _ v => v <> TOMB | _ => True end.

Fixpoint guarded (s : state) (ops : list op) : Prop :=
  match ops with
  | [] => True
  | o :: rest => gas_ok s /\ op_ok o /\ guarded (step s o).2 rest
  end.

Definition R (s : state) (p : spec) : Prop :=
  (abs_ov <$> sess s) = p_sess p /\ abs_ov (cache s) = p_blk p /\ tree s = p_tree p /\
  saved s = p_saved p /\ version s = p_version p /\ lastversion s = p_last p /\
  rot s = p_rot p /\
  match sess s with Some o => wf o | None => True end /\ wf (cache s).

Ltac splitR :=
  unfold R; simpl;
  refine (conj _ (conj _ (conj _ (conj _ (conj _ (conj _ (conj _ (conj _ _)))))))).

Lemma R_init r : R (init r) (spec_init r).
Proof.
  unfold R, init, spec_init; simpl. rewrite abs_empty.
  repeat split; auto using wf_empty; apply wf_empty.
Qed.

Lemma is_Some_hide v : bool_decide (is_Some (hide v)) = negb (is_tomb v).
Proof.
  unfold hide. destruct (is_tomb v); reflexivity.
Qed.

Lemma consume_strict_ok g a c : gused g < glimit g ->
  consume_strict g a c = (true, {| glimit := glimit g ; gused := gused g + a * c |}).
Proof.
  intros H. unfold consume_strict.
  destruct (glimit g <=? gused g) eqn:E; [apply Z.leb_le in E; lia|reflexivity].
Qed.

Lemma cache_get_ok s k :
  match gas s with None => True | Some g => gused g < glimit g end ->
  (cache_get s k).1 = oget (cache s) k.
Proof.
  unfold cache_get. destruct (gas s) as [g|]; [|reflexivity].
  intros H. rewrite consume_strict_ok by exact H.
  destruct (oget (cache s) k); reflexivity.
Qed.

Lemma sess_lookup s p k o : R s p -> sess s = Some o ->
  (match p_sess p with Some l => l !! k | None => None end) = hide <$> oget o k.
Proof.
  intros (Hs & _) Eo. rewrite <- Hs, Eo. simpl. apply abs_lookup.
Qed.

Lemma blk_lookup s p k : R s p -> p_blk p !! k = hide <$> oget (cache s) k.
Proof. intros (_ & Hb & _). rewrite <- Hb. apply abs_lookup. Qed.

Lemma R_with_gas s p g : R s p -> R (with_gas s g) p.
Proof. exact (fun H => H). Qed.

Lemma do_get_refines s p k : R s p -> gas_ok s ->
  (do_get s k).1 = spec_read p k /\ R (do_get s k).2 p.
Proof.
  intros HR Hg. unfold do_get, spec_read.
  destruct (sess s) as [o|] eqn:Eo.
  - rewrite (sess_lookup s p k o HR Eo).
    destruct (oget o k) as [v|] eqn:Ev; simpl; [split; [reflexivity|exact HR]|].
    pose proof (cache_get_ok s k) as Hc.
    destruct (cache_get s k) as [r g'] eqn:Ec. simpl in Hc.
    rewrite Hc by (unfold gas_ok in Hg; destruct (gas s); [unfold CHECKEXIST in Hg; lia|exact I]).
    rewrite (blk_lookup s p k HR).
    destruct (oget (cache s) k) as [v|]; simpl.
    + split; [reflexivity|apply R_with_gas; exact HR].
    + split; [destruct HR as (_&_&Ht&_); rewrite Ht; reflexivity|apply R_with_gas; exact HR].
  - assert (Hn : p_sess p = None) by (destruct HR as (Hs&_); rewrite <- Hs, Eo; reflexivity).
    rewrite Hn.
    pose proof (cache_get_ok s k) as Hc.
    destruct (cache_get s k) as [r g'] eqn:Ec. simpl in Hc.
    rewrite Hc by (unfold gas_ok in Hg; destruct (gas s); [unfold CHECKEXIST in Hg; lia|exact I]).
    rewrite (blk_lookup s p k HR).
    destruct (oget (cache s) k) as [v|]; simpl.
    + split; [reflexivity|apply R_with_gas; exact HR].
    + split; [destruct HR as (_&_&Ht&_); rewrite Ht; reflexivity|apply R_with_gas; exact HR].
Qed.

Lemma gas_ok_lt s : gas_ok s -> match gas s with None => True | Some g => gused g < glimit g end.
Proof. unfold gas_ok. destruct (gas s); [unfold CHECKEXIST; lia|auto]. Qed.

Lemma do_exists_refines s p k : R s p -> gas_ok s ->
  (do_exists s k).1 = bool_decide (is_Some (spec_read p k)) /\ R (do_exists s k).2 p.
Proof.
  intros HR Hg. unfold do_exists, spec_read.
  assert (Hsess : (match p_sess p with Some l => l !! k | None => None end)
                  = hide <$> (match sess s with Some o => oget o k | None => None end)).
  { destruct (sess s) as [o|] eqn:Eo; [apply (sess_lookup s p k o HR Eo)|].
    destruct HR as (Hs&_). rewrite <- Hs, Eo. reflexivity. }
  rewrite Hsess.
  destruct (match sess s with Some o => oget o k | None => None end) as [v|]; simpl.
  { split; [symmetry; apply is_Some_hide|exact HR]. }
  rewrite (blk_lookup s p k HR).
  unfold cache_exists.
  destruct (gas s) as [g|] eqn:Eg.
  - unfold gas_ok in Hg. rewrite Eg in Hg.
    rewrite consume_strict_ok by (unfold CHECKEXIST in Hg; lia).
    destruct (oget (cache s) k) as [v|] eqn:Ev.
    + rewrite bool_decide_eq_true_2 by eauto.
      unfold cache_get. cbn [with_gas gas cache].
      rewrite consume_strict_ok by (cbn; lia). rewrite Ev. simpl.
      split; [symmetry; apply is_Some_hide|exact HR].
    + rewrite bool_decide_eq_false_2 by (intros [? ?]; discriminate). simpl.
      destruct HR as (Hs&Hb&Ht&Hrest). rewrite Ht.
      split; [reflexivity|]. unfold R. simpl. auto.
  - destruct (oget (cache s) k) as [v|] eqn:Ev.
    + rewrite bool_decide_eq_true_2 by eauto.
      unfold cache_get. cbn [with_gas gas cache]. rewrite Ev. simpl.
      split; [symmetry; apply is_Some_hide|exact HR].
    + rewrite bool_decide_eq_false_2 by (intros [? ?]; discriminate). simpl.
      destruct HR as (Hs&Hb&Ht&Hrest). rewrite Ht.
      split; [reflexivity|]. unfold R. simpl. auto.
Qed.

Lemma do_write_gen_refines s p (w : option val) k (v : val) :
  R s p -> gas_ok s -> hide v = w -> (w = None -> v = TOMB) ->
  forall cost,
  let s' := match sess s with
            | Some o => with_sess s (Some (oset o k v))
            | None => match gas s with
                      | None => with_cache s (oset (cache s) k v)
                      | Some g => with_gas (with_cache s (oset (cache s) k v)) (Some (cost g))
                      end
            end in
  R s' (spec_write p k w).
Proof.
  intros HR Hg Hh Hw cost.
  assert (Habs : forall o, abs_ov (oset o k v) = <[k:=w]> (abs_ov o)).
  { intros o. destruct w as [v'|].
    - assert (v' = v /\ v <> TOMB) as [-> Hne].
      { unfold hide in Hh. destruct (is_tomb v) eqn:E; [discriminate|]. injection Hh as ->.
        split; [reflexivity|]. unfold is_tomb in E. apply bool_decide_eq_false_1 in E. exact E. }
      apply abs_oset; exact Hne.
    - rewrite (Hw eq_refl). apply abs_odel. }
  destruct HR as (Hs&Hb&Ht&Hsv&Hv&Hl&Hr&Hws&Hwc).
  unfold spec_write.
  destruct (sess s) as [o|] eqn:Eo; simpl.
  - rewrite <- Hs. simpl. splitR; rewrite ?Habs; auto using wf_oset.
  - rewrite <- Hs. simpl. destruct (gas s) as [g|]; splitR; rewrite ?Eo, ?Habs, ?Hb; simpl;
      auto using wf_oset.
Qed.

Lemma do_set_refines s p k v : R s p -> gas_ok s -> v <> TOMB ->
  (do_set s k v).1 = OUnit /\ R (do_set s k v).2 (spec_write p k (Some v)).
Proof.
  intros HR Hg Hne.
  pose proof (do_write_gen_refines s p (Some v) k v HR Hg (hide_other v Hne)
                ltac:(discriminate)) as H.
  unfold do_set. destruct (sess s) as [o|] eqn:Eo.
  - split; [reflexivity|]. apply (H (fun g => g)).
  - destruct (gas s) as [g|] eqn:Eg.
    + apply gas_ok_lt in Hg. rewrite Eg in Hg. rewrite consume_strict_ok by exact Hg.
      split; [reflexivity|].
      apply (H (fun g => consume_over {| glimit := glimit g; gused := gused g + 1 * WRITEFLAT |}
                                      (vlen v) WRITEBYTES)).
    + split; [reflexivity|]. apply (H (fun g => g)).
Qed.

Lemma do_delete_refines s p k : R s p -> gas_ok s ->
  (do_delete s k).1 = OBool true /\ R (do_delete s k).2 (spec_write p k None).
Proof.
  intros HR Hg.
  pose proof (do_write_gen_refines s p None k TOMB HR Hg hide_tomb ltac:(reflexivity)) as H.
  unfold do_delete, odel. destruct (sess s) as [o|] eqn:Eo.
  - split; [reflexivity|]. apply (H (fun g => g)).
  - destruct (gas s) as [g|] eqn:Eg.
    + apply gas_ok_lt in Hg. rewrite Eg in Hg. rewrite consume_strict_ok by exact Hg.
      split; [reflexivity|].
      apply (H (fun g => {| glimit := glimit g; gused := gused g + 1 * DELETEGAS |})).
    + split; [reflexivity|]. apply (H (fun g => g)).
Qed.

Lemma do_write_tree s : wf (cache s) ->
  tree (do_write s) = apply_layer (abs_ov (cache s)) (tree s).
Proof.
  intros Hwf. unfold do_write.
  pose proof (flush_apply (cache s) (tree s) (wlog s) Hwf) as H.
  destruct (fold_left flush_step (okvs (cache s)) (tree s, wlog s)) as [t l]. exact H.
Qed.

Lemma do_write_other s :
  sess (do_write s) = sess s /\ cache (do_write s) = cache s /\ gas (do_write s) = gas s /\
  saved (do_write s) = saved s /\ version (do_write s) = version s /\
  lastversion (do_write s) = lastversion s /\ rot (do_write s) = rot s.
Proof.
  unfold do_write.
  destruct (fold_left flush_step (okvs (cache s)) (tree s, wlog s)) as [t l]. simpl. auto 10.
Qed.

Lemma step_refines s p o : R s p -> gas_ok s -> op_ok o ->
  (step s o).1 = (spec_step p o).1 /\ R (step s o).2 (spec_step p o).2.
Proof.
  intros HR Hg Ho. destruct o as [k|k v|k|k| | | | | |ver k|lim| ]; cbn [step spec_step].
  - pose proof (do_get_refines s p k HR Hg) as [H1 H2].
    destruct (do_get s k) as [r s']. simpl in *. subst. auto.
  - apply do_set_refines; assumption.
  - pose proof (do_exists_refines s p k HR Hg) as [H1 H2].
    destruct (do_exists s k) as [r s']. simpl in *. subst. auto.
  - apply do_delete_refines; assumption.
  - (* BeginTx *) split; [reflexivity|]. destruct HR as (Hs&Hb&Ht&Hsv&Hv&Hl&Hr&Hws&Hwc).
    splitR; auto using wf_empty. rewrite abs_empty. reflexivity.
  - (* CommitTx *) destruct HR as (Hs&Hb&Ht&Hsv&Hv&Hl&Hr&Hws&Hwc).
    destruct (sess s) as [o|] eqn:Eo; rewrite <- Hs; simpl.
    + split; [reflexivity|]. splitR; auto using wf_replay.
      rewrite abs_replay by exact Hws. rewrite Hb. reflexivity.
    + split; [reflexivity|]. splitR; rewrite ?Eo; auto.
  - (* DiscardTx *) split; [reflexivity|]. destruct HR as (Hs&Hb&Ht&Hsv&Hv&Hl&Hr&Hws&Hwc).
    splitR; auto.
  - (* Write *) split; [reflexivity|]. destruct HR as (Hs&Hb&Ht&Hsv&Hv&Hl&Hr&Hws&Hwc).
    pose proof (do_write_other s) as (E1&E2&E3&E4&E5&E6&E7).
    unfold R. cbn [p_sess p_blk p_tree p_saved p_version p_last p_rot snd].
    rewrite E1, E2, E4, E5, E6, E7, do_write_tree by exact Hwc. rewrite Hb, Ht.
    refine (conj _ (conj _ (conj _ (conj _ (conj _ (conj _ (conj _ (conj _ _)))))))); auto.
  - (* BlockCommit *) destruct HR as (Hs&Hb&Ht&Hsv&Hv&Hl&Hr&Hws&Hwc).
    pose proof (do_write_other s) as (E1&E2&E3&E4&E5&E6&E7).
    unfold do_commit. cbn [fst snd].
    rewrite E4, E5, E7, do_write_tree by exact Hwc. rewrite Hb, Ht, Hsv, Hv, Hr.
    split; [reflexivity|]. splitR; auto using wf_empty. rewrite abs_empty; reflexivity.
  - (* GetVersioned *) destruct HR as (Hs&Hb&Ht&Hsv&Hv&Hl&Hr&Hws&Hwc). simpl. rewrite Hsv.
    split; [reflexivity|]. splitR; auto.
  - (* Fresh *) split; [reflexivity|]. destruct HR as (Hs&Hb&Ht&Hsv&Hv&Hl&Hr&Hws&Hwc).
    splitR; auto using wf_empty. rewrite abs_empty; reflexivity.
  - (* Reopen *) split; [reflexivity|]. destruct HR as (Hs&Hb&Ht&Hsv&Hv&Hl&Hr&Hws&Hwc).
    splitR; auto using wf_empty; rewrite ?abs_empty, ?Hsv, ?Hv; reflexivity.
Qed.

Theorem store_refines_spec ops : forall s p, R s p -> guarded s ops ->
  outputs s ops = spec_outputs p ops /\ R (final s ops) (spec_run p ops).2.
Proof.
  unfold outputs, spec_outputs, final.
  induction ops as [|o ops IH]; intros s p HR Hgd; [split; [reflexivity|exact HR]|].
  destruct Hgd as (Hg & Ho & Hrest).
  pose proof (step_refines s p o HR Hg Ho) as [H1 H2].
  cbn [run spec_run].
  destruct (step s o) as [r s1]. destruct (spec_step p o) as [r' p1]. cbn [fst snd] in *.
  specialize (IH s1 p1 H2 Hrest).
  destruct (run s1 ops) as [rs s2]. destruct (spec_run p1 ops) as [rs' p2]. cbn [fst snd] in *.
  destruct IH as [IH1 IH2]. subst. split; [reflexivity|exact IH2].
Qed.

(* ---------- gas erasure: below the limit, the gas counter influences nothing else ---------- *)

Definition erase (s : state) : state := with_gas s None.
Definition erase_op (o : op) : op := match o with Fresh _ => Fresh None | _ => o end.

Lemma erase_idem s : erase (erase s) = erase s.
Proof. reflexivity. Qed.

Lemma step_erase s o : gas_ok s ->
  (step s o).1 = (step (erase s) (erase_op o)).1 /\
  erase (step s o).2 = erase (step (erase s) (erase_op o)).2.
Proof.
  intros Hg. pose proof (gas_ok_lt s Hg) as Hlt. unfold gas_ok in Hg.
  destruct o as [k|k v|k|k| | | | | |ver k|lim| ]; cbn [step erase_op].
  - (* Get *) unfold do_get. cbn [erase with_gas sess].
    destruct (match sess s with Some o => oget o k | None => None end); [split; reflexivity|].
    unfold cache_get. cbn [gas cache erase with_gas].
    destruct (gas s) as [g|]; [|destruct (oget (cache s) k); split; reflexivity].
    rewrite consume_strict_ok by exact Hlt.
    destruct (oget (cache s) k); split; reflexivity.
  - (* Set *) unfold do_set. cbn [erase with_gas sess gas cache].
    destruct (sess s); [split; reflexivity|].
    destruct (gas s) as [g|]; [|split; reflexivity].
    rewrite consume_strict_ok by exact Hlt. split; reflexivity.
  - (* Exists *) unfold do_exists. cbn [erase with_gas sess].
    destruct (match sess s with Some o => oget o k | None => None end); [split; reflexivity|].
    unfold cache_exists. cbn [gas cache erase with_gas].
    destruct (gas s) as [g|].
    + rewrite consume_strict_ok by exact Hlt.
      destruct (oget (cache s) k) as [v|] eqn:Ev.
      * rewrite bool_decide_eq_true_2 by eauto.
        unfold cache_get. cbn [with_gas gas cache].
        rewrite consume_strict_ok by (cbn; lia). cbn [erase with_gas cache].
        rewrite Ev. split; reflexivity.
      * rewrite bool_decide_eq_false_2 by (intros [? ?]; discriminate). split; reflexivity.
    + destruct (oget (cache s) k) as [v|] eqn:Ev.
      * rewrite bool_decide_eq_true_2 by eauto.
        unfold cache_get. cbn [erase with_gas gas cache]. rewrite Ev. split; reflexivity.
      * rewrite bool_decide_eq_false_2 by (intros [? ?]; discriminate). split; reflexivity.
  - (* Delete *) unfold do_delete. cbn [erase with_gas sess gas cache].
    destruct (sess s); [split; reflexivity|].
    destruct (gas s) as [g|]; [|split; reflexivity].
    rewrite consume_strict_ok by exact Hlt. split; reflexivity.
  - split; reflexivity.
  - cbn [erase with_gas sess]. destruct (sess s); split; reflexivity.
  - split; reflexivity.
  - (* Write *) unfold do_write. cbn [erase with_gas cache tree wlog].
    destruct (fold_left flush_step (okvs (cache s)) (tree s, wlog s)). split; reflexivity.
  - (* BlockCommit *) unfold do_commit, do_write. cbn [erase with_gas cache tree wlog].
    destruct (fold_left flush_step (okvs (cache s)) (tree s, wlog s)). split; reflexivity.
  - split; reflexivity.
  - split; reflexivity.
  - split; reflexivity.
Qed.

(* the guard of a run, gas part only *)
Fixpoint gas_guarded (s : state) (ops : list op) : Prop :=
  match ops with
  | [] => True
  | o :: rest => gas_ok s /\ gas_guarded (step s o).2 rest
  end.

Lemma run_erase ops : forall s s0, gas_guarded s ops -> erase s = erase s0 -> gas s0 = None ->
  outputs s ops = outputs s0 (map erase_op ops) /\
  erase (final s ops) = erase (final s0 (map erase_op ops)).
Proof.
  unfold outputs, final.
  induction ops as [|o ops IH]; intros s s0 Hgd He Hn; [split; [reflexivity|exact He]|].
  destruct Hgd as [Hg Hrest]. cbn [map run].
  pose proof (step_erase s o Hg) as [H1 H2].
  assert (Hs0 : erase s = s0).
  { rewrite He. destruct s0; unfold erase, with_gas; simpl in *; subst; reflexivity. }
  rewrite Hs0 in H1, H2.
  destruct (step s o) as [r s1]. destruct (step s0 (erase_op o)) as [r0 s01] eqn:E0.
  cbn [fst snd] in *.
  assert (Hn1 : gas s01 = None).
  { clear -E0 Hn. destruct o; cbn [erase_op step] in E0;
      try (injection E0 as <- <-; simpl; auto; fail).
    - unfold do_get, cache_get in E0. rewrite Hn in E0.
      destruct (match sess s0 with Some o => oget o k | None => None end);
        [injection E0 as <- <-; exact Hn|].
      destruct (oget (cache s0) k); injection E0 as <- <-; reflexivity.
    - unfold do_set in E0. rewrite Hn in E0. destruct (sess s0); injection E0 as <- <-; exact Hn.
    - unfold do_exists, cache_exists in E0. rewrite Hn in E0.
      destruct (match sess s0 with Some o => oget o k | None => None end);
        [injection E0 as <- <-; exact Hn|].
      destruct (bool_decide (is_Some (oget (cache s0) k))).
      + unfold cache_get in E0. cbn [with_gas gas cache] in E0.
        destruct (oget (cache s0) k); injection E0 as <- <-; reflexivity.
      + injection E0 as <- <-; reflexivity.
    - unfold do_delete in E0. rewrite Hn in E0.
      destruct (sess s0); injection E0 as <- <-; exact Hn.
    - destruct (sess s0); injection E0 as <- <-; exact Hn.
    - injection E0 as <- <-. unfold do_write.
      destruct (fold_left flush_step (okvs (cache s0)) (tree s0, wlog s0)). exact Hn.
 }
  specialize (IH s1 s01 Hrest H2 Hn1).
  destruct (run s1 ops) as [rs s2]. destruct (run s01 (map erase_op ops)) as [rs0 s02].
  cbn [fst snd] in *. destruct IH as [IH1 IH2]. subst. split; [reflexivity|exact IH2].
Qed.

(* ---------- in the gas-free semantics: reads and discarded sessions are invisible ---------- *)

Definition is_read (o : op) : bool :=
  match o with Get _ | Exists_ _ | GetVersioned _ _ => true | _ => false end.

Lemma with_gas_None s : gas s = None -> with_gas s None = s.
Proof. destruct s; simpl; intros ->; reflexivity. Qed.

Lemma read_noop s o : gas s = None -> is_read o = true -> (step s o).2 = s.
Proof.
  intros Hn Hr. destruct o; try discriminate; cbn [step].
  - unfold do_get, cache_get. rewrite Hn.
    destruct (match sess s with Some o => oget o k | None => None end); [reflexivity|].
    destruct (oget (cache s) k); simpl; apply with_gas_None; exact Hn.
  - unfold do_exists, cache_exists. rewrite Hn.
    destruct (match sess s with Some o => oget o k | None => None end); [reflexivity|].
    destruct (bool_decide (is_Some (oget (cache s) k))).
    + unfold cache_get. cbn [with_gas gas cache].
      destruct (oget (cache s) k); simpl;
        (etransitivity; [|apply with_gas_None; exact Hn]); reflexivity.
    + simpl. apply with_gas_None; exact Hn.
  - reflexivity.
Qed.

Lemma step_gas_None s o : gas s = None -> (forall l, o <> Fresh (Some l)) ->
  gas (step s o).2 = None.
Proof.
  intros Hn Hf. destruct (is_read o) eqn:Er; [rewrite read_noop by auto; exact Hn|].
  destruct o; try discriminate; cbn [step]; try exact Hn.
  - unfold do_set. rewrite Hn. destruct (sess s); exact Hn.
  - unfold do_delete. rewrite Hn. destruct (sess s); exact Hn.
  - destruct (sess s); exact Hn.
  - unfold do_write. destruct (fold_left flush_step (okvs (cache s)) (tree s, wlog s)). exact Hn.
  - reflexivity.
  - destruct limit as [l|]; [exfalso; apply (Hf l); reflexivity|reflexivity].
  - reflexivity.
Qed.

Definition no_gas_ops (ops : list op) : Prop := Forall (fun o => forall l, o <> Fresh (Some l)) ops.

Theorem reads_invisible ops : forall s, gas s = None -> no_gas_ops ops ->
  final s ops = final s (filter (fun o => negb (is_read o)) ops).
Proof.
  unfold final. induction ops as [|o ops IH]; intros s Hn Hf; [reflexivity|].
  inversion Hf as [|? ? Ho Hf']; subst.
  cbn [filter list_filter]. destruct (is_read o) eqn:Er; simpl.
  - cbn [run]. pose proof (read_noop s o Hn Er) as H.
    destruct (step s o) as [r s1]. cbn [snd] in H. subst s1.
    specialize (IH s Hn Hf'). destruct (run s ops) as [rs s2].
    destruct (run s (filter _ ops)) as [rs' s2']. exact IH.
  - cbn [run]. pose proof (step_gas_None s o Hn Ho) as H.
    destruct (step s o) as [r s1]. cbn [snd] in H.
    specialize (IH s1 H Hf'). destruct (run s1 ops) as [rs s2].
    destruct (run s1 (filter _ ops)) as [rs' s2']. exact IH.
Qed.

(* data operations inside a session touch nothing but the session *)
Definition is_data (o : op) : bool :=
  match o with Get _ | Set_ _ _ | Exists_ _ | Delete _ => true | _ => false end.

Lemma data_in_session s o ov : gas s = None -> sess s = Some ov -> is_data o = true ->
  exists ov', (step s o).2 = with_sess s (Some ov').
Proof.
  intros Hn Hs Hd. destruct (is_read o) eqn:Er.
  { rewrite read_noop by auto. exists ov. destruct s; simpl in *; subst; reflexivity. }
  destruct o; try discriminate; cbn [step].
  - unfold do_set. rewrite Hs. eauto.
  - unfold do_delete. rewrite Hs. eauto.
Qed.

Theorem discarded_session_invisible p : forall s, gas s = None ->
  forallb is_data p = true ->
  final s (BeginTx :: p ++ [DiscardTx]) = with_sess s None.
Proof.
  intros s Hn Hp. unfold final. cbn [run step].
  assert (H : forall p ov s, gas s = None -> forallb is_data p = true ->
            (run (with_sess s (Some ov)) (p ++ [DiscardTx])).2 = with_sess s None).
  { clear. induction p as [|o p IH]; intros ov s Hn Hp.
    - reflexivity.
    - cbn [forallb] in Hp. apply andb_true_iff in Hp as [Ho Hp].
      cbn [app run].
      destruct (data_in_session (with_sess s (Some ov)) o ov Hn eq_refl Ho) as [ov' E].
      destruct (step (with_sess s (Some ov)) o) as [r s1]. cbn [snd] in E. subst s1.
      change (with_sess (with_sess s (Some ov)) (Some ov')) with (with_sess s (Some ov')).
      specialize (IH ov' s Hn Hp).
      destruct (run (with_sess s (Some ov')) (p ++ [DiscardTx])) as [rs s2]. exact IH. }
  specialize (H p oempty s Hn Hp).
  destruct (run (with_sess s (Some oempty)) (p ++ [DiscardTx])) as [rs s2]. exact H.
Qed.

(* ---------- versions ---------- *)

Lemma rotate_keeps r lastv sv v t : rotate r lastv sv !! v = Some t -> sv !! v = Some t.
Proof.
  unfold rotate. destruct (0 <? lastv - recent r); [|auto].
  intros H.
  destruct (negb (cycles r =? 0) && negb (every r =? 0) && ((lastv - recent r) mod every r =? 0)).
  - apply lookup_delete_Some in H as [_ H].
    destruct ((every r =? 0) || negb ((lastv - recent r) mod every r =? 0)); [|exact H].
    apply lookup_delete_Some in H as [_ H]. exact H.
  - destruct ((every r =? 0) || negb ((lastv - recent r) mod every r =? 0)); [|exact H].
    apply lookup_delete_Some in H as [_ H]. exact H.
Qed.

Definition versions_below (s : state) : Prop := forall v, v > version s -> saved s !! v = None.

(* a saved version is immutable: any operation keeps it or drops it, never changes it *)
Theorem saved_immutable s o v t : versions_below s ->
  saved (step s o).2 !! v = Some t -> v <= version s -> saved s !! v = Some t.
Proof.
  intros Hvb H Hle. destruct o; cbn [step] in H; try exact H.
  - unfold do_get in H. destruct (match sess s with Some o => oget o k | None => None end);
      [exact H|]. destruct (cache_get s k) as [[?|] ?]; exact H.
  - unfold do_set in H. destruct (sess s); [exact H|]. destruct (gas s) as [g|]; [|exact H].
    destruct (consume_strict g 1 WRITEFLAT) as [[|] ?]; exact H.
  - unfold do_exists in H. destruct (match sess s with Some o => oget o k | None => None end);
      [exact H|]. destruct (cache_exists s k) as [[|] ?]; [|exact H].
    destruct (cache_get _ k) as [[?|] ?]; exact H.
  - unfold do_delete in H. destruct (sess s); [exact H|]. destruct (gas s) as [g|]; [|exact H].
    destruct (consume_strict g 1 DELETEGAS) as [[|] ?]; exact H.
  - destruct (sess s); exact H.
  - cbn [snd] in H. pose proof (do_write_other s) as (_&_&_&E&_). rewrite E in H. exact H.
  - unfold do_commit in H. cbn [snd saved] in H. apply rotate_keeps in H.
    pose proof (do_write_other s) as (_&_&_&E&Ev&_). rewrite E, Ev in H.
    rewrite lookup_insert_ne in H by lia. exact H.
Qed.

(* a block commit produces version+1 holding exactly the surviving writes; reopening returns it *)
Theorem commit_then_read s k : wf (cache s) ->
  let s' := (step s BlockCommit).2 in
  version s' = version s + 1 /\
  tree s' = apply_layer (abs_ov (cache s)) (tree s) /\
  (saved s' !! version s' = Some (tree s') ->
   (step s' (GetVersioned (version s') k)).1 = OVal (tree s' !! k) /\
   tree (step s' Reopen).2 = tree s').
Proof.
  intros Hwf s'. subst s'. cbn [step]. unfold do_commit. cbn [snd version tree saved].
  pose proof (do_write_other s) as (_&_&_&E&Ev&_&Er).
  rewrite Ev, do_write_tree by exact Hwf.
  split; [reflexivity|]. split; [reflexivity|].
  intros Hs. cbn [fst]. unfold do_reopen. cbn [tree saved version].
  rewrite Hs. split; reflexivity.
Qed.

(* the newest version always survives the rotation rule *)
Lemma rotate_latest r lastv sv t : 0 <= recent r -> 0 <= every r -> 0 <= cycles r -> 0 <= lastv ->
  rotate r lastv (<[lastv + 1 := t]> sv) !! (lastv + 1) = Some t.
Proof.
  intros Hr He Hc Hl. unfold rotate. destruct (0 <? lastv - recent r) eqn:E;
    [|apply lookup_insert].
  assert (H1 : lastv - recent r <> lastv + 1) by lia.
  assert (H2 : lastv - recent r - cycles r * every r <> lastv + 1) by nia.
  destruct (negb (cycles r =? 0) && negb (every r =? 0) && ((lastv - recent r) mod every r =? 0));
    destruct ((every r =? 0) || negb ((lastv - recent r) mod every r =? 0));
    rewrite ?lookup_delete_ne by auto; apply lookup_insert.
Qed.

From OL Require Import theories.StoreCheck.

Lemma guardedb_sound ops : forall s, guardedb s ops = true -> guarded s ops.
Proof.
  induction ops as [|o ops IH]; intros s H; [exact I|].
  cbn [guardedb] in H. apply andb_true_iff in H as [H H3]. apply andb_true_iff in H as [H1 H2].
  cbn [guarded]. split; [|split].
  - unfold gas_okb in H1. unfold gas_ok. destruct (gas s); [apply Z.ltb_lt; exact H1|exact I].
  - unfold op_okb in H2. destruct o; try exact I. simpl.
    unfold is_tomb in H2. apply negb_true_iff in H2. apply bool_decide_eq_false_1 in H2. exact H2.
  - apply IH; exact H3.
Qed.

(* ---------- reads AND discarded sessions together: the stripped sequence ----------
   Everything but the open session — block cache INCLUDING its first-write order, working tree,
   saved versions, version numbers and the ordered tree-call log — is the same after [ops] and
   after [strip ops] (gas-free semantics; metered runs below the limit by [run_erase]). *)

Definition sess_step (o : overlay) (x : op) : overlay :=
  match x with Set_ k v => oset o k v | Delete k => odel o k | _ => o end.
Definition sess_of (p : list op) : overlay := fold_left sess_step p oempty.
Definition is_write (o : op) : bool :=
  match o with Set_ _ _ | Delete _ => true | _ => false end.

Lemma final_cons s o ops : final s (o :: ops) = final (step s o).2 ops.
Proof.
  unfold final. cbn [run]. destruct (step s o) as [r s1]. cbn [snd].
  destruct (run s1 ops) as [rs s2]. reflexivity.
Qed.

Lemma final_app a : forall s b, final s (a ++ b) = final (final s a) b.
Proof.
  induction a as [|o a IH]; intros s b; [reflexivity|].
  cbn [app]. rewrite !final_cons. apply IH.
Qed.

Lemma with_sess_same s : with_sess s (sess s) = s.
Proof. destruct s; reflexivity. Qed.

Lemma with_sess_None s : sess s = None -> with_sess s None = s.
Proof. intros H. rewrite <- H at 1. apply with_sess_same. Qed.

Lemma write_in_session s o ov : sess s = Some ov -> is_write o = true ->
  (step s o).2 = with_sess s (Some (sess_step ov o)).
Proof.
  intros Hs Hw. destruct o; try discriminate; cbn [step].
  - unfold do_set. rewrite Hs. reflexivity.
  - unfold do_delete. rewrite Hs. reflexivity.
Qed.

Lemma writes_in_session p : forall s ov, Forall (fun o => is_write o = true) p ->
  final (with_sess s (Some ov)) p = with_sess s (Some (fold_left sess_step p ov)).
Proof.
  induction p as [|o p IH]; intros s ov Hp; [reflexivity|].
  inversion Hp as [|? ? Ho Hp']; subst.
  rewrite final_cons, (write_in_session (with_sess s (Some ov)) o ov eq_refl Ho).
  change (with_sess (with_sess s (Some ov)) (Some (sess_step ov o)))
    with (with_sess s (Some (sess_step ov o))).
  cbn [fold_left]. apply IH; exact Hp'.
Qed.

Lemma do_write_sess s o : do_write (with_sess s o) = with_sess (do_write s) o.
Proof.
  unfold do_write. cbn [with_sess cache tree wlog].
  destruct (fold_left flush_step (okvs (cache s)) (tree s, wlog s)). reflexivity.
Qed.

(* operations that end a block / a process drop the open session and do not look at it *)
Lemma reset_ignores_sess s o x : match o with BlockCommit | Fresh _ | Reopen => True | _ => False end ->
  (step (with_sess s x) o).2 = (step s o).2 /\ sess (step s o).2 = None.
Proof.
  destruct o; intros H; try (exfalso; exact H); clear H; cbn [step].
  - unfold do_commit. rewrite do_write_sess. split; reflexivity.
  - split; reflexivity.
  - split; reflexivity.
Qed.

Definition pend_ok (pend : option (list op)) (s : state) : Prop :=
  match pend with
  | Some p => Forall (fun o => is_write o = true) p /\ sess s = Some (sess_of p)
  | None => sess s = None
  end.

Lemma strip_sim ops : forall pend s, gas s = None -> no_gas_ops ops -> pend_ok pend s ->
  with_sess (final s ops) None = with_sess (final (with_sess s None) (strip_aux pend ops)) None.
Proof.
  induction ops as [|o ops IH]; intros pend s Hn Hf Hp.
  { destruct s; reflexivity. }
  inversion Hf as [|? ? Ho Hf']; subst.
  pose proof (step_gas_None s o Hn Ho) as Hn'.
  rewrite final_cons.
  destruct (is_read o) eqn:Er.
  { (* reads change nothing *)
    rewrite (read_noop s o Hn Er).
    assert (E : strip_aux pend (o :: ops) = strip_aux pend ops)
      by (destruct o; try discriminate; reflexivity).
    rewrite E. apply IH; assumption. }
  destruct o; try discriminate.
  - (* Set_ *)
    destruct pend as [p|]; cbn [strip_aux].
    + destruct Hp as [Hp Hs].
      rewrite (write_in_session s (Set_ k v) _ Hs eq_refl).
      rewrite (IH (Some (p ++ [Set_ k v])) (with_sess s (Some (sess_step (sess_of p) (Set_ k v))))).
      * destruct s; reflexivity.
      * destruct s; exact Hn.
      * exact Hf'.
      * split; [apply Forall_app; split; [exact Hp|repeat constructor]|].
        unfold sess_of. rewrite fold_left_app. destruct s; reflexivity.
    + cbn [pend_ok] in Hp.
      assert (Es : with_sess s None = s) by (rewrite <- Hp; apply with_sess_same).
      rewrite Es, final_cons.
      assert (Hs' : sess (step s (Set_ k v)).2 = None)
        by (cbn [step]; unfold do_set; rewrite Hp, Hn; exact Hp).
      rewrite (IH None (step s (Set_ k v)).2 Hn' Hf' Hs'), (with_sess_None _ Hs'). reflexivity.
  - (* Delete *)
    destruct pend as [p|]; cbn [strip_aux].
    + destruct Hp as [Hp Hs].
      rewrite (write_in_session s (Delete k) _ Hs eq_refl).
      rewrite (IH (Some (p ++ [Delete k])) (with_sess s (Some (sess_step (sess_of p) (Delete k))))).
      * destruct s; reflexivity.
      * destruct s; exact Hn.
      * exact Hf'.
      * split; [apply Forall_app; split; [exact Hp|repeat constructor]|].
        unfold sess_of. rewrite fold_left_app. destruct s; reflexivity.
    + cbn [pend_ok] in Hp.
      assert (Es : with_sess s None = s) by (rewrite <- Hp; apply with_sess_same).
      rewrite Es, final_cons.
      assert (Hs' : sess (step s (Delete k)).2 = None)
        by (cbn [step]; unfold do_delete; rewrite Hp, Hn; exact Hp).
      rewrite (IH None (step s (Delete k)).2 Hn' Hf' Hs'), (with_sess_None _ Hs'). reflexivity.
  - (* BeginTx *)
    cbn [strip_aux step snd].
    rewrite (IH (Some []) (with_sess s (Some oempty))).
    + destruct s; reflexivity.
    + destruct s; exact Hn.
    + exact Hf'.
    + split; [constructor|destruct s; reflexivity].
  - (* CommitTx *)
    destruct pend as [p|]; cbn [strip_aux].
    + destruct Hp as [Hp Hs]. cbn [step]. rewrite Hs. cbn [snd].
      rewrite final_cons. cbn [step snd].
      change (with_sess (with_sess s None) (Some oempty)) with (with_sess s (Some oempty)).
      rewrite final_app, (writes_in_session p s oempty Hp), final_cons.
      cbn [step with_sess sess snd]. fold (sess_of p).
      rewrite (IH None (with_sess (with_cache s (replay (sess_of p) (cache s))) None)).
      * destruct s; reflexivity.
      * destruct s; exact Hn.
      * exact Hf'.
      * destruct s; reflexivity.
    + cbn [pend_ok] in Hp. cbn [step]. rewrite Hp. cbn [snd].
      apply (IH None s Hn Hf' Hp).
  - (* DiscardTx *)
    cbn [strip_aux step snd].
    rewrite (IH None (with_sess s None)).
    + destruct s; reflexivity.
    + destruct s; exact Hn.
    + exact Hf'.
    + destruct s; reflexivity.
  - (* Write *)
    cbn [strip_aux]. rewrite final_cons. cbn [step snd].
    rewrite do_write_sess.
    apply IH; [exact Hn'|exact Hf'|].
    assert (Ew : sess (do_write s) = sess s).
    { unfold do_write. destruct (fold_left flush_step (okvs (cache s)) (tree s, wlog s)). reflexivity. }
    destruct pend as [p|]; cbn [pend_ok] in *; [destruct Hp as [Hp Hs]; split; [exact Hp|]|];
      cbn [step snd]; congruence.
  - (* BlockCommit *)
    destruct (reset_ignores_sess s BlockCommit None I) as [E1 E2].
    cbn [strip_aux]. rewrite final_cons, E1.
    rewrite (IH None _ Hn' Hf' E2).
    assert (Es : with_sess (step s BlockCommit).2 None = (step s BlockCommit).2)
      by (rewrite <- E2 at 1; apply with_sess_same).
    rewrite Es. reflexivity.
  - (* Fresh *)
    destruct (reset_ignores_sess s (Fresh limit) None I) as [E1 E2].
    cbn [strip_aux]. rewrite final_cons, E1.
    rewrite (IH None _ Hn' Hf' E2).
    assert (Es : with_sess (step s (Fresh limit)).2 None = (step s (Fresh limit)).2)
      by (rewrite <- E2 at 1; apply with_sess_same).
    rewrite Es. reflexivity.
  - (* Reopen *)
    destruct (reset_ignores_sess s Reopen None I) as [E1 E2].
    cbn [strip_aux]. rewrite final_cons, E1.
    rewrite (IH None _ Hn' Hf' E2).
    assert (Es : with_sess (step s Reopen).2 None = (step s Reopen).2)
      by (rewrite <- E2 at 1; apply with_sess_same).
    rewrite Es. reflexivity.
Qed.

Theorem strip_invisible ops s : gas s = None -> sess s = None -> no_gas_ops ops ->
  with_sess (final s ops) None = with_sess (final s (strip ops)) None.
Proof.
  intros Hn Hs Hf. unfold strip.
  rewrite (strip_sim ops None s Hn Hf Hs).
  assert (Es : with_sess s None = s) by (rewrite <- Hs; apply with_sess_same).
  rewrite Es. reflexivity.
Qed.

(* the consequence the root hash depends on: the same tree calls in the same order, the same
   block cache in the same first-write order, the same trees and versions *)
Corollary strip_same_tree_calls ops s : gas s = None -> sess s = None -> no_gas_ops ops ->
  let a := final s ops in let b := final s (strip ops) in
  wlog a = wlog b /\ okeys (cache a) = okeys (cache b) /\ ovals (cache a) = ovals (cache b) /\
  tree a = tree b /\ saved a = saved b /\ version a = version b.
Proof.
  intros Hn Hs Hf a b.
  pose proof (strip_invisible ops s Hn Hs Hf) as H. fold a b in H.
  assert (G : forall (T : Type) (f : state -> T), (forall x, f (with_sess x None) = f x) -> f a = f b) by
    (intros T f Hfx; rewrite <- (Hfx a), <- (Hfx b), H; reflexivity).
  repeat split.
  - apply (G _ wlog). reflexivity.
  - apply (G _ (fun x => okeys (cache x))). reflexivity.
  - apply (G _ (fun x => ovals (cache x))). reflexivity.
  - apply (G _ tree). reflexivity.
  - apply (G _ saved). reflexivity.
  - apply (G _ version). reflexivity.
Qed.

(* ---------- [tree_calls] (what the harness' tree twin is fed) is the ghost log [wlog] ---------- *)

Lemma flush_log_prefix kvs : forall t l, exists l', (fold_left flush_step kvs (t, l)).2 = l ++ l'.
Proof.
  induction kvs as [|[k v] kvs IH]; intros t l.
  - exists []. cbn. rewrite app_nil_r. reflexivity.
  - cbn [fold_left flush_step]. destruct (is_tomb v).
    + destruct (IH (delete k t) (l ++ [TRemove k])) as [l' E]. exists (TRemove k :: l').
      rewrite E, <- app_assoc. reflexivity.
    + destruct (IH (<[k:=v]> t) (l ++ [TSet k v])) as [l' E]. exists (TSet k v :: l').
      rewrite E, <- app_assoc. reflexivity.
Qed.

Lemma do_write_log_prefix s : exists l', wlog (do_write s) = wlog s ++ l'.
Proof.
  unfold do_write. destruct (flush_log_prefix (okvs (cache s)) (tree s) (wlog s)) as [l' E].
  destruct (fold_left flush_step (okvs (cache s)) (tree s, wlog s)) as [t l]. exists l'. exact E.
Qed.

Lemma step_log_prefix s o : exists l', wlog (step s o).2 = wlog s ++ l'.
Proof.
  assert (Z0 : exists l', wlog s = wlog s ++ l') by (exists []; rewrite app_nil_r; reflexivity).
  destruct o; cbn [step].
  - unfold do_get. destruct (match sess s with Some o => oget o k | None => None end); [exact Z0|].
    destruct (cache_get s k) as [[v|] g]; exact Z0.
  - unfold do_set. destruct (sess s); [exact Z0|]. destruct (gas s) as [g|]; [|exact Z0].
    destruct (consume_strict g 1 WRITEFLAT) as [[|] g1]; exact Z0.
  - unfold do_exists. destruct (match sess s with Some o => oget o k | None => None end); [exact Z0|].
    destruct (cache_exists s k) as [[|] g]; [|exact Z0].
    destruct (cache_get (with_gas s g) k) as [[v|] g']; exact Z0.
  - unfold do_delete. destruct (sess s); [exact Z0|]. destruct (gas s) as [g|]; [|exact Z0].
    destruct (consume_strict g 1 DELETEGAS) as [[|] g1]; exact Z0.
  - exact Z0.
  - destruct (sess s); exact Z0.
  - exact Z0.
  - apply do_write_log_prefix.
  - unfold do_commit. cbn [snd wlog]. destruct (do_write_log_prefix s) as [l' E].
    exists (l' ++ [TSave]). rewrite E, <- app_assoc. reflexivity.
  - exact Z0.
  - exact Z0.
  - exact Z0.
Qed.

Definition not_reopen (c : tcall) : bool := match c with CReopen => false | _ => true end.

Theorem tree_calls_are_wlog ops : forall s,
  map tcall_of (wlog (final s ops)) = map tcall_of (wlog s) ++ filter not_reopen (tree_calls s ops).
Proof.
  induction ops as [|o ops IH]; intros s.
  - cbn. rewrite app_nil_r. reflexivity.
  - rewrite final_cons, IH. cbn [tree_calls].
    destruct (step_log_prefix s o) as [l' E]. rewrite E.
    rewrite drop_app, map_app, <- app_assoc. f_equal.
    rewrite !filter_app. f_equal.
    + assert (F : forall l : list treeop, filter not_reopen (map tcall_of l) = map tcall_of l).
      { induction l as [|x l IHl]; [reflexivity|].
        cbn [map]. rewrite filter_cons_True by (destruct x; exact I). rewrite IHl. reflexivity. }
      symmetry. apply F.
    + destruct o; reflexivity.
Qed.

(* ---------- retained versions: which they are, and that a restart does not touch them ---------- *)

(* the rotation rule releases at most the two versions it names; every other version is retained *)
Lemma rotate_retains r lastv sv v :
  v <> lastv - recent r -> v <> lastv - recent r - cycles r * every r ->
  rotate r lastv sv !! v = sv !! v.
Proof.
  intros H1 H2. unfold rotate.
  destruct (0 <? lastv - recent r); [|reflexivity].
  repeat match goal with |- context [if ?b then _ else _] => destruct b end;
    rewrite ?lookup_delete_ne by (intros E; lia); reflexivity.
Qed.

(* a commit changes the saved versions only at the new version and the (at most two) released ones *)
Lemma commit_retains s v :
  v <> version s + 1 -> v <> version s - recent (rot s) ->
  v <> version s - recent (rot s) - cycles (rot s) * every (rot s) ->
  saved (step s BlockCommit).2 !! v = saved s !! v.
Proof.
  intros H0 H1 H2. cbn [step]. unfold do_commit. cbn [snd saved].
  assert (E : forall x, saved (do_write x) = saved x /\ version (do_write x) = version x /\ rot (do_write x) = rot x).
  { intros x. unfold do_write. destruct (fold_left flush_step (okvs (cache x)) (tree x, wlog x)). auto. }
  destruct (E s) as (Es & Ev & Er). rewrite Es, Ev, Er.
  rewrite rotate_retains by assumption. apply lookup_insert_ne. lia.
Qed.

(* only a block commit changes the saved versions *)
Lemma saved_only_commit s o : o <> BlockCommit -> saved (step s o).2 = saved s.
Proof.
  intros Ho. destruct o; try congruence; cbn [step].
  - unfold do_get. destruct (match sess s with Some o => oget o k | None => None end); [reflexivity|].
    destruct (cache_get s k) as [[v|] g]; reflexivity.
  - unfold do_set. destruct (sess s); [reflexivity|]. destruct (gas s) as [g|]; [|reflexivity].
    destruct (consume_strict g 1 WRITEFLAT) as [[|] g1]; reflexivity.
  - unfold do_exists. destruct (match sess s with Some o => oget o k | None => None end); [reflexivity|].
    destruct (cache_exists s k) as [[|] g]; [|reflexivity].
    destruct (cache_get (with_gas s g) k) as [[v|] g']; reflexivity.
  - unfold do_delete. destruct (sess s); [reflexivity|]. destruct (gas s) as [g|]; [|reflexivity].
    destruct (consume_strict g 1 DELETEGAS) as [[|] g1]; reflexivity.
  - reflexivity.
  - destruct (sess s); reflexivity.
  - reflexivity.
  - unfold do_write. destruct (fold_left flush_step (okvs (cache s)) (tree s, wlog s)). reflexivity.
  - reflexivity.
  - reflexivity.
  - reflexivity.
Qed.

(* every versioned read — of a retained version or a released one — answers the same before and
   after any run without a block commit, in particular before and after a reopen *)
Theorem versioned_reads_stable ops : forall s v k, Forall (fun o => o <> BlockCommit) ops ->
  (step (final s ops) (GetVersioned v k)).1 = (step s (GetVersioned v k)).1 /\
  version (final s ops) = version s.
Proof.
  induction ops as [|o ops IH]; intros s v k Hf; [split; reflexivity|].
  inversion Hf as [|? ? Ho Hf']; subst. rewrite final_cons.
  destruct (IH (step s o).2 v k Hf') as [E1 E2]. rewrite E1, E2. cbn [step fst].
  rewrite (saved_only_commit s o Ho). split; [reflexivity|].
  destruct o; try congruence; cbn [step].
  - unfold do_get. destruct (match sess s with Some o => oget o k0 | None => None end); [reflexivity|].
    destruct (cache_get s k0) as [[v0|] g]; reflexivity.
  - unfold do_set. destruct (sess s); [reflexivity|]. destruct (gas s) as [g|]; [|reflexivity].
    destruct (consume_strict g 1 WRITEFLAT) as [[|] g1]; reflexivity.
  - unfold do_exists. destruct (match sess s with Some o => oget o k0 | None => None end); [reflexivity|].
    destruct (cache_exists s k0) as [[|] g]; [|reflexivity].
    destruct (cache_get (with_gas s g) k0) as [[v0|] g']; reflexivity.
  - unfold do_delete. destruct (sess s); [reflexivity|]. destruct (gas s) as [g|]; [|reflexivity].
    destruct (consume_strict g 1 DELETEGAS) as [[|] g1]; reflexivity.
  - reflexivity.
  - destruct (sess s); reflexivity.
  - reflexivity.
  - unfold do_write. destruct (fold_left flush_step (okvs (cache s)) (tree s, wlog s)). reflexivity.
  - reflexivity.
  - reflexivity.
  - reflexivity.
Qed.

Corollary reopen_keeps_versions s v k :
  (step (step s Reopen).2 (GetVersioned v k)).1 = (step s (GetVersioned v k)).1 /\
  saved (step s Reopen).2 = saved s /\ version (step s Reopen).2 = version s /\
  tree (step s Reopen).2 = default ∅ (saved s !! version s).
Proof. repeat split; reflexivity. Qed.

(* ---------- a refused write has no effect ---------- *)
Lemma refused_set_no_effect s k v s' : step s (Set_ k v) = (OErr, s') -> s' = s.
Proof.
  cbn [step]. unfold do_set. destruct (sess s); [discriminate|].
  destruct (gas s) as [g|]; [|discriminate].
  destruct (consume_strict g 1 WRITEFLAT) as [[|] g1]; [discriminate|].
  intros E. inversion E. reflexivity.
Qed.

(* ... in particular not on what the next block commit persists, nor on its tree calls *)
Corollary refused_set_not_committed s k v : (step s (Set_ k v)).1 = OErr ->
  step (step s (Set_ k v)).2 BlockCommit = step s BlockCommit.
Proof.
  intros H. destruct (step s (Set_ k v)) as [r s'] eqn:E. cbn [fst] in H. subst r.
  rewrite (refused_set_no_effect s k v s' E). reflexivity.
Qed.

(* an accepted write outside a session is in the block cache, a refused one is not: the block
   cache holds exactly the writes that returned success *)
Lemma accepted_set_in_cache s k v : sess s = None -> (step s (Set_ k v)).1 = OUnit ->
  oget (cache (step s (Set_ k v)).2) k = Some v.
Proof.
  cbn [step]. unfold do_set. intros ->. destruct (gas s) as [g|].
  - destruct (consume_strict g 1 WRITEFLAT) as [[|] g1]; [|discriminate].
    intros _. cbn. apply lookup_insert.
  - intros _. cbn. apply lookup_insert.
Qed.
