From stdpp Require Import gmap list sorting.
From Coq Require Import ZArith Lia.
From OL Require Import theories.Nondet.
Local Open Scope Z_scope.

Global Instance Zle_total : Total Z.le.
Proof. intros x y. lia. Qed.
Global Instance Zle_antisym : AntiSymm (=) Z.le.
Proof. intros x y ??. lia. Qed.
Global Instance Zle_trans : Transitive Z.le.
Proof. intros x y z ??. lia. Qed.

(* collect-then-sort: the sorted slice does not depend on the iteration order *)
Theorem collect_sort_order_independent (l l' : list Z) : l ≡ₚ l' -> collect_sort l = collect_sort l'.
Proof.
  intros Hp. unfold collect_sort.
  apply (Sorted_unique Z.le); try apply Sorted_merge_sort; try apply _.
  rewrite !merge_sort_Permutation. exact Hp.
Qed.

Lemma range_keys {V} (m : gmap Z V) l l' : range_order m l -> range_order m l' ->
  collect_sort l.*1 = collect_sort l'.*1.
Proof.
  unfold range_order. intros H1 H2. apply collect_sort_order_independent.
  rewrite H1, H2. reflexivity.
Qed.

(* building a map from the entries of a map: independent of the order *)
Theorem build_map_order_independent {V W} (f : Z -> V -> W) (m : gmap Z V) l l' :
  range_order m l -> range_order m l' -> build_map f l = build_map f l'.
Proof.
  unfold range_order, build_map. intros H1 H2.
  apply list_to_map_proper.
  - rewrite <- list_fmap_compose.
    change (NoDup (fst <$> l)).
    rewrite H1. apply NoDup_fst_map_to_list.
  - apply fmap_Permutation. rewrite H1, H2. reflexivity.
Qed.

(* commutative accumulation *)
Theorem accumulate_order_independent {V} (f : Z -> V -> Z) (m : gmap Z V) l l' :
  range_order m l -> range_order m l' -> accumulate f l = accumulate f l'.
Proof.
  unfold range_order, accumulate. intros H1 H2.
  apply (foldr_permutation (=) (fun kv acc => f kv.1 kv.2 + acc) 0).
  - intros j1 a1 j2 a2 b _ _ _. lia.
  - rewrite H1, H2. reflexivity.
Qed.

(* find the unique matching entry *)
Theorem find_unique_order_independent {V} (p : Z -> V -> bool) (m : gmap Z V) l l' :
  range_order m l -> range_order m l' ->
  (forall k1 v1 k2 v2, m !! k1 = Some v1 -> m !! k2 = Some v2 -> p k1 v1 = true -> p k2 v2 = true -> k1 = k2) ->
  find_unique p l = find_unique p l'.
Proof.
  unfold range_order, find_unique. intros H1 H2 Huniq.
  assert (forall l0, l0 ≡ₚ map_to_list m ->
            forall kv, (list_find (fun kv => p kv.1 kv.2 = true) l0 ≫= (fun r => Some r.2)) = Some kv
                       <-> (kv ∈ map_to_list m /\ p kv.1 kv.2 = true)) as Hchar.
  { intros l0 Hl0 kv. split.
    - destruct (list_find _ l0) as [[i x]|] eqn:E; [|discriminate]. simpl. intros [= <-].
      apply list_find_Some in E as (Hi & Hp & _). split; [|exact Hp].
      rewrite <- Hl0. eapply elem_of_list_lookup_2; exact Hi.
    - intros [Hin Hp].
      assert (kv ∈ l0) as Hin0 by (rewrite Hl0; exact Hin).
      destruct (list_find (fun kv => p kv.1 kv.2 = true) l0) as [[i x]|] eqn:E.
      + simpl. f_equal. apply list_find_Some in E as (Hi & Hpx & _).
        assert (x ∈ map_to_list m) as Hx.
        { rewrite <- Hl0. eapply elem_of_list_lookup_2; exact Hi. }
        destruct x as [k1 v1], kv as [k2 v2]. simpl in *.
        apply elem_of_map_to_list in Hx. apply elem_of_map_to_list in Hin.
        pose proof (Huniq _ _ _ _ Hx Hin Hpx Hp) as ->. congruence.
      + exfalso. apply list_find_None in E. rewrite Forall_forall in E. exact (E kv Hin0 Hp). }
  destruct (list_find (fun kv => p kv.1 kv.2 = true) l ≫= (fun r => Some r.2)) as [kv|] eqn:E1.
  - symmetry. apply (Hchar l' H2). apply (Hchar l H1). exact E1.
  - destruct (list_find (fun kv => p kv.1 kv.2 = true) l' ≫= (fun r => Some r.2)) as [kv'|] eqn:E2;
      [|reflexivity].
    apply (Hchar l' H2) in E2. apply (Hchar l H1) in E2. congruence.
Qed.

(* the effectful idiom is genuinely order dependent: a body that appends to a log *)
Theorem effectful_body_order_dependent : exists (m : gmap Z Z) l l',
  range_order m l /\ range_order m l' /\ l.*1 <> l'.*1.
Proof.
  exists (<[1:=10]> (<[2:=20]> ∅)), [(1, 10); (2, 20)], [(2, 20); (1, 10)].
  assert (map_to_list (<[1:=10]> (<[2:=20]> (∅ : gmap Z Z))) ≡ₚ [(1, 10); (2, 20)]) as E.
  { rewrite map_to_list_insert by (vm_compute; reflexivity).
    rewrite map_to_list_insert by (vm_compute; reflexivity).
    rewrite map_to_list_empty. reflexivity. }
  unfold range_order. repeat split.
  - symmetry. exact E.
  - rewrite E. apply Permutation_swap.
  - discriminate.
Qed.
