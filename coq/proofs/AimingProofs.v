From stdpp Require Import gmap list.
From Coq Require Import ZArith String Lia.
From OL Require Import theories.Store theories.Abci theories.Aiming.

(* the stores aimed so far in this hook really point at the deliver state *)
Definition ptr_ok (aimed : list string) (f : string -> target) : Prop :=
  forall i, existsb (String.eqb i) aimed = true -> f i = Deliver.

Lemma ptr_ok_cons aimed f id : ptr_ok aimed f -> ptr_ok (id :: aimed) (set_ptr f id Deliver).
Proof.
  intros H i Hi. unfold set_ptr. destruct (String.eqb i id) eqn:E; [reflexivity|].
  apply H. simpl in Hi. rewrite E in Hi. exact Hi.
Qed.

Lemma set_ptr_same f id t : set_ptr f id t id = t.
Proof. unfold set_ptr. rewrite String.eqb_refl. reflexivity. Qed.

(* inside a well-aimed hook the check state and the pointers the hook never looks at are
   irrelevant: two worlds that agree on the deliver state run the hook identically on it *)
Lemma run_hook_aimed us : forall aimed w1 w2,
  aimed_from aimed us = true -> dl w1 = dl w2 -> ptr_ok aimed (ptr w1) -> ptr_ok aimed (ptr w2) ->
  (run_hook w1 us).1 = (run_hook w2 us).1 /\ dl (run_hook w1 us).2 = dl (run_hook w2 us).2 /\
  ck (run_hook w1 us).2 = ck w1 /\ ck (run_hook w2 us).2 = ck w2.
Proof.
  induction us as [|[id reaim p] us IH]; intros aimed w1 w2 Ha Hd H1 H2; [simpl; auto|].
  cbn [run_hook run_use]. destruct reaim.
  - cbn [aimed_from] in Ha.
    rewrite !set_ptr_same. rewrite Hd.
    destruct (exec p (dl w2)) as [r d'].
    specialize (IH (id :: aimed) {| dl := d'; ck := ck w1; ptr := set_ptr (ptr w1) id Deliver |}
                   {| dl := d'; ck := ck w2; ptr := set_ptr (ptr w2) id Deliver |} Ha eq_refl
                   (ptr_ok_cons _ _ _ H1) (ptr_ok_cons _ _ _ H2)).
    destruct (run_hook {| dl := d'; ck := ck w1; ptr := set_ptr (ptr w1) id Deliver |} us) as [rs1 w1'].
    destruct (run_hook {| dl := d'; ck := ck w2; ptr := set_ptr (ptr w2) id Deliver |} us) as [rs2 w2'].
    cbn [fst snd dl ck] in *. destruct IH as (E1 & E2 & E3 & E4). subst. auto.
  - cbn [aimed_from] in Ha. apply andb_true_iff in Ha as [Hin Ha].
    rewrite (H1 id Hin), (H2 id Hin), Hd.
    destruct (exec p (dl w2)) as [r d'].
    specialize (IH aimed {| dl := d'; ck := ck w1; ptr := ptr w1 |}
                   {| dl := d'; ck := ck w2; ptr := ptr w2 |} Ha eq_refl H1 H2).
    destruct (run_hook {| dl := d'; ck := ck w1; ptr := ptr w1 |} us) as [rs1 w1'].
    destruct (run_hook {| dl := d'; ck := ck w2; ptr := ptr w2 |} us) as [rs2 w2'].
    cbn [fst snd dl ck] in *. destruct IH as (E1 & E2 & E3 & E4). subst. auto.
Qed.

Lemma ptr_ok_nil f : ptr_ok [] f.
Proof. intros i Hi. discriminate. Qed.

(* interleaved CheckTx calls — any number, any programs, at any call boundaries — change neither
   the results of the consensus hooks nor the deliver state, when every hook is well aimed *)
Theorem checks_invisible evs : forall w1 w2, well_aimed evs = true -> dl w1 = dl w2 ->
  (run_events w1 evs).1 = (run_events w2 (strip_checks evs)).1 /\
  dl (run_events w1 evs).2 = dl (run_events w2 (strip_checks evs)).2.
Proof.
  induction evs as [|[us|p] evs IH]; intros w1 w2 Hw Hd; [simpl; auto|..].
  - cbn [well_aimed forallb] in Hw. apply andb_true_iff in Hw as [Hh Hw].
    cbn [strip_checks List.filter is_hook run_events].
    pose proof (run_hook_aimed us [] w1 w2 Hh Hd (ptr_ok_nil _) (ptr_ok_nil _)) as (E1 & E2 & _).
    destruct (run_hook w1 us) as [r1 w1']. destruct (run_hook w2 us) as [r2 w2'].
    cbn [fst snd] in *. specialize (IH w1' w2' Hw E2).
    fold (strip_checks evs) in *.
    destruct (run_events w1' evs) as [rs1 w1'']. destruct (run_events w2' (strip_checks evs)) as [rs2 w2''].
    cbn [fst snd] in *. destruct IH as [I1 I2]. subst. auto.
  - cbn [well_aimed forallb] in Hw. cbn [strip_checks List.filter is_hook run_events].
    fold (strip_checks evs). apply IH; [exact Hw|exact Hd].
Qed.
