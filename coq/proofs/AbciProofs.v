From stdpp Require Import gmap list.
From Coq Require Import ZArith Lia.
From OL Require Import theories.Store theories.Abci proofs.StoreProofs.
Local Open Scope Z_scope.

(* inside an open session a handler program can change nothing but the session overlay and the
   gas counter *)
Definition only_sess_gas (s s' : state) : Prop :=
  exists o g, s' = with_gas (with_sess s (Some o)) g.

Lemma only_sess_gas_trans s1 s2 s3 :
  only_sess_gas s1 s2 -> only_sess_gas s2 s3 -> only_sess_gas s1 s3.
Proof. intros (o & g & ->) (o' & g' & ->). exists o', g'. reflexivity. Qed.

Lemma with_gas_id s : with_gas s (gas s) = s.
Proof. destruct s; reflexivity. Qed.

Lemma do_get_in_session s k o : sess s = Some o -> only_sess_gas s (do_get s k).2.
Proof.
  intros Hs. unfold do_get. rewrite Hs.
  destruct (oget o k); simpl.
  - exists o, (gas s). destruct s; simpl in *; subst; reflexivity.
  - destruct (cache_get s k) as [[v|] g']; simpl; exists o, g';
      destruct s; simpl in *; subst; reflexivity.
Qed.

Lemma do_exists_in_session s k o : sess s = Some o -> only_sess_gas s (do_exists s k).2.
Proof.
  intros Hs. unfold do_exists. rewrite Hs.
  destruct (oget o k); simpl.
  - exists o, (gas s). destruct s; simpl in *; subst; reflexivity.
  - destruct (cache_exists s k) as [[|] g']; simpl.
    + destruct (cache_get (with_gas s g') k) as [[v|] g'']; simpl; exists o, g'';
        destruct s; simpl in *; subst; reflexivity.
    + exists o, g'. destruct s; simpl in *; subst; reflexivity.
Qed.

Lemma do_set_in_session s k v o : sess s = Some o ->
  only_sess_gas s (do_set s k v).2 /\ (do_set s k v).1 = OUnit.
Proof.
  intros Hs. unfold do_set. rewrite Hs. simpl. split; [|reflexivity].
  exists (oset o k v), (gas s). destruct s; reflexivity.
Qed.

Lemma do_delete_in_session s k o : sess s = Some o -> only_sess_gas s (do_delete s k).2.
Proof.
  intros Hs. unfold do_delete. rewrite Hs. simpl.
  exists (odel o k), (gas s). destruct s; reflexivity.
Qed.

Lemma only_sess_gas_sess s s' : only_sess_gas s s' -> exists o, sess s' = Some o.
Proof. intros (o & g & ->). exists o. reflexivity. Qed.

Lemma exec_in_session p : forall s o, sess s = Some o -> only_sess_gas s (exec p s).2.
Proof.
  induction p as [ok|k f IH|k f IH|k v f IH|k p IH]; intros s o Hs; cbn [exec].
  - exists o, (gas s). destruct s; simpl in *; subst; reflexivity.
  - pose proof (do_get_in_session s k o Hs) as H1.
    destruct (do_get s k) as [r s1]. cbn [snd] in H1.
    destruct (only_sess_gas_sess _ _ H1) as [o1 Ho1].
    eapply only_sess_gas_trans; [exact H1|]. apply (IH r s1 o1 Ho1).
  - pose proof (do_exists_in_session s k o Hs) as H1.
    destruct (do_exists s k) as [b s1]. cbn [snd] in H1.
    destruct (only_sess_gas_sess _ _ H1) as [o1 Ho1].
    eapply only_sess_gas_trans; [exact H1|]. apply (IH b s1 o1 Ho1).
  - pose proof (do_set_in_session s k v o Hs) as [H1 _].
    destruct (do_set s k v) as [r s1]. cbn [snd] in H1.
    destruct (only_sess_gas_sess _ _ H1) as [o1 Ho1].
    eapply only_sess_gas_trans; [exact H1|]. apply (IH _ s1 o1 Ho1).
  - pose proof (do_delete_in_session s k o Hs) as H1.
    destruct (do_delete s k) as [r s1]. cbn [snd] in H1.
    destruct (only_sess_gas_sess _ _ H1) as [o1 Ho1].
    eapply only_sess_gas_trans; [exact H1|]. apply (IH s1 o1 Ho1).
Qed.

(* a delivered transaction that fails changes nothing but the gas counter — for EVERY handler
   and fee program, every state, every failure point *)
Theorem failed_deliver_is_noop s h fee : sess s = None ->
  (deliver s h fee).1 = false ->
  exists g, (deliver s h fee).2 = with_gas s g.
Proof.
  intros Hs Hfail. unfold deliver in *.
  pose proof (exec_in_session h (with_sess s (Some oempty)) oempty eq_refl) as H1.
  destruct (exec h (with_sess s (Some oempty))) as [ok s1]. cbn [snd] in H1.
  destruct (only_sess_gas_sess _ _ H1) as [o1 Ho1].
  pose proof (exec_in_session (fee ok) s1 o1 Ho1) as H2.
  destruct (exec (fee ok) s1) as [feeOk s2]. cbn [snd] in H2.
  pose proof (only_sess_gas_trans _ _ _ H1 H2) as (o & g & ->).
  destruct (ok && feeOk); [discriminate|]. cbn [snd].
  exists g. destruct s; simpl in *; subst; reflexivity.
Qed.

(* a delivered transaction never leaves a session open and never touches the tree, the saved
   versions or the tree-call log: those change only at block commit *)
Theorem deliver_frame s h fee : sess s = None ->
  let s' := (deliver s h fee).2 in
  sess s' = None /\ tree s' = tree s /\ saved s' = saved s /\ version s' = version s /\
  wlog s' = wlog s.
Proof.
  intros Hs. unfold deliver.
  pose proof (exec_in_session h (with_sess s (Some oempty)) oempty eq_refl) as H1.
  destruct (exec h (with_sess s (Some oempty))) as [ok s1]. cbn [snd] in H1.
  destruct (only_sess_gas_sess _ _ H1) as [o1 Ho1].
  pose proof (exec_in_session (fee ok) s1 o1 Ho1) as H2.
  destruct (exec (fee ok) s1) as [feeOk s2]. cbn [snd] in H2.
  pose proof (only_sess_gas_trans _ _ _ H1 H2) as (o & g & ->).
  destruct (ok && feeOk); simpl; auto.
Qed.

(* gas-free semantics (C09_gas_erasure relates it to metered runs below the limit): a failed
   transaction leaves the state EXACTLY as it was *)
Lemma exec_gas_None p : forall s, gas s = None -> gas (exec p s).2 = None.
Proof.
  induction p as [ok|k f IH|k f IH|k v f IH|k p IH]; intros s Hn; cbn [exec].
  - exact Hn.
  - pose proof (read_noop s (Get k) Hn eq_refl) as E. cbn [step] in E.
    destruct (do_get s k) as [r s1]. cbn [snd] in E. subst s1. apply IH; exact Hn.
  - pose proof (read_noop s (Exists_ k) Hn eq_refl) as E. cbn [step] in E.
    destruct (do_exists s k) as [b s1]. cbn [snd] in E. subst s1. apply IH; exact Hn.
  - pose proof (step_gas_None s (Set_ k v) Hn ltac:(intros l; discriminate)) as E.
    cbn [step] in E. destruct (do_set s k v) as [r s1]. cbn [snd] in E. apply IH; exact E.
  - pose proof (step_gas_None s (Delete k) Hn ltac:(intros l; discriminate)) as E.
    cbn [step] in E. destruct (do_delete s k) as [r s1]. cbn [snd] in E. apply IH; exact E.
Qed.

Lemma deliver_gas_None s h fee : gas s = None -> gas (deliver s h fee).2 = None.
Proof.
  intros Hn. unfold deliver.
  pose proof (exec_gas_None h (with_sess s (Some oempty)) Hn) as H1.
  destruct (exec h (with_sess s (Some oempty))) as [ok s1]. cbn [snd] in H1.
  pose proof (exec_gas_None (fee ok) s1 H1) as H2.
  destruct (exec (fee ok) s1) as [feeOk s2]. cbn [snd] in H2.
  destruct (ok && feeOk); cbn [snd]; [destruct (sess s2)|]; exact H2.
Qed.

Lemma failed_deliver_exact s h fee : sess s = None -> gas s = None ->
  (deliver s h fee).1 = false -> (deliver s h fee).2 = s.
Proof.
  intros Hs Hn Hf.
  destruct (failed_deliver_is_noop s h fee Hs Hf) as [g Hg].
  pose proof (deliver_gas_None s h fee Hn) as Hn'.
  rewrite Hg in Hn'. simpl in Hn'. subst g. rewrite Hg.
  destruct s; simpl in *; subst; reflexivity.
Qed.

(* removing every failed transaction from a block: same results for the rest, same final state
   (hence same commit and root hash) *)
Theorem block_without_failed txs : forall s, sess s = None -> gas s = None ->
  let '(res, s') := run_block s txs in
  run_block s (drop_failed txs res) = (only_ok res, s').
Proof.
  induction txs as [|[h fee] txs IH]; intros s Hs Hn; [reflexivity|].
  cbn [run_block].
  pose proof (failed_deliver_exact s h fee Hs Hn) as Hex.
  pose proof (deliver_frame s h fee Hs) as (Hs1 & _).
  pose proof (deliver_gas_None s h fee Hn) as Hn1.
  destruct (deliver s h fee) as [r s1] eqn:Ed. cbn [fst snd] in *.
  specialize (IH s1 Hs1 Hn1).
  destruct (run_block s1 txs) as [rs s2]. cbn [drop_failed].
  destruct r.
  - cbn [run_block only_ok]. rewrite Ed, IH. reflexivity.
  - rewrite (Hex eq_refl) in IH. cbn [only_ok]. exact IH.
Qed.

(* ---- the validating deliverer ---- *)
Theorem failed_deliver_v_is_noop s v h fee : sess s = None ->
  (deliver_v s v h fee).1 = false ->
  exists g, (deliver_v s v h fee).2 = with_gas s g.
Proof.
  intros Hs Hfail. unfold deliver_v in *.
  pose proof (exec_in_session v (with_sess s (Some oempty)) oempty eq_refl) as H0.
  destruct (exec v (with_sess s (Some oempty))) as [vok s1]. cbn [snd] in H0.
  destruct (only_sess_gas_sess _ _ H0) as [o0 Ho0].
  destruct vok.
  - pose proof (exec_in_session h s1 o0 Ho0) as H1.
    destruct (exec h s1) as [ok s2]. cbn [snd] in H1.
    destruct (only_sess_gas_sess _ _ H1) as [o1 Ho1].
    pose proof (exec_in_session (fee ok) s2 o1 Ho1) as H2.
    destruct (exec (fee ok) s2) as [feeOk s3]. cbn [snd] in H2.
    pose proof (only_sess_gas_trans _ _ _ H0 (only_sess_gas_trans _ _ _ H1 H2)) as (o & g & ->).
    destruct (ok && feeOk); [discriminate|]. cbn [snd].
    exists g. destruct s; simpl in *; subst; reflexivity.
  - destruct H0 as (o & g & ->). cbn [snd]. exists g.
    destruct s; simpl in *; subst; reflexivity.
Qed.

Theorem deliver_v_frame s v h fee : sess s = None ->
  let s' := (deliver_v s v h fee).2 in
  sess s' = None /\ tree s' = tree s /\ saved s' = saved s /\ version s' = version s /\
  wlog s' = wlog s.
Proof.
  intros Hs. unfold deliver_v.
  pose proof (exec_in_session v (with_sess s (Some oempty)) oempty eq_refl) as H0.
  destruct (exec v (with_sess s (Some oempty))) as [vok s1]. cbn [snd] in H0.
  destruct (only_sess_gas_sess _ _ H0) as [o0 Ho0].
  destruct vok.
  - pose proof (exec_in_session h s1 o0 Ho0) as H1.
    destruct (exec h s1) as [ok s2]. cbn [snd] in H1.
    destruct (only_sess_gas_sess _ _ H1) as [o1 Ho1].
    pose proof (exec_in_session (fee ok) s2 o1 Ho1) as H2.
    destruct (exec (fee ok) s2) as [feeOk s3]. cbn [snd] in H2.
    pose proof (only_sess_gas_trans _ _ _ H0 (only_sess_gas_trans _ _ _ H1 H2)) as (o & g & ->).
    destruct (ok && feeOk); simpl; auto.
  - destruct H0 as (o & g & ->). simpl. auto.
Qed.

Lemma deliver_v_gas_None s v h fee : gas s = None -> gas (deliver_v s v h fee).2 = None.
Proof.
  intros Hn. unfold deliver_v.
  pose proof (exec_gas_None v (with_sess s (Some oempty)) Hn) as H0.
  destruct (exec v (with_sess s (Some oempty))) as [vok s1]. cbn [snd] in H0.
  destruct vok; [|exact H0].
  pose proof (exec_gas_None h s1 H0) as H1.
  destruct (exec h s1) as [ok s2]. cbn [snd] in H1.
  pose proof (exec_gas_None (fee ok) s2 H1) as H2.
  destruct (exec (fee ok) s2) as [feeOk s3]. cbn [snd] in H2.
  destruct (ok && feeOk); cbn [snd]; [destruct (sess s3)|]; exact H2.
Qed.

Lemma failed_deliver_v_exact s v h fee : sess s = None -> gas s = None ->
  (deliver_v s v h fee).1 = false -> (deliver_v s v h fee).2 = s.
Proof.
  intros Hs Hn Hf.
  destruct (failed_deliver_v_is_noop s v h fee Hs Hf) as [g Hg].
  pose proof (deliver_v_gas_None s v h fee Hn) as Hn'.
  rewrite Hg in Hn'. simpl in Hn'. subst g. rewrite Hg.
  destruct s; simpl in *; subst; reflexivity.
Qed.

Theorem block_v_without_failed txs : forall s, sess s = None -> gas s = None ->
  let '(res, s') := run_block_v s txs in
  run_block_v s (drop_failed_v txs res) = (only_ok res, s').
Proof.
  induction txs as [|[[v h] fee] txs IH]; intros s Hs Hn; [reflexivity|].
  cbn [run_block_v].
  pose proof (failed_deliver_v_exact s v h fee Hs Hn) as Hex.
  pose proof (deliver_v_frame s v h fee Hs) as (Hs1 & _).
  pose proof (deliver_v_gas_None s v h fee Hn) as Hn1.
  destruct (deliver_v s v h fee) as [r s1] eqn:Ed. cbn [fst snd] in *.
  specialize (IH s1 Hs1 Hn1).
  destruct (run_block_v s1 txs) as [rs s2]. cbn [drop_failed_v].
  destruct r.
  - cbn [run_block_v only_ok]. rewrite Ed, IH. reflexivity.
  - rewrite (Hex eq_refl) in IH. cbn [only_ok]. exact IH.
Qed.

(* a transaction that fails Validate is never processed: the handler and fee programs are
   irrelevant to the outcome *)
Theorem invalid_never_processed s v h fee h' fee' : (exec v (with_sess s (Some oempty))).1 = false ->
  deliver_v s v h fee = deliver_v s v h' fee'.
Proof.
  intros Hv. unfold deliver_v. destruct (exec v (with_sess s (Some oempty))) as [vok s1].
  cbn [fst] in Hv. subst vok. reflexivity.
Qed.
