From stdpp Require Import gmap list.
From Coq Require Import ZArith Lia.
From OL Require Import theories.Store theories.Abci theories.Restart proofs.StoreProofs
  proofs.AbciProofs.
Local Open Scope Z_scope.

(* ---- LastVersion is a ghost: nothing reads it ---- *)
Lemma do_get_lv s lv k : do_get (with_lv s lv) k = ((do_get s k).1, with_lv (do_get s k).2 lv).
Proof.
  unfold do_get, cache_get. destruct s as [se ca ga tr sa ve la ro wl]; simpl.
  destruct (match se with Some o => oget o k | None => None end); [reflexivity|].
  destruct ga as [g|]; simpl.
  - destruct (consume_strict g 1 READFLAT) as [[|] g1]; simpl.
    + destruct (oget ca k); reflexivity.
    + reflexivity.
  - destruct (oget ca k); reflexivity.
Qed.

Lemma do_exists_lv s lv k :
  do_exists (with_lv s lv) k = ((do_exists s k).1, with_lv (do_exists s k).2 lv).
Proof.
  unfold do_exists, cache_exists, cache_get. destruct s as [se ca ga tr sa ve la ro wl]; simpl.
  destruct (match se with Some o => oget o k | None => None end); [reflexivity|].
  destruct ga as [g|]; simpl.
  - destruct (consume_strict g 1 CHECKEXIST) as [[|] g1]; simpl; [|reflexivity].
    destruct (bool_decide (is_Some (oget ca k))); simpl; [|reflexivity].
    destruct (consume_strict g1 1 READFLAT) as [[|] g2]; simpl.
    + destruct (oget ca k); reflexivity.
    + reflexivity.
  - destruct (bool_decide (is_Some (oget ca k))); simpl; [|reflexivity].
    destruct (oget ca k); reflexivity.
Qed.

Lemma do_set_lv s lv k v :
  do_set (with_lv s lv) k v = ((do_set s k v).1, with_lv (do_set s k v).2 lv).
Proof.
  unfold do_set. destruct s as [se ca ga tr sa ve la ro wl]; simpl.
  destruct se; [reflexivity|]. destruct ga as [g|]; [|reflexivity].
  destruct (consume_strict g 1 WRITEFLAT) as [[|] g1]; reflexivity.
Qed.

Lemma do_delete_lv s lv k :
  do_delete (with_lv s lv) k = ((do_delete s k).1, with_lv (do_delete s k).2 lv).
Proof.
  unfold do_delete. destruct s as [se ca ga tr sa ve la ro wl]; simpl.
  destruct se; [reflexivity|]. destruct ga as [g|]; [|reflexivity].
  destruct (consume_strict g 1 DELETEGAS) as [[|] g1]; reflexivity.
Qed.

Lemma exec_lv p : forall s lv, exec p (with_lv s lv) = ((exec p s).1, with_lv (exec p s).2 lv).
Proof.
  induction p as [ok|k f IH|k f IH|k v f IH|k p IH]; intros s lv; cbn [exec].
  - reflexivity.
  - rewrite do_get_lv. destruct (do_get s k) as [r s1]. cbn [fst snd]. apply IH.
  - rewrite do_exists_lv. destruct (do_exists s k) as [r s1]. cbn [fst snd]. apply IH.
  - rewrite do_set_lv. destruct (do_set s k v) as [r s1]. cbn [fst snd]. apply IH.
  - rewrite do_delete_lv. destruct (do_delete s k) as [r s1]. cbn [fst snd]. apply IH.
Qed.

Lemma with_sess_lv s lv o : with_sess (with_lv s lv) o = with_lv (with_sess s o) lv.
Proof. reflexivity. Qed.
Lemma with_cache_lv s lv c : with_cache (with_lv s lv) c = with_lv (with_cache s c) lv.
Proof. reflexivity. Qed.

Lemma deliver_lv s lv h fee :
  deliver (with_lv s lv) h fee = ((deliver s h fee).1, with_lv (deliver s h fee).2 lv).
Proof.
  unfold deliver. rewrite with_sess_lv, exec_lv.
  destruct (exec h (with_sess s (Some oempty))) as [ok s1]. cbn [fst snd].
  rewrite exec_lv. destruct (exec (fee ok) s1) as [feeOk s2]. cbn [fst snd].
  destruct (ok && feeOk); cbn [fst snd]; [|reflexivity].
  destruct s2 as [se ca ga tr sa ve la ro wl]; simpl. destruct se; reflexivity.
Qed.

Lemma run_block_lv txs : forall s lv,
  run_block (with_lv s lv) txs = ((run_block s txs).1, with_lv (run_block s txs).2 lv).
Proof.
  induction txs as [|[h fee] txs IH]; intros s lv; cbn [run_block]; [reflexivity|].
  rewrite deliver_lv. destruct (deliver s h fee) as [r s1]. cbn [fst snd].
  rewrite IH. destruct (run_block s1 txs) as [rs s2]. reflexivity.
Qed.

Lemma do_write_lv s lv : do_write (with_lv s lv) = with_lv (do_write s) lv.
Proof.
  unfold do_write. destruct s as [se ca ga tr sa ve la ro wl]; simpl.
  destruct (fold_left flush_step (okvs ca) (tr, wl)); reflexivity.
Qed.

Lemma do_commit_lv s lv : do_commit (with_lv s lv) = do_commit s.
Proof.
  unfold do_commit. rewrite do_write_lv. destruct (do_write s); reflexivity.
Qed.

Lemma do_fresh_lv s lv l : do_fresh (with_lv s lv) l = with_lv (do_fresh s l) lv.
Proof. reflexivity. Qed.

Lemma run_blk_lv s lv b : run_blk (with_lv s lv) b = run_blk s b.
Proof.
  unfold run_blk. rewrite do_fresh_lv, exec_lv.
  destruct (exec (b_begin b) (do_fresh s (b_limit b))) as [r0 s1]. cbn [fst snd].
  rewrite run_block_lv. destruct (run_block s1 (b_txs b)) as [rs s2]. cbn [fst snd].
  rewrite exec_lv. destruct (exec (b_end b) s2) as [r1 s3]. cbn [fst snd].
  rewrite do_commit_lv. reflexivity.
Qed.

(* ---- nothing before Commit touches the durable part ---- *)
Definition same_disk (s s' : state) : Prop :=
  tree s' = tree s /\ saved s' = saved s /\ version s' = version s /\ rot s' = rot s /\
  wlog s' = wlog s.

Lemma same_disk_refl s : same_disk s s.
Proof. repeat split. Qed.
Lemma same_disk_trans a b c : same_disk a b -> same_disk b c -> same_disk a c.
Proof. intros (?&?&?&?&?) (?&?&?&?&?). repeat split; congruence. Qed.

Lemma do_get_disk s k : same_disk s (do_get s k).2.
Proof.
  unfold do_get. destruct (match sess s with Some o => oget o k | None => None end);
    [apply same_disk_refl|].
  destruct (cache_get s k) as [[v|] g']; simpl; repeat split.
Qed.
Lemma do_exists_disk s k : same_disk s (do_exists s k).2.
Proof.
  unfold do_exists. destruct (match sess s with Some o => oget o k | None => None end);
    [apply same_disk_refl|].
  destruct (cache_exists s k) as [[|] g']; simpl.
  - destruct (cache_get (with_gas s g') k) as [[v|] g'']; simpl; repeat split.
  - repeat split.
Qed.
Lemma do_set_disk s k v : same_disk s (do_set s k v).2.
Proof.
  unfold do_set. destruct (sess s); [repeat split|]. destruct (gas s) as [g|]; [|repeat split].
  destruct (consume_strict g 1 WRITEFLAT) as [[|] g1]; repeat split.
Qed.
Lemma do_delete_disk s k : same_disk s (do_delete s k).2.
Proof.
  unfold do_delete. destruct (sess s); [repeat split|]. destruct (gas s) as [g|]; [|repeat split].
  destruct (consume_strict g 1 DELETEGAS) as [[|] g1]; repeat split.
Qed.

Lemma exec_disk p : forall s, same_disk s (exec p s).2.
Proof.
  induction p as [ok|k f IH|k f IH|k v f IH|k p IH]; intros s; cbn [exec].
  - apply same_disk_refl.
  - pose proof (do_get_disk s k) as H. destruct (do_get s k) as [r s1]. cbn [snd] in H.
    eapply same_disk_trans; [exact H|apply IH].
  - pose proof (do_exists_disk s k) as H. destruct (do_exists s k) as [r s1]. cbn [snd] in H.
    eapply same_disk_trans; [exact H|apply IH].
  - pose proof (do_set_disk s k v) as H. destruct (do_set s k v) as [r s1]. cbn [snd] in H.
    eapply same_disk_trans; [exact H|apply IH].
  - pose proof (do_delete_disk s k) as H. destruct (do_delete s k) as [r s1]. cbn [snd] in H.
    eapply same_disk_trans; [exact H|apply IH].
Qed.

Lemma deliver_disk s h fee : same_disk s (deliver s h fee).2.
Proof.
  unfold deliver.
  pose proof (exec_disk h (with_sess s (Some oempty))) as H1.
  destruct (exec h (with_sess s (Some oempty))) as [ok s1]. cbn [snd] in H1.
  pose proof (exec_disk (fee ok) s1) as H2.
  destruct (exec (fee ok) s1) as [feeOk s2]. cbn [snd] in H2.
  assert (same_disk s s2) as H.
  { eapply same_disk_trans; [|exact H2]. eapply same_disk_trans; [|exact H1]. repeat split. }
  destruct (ok && feeOk); cbn [snd].
  - destruct (sess s2); [|exact H]. destruct H as (?&?&?&?&?). repeat split; assumption.
  - destruct H as (?&?&?&?&?). repeat split; assumption.
Qed.

Lemma run_block_disk txs : forall s, same_disk s (run_block s txs).2.
Proof.
  induction txs as [|[h fee] txs IH]; intros s; cbn [run_block]; [apply same_disk_refl|].
  pose proof (deliver_disk s h fee) as H1. destruct (deliver s h fee) as [r s1]. cbn [snd] in H1.
  pose proof (IH s1) as H2. destruct (run_block s1 txs) as [rs s2]. cbn [snd] in *.
  eapply same_disk_trans; eassumption.
Qed.

Lemma do_fresh_disk s l : same_disk s (do_fresh s l).
Proof. repeat split. Qed.

Lemma run_cut_disk s b c : same_disk s (run_cut s b c).
Proof.
  destruct c; cbn [run_cut].
  - apply same_disk_refl.
  - eapply same_disk_trans; [apply do_fresh_disk|apply exec_disk].
  - eapply same_disk_trans; [apply do_fresh_disk|].
    eapply same_disk_trans; [apply exec_disk|apply run_block_disk].
  - eapply same_disk_trans; [apply do_fresh_disk|].
    eapply same_disk_trans; [apply exec_disk|].
    eapply same_disk_trans; [apply run_block_disk|apply exec_disk].
Qed.

(* ---- restart ---- *)
Lemma fresh_after_reopen s s' l : durable s -> same_disk s s' ->
  do_fresh (do_reopen s') l = with_lv (do_fresh s l) 0.
Proof.
  intros Hd (Ht & Hs & Hv & Hr & Hw). unfold do_fresh, do_reopen, with_lv. simpl.
  rewrite Hs, Hv, Hr, Hw. unfold durable in Hd. rewrite Hd. reflexivity.
Qed.

(* after a crash at any call boundary, Info reports the last commit *)
Theorem info_after_crash s b c : durable s ->
  info (do_reopen (run_cut s b c)) = info s.
Proof.
  intros Hd. destruct (run_cut_disk s b c) as (Ht & Hs & Hv & Hr & Hw).
  unfold info, do_reopen. simpl. rewrite Hs, Hv. unfold durable in Hd. rewrite Hd. reflexivity.
Qed.

Lemma run_blk_fresh_only s s' b :
  do_fresh s' (b_limit b) = with_lv (do_fresh s (b_limit b)) 0 -> run_blk s' b = run_blk s b.
Proof.
  intros H. rewrite <- (run_blk_lv s 0 b). unfold run_blk. rewrite H, do_fresh_lv. reflexivity.
Qed.

(* replaying the block after a crash at any boundary gives exactly the uninterrupted result *)
Theorem replay_after_crash s b c : durable s ->
  run_blk (do_reopen (run_cut s b c)) b = run_blk s b.
Proof.
  intros Hd. apply run_blk_fresh_only.
  apply fresh_after_reopen; [exact Hd|apply run_cut_disk].
Qed.

Lemma reopen_durable s s' : durable s -> same_disk s s' -> durable (do_reopen s').
Proof.
  intros Hd (Ht & Hs & Hv & Hr & Hw). unfold durable, do_reopen in *. simpl.
  rewrite Hs, Hv, Hd. reflexivity.
Qed.

Lemma reopen_disk s s' : durable s -> same_disk s s' -> same_disk s (do_reopen s').
Proof.
  intros Hd (Ht & Hs & Hv & Hr & Hw). unfold same_disk, do_reopen, durable in *. simpl.
  rewrite Hs, Hv, Hd. repeat split; assumption.
Qed.

Theorem crashy_block s b cs : durable s -> run_blk_crashy s b cs = run_blk s b.
Proof.
  revert s. induction cs as [|c cs IH]; intros s Hd; cbn [run_blk_crashy]; [reflexivity|].
  rewrite IH by (eapply reopen_durable; [exact Hd|apply run_cut_disk]).
  apply replay_after_crash. exact Hd.
Qed.

(* a commit makes the new version durable (rotation never deletes the version just saved) *)
Lemma do_write_rot s : rot (do_write s) = rot s /\ version (do_write s) = version s /\
  saved (do_write s) = saved s.
Proof.
  unfold do_write. destruct (fold_left flush_step (okvs (cache s)) (tree s, wlog s)).
  repeat split.
Qed.

Lemma commit_durable s : rot_ok s -> durable (do_commit s).2 /\ rot_ok (do_commit s).2.
Proof.
  intros (Hr & He & Hc & Hv). unfold do_commit. cbn [snd].
  destruct (do_write_rot s) as (Er & Ev & Es).
  split.
  - unfold durable. simpl. rewrite Er, Ev.
    apply rotate_latest; assumption.
  - unfold rot_ok. simpl. rewrite Er, Ev. repeat split; try assumption. lia.
Qed.

Lemma same_disk_rot_ok s s' : same_disk s s' -> rot_ok s -> rot_ok s'.
Proof. intros (_&_&Hv&Hr&_) Hok. unfold rot_ok in *. rewrite Hv, Hr. exact Hok. Qed.

Lemma run_blk_durable s b : rot_ok s -> durable (run_blk s b).2 /\ rot_ok (run_blk s b).2.
Proof.
  intros Hr. unfold run_blk.
  pose proof (exec_disk (b_begin b) (do_fresh s (b_limit b))) as H1.
  destruct (exec (b_begin b) (do_fresh s (b_limit b))) as [r0 s1]. cbn [snd] in H1.
  pose proof (run_block_disk (b_txs b) s1) as H2.
  destruct (run_block s1 (b_txs b)) as [rs s2]. cbn [snd] in H2.
  pose proof (exec_disk (b_end b) s2) as H3.
  destruct (exec (b_end b) s2) as [r1 s3]. cbn [snd] in H3. cbn [snd].
  apply commit_durable.
  eapply same_disk_rot_ok; [|exact Hr].
  eapply same_disk_trans; [apply do_fresh_disk|].
  eapply same_disk_trans; [exact H1|]. eapply same_disk_trans; eassumption.
Qed.

(* reopening right after a commit *)
Lemma reopen_after_commit s : durable s -> sess s = None -> cache s = oempty -> gas s = None ->
  do_reopen s = with_lv s 0.
Proof.
  intros Hd Hs Hc Hg. unfold do_reopen, with_lv, durable in *. rewrite Hd.
  destruct s; simpl in *; subst; reflexivity.
Qed.

Lemma run_blk_clean s b :
  sess (run_blk s b).2 = None /\ cache (run_blk s b).2 = oempty /\ gas (run_blk s b).2 = None.
Proof.
  unfold run_blk.
  destruct (exec (b_begin b) (do_fresh s (b_limit b))) as [r0 s1].
  destruct (run_block s1 (b_txs b)) as [rs s2].
  destruct (exec (b_end b) s2) as [r1 s3]. cbn [snd]. unfold do_commit. cbn [snd].
  repeat split.
Qed.

Lemma with_lv_durable s lv : durable s -> durable (with_lv s lv).
Proof. auto. Qed.
Lemma with_lv_rot_ok s lv : rot_ok s -> rot_ok (with_lv s lv).
Proof. auto. Qed.



(* transcripts of a chain with crashes at arbitrary boundaries, repeated crashes and crashes
   right after commits equal the uninterrupted transcripts; final states agree up to the ghost
   LastVersion field *)
Theorem crashy_chain bs : forall s lv, durable s -> rot_ok s ->
  (run_chain_crashy (with_lv s lv) bs).1 = (run_chain s (map cb_blk bs)).1 /\
  exists lv', (run_chain_crashy (with_lv s lv) bs).2 = with_lv (run_chain s (map cb_blk bs)).2 lv'.
Proof.
  induction bs as [|cb bs IH]; intros s lv Hd Hr; cbn [run_chain_crashy run_chain map].
  - split; [reflexivity|exists lv; reflexivity].
  - rewrite crashy_block by (apply with_lv_durable; exact Hd).
    rewrite run_blk_lv.
    destruct (run_blk_durable s (cb_blk cb) Hr) as [Hd1 Hr1].
    destruct (run_blk_clean s (cb_blk cb)) as (Hs1 & Hc1 & Hg1).
    destruct (run_blk s (cb_blk cb)) as [r s1]. cbn [snd] in *.
    assert (exists lv1, (if cb_after cb then do_reopen s1 else s1) = with_lv s1 lv1) as [lv1 E].
    { destruct (cb_after cb).
      - exists 0. apply reopen_after_commit; assumption.
      - exists (lastversion s1). destruct s1; reflexivity. }
    rewrite E. destruct (IH s1 lv1 Hd1 Hr1) as [I1 [lv' I2]].
    destruct (run_chain_crashy (with_lv s1 lv1) bs) as [rs s2].
    destruct (run_chain s1 (map cb_blk bs)) as [rs' s2']. cbn [fst snd] in *.
    split; [congruence|exists lv'; exact I2].
Qed.
