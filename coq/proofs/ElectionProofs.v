(* ElectionProofs.v — lemmas for C10 (validator election and Tendermint acceptance). *)
From stdpp Require Import gmap list sorting.
From Coq Require Import ZArith Lia.
From OL Require Import theories.Election theories.Tendermint.
Local Open Scope Z_scope.

(* ---------- basic facts about the boolean helpers ---------- *)
Lemma memb_true k l : memb k l = true <-> k ∈ l.
Proof.
  unfold memb. rewrite existsb_exists. split.
  - intros (x & Hin & He). apply N.eqb_eq in He. subst. by apply elem_of_list_In.
  - intros H. exists k. split; [by apply elem_of_list_In | apply N.eqb_refl].
Qed.

Lemma memb_false k l : memb k l = false <-> k ∉ l.
Proof. rewrite <- memb_true. destruct (memb k l); split; intros; congruence || tauto. Qed.

Lemma eligibleb_true minp mal c : eligibleb minp mal c = true <-> eligible minp mal c.
Proof.
  unfold eligibleb, eligible. rewrite andb_true_iff, negb_true_iff, Z.leb_le, memb_false. tauto.
Qed.

Lemma filter_In_elem {A} (f : A -> bool) l x : x ∈ List.filter f l <-> x ∈ l /\ f x = true.
Proof. rewrite !elem_of_list_In. apply filter_In. Qed.

Lemma filter_sublist {A} (f : A -> bool) l : List.filter f l `sublist_of` l.
Proof.
  induction l as [|x l IH]; simpl; [constructor|].
  destruct (f x); [by apply sublist_skip | by apply sublist_cons].
Qed.

Lemma sublist_NoDup' {A} (l k : list A) : l `sublist_of` k -> NoDup k -> NoDup l.
Proof.
  induction 1 as [|x l k Hs IH|x l k Hs IH]; intros Hnd; [done| |].
  - apply NoDup_cons in Hnd as [Hx Hnd]. apply NoDup_cons. split; [|by apply IH].
    intros Hin. apply Hx. eapply elem_of_submseteq; [done|by apply sublist_submseteq].
  - apply NoDup_cons in Hnd as [_ Hnd]. by apply IH.
Qed.

Lemma filter_NoDup {A} (f : A -> bool) l : NoDup l -> NoDup (List.filter f l).
Proof. intros H. eapply sublist_NoDup'; [apply filter_sublist | done]. Qed.

(* ---------- the deterministic election is a valid election ---------- *)
Global Instance pow_ge_trans : Transitive pow_ge.
Proof. intros x y z. unfold pow_ge. lia. Qed.
Global Instance pow_ge_total : Total pow_ge.
Proof. intros x y. unfold pow_ge. lia. Qed.

Lemma StronglySorted_filter {A} (R : relation A) (f : A -> bool) l :
  StronglySorted R l -> StronglySorted R (List.filter f l).
Proof.
  induction 1 as [|x l Hs IH Hall]; simpl; [constructor|].
  destruct (f x); [|done]. constructor; [done|].
  rewrite Forall_forall in *. intros y Hy. apply Hall. apply filter_In_elem in Hy. tauto.
Qed.

Lemma elect_valid minp top mal cands :
  NoDup cands -> valid_election minp top mal cands (elect minp top mal cands).
Proof.
  intros Hnd. unfold elect.
  set (S := merge_sort pow_ge cands).
  assert (HS : S ≡ₚ cands) by apply merge_sort_Permutation.
  assert (Hsorted : StronglySorted pow_ge (List.filter (eligibleb minp mal) S)).
  { apply StronglySorted_filter, StronglySorted_merge_sort; apply _. }
  set (L := List.filter (eligibleb minp mal) S) in *.
  set (n := Z.to_nat top).
  split.
  - eapply sublist_NoDup'; [apply sublist_take|]. apply filter_NoDup. by rewrite HS.
  - intros c Hc. apply elem_of_take in Hc as (i & Hi & _). apply elem_of_list_lookup_2 in Hi.
    apply filter_In_elem in Hi as [Hi _]. by rewrite <- HS.
  - intros c Hc. apply elem_of_take in Hc as (i & Hi & _). apply elem_of_list_lookup_2 in Hi.
    apply filter_In_elem in Hi as [_ Hi]. by apply eligibleb_true.
  - rewrite take_length. subst n. lia.
  - intros d Hd Hel Hnot.
    assert (HdL : d ∈ L).
    { apply filter_In_elem. split; [by rewrite HS | by apply eligibleb_true]. }
    rewrite <- (take_drop n L) in HdL. apply elem_of_app in HdL as [?|Hdrop]; [done|].
    assert (Hlen : (n <= length L)%nat).
    { destruct (decide (n <= length L)%nat); [done|]. rewrite drop_ge in Hdrop by lia.
      by apply elem_of_nil in Hdrop. }
    split.
    + rewrite take_length. subst n. lia.
    + intros c Hc. rewrite <- (take_drop n L) in Hsorted.
      exact (elem_of_StronglySorted_app _ _ _ _ _ Hsorted Hc Hdrop).
Qed.

(* ---------- generic list facts ---------- *)
Lemma fmap_inj_on {A B} (f : A -> B) (l : list A) x y :
  NoDup (map f l) -> x ∈ l -> y ∈ l -> f x = f y -> x = y.
Proof.
  induction l as [|a l IH]; simpl; intros Hnd Hx Hy Hf; [by apply elem_of_nil in Hx|].
  apply NoDup_cons in Hnd as [Ha Hnd].
  apply elem_of_cons in Hx as [->|Hx]; apply elem_of_cons in Hy as [->|Hy]; try done.
  - exfalso. apply Ha. rewrite Hf. apply elem_of_list_In, in_map, elem_of_list_In, Hy.
  - exfalso. apply Ha. rewrite <- Hf. apply elem_of_list_In, in_map, elem_of_list_In, Hx.
  - by apply IH.
Qed.

Lemma NoDup_map_sub {A B} (f : A -> B) (l k : list A) :
  NoDup l -> (forall x, x ∈ l -> x ∈ k) -> NoDup (map f k) -> NoDup (map f l).
Proof.
  intros Hl Hsub Hk. apply (NoDup_fmap_2_strong f); [|done].
  intros x y Hx Hy. apply (fmap_inj_on f k); auto.
Qed.

Lemma elem_of_map_iff {A B} (f : A -> B) l y : y ∈ map f l <-> exists x, y = f x /\ x ∈ l.
Proof. apply (elem_of_list_fmap f). Qed.

Lemma filter_perm {A} (f : A -> bool) l k : l ≡ₚ k -> List.filter f l ≡ₚ List.filter f k.
Proof.
  induction 1 as [|x l k H IH|x y l|l k m H1 IH1 H2 IH2]; simpl.
  - done.
  - destruct (f x); [by constructor|done].
  - destruct (f x), (f y); try done. apply perm_swap.
  - by etrans.
Qed.

Lemma filter_all {A} (f : A -> bool) l : (forall x, x ∈ l -> f x = true) -> List.filter f l = l.
Proof.
  induction l as [|x l IH]; simpl; intros H; [done|].
  rewrite (H x) by left. f_equal. apply IH. intros y Hy. apply H. by right.
Qed.

Lemma filter_none {A} (f : A -> bool) l : (forall x, x ∈ l -> f x = false) -> List.filter f l = [].
Proof.
  induction l as [|x l IH]; simpl; intros H; [done|].
  rewrite (H x) by left. apply IH. intros y Hy. apply H. by right.
Qed.

(* ---------- the update list of one block ---------- *)
Definition purge_updates (nt : list (key * key)) (pa : list key) : list upd :=
  map (fun a => (default 0%N (assoc a nt), 0)) pa.

Lemma finish_on h byz cands el la pg : (1 <? h) || byz = true ->
  finish h byz cands el la pg =
  (merge_sort upd_le (pos_updates el ++ purge_updates (non_top cands el) (purged_addrs h (non_top cands el) pg la)),
   foldr (fun a m => <[a := h]> m) pg (purged_addrs h (non_top cands el) pg la)).
Proof. intros H. unfold finish. by rewrite H. Qed.

Lemma finish_off h byz cands el la pg : (1 <? h) || byz = false ->
  finish h byz cands el la pg = ([], pg).
Proof. intros H. unfold finish. by rewrite H. Qed.

Lemma finish_perm h byz cands el la pg : (1 <? h) || byz = true ->
  (finish h byz cands el la pg).1 ≡ₚ
  pos_updates el ++ purge_updates (non_top cands el) (purged_addrs h (non_top cands el) pg la).
Proof. intros H. rewrite finish_on by done. simpl. apply merge_sort_Permutation. Qed.

Lemma assoc_non_top cands el a k :
  assoc a (non_top cands el) = Some k ->
  exists c, c ∈ cands /\ c_addr c = a /\ c_pk c = k /\ inel c el = false.
Proof.
  unfold non_top. induction cands as [|c cands IH]; simpl; [done|].
  destruct (inel c el) eqn:He; simpl.
  - intros H. destruct (IH H) as (d & ? & ?). exists d. split; [by right|done].
  - destruct (N.eqb a (c_addr c)) eqn:Ha.
    + intros [= <-]. apply N.eqb_eq in Ha. exists c. split; [by left|done].
    + intros H. destruct (IH H) as (d & ? & ?). exists d. split; [by right|done].
Qed.

Lemma inel_true c el : c ∈ el -> inel c el = true.
Proof.
  intros H. unfold inel. apply existsb_exists. exists c. split; [by apply elem_of_list_In|apply N.eqb_refl].
Qed.

Lemma purged_addr_spec h nt pg la a : a ∈ purged_addrs h nt pg la <->
  a ∈ la /\ exists k, assoc a nt = Some k /\ purge_guard h (purge_height pg a) = false.
Proof.
  unfold purged_addrs. rewrite filter_In_elem. unfold purgedb.
  destruct (assoc a nt) as [k|]; [|naive_solver].
  rewrite negb_true_iff. naive_solver.
Qed.

(* C10_rule, part 1: under a minimum of at least 1 the positive-power updates are exactly the
   elected candidates with their power *)
Lemma positives_are_election h byz cands el la pg minp top mal :
  valid_election minp top mal cands el -> 1 <= minp -> (1 <? h) || byz = true ->
  List.filter (fun u : upd => 0 <? u.2) (finish h byz cands el la pg).1 ≡ₚ pos_updates el.
Proof.
  intros Hv Hmin Hon. rewrite (filter_perm _ _ _ (finish_perm _ _ _ _ _ _ Hon)).
  rewrite List.filter_app. rewrite filter_all, filter_none; [by rewrite app_nil_r| |].
  - intros u Hu. apply elem_of_map_iff in Hu as (a & -> & _). done.
  - intros u Hu. apply elem_of_map_iff in Hu as (c & -> & Hc). simpl.
    apply Z.ltb_lt. destruct (ve_elig _ _ _ _ _ Hv c Hc). lia.
Qed.

Lemma rule_holds h byz cands el la pg minp top mal :
  valid_election minp top mal cands el -> 1 <= minp ->
  let ups := (finish h byz cands el la pg).1 in
  (forall k p, (k, p) ∈ ups -> 0 < p ->
     exists c, c ∈ cands /\ c ∈ el /\ c_pk c = k /\ c_power c = p /\ minp <= c_power c /\ c_addr c ∉ mal) /\
  Z.of_nat (length (List.filter (fun u : upd => 0 <? u.2) ups)) <= Z.max 0 top /\
  (forall d, d ∈ cands -> eligible minp mal d -> d ∉ el ->
     top <= Z.of_nat (length el) /\ forall c, c ∈ el -> c_power d <= c_power c).
Proof.
  intros Hv Hmin ups. subst ups.
  destruct ((1 <? h) || byz) eqn:Hon.
  2:{ rewrite finish_off by done. simpl. split; [|split].
      - intros k p Hin. by apply elem_of_nil in Hin.
      - lia.
      - apply Hv. }
  split; [|split].
  - intros k p Hin Hp.
    assert (Hf : (k, p) ∈ List.filter (fun u : upd => 0 <? u.2) (finish h byz cands el la pg).1).
    { apply filter_In_elem. split; [done|]. simpl. by apply Z.ltb_lt. }
    rewrite (positives_are_election _ _ _ _ _ _ _ _ _ Hv Hmin Hon) in Hf.
    apply elem_of_map_iff in Hf as (c & [= -> ->] & Hc).
    destruct (ve_elig _ _ _ _ _ Hv c Hc). exists c. split; [by eapply ve_sub|done].
  - rewrite (positives_are_election _ _ _ _ _ _ _ _ _ Hv Hmin Hon).
    unfold pos_updates. rewrite map_length. apply Hv.
  - apply Hv.
Qed.

(* ---------- Tendermint side ---------- *)
Lemma nodupb_true l : nodupb l = true <-> NoDup l.
Proof.
  induction l as [|x l IH]; simpl; [split; [constructor|done]|].
  rewrite andb_true_iff, negb_true_iff, memb_false, IH, NoDup_cons. tauto.
Qed.

Lemma forallb_elem {A} (f : A -> bool) l : forallb f l = true <-> forall x, x ∈ l -> f x = true.
Proof. rewrite forallb_forall. split; intros H x Hx; apply H; by apply elem_of_list_In. Qed.

Lemma vkeys_apply1 s u a : a ∈ vkeys (apply1 s u) <-> (a ∈ vkeys s /\ a <> u.1) \/ (a = u.1 /\ 0 < u.2).
Proof.
  unfold apply1, vkeys.
  assert (Hf : a ∈ map fst (List.filter (fun x : upd => negb (N.eqb x.1 u.1)) s) <-> a ∈ map fst s /\ a <> u.1).
  { rewrite !elem_of_map_iff. split.
    - intros (x & -> & Hx). apply filter_In_elem in Hx as [Hx Hne].
      apply negb_true_iff, N.eqb_neq in Hne. eauto.
    - intros ((x & -> & Hx) & Hne). exists x. split; [done|]. apply filter_In_elem. split; [done|].
      by apply negb_true_iff, N.eqb_neq. }
  destruct (0 <? u.2) eqn:Hp.
  - apply Z.ltb_lt in Hp. rewrite map_app, elem_of_app, Hf. simpl. rewrite elem_of_list_singleton. tauto.
  - apply Z.ltb_ge in Hp. rewrite Hf. split; [tauto|]. intros [?|[_ ?]]; [done|lia].
Qed.

(* a member that disappears was named by an update with non-positive power *)
Lemma apply_removed ups : forall s a, a ∈ vkeys s -> a ∉ vkeys (apply_updates s ups) ->
  exists p, (a, p) ∈ ups /\ p <= 0.
Proof.
  unfold apply_updates. induction ups as [|u ups IH]; simpl; intros s a Hin Hout; [done|].
  destruct (decide (a ∈ vkeys (apply1 s u))) as [Hk|Hk].
  - destruct (IH _ _ Hk Hout) as (p & ? & ?). exists p. split; [by right|done].
  - rewrite vkeys_apply1 in Hk. destruct (decide (a = u.1)) as [->|Hne]; [|tauto].
    exists u.2. split; [destruct u; left|]. lia.
Qed.

Lemma NoDup_map_filter {A B} (g : A -> B) (f : A -> bool) l :
  NoDup (map g l) -> NoDup (map g (List.filter f l)).
Proof.
  induction l as [|x l IH]; simpl; [done|]. intros Hnd. apply NoDup_cons in Hnd as [Hx Hnd].
  destruct (f x); simpl; [|by apply IH]. apply NoDup_cons. split; [|by apply IH].
  intros Hin. apply Hx. apply elem_of_map_iff in Hin as (y & -> & Hy). apply filter_In_elem in Hy as [Hy _].
  apply elem_of_map_iff. by exists y.
Qed.

Definition set_ok (U : list key) (cap : key -> Z) (s : vset) : Prop :=
  NoDup (vkeys s) /\ forall k p, (k, p) ∈ s -> k ∈ U /\ 0 < p <= cap k.

Lemma set_ok_apply1 U cap s u : set_ok U cap s -> (0 < u.2 -> u.1 ∈ U /\ u.2 <= cap u.1) ->
  set_ok U cap (apply1 s u).
Proof.
  intros [Hnd Hb] Hu. unfold apply1.
  set (s' := List.filter (fun x : upd => negb (N.eqb x.1 u.1)) s).
  assert (Hs' : NoDup (vkeys s') /\ (forall k p, (k, p) ∈ s' -> (k, p) ∈ s /\ k <> u.1)).
  { split.
    - unfold vkeys. by apply NoDup_map_filter.
    - intros k p Hin. apply filter_In_elem in Hin as [? Hne]. split; [done|].
      by apply negb_true_iff, N.eqb_neq in Hne. }
  destruct Hs' as [Hnd' Hin'].
  destruct (0 <? u.2) eqn:Hp; [|split; [done|]; intros k p Hin; apply Hb; by apply Hin'].
  apply Z.ltb_lt in Hp. split.
  - unfold vkeys. rewrite map_app. apply NoDup_app. split; [done|]. split; [|simpl; apply NoDup_singleton].
    intros k Hk Hk2. simpl in Hk2. apply elem_of_list_singleton in Hk2. subst.
    apply elem_of_map_iff in Hk as ([k p] & Hkk & Hin). simpl in Hkk. subst. by destruct (Hin' _ _ Hin).
  - intros k p Hin. apply elem_of_app in Hin as [Hin|Hin]; [apply Hb; by apply Hin'|].
    apply elem_of_list_singleton in Hin. destruct u as [uk up]. simpl in *. injection Hin as -> ->.
    destruct (Hu Hp). split; [done|lia].
Qed.

Lemma set_ok_apply U cap ups : forall s, set_ok U cap s ->
  (forall k p, (k, p) ∈ ups -> 0 < p -> k ∈ U /\ p <= cap k) -> set_ok U cap (apply_updates s ups).
Proof.
  unfold apply_updates. induction ups as [|u ups IH]; simpl; intros s Hs Hu; [done|].
  apply IH.
  - apply set_ok_apply1; [done|]. intros Hp. destruct u as [k p]. apply Hu; [by left|done].
  - intros k p Hin. apply Hu. by right.
Qed.

Definition capsum (cap : key -> Z) (U : list key) : Z := foldr (fun k a => cap k + a) 0 U.

Lemma capsum_perm cap U V : U ≡ₚ V -> capsum cap U = capsum cap V.
Proof. induction 1; simpl; lia. Qed.

Lemma capsum_nonneg cap U : (forall k, 0 <= cap k) -> 0 <= capsum cap U.
Proof. intros H. induction U as [|k U IH]; simpl; [lia|]. specialize (H k). lia. Qed.

Lemma total_le_capsum cap : (forall k, 0 <= cap k) -> forall s U, NoDup U -> NoDup (vkeys s) ->
  (forall k p, (k, p) ∈ s -> k ∈ U /\ p <= cap k) -> total s <= capsum cap U.
Proof.
  intros Hcap. induction s as [|[k p] s IH]; simpl; intros U HU Hnd Hb.
  - by apply capsum_nonneg.
  - apply NoDup_cons in Hnd as [Hk Hnd].
    destruct (Hb k p) as [HkU Hp]; [by left|].
    apply elem_of_Permutation in HkU as [U' HU'].
    rewrite (capsum_perm _ _ _ HU'). simpl. rewrite HU' in HU. apply NoDup_cons in HU as [HkU' HU].
    assert (total s <= capsum cap U'); [|lia].
    apply IH; [done|done|]. intros k' p' Hin. destruct (Hb k' p') as [Hin' ?]; [by right|].
    split; [|done]. rewrite HU' in Hin'. apply elem_of_cons in Hin' as [->|?]; [|done].
    exfalso. apply Hk. apply elem_of_map_iff. by exists (k, p').
Qed.

Lemma cap_le_capsum cap U k : (forall k, 0 <= cap k) -> k ∈ U -> cap k <= capsum cap U.
Proof.
  intros Hcap Hk. apply elem_of_Permutation in Hk as [U' HU']. rewrite (capsum_perm _ _ _ HU'). simpl.
  pose proof (capsum_nonneg cap U' Hcap). lia.
Qed.

(* ---------- the chain: hypotheses and invariant ---------- *)
Definition well_keyed (cands : list cand) : Prop := forall c, c ∈ cands -> c_addr c = c_pk c.

Record cap_ok (U : list key) (cap : key -> Z) : Prop := {
  co_nodup : NoDup U;
  co_nonneg : forall k, 0 <= cap k;
  co_sum : capsum cap U <= MaxTotalVotingPower }.

Record env_ok (U : list key) (cap : key -> Z) (e : env) : Prop := {
  eo_nodup : NoDup (map c_addr (e_cands e));
  eo_keyed : well_keyed (e_cands e);
  eo_min : 1 <= min_power (e_opts e);
  eo_top : 1 <= o_top (e_opts e);
  eo_some : exists c, c ∈ e_cands e /\ eligible (min_power (e_opts e)) (e_mal e) c;
  eo_valid : valid_election (min_power (e_opts e)) (o_top (e_opts e)) (e_mal e) (e_cands e) (e_el e);
  eo_cap : forall c, c ∈ e_cands e -> c_pk c ∈ U /\ c_power c <= cap (c_pk c) }.

Definition pgh (ch : chain) (a : key) : Z := purge_height (ch_purge ch) a.

Record chain_inv (U : list key) (cap : key -> Z) (ch : chain) : Prop := {
  ci_h : 0 <= ch_height ch;
  ci_prev : NoDup (vkeys (ch_prev ch));
  ci_cur : NoDup (vkeys (ch_cur ch));
  ci_next : set_ok U cap (ch_next ch);
  ci_1 : forall a, a ∈ vkeys (ch_prev ch) ->
           a ∈ vkeys (ch_cur ch) \/ (0 < pgh ch a /\ ch_height ch - 1 <= pgh ch a);
  ci_2 : forall a, a ∈ vkeys (ch_cur ch) ->
           a ∈ vkeys (ch_next ch) \/ (0 < pgh ch a /\ ch_height ch <= pgh ch a);
  ci_pg : forall a, pgh ch a <= ch_height ch }.

Definition genesis_ok (U : list key) (cap : key -> Z) (g : vset) : Prop := set_ok U cap g.

Lemma init_inv U cap g : genesis_ok U cap g -> chain_inv U cap (chain_init g).
Proof.
  intros Hg. constructor; simpl; try done.
  - constructor.
  - by destruct Hg.
  - intros a Ha. by apply elem_of_nil in Ha.
  - intros a Ha. by left.
Qed.

Lemma purge_height_foldr h pg pa a :
  purge_height (foldr (fun a m => <[a := h]> m) pg pa) a = if decide (a ∈ pa) then h else purge_height pg a.
Proof.
  induction pa as [|b pa IH].
  - destruct (decide (a ∈ [])) as [Hin|_]; [by apply elem_of_nil in Hin|done].
  - cbn [foldr]. unfold purge_height in *. destruct (decide (a = b)) as [->|Hne].
    + rewrite lookup_insert. destruct (decide (b ∈ b :: pa)) as [_|Hn]; [done|]. exfalso. apply Hn. by left.
    + rewrite lookup_insert_ne by done. rewrite IH.
      destruct (decide (a ∈ pa)) as [Hin|Hin]; destruct (decide (a ∈ b :: pa)) as [Hin2|Hin2]; try done.
      * exfalso. apply Hin2. by right.
      * exfalso. apply elem_of_cons in Hin2 as [?|?]; done.
Qed.

Lemma ups_elem h byz cands el la pg k p : (1 <? h) || byz = true ->
  (k, p) ∈ (finish h byz cands el la pg).1 <->
  (exists c, c ∈ el /\ k = c_pk c /\ p = c_power c) \/
  (p = 0 /\ exists a, a ∈ purged_addrs h (non_top cands el) pg la /\ k = default 0%N (assoc a (non_top cands el))).
Proof.
  intros Hon. rewrite (finish_perm _ _ _ _ _ _ Hon), elem_of_app.
  unfold pos_updates, purge_updates. rewrite !elem_of_map_iff. split.
  - intros [(c & [= -> ->] & Hc)|(a & [= -> ->] & Ha)]; [left|right]; eauto.
  - intros [(c & Hc & -> & ->)|(-> & a & Ha & ->)]; [left|right]; eauto.
Qed.

Lemma purged_key cands el h pg la a : well_keyed cands ->
  a ∈ purged_addrs h (non_top cands el) pg la ->
  default 0%N (assoc a (non_top cands el)) = a /\
  exists c, c ∈ cands /\ c_addr c = a /\ inel c el = false.
Proof.
  intros Hk Ha. apply purged_addr_spec in Ha as (_ & k & Hk' & _).
  destruct (assoc_non_top _ _ _ _ Hk') as (c & Hc & Hca & Hcp & Hne).
  rewrite Hk'. simpl. split; [|eauto]. rewrite <- Hcp, <- Hca. symmetry. by apply Hk.
Qed.

Lemma in_length_pos {A} (l : list A) x : x ∈ l -> length l <> 0%nat.
Proof. destruct l; [intros H; by apply elem_of_nil in H|done]. Qed.

Lemma step_ok U cap ch e : cap_ok U cap -> chain_inv U cap ch -> env_ok U cap e ->
  exists ch', chain_step ch e = Some ch' /\ chain_inv U cap ch'.
Proof.
  intros Hcap Hinv He. unfold chain_step, chain_updates.
  set (h := ch_height ch + 1).
  pose proof (ci_h _ _ _ Hinv) as Hh0.
  destruct ((1 <? h) || e_byz e) eqn:Hon.
  2:{ rewrite finish_off by done. simpl. eexists. split; [done|].
      destruct Hinv as [? ? ? Hnext H1 H2 H3]. constructor; simpl; try done; try lia.
      - by destruct Hnext.
      - intros a Ha. unfold pgh in *. simpl. destruct (H2 a Ha) as [?|[? ?]]; [by left|right]. subst h. lia.
      - intros a Ha. by left.
      - intros a. unfold pgh in *. simpl. specialize (H3 a). subst h. lia. }
  set (cands := e_cands e). set (el := e_el e). set (la := vkeys (ch_prev ch)). set (pg := ch_purge ch).
  set (nt := non_top cands el). set (pa := purged_addrs h nt pg la).
  set (minp := min_power (e_opts e)).
  pose proof (eo_valid _ _ _ He) as Hv. fold minp cands el in Hv.
  pose proof (eo_keyed _ _ _ He) as Hkeyed. fold cands in Hkeyed.
  pose proof (eo_min _ _ _ He) as Hmin. fold minp in Hmin.
  assert (Hndaddr : NoDup (map c_addr cands)) by apply He.
  assert (Hndpk : NoDup (map c_pk cands)).
  { erewrite map_ext_in; [exact Hndaddr|]. intros c Hc. symmetry. apply Hkeyed. by apply elem_of_list_In. }
  set (ups := (finish h (e_byz e) cands el la pg).1).
  assert (Hpk : forall a, a ∈ pa -> default 0%N (assoc a nt) = a).
  { intros a Ha. exact (proj1 (purged_key _ _ _ _ _ _ Hkeyed Ha)). }
  assert (Hups : forall k p, (k, p) ∈ ups <->
     (exists c, c ∈ el /\ k = c_pk c /\ p = c_power c) \/ (p = 0 /\ k ∈ pa)).
  { intros k p. unfold ups. rewrite (ups_elem _ _ _ _ _ _ _ _ Hon). fold nt pa. split.
    - intros [?|(-> & a & Ha & ->)]; [by left|right]. split; [done|]. by rewrite (Hpk a Ha).
    - intros [?|(-> & Ha)]; [by left|right]. split; [done|]. exists k. split; [done|]. by rewrite (Hpk k Ha). }
  assert (Helpos : forall c, c ∈ el -> c ∈ cands /\ 1 <= c_power c).
  { intros c Hc. split; [by eapply ve_sub|]. destruct (ve_elig _ _ _ _ _ Hv c Hc). lia. }
  (* purged addresses are last-active non-elected candidates whose guard is off, hence members of next *)
  assert (Hpa_next : forall a, a ∈ pa -> a ∈ vkeys (ch_next ch)).
  { intros a Ha. apply purged_addr_spec in Ha as (Hla & k & _ & Hg).
    unfold purge_guard in Hg. apply andb_false_iff in Hg.
    assert (Hg' : ~ (0 < purge_height pg a /\ h <= purge_height pg a + 2)).
    { intros [? ?]. destruct Hg as [Hg|Hg]; [apply Z.ltb_ge in Hg|apply Z.leb_gt in Hg]; lia. }
    destruct (ci_1 _ _ _ Hinv a Hla) as [Hc|[? ?]]; [|exfalso; apply Hg'; unfold pgh in *; fold pg in H, H0; subst h; lia].
    destruct (ci_2 _ _ _ Hinv a Hc) as [?|[? ?]]; [done|exfalso; apply Hg'; unfold pgh in *; fold pg in H, H0; subst h; lia]. }
  assert (Hpa_notel : forall a c, a ∈ pa -> c ∈ el -> c_pk c <> a).
  { intros a c Ha Hc Heq. destruct (purged_key _ _ _ _ _ _ Hkeyed Ha) as [_ (d & Hd & Hda & Hne)].
    destruct (Helpos c Hc) as [Hcc _].
    assert (c = d).
    { apply (fmap_inj_on c_addr cands); try done. rewrite Hda, <- Heq. by apply Hkeyed. }
    subst d. rewrite inel_true in Hne; done. }
  assert (Hndups : NoDup (map fst ups)).
  { unfold ups. rewrite (finish_perm _ _ _ _ _ _ Hon). fold nt pa. rewrite map_app. apply NoDup_app. split; [|split].
    - unfold pos_updates. rewrite map_map. simpl. apply (NoDup_map_sub c_pk el cands); [apply Hv| |done].
      intros c Hc. by eapply ve_sub.
    - intros k Hk Hk2. unfold pos_updates in Hk. rewrite map_map in Hk. simpl in Hk.
      apply elem_of_map_iff in Hk as (c & -> & Hc).
      unfold purge_updates in Hk2. rewrite map_map in Hk2. simpl in Hk2.
      apply elem_of_map_iff in Hk2 as (a & Heq & Ha).
      rewrite (Hpk a Ha) in Heq. by apply (Hpa_notel a c).
    - unfold purge_updates. rewrite map_map. simpl.
      erewrite map_ext_in; [rewrite map_id|].
      + unfold pa, purged_addrs. apply filter_NoDup. apply Hinv.
      + intros a Ha. apply elem_of_list_In in Ha. by apply Hpk. }
  assert (Hcapk : forall k p, (k, p) ∈ ups -> 0 < p -> k ∈ U /\ p <= cap k).
  { intros k p Hin Hp. apply Hups in Hin as [(c & Hc & -> & ->)|[-> _]]; [|lia].
    apply He. by apply Helpos. }
  assert (Hnext' : set_ok U cap (apply_updates (ch_next ch) ups)).
  { apply set_ok_apply; [apply Hinv|done]. }
  assert (Hacc : acceptb (ch_next ch) ups = true).
  { unfold acceptb. destruct ups as [|u0 ups'] eqn:Heq; [done|]. rewrite <- Heq in *.
    repeat (apply andb_true_iff; split).
    - by apply nodupb_true.
    - apply forallb_elem. intros [k p] Hin. simpl. apply andb_true_iff. rewrite Z.leb_le, Z.leb_le.
      pose proof (Hups k p) as [Hu _]. destruct (Hu Hin) as [(c & Hc & -> & ->)|[-> _]].
      + destruct (Helpos c Hc) as [Hcc ?]. destruct (eo_cap _ _ _ He c Hcc) as [HU Hle].
        pose proof (cap_le_capsum cap U _ (co_nonneg _ _ Hcap) HU). pose proof (co_sum _ _ Hcap). lia.
      + split; [lia|]. vm_compute. discriminate.
    - (* the result is not empty *)
      apply negb_true_iff. apply andb_false_iff.
      destruct (eo_some _ _ _ He) as (d & Hd & Hdel).
      assert (Hex : exists c, c ∈ el).
      { destruct el as [|c el'] eqn:Hel; [|exists c; by left].
        exfalso. destruct (ve_max _ _ _ _ _ Hv d Hd Hdel) as [Htop _]; [apply not_elem_of_nil|].
        pose proof (eo_top _ _ _ He). simpl in Htop. lia. }
      destruct Hex as (c & Hc). destruct (Helpos c Hc) as [Hcc Hcp].
      assert (Hu : (c_pk c, c_power c) ∈ ups) by (apply Hups; left; eauto).
      destruct (memb (c_pk c) (vkeys (ch_next ch))) eqn:Hm.
      + right. apply Nat.eqb_neq. apply memb_true in Hm.
        assert (Hlen : (length (c_pk c :: map fst (deletes ups)) <= length (vkeys (ch_next ch)))%nat).
        { apply NoDup_incl_length.
          - apply NoDup_ListNoDup. apply NoDup_cons. split.
            + intros Hin. apply elem_of_map_iff in Hin as ([k p] & Hk & Hin). simpl in Hk. subst k.
              apply filter_In_elem in Hin as [Hin Hz]. simpl in Hz. apply Z.eqb_eq in Hz. subst p.
              assert ((c_pk c, c_power c) = (c_pk c, 0)); [|naive_solver lia].
              apply (fmap_inj_on fst ups); done.
            + unfold deletes. by apply NoDup_map_filter.
          - intros k Hk. apply elem_of_list_In. apply elem_of_list_In in Hk.
            apply elem_of_cons in Hk as [->|Hk]; [done|].
            apply elem_of_map_iff in Hk as ([k' p] & -> & Hin). simpl.
            apply filter_In_elem in Hin as [Hin Hz]. simpl in Hz. apply Z.eqb_eq in Hz. subst p.
            apply Hups in Hin as [(c' & Hc' & -> & Hp)|[_ Ha]]; [destruct (Helpos c' Hc'); lia|].
            by apply Hpa_next. }
        simpl in Hlen. unfold vkeys in Hlen. rewrite !map_length in Hlen.
        intros E. apply (Nat.lt_irrefl (length (deletes ups))).
        exact (eq_ind _ (fun n => (length (deletes ups) < n)%nat) Hlen _ E).
      + left. apply Nat.eqb_neq. unfold num_new.
        assert (Hin : (c_pk c, c_power c) ∈ List.filter (fun u : upd => (0 <? u.2) && negb (memb u.1 (vkeys (ch_next ch)))) ups).
        { apply filter_In_elem. split; [done|]. simpl. rewrite Hm. simpl. rewrite andb_true_r. apply Z.ltb_lt. lia. }
        exact (in_length_pos _ _ Hin).
    - apply forallb_elem. intros [k p] Hin. simpl. apply memb_true.
      apply filter_In_elem in Hin as [Hin Hz]. simpl in Hz. apply Z.eqb_eq in Hz. subst p.
      apply Hups in Hin as [(c' & Hc' & -> & Hp)|[_ Ha]]; [destruct (Helpos c' Hc'); lia|].
      by apply Hpa_next.
    - apply Z.leb_le. etrans; [|apply (co_sum _ _ Hcap)].
      destruct Hnext' as [Hnd Hb].
      apply total_le_capsum; [apply Hcap|apply Hcap|done|].
      intros k p Hin. destruct (Hb k p Hin). split; [done|lia]. }
  fold cands el la pg. fold ups. rewrite Hacc. eexists. split; [done|].
  constructor; simpl.
  - subst h. lia.
  - apply Hinv.
  - apply Hinv.
  - done.
  - (* ci_1 of the new state *)
    intros a Ha. unfold pgh. simpl. rewrite finish_on by done. simpl. fold nt pa.
    rewrite purge_height_foldr. destruct (ci_2 _ _ _ Hinv a Ha) as [?|[? ?]]; [by left|right].
    unfold pgh in *. fold pg in H, H0. destruct (decide (a ∈ pa)); subst h; lia.
  - intros a Ha. unfold pgh. simpl. rewrite finish_on by done. simpl. fold nt pa.
    rewrite purge_height_foldr.
    destruct (decide (a ∈ vkeys (apply_updates (ch_next ch) ups))) as [?|Hout]; [by left|right].
    destruct (apply_removed _ _ _ Ha Hout) as (p & Hin & Hp).
    apply Hups in Hin as [(c' & Hc' & -> & ->)|[_ Hpa]]; [destruct (Helpos c' Hc'); lia|].
    rewrite decide_True by done. subst h. lia.
  - intros a. unfold pgh. simpl. rewrite finish_on by done. simpl. fold nt pa.
    rewrite purge_height_foldr. pose proof (ci_pg _ _ _ Hinv a) as Hle. unfold pgh in Hle. fold pg in Hle.
    destruct (decide (a ∈ pa)); subst h; lia.
Qed.

Lemma run_ok U cap es : forall ch, cap_ok U cap -> chain_inv U cap ch -> Forall (env_ok U cap) es ->
  exists ch', chain_run ch es = Some ch' /\ chain_inv U cap ch'.
Proof.
  induction es as [|e es IH]; simpl; intros ch Hcap Hinv Hes; [eauto|].
  apply Forall_cons in Hes as [He Hes].
  destruct (step_ok U cap ch e Hcap Hinv He) as (ch1 & -> & Hinv1). by apply IH.
Qed.

Lemma accepted U cap g es : cap_ok U cap -> genesis_ok U cap g -> Forall (env_ok U cap) es ->
  is_Some (chain_run (chain_init g) es).
Proof.
  intros Hcap Hg Hes. destruct (run_ok U cap es (chain_init g) Hcap (init_inv _ _ _ Hg) Hes) as (ch' & -> & _).
  by eexists.
Qed.

(* chain_run = Some means what it should: every block's update list passed acceptb *)
Lemma run_some_accepts es : forall ch ch', chain_run ch es = Some ch' ->
  forall pre e post, es = pre ++ e :: post ->
  exists ch1, chain_run ch pre = Some ch1 /\ acceptb (ch_next ch1) (chain_updates ch1 e).1 = true.
Proof.
  induction es as [|e0 es IH]; intros ch ch' Hrun pre e post Heq.
  - by destruct pre.
  - simpl in Hrun. destruct (chain_step ch e0) as [c1|] eqn:Hs; [|done].
    destruct pre as [|p0 pre]; simpl in Heq; injection Heq as -> ->.
    + exists ch. split; [done|]. unfold chain_step in Hs.
      destruct (acceptb (ch_next ch) (chain_updates ch e).1); done.
    + simpl. rewrite Hs. eapply IH; eauto.
Qed.

Lemma no_frozen_elected h bvd frozen minp top cands c : NoDup cands ->
  c ∈ elect minp top (malicious_set h bvd frozen) cands -> c_addr c ∉ frozen.
Proof.
  intros Hnd Hc. unfold malicious_set in Hc.
  exact (proj2 (ve_elig _ _ _ _ _ (elect_valid minp top frozen cands Hnd) c Hc)).
Qed.

(* ---------- records: "address = address of the key" is an invariant of the record table ---------- *)
Definition table_ok (t : list cand) : Prop := NoDup (map c_addr t) /\ well_keyed t.

Lemma upd_rec_addr a f t : map c_addr (upd_rec a f t) = map c_addr t.
Proof. unfold upd_rec. rewrite map_map. apply map_ext. intros c. by destruct (N.eqb (c_addr c) a). Qed.

Lemma upd_rec_keyed a f t : well_keyed t -> well_keyed (upd_rec a f t).
Proof.
  intros H c Hc. unfold upd_rec in Hc. apply elem_of_map_iff in Hc as (d & -> & Hd).
  destruct (N.eqb (c_addr d) a); simpl; by apply H.
Qed.

Lemma has_rec_false a t : has_rec a t = false -> a ∉ map c_addr t.
Proof.
  intros H Hin. apply elem_of_map_iff in Hin as (c & -> & Hc).
  assert (has_rec (c_addr c) t = true); [|congruence].
  apply existsb_exists. exists c. split; [by apply elem_of_list_In|apply N.eqb_refl].
Qed.

Lemma rec_step_ok t o : table_ok t -> table_ok (rec_step t o).
Proof.
  intros [Hnd Hk]. destruct o as [a pk amt|a amt|a st|a]; simpl.
  - destruct (N.eqb a pk) eqn:E; simpl; [|done]. apply N.eqb_eq in E. subst pk.
    destruct (has_rec a t) eqn:Hh.
    + split; [by rewrite upd_rec_addr|by apply upd_rec_keyed].
    + split.
      * rewrite map_app. apply NoDup_app. split; [done|]. split; [|simpl; apply NoDup_singleton].
        intros x Hx Hx2. simpl in Hx2. apply elem_of_list_singleton in Hx2. subst x. by apply (has_rec_false _ _ Hh).
      * intros c Hc. apply elem_of_app in Hc as [Hc|Hc]; [by apply Hk|].
        apply elem_of_list_singleton in Hc. by subst c.
  - destruct (existsb _ t); [done|]. split; [by rewrite upd_rec_addr|by apply upd_rec_keyed].
  - split; [by rewrite upd_rec_addr|by apply upd_rec_keyed].
  - split; [by apply NoDup_map_filter|]. intros c Hc. apply filter_In_elem in Hc as [Hc _]. by apply Hk.
Qed.

(* no record operation of the handlers makes a stake negative (the handlers refuse negative
   amounts since /repo 48c76fc, HandleUnstake refuses a negative result since e681066) *)
Definition op_nonneg (o : recop) : Prop :=
  match o with RStake _ _ amt => 0 <= amt | RRewrite _ st => 0 <= st | _ => True end.
Definition stakes_nonneg (t : list cand) : Prop := forall c, c ∈ t -> 0 <= c_stake c.

Lemma rec_step_nonneg t o : op_nonneg o -> stakes_nonneg t -> stakes_nonneg (rec_step t o).
Proof.
  intros Ho Ht. destruct o as [a pk amt|a amt|a st|a]; simpl in *.
  - destruct (negb (N.eqb a pk)); [done|]. destruct (has_rec a t).
    + intros c Hc. unfold upd_rec in Hc. apply elem_of_map_iff in Hc as (d & -> & Hd).
      specialize (Ht d Hd). destruct (N.eqb (c_addr d) a); simpl; lia.
    + intros c Hc. apply elem_of_app in Hc as [Hc|Hc]; [by apply Ht|].
      apply elem_of_list_singleton in Hc. by subst c.
  - destruct (existsb _ t) eqn:E; [done|].
    intros c Hc. unfold upd_rec in Hc. apply elem_of_map_iff in Hc as (d & -> & Hd).
    destruct (N.eqb (c_addr d) a) eqn:Ea; simpl; [|by apply Ht].
    destruct (c_stake d - amt <? 0) eqn:El; [|apply Z.ltb_ge in El; lia].
    exfalso. assert (existsb (fun c => N.eqb (c_addr c) a && (c_stake c - amt <? 0)) t = true); [|congruence].
    apply existsb_exists. exists d. split; [by apply elem_of_list_In|by rewrite Ea, El].
  - intros c Hc. unfold upd_rec in Hc. apply elem_of_map_iff in Hc as (d & -> & Hd).
    destruct (N.eqb (c_addr d) a); simpl; [lia|by apply Ht].
  - intros c Hc. apply filter_In_elem in Hc as [Hc _]. by apply Ht.
Qed.

Lemma rec_run_nonneg ops : forall t, Forall op_nonneg ops -> stakes_nonneg t -> stakes_nonneg (rec_run t ops).
Proof.
  unfold rec_run. induction ops as [|o ops IH]; simpl; intros t Ho Ht; [done|].
  apply Forall_cons in Ho as [Ho Hos]. apply IH; [done|]. by apply rec_step_nonneg.
Qed.

Lemma rec_run_ok ops : forall t, table_ok t -> table_ok (rec_run t ops).
Proof.
  unfold rec_run. induction ops as [|o ops IH]; simpl; intros t Ht; [done|]. apply IH. by apply rec_step_ok.
Qed.

(* a history of blocks: the record operations executed in the block (transactions, then the
   EndBlock deletions) and what the election of that block is given besides the table *)
Record blk := mkblk { bk_ops : list recop; bk_opts : opts; bk_mal : list key; bk_byz : bool; bk_el : list cand }.

(* the candidate table of a block is the table left by the previous block *)
Fixpoint envs_of (t : list cand) (bs : list blk) : list env :=
  match bs with
  | [] => []
  | b :: r => mke t (bk_opts b) (bk_mal b) (bk_byz b) (bk_el b) :: envs_of (rec_run t (bk_ops b)) r
  end.

(* what is still assumed of a block once the keys are an invariant *)
Record env_rest (U : list key) (cap : key -> Z) (e : env) : Prop := {
  er_min : 1 <= min_power (e_opts e);
  er_top : 1 <= o_top (e_opts e);
  er_some : exists c, c ∈ e_cands e /\ eligible (min_power (e_opts e)) (e_mal e) c;
  er_valid : valid_election (min_power (e_opts e)) (o_top (e_opts e)) (e_mal e) (e_cands e) (e_el e);
  er_cap : forall c, c ∈ e_cands e -> c_pk c ∈ U /\ c_power c <= cap (c_pk c) }.

Lemma envs_of_ok U cap bs : forall t, table_ok t -> Forall (env_rest U cap) (envs_of t bs) ->
  Forall (env_ok U cap) (envs_of t bs).
Proof.
  induction bs as [|b bs IH]; simpl; intros t Ht Hr; [constructor|].
  apply Forall_cons in Hr as [Hr Hrs]. apply Forall_cons. split.
  - destruct Ht as [Hnd Hk]. destruct Hr. by constructor.
  - apply IH; [by apply rec_run_ok|done].
Qed.

Lemma accepted_reachable U cap g t0 bs : cap_ok U cap -> genesis_ok U cap g -> table_ok t0 ->
  Forall (env_rest U cap) (envs_of t0 bs) -> is_Some (chain_run (chain_init g) (envs_of t0 bs)).
Proof. intros Hcap Hg Ht Hr. apply (accepted U cap); [done|done|]. by apply envs_of_ok. Qed.

(* ---------- convergence ---------- *)
Lemma elem_apply1 s u k p : (k, p) ∈ apply1 s u <-> ((k, p) ∈ s /\ k <> u.1) \/ ((k, p) = u /\ 0 < p).
Proof.
  unfold apply1.
  assert (Hf : (k, p) ∈ List.filter (fun x : upd => negb (N.eqb x.1 u.1)) s <-> (k, p) ∈ s /\ k <> u.1).
  { rewrite filter_In_elem. simpl. rewrite negb_true_iff, N.eqb_neq. tauto. }
  destruct (0 <? u.2) eqn:Hp.
  - apply Z.ltb_lt in Hp. rewrite elem_of_app, Hf, elem_of_list_singleton. split; [|intros [?|[? ?]]; [by left|by right]].
    intros [?|Heq]; [by left|right]. subst u. simpl in Hp. done.
  - apply Z.ltb_ge in Hp. rewrite Hf. split; [by left|]. intros [?|[<- ?]]; [done|simpl in *; lia].
Qed.

Lemma apply_spec ups : forall s k p, NoDup (map fst ups) ->
  (k, p) ∈ apply_updates s ups <-> ((k, p) ∈ ups /\ 0 < p) \/ ((k, p) ∈ s /\ k ∉ map fst ups).
Proof.
  unfold apply_updates. induction ups as [|u ups IH]; simpl; intros s k p Hnd.
  - split; [intros ?; right; split; [done|apply not_elem_of_nil]|intros [[H _]|[? _]]; [by apply elem_of_nil in H|done]].
  - apply NoDup_cons in Hnd as [Hu Hnd]. rewrite (IH _ _ _ Hnd), elem_apply1. rewrite !elem_of_cons. split.
    + intros [[? ?]|[[[? ?]|[-> ?]] Hn]].
      * left. split; [by right|done].
      * right. split; [done|]. intros [?|?]; done.
      * left. split; [by left|done].
    + intros [[[Heq|?] ?]|[? Hn]].
      * subst u. right. split; [right; done|]. exact Hu.
      * left. done.
      * right. split; [left; split; [done|]; intros ->; apply Hn; by left|]. intros ?. apply Hn. by right.
Qed.

Lemma step_shape ch e ch' : chain_step ch e = Some ch' ->
  ch' = mkch (ch_cur ch) (ch_next ch) (apply_updates (ch_next ch) (chain_updates ch e).1)
             (chain_updates ch e).2 (ch_height ch + 1).
Proof. unfold chain_step. destruct (acceptb _ _); [by intros [= <-]|done]. Qed.

(* the update list of one block under env_ok *)
Lemma ups_spec U cap e h la pg : env_ok U cap e -> (1 <? h) || e_byz e = true -> NoDup la ->
  let pa := purged_addrs h (non_top (e_cands e) (e_el e)) pg la in
  let ups := (finish h (e_byz e) (e_cands e) (e_el e) la pg).1 in
  (forall k p, (k, p) ∈ ups <-> (exists c, c ∈ e_el e /\ k = c_pk c /\ p = c_power c) \/ (p = 0 /\ k ∈ pa)) /\
  (forall a c, a ∈ pa -> c ∈ e_el e -> c_pk c <> a) /\
  NoDup (map fst ups).
Proof.
  intros He Hon Hla pa ups.
  set (cands := e_cands e) in *. set (el := e_el e) in *. set (nt := non_top cands el) in *.
  pose proof (eo_valid _ _ _ He) as Hv. fold cands el in Hv.
  pose proof (eo_keyed _ _ _ He) as Hkeyed. fold cands in Hkeyed.
  assert (Hndaddr : NoDup (map c_addr cands)) by apply He.
  assert (Hndpk : NoDup (map c_pk cands)).
  { erewrite map_ext_in; [exact Hndaddr|]. intros c Hc. symmetry. apply Hkeyed. by apply elem_of_list_In. }
  assert (Hpk : forall a, a ∈ pa -> default 0%N (assoc a nt) = a).
  { intros a Ha. exact (proj1 (purged_key _ _ _ _ _ _ Hkeyed Ha)). }
  assert (Hups : forall k p, (k, p) ∈ ups <->
     (exists c, c ∈ el /\ k = c_pk c /\ p = c_power c) \/ (p = 0 /\ k ∈ pa)).
  { intros k p. unfold ups. rewrite (ups_elem _ _ _ _ _ _ _ _ Hon). fold nt pa. split.
    - intros [?|(-> & a & Ha & ->)]; [by left|right]. split; [done|]. by rewrite (Hpk a Ha).
    - intros [?|(-> & Ha)]; [by left|right]. split; [done|]. exists k. split; [done|]. by rewrite (Hpk k Ha). }
  assert (Hpa_notel : forall a c, a ∈ pa -> c ∈ el -> c_pk c <> a).
  { intros a c Ha Hc Heq. destruct (purged_key _ _ _ _ _ _ Hkeyed Ha) as [_ (d & Hd & Hda & Hne)].
    assert (Hcc : c ∈ cands) by (by eapply ve_sub).
    assert (c = d).
    { apply (fmap_inj_on c_addr cands); try done. rewrite Hda, <- Heq. by apply Hkeyed. }
    subst d. rewrite inel_true in Hne; done. }
  split; [done|]. split; [done|].
  unfold ups. rewrite (finish_perm _ _ _ _ _ _ Hon). fold nt pa. rewrite map_app. apply NoDup_app. split; [|split].
  - unfold pos_updates. rewrite map_map. simpl. apply (NoDup_map_sub c_pk el cands); [apply Hv| |done].
    intros c Hc. by eapply ve_sub.
  - intros k Hk Hk2. unfold pos_updates in Hk. rewrite map_map in Hk. simpl in Hk.
    apply elem_of_map_iff in Hk as (c & -> & Hc).
    unfold purge_updates in Hk2. rewrite map_map in Hk2. simpl in Hk2.
    apply elem_of_map_iff in Hk2 as (a & Heq & Ha).
    rewrite (Hpk a Ha) in Heq. by apply (Hpa_notel a c).
  - unfold purge_updates. rewrite map_map. simpl.
    erewrite map_ext_in; [rewrite map_id|].
    + unfold pa, purged_addrs. by apply filter_NoDup.
    + intros a Ha. apply elem_of_list_In in Ha. by apply Hpk.
Qed.

Definition chain_pa (ch : chain) (e : env) : list key :=
  purged_addrs (ch_height ch + 1) (non_top (e_cands e) (e_el e)) (ch_purge ch) (vkeys (ch_prev ch)).

Lemma step_facts U cap ch e ch' : chain_inv U cap ch -> env_ok U cap e -> 1 <= ch_height ch ->
  chain_step ch e = Some ch' ->
  ch_prev ch' = ch_cur ch /\ ch_cur ch' = ch_next ch /\ ch_height ch' = ch_height ch + 1 /\
  (forall a, pgh ch' a = if decide (a ∈ chain_pa ch e) then ch_height ch + 1 else pgh ch a) /\
  (forall k p, (k, p) ∈ ch_next ch' <->
     (k, p) ∈ pos_updates (e_el e) \/
     ((k, p) ∈ ch_next ch /\ k ∉ map c_pk (e_el e) /\ k ∉ chain_pa ch e)).
Proof.
  intros Hinv He Hh Hs. apply step_shape in Hs. subst ch'. simpl.
  assert (Hon : (1 <? ch_height ch + 1) || e_byz e = true).
  { apply orb_true_iff. left. apply Z.ltb_lt. lia. }
  destruct (ups_spec U cap e (ch_height ch + 1) (vkeys (ch_prev ch)) (ch_purge ch) He Hon (ci_prev _ _ _ Hinv))
    as (Hups & Hnotel & Hnd).
  fold (chain_pa ch e) in Hups, Hnotel.
  assert (Help : forall c, c ∈ e_el e -> 1 <= c_power c).
  { intros c Hc. destruct (ve_elig _ _ _ _ _ (eo_valid _ _ _ He) c Hc). pose proof (eo_min _ _ _ He). lia. }
  split; [done|]. split; [done|]. split; [done|]. split.
  - intros a. unfold pgh, chain_updates. simpl. rewrite finish_on by done. simpl. by rewrite purge_height_foldr.
  - intros k p. unfold chain_updates. rewrite (apply_spec _ _ _ _ Hnd). split.
    + intros [[Hin Hp]|[Hin Hn]].
      * left. apply Hups in Hin as [(c & Hc & -> & ->)|[-> _]]; [|lia].
        apply elem_of_map_iff. by exists c.
      * right. split; [done|]. split.
        -- intros Hk. apply Hn. apply elem_of_map_iff in Hk as (c & -> & Hc).
           apply elem_of_map_iff. exists (c_pk c, c_power c). split; [done|]. apply Hups. left. eauto.
        -- intros Hk. apply Hn. apply elem_of_map_iff. exists (k, 0). split; [done|]. apply Hups. right. done.
    + intros [Hin|(Hin & HnE & Hnpa)].
      * apply elem_of_map_iff in Hin as (c & [= -> ->] & Hc). left. split; [|specialize (Help c Hc); lia].
        apply Hups. left. eauto.
      * right. split; [done|]. intros Hk. apply elem_of_map_iff in Hk as ([k' p'] & Hkk & Hin'). simpl in Hkk. subst k'.
        apply Hups in Hin' as [(c & Hc & -> & ->)|[-> Hpa]]; [|done].
        apply HnE. apply elem_of_map_iff. by exists c.
Qed.

Lemma step_inv U cap ch e ch' : cap_ok U cap -> chain_inv U cap ch -> env_ok U cap e ->
  chain_step ch e = Some ch' -> chain_inv U cap ch'.
Proof.
  intros Hcap Hinv He Hs. destruct (step_ok U cap ch e Hcap Hinv He) as (c & Hc & Hi).
  rewrite Hs in Hc. by injection Hc as ->.
Qed.

Lemma assoc_non_top_some cands el c : c ∈ cands -> inel c el = false ->
  is_Some (assoc (c_addr c) (non_top cands el)).
Proof.
  unfold non_top. induction cands as [|d cands IH]; intros Hc Hn; [by apply elem_of_nil in Hc|].
  simpl. destruct (inel d el) eqn:Hd; simpl.
  - apply elem_of_cons in Hc as [->|Hc]; [congruence|by apply IH].
  - destruct (N.eqb (c_addr c) (c_addr d)) eqn:E; [by eexists|].
    apply elem_of_cons in Hc as [->|Hc]; [by rewrite N.eqb_refl in E|by apply IH].
Qed.

Lemma in_pos_key el k p : (k, p) ∈ pos_updates el -> k ∈ map c_pk el.
Proof. intros H. apply elem_of_map_iff in H as (c & [= -> ->] & Hc). apply elem_of_map_iff. by exists c. Qed.

(* three blocks of unchanged input: the set that results is exactly the election, provided every
   member of the pending set still has a validator record *)
Lemma conv3 U cap ch0 e ch3 : cap_ok U cap -> chain_inv U cap ch0 -> env_ok U cap e ->
  1 <= ch_height ch0 ->
  (forall a, a ∈ vkeys (ch_next ch0) -> a ∈ map c_addr (e_cands e)) ->
  chain_run ch0 [e; e; e] = Some ch3 ->
  forall k p, (k, p) ∈ ch_next ch3 <-> (k, p) ∈ pos_updates (e_el e).
Proof.
  intros Hcap Hinv0 He Hh Hrec Hrun. simpl in Hrun.
  destruct (chain_step ch0 e) as [ch1|] eqn:Hs1; [|done].
  destruct (chain_step ch1 e) as [ch2|] eqn:Hs2; [|done].
  destruct (chain_step ch2 e) as [ch3'|] eqn:Hs3; [|done]. injection Hrun as ->.
  pose proof (step_inv _ _ _ _ _ Hcap Hinv0 He Hs1) as Hinv1.
  pose proof (step_inv _ _ _ _ _ Hcap Hinv1 He Hs2) as Hinv2.
  destruct (step_facts _ _ _ _ _ Hinv0 He Hh Hs1) as (Hp1 & Hc1 & Hh1 & Hpg1 & Hn1).
  assert (Hh1' : 1 <= ch_height ch1) by lia.
  destruct (step_facts _ _ _ _ _ Hinv1 He Hh1' Hs2) as (Hp2 & Hc2 & Hh2 & Hpg2 & Hn2).
  assert (Hh2' : 1 <= ch_height ch2) by lia.
  destruct (step_facts _ _ _ _ _ Hinv2 He Hh2' Hs3) as (Hp3 & Hc3 & Hh3 & Hpg3 & Hn3).
  intros k p. split; [|intros H; apply Hn3; by left].
  intros H3. apply Hn3 in H3 as [?|(H2 & HnE & Hnpa2)]; [done|]. exfalso.
  apply Hn2 in H2 as [H2|(H1 & _ & Hnpa1)]; [by apply HnE, (in_pos_key _ _ p)|].
  apply Hn1 in H1 as [H1|(H0 & _ & Hnpa0)]; [by apply HnE, (in_pos_key _ _ p)|].
  assert (Hk0 : k ∈ vkeys (ch_next ch0)) by (apply elem_of_map_iff; by exists (k, p)).
  (* k signs block ch_height ch0 + 3 and has a record that is not elected *)
  apply Hnpa2. unfold chain_pa. apply purged_addr_spec. split; [by rewrite Hp2, Hc1|].
  destruct (proj1 (elem_of_map_iff _ _ _) (Hrec k Hk0)) as (c & -> & Hc).
  pose proof (eo_keyed _ _ _ He c Hc) as Hkey.
  assert (Hnel : inel c (e_el e) = false).
  { destruct (inel c (e_el e)) eqn:Hi; [|done]. exfalso.
    apply existsb_exists in Hi as (d & Hd & Hda). apply N.eqb_eq in Hda. apply elem_of_list_In in Hd.
    assert (d = c).
    { apply (fmap_inj_on c_addr (e_cands e)); [apply He|by eapply ve_sub, Hd; apply He|done|done]. }
    subst d. apply HnE. rewrite Hkey. apply elem_of_map_iff. by exists c. }
  destruct (assoc_non_top_some _ _ _ Hc Hnel) as [k' Hk']. exists k'. split; [done|].
  fold (pgh ch2 (c_addr c)). rewrite Hpg2, decide_False by done. rewrite Hpg1, decide_False by done.
  pose proof (ci_pg _ _ _ Hinv0 (c_addr c)) as Hle.
  unfold purge_guard. apply andb_false_iff. right. apply Z.leb_gt. lia.
Qed.

(* once it is the election it stays the election while the input does not change *)
Lemma conv_stay U cap ch e ch' : chain_inv U cap ch -> env_ok U cap e -> 1 <= ch_height ch ->
  (forall k p, (k, p) ∈ ch_next ch <-> (k, p) ∈ pos_updates (e_el e)) ->
  chain_step ch e = Some ch' ->
  forall k p, (k, p) ∈ ch_next ch' <-> (k, p) ∈ pos_updates (e_el e).
Proof.
  intros Hinv He Hh Heq Hs.
  destruct (step_facts _ _ _ _ _ Hinv He Hh Hs) as (_ & _ & _ & _ & Hn).
  intros k p. rewrite Hn. split; [|by left]. intros [?|(Hin & HnE & _)]; [done|].
  exfalso. apply HnE. apply Heq in Hin. by apply (in_pos_key _ _ p).
Qed.

Lemma run_replicate_stay U cap e n : forall ch ch', cap_ok U cap -> chain_inv U cap ch -> env_ok U cap e ->
  1 <= ch_height ch ->
  (forall k p, (k, p) ∈ ch_next ch <-> (k, p) ∈ pos_updates (e_el e)) ->
  chain_run ch (replicate n e) = Some ch' ->
  forall k p, (k, p) ∈ ch_next ch' <-> (k, p) ∈ pos_updates (e_el e).
Proof.
  induction n as [|n IH]; simpl; intros ch ch' Hcap Hinv He Hh Heq Hrun; [by injection Hrun as <-|].
  destruct (chain_step ch e) as [ch1|] eqn:Hs; [|done].
  destruct (step_facts _ _ _ _ _ Hinv He Hh Hs) as (_ & _ & Hh1 & _ & _).
  eapply (IH ch1); eauto.
  - by eapply step_inv.
  - lia.
  - by eapply conv_stay.
Qed.

Lemma converges U cap ch e n : cap_ok U cap -> chain_inv U cap ch -> env_ok U cap e ->
  1 <= ch_height ch ->
  (forall a, a ∈ vkeys (ch_next ch) -> a ∈ map c_addr (e_cands e)) ->
  exists ch', chain_run ch (replicate (3 + n) e) = Some ch' /\
    ch_next ch' ≡ₚ pos_updates (e_el e).
Proof.
  intros Hcap Hinv He Hh Hrec.
  destruct (run_ok U cap (replicate (3 + n) e) ch Hcap Hinv) as (ch' & Hrun & Hinv').
  { apply Forall_forall. intros x Hx. apply elem_of_replicate in Hx as [-> _]. done. }
  exists ch'. split; [done|].
  change (replicate (3 + n) e) with ([e; e; e] ++ replicate n e) in Hrun.
  assert (Hsplit : exists ch3, chain_run ch [e; e; e] = Some ch3 /\ chain_run ch3 (replicate n e) = Some ch').
  { simpl in Hrun |- *.
    destruct (chain_step ch e) as [c1|]; [|done]. destruct (chain_step c1 e) as [c2|]; [|done].
    destruct (chain_step c2 e) as [c3|]; [|done]. eauto. }
  destruct Hsplit as (ch3 & Hr3 & Hrn).
  pose proof (conv3 _ _ _ _ _ Hcap Hinv He Hh Hrec Hr3) as H3.
  destruct (run_ok U cap [e; e; e] ch Hcap Hinv) as (ch3' & Hr3' & Hinv3).
  { repeat apply Forall_cons_2; try exact He. apply Forall_nil_2. }
  rewrite Hr3 in Hr3'. injection Hr3' as <-.
  assert (Hh3 : 1 <= ch_height ch3).
  { simpl in Hr3. destruct (chain_step ch e) as [c1|] eqn:E1; [|done]. destruct (chain_step c1 e) as [c2|] eqn:E2; [|done].
    destruct (chain_step c2 e) as [c3|] eqn:E3; [|done]. injection Hr3 as <-.
    apply step_shape in E1, E2, E3. subst. simpl. lia. }
  pose proof (run_replicate_stay _ _ _ _ _ _ Hcap Hinv3 He Hh3 H3 Hrn) as Hfin.
  apply NoDup_Permutation.
  - eapply NoDup_fmap_1. apply (ci_next _ _ _ Hinv').
  - unfold pos_updates. eapply (NoDup_fmap_1 fst). rewrite <- list_fmap_compose.
    apply (NoDup_map_sub c_pk (e_el e) (e_cands e)); [apply He|intros c Hc; by eapply ve_sub, Hc; apply He|].
    erewrite map_ext_in; [apply (eo_nodup _ _ _ He)|]. intros c Hc. symmetry. apply He. by apply elem_of_list_In.
  - intros [k p]. apply Hfin.
Qed.

Lemma converges5 U cap ch e : cap_ok U cap -> chain_inv U cap ch -> env_ok U cap e ->
  1 <= ch_height ch ->
  (forall a, a ∈ vkeys (ch_next ch) -> a ∈ map c_addr (e_cands e)) ->
  exists ch', chain_run ch (replicate 5 e) = Some ch' /\ ch_next ch' ≡ₚ pos_updates (e_el e).
Proof. exact (converges U cap ch e 2). Qed.
