(* ElectionProofs.v — lemmas for C10 (validator election and Tendermint acceptance). *)
From stdpp Require Import gmap list sorting.
From Coq Require Import ZArith Lia.
From OL Require Import theories.Election theories.Tendermint.
Local Open Scope Z_scope.

(* ---------- basic facts about the boolean helpers ---------- *)
Lemma memb_true k l : memb k l = true <-> k ∈ l.
Proof.
  unfold memb. rewrite existsb_exists. split.
  - intros (x & Hin & He). apply N.eqb_eq in He. subst. by apply elem_of_list_In.
  - intros H. exists k. split; [by apply elem_of_list_In | apply N.eqb_refl].
Qed.

Lemma memb_false k l : memb k l = false <-> k ∉ l.
Proof. rewrite <- memb_true. destruct (memb k l); split; intros; congruence || tauto. Qed.

Lemma eligibleb_true minp mal c : eligibleb minp mal c = true <-> eligible minp mal c.
Proof.
  unfold eligibleb, eligible. rewrite andb_true_iff, negb_true_iff, Z.leb_le, memb_false. tauto.
Qed.

Lemma filter_In_elem {A} (f : A -> bool) l x : x ∈ List.filter f l <-> x ∈ l /\ f x = true.
Proof. rewrite !elem_of_list_In. apply filter_In. Qed.

Lemma filter_sublist {A} (f : A -> bool) l : List.filter f l `sublist_of` l.
Proof.
  induction l as [|x l IH]; simpl; [constructor|].
  destruct (f x); [by apply sublist_skip | by apply sublist_cons].
Qed.

Lemma sublist_NoDup' {A} (l k : list A) : l `sublist_of` k -> NoDup k -> NoDup l.
Proof.
  induction 1 as [|x l k Hs IH|x l k Hs IH]; intros Hnd; [done| |].
  - apply NoDup_cons in Hnd as [Hx Hnd]. apply NoDup_cons. split; [|by apply IH].
    intros Hin. apply Hx. eapply elem_of_submseteq; [done|by apply sublist_submseteq].
  - apply NoDup_cons in Hnd as [_ Hnd]. by apply IH.
Qed.

Lemma filter_NoDup {A} (f : A -> bool) l : NoDup l -> NoDup (List.filter f l).
Proof. intros H. eapply sublist_NoDup'; [apply filter_sublist | done]. Qed.

(* ---------- the deterministic election is a valid election ---------- *)
Global Instance pow_ge_trans : Transitive pow_ge.
Proof. intros x y z. unfold pow_ge. lia. Qed.
Global Instance pow_ge_total : Total pow_ge.
Proof. intros x y. unfold pow_ge. lia. Qed.

Lemma StronglySorted_filter {A} (R : relation A) (f : A -> bool) l :
  StronglySorted R l -> StronglySorted R (List.filter f l).
Proof.
  induction 1 as [|x l Hs IH Hall]; simpl; [constructor|].
  destruct (f x); [|done]. constructor; [done|].
  rewrite Forall_forall in *. intros y Hy. apply Hall. apply filter_In_elem in Hy. tauto.
Qed.

Lemma elect_valid minp top mal cands :
  NoDup cands -> valid_election minp top mal cands (elect minp top mal cands).
Proof.
  intros Hnd. unfold elect.
  set (S := merge_sort pow_ge cands).
  assert (HS : S ≡ₚ cands) by apply merge_sort_Permutation.
  assert (Hsorted : StronglySorted pow_ge (List.filter (eligibleb minp mal) S)).
  { apply StronglySorted_filter, StronglySorted_merge_sort; apply _. }
  set (L := List.filter (eligibleb minp mal) S) in *.
  set (n := Z.to_nat top).
  split.
  - eapply sublist_NoDup'; [apply sublist_take|]. apply filter_NoDup. by rewrite HS.
  - intros c Hc. apply elem_of_take in Hc as (i & Hi & _). apply elem_of_list_lookup_2 in Hi.
    apply filter_In_elem in Hi as [Hi _]. by rewrite <- HS.
  - intros c Hc. apply elem_of_take in Hc as (i & Hi & _). apply elem_of_list_lookup_2 in Hi.
    apply filter_In_elem in Hi as [_ Hi]. by apply eligibleb_true.
  - rewrite take_length. subst n. lia.
  - intros d Hd Hel Hnot.
    assert (HdL : d ∈ L).
    { apply filter_In_elem. split; [by rewrite HS | by apply eligibleb_true]. }
    rewrite <- (take_drop n L) in HdL. apply elem_of_app in HdL as [?|Hdrop]; [done|].
    assert (Hlen : (n <= length L)%nat).
    { destruct (decide (n <= length L)%nat); [done|]. rewrite drop_ge in Hdrop by lia.
      by apply elem_of_nil in Hdrop. }
    split.
    + rewrite take_length. subst n. lia.
    + intros c Hc. rewrite <- (take_drop n L) in Hsorted.
      exact (elem_of_StronglySorted_app _ _ _ _ _ Hsorted Hc Hdrop).
Qed.
