package main

import (
	"fmt"
	"go/ast"
	"go/token"
	"go/types"
	"os"
	"sort"
	"strings"
)

// ---------- Facts_Globals: package-level variables of the consensus packages that are written at run time ----------
//
// A package-level variable that is assigned (or whose element/field is assigned, or that is
// incremented) inside a function body is process-local memory that no store commit persists:
// exactly what makes two processes fed the same blocks differ (a node restarted in between, a node
// with another identity).  Every such variable is listed as ("pkg.name", "type", "writers") where
// writers is the sorted list of functions that write it ("init" for init functions).  The Coq side
// (theories/Caches.v, global_class) assigns each one an audited class; an unknown variable, or a
// known one with another writer set, breaks the obligation of props/C08.v and props/C01.v.
//
// Also listed: the READ sites of the node-local inputs that consensus code is known to consult
// (the witness flag, the job store) as ("function", "what", count) — Facts_Globals.local_reads —
// so that a new consultation of node-local data inside a block hook or a transition shows up.

func genGlobals() {
	if os.Getenv("SRCFACTS_TYPED") == "0" {
		return
	}
	pkgs := loadTyped()
	const modPrefix = "github.com/Oneledger/protocol/"
	type gv struct {
		typ     string
		writers map[string]bool
	}
	vars := map[string]*gv{}
	reads := map[string]int{}
	short := func(t types.Type) string {
		return types.TypeString(t, func(p *types.Package) string { return strings.TrimPrefix(p.Path(), modPrefix) })
	}
	for _, p := range pkgs {
		if !strings.HasPrefix(p.PkgPath, modPrefix) {
			continue
		}
		rel := strings.TrimPrefix(p.PkgPath, modPrefix)
		info := p.TypesInfo
		// base identifier of an assignable expression: x, x.f, x[i], *x, (x)
		var base func(e ast.Expr) *ast.Ident
		base = func(e ast.Expr) *ast.Ident {
			switch u := e.(type) {
			case *ast.Ident:
				return u
			case *ast.SelectorExpr:
				// pkg.Var (qualified identifier) or x.f
				if id, ok := u.X.(*ast.Ident); ok {
					if _, isPkg := info.Uses[id].(*types.PkgName); isPkg {
						return u.Sel
					}
				}
				return base(u.X)
			case *ast.IndexExpr:
				return base(u.X)
			case *ast.StarExpr:
				return base(u.X)
			case *ast.ParenExpr:
				return base(u.X)
			}
			return nil
		}
		note := func(e ast.Expr, fn string) {
			id := base(e)
			if id == nil {
				return
			}
			obj, ok := info.Uses[id].(*types.Var)
			if !ok || obj.Pkg() == nil || obj.Parent() != obj.Pkg().Scope() {
				return
			}
			if !strings.HasPrefix(obj.Pkg().Path(), modPrefix) {
				return
			}
			name := strings.TrimPrefix(obj.Pkg().Path(), modPrefix) + "." + obj.Name()
			g := vars[name]
			if g == nil {
				g = &gv{typ: short(obj.Type()), writers: map[string]bool{}}
				vars[name] = g
			}
			g.writers[rel+"."+fn] = true
		}
		for _, f := range p.Syntax {
			fname := p.Fset.Position(f.Pos()).Filename
			if strings.HasSuffix(fname, "_test.go") || strings.Contains(fname, "verif_") {
				continue
			}
			for _, d := range f.Decls {
				fd, ok := d.(*ast.FuncDecl)
				if !ok || fd.Body == nil {
					continue
				}
				fn := fd.Name.Name
				if r := recvName(fd); r != "" {
					fn = r + "." + fn
				}
				ast.Inspect(fd.Body, func(x ast.Node) bool {
					switch u := x.(type) {
					case *ast.AssignStmt:
						if u.Tok == token.DEFINE {
							return true
						}
						for _, l := range u.Lhs {
							note(l, fn)
						}
					case *ast.IncDecStmt:
						note(u.X, fn)
					case *ast.CallExpr:
						// node-local inputs consulted by consensus code
						if se, ok := u.Fun.(*ast.SelectorExpr); ok {
							switch se.Sel.Name {
							case "IsETHWitness":
								reads[rel+"."+fn+"|witness-flag"]++
							case "GetJob":
								reads[rel+"."+fn+"|job-store"]++
							}
						}
					}
					return true
				})
			}
		}
	}

	// state-then-local-error: inside package event, a function that assigns <x>.State and later
	// returns a non-nil error from `if err != nil` where err comes from a job-store call makes the
	// persisted tracker state depend on node-local data (the caller drops the state change on an
	// error).  GetJob = a lookup that legitimately fails on a node without the job: must not occur.
	// SaveJob/DeleteJob = a local database write failure (environment assumption): listed.
	lookupErr := map[string]int{}
	writeErr := map[string]int{}
	for _, p := range pkgs {
		if p.PkgPath != modPrefix+"event" {
			continue
		}
		for _, f := range p.Syntax {
			fname := p.Fset.Position(f.Pos()).Filename
			if strings.HasSuffix(fname, "_test.go") {
				continue
			}
			for _, d := range f.Decls {
				fd, ok := d.(*ast.FuncDecl)
				if !ok || fd.Body == nil {
					continue
				}
				statePos := token.NoPos
				ast.Inspect(fd.Body, func(x ast.Node) bool {
					if as, ok := x.(*ast.AssignStmt); ok && as.Tok != token.DEFINE {
						for _, l := range as.Lhs {
							if se, ok := l.(*ast.SelectorExpr); ok && se.Sel.Name == "State" && (statePos == token.NoPos || as.Pos() < statePos) {
								statePos = as.Pos()
							}
						}
					}
					return true
				})
				if statePos == token.NoPos {
					continue
				}
				ast.Inspect(fd.Body, func(x ast.Node) bool {
					blk, ok := x.(*ast.BlockStmt)
					if !ok {
						return true
					}
					for i := 1; i < len(blk.List); i++ {
						ifs, ok := blk.List[i].(*ast.IfStmt)
						if !ok || ifs.Pos() < statePos || !strings.Contains(nodeText(p, ifs.Cond), "err != nil") {
							continue
						}
						nonNil := false
						for _, st := range ifs.Body.List {
							if rs, ok := st.(*ast.ReturnStmt); ok && len(rs.Results) == 1 && nodeText(p, rs.Results[0]) != "nil" {
								nonNil = true
							}
						}
						if !nonNil {
							continue
						}
						prev := nodeText(p, blk.List[i-1])
						switch {
						case strings.Contains(prev, ".GetJob("):
							lookupErr["event."+fd.Name.Name]++
						case strings.Contains(prev, ".SaveJob(") || strings.Contains(prev, ".DeleteJob("):
							writeErr["event."+fd.Name.Name]++
						}
					}
					return true
				})
			}
		}
	}
	mk := func(m map[string]int) string {
		ks := []string{}
		for k := range m {
			ks = append(ks, k)
		}
		sort.Strings(ks)
		rs := []string{}
		for _, k := range ks {
			rs = append(rs, fmt.Sprintf("(%s, %d)", coqStr(k), m[k]))
		}
		return "[" + strings.Join(rs, "; ") + "]"
	}
	names := []string{}
	for n := range vars {
		names = append(names, n)
	}
	sort.Strings(names)
	rows := []string{}
	for _, n := range names {
		ws := []string{}
		for w := range vars[n].writers {
			ws = append(ws, w)
		}
		sort.Strings(ws)
		rows = append(rows, fmt.Sprintf("(%s, %s, %s)", coqStr(n), coqStr(vars[n].typ), coqStr(strings.Join(ws, " "))))
	}
	rk := []string{}
	for k := range reads {
		rk = append(rk, k)
	}
	sort.Strings(rk)
	rrows := []string{}
	for _, k := range rk {
		parts := strings.SplitN(k, "|", 2)
		rrows = append(rrows, fmt.Sprintf("(%s, %s, %d)", coqStr(parts[0]), coqStr(parts[1]), reads[k]))
	}
	var b strings.Builder
	b.WriteString("(* GENERATED by srcfacts (typed pass) — do not edit *)\nFrom Coq Require Import String List.\nImport ListNotations.\nLocal Open Scope string_scope.\n\n")
	b.WriteString("(* package-level variables written inside function bodies: (pkg.name, type, writers) *)\n")
	b.WriteString("Definition written_globals : list (string * string * string) := [\n  " + strings.Join(rows, ";\n  ") + "\n].\n\n")
	b.WriteString("(* consultations of node-local inputs (witness flag, job store): (function, what, number of call sites) *)\n")
	b.WriteString("Definition local_reads : list (string * string * nat) := [\n  " + strings.Join(rrows, ";\n  ") + "\n].\n")
	b.WriteString("\n(* package event: functions that assign a tracker state and LATER return an error caused by a failed job LOOKUP (must be empty) / a failed job WRITE (local database failure) *)\n")
	b.WriteString("Definition state_then_lookup_error : list (string * nat) := " + mk(lookupErr) + ".\n")
	b.WriteString("Definition state_then_write_error : list (string * nat) := " + mk(writeErr) + ".\n")
	writeOut("Facts_Globals.v", b.String())
}
