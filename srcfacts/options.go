package main

import (
	"fmt"
	"go/ast"
	"go/token"
	"go/types"
	"os"
	"sort"
	"strings"
)

// ---------- Facts_Options: who touches the in-memory copies of the governance options ----------
//
// The long-lived store objects keep COPIES of governance options in struct fields (fee option, ONS
// options, proposal options, reward options, chain-driver options, the currency set).  A copy is coherent
// with the committed record only through a discipline: it is written at start-up, at BeginBlock and when a
// proposal is finalised, and it is read by the few places that were written with that in mind.  A NEW reader
// (a handler that prices a domain from the copy instead of the record of its own state) or a NEW writer
// (an update function that installs the proposed value before its validate-only return) breaks C07 (a
// CheckTx shows in consensus results), C08 (a restarted process holds another copy) and C01 without any
// new field appearing.  Listed here, from the typed syntax of the consensus packages:
//
//   option_field_uses    (field, function, "r" | "w")           direct uses of such a field
//   option_accessor_calls (accessor, caller, before_validate_only_return)
//
// A field is an option copy when its type (through pointers) is a named type of the module whose name
// contains "Option" or is "Config"/"Options", or when it is a field of balance.CurrencySet.  An accessor is a
// method of the struct that uses the field directly, or a thin method (at most two statements) that calls an
// accessor.  The Coq side (theories/Options.v) holds the audited lists.

func genOptions() {
	if os.Getenv("SRCFACTS_TYPED") == "0" {
		return
	}
	pkgs := loadTyped()
	const modPrefix = "github.com/Oneledger/protocol/"
	isOptType := func(t types.Type) bool {
		for {
			if p, ok := t.(*types.Pointer); ok {
				t = p.Elem()
				continue
			}
			break
		}
		n, ok := t.(*types.Named)
		if !ok || n.Obj().Pkg() == nil || !strings.HasPrefix(n.Obj().Pkg().Path(), modPrefix) {
			return false
		}
		nm := n.Obj().Name()
		return strings.Contains(nm, "Option") || nm == "Config" || nm == "BTCConfig"
	}
	// owner struct of a field object
	fieldOwner := map[*types.Var]string{}
	for _, p := range pkgs {
		if !strings.HasPrefix(p.PkgPath, modPrefix) {
			continue
		}
		rel := strings.TrimPrefix(p.PkgPath, modPrefix)
		sc := p.Types.Scope()
		for _, nm := range sc.Names() {
			tn, ok := sc.Lookup(nm).(*types.TypeName)
			if !ok {
				continue
			}
			st, ok := tn.Type().Underlying().(*types.Struct)
			if !ok {
				continue
			}
			// only objects that hold state handles or are held by them: a struct with a *storage.State field,
			// or the currency set; plain option records themselves (fields of FeeOption ...) are values
			holds := nm == "CurrencySet"
			for i := 0; i < st.NumFields(); i++ {
				if strings.Contains(st.Field(i).Type().String(), "storage.State") {
					holds = true
				}
			}
			if !holds {
				continue
			}
			for i := 0; i < st.NumFields(); i++ {
				f := st.Field(i)
				if isOptType(f.Type()) || (nm == "CurrencySet" && (f.Name() == "idMap" || f.Name() == "nameMap")) {
					fieldOwner[f] = rel + "." + nm
				}
			}
		}
	}
	type fnInfo struct {
		name   string // rel.Recv.Name
		obj    *types.Func
		stmts  int
		direct bool
		calls  []*types.Func
	}
	fns := map[*types.Func]*fnInfo{}
	uses := map[string]bool{}
	type callSite struct {
		caller string
		callee *types.Func
		before bool
	}
	sites := []callSite{}
	modeRows := map[string]bool{} // caller|callee|argument text, for arguments of type action.FunctionBehaviour
	for _, p := range pkgs {
		if !strings.HasPrefix(p.PkgPath, modPrefix) {
			continue
		}
		rel := strings.TrimPrefix(p.PkgPath, modPrefix)
		info := p.TypesInfo
		for _, f := range p.Syntax {
			fname := p.Fset.Position(f.Pos()).Filename
			if strings.HasSuffix(fname, "_test.go") || strings.Contains(fname, "verif_") {
				continue
			}
			for _, d := range f.Decls {
				fd, ok := d.(*ast.FuncDecl)
				if !ok || fd.Body == nil {
					continue
				}
				fn := fd.Name.Name
				if r := recvName(fd); r != "" {
					fn = r + "." + fn
				}
				full := rel + "." + fn
				fobj, _ := info.Defs[fd.Name].(*types.Func)
				fi := &fnInfo{name: full, obj: fobj, stmts: len(fd.Body.List)}
				if fobj != nil {
					fns[fobj] = fi
				}
				// position of `if <x> == ValidateOnly { return ... }`
				voPos := token.NoPos
				ast.Inspect(fd.Body, func(x ast.Node) bool {
					ifs, ok := x.(*ast.IfStmt)
					if !ok {
						return true
					}
					be, ok := ifs.Cond.(*ast.BinaryExpr)
					if !ok || be.Op != token.EQL {
						return true
					}
					isVO := func(e ast.Expr) bool {
						switch u := e.(type) {
						case *ast.Ident:
							return u.Name == "ValidateOnly"
						case *ast.SelectorExpr:
							return u.Sel.Name == "ValidateOnly"
						}
						return false
					}
					if (isVO(be.X) || isVO(be.Y)) && (voPos == token.NoPos || ifs.Pos() < voPos) {
						for _, st := range ifs.Body.List {
							if _, ok := st.(*ast.ReturnStmt); ok {
								voPos = ifs.Pos()
							}
						}
					}
					return true
				})
				written := map[*ast.SelectorExpr]bool{}
				ast.Inspect(fd.Body, func(x ast.Node) bool {
					switch u := x.(type) {
					case *ast.AssignStmt:
						for _, l := range u.Lhs {
							e := l
							for {
								switch v := e.(type) {
								case *ast.IndexExpr:
									e = v.X
									continue
								case *ast.StarExpr:
									e = v.X
									continue
								case *ast.ParenExpr:
									e = v.X
									continue
								}
								break
							}
							if se, ok := e.(*ast.SelectorExpr); ok {
								written[se] = true
							}
						}
					}
					return true
				})
				ast.Inspect(fd.Body, func(x ast.Node) bool {
					switch u := x.(type) {
					case *ast.SelectorExpr:
						if sel, ok := info.Selections[u]; ok && sel.Kind() == types.FieldVal {
							if fv, ok := sel.Obj().(*types.Var); ok {
								if owner, ok := fieldOwner[fv]; ok {
									rw := "r"
									if written[u] {
										rw = "w"
									}
									uses[owner+"."+fv.Name()+"|"+full+"|"+rw] = true
									fi.direct = true
								}
							}
						}
					case *ast.CallExpr:
						var id *ast.Ident
						switch c := u.Fun.(type) {
						case *ast.SelectorExpr:
							id = c.Sel
						case *ast.Ident:
							id = c
						}
						for _, a := range u.Args {
							if tv, ok := info.Types[a]; ok && tv.Type != nil && strings.HasSuffix(tv.Type.String(), "action.FunctionBehaviour") {
								cn := "<function value>"
								if id != nil {
									if callee, ok := info.Uses[id].(*types.Func); ok {
										cn = callee.Name()
									}
								}
								modeRows[full+"|"+cn+"|"+nodeText(p, a)] = true
							}
						}
						if id != nil {
							if callee, ok := info.Uses[id].(*types.Func); ok && callee.Pkg() != nil && strings.HasPrefix(callee.Pkg().Path(), modPrefix) {
								fi.calls = append(fi.calls, callee)
								sites = append(sites, callSite{full, callee, voPos != token.NoPos && u.Pos() < voPos})
							}
						}
					}
					return true
				})
			}
		}
	}
	// accessors: methods with a direct use; thin methods (<= 2 statements) calling an accessor (fixpoint)
	acc := map[*types.Func]bool{}
	for o, fi := range fns {
		if fi.direct && o.Type().(*types.Signature).Recv() != nil {
			acc[o] = true
		}
	}
	for changed := true; changed; {
		changed = false
		for o, fi := range fns {
			if acc[o] || fi.stmts > 2 || o.Type().(*types.Signature).Recv() == nil || !strings.HasPrefix(fi.name, "data/") {
				continue
			}
			for _, c := range fi.calls {
				if acc[c] {
					acc[o] = true
					changed = true
					break
				}
			}
		}
	}
	fname := func(o *types.Func) string {
		if fi, ok := fns[o]; ok {
			return fi.name
		}
		return strings.TrimPrefix(o.FullName(), modPrefix)
	}
	urows := []string{}
	for k := range uses {
		urows = append(urows, k)
	}
	sort.Strings(urows)
	crows := map[string]bool{}
	for _, s := range sites {
		if acc[s.callee] {
			crows[fname(s.callee)+"|"+s.caller+"|"+coqBool(s.before)] = true
		}
	}
	ck := []string{}
	for k := range crows {
		ck = append(ck, k)
	}
	sort.Strings(ck)
	var b strings.Builder
	b.WriteString("(* GENERATED by srcfacts (typed pass) — do not edit *)\nFrom Coq Require Import String List Bool.\nImport ListNotations.\nLocal Open Scope string_scope.\n\n")
	b.WriteString("(* direct uses of the in-memory copies of governance options: (field, function, \"r\"/\"w\") *)\n")
	b.WriteString("Definition option_field_uses : list (string * string * string) := [\n")
	for i, k := range urows {
		p := strings.Split(k, "|")
		sep := ";"
		if i == len(urows)-1 {
			sep = ""
		}
		b.WriteString(fmt.Sprintf("  (%s, %s, %s)%s\n", coqStr(p[0]), coqStr(p[1]), coqStr(p[2]), sep))
	}
	b.WriteString("].\n\n(* calls of the accessors of those copies: (accessor, caller, the call precedes the caller's validate-only return) *)\n")
	b.WriteString("Definition option_accessor_calls : list (string * string * bool) := [\n")
	for i, k := range ck {
		p := strings.Split(k, "|")
		sep := ";"
		if i == len(ck)-1 {
			sep = ""
		}
		b.WriteString(fmt.Sprintf("  (%s, %s, %s)%s\n", coqStr(p[0]), coqStr(p[1]), p[2], sep))
	}
	b.WriteString("].\n\n(* every call that passes an argument of type action.FunctionBehaviour: (caller, callee, argument) *)\n")
	mk := []string{}
	for k := range modeRows {
		mk = append(mk, k)
	}
	sort.Strings(mk)
	b.WriteString("Definition update_mode_calls : list (string * string * string) := [\n")
	for i, k := range mk {
		p := strings.Split(k, "|")
		sep := ";"
		if i == len(mk)-1 {
			sep = ""
		}
		b.WriteString(fmt.Sprintf("  (%s, %s, %s)%s\n", coqStr(p[0]), coqStr(p[1]), coqStr(p[2]), sep))
	}
	b.WriteString("].\n")
	writeOut("Facts_Options.v", b.String())
}
