#!/bin/bash
# runs every claimed check in the thorough tier and prints one summary line each
cd "$(dirname "$0")/.."
for p in ${@:-$(python3 -c "import json;print(' '.join(c['property_id'] for c in json.load(open('MANIFEST.json'))['checks']))")}; do
  s=$(date +%s); out=$(./check $p --tier thorough 2>&1); rc=$?; e=$(( $(date +%s) - s ))
  v=$(echo "$out" | grep -c '^VIOLATION'); k=$(echo "$out" | grep -c '^KNOWN-FINDING')
  echo "$p rc=$rc violations=$v known=$k ${e}s"
  if [ $rc -ne 0 ]; then echo "$out" | grep '^VIOLATION' | head -3; fi
done
