#!/usr/bin/env python3
"""Resolve the four bookkeeping files after `git merge slice/<x>` conflicts: union of both sides."""
import json, subprocess, sys
branch = sys.argv[1]
def show(ref, path):
    return subprocess.run(["git", "show", "%s:%s" % (ref, path)], capture_output=True, text=True, check=True).stdout
# _CoqProject: ours + their new lines, in their order
ours = show("HEAD", "coq/_CoqProject").splitlines()
theirs = show(branch, "coq/_CoqProject").splitlines()
out = ours + [l for l in theirs if l not in ours]
open("coq/_CoqProject", "w").write("\n".join(out) + "\n")
# claims.json: union (ours wins on equal keys)
co = json.loads(show("HEAD", "tools/claims.json")); ct = json.loads(show(branch, "tools/claims.json"))
for k, v in ct.items():
    if k == branch.split("/")[-1].upper():
        co[k] = v
    else:
        co.setdefault(k, v)
json.dump(co, open("tools/claims.json", "w"), indent=1)
# KNOWN_FINDINGS.json: ours + their entries we do not have
ko = json.loads(show("HEAD", "KNOWN_FINDINGS.json")); kt = json.loads(show(branch, "KNOWN_FINDINGS.json"))
# the slice owns the entries of its own property (branch slice/cNN -> CNN): theirs win there
own = branch.split("/")[-1].upper()
ko["findings"] = [f for f in ko["findings"] if f["property"] != own or not any(g["property"] == own for g in kt["findings"])]
have = {(f["property"], f["trigger"]) for f in ko["findings"]}
for f in kt["findings"]:
    if (f["property"], f["trigger"]) not in have:
        ko["findings"].append(f)
open("KNOWN_FINDINGS.json", "w").write(json.dumps(ko, indent=1))
# evidence files are rewritten by every run: take the slice's file for its own property, ours otherwise
unmerged = subprocess.run(["git", "diff", "--name-only", "--diff-filter=U"], capture_output=True, text=True).stdout.split()
for f in unmerged:
    if f.startswith("evidence/") or f.startswith("seeded/"):
        side = "--theirs" if f.startswith("evidence/" + own) else "--ours"
        subprocess.run(["git", "checkout", side, "--", f], check=True)
subprocess.run(["python3", "tools/gen_manifest.py"], check=True)
print("resolved; now: git add -A && git commit")
