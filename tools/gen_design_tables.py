#!/usr/bin/env python3
"""Regenerates the tables of DESIGN.md that are derived from files (findings, seeded mutants,
per-property inventory) between <!-- BEGIN GENERATED:x --> / <!-- END GENERATED:x --> markers."""
import json, os, re, glob, subprocess
V = os.path.dirname(os.path.dirname(os.path.abspath(__file__)))

def findings_table():
    d = json.load(open(os.path.join(V, "KNOWN_FINDINGS.json")))["findings"]
    rows = ["| property | trigger | status | commit | what failed | replay |", "|---|---|---|---|---|---|"]
    for f in sorted(d, key=lambda f: (f["property"], f["status"], f["trigger"])):
        what = (f.get("what") or f.get("line") or "").replace("|", "/").replace("\n", " ")
        if len(what) > 260:
            what = what[:257] + "..."
        rows.append("| %s | `%s` | %s | %s | %s | `%s` |" % (f["property"], f["trigger"], f["status"], f.get("commit", ""), what, f.get("replay", "")))
    nf = sum(1 for f in d if f["status"] == "fixed"); nk = sum(1 for f in d if f["status"] == "known")
    return "%d findings: %d repaired by `fix:` commits in /repo, %d recorded as known.\n\n" % (len(d), nf, nk) + "\n".join(rows)

def seeded_table():
    rows = ["| seeded change | breaks | needs to manifest | caught by | first run | after strengthening |", "|---|---|---|---|---|---|"]
    for m in sorted(glob.glob(os.path.join(V, "seeded", "*", "meta.json"))):
        j = json.load(open(m)); d = os.path.dirname(m)
        r = {}
        rp = os.path.join(d, "result.json")
        if os.path.exists(rp):
            r = json.load(open(rp))
        rows.append("| `seeded/%s` %s | %s | %s | %s | %s | %s |" % (os.path.basename(d), (j.get("title", "")[:150]).replace("|", "/"), j.get("property", ""),
                    (j.get("what_it_needs_to_manifest", "")[:220]).replace("|", "/").replace("\n", " "), r.get("caught_by", ""), r.get("first_run", ""), r.get("after", "")))
    return "\n".join(rows)

def inventory_table():
    c = json.load(open(os.path.join(V, "tools", "claims.json")))
    rows = ["| property | theorems file | statements | technique (MANIFEST) |", "|---|---|---|---|"]
    for p in sorted(c):
        f = os.path.join(V, "coq", "props", p + ".v")
        n = 0
        if os.path.exists(f):
            txt = re.sub(r"\(\*.*?\*\)", "", open(f).read(), flags=re.S)
            n = len(re.findall(r"^\s*(?:Theorem|Example|Lemma|Corollary)\s+\w+", txt, flags=re.M))
        rows.append("| %s | `coq/props/%s.v` | %d | %s |" % (p, p, n, c[p]["technique"].replace("|", "/")))
    return "\n".join(rows)

gen = {"findings": findings_table, "seeded": seeded_table, "inventory": inventory_table}
p = os.path.join(V, "DESIGN.md")
s = open(p).read()
# PART II is hand-written in notes/design_part2.md and re-appended here before the tables are filled
p2 = open(os.path.join(V, "notes", "design_part2.md")).read()
m = "\n===================================================================================================\n\n# PART II — AS BUILT"
if m in s:
    s = s[:s.index(m)]
s = s.rstrip("\n") + "\n" + p2
for k, fn in gen.items():
    a, b = "<!-- BEGIN GENERATED:%s -->" % k, "<!-- END GENERATED:%s -->" % k
    if a in s and b in s:
        s = s[:s.index(a) + len(a)] + "\n" + fn() + "\n" + s[s.index(b):]
open(p, "w").write(s)
print("DESIGN.md tables regenerated")
