#!/usr/bin/env python3
"""Writes the prompts for a round of seeding sub-agents: seedprompts.py <round> -> /tmp/seed<round>_prompt_Cxx.txt
(the agents get ONLY the property text, the titles of the earlier seeded changes and a scratch worktree)."""
import json, sys, glob, os
rnd = int(sys.argv[1])
props = [json.loads(l) for l in open('/verif/properties.jsonl')]
GUIDE = {
 7: ("look at BOUNDARIES and ERROR PATHS: the first and the last block of a period (a cycle, a reward year, a deadline, a maturity or release time, height 1, the fork height), equal-versus-strictly-greater comparisons, an amount that is exactly the balance / exactly the minimum / exactly zero, a list with exactly one or exactly the maximum number of elements; code that handles a FAILURE (a refused transfer in the middle of a multi-step handler, an error from a store that is logged and ignored, a handler that returns success after a partial effect, a rollback that forgets one of several writes); the ORDER of the hooks inside BeginBlock and EndBlock and what one hook assumes another has already done; and transaction kinds or fields that are rarely used (network delegation, reward withdrawal, release of a frozen validator, sale and renewal of names, cancel and withdraw of proposals, the external bid app, ERC-20 paths)"),
 6: ("think about the GLUE around the logic a test author concentrates on: how records are serialised and parsed back (field tags, omitted/zero fields, pointer vs value, big numbers as strings), how store keys and "
     "prefix ranges are built (separators, case, padding, reversed names, iterator start/end), integer conversions and boundaries (int64 vs big.Int vs string vs float, truncating division, off-by-one at a height, "
     "a deadline or a count), iterators that stop early or skip an element, an error that is swallowed or returned too late, a defer that runs in the wrong order, a shared slice or map that is appended to in place, "
     "code that runs only at genesis / InitChain / first block / the block where a validator set changes, and the interplay of TWO subsystems (e.g. a governance update that lands in the same block as the operation it governs)"),
}
guide = GUIDE.get(rnd, GUIDE[6])
for p in props:
    pid = p['id']
    prev = []
    for d in sorted(glob.glob('/verif/seeded/%s*' % pid)):
        try:
            m = json.load(open(d + '/meta.json'))
            prev.append('  - "%s" (files: %s)' % (m['title'][:300], ', '.join(m.get('files_changed', []))))
        except Exception:
            pass
    W = '/tmp/seed%d_%s' % (rnd, pid)
    a = p.get('anchors', {})
    anchors = ', '.join(a.get('files', [])) if isinstance(a, dict) else ', '.join(a)
    q = p.get('quantifier', '')
    quant = q.get('text', '') if isinstance(q, dict) else q
    txt = f"""You are a software engineer helping to evaluate a verification effort by seeding a realistic defect. You are given a Go repository — a git worktree at {W} (Oneledger/protocol: a Tendermint ABCI blockchain application with staking, governance, rewards, cross-chain lock/redeem trackers, a name service, an external 'bid' app and an EVM state adapter) — and ONE property that this code is supposed to satisfy:

{pid} — {p.get('title','')}

Statement: {p.get('statement','')}

Quantifier: {quant}

Anchor files: {anchors}

{len(prev)} colleagues have already seeded bugs for the same property, so yours must be DIFFERENT from all of them — another function, another clause of the property or another part of its quantifier, another mechanism and another way to manifest. Read the statement and the quantifier word by word and pick a part that none of them touched; this time {guide}:
""" + '\n'.join(prev) + f"""

YOUR TASK. Invent ONE realistic bug: a small change to this repository (a few lines, the kind of slip a developer makes in a refactor or an optimisation) that BREAKS the property above while the repository still compiles and its existing test suite still passes. The bug must need something specific to manifest — a particular interleaving or call schedule, a crash or fault at a particular point, a multi-step sequence of operations, an unusual input, or two cooperating sites that each look fine alone — NOT something ordinary use would expose at once, and not a change that simply deletes the feature. Then write a DEMONSTRATION: a Go test or a small Go program, living inside the worktree, that FAILS (or prints a clear FAIL line and exits non-zero) with your change applied and PASSES without it.

Rules: work ONLY inside your worktree directory {W}; do not read or list /verif or any other directory outside your worktree except the Go module cache and standard library; never commit; never touch /repo itself. Environment for every shell call: `export GOFLAGS=-mod=mod GOPROXY=off GOSUMDB=off GOTOOLCHAIN=local` (no network; every dependency is in the module cache). The existing test suite: `go test -mod=mod -vet=off -count=1 ./...` from the worktree root (a handful of packages fail to build or fail already on the unchanged tree — compare the set of passing tests before and after your change with `-json`, it must not shrink; note that package `event`'s TestTransitions is flaky on its own). The whole application can be driven without Tendermint for a demonstration: with build tag `verif` the repository offers `app.(*App).VerifPrepare(genesisDoc, blockStore)`, `VerifDeliver()`, `VerifCheck()`, `VerifChainState()` (app/verif_hooks.go) and `node.NewVerifContext(name, priv, privval, ecdsa)` (app/node/verif_hooks.go); linking a binary that imports package app needs `-ldflags=-checklinkname=0`. A package-level demonstration (calling the stores/handlers of the affected packages directly, as the existing *_test.go files do) is perfectly fine and usually simpler. If, while reading the code, you notice a defect that is ALREADY in the unchanged tree and breaks this property, say so in your final message (function, why, how to trigger) in addition to your seeded change.

Deliver, in a new directory `_seed/` at the root of your worktree: `patch.diff` (output of `git diff` for your change ONLY, without the demonstration files), the demonstration file(s) (also copy them into `_seed/demo/` with a `RUN.md` giving the exact command — a single command without pipes, comments or `cp` steps, runnable from the worktree root), and `meta.json` with keys: property (the id), title (one line naming the bug), what_it_needs_to_manifest, files_changed, demo_command, demo_result_with_patch, demo_result_without_patch, test_suite_check (what you ran and observed). Verify both directions of the demonstration yourself (apply → fails, `git apply -R _seed/patch.diff`; do NOT use `git stash`, the stash is shared with other worktrees → passes) before you finish. Your final message: the meta.json content and the patch.
"""
    open('/tmp/seed%d_prompt_%s.txt' % (rnd, pid), 'w').write(txt)
print('written', len(props))
