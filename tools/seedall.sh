#!/bin/bash
# usage: seedall.sh [Cxx ...] — re-run every seeded mutant against its own property's check (current machinery), write seeded/<id>/result.json
cd /verif
IDS=${@:-$(ls seeded)}
for P in $IDS; do
  out=$(tools/seedtest.sh $P 2>&1)
  echo "$out" > /tmp/seedall_$P.log
  python3 - "$P" <<'PY' "$out"
import json,sys,re,os,subprocess
P=sys.argv[1]; out=open('/tmp/seedall_%s.log'%P).read()
Q=P.split('_')[0]
m=re.search(r'CHECK %s on mutant: rc=(\d+) (\d+) violation'%Q,out)
viol=[l for l in out.splitlines() if l.startswith('VIOLATION')]
dw=re.search(r'demo with patch: rc=(\d+)',out); dwo=re.search(r'demo without patch: rc=(\d+)',out)
path='/verif/seeded/%s/result.json'%P
old=json.load(open(path)) if os.path.exists(path) else {}
res=dict(old)
res.update({"property":Q,"own_check_rc":int(m.group(1)) if m else None,"own_check_violation_lines":viol[:3],
 "caught_by_own_check": bool(m and m.group(1)=='1' and viol),
 "concrete_replay": bool(viol) and not all(v.rstrip().endswith('no-failing-input-found') for v in viol),
 "demo_rc_with_patch":int(dw.group(1)) if dw else None,"demo_rc_without_patch":int(dwo.group(1)) if dwo else None,
 "patch_applies": 'PATCH-DOES-NOT-APPLY' not in out,
 "repo_head":subprocess.run(['git','-C','/repo','rev-parse','--short','HEAD'],capture_output=True,text=True).stdout.strip(),
 "verif_head":subprocess.run(['git','-C','/verif','rev-parse','--short','HEAD'],capture_output=True,text=True).stdout.strip()})
json.dump(res,open(path,'w'),indent=1)
print(P,'caught' if res['caught_by_own_check'] else 'MISSED','concrete' if res['concrete_replay'] else '-', 'applies' if res['patch_applies'] else 'NOAPPLY', 'demo',res['demo_rc_with_patch'],res['demo_rc_without_patch'])
PY
done
