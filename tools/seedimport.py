#!/usr/bin/env python3
"""usage: seedimport.py <Cxx> <srcworktree> <name>  — copies a seeding agent's deliverables (_seed/patch.diff,
meta.json, demo/) from its scratch worktree into /verif/seeded/<name>/ and records where the demo files go."""
import json, os, shutil, subprocess, sys
P, src, name = sys.argv[1:4]
D = "/verif/seeded/" + name
os.makedirs(D + "/demo", exist_ok=True)
S = os.path.join(src, "_seed")
shutil.copy(S + "/patch.diff", D + "/patch.diff")
m = json.load(open(S + "/meta.json"))
if os.path.isdir(S + "/demo"):
    for f in os.listdir(S + "/demo"):
        if os.path.isfile(S + "/demo/" + f):
            shutil.copy(S + "/demo/" + f, D + "/demo/" + f)
out = subprocess.run(["git", "status", "--porcelain", "-uall"], cwd=src, capture_output=True, text=True).stdout
demo = {}
for l in out.splitlines():
    f = l[3:]
    if l.startswith("??") and not f.startswith("_seed"):
        shutil.copy(os.path.join(src, f), D + "/demo/" + os.path.basename(f))
        demo[os.path.basename(f)] = f
m["demo_files"] = demo
m["property"] = P
m["seed_worktree"] = src
json.dump(m, open(D + "/meta.json", "w"), indent=1)
print(name, m.get("title", "")[:200]); print(" demo files:", demo)
