#!/bin/bash
# usage: seedtest.sh <Cxx> [check ids...]   — verifies a seeded mutant and runs checks against it
# needs /verif/seeded/<Cxx>/{patch.diff,meta.json,demo/}
set -u
N=$1; shift          # directory under /verif/seeded: Cxx or Cxx_2 (second round)
P=${N%%_*}
CHECKS=${@:-$P}
export GOFLAGS=-mod=mod GOPROXY=off GOSUMDB=off GOTOOLCHAIN=local
S=/tmp/seed_$P/_seed
D=/verif/seeded/$N
# self-contained: everything comes from /verif/seeded/<Cxx> (patch.diff, meta.json with demo_files, demo/)
W=/tmp/mutwork_$N
git -C /repo worktree remove --force $W >/dev/null 2>&1; git -C /repo worktree add -q --detach $W HEAD
cd $W
if ! git apply --check $D/patch.diff 2>/dev/null; then echo "PATCH-DOES-NOT-APPLY to current HEAD"; git apply --3way $D/patch.diff 2>&1 | tail -2; else git apply $D/patch.diff; fi
git diff --stat | tail -1
# demo files: copy every *_test.go of the demo dir to the path recorded in meta.json demo_command if found in seed worktree
python3 - "$D" "$W" <<'PY'
import json,sys,os,shutil
D,W=sys.argv[1:3]
for base,dst in json.load(open(D+'/meta.json')).get('demo_files',{}).items():
    os.makedirs(os.path.dirname(os.path.join(W,dst)),exist_ok=True); shutil.copy(os.path.join(D,'demo',base),os.path.join(W,dst))
PY
echo "untracked demo files: $(git status --porcelain | grep '^??' | awk '{print $2}' | tr '\n' ' ')"
CMD=$(python3 -c "import json;print(json.load(open('$D/meta.json'))['demo_command'])" | sed "s#/tmp/seed[0-9]*_$P#$W#g" | sed 's/&amp;/\&/g' | sed 's/   (.*$//' )
echo "demo cmd: $CMD"
( eval "$CMD" ) > $D/demo_with_patch.log 2>&1; echo "demo with patch: rc=$?"
git apply -R $D/patch.diff ; ( eval "$CMD" ) > $D/demo_without_patch.log 2>&1; echo "demo without patch: rc=$?"; git apply $D/patch.diff
# compile + tests of changed packages
for d in $(git diff --name-only | xargs -n1 dirname | sort -u); do go build ./$d/ 2>&1 | tail -2; done
cd /verif
for c in $CHECKS; do
  out=$(VERIF_REPO=$W ./check $c 2>&1); rc=$?
  echo "CHECK $c on mutant: rc=$rc $(echo "$out" | grep -c '^VIOLATION') violation line(s)"; echo "$out" | grep '^VIOLATION' | head -3
done
git -C /repo worktree remove --force $W
