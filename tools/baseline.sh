#!/bin/bash
# Runs the repository's pinned test suite (guard OFF) and compares with BASELINE.json stable_pass.
# usage: baseline.sh [repo_dir]   -> prints summary; exit 0 iff every stable test passes
REPO=${1:-/repo}
export GOFLAGS=-mod=mod GOPROXY=off GOSUMDB=off GOTOOLCHAIN=local
OUT=$(mktemp /tmp/baseline.XXXXXX.json)
(cd "$REPO" && go test -mod=mod -json -vet=off -count=1 -timeout 25m ./... > "$OUT" 2>/dev/null)
python3 - "$OUT" <<'PY'
import json,sys
passed=set(); failed=set()
for l in open(sys.argv[1]):
    try: e=json.loads(l)
    except Exception: continue
    if e.get('Test') and e.get('Action') in ('pass','fail'):
        (passed if e['Action']=='pass' else failed).add(e['Package']+'::'+e['Test'])
base=json.load(open('/root/.vp/BASELINE.json'))
stable=set(base['stable_pass'])
missing=sorted(stable-passed)
print('passed',len(passed),'failed',len(failed),'stable',len(stable),'stable_not_passing',len(missing))
for m in missing[:40]: print('  MISSING',m)
sys.exit(1 if missing else 0)
PY
rc=$?
rm -f "$OUT"
exit $rc
