package main

// C09: operation sequences on the real storage.State / ChainState over a tm-db database.

import (
	"bytes"
	"encoding/hex"
	"encoding/json"
	"flag"
	"fmt"
	"math/rand"
	"os"
	"strings"

	"github.com/Oneledger/protocol/config"
	"github.com/Oneledger/protocol/storage"
	tmdb "github.com/tendermint/tm-db"
)

func init() { subcmds["c09"] = c09Main }

type sop struct {
	Kind  string // get set exists delete begin commit discard write blockcommit getver fresh reopen
	Key   int
	Val   []byte
	Ver   int64
	Limit int64 // fresh: -1 = no gas store
	Num   int64 `json:",omitempty"` // getprev: State.GetPrevious(Num, key); Ver = (block commits so far) - Num, filled by runCase
}

type sobs struct {
	Kind string // val bool err unit panic version
	Val  []byte
	Has  bool
	B    bool
	Ver  int64
	Hash string // blockcommit only; compared between twins, never against the model
}

type srot struct{ Recent, Every, Cycles int64 }

type scase struct {
	Rot srot
	Ops []sop
	Obs []sobs
	// twin runs (filled by c09Twins; not part of the model comparison of outputs)
	Family   string    `json:",omitempty"` // generator family (coverage only)
	HasStrip bool      `json:",omitempty"`
	Strip    []sop     `json:",omitempty"` // the sequence run on the second real store
	HasTLog  bool      `json:",omitempty"`
	TLog     []c09Call `json:",omitempty"` // the tree calls fed to a bare real ChainState
}

// c09Call: one call on the IAVL tree (set remove save) or a reopen of the database
type c09Call struct {
	Kind string
	Key  int
	Val  []byte
}

func keyBytes(k int) []byte { return []byte(fmt.Sprintf("k%d", k)) }

type storeUnderTest struct {
	db  tmdb.DB
	cs  *storage.ChainState
	st  *storage.State
	rot srot
}

func newSUT(rot srot) *storeUnderTest {
	s := &storeUnderTest{db: tmdb.NewMemDB(), rot: rot}
	s.open()
	return s
}

func (s *storeUnderTest) open() {
	s.cs = storage.NewChainState("c09", s.db)
	_ = s.cs.SetupRotation(config.ChainStateRotationCfg{Recent: s.rot.Recent, Every: s.rot.Every, Cycles: s.rot.Cycles})
	s.st = storage.NewState(s.cs)
}

func (s *storeUnderTest) apply(o sop) (ob sobs) {
	// a panic of the code under test (any operation) is an observation, not a harness failure
	defer func() {
		if r := recover(); r != nil {
			ob = sobs{Kind: "panic"}
		}
	}()
	k := storage.StoreKey(keyBytes(o.Key))
	switch o.Kind {
	case "get":
		v, _ := s.st.Get(k)
		return sobs{Kind: "val", Val: v, Has: v != nil}
	case "set":
		if err := s.st.Set(k, o.Val); err != nil {
			return sobs{Kind: "err"}
		}
		return sobs{Kind: "unit"}
	case "exists":
		return sobs{Kind: "bool", B: s.st.Exists(k)}
	case "delete":
		b, _ := s.st.Delete(k)
		return sobs{Kind: "bool", B: b}
	case "begin":
		s.st.BeginTxSession()
		return sobs{Kind: "unit"}
	case "commit":
		defer func() {
			if r := recover(); r != nil {
				ob = sobs{Kind: "panic"}
			}
		}()
		s.st.CommitTxSession()
		return sobs{Kind: "unit"}
	case "discard":
		s.st.DiscardTxSession()
		return sobs{Kind: "unit"}
	case "write":
		s.st.Write()
		return sobs{Kind: "unit"}
	case "blockcommit":
		h, v := s.st.Commit()
		return sobs{Kind: "version", Ver: v, Hash: hex.EncodeToString(h)}
	case "getver":
		v := s.st.GetVersioned(o.Ver, k)
		return sobs{Kind: "val", Val: v, Has: v != nil}
	case "getprev":
		v := s.st.GetPrevious(o.Num, k)
		return sobs{Kind: "val", Val: v, Has: v != nil}
	case "fresh":
		s.st = storage.NewState(s.cs)
		if o.Limit >= 0 {
			s.st = s.st.WithGas(storage.NewGasCalculator(storage.Gas(o.Limit)))
		}
		return sobs{Kind: "unit"}
	case "reopen":
		s.open()
		return sobs{Kind: "unit"}
	}
	panic("bad op " + o.Kind)
}

var tomb = []byte(storage.TOMBSTONE)

func genVal(r *rand.Rand, allowTomb bool) []byte {
	switch x := r.Intn(10); {
	case x == 0 && allowTomb:
		return append([]byte{}, tomb...)
	case x < 4:
		return []byte{byte('a' + r.Intn(3))}
	case x < 7:
		return []byte{byte(r.Intn(256)), byte(r.Intn(256))}
	default:
		n := 1 + r.Intn(5)
		b := make([]byte, n)
		r.Read(b)
		return b
	}
}

func genOps(r *rand.Rand, n, nkeys int, allowTomb bool, gasMode int) []sop {
	ops := []sop{}
	if gasMode == 1 {
		ops = append(ops, sop{Kind: "fresh", Limit: 1 << 40})
	} else if gasMode == 2 {
		ops = append(ops, sop{Kind: "fresh", Limit: int64(200 + r.Intn(3000))})
	}
	ver := int64(0)
	for len(ops) < n {
		k := r.Intn(nkeys)
		switch x := r.Intn(100); {
		case x < 22:
			ops = append(ops, sop{Kind: "get", Key: k})
		case x < 42:
			ops = append(ops, sop{Kind: "set", Key: k, Val: genVal(r, allowTomb)})
		case x < 54:
			ops = append(ops, sop{Kind: "exists", Key: k})
		case x < 66:
			ops = append(ops, sop{Kind: "delete", Key: k})
		case x < 73:
			ops = append(ops, sop{Kind: "begin"})
		case x < 79:
			ops = append(ops, sop{Kind: "commit"})
		case x < 83:
			ops = append(ops, sop{Kind: "discard"})
		case x < 85:
			ops = append(ops, sop{Kind: "write"})
		case x < 91:
			ops = append(ops, sop{Kind: "blockcommit"})
			ver++
		case x < 96:
			v := int64(0)
			if ver > 0 {
				v = 1 + r.Int63n(ver+1)
			}
			ops = append(ops, sop{Kind: "getver", Key: k, Ver: v})
		case x < 98:
			lim := int64(-1)
			if gasMode == 1 {
				lim = 1 << 40
			} else if gasMode == 2 {
				lim = int64(200 + r.Intn(3000))
			}
			ops = append(ops, sop{Kind: "fresh", Limit: lim})
		default:
			ops = append(ops, sop{Kind: "reopen"})
		}
	}
	return ops
}

// enumerate all sequences of the given length over a small alphabet (2 keys, values a / b / marker)
func enumOps(length int, emit func([]sop)) {
	alpha := []sop{}
	for k := 0; k < 2; k++ {
		alpha = append(alpha, sop{Kind: "get", Key: k}, sop{Kind: "exists", Key: k}, sop{Kind: "delete", Key: k},
			sop{Kind: "set", Key: k, Val: []byte("a")}, sop{Kind: "set", Key: k, Val: []byte("b")})
	}
	alpha = append(alpha, sop{Kind: "begin"}, sop{Kind: "commit"}, sop{Kind: "discard"}, sop{Kind: "blockcommit"},
		sop{Kind: "reopen"}, sop{Kind: "getver", Key: 0, Ver: 1}, sop{Kind: "set", Key: 0, Val: tomb})
	cur := make([]sop, length)
	var rec func(i int)
	rec = func(i int) {
		if i == length {
			emit(append([]sop{}, cur...))
			return
		}
		for _, a := range alpha {
			cur[i] = a
			rec(i + 1)
		}
	}
	rec(0)
}

func runCase(rot srot, ops []sop) scase {
	s := newSUT(rot)
	ops = append([]sop{}, ops...)
	c := scase{Rot: rot, Ops: ops}
	commits := int64(0)
	for i, o := range ops {
		if o.Kind == "getprev" {
			// the model op is GetVersioned (version - num); the version is the number of block
			// commits so far (counted here, not read from the code under test)
			ops[i].Ver = commits - o.Num
			o = ops[i]
		}
		if o.Kind == "blockcommit" {
			commits++
		}
		c.Obs = append(c.Obs, s.apply(o))
	}
	return c
}

// strip: what the property says must not influence the root hash — reads, existence checks,
// versioned reads, and sessions that end up discarded (explicitly, or implicitly by a new
// begin / block commit / fresh / reopen).
func strip(ops []sop) []sop {
	out := []sop{}
	var pending []sop
	inSess := false
	for _, o := range ops {
		switch o.Kind {
		case "get", "exists", "getver", "getprev":
		case "begin":
			pending, inSess = nil, true
		case "discard":
			pending, inSess = nil, false
		case "commit":
			if inSess {
				out = append(out, sop{Kind: "begin"})
				out = append(out, pending...)
				out = append(out, o)
			}
			pending, inSess = nil, false
		case "set", "delete":
			if inSess {
				pending = append(pending, o)
			} else {
				out = append(out, o)
			}
		case "write":
			out = append(out, o)
		default: // blockcommit fresh reopen: drop any open session
			pending, inSess = nil, false
			out = append(out, o)
		}
	}
	return out
}

func hashes(c scase) []string {
	hs := []string{}
	for _, o := range c.Obs {
		if o.Kind == "version" {
			hs = append(hs, o.Hash)
		}
	}
	return hs
}

// ---- the order in which writes reach the tree -------------------------------------------------
// c09Mirror predicts the calls State.Write / State.Commit make on the IAVL tree: the surviving
// writes in first-write order (a committed session's keys are appended to the block cache in the
// session's own first-write order).  It is NOT trusted: Coq checks (vm_compute) that the list is
// exactly the model's tree_calls, and c09TreeTwin feeds it to a bare real ChainState whose root
// hashes must be those of the store under test.  The same pass measures the input distribution.

type c09Ov struct {
	vals map[int][]byte
	keys []int
}

func c09NewOv() *c09Ov { return &c09Ov{vals: map[int][]byte{}} }
func (o *c09Ov) set(k int, v []byte) {
	if _, ok := o.vals[k]; !ok {
		o.keys = append(o.keys, k)
	}
	o.vals[k] = v
}

type c09Stats struct {
	Blocks, CommittedSess, DiscardedSess, ReplacedSess, DroppedSess int
	NewLeaves                                                       map[string]int // histogram: leaves added by a commit
	FreshKeysWritten                                                map[string]int // histogram: distinct keys not in the tree written per block (incl. discarded)
	DiscardThenCommitBlocks                                         int            // a key first touched by a discarded session is written by a later committed session of the block
	OrderSensitiveBlocks                                            int            // ... after that session wrote another key the discarded one had not touched
	OrderSensitiveGe3                                               int            // ... and the commit adds >= 3 leaves
}

func c09Bucket(n int) string {
	if n >= 6 {
		return "6+"
	}
	return fmt.Sprintf("%d", n)
}

func c09Mirror(ops []sop, st *c09Stats) []c09Call {
	calls := []c09Call{}
	cache := c09NewOv()
	var sess *c09Ov
	tree := map[int]bool{}      // working tree (keys only)
	saved := map[int]bool{}     // last saved version
	stale := map[int]bool{}     // keys first touched in this block by a session that was not committed
	blockKeys := map[int]bool{} // keys touched in this block
	dtc, osens := false, false
	flush := func() {
		for _, k := range cache.keys {
			v := cache.vals[k]
			if bytes.Equal(v, tomb) {
				calls = append(calls, c09Call{Kind: "remove", Key: k})
				delete(tree, k)
			} else {
				calls = append(calls, c09Call{Kind: "set", Key: k, Val: v})
				tree[k] = true
			}
		}
	}
	dropSess := func(how *int) {
		if sess != nil {
			*how++
			for _, k := range sess.keys {
				if _, in := cache.vals[k]; !in {
					stale[k] = true
				}
			}
		}
		sess = nil
	}
	newBlock := func() {
		cache, stale, blockKeys, dtc, osens = c09NewOv(), map[int]bool{}, map[int]bool{}, false, false
	}
	for _, o := range ops {
		switch o.Kind {
		case "set", "delete":
			v := o.Val
			if o.Kind == "delete" {
				v = tomb
			}
			blockKeys[o.Key] = true
			if sess != nil {
				sess.set(o.Key, v)
			} else {
				cache.set(o.Key, v)
			}
		case "begin":
			dropSess(&st.ReplacedSess)
			sess = c09NewOv()
		case "discard":
			dropSess(&st.DiscardedSess)
		case "commit":
			if sess != nil {
				st.CommittedSess++
				other := false
				for _, k := range sess.keys {
					_, in := cache.vals[k]
					if stale[k] && !in {
						dtc = true
						if other {
							osens = true
						}
					}
					if !stale[k] && !in {
						other = true
					}
					cache.set(k, sess.vals[k])
				}
				sess = nil
			}
		case "write":
			flush()
		case "blockcommit":
			dropSess(&st.DroppedSess)
			added := 0
			flush()
			for k := range tree {
				if !saved[k] {
					added++
				}
			}
			calls = append(calls, c09Call{Kind: "save"})
			st.Blocks++
			st.NewLeaves[c09Bucket(added)]++
			fresh := 0
			for k := range blockKeys {
				if !saved[k] {
					fresh++
				}
			}
			st.FreshKeysWritten[c09Bucket(fresh)]++
			if dtc {
				st.DiscardThenCommitBlocks++
			}
			if osens {
				st.OrderSensitiveBlocks++
				if added >= 3 {
					st.OrderSensitiveGe3++
				}
			}
			saved = map[int]bool{}
			for k := range tree {
				saved[k] = true
			}
			newBlock()
		case "fresh":
			dropSess(&st.DroppedSess)
			newBlock()
		case "reopen":
			dropSess(&st.DroppedSess)
			newBlock()
			tree = map[int]bool{}
			for k := range saved {
				tree[k] = true
			}
			calls = append(calls, c09Call{Kind: "reopen"})
		}
	}
	return calls
}

// c09TreeTwin: a bare real ChainState (no State, no caches) fed the given calls; root hashes of its commits
func c09TreeTwin(rot srot, calls []c09Call) (hs []string) {
	s := &storeUnderTest{db: tmdb.NewMemDB(), rot: rot}
	s.open()
	hs = []string{}
	defer func() {
		if r := recover(); r != nil {
			hs = append(hs, "panic")
		}
	}()
	for _, c := range calls {
		k := storage.StoreKey(keyBytes(c.Key))
		switch c.Kind {
		case "set":
			_ = s.cs.Set(k, c.Val)
		case "remove":
			_, _ = s.cs.Delete(k)
		case "save":
			h, _ := s.cs.Commit()
			hs = append(hs, hex.EncodeToString(h))
		case "reopen":
			s.open()
		}
	}
	return hs
}

// ---- generators aimed at the write order -------------------------------------------------------

func c09Perm(r *rand.Rand, xs []int) []int {
	out := append([]int{}, xs...)
	r.Shuffle(len(out), func(i, j int) { out[i], out[j] = out[j], out[i] })
	return out
}

// genBlocks: block-shaped histories.  Every block has an alphabet of 3..6 keys that are not in the
// tree yet (plus up to two old ones); 2..5 transaction sessions write random sub-permutations of
// it and are committed, discarded, or silently replaced by the next begin; reads are interleaved.
func c09GenBlocks(r *rand.Rand, nblocks int, gasMode int) []sop {
	ops := []sop{}
	lim := int64(-1)
	if gasMode == 1 {
		lim = 1 << 40
		ops = append(ops, sop{Kind: "fresh", Limit: lim})
	}
	next, ver := 0, int64(0)
	old := []int{}
	val := func() []byte { return []byte{byte('a' + r.Intn(26)), byte('0' + r.Intn(10))} }
	read := func(alpha []int) {
		k := alpha[r.Intn(len(alpha))]
		switch r.Intn(3) {
		case 0:
			ops = append(ops, sop{Kind: "get", Key: k})
		case 1:
			ops = append(ops, sop{Kind: "exists", Key: k})
		default:
			v := int64(0)
			if ver > 0 {
				v = 1 + r.Int63n(ver)
			}
			ops = append(ops, sop{Kind: "getver", Key: k, Ver: v})
		}
	}
	write := func(k int) {
		if r.Intn(100) < 15 {
			ops = append(ops, sop{Kind: "delete", Key: k})
		} else {
			ops = append(ops, sop{Kind: "set", Key: k, Val: val()})
		}
	}
	for b := 0; b < nblocks; b++ {
		nf := 3 + r.Intn(4)
		alpha := []int{}
		for i := 0; i < nf; i++ {
			alpha = append(alpha, next)
			next++
		}
		freshKeys := append([]int{}, alpha...)
		for i := 0; i < 2 && len(old) > 0; i++ {
			if r.Intn(2) == 0 {
				alpha = append(alpha, old[r.Intn(len(old))])
			}
		}
		nsess := 2 + r.Intn(4)
		for si := 0; si < nsess; si++ {
			if r.Intn(6) == 0 {
				write(alpha[r.Intn(len(alpha))]) // a write outside any session
			}
			ops = append(ops, sop{Kind: "begin"})
			how := r.Intn(100) // <50 committed, <82 discarded, else left open (replaced / dropped)
			nw := 1 + r.Intn(len(alpha))
			if how >= 50 {
				nw = 1 + r.Intn(2)
			}
			for _, k := range c09Perm(r, alpha)[:nw] {
				if r.Intn(100) < 25 {
					read(alpha)
				}
				write(k)
				if r.Intn(100) < 8 {
					write(k)
				}
			}
			if how < 50 {
				ops = append(ops, sop{Kind: "commit"})
			} else if how < 82 {
				ops = append(ops, sop{Kind: "discard"})
			}
			if r.Intn(100) < 20 {
				read(alpha)
			}
			if r.Intn(100) < 4 {
				ops = append(ops, sop{Kind: "write"})
			}
		}
		ops = append(ops, sop{Kind: "blockcommit"})
		ver++
		old = append(old, freshKeys...)
		for i := r.Intn(3); i > 0; i-- {
			read(alpha)
		}
		switch x := r.Intn(100); {
		case x < 6:
			ops = append(ops, sop{Kind: "reopen"})
			if lim >= 0 {
				ops = append(ops, sop{Kind: "fresh", Limit: lim})
			}
		case x < 18:
			ops = append(ops, sop{Kind: "fresh", Limit: lim})
		}
	}
	return ops
}

// sweep: every small schedule of the shape  [pre keys committed in an earlier block]
// [a session touching none / one / two (ordered) of three new keys, not committed]
// [a committed session writing a permutation of the three new keys]  block commit.
func c09Sweep(emit func([]sop)) {
	perms := [][]int{{0, 1, 2}, {0, 2, 1}, {1, 0, 2}, {1, 2, 0}, {2, 0, 1}, {2, 1, 0}}
	touches := [][]int{{}}
	for a := 0; a < 3; a++ {
		touches = append(touches, []int{a})
		for b := 0; b < 3; b++ {
			if a != b {
				touches = append(touches, []int{a, b})
			}
		}
	}
	for pre := 0; pre <= 2; pre++ {
		for _, p := range perms {
			for _, t := range touches {
				for variant := 0; variant < 4; variant++ { // set/delete x discard/replaced
					if len(t) == 0 && variant > 0 {
						continue
					}
					ops := []sop{}
					// new keys 10,11,12 sort between/around the old keys 0 and 20 ("k0" < "k10".. < "k20")
					if pre >= 1 {
						ops = append(ops, sop{Kind: "set", Key: 0, Val: []byte("p")})
					}
					if pre >= 2 {
						ops = append(ops, sop{Kind: "set", Key: 20, Val: []byte("q")})
					}
					if pre >= 1 {
						ops = append(ops, sop{Kind: "blockcommit"})
					}
					if len(t) > 0 {
						ops = append(ops, sop{Kind: "begin"})
						for _, k := range t {
							if variant&1 == 0 {
								ops = append(ops, sop{Kind: "set", Key: 10 + k, Val: []byte("x")})
							} else {
								ops = append(ops, sop{Kind: "delete", Key: 10 + k})
							}
						}
						if variant&2 == 0 {
							ops = append(ops, sop{Kind: "discard"})
						}
					}
					ops = append(ops, sop{Kind: "begin"})
					for i, k := range p {
						ops = append(ops, sop{Kind: "set", Key: 10 + k, Val: []byte{byte('1' + i)}})
					}
					ops = append(ops, sop{Kind: "commit"}, sop{Kind: "blockcommit"}, sop{Kind: "get", Key: 10}, sop{Kind: "getver", Key: 12, Ver: int64(1 + (pre+1)/2)})
					emit(ops)
				}
			}
		}
	}
}

// ---- generators aimed at saved versions, rotation and reopen ------------------------------------

var c09Rots = []srot{{0, 0, 0}, {1, 0, 0}, {3, 0, 0}, {10, 100, 10} /* node default */, {1, 1, 0}, {2, 2, 1}, {3, 2, 2}, {1, 3, 1}, {10, 5, 2}}

// readAll: versioned reads of EVERY version 0..ver+1 (retained or rotated out) for the given keys,
// through GetVersioned and through GetPrevious (all distances 0..ver), plus plain reads
func c09ReadAll(ops []sop, keys []int, ver int64) []sop {
	for _, k := range keys {
		ops = append(ops, sop{Kind: "get", Key: k}, sop{Kind: "exists", Key: k})
		for v := int64(0); v <= ver+1; v++ {
			ops = append(ops, sop{Kind: "getver", Key: k, Ver: v})
		}
	}
	for n := int64(0); n <= ver; n++ {
		ops = append(ops, sop{Kind: "getprev", Key: keys[int(n)%len(keys)], Num: n})
	}
	return ops
}

// genVersions: many small blocks under one rotation setting; every version is read back after
// commits, and completely before and after every reopen (and again after later commits, when the
// rotation rule must have released versions written before the reopen)
func c09GenVersions(r *rand.Rand, rot srot, nblocks int) []sop {
	ops := []sop{}
	keys := []int{0, 1, 2}
	ver := int64(0)
	for b := 0; b < nblocks; b++ {
		for i := 1 + r.Intn(3); i > 0; i-- {
			k := keys[r.Intn(len(keys))]
			sess := r.Intn(3) == 0
			if sess {
				ops = append(ops, sop{Kind: "begin"})
			}
			if r.Intn(100) < 20 {
				ops = append(ops, sop{Kind: "delete", Key: k})
			} else {
				ops = append(ops, sop{Kind: "set", Key: k, Val: []byte{byte('a' + b%26), byte('0' + r.Intn(10))}})
			}
			if sess {
				ops = append(ops, sop{Kind: "commit"})
			}
		}
		ops = append(ops, sop{Kind: "blockcommit"})
		ver++
		for i := r.Intn(4); i > 0; i-- {
			ops = append(ops, sop{Kind: "getver", Key: keys[r.Intn(3)], Ver: r.Int63n(ver + 2)})
		}
		if r.Intn(2) == 0 {
			ops = append(ops, sop{Kind: "getprev", Key: keys[r.Intn(3)], Num: r.Int63n(ver + 1)})
		}
		switch x := r.Intn(100); {
		case x < 22 || b == nblocks/2:
			ops = c09ReadAll(ops, keys, ver)
			if r.Intn(4) == 0 {
				ops = append(ops, sop{Kind: "set", Key: keys[r.Intn(3)], Val: []byte("lost")}) // uncommitted at the restart
			}
			ops = append(ops, sop{Kind: "reopen"})
			ops = c09ReadAll(ops, keys, ver)
		case x < 30:
			ops = c09ReadAll(ops, keys[:1], ver)
		case x < 36:
			ops = append(ops, sop{Kind: "fresh", Limit: -1})
		}
	}
	return c09ReadAll(ops, keys, ver)
}

// version sweep: every rotation setting x n1 commits, reopen, n2 commits; everything read back
// before the reopen, after it, and after the later commits
func c09VersionSweep(emit func(srot, []sop)) {
	for _, rot := range c09Rots {
		for n1 := 0; n1 <= 4; n1++ {
			for n2 := 0; n2 <= 3; n2++ {
				for empty := 0; empty < 2; empty++ { // 1: the blocks before the reopen write nothing (empty tree)
					ops := []sop{}
					keys := []int{0, 1}
					ver := int64(0)
					blk := func(write bool) {
						if write {
							ops = append(ops, sop{Kind: "set", Key: int(ver) % 2, Val: []byte{byte('a' + ver)}})
							if ver == 2 {
								ops = append(ops, sop{Kind: "delete", Key: 1})
							}
						}
						ops = append(ops, sop{Kind: "blockcommit"})
						ver++
					}
					for i := 0; i < n1; i++ {
						blk(empty == 0)
					}
					ops = c09ReadAll(ops, keys, ver)
					ops = append(ops, sop{Kind: "reopen"})
					ops = c09ReadAll(ops, keys, ver)
					for i := 0; i < n2; i++ {
						blk(true)
					}
					if n2 > 0 {
						ops = c09ReadAll(ops, keys, ver)
					}
					emit(rot, ops)
				}
			}
		}
	}
}

// gas sweep: a finite block gas limit that is reached EXACTLY mid-block (a 1-byte Set costs
// 200 + 20 = 220), then refused block-level Sets (new key, overwritten key) and Deletes, writes in a
// session after exhaustion, block commit, versioned reads of everything, reopen, plain reads
func c09GasSweep(emit func(srot, []sop)) {
	for _, rot := range []srot{{1, 0, 0}, {10, 100, 10}} {
		for n := 0; n <= 3; n++ { // accepted sets before exhaustion
			for slack := 0; slack < 2; slack++ { // 0: exactly exhausted, 1: the last accepted set overshoots
				for variant := 0; variant < 6; variant++ {
					for pre := 0; pre < 2; pre++ { // 1: an earlier unmetered block wrote keys 0 and 5
						ops := []sop{}
						ver := int64(0)
						if pre == 1 {
							ops = append(ops, sop{Kind: "set", Key: 0, Val: []byte("p")}, sop{Kind: "set", Key: 5, Val: []byte("q")}, sop{Kind: "blockcommit"})
							ver++
						}
						lim := int64(220*n - 100*slack)
						if lim < 0 {
							continue
						}
						ops = append(ops, sop{Kind: "fresh", Limit: lim})
						for i := 0; i < n; i++ {
							ops = append(ops, sop{Kind: "set", Key: i, Val: []byte{byte('a' + i)}})
						}
						switch variant { // after exhaustion
						case 0:
							ops = append(ops, sop{Kind: "set", Key: 7, Val: []byte("x")})
						case 1:
							ops = append(ops, sop{Kind: "set", Key: 0, Val: []byte("y")})
						case 2:
							ops = append(ops, sop{Kind: "delete", Key: 0}, sop{Kind: "set", Key: 5, Val: []byte("z")})
						case 3:
							ops = append(ops, sop{Kind: "set", Key: 7, Val: []byte("x")}, sop{Kind: "get", Key: 7}, sop{Kind: "exists", Key: 7}, sop{Kind: "set", Key: 8, Val: []byte("w")})
						case 4:
							ops = append(ops, sop{Kind: "begin"}, sop{Kind: "set", Key: 7, Val: []byte("s")}, sop{Kind: "commit"}, sop{Kind: "set", Key: 8, Val: []byte("x")})
						case 5:
							ops = append(ops, sop{Kind: "set", Key: 7, Val: []byte("x")}, sop{Kind: "write"}, sop{Kind: "get", Key: 7})
						}
						ops = append(ops, sop{Kind: "blockcommit"})
						ver++
						ops = c09ReadAll(ops, []int{0, 5, 7, 8}, ver)
						ops = append(ops, sop{Kind: "reopen"})
						ops = c09ReadAll(ops, []int{0, 5, 7, 8}, ver)
						emit(rot, ops)
					}
				}
			}
		}
	}
}

func coqVal(b []byte) string {
	parts := make([]string, len(b))
	for i, x := range b {
		parts[i] = fmt.Sprintf("%d", x)
	}
	return "[" + strings.Join(parts, ";") + "]%N"
}

func coqOp(o sop) string {
	switch o.Kind {
	case "get":
		return fmt.Sprintf("Get %d%%N", o.Key)
	case "set":
		return fmt.Sprintf("Set_ %d%%N %s", o.Key, coqVal(o.Val))
	case "exists":
		return fmt.Sprintf("Exists_ %d%%N", o.Key)
	case "delete":
		return fmt.Sprintf("Delete %d%%N", o.Key)
	case "begin":
		return "BeginTx"
	case "commit":
		return "CommitTx"
	case "discard":
		return "DiscardTx"
	case "write":
		return "Write"
	case "blockcommit":
		return "BlockCommit"
	case "getver", "getprev":
		return fmt.Sprintf("GetVersioned (%d) %d%%N", o.Ver, o.Key)
	case "fresh":
		if o.Limit < 0 {
			return "Fresh None"
		}
		return fmt.Sprintf("Fresh (Some (%d))", o.Limit)
	case "reopen":
		return "Reopen"
	}
	panic("bad op")
}

func coqObs(o sobs) string {
	switch o.Kind {
	case "val":
		if !o.Has {
			return "OVal None"
		}
		return "OVal (Some " + coqVal(o.Val) + ")"
	case "bool":
		if o.B {
			return "OBool true"
		}
		return "OBool false"
	case "err":
		return "OErr"
	case "unit":
		return "OUnit"
	case "panic":
		return "OPanic"
	case "version":
		return fmt.Sprintf("OVersion (%d)", o.Ver)
	}
	panic("bad obs")
}

func coqCase(c scase) string {
	ops := make([]string, len(c.Ops))
	obs := make([]string, len(c.Obs))
	for i := range c.Ops {
		ops[i] = coqOp(c.Ops[i])
		obs[i] = coqObs(c.Obs[i])
	}
	strip, tlog := "None", "None"
	if c.HasStrip {
		st := make([]string, len(c.Strip))
		for i := range c.Strip {
			st[i] = coqOp(c.Strip[i])
		}
		strip = "Some [" + strings.Join(st, "; ") + "]"
	}
	if c.HasTLog {
		tl := make([]string, len(c.TLog))
		for i, t := range c.TLog {
			switch t.Kind {
			case "set":
				tl[i] = fmt.Sprintf("CSet %d%%N %s", t.Key, coqVal(t.Val))
			case "remove":
				tl[i] = fmt.Sprintf("CRemove %d%%N", t.Key)
			case "save":
				tl[i] = "CSave"
			default:
				tl[i] = "CReopen"
			}
		}
		tlog = "Some [" + strings.Join(tl, "; ") + "]"
	}
	return fmt.Sprintf("{| c_rot := {| recent := %d; every := %d; cycles := %d |};\n   c_ops := [%s];\n   c_obs := [%s];\n   c_strip := %s;\n   c_tlog := %s |}",
		c.Rot.Recent, c.Rot.Every, c.Rot.Cycles, strings.Join(ops, "; "), strings.Join(obs, "; "), strip, tlog)
}

type c09Report struct {
	Cases        int            `json:"cases"`
	Steps        int            `json:"steps"`
	OpHist       map[string]int `json:"op_histogram"`
	ObsHist      map[string]int `json:"obs_histogram"`
	TwinRuns     int            `json:"twin_runs"`
	TwinCommits  int            `json:"twin_commits_compared"`
	TwinFailures []twinFail     `json:"twin_failures"`
	TreeRuns     int            `json:"tree_twin_runs"`
	TreeCommits  int            `json:"tree_twin_commits_compared"`
	TreeFailures []twinFail     `json:"tree_twin_failures"`
	Families     map[string]int `json:"families"`
	Dist         c09Stats       `json:"write_order_distribution"`
	Distinct     int            `json:"distinct_cases"`
	Samples      []string       `json:"samples"`
	Files        []string       `json:"files"`
}

type twinFail struct {
	Case     int      `json:"case"`
	Ops      []string `json:"ops"`
	Stripped []string `json:"stripped"`
	Full     []string `json:"hashes_full"`
	Strip    []string `json:"hashes_stripped"`
	First    int      `json:"first_differing_commit"`
}

func c09Main(args []string) int {
	fs := flag.NewFlagSet("c09", flag.ExitOnError)
	seed := fs.Int64("seed", 1, "PRNG seed")
	nrand := fs.Int("n", 300, "number of random sequences")
	rlen := fs.Int("len", 60, "length of random sequences")
	enumLen := fs.Int("enum", 3, "exhaustive enumeration length (0 = off)")
	outDir := fs.String("out", ".", "output directory")
	shard := fs.Int("shard", 400, "cases per Coq file")
	nblk := fs.Int("nblocks", -1, "number of block-shaped histories (-1: same as -n)")
	nver := fs.Int("nversions", -1, "number of version/rotation/reopen histories (-1: half of -n)")
	sweep := fs.Bool("sweep", true, "run the exhaustive discarded-session / write-order sweep")
	corpus := fs.String("corpus", "", "JSON corpus file of op sequences to run first")
	fs.Parse(args)

	r := rand.New(rand.NewSource(*seed))
	cases := []scase{}
	rots := []srot{{0, 0, 0}, {1, 0, 0}, {2, 2, 1}, {3, 2, 2}, {1, 3, 1}, {10, 5, 2}}

	if *corpus != "" {
		if bz, err := os.ReadFile(*corpus); err == nil {
			var cc []struct {
				Rot srot
				Ops []sop
			}
			if err := json.Unmarshal(bz, &cc); err != nil {
				fmt.Fprintln(os.Stderr, "bad corpus:", err)
				return 2
			}
			for _, c := range cc {
				rc := runCase(c.Rot, c.Ops)
				rc.Family = "corpus"
				cases = append(cases, rc)
			}
		}
	}
	if *enumLen > 0 {
		for l := 1; l <= *enumLen; l++ {
			enumOps(l, func(ops []sop) {
				rc := runCase(srot{1, 0, 0}, ops)
				rc.Family = "enum"
				cases = append(cases, rc)
			})
		}
	}
	if *sweep {
		c09Sweep(func(ops []sop) {
			rc := runCase(srot{0, 0, 0}, ops)
			rc.Family = "sweep"
			cases = append(cases, rc)
		})
	}
	if *sweep {
		c09VersionSweep(func(rot srot, ops []sop) {
			rc := runCase(rot, ops)
			rc.Family = "version-sweep"
			cases = append(cases, rc)
		})
	}
	if *sweep {
		c09GasSweep(func(rot srot, ops []sop) {
			rc := runCase(rot, ops)
			rc.Family = "gas-sweep"
			cases = append(cases, rc)
		})
	}
	if *nver < 0 {
		*nver = *nrand / 2
	}
	for i := 0; i < *nver; i++ {
		rot := c09Rots[i%len(c09Rots)]
		nb := 3 + r.Intn(8)
		if rot.Recent >= 10 || i%7 == 6 {
			nb = 12 + r.Intn(6) // beyond `recent`, so that the rule releases versions
		}
		rc := runCase(rot, c09GenVersions(r, rot, nb))
		rc.Family = "versions"
		cases = append(cases, rc)
	}
	if *nblk < 0 {
		*nblk = *nrand
	}
	for i := 0; i < *nblk; i++ {
		rot := rots[r.Intn(len(rots))]
		nb := 2 + r.Intn(3)
		if i%10 == 9 {
			nb = 8
		}
		rc := runCase(rot, c09GenBlocks(r, nb, i%2))
		rc.Family = "blocks"
		cases = append(cases, rc)
	}
	for i := 0; i < *nrand; i++ {
		rot := rots[r.Intn(len(rots))]
		allowTomb := i%5 == 0
		gasMode := i % 4 // 0,3: none; 1: huge limit; 2: small limit
		if gasMode == 3 {
			gasMode = 0
		}
		n := *rlen
		if i%10 == 9 {
			n = *rlen * 5
		}
		rc := runCase(rot, genOps(r, n, 2+r.Intn(4), allowTomb, gasMode))
		rc.Family = "random"
		cases = append(cases, rc)
	}

	rep := c09Report{OpHist: map[string]int{}, ObsHist: map[string]int{}, Families: map[string]int{},
		Dist: c09Stats{NewLeaves: map[string]int{}, FreshKeysWritten: map[string]int{}}}
	seen := map[string]bool{}
	for _, c := range cases {
		rep.Cases++
		rep.Families[c.Family]++
		rep.Steps += len(c.Ops)
		var sb strings.Builder
		for i, o := range c.Ops {
			rep.OpHist[o.Kind]++
			rep.ObsHist[c.Obs[i].Kind]++
			sb.WriteString(coqOp(o))
			sb.WriteByte(';')
		}
		seen[sb.String()] = true
	}
	rep.Distinct = len(seen)

	// twin runs (gas-free sequences and sequences with a huge limit; with a small limit the gas
	// counter legitimately matters):
	//  (a) a second real store runs strip(ops): the root hash after every commit must not depend
	//      on reads / discarded sessions;
	//  (b) a bare real ChainState is fed the tree calls in the model's order (c09Mirror, checked
	//      against Store.v by Coq): the store must have made these calls in this order.
	firstDiff := func(a, b []string) int {
		for i := 0; i < len(a) && i < len(b); i++ {
			if a[i] != b[i] {
				return i
			}
		}
		if len(a) != len(b) {
			if len(a) < len(b) {
				return len(a)
			}
			return len(b)
		}
		return -1
	}
	for i := range cases {
		c := &cases[i]
		small := false
		for _, o := range c.Ops {
			if o.Kind == "fresh" && o.Limit >= 0 && o.Limit < 1<<30 {
				small = true
			}
		}
		if small {
			continue
		}
		h1 := hashes(*c)
		mkFail := func(h2 []string, st []sop) twinFail {
			f := twinFail{Case: i, Full: h1, Strip: h2, First: firstDiff(h1, h2)}
			for _, o := range c.Ops {
				f.Ops = append(f.Ops, coqOp(o))
			}
			for _, o := range st {
				f.Stripped = append(f.Stripped, coqOp(o))
			}
			return f
		}
		c.HasTLog, c.TLog = true, c09Mirror(c.Ops, &rep.Dist)
		rep.TreeRuns++
		rep.TreeCommits += len(h1)
		if h2 := c09TreeTwin(c.Rot, c.TLog); firstDiff(h1, h2) >= 0 {
			rep.TreeFailures = append(rep.TreeFailures, mkFail(h2, nil))
		}
		if len(c.Ops) < 2 {
			continue
		}
		c.HasStrip, c.Strip = true, strip(c.Ops)
		t := runCase(c.Rot, c.Strip)
		rep.TwinRuns++
		rep.TwinCommits += len(h1)
		if h2 := hashes(t); firstDiff(h1, h2) >= 0 {
			rep.TwinFailures = append(rep.TwinFailures, mkFail(h2, c.Strip))
		}
	}

	// write Coq case files
	for s, lo := 0, 0; lo < len(cases); s++ {
		// a file holds at most -shard cases and about 12000 steps (the files are evaluated in parallel)
		hi, steps := lo, 0
		for hi < len(cases) && hi-lo < *shard && (steps < 12000 || hi == lo) {
			steps += len(cases[hi].Ops)
			hi++
		}
		var b bytes.Buffer
		b.WriteString("From stdpp Require Import gmap list.\nFrom Coq Require Import ZArith.\n")
		b.WriteString("From OL Require Import theories.Store theories.StoreSpec theories.StoreCheck.\nLocal Open Scope Z_scope.\n")
		b.WriteString("Definition cases : list case := [\n")
		for i := lo; i < hi; i++ {
			b.WriteString(coqCase(cases[i]))
			if i+1 < hi {
				b.WriteString(";\n")
			}
		}
		b.WriteString("].\n")
		fmt.Fprintf(&b, "Definition MM := Eval vm_compute in flat2 (model_mismatches %d cases).\n", lo)
		fmt.Fprintf(&b, "Definition SV := Eval vm_compute in flat3 (spec_violations %d cases).\n", lo)
		b.WriteString("Definition NG := Eval vm_compute in Z.of_nat (count_guarded cases).\n")
		fmt.Fprintf(&b, "Definition SM := Eval vm_compute in flat1 (strip_mismatches %d cases).\n", lo)
		fmt.Fprintf(&b, "Definition TM := Eval vm_compute in flat1 (tlog_mismatches %d cases).\n", lo)
		fmt.Fprintf(&b, "Definition CV := Eval vm_compute in flat3 (content_violations %d cases).\n", lo)
		b.WriteString("Print MM.\nPrint SV.\nPrint NG.\nPrint SM.\nPrint TM.\nPrint CV.\n")
		name := fmt.Sprintf("%s/c09_cases_%d.v", *outDir, s)
		if err := os.WriteFile(name, b.Bytes(), 0644); err != nil {
			fmt.Fprintln(os.Stderr, err)
			return 2
		}
		rep.Files = append(rep.Files, name)
		lo = hi
	}
	for i := 0; i < len(cases) && len(rep.Samples) < 3; i += 1 + len(cases)/3 {
		rep.Samples = append(rep.Samples, coqCase(cases[i]))
	}
	// keep the JSON form of all cases so a (case, step) index can be turned into a replay file
	all, _ := json.Marshal(cases)
	_ = os.WriteFile(*outDir+"/c09_cases.json", all, 0644)
	bz, _ := json.MarshalIndent(rep, "", " ")
	_ = os.WriteFile(*outDir+"/c09_report.json", bz, 0644)
	say("c09: %d cases, %d steps, %d twin runs, %d twin failures, %d tree-twin runs, %d tree-twin failures\n",
		rep.Cases, rep.Steps, rep.TwinRuns, len(rep.TwinFailures), rep.TreeRuns, len(rep.TreeFailures))
	return 0
}
