package main

// C09: operation sequences on the real storage.State / ChainState over a tm-db database.

import (
	"bytes"
	"encoding/hex"
	"encoding/json"
	"flag"
	"fmt"
	"math/rand"
	"os"
	"strings"

	"github.com/Oneledger/protocol/config"
	"github.com/Oneledger/protocol/storage"
	tmdb "github.com/tendermint/tm-db"
)

func init() { subcmds["c09"] = c09Main }

type sop struct {
	Kind  string // get set exists delete begin commit discard write blockcommit getver fresh reopen
	Key   int
	Val   []byte
	Ver   int64
	Limit int64 // fresh: -1 = no gas store
}

type sobs struct {
	Kind string // val bool err unit panic version
	Val  []byte
	Has  bool
	B    bool
	Ver  int64
	Hash string // blockcommit only; compared between twins, never against the model
}

type srot struct{ Recent, Every, Cycles int64 }

type scase struct {
	Rot srot
	Ops []sop
	Obs []sobs
}

func keyBytes(k int) []byte { return []byte(fmt.Sprintf("k%d", k)) }

type storeUnderTest struct {
	db  tmdb.DB
	cs  *storage.ChainState
	st  *storage.State
	rot srot
}

func newSUT(rot srot) *storeUnderTest {
	s := &storeUnderTest{db: tmdb.NewMemDB(), rot: rot}
	s.open()
	return s
}

func (s *storeUnderTest) open() {
	s.cs = storage.NewChainState("c09", s.db)
	_ = s.cs.SetupRotation(config.ChainStateRotationCfg{Recent: s.rot.Recent, Every: s.rot.Every, Cycles: s.rot.Cycles})
	s.st = storage.NewState(s.cs)
}

func (s *storeUnderTest) apply(o sop) (ob sobs) {
	k := storage.StoreKey(keyBytes(o.Key))
	switch o.Kind {
	case "get":
		v, _ := s.st.Get(k)
		return sobs{Kind: "val", Val: v, Has: v != nil}
	case "set":
		if err := s.st.Set(k, o.Val); err != nil {
			return sobs{Kind: "err"}
		}
		return sobs{Kind: "unit"}
	case "exists":
		return sobs{Kind: "bool", B: s.st.Exists(k)}
	case "delete":
		b, _ := s.st.Delete(k)
		return sobs{Kind: "bool", B: b}
	case "begin":
		s.st.BeginTxSession()
		return sobs{Kind: "unit"}
	case "commit":
		defer func() {
			if r := recover(); r != nil {
				ob = sobs{Kind: "panic"}
			}
		}()
		s.st.CommitTxSession()
		return sobs{Kind: "unit"}
	case "discard":
		s.st.DiscardTxSession()
		return sobs{Kind: "unit"}
	case "write":
		s.st.Write()
		return sobs{Kind: "unit"}
	case "blockcommit":
		h, v := s.st.Commit()
		return sobs{Kind: "version", Ver: v, Hash: hex.EncodeToString(h)}
	case "getver":
		v := s.st.GetVersioned(o.Ver, k)
		return sobs{Kind: "val", Val: v, Has: v != nil}
	case "fresh":
		s.st = storage.NewState(s.cs)
		if o.Limit >= 0 {
			s.st = s.st.WithGas(storage.NewGasCalculator(storage.Gas(o.Limit)))
		}
		return sobs{Kind: "unit"}
	case "reopen":
		s.open()
		return sobs{Kind: "unit"}
	}
	panic("bad op " + o.Kind)
}

var tomb = []byte(storage.TOMBSTONE)

func genVal(r *rand.Rand, allowTomb bool) []byte {
	switch x := r.Intn(10); {
	case x == 0 && allowTomb:
		return append([]byte{}, tomb...)
	case x < 4:
		return []byte{byte('a' + r.Intn(3))}
	case x < 7:
		return []byte{byte(r.Intn(256)), byte(r.Intn(256))}
	default:
		n := 1 + r.Intn(5)
		b := make([]byte, n)
		r.Read(b)
		return b
	}
}

func genOps(r *rand.Rand, n, nkeys int, allowTomb bool, gasMode int) []sop {
	ops := []sop{}
	if gasMode == 1 {
		ops = append(ops, sop{Kind: "fresh", Limit: 1 << 40})
	} else if gasMode == 2 {
		ops = append(ops, sop{Kind: "fresh", Limit: int64(200 + r.Intn(3000))})
	}
	ver := int64(0)
	for len(ops) < n {
		k := r.Intn(nkeys)
		switch x := r.Intn(100); {
		case x < 22:
			ops = append(ops, sop{Kind: "get", Key: k})
		case x < 42:
			ops = append(ops, sop{Kind: "set", Key: k, Val: genVal(r, allowTomb)})
		case x < 54:
			ops = append(ops, sop{Kind: "exists", Key: k})
		case x < 66:
			ops = append(ops, sop{Kind: "delete", Key: k})
		case x < 73:
			ops = append(ops, sop{Kind: "begin"})
		case x < 79:
			ops = append(ops, sop{Kind: "commit"})
		case x < 83:
			ops = append(ops, sop{Kind: "discard"})
		case x < 85:
			ops = append(ops, sop{Kind: "write"})
		case x < 91:
			ops = append(ops, sop{Kind: "blockcommit"})
			ver++
		case x < 96:
			v := int64(0)
			if ver > 0 {
				v = 1 + r.Int63n(ver+1)
			}
			ops = append(ops, sop{Kind: "getver", Key: k, Ver: v})
		case x < 98:
			lim := int64(-1)
			if gasMode == 1 {
				lim = 1 << 40
			} else if gasMode == 2 {
				lim = int64(200 + r.Intn(3000))
			}
			ops = append(ops, sop{Kind: "fresh", Limit: lim})
		default:
			ops = append(ops, sop{Kind: "reopen"})
		}
	}
	return ops
}

// enumerate all sequences of the given length over a small alphabet (2 keys, values a / b / marker)
func enumOps(length int, emit func([]sop)) {
	alpha := []sop{}
	for k := 0; k < 2; k++ {
		alpha = append(alpha, sop{Kind: "get", Key: k}, sop{Kind: "exists", Key: k}, sop{Kind: "delete", Key: k},
			sop{Kind: "set", Key: k, Val: []byte("a")}, sop{Kind: "set", Key: k, Val: []byte("b")})
	}
	alpha = append(alpha, sop{Kind: "begin"}, sop{Kind: "commit"}, sop{Kind: "discard"}, sop{Kind: "blockcommit"},
		sop{Kind: "reopen"}, sop{Kind: "getver", Key: 0, Ver: 1}, sop{Kind: "set", Key: 0, Val: tomb})
	cur := make([]sop, length)
	var rec func(i int)
	rec = func(i int) {
		if i == length {
			emit(append([]sop{}, cur...))
			return
		}
		for _, a := range alpha {
			cur[i] = a
			rec(i + 1)
		}
	}
	rec(0)
}

func runCase(rot srot, ops []sop) scase {
	s := newSUT(rot)
	c := scase{Rot: rot, Ops: ops}
	for _, o := range ops {
		c.Obs = append(c.Obs, s.apply(o))
	}
	return c
}

// strip: what the property says must not influence the root hash — reads, existence checks,
// versioned reads, and sessions that end up discarded (explicitly, or implicitly by a new
// begin / block commit / fresh / reopen).
func strip(ops []sop) []sop {
	out := []sop{}
	var pending []sop
	inSess := false
	for _, o := range ops {
		switch o.Kind {
		case "get", "exists", "getver":
		case "begin":
			pending, inSess = nil, true
		case "discard":
			pending, inSess = nil, false
		case "commit":
			if inSess {
				out = append(out, sop{Kind: "begin"})
				out = append(out, pending...)
				out = append(out, o)
			}
			pending, inSess = nil, false
		case "set", "delete":
			if inSess {
				pending = append(pending, o)
			} else {
				out = append(out, o)
			}
		case "write":
			out = append(out, o)
		default: // blockcommit fresh reopen: drop any open session
			pending, inSess = nil, false
			out = append(out, o)
		}
	}
	return out
}

func hashes(c scase) []string {
	hs := []string{}
	for _, o := range c.Obs {
		if o.Kind == "version" {
			hs = append(hs, o.Hash)
		}
	}
	return hs
}

func coqVal(b []byte) string {
	parts := make([]string, len(b))
	for i, x := range b {
		parts[i] = fmt.Sprintf("%d", x)
	}
	return "[" + strings.Join(parts, ";") + "]%N"
}

func coqOp(o sop) string {
	switch o.Kind {
	case "get":
		return fmt.Sprintf("Get %d%%N", o.Key)
	case "set":
		return fmt.Sprintf("Set_ %d%%N %s", o.Key, coqVal(o.Val))
	case "exists":
		return fmt.Sprintf("Exists_ %d%%N", o.Key)
	case "delete":
		return fmt.Sprintf("Delete %d%%N", o.Key)
	case "begin":
		return "BeginTx"
	case "commit":
		return "CommitTx"
	case "discard":
		return "DiscardTx"
	case "write":
		return "Write"
	case "blockcommit":
		return "BlockCommit"
	case "getver":
		return fmt.Sprintf("GetVersioned (%d) %d%%N", o.Ver, o.Key)
	case "fresh":
		if o.Limit < 0 {
			return "Fresh None"
		}
		return fmt.Sprintf("Fresh (Some (%d))", o.Limit)
	case "reopen":
		return "Reopen"
	}
	panic("bad op")
}

func coqObs(o sobs) string {
	switch o.Kind {
	case "val":
		if !o.Has {
			return "OVal None"
		}
		return "OVal (Some " + coqVal(o.Val) + ")"
	case "bool":
		if o.B {
			return "OBool true"
		}
		return "OBool false"
	case "err":
		return "OErr"
	case "unit":
		return "OUnit"
	case "panic":
		return "OPanic"
	case "version":
		return fmt.Sprintf("OVersion (%d)", o.Ver)
	}
	panic("bad obs")
}

func coqCase(c scase) string {
	ops := make([]string, len(c.Ops))
	obs := make([]string, len(c.Obs))
	for i := range c.Ops {
		ops[i] = coqOp(c.Ops[i])
		obs[i] = coqObs(c.Obs[i])
	}
	return fmt.Sprintf("{| c_rot := {| recent := %d; every := %d; cycles := %d |};\n   c_ops := [%s];\n   c_obs := [%s] |}",
		c.Rot.Recent, c.Rot.Every, c.Rot.Cycles, strings.Join(ops, "; "), strings.Join(obs, "; "))
}

type c09Report struct {
	Cases        int            `json:"cases"`
	Steps        int            `json:"steps"`
	OpHist       map[string]int `json:"op_histogram"`
	ObsHist      map[string]int `json:"obs_histogram"`
	TwinRuns     int            `json:"twin_runs"`
	TwinCommits  int            `json:"twin_commits_compared"`
	TwinFailures []twinFail     `json:"twin_failures"`
	Distinct     int            `json:"distinct_cases"`
	Samples      []string       `json:"samples"`
	Files        []string       `json:"files"`
}

type twinFail struct {
	Case     int      `json:"case"`
	Ops      []string `json:"ops"`
	Stripped []string `json:"stripped"`
	Full     []string `json:"hashes_full"`
	Strip    []string `json:"hashes_stripped"`
}

func c09Main(args []string) int {
	fs := flag.NewFlagSet("c09", flag.ExitOnError)
	seed := fs.Int64("seed", 1, "PRNG seed")
	nrand := fs.Int("n", 300, "number of random sequences")
	rlen := fs.Int("len", 60, "length of random sequences")
	enumLen := fs.Int("enum", 3, "exhaustive enumeration length (0 = off)")
	outDir := fs.String("out", ".", "output directory")
	shard := fs.Int("shard", 400, "cases per Coq file")
	corpus := fs.String("corpus", "", "JSON corpus file of op sequences to run first")
	fs.Parse(args)

	r := rand.New(rand.NewSource(*seed))
	cases := []scase{}
	rots := []srot{{0, 0, 0}, {1, 0, 0}, {2, 2, 1}, {3, 2, 2}, {1, 3, 1}, {10, 5, 2}}

	if *corpus != "" {
		if bz, err := os.ReadFile(*corpus); err == nil {
			var cc []struct {
				Rot srot
				Ops []sop
			}
			if err := json.Unmarshal(bz, &cc); err != nil {
				fmt.Fprintln(os.Stderr, "bad corpus:", err)
				return 2
			}
			for _, c := range cc {
				cases = append(cases, runCase(c.Rot, c.Ops))
			}
		}
	}
	if *enumLen > 0 {
		for l := 1; l <= *enumLen; l++ {
			enumOps(l, func(ops []sop) { cases = append(cases, runCase(srot{1, 0, 0}, ops)) })
		}
	}
	for i := 0; i < *nrand; i++ {
		rot := rots[r.Intn(len(rots))]
		allowTomb := i%5 == 0
		gasMode := i % 4 // 0,3: none; 1: huge limit; 2: small limit
		if gasMode == 3 {
			gasMode = 0
		}
		n := *rlen
		if i%10 == 9 {
			n = *rlen * 5
		}
		cases = append(cases, runCase(rot, genOps(r, n, 2+r.Intn(4), allowTomb, gasMode)))
	}

	rep := c09Report{OpHist: map[string]int{}, ObsHist: map[string]int{}}
	seen := map[string]bool{}
	for _, c := range cases {
		rep.Cases++
		rep.Steps += len(c.Ops)
		var sb strings.Builder
		for i, o := range c.Ops {
			rep.OpHist[o.Kind]++
			rep.ObsHist[c.Obs[i].Kind]++
			sb.WriteString(coqOp(o))
			sb.WriteByte(';')
		}
		seen[sb.String()] = true
	}
	rep.Distinct = len(seen)

	// twin runs: root hash must not depend on reads / discarded sessions (gas-free sequences and
	// sequences with a huge limit; with a small limit the gas counter legitimately matters)
	for i, c := range cases {
		small := false
		for _, o := range c.Ops {
			if o.Kind == "fresh" && o.Limit >= 0 && o.Limit < 1<<30 {
				small = true
			}
		}
		if small || len(c.Ops) < 2 {
			continue
		}
		st := strip(c.Ops)
		t := runCase(c.Rot, st)
		rep.TwinRuns++
		h1, h2 := hashes(c), hashes(t)
		rep.TwinCommits += len(h1)
		if strings.Join(h1, ",") != strings.Join(h2, ",") {
			f := twinFail{Case: i, Full: h1, Strip: h2}
			for _, o := range c.Ops {
				f.Ops = append(f.Ops, coqOp(o))
			}
			for _, o := range st {
				f.Stripped = append(f.Stripped, coqOp(o))
			}
			rep.TwinFailures = append(rep.TwinFailures, f)
		}
	}

	// write Coq case files
	for s := 0; s*(*shard) < len(cases); s++ {
		lo, hi := s*(*shard), (s+1)*(*shard)
		if hi > len(cases) {
			hi = len(cases)
		}
		var b bytes.Buffer
		b.WriteString("From stdpp Require Import gmap list.\nFrom Coq Require Import ZArith.\n")
		b.WriteString("From OL Require Import theories.Store theories.StoreSpec theories.StoreCheck.\nLocal Open Scope Z_scope.\n")
		b.WriteString("Definition cases : list case := [\n")
		for i := lo; i < hi; i++ {
			b.WriteString(coqCase(cases[i]))
			if i+1 < hi {
				b.WriteString(";\n")
			}
		}
		b.WriteString("].\n")
		fmt.Fprintf(&b, "Definition MM := Eval vm_compute in flat2 (model_mismatches %d cases).\n", lo)
		fmt.Fprintf(&b, "Definition SV := Eval vm_compute in flat3 (spec_violations %d cases).\n", lo)
		b.WriteString("Definition NG := Eval vm_compute in Z.of_nat (count_guarded cases).\n")
		b.WriteString("Print MM.\nPrint SV.\nPrint NG.\n")
		name := fmt.Sprintf("%s/c09_cases_%d.v", *outDir, s)
		if err := os.WriteFile(name, b.Bytes(), 0644); err != nil {
			fmt.Fprintln(os.Stderr, err)
			return 2
		}
		rep.Files = append(rep.Files, name)
	}
	for i := 0; i < len(cases) && len(rep.Samples) < 3; i += 1 + len(cases)/3 {
		rep.Samples = append(rep.Samples, coqCase(cases[i]))
	}
	// keep the JSON form of all cases so a (case, step) index can be turned into a replay file
	all, _ := json.Marshal(cases)
	_ = os.WriteFile(*outDir+"/c09_cases.json", all, 0644)
	bz, _ := json.MarshalIndent(rep, "", " ")
	_ = os.WriteFile(*outDir+"/c09_report.json", bz, 0644)
	say("c09: %d cases, %d steps, %d twin runs, %d twin failures\n", rep.Cases, rep.Steps, rep.TwinRuns, len(rep.TwinFailures))
	return 0
}
