package main

// bidprobe: directed replays of two defects of the bid external app that no twin-run / crash check
// observes by itself (they are deterministic and do not stop the node):
//
//	negative_bid   a BID_CREATE whose amount is negative passes Validate; "locking" it ADDS |x| to the
//	               bidder's balance (Coin.Minus of a negative coin): money out of nowhere
//	public_expire  BID_EXPIRE is in the public router and runExpireBid checks neither the signer nor the
//	               deadline: any account closes anybody's conversation at any time
//
// Prints one JSON object; `vh bidprobe -out f.json` also writes it to a file.

import (
	"encoding/json"
	"flag"
	"math/big"
	"os"
	"strings"
)

func init() { subcmds["bidprobe"] = bidprobeMain }

type bidprobeStep struct {
	What    string `json:"what"`
	Tx      string `json:"tx"`
	Check   uint32 `json:"check_code"`
	Deliver uint32 `json:"deliver_code"`
	Log     string `json:"log,omitempty"`
}

type bidprobeCase struct {
	Name     string            `json:"name"`
	Steps    []bidprobeStep    `json:"steps"`
	Observed map[string]string `json:"observed"`
	Defect   bool              `json:"defect_reproduced"`
}

// sum of all OLT balance records of the committed tree
func bidprobeSupply(m map[string]string) *big.Int {
	t := new(big.Int)
	for k, v := range m {
		if strings.HasPrefix(k, "b_") && strings.HasSuffix(k, "_OLT") {
			if x, ok := new(big.Int).SetString(strings.Trim(v, "\""), 10); ok {
				t.Add(t, x)
			}
		}
	}
	return t
}

func bidprobeMain(args []string) int {
	fs := flag.NewFlagSet("bidprobe", flag.ExitOnError)
	outF := fs.String("out", "", "also write the report to this file")
	fs.Parse(args)
	w := NewWorld(3, 5, 2)
	u0, u1, u4 := w.Users[0], w.Users[1], w.Users[4]
	GAS = 1000000
	cases := []bidprobeCase{}
	run := func(rep *Replica, c *bidprobeCase, what string, tx []byte) {
		cc := rep.CheckTx(tx)
		res := rep.RunBlock(&BlockIn{Txs: [][]byte{tx}, Absent: map[int]bool{}})
		lg := res.Txs[0].Log
		if len(lg) > 160 {
			lg = lg[:160]
		}
		c.Steps = append(c.Steps, bidprobeStep{What: what, Tx: hx(tx), Check: cc.Code, Deliver: res.Txs[0].Code, Log: lg})
	}
	{
		rep := NewReplica(w.Genesis(), ReplicaOpts{NodeVal: w.Vals[0].Val})
		rep.InitChain()
		rep.RunBlock(&BlockIn{Absent: map[int]bool{}})
		rep.RunBlock(&BlockIn{Absent: map[int]bool{}})
		c := bidprobeCase{Name: "negative_bid", Observed: map[string]string{}}
		b0, s0 := rep.Bal(u1.Addr, "OLT"), bidprobeSupply(rep.Dump())
		run(rep, &c, "BID_CREATE by u1, example asset, amount -1000 OLT", txBidCreate(u1, u0.Addr, "thing", bidExample, oltAmt("-1000000000000000000000"), bidFar, "bp1"))
		b1, s1 := rep.Bal(u1.Addr, "OLT"), bidprobeSupply(rep.Dump())
		c.Observed["bidder_balance_before"], c.Observed["bidder_balance_after"] = b0, b1
		c.Observed["sum_of_all_OLT_balances_before"], c.Observed["sum_of_all_OLT_balances_after"] = s0.String(), s1.String()
		c.Observed["sum_delta_incl_fee"] = new(big.Int).Sub(s1, s0).String()
		c.Defect = c.Steps[0].Deliver == 0 && new(big.Int).Sub(s1, s0).Sign() > 0
		cases = append(cases, c)
		rep.Close()
	}
	{
		rep := NewReplica(w.Genesis(), ReplicaOpts{NodeVal: w.Vals[0].Val})
		rep.InitChain()
		rep.RunBlock(&BlockIn{Absent: map[int]bool{}})
		rep.RunBlock(&BlockIn{Absent: map[int]bool{}})
		c := bidprobeCase{Name: "public_expire", Observed: map[string]string{}}
		run(rep, &c, "DOMAIN_CREATE bp.ol by u0", txDomainCreate(u0, "bp.ol", oltAmt("1002000000000000000000"), "bp2"))
		run(rep, &c, "BID_CREATE by u1 for bp.ol, 5 OLT, deadline far in the future", txBidCreate(u1, u0.Addr, "bp.ol", bidOns, oltAmt("5000000000000000000"), bidFar, "bp3"))
		id := bidConvID(u0.Addr, "bp.ol", u1.Addr, rep.H)
		run(rep, &c, "BID_EXPIRE signed by u4 (neither party, not a validator)", txBidExpire(u4, id, "bp4"))
		d := rep.Dump()
		_, act := d["extBidConvActive"+id]
		_, exp := d["extBidConvExpired"+id]
		c.Observed["conversation_in_active_store"], c.Observed["conversation_in_expired_store"] = jsonString(act), jsonString(exp)
		c.Defect = c.Steps[2].Deliver == 0 && exp && !act
		cases = append(cases, c)
		rep.Close()
	}
	bz, _ := json.MarshalIndent(map[string]interface{}{"cases": cases}, "", " ")
	if *outF != "" {
		must(os.WriteFile(*outF, bz, 0644))
	}
	say("%s\n", bz)
	return 0
}
