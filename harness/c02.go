package main

// C02 (no value creation) / C03 (no unauthorised debit): the value ledger of the real application.
//
// Decoder: a key/value view of the deliver state (Replica.View()) -> ledger records
// (owner, bucket, currency, sub-key) -> amount in BASE units.  After InitChain and after every
// BeginBlock, DeliverTx and EndBlock of a history the view is decoded; the changed records of each
// step, the step's allowance (increase of the code's own accrual counter delegRwz_total_rewards),
// its authority set (accounts whose signatures on a successful transaction verify, the stake
// address of a signing validator, the stake address of a validator that received a guilty verdict)
// and - for the modelled kinds - the inputs of the Coq effect function are written into cases
// files that coq/theories/LedgerCheck.v evaluates.

import (
	"bytes"
	"encoding/json"
	"fmt"
	"math/big"
	"sort"
	"strconv"
	"strings"

	"github.com/Oneledger/protocol/action"
	"github.com/Oneledger/protocol/action/olvm"
	ethchain "github.com/Oneledger/protocol/chains/ethereum"
	"github.com/Oneledger/protocol/data/balance"
	"github.com/Oneledger/protocol/data/delegation"
	"github.com/Oneledger/protocol/data/evidence"
	"github.com/Oneledger/protocol/data/governance"
	"github.com/Oneledger/protocol/data/keys"
	"github.com/Oneledger/protocol/data/rewards"
	"github.com/Oneledger/protocol/external_apps/bid/bid_data"
	"github.com/Oneledger/protocol/identity"
	"github.com/Oneledger/protocol/serialize"
	"github.com/Oneledger/protocol/utils"
	ethcmn "github.com/ethereum/go-ethereum/common"
	ethtypes "github.com/ethereum/go-ethereum/core/types"
	ethcrypto "github.com/ethereum/go-ethereum/crypto"
	tmed "github.com/tendermint/tendermint/crypto/ed25519"
	tmsecp "github.com/tendermint/tendermint/crypto/secp256k1"
)

// buckets (the numbers are shared with coq/theories/Ledger.v)
const (
	c02BBal      = 0 // b_<addr>_<cur>
	c02BFee      = 1 // f_<addr> fee share, f_0000.. fee pool
	c02BStake    = 2 // st__e_<validator>_<delegator>   (sub = validator)
	c02BUnstake  = 3 // st__m_<height> entries           (sub = height)
	c02BWithdraw = 4 // st__d_b_<delegator>
	c02BUndeleg  = 5 // deleg_p_<height>_<addr>          (sub = height)
	c02BRewBal   = 6 // delegRwz_balance_<addr>
	c02BRewPend  = 7 // delegRwz_pending_<height>_<addr> (sub = height)
	c02BPropFund = 8 // propFunds_i_<id>_<addr>          (sub = proposal)
	c02BDelegAct = 9 // deleg_a_<addr>: a claim on the delegation pool's balance (C03 holdings only)
	// side records: validator reward claims on the reward pool's balance and their counters.  Not part of the chain total
	// (the pool's balance is) nor of an account's holdings; monitored: never negative, never raised by a transaction
	c02BVRewBal  = 10 // rwcum_balance_<validator>   matured, withdrawable reward claim
	c02BVRewWd   = 11 // rwcum_withdrawn_<validator> total withdrawn so far
	c02BVRewPend = 12 // rwz_<validator>_<interval>  rewards of an interval, not yet matured (sub = interval)
	// bid app escrow: there is no escrow account - the locked value exists only as the amount of the ACTIVE offer of type "bid"
	// with status "locked" of a conversation (extBidOffer_ACTIVE_<id>); owner = the conversation's bidder (sub = conversation)
	c02BBidEscrow = 13
	// side record: the wrapped-currency supply counter = balance of ChainDriverOption.TotalSupplyAddr in ETH / tokens (bookkeeping)
	c02BSupply = 14
)

var c02BucketNames = []string{"balance", "fee", "stake", "unstaking", "withdrawable", "undelegating", "reward_claim", "reward_withdrawing", "proposal_fund", "delegated",
	"validator_reward_matured", "validator_reward_withdrawn", "validator_reward_interval", "bid_escrow", "wrapped_supply_counter"}

const c02FeePoolOwner = "feepool"

type c02Key struct {
	Owner  string
	Bucket int
	Cur    string
	Sub    string
}

type c02View struct {
	Led        map[c02Key]*big.Int
	Side       map[c02Key]*big.Int // validator reward claim records (buckets 10..12)
	Unknown    []string          // keys the decoder does not recognise
	Bad        []string          // recognised keys whose value does not decode
	Counter    *big.Int          // delegRwz_total_rewards
	Vals       map[string]string // validator address -> stake address (v_ records)
	Byz        map[string]bool   // validators with a BYZANTINE_FAULT freeze record
	Protocol   map[string]bool   // pool / protocol owners
	PrefixHist map[string]int
	Fin        map[string]bool // proposals in the finalized / finalize-failed stores
	Convs      map[string][2]string // active bid conversation -> (bidder, asset owner)
	BidCounter map[string]*big.Int  // active bid conversation -> amount of its active COUNTER offer (nothing locked)
}

var c02E18 = new(big.Int).Exp(big.NewInt(10), big.NewInt(18), nil)

// prefixes of records that hold no value (configuration, votes, validator records, aggregates,
// claims paid out of a counted pool balance)
var c02NonValue = []string{"g_", "es_", "v_", "purged_", "w_", "d_", "propActive", "propPassed", "propFailed", "propFinalized", "propFinalizeFailed",
	"propVotes", "rwz_", "ri_", "rwaddr_", "rwcum_", "st__t_", "st__d_e_", "propFunds_t_", "btct_", "etht_", "ethfailed_", "ethsuccess_", "keeper_", "contracts_"}

func c02Amt(v string) (*big.Int, bool) {
	a := balance.NewAmount(0)
	if err := serialize.GetSerializer(serialize.PERSISTENT).Deserialize([]byte(v), a); err != nil {
		return nil, false
	}
	return new(big.Int).Set(a.BigInt()), true
}

func c02Coin(v string) (*big.Int, string, bool) {
	c := &balance.Coin{}
	if err := serialize.GetSerializer(serialize.PERSISTENT).Deserialize([]byte(v), c); err != nil || c.Amount == nil {
		return nil, "", false
	}
	return new(big.Int).Set(c.Amount.BigInt()), c.Currency.Name, true
}

// keys.Address.String(): "0lt" + hex of the address bytes (pool names are addresses of any length)
func c02IsAddr(s string) bool {
	if len(s) < 5 || s[:3] != "0lt" || len(s)%2 != 1 {
		return false
	}
	for _, c := range s[3:] {
		if !(c >= '0' && c <= '9' || c >= 'a' && c <= 'f') {
			return false
		}
	}
	return true
}

// an externally owned account has a 20-byte address (derived from a public key)
func c02IsEOAAddr(s string) bool { return len(s) == 43 && c02IsAddr(s) }

func c02Decode(m map[string]string) *c02View {
	v := &c02View{Led: map[c02Key]*big.Int{}, Side: map[c02Key]*big.Int{}, Counter: new(big.Int), Vals: map[string]string{}, Byz: map[string]bool{}, Protocol: map[string]bool{c02FeePoolOwner: true}, PrefixHist: map[string]int{}, Fin: map[string]bool{}, Convs: map[string][2]string{}, BidCounter: map[string]*big.Int{}}
	add := func(k c02Key, a *big.Int) {
		if old, ok := v.Led[k]; ok {
			v.Led[k] = new(big.Int).Add(old, a)
		} else {
			v.Led[k] = a
		}
	}
	supply := map[string]bool{}
	for k, val := range m {
		if strings.HasPrefix(k, "g_") && strings.HasSuffix(k, "_ethcdopt") {
			o := &ethchain.ChainDriverOption{}
			if json.Unmarshal([]byte(val), o) == nil && o.TotalSupplyAddr != "" {
				supply[keys.Address(o.TotalSupplyAddr).String()] = true
			}
		}
	}
	for _, k := range sortedKeys(m) {
		val := m[k]
		switch {
		case strings.HasPrefix(k, "b_"):
			v.PrefixHist["b_"]++
			rest := k[2:]
			i := strings.Index(rest, "_")
			if i < 0 || !c02IsAddr(rest[:i]) {
				v.Unknown = append(v.Unknown, k)
				continue
			}
			a, ok := c02Amt(val)
			if !ok {
				v.Bad = append(v.Bad, k)
				continue
			}
			if supply[rest[:i]] && rest[i+1:] != "OLT" {
				v.Side[c02Key{rest[:i], c02BSupply, rest[i+1:], ""}] = a // the wrapped-supply counter: bookkeeping, not value
				continue
			}
			add(c02Key{rest[:i], c02BBal, rest[i+1:], ""}, a)
		case strings.HasPrefix(k, "f_"):
			v.PrefixHist["f_"]++
			a, ok := c02Amt(val)
			if !ok {
				v.Bad = append(v.Bad, k)
				continue
			}
			rest := k[2:]
			if rest == "00000000000000000000" {
				add(c02Key{c02FeePoolOwner, c02BFee, "OLT", ""}, a)
			} else if len(rest) == 20 {
				add(c02Key{keys.Address(rest).String(), c02BFee, "OLT", ""}, a)
			} else {
				v.Unknown = append(v.Unknown, k)
			}
		case strings.HasPrefix(k, "st__e_"):
			v.PrefixHist["st__e_"]++
			p := strings.Split(k[len("st__e_"):], "_")
			a, ok := c02Amt(val)
			if len(p) != 2 || !c02IsAddr(p[0]) || !c02IsAddr(p[1]) {
				v.Unknown = append(v.Unknown, k)
				continue
			}
			if !ok {
				v.Bad = append(v.Bad, k)
				continue
			}
			add(c02Key{p[1], c02BStake, "OLT", p[0]}, a.Mul(a, c02E18))
		case strings.HasPrefix(k, "st__d_b_"):
			v.PrefixHist["st__d_b_"]++
			o := k[len("st__d_b_"):]
			a, ok := c02Amt(val)
			if !c02IsAddr(o) {
				v.Unknown = append(v.Unknown, k)
				continue
			}
			if !ok {
				v.Bad = append(v.Bad, k)
				continue
			}
			add(c02Key{o, c02BWithdraw, "OLT", ""}, a.Mul(a, c02E18))
		case strings.HasPrefix(k, "st__m_"):
			v.PrefixHist["st__m_"]++
			h := k[len("st__m_"):]
			if _, err := strconv.ParseInt(h, 10, 64); err != nil {
				v.Unknown = append(v.Unknown, k)
				continue
			}
			mb := &delegation.MatureBlock{}
			if err := serialize.GetSerializer(serialize.PERSISTENT).Deserialize([]byte(val), mb); err != nil {
				v.Bad = append(v.Bad, k)
				continue
			}
			for _, d := range mb.Data {
				a := new(big.Int).Set(d.Amount.BigInt())
				add(c02Key{d.Address.String(), c02BUnstake, "OLT", h}, a.Mul(a, c02E18))
			}
		case strings.HasPrefix(k, "deleg_p_"):
			v.PrefixHist["deleg_p_"]++
			p := strings.SplitN(k[len("deleg_p_"):], "_", 2)
			if len(p) != 2 || !c02IsAddr(p[1]) {
				v.Unknown = append(v.Unknown, k)
				continue
			}
			if _, err := strconv.ParseInt(p[0], 10, 64); err != nil {
				v.Unknown = append(v.Unknown, k)
				continue
			}
			a, cur, ok := c02Coin(val)
			if !ok {
				v.Bad = append(v.Bad, k)
				continue
			}
			add(c02Key{p[1], c02BUndeleg, cur, p[0]}, a)
		case strings.HasPrefix(k, "deleg_a_"):
			v.PrefixHist["deleg_a_"]++
			o := k[len("deleg_a_"):]
			a, cur, ok := c02Coin(val)
			if !c02IsAddr(o) {
				v.Unknown = append(v.Unknown, k)
				continue
			}
			if !ok {
				v.Bad = append(v.Bad, k)
				continue
			}
			add(c02Key{o, c02BDelegAct, cur, ""}, a)
		case strings.HasPrefix(k, "rwcum_balance_") || strings.HasPrefix(k, "rwcum_withdrawn_"):
			b, pre := c02BVRewBal, "rwcum_balance_"
			if strings.HasPrefix(k, "rwcum_withdrawn_") {
				b, pre = c02BVRewWd, "rwcum_withdrawn_"
			}
			v.PrefixHist[pre]++
			o := k[len(pre):]
			a, ok := c02Amt(val)
			if !c02IsAddr(o) {
				v.Unknown = append(v.Unknown, k)
				continue
			}
			if !ok {
				v.Bad = append(v.Bad, k)
				continue
			}
			v.Side[c02Key{o, b, "OLT", ""}] = a
		case strings.HasPrefix(k, "rwz_"):
			v.PrefixHist["rwz_"]++
			p := strings.Split(k[len("rwz_"):], "_")
			a, ok := c02Amt(val)
			if len(p) != 2 || !c02IsAddr(p[0]) {
				v.Unknown = append(v.Unknown, k)
				continue
			}
			if _, err := strconv.ParseInt(p[1], 10, 64); err != nil {
				v.Unknown = append(v.Unknown, k)
				continue
			}
			if !ok {
				v.Bad = append(v.Bad, k)
				continue
			}
			v.Side[c02Key{p[0], c02BVRewPend, "OLT", p[1]}] = a
		case strings.HasPrefix(k, "extBidConv"):
			// conversation records (active / succeed / cancelled / expired / rejected): no value
			v.PrefixHist["extBidConv"]++
			if strings.HasPrefix(k, "extBidConvActive") {
				conv := &bid_data.BidConv{}
				if serialize.GetSerializer(serialize.LOCAL).Deserialize([]byte(val), conv) == nil {
					v.Convs[k[len("extBidConvActive"):]] = [2]string{conv.Bidder.String(), conv.AssetOwner.String()}
				}
			}
		case strings.HasPrefix(k, "extBidOffer_INACTIVE_"):
			v.PrefixHist["extBidOffer_INACTIVE_"]++
			o := &bid_data.BidOffer{}
			if err := serialize.GetSerializer(serialize.PERSISTENT).Deserialize([]byte(val), o); err != nil {
				v.Bad = append(v.Bad, k)
			} else if o.OfferType == bid_data.TypeBidOffer && o.AmountStatus == bid_data.BidAmountLocked {
				v.Bad = append(v.Bad, k) // an inactive offer that still claims to hold a locked amount would be outside the ledger
			}
		case strings.HasPrefix(k, "extBidOffer_ACTIVE_"):
			v.PrefixHist["extBidOffer_ACTIVE_"]++
			id := k[len("extBidOffer_ACTIVE_"):]
			o := &bid_data.BidOffer{}
			if err := serialize.GetSerializer(serialize.PERSISTENT).Deserialize([]byte(val), o); err != nil {
				v.Bad = append(v.Bad, k)
				continue
			}
			if o.OfferType != bid_data.TypeBidOffer || o.AmountStatus != bid_data.BidAmountLocked {
				v.BidCounter[id] = new(big.Int).Set(o.Amount.Value.BigInt())
				continue // a counter offer: an asking price, nothing is locked
			}
			conv := &bid_data.BidConv{}
			cv, ok := m["extBidConvActive"+id]
			if !ok || serialize.GetSerializer(serialize.LOCAL).Deserialize([]byte(cv), conv) != nil {
				v.Bad = append(v.Bad, k) // a locked amount without an active conversation: nobody could ever get it back
				continue
			}
			add(c02Key{conv.Bidder.String(), c02BBidEscrow, o.Amount.Currency, "bid:" + id}, new(big.Int).Set(o.Amount.Value.BigInt()))
		case k == "delegRwz_total_rewards":
			v.PrefixHist["delegRwz_total_rewards"]++
			a, ok := c02Amt(val)
			if !ok {
				v.Bad = append(v.Bad, k)
				continue
			}
			v.Counter = a
		case strings.HasPrefix(k, "delegRwz_balance_"):
			v.PrefixHist["delegRwz_balance_"]++
			o := k[len("delegRwz_balance_"):]
			a, ok := c02Amt(val)
			if !c02IsAddr(o) {
				v.Unknown = append(v.Unknown, k)
				continue
			}
			if !ok {
				v.Bad = append(v.Bad, k)
				continue
			}
			add(c02Key{o, c02BRewBal, "OLT", ""}, a)
		case strings.HasPrefix(k, "delegRwz_pending_"):
			v.PrefixHist["delegRwz_pending_"]++
			p := strings.SplitN(k[len("delegRwz_pending_"):], "_", 2)
			if len(p) != 2 || !c02IsAddr(p[1]) {
				v.Unknown = append(v.Unknown, k)
				continue
			}
			if _, err := strconv.ParseInt(p[0], 10, 64); err != nil {
				v.Unknown = append(v.Unknown, k)
				continue
			}
			a, ok := c02Amt(val)
			if !ok {
				v.Bad = append(v.Bad, k)
				continue
			}
			add(c02Key{p[1], c02BRewPend, "OLT", p[0]}, a)
		case strings.HasPrefix(k, "propFunds_i_"):
			v.PrefixHist["propFunds_i_"]++
			p := strings.Split(k[len("propFunds_i_"):], "_")
			if len(p) != 2 || !c02IsAddr(p[1]) {
				v.Unknown = append(v.Unknown, k)
				continue
			}
			a, ok := c02Amt(val)
			if !ok {
				v.Bad = append(v.Bad, k)
				continue
			}
			add(c02Key{p[1], c02BPropFund, "OLT", p[0]}, a)
		default:
			known := false
			for _, p := range c02NonValue {
				if strings.HasPrefix(k, p) {
					known = true
					v.PrefixHist[p]++
					break
				}
			}
			if !known {
				v.Unknown = append(v.Unknown, k)
			}
			// side information for the authority sets and the protocol-owner table
			switch {
			case strings.HasPrefix(k, "propFinalizeFailed"):
				v.Fin[strings.TrimPrefix(k[len("propFinalizeFailed"):], "_")] = true
			case strings.HasPrefix(k, "propFinalized"):
				v.Fin[strings.TrimPrefix(k[len("propFinalized"):], "_")] = true
			case strings.HasPrefix(k, "v_"):
				val1 := &identity.Validator{}
				if serialize.GetSerializer(serialize.JSON).Deserialize([]byte(val), val1) == nil {
					v.Vals[val1.Address.String()] = val1.StakeAddress.String()
				}
			case strings.HasPrefix(k, "es__ssvk_"):
				lvh := &evidence.LastValidatorHistory{}
				if _, err := lvh.FromBytes([]byte(val)); err == nil && lvh.Status == evidence.BYZANTINE_FAULT {
					v.Byz[lvh.Address.String()+"@"+strconv.FormatInt(lvh.FrozenHeight, 10)] = true
				}
			case strings.HasPrefix(k, "g_") && strings.HasSuffix(k, "_proposal"):
				o := &governance.ProposalOptionSet{}
				if json.Unmarshal([]byte(val), o) == nil && o.BountyProgramAddr != "" {
					v.Protocol[keys.Address(o.BountyProgramAddr).String()] = true
				}
			case strings.HasPrefix(k, "g_") && strings.HasSuffix(k, "_reward"):
				o := &rewards.Options{}
				if json.Unmarshal([]byte(val), o) == nil && o.RewardPoolAddress != "" {
					v.Protocol[keys.Address(o.RewardPoolAddress).String()] = true
				}
			case strings.HasPrefix(k, "g_") && strings.HasSuffix(k, "_ethcdopt"):
				o := &ethchain.ChainDriverOption{}
				if json.Unmarshal([]byte(val), o) == nil && o.TotalSupplyAddr != "" {
					v.Protocol[keys.Address(o.TotalSupplyAddr).String()] = true
				}
			case strings.HasPrefix(k, "g_") && strings.HasSuffix(k, "_btccdopt"):
				var o struct{ TotalSupplyAddr string }
				if json.Unmarshal([]byte(val), &o) == nil && o.TotalSupplyAddr != "" {
					v.Protocol[keys.Address(o.TotalSupplyAddr).String()] = true
				}
			case strings.HasPrefix(k, "keeper_"):
				// account-keeper record (nonce, code hash) of an address that took part in an OLVM transaction: no value
				// (the balance is the b_ record).  An account WITH code is a contract: not externally owned - its
				// balance moves by other people's calls (C17).  A plain sender stays externally owned.
				acc := &balance.EthAccount{}
				if err := serialize.GetSerializer(serialize.PERSISTENT).Deserialize([]byte(val), acc); err != nil {
					if json.Unmarshal([]byte(val), acc) != nil {
						v.Bad = append(v.Bad, k)
						break
					}
				}
				if acc.Coins.Amount != nil && acc.Coins.Amount.BigInt().Sign() != 0 {
					v.Bad = append(v.Bad, k) // a keeper record that holds value itself would be outside the ledger
				}
				if len(acc.CodeHash) != 0 && !bytes.Equal(acc.CodeHash, c02EmptyCodeHash) {
					v.Protocol[keys.Address(k[len("keeper_"):]).String()] = true
				}
			case strings.HasPrefix(k, "contracts_"):
				// code (0x01 | address) and storage (0x02 | address | slot) of a contract: no value
				rest := k[len("contracts_"):]
				if len(rest) >= 21 && (rest[0] == 1 || rest[0] == 2) {
					v.Protocol[keys.Address(rest[1:21]).String()] = true
				}
			}
		}
	}
	v.Protocol[keys.Address("00000000000000000000").String()] = true // fees.POOL_KEY as a balance owner (pool "FeePool")
	v.Protocol[keys.Address("00000000000000000001").String()] = true // network_delegation.DELEGATION_POOL_KEY
	return v
}

// ---------- interning ----------

type c02Intern struct {
	owners  []string
	oidx    map[string]int
	curs    []string
	cidx    map[string]int
	subs    map[string]int // non-numeric sub keys (validator address -> owner index is used instead; proposal ids)
	nextSub int
}

func c02NewIntern() *c02Intern {
	in := &c02Intern{oidx: map[string]int{}, cidx: map[string]int{}, subs: map[string]int{}}
	in.cur("OLT")
	in.cur("ETH")
	return in
}
func (in *c02Intern) owner(s string) int {
	if i, ok := in.oidx[s]; ok {
		return i
	}
	in.oidx[s] = len(in.owners)
	in.owners = append(in.owners, s)
	return len(in.owners) - 1
}
func (in *c02Intern) cur(s string) int {
	if i, ok := in.cidx[s]; ok {
		return i
	}
	in.cidx[s] = len(in.curs)
	in.curs = append(in.curs, s)
	return len(in.curs) - 1
}
func (in *c02Intern) sub(k c02Key) int64 {
	switch k.Bucket {
	case c02BUnstake, c02BUndeleg, c02BRewPend, c02BVRewPend:
		h, _ := strconv.ParseInt(k.Sub, 10, 64)
		return h
	case c02BStake:
		return int64(in.owner(k.Sub))
	case c02BPropFund, c02BBidEscrow:
		return int64(in.prop(k.Sub))
	}
	return 0
}
func (in *c02Intern) prop(id string) int {
	if i, ok := in.subs[id]; ok {
		return i
	}
	in.nextSub++
	in.subs[id] = in.nextSub
	return in.nextSub
}

type c02Rec struct {
	O   int    `json:"o"`
	B   int    `json:"b"`
	C   int    `json:"c"`
	S   int64  `json:"s"`
	Amt string `json:"amt"`
}

func (in *c02Intern) recs(led map[c02Key]*big.Int) []c02Rec {
	out := make([]c02Rec, 0, len(led))
	for k, a := range led {
		out = append(out, c02Rec{in.owner(k.Owner), k.Bucket, in.cur(k.Cur), in.sub(k), a.String()})
	}
	sort.Slice(out, func(i, j int) bool {
		a, b := out[i], out[j]
		if a.O != b.O {
			return a.O < b.O
		}
		if a.B != b.B {
			return a.B < b.B
		}
		if a.C != b.C {
			return a.C < b.C
		}
		return a.S < b.S
	})
	return out
}

// changed records between two ledgers (new value; "0" for a record that disappeared)
func (in *c02Intern) diff(a, b map[c02Key]*big.Int) []c02Rec {
	ch := map[c02Key]*big.Int{}
	for k, v := range b {
		if old, ok := a[k]; !ok || old.Cmp(v) != 0 {
			ch[k] = v
		}
	}
	for k := range a {
		if _, ok := b[k]; !ok {
			ch[k] = new(big.Int)
		}
	}
	return in.recs(ch)
}

// ---------- authority ----------

var c02EmptyCodeHash = ethcrypto.Keccak256(nil)

// c02OLVMSender recovers, with go-ethereum's own signer, the account that signed an OLVM transaction: the
// signature is an EIP-155 signature over the embedded Ethereum transaction (nonce, gas price = fee price,
// gas = fee gas, to, value, data) for this chain's id.  Independent of the payload's From field and of the handler.
func c02OLVMSender(tx *action.SignedTx, chainID string) (string, bool) {
	m := &olvm.Transaction{}
	if m.Unmarshal(tx.Data) != nil || len(tx.Signatures) != 1 {
		return "", false
	}
	var to *ethcmn.Address
	if m.To != nil {
		t := ethcmn.BytesToAddress(m.To.Bytes())
		to = &t
	}
	etx := ethtypes.NewTx(&ethtypes.LegacyTx{Nonce: m.Nonce, To: to, Value: m.Amount.Value.BigInt(), Gas: uint64(tx.Fee.Gas),
		GasPrice: tx.Fee.Price.Value.BigInt(), Data: m.Data})
	signer := ethtypes.NewEIP155Signer(utils.HashToBigInt(chainID))
	etx, err := etx.WithSignature(signer, tx.Signatures[0].Signed)
	if err != nil {
		return "", false
	}
	addr, err := signer.Sender(etx)
	if err != nil {
		return "", false
	}
	return keys.Address(addr.Bytes()).String(), true
}

// accounts whose signature on this transaction verifies (what "signed a transaction" means)
func c02SignedBy(tx *action.SignedTx, chainID string) (out []string) {
	defer func() { recover() }()
	out = []string{}
	if tx.Type == action.OLVM {
		if a, ok := c02OLVMSender(tx, chainID); ok {
			out = append(out, a)
		}
		return out
	}
	raw := tx.RawBytes()
	for _, s := range tx.Signatures {
		if a, ok := c02IndependentSigner(s, raw); ok {
			out = append(out, a)
		}
	}
	return out
}

// c02IndependentSigner decides "this account signed these bytes" WITHOUT the key handlers of the code under verification
// (data/keys): the reference implementations are called directly, and the account of a key is derived here.
//   ed25519   : tendermint crypto/ed25519 - address = first 20 bytes of sha256(key)
//   secp256k1 : tendermint crypto/secp256k1 - address = ripemd160(sha256(compressed key))
//   ethsecp   : go-ethereum - address = keccak256(uncompressed key)[12:], signature R||S over the 32-byte message
//   btcecsecp : a Bitcoin witness key has NO account on this chain (PublicKeyBTCEC.Address() is nil on the unchanged tree):
//               it gives authority to nobody
func c02IndependentSigner(s action.Signature, msg []byte) (string, bool) {
	switch s.Signer.KeyType {
	case keys.ED25519:
		if len(s.Signer.Data) != tmed.PubKeyEd25519Size {
			return "", false
		}
		var k tmed.PubKeyEd25519
		copy(k[:], s.Signer.Data)
		if !k.VerifyBytes(msg, s.Signed) {
			return "", false
		}
		return keys.Address(k.Address().Bytes()).String(), true
	case keys.SECP256K1:
		if len(s.Signer.Data) != tmsecp.PubKeySecp256k1Size {
			return "", false
		}
		var k tmsecp.PubKeySecp256k1
		copy(k[:], s.Signer.Data)
		if !k.VerifyBytes(msg, s.Signed) {
			return "", false
		}
		return keys.Address(k.Address().Bytes()).String(), true
	case keys.ETHSECP:
		pk, err := ethcrypto.DecompressPubkey(s.Signer.Data)
		if err != nil || len(s.Signed) < 64 {
			return "", false
		}
		if !ethcrypto.VerifySignature(ethcrypto.CompressPubkey(pk), msg, s.Signed[:64]) {
			return "", false
		}
		return keys.Address(ethcrypto.PubkeyToAddress(*pk).Bytes()).String(), true
	}
	return "", false
}

func c02Z(s string) string {
	if strings.HasPrefix(s, "-") {
		return "(" + s + ")"
	}
	return s
}

func c02CoqRecs(l []c02Rec) string {
	p := make([]string, len(l))
	for i, r := range l {
		p[i] = fmt.Sprintf("((%d,%d,%d,%d)%%N,%s)", r.O, r.B, r.C, r.S, c02Z(r.Amt))
	}
	return "[" + strings.Join(p, ";") + "]"
}

func c02CoqNs(l []int) string {
	p := make([]string, len(l))
	for i, x := range l {
		p[i] = strconv.Itoa(x)
	}
	return "[" + strings.Join(p, ";") + "]%N"
}
