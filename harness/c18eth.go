package main

// C18, second chain: the transaction kinds that carry an embedded Ethereum transaction (ETH_LOCK,
// ETH_REDEEM, ERC20_LOCK, ERC20_REDEEM, ETH_REPORT_FINALITY_MINT) only run on a chain whose genesis
// configures the Ethereum chain driver, witnesses and a token; the laboratory chain does not.
// This file builds that chain (the one of the C15 harness), a valid transaction of each kind, the
// field/payload/envelope hostility of c18KindInputs for them, and hostile EMBEDDED bytes: every
// known method selector followed by 0..200 argument bytes (all word boundaries), bare and wrapped
// in signed / unsigned RLP transactions to the contract, the token and elsewhere.  It also builds
// hostile OLVM transactions (payload fields of the olvm.Transaction, correctly EIP-155 signed
// where the field is covered by the signature or not).

import (
	"encoding/hex"
	"encoding/json"
	"fmt"
	"math/big"
	"strings"

	ethcommon "github.com/ethereum/go-ethereum/common"
	ethtypes "github.com/ethereum/go-ethereum/core/types"
	"github.com/ethereum/go-ethereum/rlp"

	"github.com/Oneledger/protocol/action"
	acteth "github.com/Oneledger/protocol/action/eth"
	ethchain "github.com/Oneledger/protocol/chains/ethereum"
	"github.com/Oneledger/protocol/data/keys"
	"github.com/Oneledger/protocol/utils"
)

type c18Eth struct {
	w    *c15World
	n    int
	tail int64
	name ethchain.TrackerName // ongoing tracker created by the set-up lock
}

func (e *c18Eth) memo() string { e.n++; return fmt.Sprintf("c18eth%d", e.n) }
func (e *c18Eth) next() int64  { e.tail++; return e.tail }

// the prepared chain: 4 witnesses, a token, wrapped balances for users 1 and 2, one ongoing lock tracker
func newC18Eth() *c18Eth {
	w := c15NewWorld(c15Cfg{NWit: 4, Cap: 1000000, Seed: 1, FlagFrom: -1, ERC: true, Init: 1000, TTCInit: 1000})
	e := &c18Eth{w: w, tail: 1000}
	GAS = 1000000
	k := w.idKey[1]
	id := w.addTx(c15LockBytes(big.NewInt(5), c15Contract, c15LockData, 1, c15S(1)))
	res := w.rep.RunBlock(&BlockIn{Txs: [][]byte{mkTx(action.ETH_LOCK, acteth.Lock{Locker: k.Addr, ETHTxn: w.txs[id-1].Bytes}, GAS, "c18eth-setup", k)}, Absent: map[int]bool{}})
	if len(res.Txs) != 1 || res.Txs[0].Code != 0 {
		panic("c18eth: the set-up lock failed: " + res.Txs[0].Log)
	}
	bz, _ := hex.DecodeString(w.nameHex[0])
	e.name.SetBytes(bz)
	return e
}

// names of the kinds of the second chain (builds and closes a chain)
func newC18EthClosed() []string {
	e := newC18Eth()
	defer func() { defer func() { recover() }(); e.w.rep.Close() }()
	out := []string{}
	for _, k := range e.kinds() {
		out = append(out, k.Name)
	}
	return out
}

func (e *c18Eth) kinds() []labKind {
	w := e.w
	u1, u2, wit := w.idKey[1], w.idKey[2], w.idKey[20]
	one := func(x Key) []Key { return []Key{x} }
	return []labKind{
		{Name: "ETH_LOCK", Signers: one(u1), Victim: u1, Build: func(m string) []byte {
			t := e.next()
			return mkTx(action.ETH_LOCK, acteth.Lock{Locker: u1.Addr, ETHTxn: c15LockBytes(big.NewInt(7), c15Contract, c15LockData, uint64(t), c15S(t))}, GAS, m, u1)
		}},
		{Name: "ETH_REDEEM", Signers: one(u2), Victim: u2, Build: func(m string) []byte {
			return mkTx(action.ETH_REDEEM, acteth.Redeem{Owner: u2.Addr, To: ethcommon.BytesToAddress(u2.Addr), ETHTxn: c15RedeemBytes(big.NewInt(3), e.next())}, GAS, m, u2)
		}},
		{Name: "ERC20_LOCK", Signers: one(u1), Victim: u1, Build: func(m string) []byte {
			t := e.next()
			return mkTx(action.ERC20_LOCK, acteth.ERC20Lock{Locker: u1.Addr, ETHTxn: c15ERCLockBytes(9, uint64(t), t)}, GAS, m, u1)
		}},
		{Name: "ERC20_REDEEM", Signers: one(u2), Victim: u2, Build: func(m string) []byte {
			return mkTx(action.ERC20_REDEEM, acteth.ERC20Redeem{Owner: u2.Addr, To: ethcommon.BytesToAddress(u2.Addr), ETHTxn: c18ERCRedeemBytes(2, e.next())}, GAS, m, u2)
		}},
		{Name: "ETH_REPORT_FINALITY_MINT", Signers: one(wit), Victim: wit, Build: func(m string) []byte {
			return mkTx(action.ETH_REPORT_FINALITY_MINT, &acteth.ReportFinality{TrackerName: e.name, Locker: u1.Addr, ValidatorAddress: wit.Addr, VoteIndex: 0, Success: true}, GAS, m, wit)
		}},
	}
}

// redeem(uint256,address) call data of the ERC lock-redeem contract, wrapped like c15RedeemBytes
func c18ERCRedeemBytes(amount int64, tail int64) []byte {
	return c15ERCRedeemBytes(amount, tail) // a real RLP transaction (the redeem handlers decode strictly)
}

func c18RLPTx(to *ethcommon.Address, value int64, data []byte, nonce uint64, signed bool, s *big.Int) []byte {
	lt := &ethtypes.LegacyTx{Nonce: nonce, GasPrice: big.NewInt(1), Gas: 100000, To: to, Value: big.NewInt(value), Data: data}
	if signed {
		lt.V, lt.R, lt.S = big.NewInt(27), big.NewInt(12345), s
	}
	bz, err := rlp.EncodeToBytes(ethtypes.NewTx(lt))
	must(err)
	return bz
}

// hostile embedded Ethereum transactions
func (e *c18Eth) embedded() (names []string, blobs [][]byte) {
	add := func(n string, b []byte) { names = append(names, n); blobs = append(blobs, b) }
	sels := map[string][]byte{"lock()": c15LockData, "redeem(uint256)": ethcommon.FromHex(c15RedeemSelector()),
		"transfer(address,uint256)": ethcommon.FromHex("a9059cbb"), "redeem(uint256,address)": ethcommon.FromHex("7bde82f2"), "none": {1, 2, 3, 4}}
	order := []string{"lock()", "redeem(uint256)", "transfer(address,uint256)", "redeem(uint256,address)", "none"}
	other := ethcommon.HexToAddress("0x01")
	tos := []struct {
		n string
		a *ethcommon.Address
	}{{"contract", &c15Contract}, {"token", &c15Token}, {"elsewhere", &other}, {"creation", nil}}
	for _, sn := range order {
		for _, n := range []int{0, 1, 4, 16, 31, 32, 33, 48, 63, 64, 65, 96, 127, 128, 200} {
			args := make([]byte, n)
			for i := range args {
				args[i] = 0x11
			}
			if n >= 32 { // a plausible first word (small number / address)
				copy(args[:32], make([]byte, 32))
				args[31] = 5
				copy(args[12:32], c15Contract.Bytes())
			}
			data := append(append([]byte{}, sels[sn]...), args...)
			add(fmt.Sprintf("bare:%s+%d", sn, n), data)
			add(fmt.Sprintf("framed:%s+%d", sn, n), append(append([]byte{0xf8, 0x01}, data...), c15S(e.next()).Bytes()...))
			for _, to := range tos {
				t := e.next()
				add(fmt.Sprintf("rlp-signed->%s:%s+%d", to.n, sn, n), c18RLPTx(to.a, 0, data, uint64(t), true, c15S(t)))
				if n == 0 || n == 32 || n == 48 || n == 64 {
					add(fmt.Sprintf("rlp-unsigned->%s:%s+%d", to.n, sn, n), c18RLPTx(to.a, 0, data, uint64(t), false, nil))
					add(fmt.Sprintf("rlp-signed-value->%s:%s+%d", to.n, sn, n), c18RLPTx(to.a, 7, data, uint64(t), true, c15S(e.next())))
				}
			}
		}
	}
	add("empty", []byte{})
	add("one-byte", []byte{0})
	add("rlp-empty-list", []byte{0xc0})
	add("rlp-short-list", []byte{0xc3, 1, 2, 3})
	add("rlp-truncated", c15LockBytes(big.NewInt(5), c15Contract, c15LockData, 7, c15S(7))[:20])
	add("rlp-length-lie", append([]byte{0xf9, 0xff, 0xff}, make([]byte, 40)...))
	add("huge", []byte(strings.Repeat("\x7b", 100000)))
	add("selector-twice", append(append(append([]byte{}, sels["redeem(uint256)"]...), sels["redeem(uint256)"]...), make([]byte, 10)...))
	return
}

func (e *c18Eth) generate(add func(kind, name, class string, tx []byte)) {
	kinds := e.kinds()
	defer func() {
		// self-check of the generator: the unmodified transaction of every kind is accepted and executed on
		// this chain (otherwise the hostile variants would all die at the first validation step)
		for _, k := range kinds {
			tx := k.Build(e.memo())
			if c := e.w.rep.CheckTx(tx); c.Code != 0 {
				panic("c18eth: valid " + k.Name + " refused by CheckTx: " + c.Log)
			}
			res := e.w.rep.RunBlock(&BlockIn{Txs: [][]byte{tx}, Absent: map[int]bool{}})
			if len(res.Txs) != 1 || res.Txs[0].Code != 0 {
				panic("c18eth: valid " + k.Name + " not executed: " + res.Txs[0].Log)
			}
		}
	}()
	attacker := e.w.idKey[40].Addr
	for _, k := range kinds {
		c18KindInputs(add, k, e.memo, attacker)
	}
	// finality reports for the ongoing tracker signed by accounts that are NOT witnesses (and by witnesses with every
	// slot index incl. other witnesses' slots): anybody can send one, it costs no fee
	{
		u1 := e.w.idKey[1]
		for _, who := range []int{3, 4, 40} {
			k := e.w.idKey[who]
			for _, idx := range []int64{0, 1, 2, 3, 4, 1000} {
				for _, ok := range []bool{true, false} {
					add("ETH_REPORT_FINALITY_MINT", fmt.Sprintf("report by non-witness %d index %d success %v", who, idx, ok), "outsider",
						mkTx(action.ETH_REPORT_FINALITY_MINT, &acteth.ReportFinality{TrackerName: e.name, Locker: u1.Addr, ValidatorAddress: k.Addr, VoteIndex: idx, Success: ok}, GAS, e.memo(), k))
				}
			}
		}
		for w := 0; w < 4; w++ {
			k := e.w.idKey[20+w]
			for _, idx := range []int64{0, 1, 2, 3} {
				if int(idx) == w {
					continue
				}
				add("ETH_REPORT_FINALITY_MINT", fmt.Sprintf("report by witness %d in slot %d", w, idx), "outsider",
					mkTx(action.ETH_REPORT_FINALITY_MINT, &acteth.ReportFinality{TrackerName: e.name, Locker: u1.Addr, ValidatorAddress: k.Addr, VoteIndex: idx, Success: true}, GAS, e.memo(), k))
			}
		}
	}
	names, blobs := e.embedded()
	for _, k := range kinds[:4] {
		base := decodeSigned(k.Build(e.memo()))
		var m map[string]json.RawMessage
		must(json.Unmarshal(base.Data, &m))
		field := ""
		for f := range m {
			if strings.EqualFold(f, "ETHTxn") || strings.EqualFold(f, "ethTxn") {
				field = f
			}
		}
		if field == "" {
			panic("c18eth: kind " + k.Name + " has no embedded transaction field")
		}
		for i, b := range blobs {
			m2 := map[string]json.RawMessage{}
			for a, v := range m {
				m2[a] = v
			}
			enc, _ := json.Marshal(b) // []byte -> base64 string, as the payload's own Marshal does
			m2[field] = enc
			bz, _ := json.Marshal(m2)
			raw := base.RawTx
			raw.Data = bz
			raw.Memo = e.memo()
			add(k.Name, "embedded:"+names[i], "embedded", resign(raw, k.Signers...))
		}
	}
}

// ---------- hostile OLVM transactions (laboratory chain: its genesis funds eth-secp accounts) ----------

func c18OLVMInputs(l *lab, add func(kind, name, class string, tx []byte)) {
	w := l.W
	if len(w.Eth) == 0 {
		return
	}
	k := w.Eth[0]
	chain := utils.HashToBigInt("verif-chain")
	to := w.Users[1].Addr
	price := big.NewInt(1000000000)
	mk := func(name string, ka *keys.Address, nonce uint64, value, pr *big.Int, gas int64, data []byte, sign, field *big.Int, memo string, typ int64) {
		defer func() {
			if r := recover(); r != nil { // a value the builder itself cannot encode is not an input
				return
			}
		}()
		add("OLVM", name, "field", c17TxOLVM(k, ka, nonce, value, pr, gas, data, sign, field, memo, typ))
	}
	toE := to
	huge, _ := new(big.Int).SetString("115792089237316195423570985008687907853269984665640564039457584007913129639935", 10) // 2^256-1
	over, _ := new(big.Int).SetString("115792089237316195423570985008687907853269984665640564039457584007913129639936", 10) // 2^256
	for i, v := range []*big.Int{big.NewInt(0), big.NewInt(1), new(big.Int).Lsh(big.NewInt(1), 63), new(big.Int).Lsh(big.NewInt(1), 64), huge, over} {
		mk(fmt.Sprintf("value#%d", i), &toE, 0, v, price, 30000, nil, chain, chain, "0", 0)
		mk(fmt.Sprintf("price#%d", i), &toE, 0, big.NewInt(1), v, 30000, nil, chain, chain, "0", 0)
		mk(fmt.Sprintf("chainid#%d", i), &toE, 0, big.NewInt(1), price, 30000, nil, chain, v, "0", 0)
		mk(fmt.Sprintf("signchain#%d", i), &toE, 0, big.NewInt(1), price, 30000, nil, v, v, "0", 0)
	}
	for i, g := range []int64{-1, 0, 1, 20999, 21000, 9223372036854775807} {
		mk(fmt.Sprintf("gas#%d", i), &toE, 0, big.NewInt(1), price, g, nil, chain, chain, "0", 0)
	}
	for i, n := range []uint64{1, 1 << 32, 1<<63 - 1, 1 << 63, 1<<64 - 1} {
		mk(fmt.Sprintf("nonce#%d", i), &toE, n, big.NewInt(1), price, 30000, nil, chain, chain, fmt.Sprint(n), 0)
	}
	for i, m := range []string{"", "x", "-1", "18446744073709551616", strings.Repeat("9", 500)} {
		mk(fmt.Sprintf("memo#%d", i), &toE, 0, big.NewInt(1), price, 30000, nil, chain, chain, m, 0)
	}
	for i, t := range []int64{-1, 1, 2, 127, 1 << 40} {
		mk(fmt.Sprintf("txtype#%d", i), &toE, 0, big.NewInt(1), price, 30000, nil, chain, chain, "0", t)
	}
	datas := [][]byte{{0xfe}, {0x60, 0x00, 0x60, 0x00, 0xfd}, []byte(strings.Repeat("\x5b", 50000)), {0x60, 0x00, 0x35, 0x56}, {0xff}, {0x30, 0xff}, {0x5b, 0x60, 0x00, 0x56}}
	for i, d := range datas {
		mk(fmt.Sprintf("create-data#%d", i), nil, 0, big.NewInt(0), price, 200000, d, chain, chain, "0", 0)
		mk(fmt.Sprintf("call-data#%d", i), &toE, 0, big.NewInt(0), price, 200000, d, chain, chain, "0", 0)
	}
	// payload-field hostility through JSON (signature then no longer matches some fields: must be refused, not crash)
	base := decodeSigned(c17TxOLVM(k, &to, 0, big.NewInt(1), price, 30000, nil, chain, chain, "0", 0))
	var m map[string]json.RawMessage
	if json.Unmarshal(base.Data, &m) == nil {
		for f := range m {
			for vi, hv := range append(c18HostileValues(string(m[f]), l.Attacker.Addr), `null`, `{}`, `[]`, `"x"`, `-1`, `1e400`) {
				m2 := map[string]json.RawMessage{}
				for a, b := range m {
					m2[a] = b
				}
				m2[f] = json.RawMessage(hv)
				bz, _ := json.Marshal(m2)
				tx := *base
				tx.Data = bz
				add("OLVM", fmt.Sprintf("json:%s=#%d", f, vi), "field", encodeSigned(&tx))
			}
		}
		for pi, p := range []string{`{}`, `null`, `[]`, ``, `"x"`, `7`} {
			tx := *base
			tx.Data = []byte(p)
			add("OLVM", fmt.Sprintf("payload#%d", pi), "payload", encodeSigned(&tx))
		}
	}
	for i, sg := range [][]byte{nil, {}, make([]byte, 64), make([]byte, 65), make([]byte, 66), []byte(strings.Repeat("\xff", 65))} {
		tx := *base
		tx.Signatures = []action.Signature{{Signer: base.Signatures[0].Signer, Signed: sg}}
		add("OLVM", fmt.Sprintf("signature#%d", i), "envelope", encodeSigned(&tx))
	}
	{
		tx := *base
		tx.Signatures = nil
		add("OLVM", "signatures=none", "envelope", encodeSigned(&tx))
	}
}
