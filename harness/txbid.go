package main

// Builders for the six transaction kinds of the "bid" external app
// (/repo/external_apps/bid/bid_action).  Signers as in each message's Signers():
//
//	BID_CREATE          0x901  Bidder            (new conversation, or — with bidConvId — a further offer)
//	BID_CONTER_OFFER    0x902  AssetOwner
//	BID_CANCEL          0x903  Bidder
//	BID_BIDDER_DECISION 0x904  Bidder
//	BID_EXPIRE          0x905  ValidatorAddress  (any account: the handler checks neither that the signer
//	                                              is a validator nor that the deadline has passed)
//	BID_OWNER_DECISION  0x906  Owner
//
// A conversation's id is sha256(owner.String() + assetName + bidder.String() + decimal(height)) in hex,
// where height is the height of the block whose DeliverTx creates it (bid_data.NewBidConv).

import (
	"github.com/Oneledger/protocol/action"
	"github.com/Oneledger/protocol/data/keys"
	bidact "github.com/Oneledger/protocol/external_apps/bid/bid_action"
	biddata "github.com/Oneledger/protocol/external_apps/bid/bid_data"
)

const (
	bidAccept  = int(biddata.AcceptBid)
	bidReject  = int(biddata.RejectBid)
	bidOns     = int(biddata.BidAssetOns)
	bidExample = int(biddata.BidAssetExample)
)

// bidFar: a deadline (unix seconds) far after every block time the harness produces
const bidFar int64 = 1600000000 + 15*1000000

// bidBlockTime: the time of the block at height h on a harness chain (Replica.blockTime)
func bidBlockTime(h int64) int64 { return 1600000000 + 15*h }

// bidConvID: the id the conversation gets when its BID_CREATE is delivered at the given height
func bidConvID(owner keys.Address, asset string, bidder keys.Address, height int64) string {
	return string(biddata.NewBidConv(owner, asset, biddata.BidAssetOns, bidder, 0, height).BidConvId)
}

// txBidCreate: a new conversation of bidder about asset (of assetType) owned by owner, with a first offer
func txBidCreate(bidder Key, owner keys.Address, asset string, assetType int, a action.Amount, deadline int64, memo string) []byte {
	return mkTx(bidact.BID_CREATE, bidact.CreateBid{AssetOwner: owner, AssetName: asset, AssetType: biddata.BidAssetType(assetType), Bidder: bidder.Addr,
		Amount: a, Deadline: deadline}, GAS, memo, bidder)
}

// txBidOffer: a further offer of the bidder in an existing conversation (answers a counter offer)
func txBidOffer(bidder Key, conv string, a action.Amount, memo string) []byte {
	return mkTx(bidact.BID_CREATE, bidact.CreateBid{BidConvId: biddata.BidConvId(conv), Bidder: bidder.Addr, Amount: a}, GAS, memo, bidder)
}

func txBidCounter(owner Key, conv string, a action.Amount, memo string) []byte {
	return mkTx(bidact.BID_CONTER_OFFER, bidact.CounterOffer{BidConvId: biddata.BidConvId(conv), AssetOwner: owner.Addr, Amount: a}, GAS, memo, owner)
}

func txBidCancel(bidder Key, conv string, memo string) []byte {
	return mkTx(bidact.BID_CANCEL, bidact.CancelBid{BidConvId: biddata.BidConvId(conv), Bidder: bidder.Addr}, GAS, memo, bidder)
}

func txBidBidderDecision(bidder Key, conv string, decision int, memo string) []byte {
	return mkTx(bidact.BID_BIDDER_DECISION, bidact.BidderDecision{BidConvId: biddata.BidConvId(conv), Bidder: bidder.Addr, Decision: biddata.BidDecision(decision)}, GAS, memo, bidder)
}

func txBidOwnerDecision(owner Key, conv string, decision int, memo string) []byte {
	return mkTx(bidact.BID_OWNER_DECISION, bidact.OwnerDecision{BidConvId: biddata.BidConvId(conv), Owner: owner.Addr, Decision: biddata.BidDecision(decision)}, GAS, memo, owner)
}

// txBidExpire: the public form of the internal expire transaction; signer is whoever is named as "validator"
func txBidExpire(signer Key, conv string, memo string) []byte {
	return mkTx(bidact.BID_EXPIRE, bidact.ExpireBid{BidConvId: biddata.BidConvId(conv), ValidatorAddress: signer.Addr}, GAS, memo, signer)
}
