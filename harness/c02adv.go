package main

// C02 / C03 adversarial stream: a prepared chain state (proposals, domains, delegations, stake in
// every stage) and, for every value-moving transaction kind, the amount series
// {-2^64, -1, 0, 1, base-1, base, base+1, 2^63-1, 2^63, 2^64, 10^40} (base = the amount the source
// record of that kind holds at that moment) in the currencies {OLT, ETH, unregistered, ""}, plus
// confused-deputy variants: every address field of the payload replaced by somebody else's address,
// signed by the rightful signers and by the attacker.

import (
	"bytes"
	"fmt"
	"strings"
	"math/big"
	"math/rand"

	"github.com/Oneledger/protocol/action"
	"github.com/Oneledger/protocol/data/governance"
	"github.com/Oneledger/protocol/data/keys"
	"github.com/Oneledger/protocol/serialize"
)

func serializeNetwork() serialize.Serializer { return serialize.GetSerializer(serialize.NETWORK) }

type c02AdvKind struct {
	Name    string
	Signers []Key
	Unit    *big.Int                                   // base units per transaction unit (10^18 for the staking kinds)
	Base    func(v *c02View) *big.Int                  // what the source record holds now, in base units
	Build   func(a action.Amount, memo string) []byte // a correctly signed transaction carrying amount a
}

func c02Led(v *c02View, owner keys.Address, bucket int, cur string) *big.Int {
	s := new(big.Int)
	for k, a := range v.Led {
		if k.Owner == owner.String() && k.Bucket == bucket && k.Cur == cur {
			s.Add(s, a)
		}
	}
	return s
}

func c02Adversarial(name string, rnd *rand.Rand, variant int, hist map[string]int) (*c02Case, map[string]int) {
	world := [3]int{3, 6, 2}
	r := c02NewRunner(name, world, nil)
	w := r.w
	GAS = 1000000
	u0, u1, u2, u3, u4 := w.Users[0], w.Users[1], w.Users[2], w.Users[3], w.Users[4]
	attacker := w.Users[5]
	v0, v1 := w.Vals[0], w.Vals[1]
	e0 := w.Extra[0]
	self := ValSpec{Val: w.Extra[1].Stake, Stake: w.Extra[1].Stake} // a node staking from its own funded node key: both required signers are ONE key
	blk := func(descr string, txs ...[]byte) {
		d := make([]string, len(txs))
		for i := range d {
			d[i] = descr
		}
		r.block(&BlockIn{Txs: txs, Absent: map[int]bool{}}, d)
	}
	m := r.memo
	// mempool policy of the stream: consecutive blocks cycle through deliver-only / CheckTx right before the block / CheckTx, then an
	// unrelated block, then the delivery - so every forged transaction is seen by CheckTx first in two of three cases
	advN := 0
	advBlock := func(txs [][]byte, descr []string) {
		advN++
		switch advN % 3 {
		case 0:
			r.block(&BlockIn{Txs: txs, Absent: map[int]bool{}}, descr)
		case 1:
			r.blockPre(&BlockIn{Txs: txs, Absent: map[int]bool{}}, descr, txs)
		default:
			r.blockPre(&BlockIn{Txs: [][]byte{txSend(u0, u1.Addr, oltAmt("1000"), m())}, Absent: map[int]bool{}}, []string{"unrelated block between CheckTx and delivery"}, txs)
			r.block(&BlockIn{Txs: txs, Absent: map[int]bool{}}, descr)
		}
	}
	// ---- set-up: the same situations as harness/txlab.go ----
	blk("")
	blk("")
	blk("setup", txPropCreate(u0, "adv_fund", governance.ProposalTypeGeneral, oltAmt("1000000000"), 400, 0, m()),
		txPropCreate(u1, "adv_vote", governance.ProposalTypeGeneral, oltAmt("1000000000"), 400, 0, m()),
		txDomainCreate(u0, "adv.ol", oltAmt("1002000000000000000000"), m()),
		txDomainCreate(u1, "sale.ol", oltAmt("1002000000000000000000"), m()),
		txPropCreate(u0, "adv_wd", governance.ProposalTypeGeneral, oltAmt("1000000000"), 6, 0, m()),
		txDelegate(u1, oltAmt("250000000000000000000"), m()),
		txDelegate(u2, oltAmt("70000000000000000000"), m()),
		txStake(e0, oltAmt("500000"), m()), txStake(self, oltAmt("600000"), m()))
	blk("setup", txPropFund(u2, "adv_fund", oltAmt("5000"), m()),
		txPropFund(u2, "adv_wd", oltAmt("9000"), m()), txPropFund(u4, "adv_wd", oltAmt("400"), m()),
		txPropFund(u3, "adv_fund", oltAmt("700"), m()),
		txDomainSell(u1, "sale.ol", oltAmt("5000000000000000000"), false, m()),
		txUnstake(v1, oltAmt("1000"), m()),
		txUnstake(e0, oltAmt("300"), m()),
		txUnstake(e0, oltAmt("200"), m()), // a second unstake of the same delegator maturing at the same height
		txUnstake(self, oltAmt("700"), m()),
		txUndelegate(u1, oltAmt("1000000000000000000"), m()))
	blk("")
	blk("")
	blk("")
	blk("") // the unstaked amounts are withdrawable, the undelegated amount is back, rewards have accrued

	// ---- a SECP256K1-keyed funded account (its address is hash160 of the compressed key) that has made a transaction: its public key is public ----
	sv := seedKeyAlg(77, keys.SECP256K1)
	blk("setup", txSend(u0, sv.Addr, oltAmt("5000000000000000000000"), m()))
	blk("setup", txSend(sv, u1.Addr, oltAmt("1000000000000000000"), m()))
	// ---- bid conversations: convX gets an active COUNTER offer (further offers of the bidder answer it), convY keeps an active bid ----
	convX := bidConvID(u0.Addr, "advx", u3.Addr, r.rep.H+1)
	convY := bidConvID(u0.Addr, "advy", u2.Addr, r.rep.H+1)
	blk("setup", txBidCreate(u3, u0.Addr, "advx", bidExample, oltAmt("5000000000000000000"), bidFar, m()),
		txBidCreate(u2, u0.Addr, "advy", bidExample, oltAmt("5000000000000000000"), bidFar, m()))
	blk("setup", txBidCounter(u0, convX, oltAmt("900000000000000000000"), m()))
	// ---- a reward withdrawal that matures while the delegation pool is empty (before anybody donates to the pool) ----
	r.exodus(variant%2 == 0)
	blk("setup", txDelegate(u1, oltAmt("250000000000000000000"), m()), txDelegate(u2, oltAmt("70000000000000000000"), m()))
	blk("")
	blk("")

	unitOne := big.NewInt(1)
	delegPool := keys.Address("00000000000000000001")
	_ = delegPool
	kinds := []c02AdvKind{
		{"SEND", []Key{u0}, unitOne, func(v *c02View) *big.Int { return c02Led(v, u0.Addr, c02BBal, "OLT") },
			func(a action.Amount, mm string) []byte { return txSend(u0, u4.Addr, a, mm) }},
		{"SENDPOOL", []Key{u0}, unitOne, func(v *c02View) *big.Int { return c02Led(v, u0.Addr, c02BBal, "OLT") },
			func(a action.Amount, mm string) []byte { return txSendPool(u0, "BountyPool", a, mm) }},
		{"SENDPOOL_DELEGATION", []Key{u0}, unitOne, func(v *c02View) *big.Int { return c02Led(v, u0.Addr, c02BBal, "OLT") },
			func(a action.Amount, mm string) []byte { return txSendPool(u0, "DelegationPool", a, mm) }},
		{"STAKE", []Key{v0.Stake, v0.Val}, c02E18, func(v *c02View) *big.Int { return c02Led(v, v0.Stake.Addr, c02BBal, "OLT") },
			func(a action.Amount, mm string) []byte { return txStake(v0, a, mm) }},
		{"STAKE_SELF", []Key{self.Stake, self.Val}, c02E18, func(v *c02View) *big.Int { return c02Led(v, self.Stake.Addr, c02BBal, "OLT") },
			func(a action.Amount, mm string) []byte { return txStake(self, a, mm) }},
		{"UNSTAKE_SELF", []Key{self.Stake, self.Val}, c02E18, func(v *c02View) *big.Int { return c02Led(v, self.Stake.Addr, c02BStake, "OLT") },
			func(a action.Amount, mm string) []byte { return txUnstake(self, a, mm) }},
		{"WITHDRAW_SELF", []Key{self.Stake, self.Val}, c02E18, func(v *c02View) *big.Int { return c02Led(v, self.Stake.Addr, c02BWithdraw, "OLT") },
			func(a action.Amount, mm string) []byte { return txWithdraw(self, a, mm) }},
		{"UNSTAKE", []Key{v0.Stake, v0.Val}, c02E18, func(v *c02View) *big.Int { return c02Led(v, v0.Stake.Addr, c02BStake, "OLT") },
			func(a action.Amount, mm string) []byte { return txUnstake(v0, a, mm) }},
		{"WITHDRAW", []Key{v1.Stake, v1.Val}, c02E18, func(v *c02View) *big.Int { return c02Led(v, v1.Stake.Addr, c02BWithdraw, "OLT") },
			func(a action.Amount, mm string) []byte { return txWithdraw(v1, a, mm) }},
		{"ADD_NETWORK_DELEGATE", []Key{u3}, unitOne, func(v *c02View) *big.Int { return c02Led(v, u3.Addr, c02BBal, "OLT") },
			func(a action.Amount, mm string) []byte { return txDelegate(u3, a, mm) }},
		{"NETWORK_UNDELEGATE", []Key{u1}, unitOne, func(v *c02View) *big.Int { return c02Led(v, u1.Addr, c02BDelegAct, "OLT") },
			func(a action.Amount, mm string) []byte { return txUndelegate(u1, a, mm) }},
		{"REWARDS_WITHDRAW_NETWORK_DELEGATE", []Key{u1}, unitOne, func(v *c02View) *big.Int { return c02Led(v, u1.Addr, c02BRewBal, "OLT") },
			func(a action.Amount, mm string) []byte { return txDelegWithdrawRewards(u1, a, mm) }},
		{"REWARDS_REINVEST_NETWORK_DELEGATE", []Key{u2}, unitOne, func(v *c02View) *big.Int { return c02Led(v, u2.Addr, c02BRewBal, "OLT") },
			func(a action.Amount, mm string) []byte { return txDelegReinvest(u2, a, mm) }},
		// base = the validator's matured reward claim (rwcum_balance_): a real validator with matured rewards
		{"WITHDRAW_REWARD", []Key{v0.Stake}, c02E18, func(v *c02View) *big.Int {
			if a := v.Side[c02Key{v0.Val.Addr.String(), c02BVRewBal, "OLT", ""}]; a != nil {
				return a
			}
			return new(big.Int)
		},
			func(a action.Amount, mm string) []byte { return txWithdrawReward(v0, a, mm) }},
		{"PROPOSAL_CREATE", []Key{u3}, unitOne, func(v *c02View) *big.Int { return c02Led(v, u3.Addr, c02BBal, "OLT") },
			func(a action.Amount, mm string) []byte {
				return txPropCreate(u3, "adv_new_"+mm, governance.ProposalTypeGeneral, a, 400, 0, mm)
			}},
		{"PROPOSAL_FUND", []Key{u3}, unitOne, func(v *c02View) *big.Int { return c02Led(v, u3.Addr, c02BBal, "OLT") },
			func(a action.Amount, mm string) []byte { return txPropFund(u3, "adv_fund", a, mm) }},
		{"PROPOSAL_WITHDRAW_FUNDS", []Key{u2}, unitOne, func(v *c02View) *big.Int { return c02Led(v, u2.Addr, c02BPropFund, "OLT") },
			func(a action.Amount, mm string) []byte { return txPropWithdraw(u2, "adv_fund", a, u2.Addr, mm) }},
		// a proposal whose funding deadline passed below the goal: withdrawal is eligible; the beneficiary is somebody else
		{"PROPOSAL_WITHDRAW_FUNDS_ELIGIBLE", []Key{u2}, unitOne, func(v *c02View) *big.Int {
			s := new(big.Int)
			for k, a := range v.Led {
				if k.Owner == u2.Addr.String() && k.Bucket == c02BPropFund && k.Sub == string(propID("adv_wd")) {
					s.Add(s, a)
				}
			}
			return s
		},
			func(a action.Amount, mm string) []byte { return txPropWithdraw(u2, "adv_wd", a, u4.Addr, mm) }},
		{"DOMAIN_CREATE", []Key{u3}, unitOne, func(v *c02View) *big.Int { return c02Led(v, u3.Addr, c02BBal, "OLT") },
			func(a action.Amount, mm string) []byte { return txDomainCreate(u3, "n"+mm+".ol", a, mm) }},
		{"DOMAIN_RENEW", []Key{u0}, unitOne, func(v *c02View) *big.Int { return c02Led(v, u0.Addr, c02BBal, "OLT") },
			func(a action.Amount, mm string) []byte { return txDomainRenew(u0, "adv.ol", a, mm) }},
		{"DOMAIN_PURCHASE", []Key{u3}, unitOne, func(v *c02View) *big.Int { return c02Led(v, u3.Addr, c02BBal, "OLT") },
			func(a action.Amount, mm string) []byte { return txDomainPurchase(u3, "sale.ol", a, mm) }},
		{"DOMAIN_SEND", []Key{u3}, unitOne, func(v *c02View) *big.Int { return c02Led(v, u3.Addr, c02BBal, "OLT") },
			func(a action.Amount, mm string) []byte { return txDomainSend(u3, "adv.ol", a, mm) }},
		{"BID_CREATE", []Key{u3}, unitOne, func(v *c02View) *big.Int { return c02Led(v, u3.Addr, c02BBal, "OLT") },
			func(a action.Amount, mm string) []byte { return txBidCreate(u3, u0.Addr, "adv"+mm, bidExample, a, bidFar, mm) }},
		{"BID_CREATE_OFFER", []Key{u3}, unitOne, func(v *c02View) *big.Int {
			if c := v.BidCounter[convX]; c != nil {
				return c
			}
			return big.NewInt(7)
		}, func(a action.Amount, mm string) []byte { return txBidOffer(u3, convX, a, mm) }},
		{"BID_CONTER_OFFER", []Key{u0}, unitOne, func(v *c02View) *big.Int { return c02Led(v, u2.Addr, c02BBidEscrow, "OLT") },
			func(a action.Amount, mm string) []byte { return txBidCounter(u0, convY, a, mm) }},
		{"DOMAIN_SELL", []Key{u0}, unitOne, func(v *c02View) *big.Int { return big.NewInt(5) },
			func(a action.Amount, mm string) []byte { return txDomainSell(u0, "adv.ol", a, false, mm) }},
	}
	two63 := new(big.Int).Lsh(big.NewInt(1), 63)
	two64 := new(big.Int).Lsh(big.NewInt(1), 64)
	ten40 := new(big.Int).Exp(big.NewInt(10), big.NewInt(40), nil)
	curs := []string{"OLT", "ETH", "XYZ", ""}
	last := map[string]*Key{"SEND": &u4, "DOMAIN_SEND": &u0, "PROPOSAL_WITHDRAW_FUNDS_ELIGIBLE": &u4, "WITHDRAW": &v1.Stake, "WITHDRAW_SELF": &self.Stake,
		"WITHDRAW_REWARD": &v0.Stake, "PROPOSAL_CREATE": &u3, "PROPOSAL_FUND": &u3, "DOMAIN_CREATE": &u3, "DOMAIN_RENEW": &u0, "DOMAIN_PURCHASE": &u3,
		"STAKE": &v0.Stake, "STAKE_SELF": &self.Stake}
	for ki, k := range kinds {
		// ---- refused in the FEE step after a successful handler (gas limit 1), immediately followed by a transaction that spends
		// from the account the refused handler touched last: more than it owns (must be refused: the refused credit left no
		// trace) and, in a second pair, nearly all it owns (must be accepted: the refused debit left no trace) ----
		if lk := last[k.Name]; lk != nil {
			for pi, over := range []bool{true, false} {
				amt := big.NewInt(3)
				if k.Unit.Cmp(unitOne) == 0 {
					amt = new(big.Int).Set(c02E18) // 1 OLT
				}
				if k.Name == "DOMAIN_CREATE" || k.Name == "DOMAIN_PURCHASE" {
					amt, _ = new(big.Int).SetString("1002000000000000000000", 10)
				}
				if k.Name == "PROPOSAL_CREATE" {
					amt = big.NewInt(1000000000)
				}
				if k.Name == "PROPOSAL_FUND" || k.Name == "PROPOSAL_WITHDRAW_FUNDS_ELIGIBLE" {
					amt = big.NewInt(50)
				}
				GAS = 1
				t1 := k.Build(action.Amount{Currency: "OLT", Value: bigAmt(amt.String())}, m())
				GAS = 1000000
				own := c02Led(r.cur, lk.Addr, c02BBal, "OLT")
				spend := new(big.Int).Add(own, new(big.Int).Div(new(big.Int).Mul(amt, k.Unit), big.NewInt(2))) // more than it owns, less than own + refused credit
				if !over {
					spend = new(big.Int).Sub(own, c02E18) // nearly everything it really owns
				}
				if spend.Sign() <= 0 {
					continue
				}
				to := attacker.Addr
				if !over {
					to = lk.Addr // to itself: the debit of nearly everything must succeed, and the account stays funded for what follows
				}
				t2 := txSend(*lk, to, action.Amount{Currency: "OLT", Value: bigAmt(spend.String())}, m())
				r.block(&BlockIn{Txs: [][]byte{t1, t2}, Absent: map[int]bool{}}, []string{
					fmt.Sprintf("feefail %s gas limit 1 (refused in the fee step after the handler ran)", k.Name),
					fmt.Sprintf("feefail-next SEND by the account %s touched last: %s", k.Name, []string{"more than it owns", "nearly all it owns"}[pi])})
				hist["feefail:"+k.Name]++
			}
		}
		// ---- amount series ----
		for ci, cur := range curs {
			base := new(big.Int).Div(k.Base(r.cur), k.Unit)
			series := []struct {
				n string
				v *big.Int
			}{
				{"-2^64", new(big.Int).Neg(two64)}, {"-1", big.NewInt(-1)}, {"0", big.NewInt(0)}, {"1", big.NewInt(1)},
				{"base-1", new(big.Int).Sub(base, big.NewInt(1))}, {"base+1", new(big.Int).Add(base, big.NewInt(1))},
				{"2^63-1", new(big.Int).Sub(two63, big.NewInt(1))}, {"2^63", two63}, {"2^64-2", new(big.Int).Sub(two64, big.NewInt(2))}, {"2^64", two64}, {"2^64+1", new(big.Int).Add(two64, big.NewInt(1))}, {"10^40", ten40},
				{"base", base},
			}
			if ci > 0 && variant%2 == 0 {
				// foreign currencies: a thinner series (the currency check comes first in every handler)
				series = series[1:6]
			}
			txs, descr := [][]byte{}, []string{}
			flush := func() {
				if len(txs) > 0 {
					advBlock(txs, descr)
					txs, descr = nil, nil
				}
			}
			for _, s := range series {
				if s.n == "base" {
					// the record may have changed within the block: recompute from the current view
					flush()
					s.v = new(big.Int).Div(k.Base(r.cur), k.Unit)
				}
				a := action.Amount{Currency: cur, Value: bigAmt(s.v.String())}
				txs = append(txs, k.Build(a, m()))
				descr = append(descr, fmt.Sprintf("adv %s amount %s currency %q", k.Name, s.n, cur))
				hist[k.Name+"/amount:"+s.n]++
				hist["currency:"+fmt.Sprintf("%q", cur)]++
				if len(txs) >= 4 {
					flush()
				}
			}
			flush()
		}
		// ---- confused deputy: every address field replaced ----
		if k.Name == "SENDPOOL_DELEGATION" {
			continue
		}
		one := action.Amount{Currency: "OLT", Value: bigAmt("3")}
		basetx := decodeSigned(k.Build(one, m()))
		txs, descr := [][]byte{}, []string{}
		victim := w.Users[(ki+1)%5]
		for _, other := range []Key{attacker, victim, w.Vals[2].Stake, w.Vals[2].Val} {
			fields := mutatePayload(basetx.Data, other.Addr)
			for _, f := range sortedMapKeys(fields) {
				raw := basetx.RawTx
				raw.Data = fields[f]
				raw.Memo = m()
				txs = append(txs, signRaw(raw, k.Signers...))
				descr = append(descr, fmt.Sprintf("deputy %s field %s := other, signed by the rightful signers", k.Name, f))
				hist["deputy:rightful-signer"]++
				att := make([]Key, len(k.Signers))
				for i := range att {
					att[i] = attacker
				}
				raw.Memo = m()
				txs = append(txs, signRaw(raw, att...))
				descr = append(descr, fmt.Sprintf("deputy %s field %s := other, signed by the attacker", k.Name, f))
				hist["deputy:attacker-signs"]++
				oth := make([]Key, len(k.Signers))
				for i := range oth {
					oth[i] = other
				}
				raw.Memo = m()
				txs = append(txs, signRaw(raw, oth...))
				descr = append(descr, fmt.Sprintf("deputy %s field %s := other, signed by that other account", k.Name, f))
				hist["deputy:named-account-signs"]++
			}
		}
		// a FOREIGN public key with junk signature bytes in slot 0 and the genuine signature(s) behind it (the count stays the
		// number of required signers), with a chosen high fee price: whoever is charged the fee must have signed
		for _, vic := range []Key{victim, w.Users[(ki+2)%5]} {
			raw := basetx.RawTx
			raw.Memo = m()
			raw.Fee.Price = action.Amount{Currency: "OLT", Value: bigAmt("1000000000000000")}
			good := decodeSigned(signRaw(raw, k.Signers...)).Signatures
			junk := action.Signature{Signer: vic.Pub, Signed: []byte("junkjunkjunkjunkjunkjunkjunkjunkjunkjunkjunkjunkjunkjunkjunkjunk")}
			stx := action.SignedTx{RawTx: raw, Signatures: append([]action.Signature{junk}, good[:len(good)-1]...)}
			if len(good) == 1 {
				stx.Signatures = []action.Signature{junk}
			}
			txs = append(txs, encodeSigned(&stx))
			descr = append(descr, fmt.Sprintf("sigslot %s foreign public key + junk in slot 0, genuine signatures behind it, fee price 10^15", k.Name))
			hist["sigslot:foreign-key-junk-slot0"]++
			// and the genuine signatures in front, the junk one last
			raw.Memo = m()
			good = decodeSigned(signRaw(raw, k.Signers...)).Signatures
			stx2 := action.SignedTx{RawTx: raw, Signatures: append(append([]action.Signature{}, good[:len(good)-1]...), junk)}
			txs = append(txs, encodeSigned(&stx2))
			descr = append(descr, fmt.Sprintf("sigslot %s genuine signatures first, foreign public key + junk in the last slot", k.Name))
			hist["sigslot:foreign-key-junk-last"]++
		}
		// FORGED ENVELOPES carrying a VICTIM's PUBLIC key: the payload names the victim wherever it named the first signer; slot 0 holds
		// the victim's public key - unchanged or RELABELLED under every other key algorithm - with junk / empty / the genuine
		// signature bytes of ANOTHER transaction of the victim; further slots are signed genuinely by the remaining signers.
		// Victims: an ed25519 account and the secp256k1 account.  Nobody's money may move: the victim signed nothing.
		if c02SpendingKind[k.Name] {
			for _, vic := range []Key{w.Users[(ki+3)%5], sv} {
				raw := basetx.RawTx
				raw.Data = []byte(strings.ReplaceAll(string(raw.Data), `"`+k.Signers[0].Addr.String()+`"`, `"`+vic.Addr.String()+`"`))
				other := decodeSigned(signRaw(action.RawTx{Type: action.SEND, Data: []byte("{}"), Fee: raw.Fee, Memo: "another transaction"}, vic)).Signatures[0].Signed
				cur := vic.Pub.KeyType.String()
				seenAlg := map[string]bool{}
				for _, alg := range []string{cur, "ed25519", "secp256k1", "btcecsecp", "ethsecp"} {
					if seenAlg[alg] {
						continue
					}
					seenAlg[alg] = true
					for _, sigv := range []string{"junk", "empty", "other-tx"} {
						{
							raw.Memo = m()
							stx := action.SignedTx{RawTx: raw}
							sg := action.Signature{Signer: vic.Pub}
							switch sigv {
							case "junk":
								sg.Signed = bytes.Repeat([]byte{0x5a}, 64)
							case "empty":
								sg.Signed = []byte{}
							default:
								sg.Signed = other
							}
							stx.Signatures = []action.Signature{sg}
							if len(k.Signers) > 1 {
								stx.Signatures = append(stx.Signatures, decodeSigned(signRaw(raw, k.Signers[1:]...)).Signatures...)
							}
							bz := encodeSigned(&stx)
							label := "unchanged"
							if alg != cur {
								bz = []byte(strings.Replace(string(bz), `"keyType":"`+cur+`"`, `"keyType":"`+alg+`"`, 1))
								label = "relabelled " + alg
							}
							txs = append(txs, bz)
							descr = append(descr, fmt.Sprintf("forged %s names the %s victim, slot 0 = the victim's public key (%s), signature %s", k.Name, cur, label, sigv))
							hist["forged-victim-key:"+cur+"/"+label+"/"+sigv]++
						}
					}
				}
			}
		}
		// the unchanged payload signed by the attacker alone
		raw := basetx.RawTx
		raw.Memo = m()
		att := make([]Key, len(k.Signers))
		for i := range att {
			att[i] = attacker
		}
		txs = append(txs, signRaw(raw, att...))
		descr = append(descr, fmt.Sprintf("deputy %s unchanged payload signed by the attacker", k.Name))
		for len(txs) > 0 {
			n := 6
			if n > len(txs) {
				n = len(txs)
			}
			advBlock(txs[:n], descr[:n])
			txs, descr = txs[n:], descr[n:]
		}
	}
	// let everything mature
	for i := 0; i < 6; i++ {
		blk("")
	}
	return r.finish(), r.prefix
}

// kinds that spend from their first signer
var c02SpendingKind = map[string]bool{"SEND": true, "SENDPOOL": true, "STAKE": true, "ADD_NETWORK_DELEGATE": true, "DOMAIN_CREATE": true, "DOMAIN_PURCHASE": true,
	"DOMAIN_SEND": true, "DOMAIN_RENEW": true, "PROPOSAL_CREATE": true, "PROPOSAL_FUND": true, "BID_CREATE": true, "NETWORK_UNDELEGATE": true, "WITHDRAW_REWARD": true}

func sortedMapKeys(m map[string][]byte) []string {
	ks := make([]string, 0, len(m))
	for k := range m {
		ks = append(ks, k)
	}
	for i := 1; i < len(ks); i++ {
		for j := i; j > 0 && ks[j-1] > ks[j]; j-- {
			ks[j-1], ks[j] = ks[j], ks[j-1]
		}
	}
	return ks
}
