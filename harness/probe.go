package main

import (
	"flag"
	"math/rand"
	"os"
)

func init() { subcmds["probe"] = probeMain }

func probeMain(args []string) int {
	fs := flag.NewFlagSet("probe", flag.ExitOnError)
	seed := fs.Int64("seed", 1, "seed")
	nb := fs.Int("blocks", 30, "blocks")
	fs.Parse(args)
	r := rand.New(rand.NewSource(*seed))
	w := NewWorld(3, 5, 2)
	h := genHistory(r, w, *nb, 6)
	rep := NewReplica(w.Genesis(), ReplicaOpts{NodeVal: w.Vals[0].Val})
	defer rep.Close()
	rep.InitChain()
	okc, failc := map[string]int{}, map[string]int{}
	for i := range h.Blocks {
		res := rep.RunBlock(&h.Blocks[i])
		for j, t := range res.Txs {
			kind := h.Descr[i][j]
			if len(kind) > 12 {
				kind = kind[:12]
			}
			if t.Code == 0 {
				okc[kind]++
			} else {
				failc[kind]++
				if failc[kind] <= 1 || os.Getenv("VH_PROBE_ALL") != "" {
					say("h%d FAIL %s: %.160s\n", res.Height, h.Descr[i][j], t.Log)
				}
			}
		}
		if len(res.Updates) > 0 {
			say("h%d updates %v\n", res.Height, res.Updates)
		}
	}
	say("ok: %v\n", okc)
	say("fail: %v\n", failc)
	say("tmerror: %s keys: %d\n", rep.TMError, len(rep.Dump()))
	return 0
}
