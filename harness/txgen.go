package main

// Transaction builders and the seeded history generator.

import (
	"crypto/sha256"
	"encoding/hex"
	"encoding/json"
	"fmt"
	"math/big"
	"math/rand"

	"github.com/Oneledger/protocol/action"
	evact "github.com/Oneledger/protocol/action/evidence"
	govact "github.com/Oneledger/protocol/action/governance"
	netdel "github.com/Oneledger/protocol/action/network_delegation"
	onsact "github.com/Oneledger/protocol/action/ons"
	rewact "github.com/Oneledger/protocol/action/rewards"
	"github.com/Oneledger/protocol/action/staking"
	"github.com/Oneledger/protocol/action/transfer"
	"github.com/Oneledger/protocol/data/balance"
	"github.com/Oneledger/protocol/data/governance"
	"github.com/Oneledger/protocol/data/keys"
	"github.com/Oneledger/protocol/data/ons"
	"github.com/Oneledger/protocol/utils"
)

func bigAmt(s string) balance.Amount {
	b, ok := new(big.Int).SetString(s, 10)
	if !ok {
		panic("bad amount " + s)
	}
	return *balance.NewAmountFromBigInt(b)
}

func oltAmt(s string) action.Amount { return action.Amount{Currency: "OLT", Value: bigAmt(s)} }
func curAmt(cur, s string) action.Amount {
	return action.Amount{Currency: cur, Value: bigAmt(s)}
}

type marshaler interface{ Marshal() ([]byte, error) }

func mkTx(typ action.Type, m marshaler, gas int64, memo string, signers ...Key) []byte {
	data, err := m.Marshal()
	must(err)
	return signTx(typ, data, gas, memo, signers...)
}

// World: the cast of a generated history
type World struct {
	Vals  []ValSpec // genesis validators (consensus key + stake key)
	Users []Key     // funded accounts
	Extra []ValSpec // candidate validators not in genesis (funded stake accounts)
	Poor  []Key     // accounts holding 0.002 OLT: enough for a fee or two, not for what they try
	Eth   []c17EthKey // funded eth-secp accounts (OLVM senders)
}

func NewWorld(nvals, nusers, nextra int) *World {
	w := &World{}
	for i := 0; i < nvals; i++ {
		w.Vals = append(w.Vals, ValSpec{Val: seedKey(byte(10 + i)), Stake: seedKey(byte(30 + i)), Power: int64(3000000 - 1000*i)})
	}
	for i := 0; i < nusers; i++ {
		w.Users = append(w.Users, seedKey(byte(60+i)))
	}
	for i := 0; i < nextra; i++ {
		w.Extra = append(w.Extra, ValSpec{Val: seedKey(byte(90 + i)), Stake: seedKey(byte(110 + i)), Power: 0})
	}
	for i := 0; i < 2; i++ {
		w.Poor = append(w.Poor, seedKey(byte(130+i)))
	}
	for i := 0; i < 3; i++ {
		w.Eth = append(w.Eth, c17Key(byte(40+i)))
	}
	return w
}

func (w *World) Genesis() *GenesisSpec {
	g := &GenesisSpec{Vals: w.Vals, Fork: 1}
	g.Poor = w.Poor
	for _, u := range w.Users {
		g.Funded = append(g.Funded, u.Addr)
	}
	for _, v := range w.Vals {
		g.Funded = append(g.Funded, v.Stake.Addr)
	}
	for _, v := range w.Extra {
		g.Funded = append(g.Funded, v.Stake.Addr)
	}
	for _, k := range w.Eth {
		g.Funded = append(g.Funded, k.Addr)
	}
	return g
}

// OLVM transaction of an eth-secp account on the harness chain ("verif-chain")
func txOLVM(k c17EthKey, to *keys.Address, nonce uint64, value string, gas int64, data []byte) []byte {
	chain := utils.HashToBigInt("verif-chain")
	v, _ := new(big.Int).SetString(value, 10)
	return c17TxOLVM(k, to, nonce, v, big.NewInt(1000000000), gas, data, chain, chain, fmt.Sprint(nonce), 0)
}

// gas limit put into generated transactions (the generator lowers it now and then so that the
// fee step fails with a gas overflow after the handler has succeeded)
var GAS int64 = 1000000

func txSend(from Key, to keys.Address, a action.Amount, memo string) []byte {
	return mkTx(action.SEND, transfer.Send{From: from.Addr, To: to, Amount: a}, GAS, memo, from)
}
func txSendPool(from Key, pool string, a action.Amount, memo string) []byte {
	return mkTx(action.SENDPOOL, transfer.SendPool{From: from.Addr, PoolName: pool, Amount: a}, GAS, memo, from)
}
func txStake(v ValSpec, a action.Amount, memo string) []byte {
	return mkTx(action.STAKE, staking.Stake{ValidatorAddress: v.Val.Addr, StakeAddress: v.Stake.Addr, ValidatorPubKey: v.Val.Pub, ValidatorECDSAPubKey: v.Val.Pub, NodeName: "n", Stake: a}, GAS, memo, v.Stake, v.Val)
}
func txUnstake(v ValSpec, a action.Amount, memo string) []byte {
	return mkTx(action.UNSTAKE, staking.Unstake{ValidatorAddress: v.Val.Addr, StakeAddress: v.Stake.Addr, Stake: a}, GAS, memo, v.Stake, v.Val)
}
func txWithdraw(v ValSpec, a action.Amount, memo string) []byte {
	return mkTx(action.WITHDRAW, staking.Withdraw{ValidatorAddress: v.Val.Addr, StakeAddress: v.Stake.Addr, Stake: a}, GAS, memo, v.Stake, v.Val)
}
func txDelegate(u Key, a action.Amount, memo string) []byte {
	return mkTx(action.ADD_NETWORK_DELEGATE, netdel.AddNetworkDelegation{DelegationAddress: u.Addr, Amount: a}, GAS, memo, u)
}
func txUndelegate(u Key, a action.Amount, memo string) []byte {
	return mkTx(action.NETWORK_UNDELEGATE, &netdel.Undelegate{Delegator: u.Addr, Amount: a}, GAS, memo, u)
}
func txDelegWithdrawRewards(u Key, a action.Amount, memo string) []byte {
	return mkTx(action.REWARDS_WITHDRAW_NETWORK_DELEGATE, netdel.Withdraw{Delegator: u.Addr, Amount: a}, GAS, memo, u)
}
func txDelegReinvest(u Key, a action.Amount, memo string) []byte {
	return mkTx(action.REWARDS_REINVEST_NETWORK_DELEGATE, netdel.Reinvest{Delegator: u.Addr, Amount: a}, GAS, memo, u)
}
func txWithdrawReward(v ValSpec, a action.Amount, memo string) []byte {
	return mkTx(action.WITHDRAW_REWARD, rewact.Withdraw{ValidatorAddress: v.Val.Addr, SignerAddress: v.Stake.Addr, WithdrawAmount: a}, GAS, memo, v.Stake)
}

func propID(s string) governance.ProposalID {
	h := sha256.Sum256([]byte(s))
	return governance.ProposalID(hex.EncodeToString(h[:]))
}

func txPropCreate(u Key, id string, typ governance.ProposalType, funding action.Amount, fundDL, voteDL int64, memo string) []byte {
	if voteDL == 0 {
		voteDL = fundDL + 12
	}
	return mkTx(action.PROPOSAL_CREATE, govact.CreateProposal{ProposalID: propID(id), ProposalType: typ, Headline: "h", Description: "d " + id, Proposer: u.Addr,
		InitialFunding: funding, FundingDeadline: fundDL, FundingGoal: amt("10000000000"), VotingDeadline: voteDL, PassPercentage: 51}, GAS, memo, u)
}
func txPropFund(u Key, id string, a action.Amount, memo string) []byte {
	return mkTx(action.PROPOSAL_FUND, govact.FundProposal{ProposalId: propID(id), FunderAddress: u.Addr, FundValue: a}, GAS, memo, u)
}
func txPropVote(v ValSpec, id string, op governance.VoteOpinion, memo string) []byte {
	return mkTx(action.PROPOSAL_VOTE, &govact.VoteProposal{ProposalID: propID(id), Address: v.Stake.Addr, ValidatorAddress: v.Val.Addr, Opinion: op}, GAS, memo, v.Stake, v.Val)
}
func txPropCancel(u Key, id string, memo string) []byte {
	return mkTx(action.PROPOSAL_CANCEL, &govact.CancelProposal{ProposalId: propID(id), Proposer: u.Addr, Reason: "r"}, GAS, memo, u)
}
func txPropWithdraw(u Key, id string, a action.Amount, ben keys.Address, memo string) []byte {
	return mkTx(action.PROPOSAL_WITHDRAW_FUNDS, govact.WithdrawFunds{ProposalID: propID(id), Funder: u.Addr, WithdrawValue: a, Beneficiary: ben}, GAS, memo, u)
}
func txExpireVotes(u Key, id string, memo string) []byte {
	return mkTx(action.EXPIRE_VOTES, govact.ExpireVotes{ProposalID: propID(id), ValidatorAddress: u.Addr}, GAS, memo, u)
}
func txFinalize(u Key, id string, memo string) []byte {
	return mkTx(action.PROPOSAL_FINALIZE, govact.FinalizeProposal{ProposalID: propID(id), ValidatorAddress: u.Addr}, GAS, memo, u)
}

func txDomainCreate(u Key, name string, price action.Amount, memo string) []byte {
	return mkTx(action.DOMAIN_CREATE, onsact.DomainCreate{Owner: u.Addr, Beneficiary: u.Addr, Name: ons.Name(name), Uri: "http://x.y", BuyingPrice: price}, GAS, memo, u)
}
func txDomainUpdate(u Key, name string, ben keys.Address, active bool, memo string) []byte {
	return mkTx(action.DOMAIN_UPDATE, onsact.DomainUpdate{Owner: u.Addr, Beneficiary: ben, Name: ons.Name(name), Active: active, Uri: "http://x.y"}, GAS, memo, u)
}
func txDomainSell(u Key, name string, price action.Amount, cancel bool, memo string) []byte {
	return mkTx(action.DOMAIN_SELL, onsact.DomainSale{Name: ons.Name(name), OwnerAddress: u.Addr, Price: price, CancelSale: cancel}, GAS, memo, u)
}
func txDomainPurchase(u Key, name string, offer action.Amount, memo string) []byte {
	return mkTx(action.DOMAIN_PURCHASE, onsact.DomainPurchase{Name: ons.Name(name), Buyer: u.Addr, Account: u.Addr, Offering: offer}, GAS, memo, u)
}
func txDomainSend(u Key, name string, a action.Amount, memo string) []byte {
	return mkTx(action.DOMAIN_SEND, onsact.DomainSend{From: u.Addr, Name: ons.Name(name), Amount: a}, GAS, memo, u)
}
func txDomainRenew(u Key, name string, price action.Amount, memo string) []byte {
	return mkTx(action.DOMAIN_RENEW, onsact.RenewDomain{Owner: u.Addr, Name: ons.Name(name), BuyingPrice: price}, GAS, memo, u)
}
func txDomainDeleteSub(u Key, name string, memo string) []byte {
	return mkTx(action.DOMAIN_DELETE_SUB, onsact.DeleteSub{Name: ons.Name(name), Owner: u.Addr}, GAS, memo, u)
}

func txAllegation(v ValSpec, reqID string, malicious keys.Address, h int64, memo string) []byte {
	return mkTx(action.ALLEGATION, evact.Allegation{RequestID: reqID, ValidatorAddress: v.Val.Addr, MaliciousAddress: malicious, BlockHeight: h, ProofMsg: "p"}, GAS, memo, v.Val)
}
func txAllegationVote(v ValSpec, reqID string, choice int8, memo string) []byte {
	return mkTx(action.ALLEGATION_VOTE, evact.AllegationVote{RequestID: reqID, Address: v.Val.Addr, Choice: choice}, GAS, memo, v.Val)
}
func txRelease(v ValSpec, memo string) []byte {
	return mkTx(action.RELEASE, evact.Release{ValidatorAddress: v.Val.Addr}, GAS, memo, v.Val)
}

// ---- history generation ----

type History struct {
	Name   string
	Blocks []BlockIn
	Descr  [][]string // per block, per tx: a human-readable description
}

type HBlockJSON struct {
	Txs    []string `json:"txs"`
	Absent []int    `json:"absent,omitempty"`
}

func (h *History) JSON() []HBlockJSON {
	out := []HBlockJSON{}
	for _, b := range h.Blocks {
		hb := HBlockJSON{}
		for _, t := range b.Txs {
			hb.Txs = append(hb.Txs, hex.EncodeToString(t))
		}
		for i := range b.Absent {
			hb.Absent = append(hb.Absent, i)
		}
		out = append(out, hb)
	}
	return out
}

func historyFromJSON(bs []HBlockJSON) *History {
	h := &History{}
	for _, b := range bs {
		in := BlockIn{Absent: map[int]bool{}}
		for _, t := range b.Txs {
			bz, _ := hex.DecodeString(t)
			in.Txs = append(in.Txs, bz)
		}
		for _, i := range b.Absent {
			in.Absent[i] = true
		}
		h.Blocks = append(h.Blocks, in)
		h.Descr = append(h.Descr, make([]string, len(in.Txs)))
	}
	return h
}

var amountsSmall = []string{"1", "7", "1000", "250000", "1000000000", "3000000000"}

// genHistory produces a mixed history: mostly valid transactions of many kinds, with failing ones
// (insufficient funds, wrong state, wrong owner) mixed in at every position.
func genHistory(r *rand.Rand, w *World, nblocks int, txPerBlock int) *History {
	h := &History{}
	nonce := 0
	memo := func() string { nonce++; return fmt.Sprintf("m%d", nonce) }
	props := []string{}
	domains := []string{}
	reqs := []string{}
	domOwner := map[string]Key{} // the creator of each domain (the owner unless it has changed hands since)
	type bidConvRec struct {
		id            string
		owner, bidder Key
		bid, counter  int64 // the amounts the generator believes active (units of 10^12), counter 0 = none
		dlh           int64 // the height after which it is past its deadline (0 = far)
		closed        bool
	}
	convs := []*bidConvRec{}
	bidDomains := []string{} // domains bought for long enough to be bid for
	user := func() Key {
		if len(w.Poor) > 0 && r.Intn(8) == 0 {
			return w.Poor[r.Intn(len(w.Poor))]
		}
		return w.Users[r.Intn(len(w.Users))]
	}
	val := func() ValSpec { return w.Vals[r.Intn(len(w.Vals))] }
	anyVal := func() ValSpec {
		if len(w.Extra) > 0 && r.Intn(3) == 0 {
			return w.Extra[r.Intn(len(w.Extra))]
		}
		return val()
	}
	small := func() string { return amountsSmall[r.Intn(len(amountsSmall))] }
	ethNonce := make([]uint64, len(w.Eth))
	for b := 0; b < nblocks; b++ {
		height := int64(b + 1)
		in := BlockIn{Absent: map[int]bool{}}
		descr := []string{}
		if r.Intn(6) == 0 && len(w.Vals) > 1 {
			in.Absent[r.Intn(len(w.Vals))] = true
		}
		n := r.Intn(txPerBlock + 1)
		for i := 0; i < n; i++ {
			var tx []byte
			var d string
			GAS = 1000000
			lowGas := r.Intn(12) == 0
			if lowGas {
				GAS = 100
			}
			switch k := r.Intn(48); k {
			case 39, 40, 41: // bid: a new conversation (ONS domain or the example asset)
				if k == 39 && (len(bidDomains) < 2 || r.Intn(3) == 0) {
					// a domain to bid for: bought by a funded account for 20000 blocks
					name := fmt.Sprintf("bd%d.ol", len(bidDomains))
					du := w.Users[r.Intn(len(w.Users))]
					domOwner[name] = du
					bidDomains = append(bidDomains, name)
					GAS = 1000000
					tx, d = txDomainCreate(du, name, oltAmt("1002000000000000000000"), memo()), "domain create "+name
					break
				}
				bidder := user()
				owner, asset, typ := user(), fmt.Sprintf("thing%d", r.Intn(3)), bidExample
				if len(bidDomains) > 0 && r.Intn(4) != 0 {
					asset, typ = bidDomains[r.Intn(len(bidDomains))], bidOns
					if len(domains) > 0 && r.Intn(8) == 0 {
						asset = domains[r.Intn(len(domains))] // any domain: possibly expired, on sale or never created
					}
					owner = domOwner[asset]
					if r.Intn(8) == 0 {
						owner = user() // not the owner: refused
					}
				}
				bid := []int64{1, 7, 1000, 250000, 3000000}[r.Intn(5)]
				a := fmt.Sprintf("%d000000000000", bid)
				switch r.Intn(10) {
				case 0:
					a = "9000000000000000000000000000" // more than anybody has
				case 1:
					a = "0"
				case 2:
					a = "-" + a // accepted by Validate
				}
				dl, dlh := bidFar, int64(0)
				switch r.Intn(12) {
				case 0, 1, 2, 3: // expires a few blocks later through the block hooks
					dlh = height + 1 + int64(r.Intn(6))
					dl = bidBlockTime(dlh) + 1
				case 4:
					dl = bidBlockTime(height) - 1 // already past: refused
				}
				tx, d = txBidCreate(bidder, owner.Addr, asset, typ, oltAmt(a), dl, memo()), "bidcreate "+asset+" "+a
				convs = append(convs, &bidConvRec{id: bidConvID(owner.Addr, asset, bidder.Addr, height), owner: owner, bidder: bidder, bid: bid, dlh: dlh})
			case 42, 43, 44, 45, 46, 47:
				if len(convs) == 0 {
					continue
				}
				// mostly a conversation believed to be open, and the step its state allows
				c := convs[r.Intn(len(convs))]
				for try := 0; try < 6 && (c.closed || (c.dlh != 0 && c.dlh < height)); try++ {
					c = convs[r.Intn(len(convs))]
				}
				if (c.closed || (c.dlh != 0 && c.dlh < height)) && r.Intn(3) != 0 {
					continue // nothing believed open: only now and then a transaction about a closed conversation
				}
				owner, bidder := c.owner, c.bidder
				if r.Intn(10) == 0 {
					owner, bidder = user(), user() // somebody else: refused
				}
				step := k
				if r.Intn(4) != 0 {
					if c.counter == 0 {
						step = []int{42, 42, 45, 46}[r.Intn(4)]
					} else {
						step = []int{43, 43, 44, 44, 46}[r.Intn(5)]
					}
					if c.dlh != 0 && r.Intn(3) == 0 {
						continue // left to expire
					}
				}
				dec := []int{bidAccept, bidAccept, bidAccept, bidReject, bidReject, 0, 3}[r.Intn(7)]
				switch step {
				case 42:
					cv := c.bid*2 + 1 + int64(r.Intn(5))
					if r.Intn(6) == 0 {
						cv = c.bid - int64(r.Intn(2)) // not above the bid: refused
					}
					a := fmt.Sprintf("%d000000000000", cv)
					if r.Intn(12) == 0 {
						a = "-" + a
					}
					tx, d = txBidCounter(owner, c.id, oltAmt(a), memo()), "bidcounter "+a
					c.counter = cv
				case 43:
					nv := c.bid + 1 + int64(r.Intn(3))
					if c.counter > 0 && nv >= c.counter {
						nv = c.counter - 1
					}
					if r.Intn(6) == 0 {
						nv = c.counter + int64(r.Intn(2)) // not below the counter offer: refused
					}
					a := fmt.Sprintf("%d000000000000", nv)
					if r.Intn(12) == 0 {
						a = "-" + a
					}
					tx, d = txBidOffer(bidder, c.id, oltAmt(a), memo()), "bidoffer "+a
					c.bid, c.counter = nv, 0
				case 44:
					tx, d = txBidBidderDecision(bidder, c.id, dec, memo()), fmt.Sprintf("bidbidderdecision %d", dec)
					c.closed = c.closed || dec == bidAccept || dec == bidReject
				case 45:
					tx, d = txBidOwnerDecision(owner, c.id, dec, memo()), fmt.Sprintf("bidownerdecision %d", dec)
					c.closed = c.closed || dec == bidAccept || dec == bidReject
				case 46:
					tx, d = txBidCancel(bidder, c.id, memo()), "bidcancel"
					c.closed = true
				case 47:
					tx, d = txBidExpire(user(), c.id, memo()), "bidexpire public"
					c.closed = true
				}
			case 35, 36: // OLVM plain transfer with the expected nonce
				if len(w.Eth) == 0 {
					continue
				}
				ei := r.Intn(len(w.Eth))
				to := user().Addr
				if r.Intn(2) == 0 {
					to = w.Eth[r.Intn(len(w.Eth))].Addr
				}
				tx, d = txOLVM(w.Eth[ei], &to, ethNonce[ei], small()+"000000000", 30000, nil), "olvm transfer"
				ethNonce[ei]++
			case 37: // OLVM with a nonce ahead of the account: passes Validate, fails its pre-check
				if len(w.Eth) == 0 {
					continue
				}
				ei := r.Intn(len(w.Eth))
				to := user().Addr
				tx, d = txOLVM(w.Eth[ei], &to, ethNonce[ei]+1+uint64(r.Intn(3)), "1000000000", 30000, nil), "olvmgap nonce ahead"
			case 38: // OLVM contract creation (init code that stores a value; reverting init now and then)
				if len(w.Eth) == 0 {
					continue
				}
				ei := r.Intn(len(w.Eth))
				init := c17InitStore
				if r.Intn(3) == 0 {
					init = c17InitRevert
				}
				tx, d = txOLVM(w.Eth[ei], nil, ethNonce[ei], "0", 200000, init), "olvmcreate"
				ethNonce[ei]++
			case 34:
				if len(w.Poor) == 0 {
					continue
				}
				// the whole balance: the handler succeeds, the fee step finds nothing left
				tx, d = txSend(w.Poor[r.Intn(len(w.Poor))], w.Users[0].Addr, oltAmt("2000000000000000"), memo()), "sendall poor"
			case 0, 1, 2:
				u := user()
				a := small() + "000000000000"
				tx, d = txSend(u, user().Addr, oltAmt(a), memo()), "send "+a
			case 3:
				u := user() // more than the balance: fails
				tx, d = txSend(u, user().Addr, oltAmt("9000000000000000000000000000"), memo()), "send too much"
			case 4:
				tx, d = txSendPool(user(), "BountyPool", oltAmt(small()+"000000000"), memo()), "sendpool"
			case 5, 6:
				v := anyVal()
				a := []string{"1", "1500", "5000", "2000000"}[r.Intn(4)]
				tx, d = txStake(v, oltAmt(a), memo()), "stake "+a
			case 7:
				v := anyVal()
				a := []string{"1", "500", "1000", "2999000", "99999999"}[r.Intn(5)]
				tx, d = txUnstake(v, oltAmt(a), memo()), "unstake "+a
			case 8:
				v := anyVal()
				a := []string{"1", "500", "1000", "99999999"}[r.Intn(4)]
				tx, d = txWithdraw(v, oltAmt(a), memo()), "withdraw "+a
			case 9, 10:
				a := small() + "000000000000"
				tx, d = txDelegate(user(), oltAmt(a), memo()), "delegate "+a
			case 11, 12:
				a := small() + "000000000"
				tx, d = txUndelegate(user(), oltAmt(a), memo()), "undelegate "+a
			case 13:
				tx, d = txDelegWithdrawRewards(user(), oltAmt(small()), memo()), "deleg withdraw rewards"
			case 14:
				tx, d = txDelegReinvest(user(), oltAmt(small()), memo()), "deleg reinvest"
			case 15:
				tx, d = txWithdrawReward(val(), oltAmt(small()), memo()), "withdraw validator reward"
			case 16, 17:
				id := fmt.Sprintf("p%d", len(props))
				props = append(props, id)
				typ := []governance.ProposalType{governance.ProposalTypeGeneral, governance.ProposalTypeCodeChange}[r.Intn(2)]
				f := []string{"1000000000", "2000000000", "10000000000", "5"}[r.Intn(4)]
				tx, d = txPropCreate(user(), id, typ, oltAmt(f), height+3+int64(r.Intn(8)), 0, memo()), "prop create "+id+" funding "+f
			case 18, 19:
				if len(props) == 0 {
					continue
				}
				id := props[r.Intn(len(props))]
				f := []string{"1000000000", "9000000000", "10000000000", "1"}[r.Intn(4)]
				tx, d = txPropFund(user(), id, oltAmt(f), memo()), "prop fund "+id+" "+f
			case 20, 21:
				if len(props) == 0 {
					continue
				}
				id := props[r.Intn(len(props))]
				tx, d = txPropVote(val(), id, governance.VoteOpinion(r.Intn(3)), memo()), "prop vote "+id
			case 22:
				if len(props) == 0 {
					continue
				}
				id := props[r.Intn(len(props))]
				tx, d = txPropCancel(user(), id, memo()), "prop cancel "+id
			case 23:
				if len(props) == 0 {
					continue
				}
				id := props[r.Intn(len(props))]
				u := user()
				tx, d = txPropWithdraw(u, id, oltAmt(small()), u.Addr, memo()), "prop withdraw funds "+id
			case 24, 25:
				name := fmt.Sprintf("n%d.ol", len(domains))
				domains = append(domains, name)
				price := []string{"1000000000000000000001", "1100000000000000000000", "1002000000000000000000", "5"}[r.Intn(4)]
				du := user()
				domOwner[name] = du
				tx, d = txDomainCreate(du, name, oltAmt(price), memo()), "domain create "+name
			case 26:
				if len(domains) == 0 {
					continue
				}
				name := domains[r.Intn(len(domains))]
				tx, d = txDomainUpdate(user(), name, user().Addr, r.Intn(2) == 0, memo()), "domain update "+name
			case 27:
				if len(domains) == 0 {
					continue
				}
				name := domains[r.Intn(len(domains))]
				tx, d = txDomainSell(user(), name, oltAmt("5000000000000000000"), r.Intn(4) == 0, memo()), "domain sell "+name
			case 28:
				if len(domains) == 0 {
					continue
				}
				name := domains[r.Intn(len(domains))]
				tx, d = txDomainPurchase(user(), name, oltAmt([]string{"5000000000000000000", "1", "1000000000000000000000"}[r.Intn(3)]), memo()), "domain purchase "+name
			case 29:
				if len(domains) == 0 {
					continue
				}
				name := domains[r.Intn(len(domains))]
				tx, d = txDomainSend(user(), name, oltAmt(small()), memo()), "domain send "+name
			case 30:
				if len(domains) == 0 {
					continue
				}
				name := domains[r.Intn(len(domains))]
				tx, d = txDomainRenew(user(), name, oltAmt("100000000000000000"), memo()), "domain renew "+name
			case 31:
				if len(w.Vals) < 2 {
					continue
				}
				id := fmt.Sprintf("req%d", len(reqs))
				reqs = append(reqs, id)
				acc := val()
				mal := val()
				tx, d = txAllegation(acc, id, mal.Val.Addr, height, memo()), "allegation "+id
			case 32:
				if len(reqs) == 0 {
					continue
				}
				id := reqs[r.Intn(len(reqs))]
				tx, d = txAllegationVote(val(), id, int8(1+r.Intn(2)), memo()), "allegation vote "+id
			case 33:
				tx, d = txRelease(val(), memo()), "release"
			}
			GAS = 1000000
			if tx != nil {
				if lowGas {
					d = "lowgas " + d
				}
				in.Txs = append(in.Txs, tx)
				descr = append(descr, d)
			}
		}
		h.Blocks = append(h.Blocks, in)
		h.Descr = append(h.Descr, descr)
	}
	return h
}

func jsonString(v interface{}) string {
	bz, _ := json.Marshal(v)
	return string(bz)
}
