package main

// C04: (a) package-level correspondence of action.ValidateBasic with Auth.validate_basic on
// generated (content, signers, signatures) triples; (b) every kind through the real app:
// a valid signed transaction and all its single-field mutants through CheckTx and, delivered
// directly in a block, through DeliverTx.

import (
	"bytes"
	"encoding/json"
	"flag"
	"fmt"
	"math/big"
	"math/rand"
	"os"
	"sort"
	"strings"

	"github.com/Oneledger/protocol/action"
	"github.com/Oneledger/protocol/data/keys"
	"github.com/Oneledger/protocol/utils"
)

func init() { subcmds["c04"] = c04Main }

type c04Mut struct {
	Name    string `json:"name"`
	Class   string `json:"class"`
	Check   uint32 `json:"check_code"`
	Deliver uint32 `json:"deliver_code"`
	Changed bool   `json:"signed_bytes_changed"`
	Tx      string `json:"tx"`
}

type c04Kind struct {
	Kind        string   `json:"kind"`
	BaseCheck   uint32   `json:"base_check_code"`
	BaseLog     string   `json:"base_log,omitempty"`
	BaseDeliver uint32   `json:"base_deliver_code"`
	Base        string   `json:"base_tx"`
	Mutants     []c04Mut `json:"mutants"`
}

type c04Report struct {
	Kinds        []c04Kind      `json:"kinds"`
	VBCases      int            `json:"vb_cases"`
	VBAccepted   int            `json:"vb_accepted"`
	VBHistogram  map[string]int `json:"vb_perturbation_histogram"`
	Files        []string       `json:"files"`
	VBSamples    []string       `json:"vb_samples"`
	VBCaseDescrs []string       `json:"vb_case_descr"`
}

type c04Sig struct {
	sig           action.Signature
	key, by, over int
	algOk         bool
}

func c04VB(r *rand.Rand, n int, outDir string, rep *c04Report) {
	pool := []Key{seedKey(1), seedKey(2), seedKey(3), seedKey(4)}
	msgs := []action.RawTx{}
	for i := 0; i < 3; i++ {
		msgs = append(msgs, action.RawTx{Type: action.SEND, Data: []byte(fmt.Sprintf(`{"n":%d}`, i)), Fee: feeOf(int64(1000 + i)), Memo: fmt.Sprintf("m%d", i)})
	}
	signOver := func(k, m int) []byte {
		ph, _ := pool[k].Priv.GetHandler()
		s, _ := ph.Sign(msgs[m].RawBytes())
		return s
	}
	var b bytes.Buffer
	b.WriteString("From Coq Require Import ZArith List Bool.\nImport ListNotations.\nFrom OL Require Import theories.Auth theories.AuthCheck.\nLocal Open Scope Z_scope.\n")
	b.WriteString("Definition cases : list vbcase := [\n")
	rep.VBHistogram = map[string]int{}
	for c := 0; c < n; c++ {
		m := r.Intn(len(msgs))
		ns := r.Intn(4)
		signers := []int{}
		for i := 0; i < ns; i++ {
			signers = append(signers, r.Intn(len(pool)))
		}
		sigs := []c04Sig{}
		for _, k := range signers {
			sigs = append(sigs, c04Sig{action.Signature{Signer: pool[k].Pub, Signed: signOver(k, m)}, k, k, m, true})
		}
		pert := "none"
		if len(sigs) > 0 || r.Intn(4) == 0 {
			switch p := r.Intn(10); {
			case p == 0 && len(sigs) > 0:
				pert = "drop"
				i := r.Intn(len(sigs))
				sigs = append(sigs[:i:i], sigs[i+1:]...)
			case p == 1 && len(sigs) > 0:
				pert = "duplicate"
				sigs = append(sigs, sigs[r.Intn(len(sigs))])
			case p == 2 && len(sigs) > 1:
				pert = "swap"
				sigs[0], sigs[1] = sigs[1], sigs[0]
			case p == 3 && len(sigs) > 0:
				pert = "substitute-key"
				i := r.Intn(len(sigs))
				k := r.Intn(len(pool))
				sigs[i].sig.Signer = pool[k].Pub
				sigs[i].key = k
			case p == 4 && len(sigs) > 0:
				pert = "signed-by-other"
				i := r.Intn(len(sigs))
				k := r.Intn(len(pool))
				sigs[i] = c04Sig{action.Signature{Signer: pool[k].Pub, Signed: signOver(k, m)}, k, k, m, true}
			case p == 5 && len(sigs) > 0:
				pert = "other-content"
				i := r.Intn(len(sigs))
				m2 := r.Intn(len(msgs))
				sigs[i].sig.Signed = signOver(sigs[i].by, m2)
				sigs[i].over = m2
			case p == 6 && len(sigs) > 0:
				pert = "corrupt"
				i := r.Intn(len(sigs))
				s := append([]byte{}, sigs[i].sig.Signed...)
				s[r.Intn(len(s))] ^= byte(1 << uint(r.Intn(8)))
				sigs[i].sig.Signed = s
				sigs[i].by = -1
			case p == 7 && len(sigs) > 0:
				pert = "algorithm"
				i := r.Intn(len(sigs))
				pk := sigs[i].sig.Signer
				pk.KeyType = keys.SECP256K1
				sigs[i].sig.Signer = pk
				sigs[i].algOk = false
			case p == 8:
				pert = "extra-signature"
				k := r.Intn(len(pool))
				sigs = append(sigs, c04Sig{action.Signature{Signer: pool[k].Pub, Signed: signOver(k, m)}, k, k, m, true})
			}
		}
		rep.VBHistogram[pert]++
		addrs := []action.Address{}
		for _, k := range signers {
			addrs = append(addrs, pool[k].Addr)
		}
		real := []action.Signature{}
		for _, s := range sigs {
			real = append(real, s.sig)
		}
		ok := action.ValidateBasic(msgs[m].RawBytes(), addrs, real) == nil
		if ok {
			rep.VBAccepted++
		}
		var sb strings.Builder
		fmt.Fprintf(&sb, "  mkcase %d [", m)
		for i, k := range signers {
			if i > 0 {
				sb.WriteString("; ")
			}
			fmt.Fprintf(&sb, "%d", k)
		}
		sb.WriteString("] [")
		for i, s := range sigs {
			if i > 0 {
				sb.WriteString("; ")
			}
			fmt.Fprintf(&sb, "mksig %d %v (%d) %d", s.key, s.algOk, s.by, s.over)
		}
		fmt.Fprintf(&sb, "] %v", ok)
		line := sb.String()
		if c > 0 {
			b.WriteString(";\n")
		}
		b.WriteString(line)
		rep.VBCaseDescrs = append(rep.VBCaseDescrs, pert+":"+strings.TrimSpace(line))
		if len(rep.VBSamples) < 4 && c%(n/4+1) == 0 {
			rep.VBSamples = append(rep.VBSamples, pert+": "+strings.TrimSpace(line))
		}
	}
	b.WriteString("\n].\nDefinition MM := Eval vm_compute in vb_mismatches 0 cases.\nPrint MM.\n")
	name := outDir + "/c04_cases_0.v"
	must(os.WriteFile(name, b.Bytes(), 0644))
	rep.Files = append(rep.Files, name)
	rep.VBCases = n
}

func c04Main(args []string) int {
	fs := flag.NewFlagSet("c04", flag.ExitOnError)
	seed := fs.Int64("seed", 1, "seed")
	n := fs.Int("n", 600, "ValidateBasic cases")
	outDir := fs.String("out", ".", "output directory")
	only := fs.String("kind", "", "only this kind")
	fs.Parse(args)
	r := rand.New(rand.NewSource(*seed))
	rep := &c04Report{}
	c04VB(r, *n, *outDir, rep)

	probe := newLab(0)
	names := []string{}
	for _, k := range probe.Kinds {
		names = append(names, k.Name)
	}
	probe.Rep.Close()
	for ki, name := range names {
		if *only != "" && *only != name {
			continue
		}
		l := newLab(0)
		k := l.Kinds[ki]
		base := k.Build(l.memo())
		kr := c04Kind{Kind: name, Base: hx(base)}
		cb := l.Rep.CheckTx(base)
		kr.BaseCheck = cb.Code
		if cb.Code != 0 {
			kr.BaseLog = cb.Log
			if len(kr.BaseLog) > 200 {
				kr.BaseLog = kr.BaseLog[:200]
			}
		}
		muts := l.mutants(k, base)
		baseRaw := decodeSigned(base).RawBytes()
		for _, m := range muts {
			c := l.Rep.CheckTx(m.Tx)
			kr.Mutants = append(kr.Mutants, c04Mut{Name: m.Name, Class: m.Class, Check: c.Code, Tx: hx(m.Tx),
				Changed: !bytes.Equal(decodeSigned(m.Tx).RawBytes(), baseRaw)})
		}
		// wire-level mutants, each right after the genuine transaction on the same connection
		wires := wireMutants(base)
		for _, m := range wires {
			l.Rep.CheckTx(base)
			c := l.Rep.CheckTx(m.Tx)
			kr.Mutants = append(kr.Mutants, c04Mut{Name: m.Name, Class: m.Class, Check: c.Code, Tx: hx(m.Tx), Changed: true})
		}
		// the mutants delivered directly in a block (a byzantine proposer), then the base, then the
		// wire-level mutants (the genuine transaction is the previous request of the connection)
		in := &BlockIn{Absent: map[int]bool{}}
		l.Rep.BeginBlock(in)
		for i, m := range muts {
			res := l.Rep.DeliverTx(m.Tx)
			kr.Mutants[i].Deliver = res.Code
		}
		res := l.Rep.DeliverTx(base)
		kr.BaseDeliver = res.Code
		for i, m := range wires {
			res := l.Rep.DeliverTx(m.Tx)
			kr.Mutants[len(muts)+i].Deliver = res.Code
		}
		l.Rep.EndBlock()
		l.Rep.Commit()
		l.Rep.Close()
		rep.Kinds = append(rep.Kinds, kr)
	}
	// the kinds that need the Ethereum chain driver (second prepared chain, harness/c18eth.go)
	if *only == "" || strings.HasPrefix(*only, "ETH") || strings.HasPrefix(*only, "ERC20") {
		nk := len(newC18EthClosed())
		for ki := 0; ki < nk; ki++ {
			e := newC18Eth()
			k := e.kinds()[ki]
			if *only != "" && *only != k.Name {
				func() { defer func() { recover() }(); e.w.rep.Close() }()
				continue
			}
			w := e.w
			l := &lab{W: &World{Users: []Key{w.idKey[1], w.idKey[2], w.idKey[3], w.idKey[4], w.idKey[40], w.idKey[41]}}, Rep: w.rep, Attacker: w.idKey[40]}
			base := k.Build(e.memo())
			kr := c04Kind{Kind: k.Name, Base: hx(base)}
			cb := l.Rep.CheckTx(base)
			kr.BaseCheck = cb.Code
			kr.BaseLog = cb.Log
			muts := l.mutants(k, base)
			baseRaw := decodeSigned(base).RawBytes()
			for _, m := range muts {
				c := l.Rep.CheckTx(m.Tx)
				kr.Mutants = append(kr.Mutants, c04Mut{Name: m.Name, Class: m.Class, Check: c.Code, Tx: hx(m.Tx),
					Changed: !bytes.Equal(decodeSigned(m.Tx).RawBytes(), baseRaw)})
			}
			wires := wireMutants(base)
			for _, m := range wires {
				l.Rep.CheckTx(base)
				c := l.Rep.CheckTx(m.Tx)
				kr.Mutants = append(kr.Mutants, c04Mut{Name: m.Name, Class: m.Class, Check: c.Code, Tx: hx(m.Tx), Changed: true})
			}
			in := &BlockIn{Absent: map[int]bool{}}
			l.Rep.BeginBlock(in)
			for i, m := range muts {
				res := l.Rep.DeliverTx(m.Tx)
				kr.Mutants[i].Deliver = res.Code
			}
			res := l.Rep.DeliverTx(base)
			kr.BaseDeliver = res.Code
			for i, m := range wires {
				res := l.Rep.DeliverTx(m.Tx)
				kr.Mutants[len(muts)+i].Deliver = res.Code
			}
			l.Rep.EndBlock()
			l.Rep.Commit()
			func() { defer func() { recover() }(); l.Rep.Close() }()
			rep.Kinds = append(rep.Kinds, kr)
		}
	}
	// OLVM transactions authenticate differently (an EIP-155 signature over the embedded Ethereum
	// transaction, the sender recovered from it must equal the payload's from): same questions
	if *only == "" || *only == "OLVM" {
		l := newLab(0)
		w := l.W
		e0, e1 := w.Eth[0], w.Eth[1]
		to := w.Users[1].Addr
		chain := utils.HashToBigInt("verif-chain")
		price := big.NewInt(1000000000)
		base := c17TxOLVM(e0, &to, 0, big.NewInt(1000000000000), price, 30000, nil, chain, chain, "0", 0)
		kr := c04Kind{Kind: "OLVM", Base: hx(base)}
		cb := l.Rep.CheckTx(base)
		kr.BaseCheck = cb.Code
		kr.BaseLog = cb.Log
		muts := []labMutant{}
		// the victim's address as sender, signed by somebody else's key (signature recovers cleanly to another address)
		forged := c17EthKey{Addr: e0.Addr, Priv: e1.Priv}
		muts = append(muts, labMutant{"olvm.from-victim-signed-by-another-key", "attacker",
			c17TxOLVM(forged, &to, 0, big.NewInt(1000000000000), price, 30000, nil, chain, chain, "0", 0)})
		muts = append(muts, labMutant{"olvm.from-victim-signed-by-another-key-other-amount", "attacker",
			c17TxOLVM(forged, &e1.Addr, 0, big.NewInt(7000000000000), price, 30000, nil, chain, chain, "0", 0)})
		other := utils.HashToBigInt("another-chain")
		muts = append(muts, labMutant{"olvm.signed-for-another-chain", "sig",
			c17TxOLVM(e0, &to, 0, big.NewInt(1000000000000), price, 30000, nil, other, chain, "0", 0)})
		// (the Signer field of an OLVM signature is not used: the sender is recovered from the signature
		// bytes, so replacing that public key is not a mutation of the authentication data)
		// signed content changed, signature kept
		for f, nd := range mutatePayload(decodeSigned(base).Data, l.Attacker.Addr) {
			tx := decodeSigned(base)
			tx.Data = nd
			muts = append(muts, labMutant{"olvm.payload." + f, "content", encodeSigned(tx)})
		}
		for name, f := range map[string]func(tx *action.SignedTx){
			"olvm.fee.gas":         func(tx *action.SignedTx) { tx.Fee.Gas++ },
			"olvm.fee.price.value": func(tx *action.SignedTx) { tx.Fee.Price.Value = bigAmt("1000000001") },
			"olvm.sig.flip": func(tx *action.SignedTx) {
				sg := append([]byte{}, tx.Signatures[0].Signed...)
				sg[5] ^= 0x10
				tx.Signatures[0].Signed = sg
			},
			"olvm.sig.drop-all":  func(tx *action.SignedTx) { tx.Signatures = nil },
			"olvm.sig.duplicate": func(tx *action.SignedTx) { tx.Signatures = append(tx.Signatures, tx.Signatures[0]) },
		} {
			tx := decodeSigned(base)
			f(tx)
			muts = append(muts, labMutant{name, "sig", encodeSigned(tx)})
		}
		sort.Slice(muts, func(i, j int) bool { return muts[i].Name < muts[j].Name })
		baseRaw := decodeSigned(base).RawBytes()
		for _, m := range muts {
			c := l.Rep.CheckTx(m.Tx)
			kr.Mutants = append(kr.Mutants, c04Mut{Name: m.Name, Class: m.Class, Check: c.Code, Tx: hx(m.Tx),
				Changed: !bytes.Equal(decodeSigned(m.Tx).RawBytes(), baseRaw)})
		}
		wires := wireMutants(base)
		for _, m := range wires {
			l.Rep.CheckTx(base)
			c := l.Rep.CheckTx(m.Tx)
			kr.Mutants = append(kr.Mutants, c04Mut{Name: m.Name, Class: m.Class, Check: c.Code, Tx: hx(m.Tx), Changed: true})
		}
		in := &BlockIn{Absent: map[int]bool{}}
		l.Rep.BeginBlock(in)
		for i, m := range muts {
			res := l.Rep.DeliverTx(m.Tx)
			kr.Mutants[i].Deliver = res.Code
		}
		res := l.Rep.DeliverTx(base)
		kr.BaseDeliver = res.Code
		for i, m := range wires {
			res := l.Rep.DeliverTx(m.Tx)
			kr.Mutants[len(muts)+i].Deliver = res.Code
		}
		l.Rep.EndBlock()
		l.Rep.Commit()
		l.Rep.Close()
		rep.Kinds = append(rep.Kinds, kr)
	}
	bz, _ := json.MarshalIndent(rep, "", " ")
	must(os.WriteFile(*outDir+"/c04_report.json", bz, 0644))
	say("c04: %d ValidateBasic cases (%d accepted), %d kinds\n", rep.VBCases, rep.VBAccepted, len(rep.Kinds))
	return 0
}
