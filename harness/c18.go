package main

// C18: no transaction input can crash or halt the node.  Hostile inputs are generated from a
// valid transaction of every kind (semantically hostile fields, correctly signed) plus malformed
// bytes; a worker process runs them through CheckTx and DeliverTx on a real app and reports after
// each one; the parent (checklib/c18.py) observes worker deaths and application shutdowns.

import (
	"github.com/Oneledger/protocol/data/governance"
	"encoding/hex"
	"encoding/json"
	"flag"
	"fmt"
	"math/rand"
	"os"
	"sort"
	"strings"

	"github.com/Oneledger/protocol/action"
	"github.com/Oneledger/protocol/data/keys"
)

func init() { subcmds["c18"] = c18Main }

type c18Input struct {
	ID    int    `json:"id"`
	Kind  string `json:"kind"`
	Name  string `json:"name"`
	Class string `json:"class"` // field | payload | envelope | bytes | embedded | corpus
	Tx    string `json:"tx"`
	World string `json:"world,omitempty"` // "" = the laboratory chain, "eth" = the chain with the Ethereum chain driver (c18eth.go)
}

var c18AmountValues = []string{"-1", "0", "1", "9223372036854775807", "9223372036854775808", "18446744073709551616", "10000000000000000000000000000000000000000", "-18446744073709551616"}

func c18HostileValues(s string, other keys.Address) []string {
	s = strings.TrimSpace(s)
	out := []string{}
	switch {
	case strings.HasPrefix(s, "\"0lt") || strings.HasPrefix(s, "\"0x"):
		out = append(out, `""`, `"0lt"`, `"0ltzz"`, `"0lt00"`, `"0lt`+strings.Repeat("ab", 60)+`"`, `"`+other.String()+`"`, `null`, `"0x0000000000000000000000000000000000000000"`, `123`)
	case strings.HasPrefix(s, "{") && strings.Contains(s, "\"value\""):
		for _, cur := range []string{"OLT", "XYZ", "", "ETH", "olt", "Olt", " OLT", "OLT\u0000"} {
			for _, v := range c18AmountValues {
				if cur == "OLT" && (v == "1") {
					continue
				}
				out = append(out, fmt.Sprintf(`{"currency":"%s","value":"%s"}`, cur, v))
			}
		}
		out = append(out, `null`, `{}`, `{"currency":"OLT"}`, `{"value":"5"}`, `{"currency":"OLT","value":"abc"}`, `{"currency":"OLT","value":""}`, `{"currency":"OLT","value":null}`, `"5"`, `5`)
	case strings.HasPrefix(s, "\""):
		out = append(out, `""`, `"`+strings.Repeat("x", 5000)+`"`, `"\u0000ÿ😀"`, `null`, `"../../etc"`, `".."`, `"a..ol"`, `".ol"`, `12`)
	case s == "true" || s == "false":
		out = append(out, `null`, `"true"`, `1`)
	case strings.HasPrefix(s, "{") || strings.HasPrefix(s, "["):
		out = append(out, `null`, `{}`, `[]`, `"x"`)
	case s == "null":
		out = append(out, `{}`, `""`, `0`)
	default: // number
		out = append(out, `-1`, `0`, `9223372036854775807`, `9223372036854775808`, `-9223372036854775808`, `1e40`, `1.5`, `"7"`, `null`, `255`, `4`)
	}
	return out
}

// c18KindInputs: every hostile variation of one valid transaction kind (payload fields, whole
// payload, envelope), correctly signed wherever the envelope allows
func c18KindInputs(add func(kind, name, class string, tx []byte), k labKind, memo func() string, attacker keys.Address) {
	base := k.Build(memo())
	btx := decodeSigned(base)
	var m map[string]json.RawMessage
	if json.Unmarshal(btx.Data, &m) != nil {
		return
	}
	names := []string{}
	for f := range m {
		names = append(names, f)
	}
	sort.Strings(names)
	rebuild := func(m2 map[string]json.RawMessage) []byte {
		bz, _ := json.Marshal(m2)
		raw := btx.RawTx
		raw.Data = bz
		raw.Memo = memo()
		return resign(raw, k.Signers...)
	}
	for _, f := range names {
		for vi, hv := range c18HostileValues(string(m[f]), attacker) {
			m2 := map[string]json.RawMessage{}
			for a, b := range m {
				m2[a] = b
			}
			m2[f] = json.RawMessage(hv)
			add(k.Name, fmt.Sprintf("%s=#%d", f, vi), "field", rebuild(m2))
		}
		m2 := map[string]json.RawMessage{}
		for a, b := range m {
			if a != f {
				m2[a] = b
			}
		}
		add(k.Name, f+"=<absent>", "field", rebuild(m2))
	}
	// whole-payload hostility
	for pi, p := range []string{`{}`, `null`, `[]`, ``, `"x"`, `{"a":`, string(btx.Data) + "x", `7`} {
		raw := btx.RawTx
		raw.Data = []byte(p)
		raw.Memo = memo()
		add(k.Name, fmt.Sprintf("payload#%d", pi), "payload", resign(raw, k.Signers...))
	}
	// envelope hostility (fee, memo, signatures, type)
	env := func(name string, f func(tx *action.SignedTx) bool) {
		tx := decodeSigned(base)
		tx.Memo = memo()
		if f(tx) {
			add(k.Name, name, "envelope", encodeSigned(tx))
		}
	}
	envS := func(name string, f func(raw *action.RawTx)) { // correctly signed envelope change
		raw := btx.RawTx
		raw.Memo = memo()
		f(&raw)
		add(k.Name, name, "envelope", resign(raw, k.Signers...))
	}
	envS("fee.gas=-1", func(raw *action.RawTx) { raw.Fee.Gas = -1 })
	envS("fee.gas=0", func(raw *action.RawTx) { raw.Fee.Gas = 0 })
	envS("fee.gas=max", func(raw *action.RawTx) { raw.Fee.Gas = 9223372036854775807 })
	envS("fee.price=-1", func(raw *action.RawTx) { raw.Fee.Price.Value = bigAmt("-1000000000") })
	envS("fee.price=huge", func(raw *action.RawTx) { raw.Fee.Price.Value = bigAmt("100000000000000000000000000000000000000") })
	envS("fee.price.currency=XYZ", func(raw *action.RawTx) { raw.Fee.Price.Currency = "XYZ" })
	envS("fee.price.currency=ETH", func(raw *action.RawTx) { raw.Fee.Price.Currency = "ETH" })
	envS("fee.price.currency=empty", func(raw *action.RawTx) { raw.Fee.Price.Currency = "" })
	// near misses of the registered fee currency name (case, padding, control characters):
	// what a validation that normalises names would let through to an exact-name lookup
	for _, nm := range []string{"olt", "Olt", "oLT", " OLT", "OLT ", "OLT\x00", "ＯＬＴ"} {
		nm := nm
		envS("fee.price.currency~"+nm, func(raw *action.RawTx) { raw.Fee.Price.Currency = nm })
	}
	envS("type=unknown", func(raw *action.RawTx) { raw.Type = action.Type(0x7fff) })
	envS("type=negative", func(raw *action.RawTx) { raw.Type = action.Type(-5) })
	envS("memo=long", func(raw *action.RawTx) { raw.Memo = strings.Repeat("m", 20000) })
	env("signatures=none", func(tx *action.SignedTx) bool { tx.Signatures = nil; return true })
	env("signature.key=empty", func(tx *action.SignedTx) bool { tx.Signatures[0].Signer = keys.PublicKey{}; return true })
	env("signature.key=short", func(tx *action.SignedTx) bool {
		p := tx.Signatures[0].Signer
		p.Data = p.Data[:5]
		tx.Signatures[0].Signer = p
		return true
	})
	{
		tx := decodeSigned(base)
		tx.Memo = memo()
		bz := encodeSigned(tx)
		add(k.Name, "signature.alg=unknown", "envelope", []byte(strings.Replace(string(bz), `"keyType":"ed25519"`, `"keyType":"zz"`, 1)))
		add(k.Name, "signature.alg=number", "envelope", []byte(strings.Replace(string(bz), `"keyType":"ed25519"`, `"keyType":7`, 1)))
	}
	env("signature.bytes=empty", func(tx *action.SignedTx) bool { tx.Signatures[0].Signed = nil; return true })
	env("signatures=100", func(tx *action.SignedTx) bool {
		for i := 0; i < 100; i++ {
			tx.Signatures = append(tx.Signatures, tx.Signatures[0])
		}
		return true
	})
}

func c18Generate(seed int64) []c18Input {
	r := rand.New(rand.NewSource(seed))
	l := newLab(0)
	defer l.Rep.Close()
	ins := []c18Input{}
	add := func(kind, name, class string, tx []byte) {
		ins = append(ins, c18Input{ID: len(ins), Kind: kind, Name: name, Class: class, Tx: hex.EncodeToString(tx)})
	}
	for _, k := range l.Kinds {
		c18KindInputs(add, k, l.memo, l.Attacker.Addr)
	}
	c18OLVMInputs(l, add)
	c18CfgInputs(l, add)
	// malformed bytes
	raws := [][]byte{{}, []byte("{"), []byte("null"), []byte("[]"), []byte("0"), []byte("\"x\""), []byte("{}"), []byte(`{"type":1}`), []byte(`{"type":"x"}`),
		[]byte(`{"type":1,"data":"!!!"}`), []byte(`{"type":1,"data":null,"fee":null,"memo":null,"signatures":null}`), []byte(`{"type":99999999999999999999}`),
		[]byte(strings.Repeat("[", 10000)), []byte(strings.Repeat(`{"a":`, 2000)), []byte("\x00\x01\x02\xff\xfe"), []byte(strings.Repeat("A", 100000))}
	for i := 0; i < 40; i++ {
		b := make([]byte, 1+r.Intn(300))
		r.Read(b)
		raws = append(raws, b)
	}
	base := l.Kinds[0].Build(l.memo())
	for i := 0; i < 60; i++ { // byte-level corruption of a valid transaction
		b := append([]byte{}, base...)
		switch r.Intn(3) {
		case 0:
			b = b[:r.Intn(len(b))]
		case 1:
			for j := 0; j < 1+r.Intn(4); j++ {
				b[r.Intn(len(b))] = byte(r.Intn(256))
			}
		case 2:
			p := r.Intn(len(b))
			b = append(b[:p:p], append([]byte{byte(r.Intn(256))}, b[p:]...)...)
		}
		raws = append(raws, b)
	}
	for i, b := range raws {
		add("-", fmt.Sprintf("bytes#%d", i), "bytes", b)
	}
	// second chain: kinds with an embedded Ethereum transaction
	e := newC18Eth()
	defer func() { defer func() { recover() }(); e.w.rep.Close() }()
	e.generate(func(kind, name, class string, tx []byte) {
		ins = append(ins, c18Input{ID: len(ins), Kind: kind, Name: name, Class: class, Tx: hex.EncodeToString(tx), World: "eth"})
	})
	return ins
}

// c18CfgInputs: well-formed configuration-update proposals for every option key (values inside and outside
// the admissible ranges, proposers that can and cannot pay): the update functions of action/govUpdate.go run
// in validate-only mode on each, and afterwards the node must answer as before
func c18CfgInputs(l *lab, add func(kind, name, class string, tx []byte)) {
	GAS = 1000000
	dl := l.Rep.H + 5000
	for i, k := range cfgUpdateKeys {
		vals := append([]string{}, cfgUpdateVals...)
		if k == "feeOption.minFeeDecimal" {
			vals = append(vals, "3", "9", "12", "17", "18", "19")
		}
		for j, v := range vals {
			us := []Key{l.W.Users[(i+j)%len(l.W.Users)]}
			if j%4 == 0 {
				us = append(us, l.W.Poor[0]) // cannot pay the initial funding: refused after the update function ran
			}
			for _, u := range us {
				add("PROPOSAL_CREATE", fmt.Sprintf("cfg %s:%s by %s", k, v, u.Addr.String()[:8]), "cfgupdate",
					txPropCreateCfg(u, fmt.Sprintf("c18cfg_%d_%d_%s", i, j, u.Addr.String()[:6]), k+":"+v, oltAmt("1000000000"), dl, l.memo()))
			}
		}
	}
}

// worker: run the given inputs one by one; after each, a probe transaction must still succeed
func c18Run(ins []c18Input, mode string) int {
	rc := 0
	for _, world := range []string{"", "eth"} {
		sel := []c18Input{}
		for _, in := range ins {
			if in.World == world {
				sel = append(sel, in)
			}
		}
		if len(sel) > 0 && rc == 0 {
			rc = c18RunWorld(sel, mode, world)
		}
	}
	return rc
}

func c18RunWorld(ins []c18Input, mode string, world string) int {
	var rep *Replica
	var from, to Key
	if world == "eth" {
		e := newC18Eth()
		rep, from, to = e.w.rep, e.w.idKey[3], e.w.idKey[4]
	} else {
		l := newLab(0)
		rep, from, to = l.Rep, l.W.Users[4], l.W.Users[3]
	}
	l := struct{ Rep *Replica }{rep}
	probeN := 0
	// probe: "true" = the node serves as before; "false" = it no longer executes blocks; "changed" = it runs, but
	// answers the same ordinary transactions differently than before the input
	probe := func() string {
		probeN++
		tx := txSend(from, to.Addr, oltAmt("1000"), fmt.Sprintf("probe%d", probeN))
		cgood := l.Rep.CheckTx(tx)
		// a payment priced below the configured minimal fee must still be refused by the mempool check
		probeN++
		low := signRaw(action.RawTx{Type: action.SEND, Data: decodeSigned(tx).Data, Memo: fmt.Sprintf("probe%d", probeN),
			Fee: action.Fee{Price: action.Amount{Currency: "OLT", Value: *amt("999999999")}, Gas: GAS}}, from)
		clow := l.Rep.CheckTx(low)
		res := l.Rep.RunBlock(&BlockIn{Txs: [][]byte{tx}, Absent: map[int]bool{}})
		if h, _ := l.Rep.Info(); h != l.Rep.H || len(res.Txs) != 1 {
			return "false"
		}
		if cgood.Code != 0 || clow.Code == 0 {
			return "changed"
		}
		if res.Txs[0].Code != 0 {
			return "false"
		}
		return "true"
	}
	if probe() != "true" {
		say("PROBE-BROKEN\n")
		return 3
	}
	for _, in := range ins {
		tx, _ := hex.DecodeString(in.Tx)
		say("START %d\n", in.ID)
		cc, dc := uint32(9999), uint32(9999)
		if mode != "deliver" {
			cc = l.Rep.CheckTx(tx).Code
		}
		say("CHECKED %d\n", in.ID)
		if mode != "check" {
			res := l.Rep.RunBlock(&BlockIn{Txs: [][]byte{tx}, Absent: map[int]bool{}})
			if len(res.Txs) == 1 {
				dc = res.Txs[0].Code
			}
		}
		ok := probe()
		say("RESULT %d check=%d deliver=%d probe=%s\n", in.ID, cc, dc, ok)
		if ok != "true" {
			return 4 // the application no longer serves: the parent restarts a worker for the rest
		}
	}
	return 0
}

// c18History: sequences matter too — a node may stop at a block hook long after the transactions that
// prepared it were answered normally.  Runs a directed scenario or a random history block by block and
// reports progress; the parent watches for a dead or silent worker.
func c18History(name string) int {
	w := NewWorld(3, 5, 2)
	var h *History
	gen := "default"
	// "<history>@gas=<n>": the same history on a chain whose consensus parameters limit the gas of a block
	maxGas := int64(0)
	if i := strings.Index(name, "@gas="); i >= 0 {
		fmt.Sscanf(name[i+len("@gas="):], "%d", &maxGas)
		name = name[:i]
	}
	if strings.HasPrefix(name, "random:") {
		var seed int64
		fmt.Sscanf(name[len("random:"):], "%d", &seed)
		h = genHistory(rand.New(rand.NewSource(seed)), w, 30, 6)
	} else if strings.HasPrefix(name, "cfg:") {
		h = cfgHistory(w, name[len("cfg:"):])
	} else {
		h = scenarioHistory(name, w)
		gen = scenarioGenesis(name)
	}
	gspec := genesisVariant(w, gen)
	gspec.MaxGas = maxGas
	rep := NewReplica(gspec, ReplicaOpts{NodeVal: w.Vals[0].Val})
	rep.InitChain()
	say("HSTART %s %d\n", name, len(h.Blocks))
	for i := range h.Blocks {
		say("HBLOCK %d\n", i+1)
		for _, tx := range h.Blocks[i].Txs {
			rep.CheckTx(tx)
		}
		rep.RunBlock(&h.Blocks[i])
		hh, _ := rep.Info()
		if hh != rep.H {
			say("HSTOPPED %d\n", i+1)
			return 4
		}
	}
	say("HDONE %s\n", name)
	return 0
}

// cfgHistory: a configuration-update proposal "key:value" taken as far as the application lets it go — created,
// funded, voted by every validator, finalised by the block hooks — followed by ordinary transactions of the
// subsystems the options govern.  A hostile value that the validation lets through must not stop the node later
// (a price of zero that a handler divides by, a count that sizes a slice, a deadline in the past).
func cfgHistory(w *World, update string) *History {
	s := &scBuilder{h: &History{Name: "cfg:" + update}}
	GAS = 1000000
	u0, u1, u2, u3 := w.Users[0], w.Users[1], w.Users[2], w.Users[3]
	price := oltAmt("1002000000000000000000")
	s.empty(2)
	s.block([][]byte{
		txPropCreateCfg(u0, "c18cfg", update, oltAmt("1000000000"), 10, s.memo()),
		txDomainCreate(u1, "c18a.ol", price, s.memo()), txDomainCreate(u1, "c18s.ol", price, s.memo()),
	}, "prop create cfg", "domain create", "domain create")
	s.block([][]byte{txPropFund(u1, "c18cfg", oltAmt("9000000000"), s.memo()),
		txDomainSell(u1, "c18s.ol", oltAmt("5000000000000000000"), false, s.memo())}, "prop fund", "domain sell")
	txs := [][]byte{}
	for _, v := range w.Vals {
		txs = append(txs, txPropVote(v, "c18cfg", governance.OPIN_POSITIVE, s.memo()))
	}
	s.block(txs, "prop vote")
	s.empty(3)
	for round := 0; round < 2; round++ {
		s.block([][]byte{
			txDomainCreate(u2, fmt.Sprintf("c18b%d.ol", round), price, s.memo()),
			txDomainRenew(u1, "c18a.ol", oltAmt("100000000000000000"), s.memo()),
			txDomainPurchase(u2, "c18s.ol", oltAmt("5000000000000000000"), s.memo()),
			txDomainCreate(u1, fmt.Sprintf("x%d.c18a.ol", round), price, s.memo()),
			txSend(u0, u1.Addr, oltAmt("1000000000000"), s.memo()),
			txPropCreate(u3, fmt.Sprintf("c18after%d", round), governance.ProposalTypeGeneral, oltAmt("1000000000"), 40, 0, s.memo()),
			txPropCreateCfg(u3, fmt.Sprintf("c18aftercfg%d", round), "feeOption.minFeeDecimal:9", oltAmt("1000000000"), 40, s.memo()),
			txStake(w.Extra[0], oltAmt("2000000"), s.memo()),
			txUnstake(w.Vals[1], oltAmt("1000"), s.memo()),
			txDelegate(u0, oltAmt("250000000000000000"), s.memo()),
			txUndelegate(u0, oltAmt("1000000000"), s.memo()),
			txAllegation(w.Vals[0], fmt.Sprintf("c18al%d", round), w.Vals[2].Val.Addr, 6, s.memo()),
			txBidCreate(u3, u1.Addr, "c18a.ol", bidOns, oltAmt("3000000000000000000"), bidFar, s.memo()),
		}, "domain create", "domain renew", "domain purchase", "domain create sub", "send", "prop create", "prop create cfg", "stake", "unstake", "delegate", "undelegate", "allegation", "bidcreate")
		s.empty(2)
	}
	return s.h
}

func c18Main(args []string) int {
	fs := flag.NewFlagSet("c18", flag.ExitOnError)
	seed := fs.Int64("seed", 1, "seed")
	gen := fs.String("gen", "", "write the generated inputs to this file")
	run := fs.String("run", "", "inputs file to run from")
	ids := fs.String("ids", "", "comma separated ids to run (worker mode)")
	mode := fs.String("mode", "both", "check|deliver|both")
	hist := fs.String("history", "", "run a whole history in this process and report block by block: a scenario name, or random:<seed>")
	fs.Parse(args)
	if *hist != "" {
		return c18History(*hist)
	}
	if *gen != "" {
		ins := c18Generate(*seed)
		bz, _ := json.Marshal(ins)
		must(os.WriteFile(*gen, bz, 0644))
		say("c18: %d inputs\n", len(ins))
		return 0
	}
	bz, err := os.ReadFile(*run)
	must(err)
	var all []c18Input
	must(json.Unmarshal(bz, &all))
	want := map[string]bool{}
	for _, s := range strings.Split(*ids, ",") {
		want[s] = true
	}
	sel := []c18Input{}
	for _, in := range all {
		if *ids == "" || want[fmt.Sprint(in.ID)] {
			sel = append(sel, in)
		}
	}
	return c18Run(sel, *mode)
}
