package main

import (
	"flag"
	"math/rand"
	"sort"
)

func init() { subcmds["dumpkeys"] = dumpKeysMain }

// dumpkeys: run a generated history and print the committed tree (for decoder development)
func dumpKeysMain(args []string) int {
	fs := flag.NewFlagSet("dumpkeys", flag.ExitOnError)
	seed := fs.Int64("seed", 1, "seed")
	nb := fs.Int("blocks", 30, "blocks")
	gname := fs.String("genesis", "default", "genesis variant")
	fs.Parse(args)
	r := rand.New(rand.NewSource(*seed))
	w := NewWorld(3, 5, 2)
	h := genHistory(r, w, *nb, 6)
	rep := NewReplica(genesisVariant(w, *gname), ReplicaOpts{NodeVal: w.Vals[0].Val})
	defer rep.Close()
	rep.InitChain()
	for i := range h.Blocks {
		rep.RunBlock(&h.Blocks[i])
	}
	d := rep.Dump()
	ks := sortedKeys(d)
	sort.Strings(ks)
	for _, k := range ks {
		v := d[k]
		if len(v) > 300 {
			v = v[:300] + "..."
		}
		say("%q = %q\n", k, v)
	}
	return 0
}
