package main

// C20: domain-name histories on the REAL application (Replica), observed after every
// transaction; the traces are re-evaluated by coq/theories/Ons.v (OnsCheck.v).

import (
	"encoding/json"
	"flag"
	"fmt"
	"math/big"
	"math/rand"
	"os"
	"sort"
	"strings"

	"github.com/Oneledger/protocol/action"
	govact "github.com/Oneledger/protocol/action/governance"
	onsact "github.com/Oneledger/protocol/action/ons"
	"github.com/Oneledger/protocol/consensus"
	"github.com/Oneledger/protocol/data/balance"
	"github.com/Oneledger/protocol/data/fees"
	"github.com/Oneledger/protocol/data/governance"
	"github.com/Oneledger/protocol/data/keys"
	"github.com/Oneledger/protocol/data/ons"
	"github.com/Oneledger/protocol/serialize"
)

func init() { subcmds["c20"] = c20Main }

// ---- scenario description (JSON: replay files, corpus) ----

type c20Op struct {
	// ONS kinds: create update sell purchase send renew deletesub.
	// Auxiliary kinds (outside the ONS model; Name = proposal id): gov_propose (Uri = config update
	// "onsOptions.perBlockFees:<n>"), gov_fund (Amount), gov_vote (Signer = validator index),
	// check_finalize / check_propose (CheckTx only: the transaction only reaches the mempool)
	Kind   string `json:"kind"`
	Signer int    `json:"signer"`
	Benef  int    `json:"benef"` // -1 = empty address
	Name   string `json:"name"`
	Active bool   `json:"active,omitempty"`
	Uri    string `json:"uri,omitempty"`
	Amount string `json:"amount,omitempty"`
	Cancel bool   `json:"cancel,omitempty"`
	// inputs that only Validate looks at (DeliverTx runs Validate since /repo d276709)
	SignBy    int    `json:"signby,omitempty"`    // k>0: signed by actor k-1 although the message names Signer
	Cur       string `json:"cur,omitempty"`       // amount currency, "" = OLT
	BenefNull bool   `json:"benefnull,omitempty"` // beneficiary/account field is JSON null (nil address)
}

// c20StaticOk: the part of Validate the model takes as an input — signer set and currency
func c20StaticOk(o *c20Op) bool {
	if o.SignBy > 0 && o.SignBy-1 != o.Signer {
		return false
	}
	return o.Cur == "" || o.Cur == "OLT"
}

type c20Scenario struct {
	Label    string    `json:"label"`
	PerBlock string    `json:"perblock"`
	Base     string    `json:"base"`
	Blocks   [][]c20Op `json:"blocks"` // an empty block = a block without transactions
}

// ---- observations ----

type c20Dom struct {
	Name    string `json:"name"`
	Owner   int    `json:"owner"`
	Benef   int    `json:"benef"`
	Created int64  `json:"created"`
	Updated int64  `json:"updated"`
	Expiry  int64  `json:"expiry"`
	Active  bool   `json:"active"`
	OnSale  bool   `json:"onsale"`
	Price   string `json:"price"` // "" = nil
	Uri     string `json:"uri"`
}

type c20Obs struct {
	Reg  []c20Dom `json:"reg"`
	Bal  []string `json:"bal"`  // per actor
	Pool string   `json:"pool"` // absolute fee pool
}

type c20Step struct {
	End   bool    `json:"end,omitempty"`
	Aux   bool    `json:"aux,omitempty"`  // auxiliary transaction (not an ONS message)
	Opts  []string `json:"opts,omitempty"` // the persisted ONS options changed to [perBlockFees, baseDomainPrice]
	Op    *c20Op  `json:"op,omitempty"`
	H     int64   `json:"h,omitempty"`
	V     int64   `json:"v,omitempty"`
	Ok    bool    `json:"ok,omitempty"`
	Fee   string  `json:"fee,omitempty"`
	Log   string  `json:"log,omitempty"`
	Obs   c20Obs  `json:"obs"`
}

type c20Trace struct {
	Scenario c20Scenario `json:"scenario"`
	Init     c20Obs      `json:"init"`
	Steps    []c20Step   `json:"steps"`
}

const c20NActors = 6 // 5 funded users + 1 poor account

func c20Actors() []Key {
	ks := []Key{}
	for i := 0; i < 5; i++ {
		ks = append(ks, seedKey(byte(60+i)))
	}
	ks = append(ks, seedKey(byte(130)))
	return ks
}

func c20Genesis(sc *c20Scenario, actors []Key) *GenesisSpec {
	w := NewWorld(2, 0, 0)
	g := &GenesisSpec{Vals: w.Vals, Fork: 1}
	for _, v := range w.Vals {
		g.Funded = append(g.Funded, v.Stake.Addr)
	}
	for i := 0; i < 5; i++ {
		g.Funded = append(g.Funded, actors[i].Addr)
	}
	g.Poor = []Key{actors[5]}
	g.Funded = append(g.Funded, c20GovKey().Addr)
	pb, base := sc.PerBlock, sc.Base
	g.Customize = func(st *consensus.AppState) {
		st.Governance.ONSOptions.PerBlockFees = *amt(pb)
		st.Governance.ONSOptions.BaseDomainPrice = *amt(base)
		// proposal options in the range ValidateProposal demands, so that config updates validate
		d := governance.ProposalFundDistribution{Validators: 18, FeePool: 18, Burn: 18, ExecutionCost: 18, BountyPool: 10, ProposerReward: 18}
		mk := func(fdl, vdl int64, pass int) governance.ProposalOption {
			return governance.ProposalOption{InitialFunding: amt("1000000000"), FundingGoal: amt("10000000000"), FundingDeadline: fdl, VotingDeadline: vdl,
				PassPercentage: pass, PassedFundDistribution: d, FailedFundDistribution: d, ProposalExecutionCost: "executionCost"}
		}
		st.Governance.PropOptions = governance.ProposalOptionSet{ConfigUpdate: mk(10000, 10000, 51), CodeChange: mk(10000, 150000, 60), General: mk(75000, 75000, 67), BountyProgramAddr: "oneledgerBountyProgram"}
	}
	return g
}

func c20Addr(actors []Key, i int) keys.Address {
	if i < 0 || i >= len(actors) {
		return nil
	}
	return actors[i].Addr
}

func c20BuildTx(actors []Key, o *c20Op, memo string) []byte {
	u := actors[o.Signer]
	cur := "OLT"
	if o.Cur != "" {
		cur = o.Cur
	}
	a := curAmt(cur, "0")
	if o.Amount != "" {
		a = curAmt(cur, o.Amount)
	}
	var typ action.Type
	var m marshaler
	switch o.Kind {
	case "create":
		typ, m = action.DOMAIN_CREATE, onsact.DomainCreate{Owner: u.Addr, Beneficiary: c20Addr(actors, o.Benef), Name: ons.Name(o.Name), Uri: o.Uri, BuyingPrice: a}
	case "update":
		typ, m = action.DOMAIN_UPDATE, onsact.DomainUpdate{Owner: u.Addr, Beneficiary: c20Addr(actors, o.Benef), Name: ons.Name(o.Name), Active: o.Active, Uri: o.Uri}
	case "sell":
		typ, m = action.DOMAIN_SELL, onsact.DomainSale{Name: ons.Name(o.Name), OwnerAddress: u.Addr, Price: a, CancelSale: o.Cancel}
	case "purchase":
		typ, m = action.DOMAIN_PURCHASE, onsact.DomainPurchase{Name: ons.Name(o.Name), Buyer: u.Addr, Account: c20Addr(actors, o.Benef), Offering: a}
	case "send":
		typ, m = action.DOMAIN_SEND, onsact.DomainSend{From: u.Addr, Name: ons.Name(o.Name), Amount: a}
	case "renew":
		typ, m = action.DOMAIN_RENEW, onsact.RenewDomain{Owner: u.Addr, Name: ons.Name(o.Name), BuyingPrice: a}
	case "deletesub":
		typ, m = action.DOMAIN_DELETE_SUB, onsact.DeleteSub{Name: ons.Name(o.Name), Owner: u.Addr}
	default:
		panic("c20: unknown op kind " + o.Kind)
	}
	data, err := m.Marshal()
	must(err)
	if o.BenefNull {
		// a nil address travels as JSON null (an empty one as "0lt")
		data = []byte(strings.Replace(strings.Replace(string(data), `"beneficiary":"0lt"`, `"beneficiary":null`, 1), `"account":"0lt"`, `"account":null`, 1))
	}
	key := u
	if o.SignBy > 0 {
		key = actors[o.SignBy-1]
	}
	return signTx(typ, data, GAS, memo, key)
}

func c20AddrIndex(actors []Key, a keys.Address) int {
	if len(a) == 0 {
		return -1
	}
	for i, k := range actors {
		if k.Addr.Equal(a) {
			return i
		}
	}
	return 999
}

// c20Observe decodes the deliver state (committed tree + this block's writes): d_ records,
// the actors' OLT balances, the fee pool.
func c20Observe(view map[string]string, actors []Key) c20Obs {
	szlr := serialize.GetSerializer(serialize.PERSISTENT)
	ob := c20Obs{Reg: []c20Dom{}}
	for k, v := range view {
		if !strings.HasPrefix(k, "d_") {
			continue
		}
		d := &ons.Domain{}
		if err := szlr.Deserialize([]byte(v), d); err != nil {
			ob.Reg = append(ob.Reg, c20Dom{Name: "UNDECODABLE:" + k})
			continue
		}
		cd := c20Dom{Name: d.Name.String(), Owner: c20AddrIndex(actors, d.Owner), Benef: c20AddrIndex(actors, d.Beneficiary),
			Created: d.CreationHeight, Updated: d.LastUpdateHeight, Expiry: d.ExpireHeight, Active: d.ActiveFlag, OnSale: d.OnSaleFlag, Uri: d.URI}
		if d.SalePrice != nil {
			cd.Price = d.SalePrice.BigInt().String()
		}
		// the key must be the reversed name: at most one record per name
		if k != "d_"+c20Reverse(cd.Name) {
			cd.Name = "KEYMISMATCH:" + k + ":" + cd.Name
		}
		ob.Reg = append(ob.Reg, cd)
	}
	sort.Slice(ob.Reg, func(i, j int) bool { return ob.Reg[i].Name < ob.Reg[j].Name })
	for _, a := range actors {
		ob.Bal = append(ob.Bal, c20Amount(view["b_"+a.Addr.String()+"_OLT"]))
	}
	ob.Pool = c20Amount(view["f_"+fees.POOL_KEY])
	return ob
}

func c20Reverse(s string) string {
	b := []byte(s)
	for i, j := 0, len(b)-1; i < j; i, j = i+1, j-1 {
		b[i], b[j] = b[j], b[i]
	}
	return string(b)
}

func c20Amount(v string) string {
	if v == "" {
		return "0"
	}
	a := balance.NewAmount(0)
	if err := serialize.GetSerializer(serialize.PERSISTENT).Deserialize([]byte(v), a); err != nil {
		return "-1"
	}
	return a.BigInt().String()
}

func c20GovKey() Key { return seedKey(70) }

func c20IsAux(kind string) bool {
	return strings.HasPrefix(kind, "gov_") || strings.HasPrefix(kind, "check_")
}

// c20Runner drives one replica and records the trace.
type c20Runner struct {
	rep    *Replica
	actors []Key
	vals   []ValSpec
	tr     *c20Trace
	n      int
	opts   [2]string
	h, v   int64
}

func c20NewRunner(sc *c20Scenario) *c20Runner {
	actors := c20Actors()
	g := c20Genesis(sc, actors)
	rn := &c20Runner{actors: actors, vals: g.Vals, tr: &c20Trace{}}
	rn.rep = NewReplica(g, ReplicaOpts{NodeVal: seedKey(10)})
	rn.rep.InitChain()
	// one empty block first so that genesis writes are committed and observed
	rn.rep.RunBlock(&BlockIn{})
	rn.tr.Init = c20Observe(rn.rep.View(), actors)
	rn.opts = [2]string{sc.PerBlock, sc.Base}
	rn.syncOpts()
	return rn
}

// persisted ONS options of the DELIVER state's governance store (what every handler must price with)
func (rn *c20Runner) syncOpts() {
	o, err := governance.NewStore("g", rn.rep.A.VerifDeliver()).GetONSOptions()
	must(err)
	cur := [2]string{o.PerBlockFees.BigInt().String(), o.BaseDomainPrice.BigInt().String()}
	if cur != rn.opts {
		rn.opts = cur
		rn.tr.Steps = append(rn.tr.Steps, c20Step{Opts: []string{cur[0], cur[1]}})
	}
}

func (rn *c20Runner) begin() {
	rn.rep.BeginBlock(&BlockIn{})
	rn.h = rn.rep.H
	rn.v = rn.rep.A.VerifChainState().Version
	rn.syncOpts()
}

func (rn *c20Runner) end() {
	rn.rep.EndBlock()
	rn.rep.Commit()
	rn.tr.Steps = append(rn.tr.Steps, c20Step{End: true, Obs: c20Observe(rn.rep.View(), rn.actors)})
	rn.syncOpts()
}

func (rn *c20Runner) auxTx(o *c20Op, memo string) []byte {
	gk := c20GovKey()
	switch o.Kind {
	case "gov_propose", "check_propose":
		return mkTx(action.PROPOSAL_CREATE, govact.CreateProposal{ProposalID: propID(o.Name), ProposalType: governance.ProposalTypeConfigUpdate, Headline: "h", Description: "d " + o.Name,
			Proposer: gk.Addr, InitialFunding: oltAmt("1000000000"), FundingDeadline: 200, FundingGoal: amt("10000000000"), VotingDeadline: 10200, PassPercentage: 51, ConfigUpdate: o.Uri}, GAS, memo, gk)
	case "gov_fund":
		return txPropFund(gk, o.Name, oltAmt(o.Amount), memo)
	case "gov_vote":
		return txPropVote(rn.vals[o.Signer%len(rn.vals)], o.Name, governance.OPIN_POSITIVE, memo)
	case "check_finalize":
		return mkTx(action.PROPOSAL_FINALIZE, govact.FinalizeProposal{ProposalID: propID(o.Name), ValidatorAddress: gk.Addr}, GAS, memo, gk)
	}
	panic("c20: unknown auxiliary kind " + o.Kind)
}

// exec runs one operation inside the current block and records it with the state observed after it.
func (rn *c20Runner) exec(o c20Op) *c20Step {
	rn.n++
	memo := fmt.Sprintf("m%d", rn.n)
	price := big.NewInt(1000000000)
	op := o
	if c20IsAux(o.Kind) {
		tx := rn.auxTx(&op, memo)
		st := c20Step{Aux: true, Op: &op, H: rn.h, V: rn.v}
		if strings.HasPrefix(o.Kind, "check_") {
			res := rn.rep.CheckTx(tx)
			st.Ok, st.Log = res.Code == 0, res.Log
		} else {
			res := rn.rep.DeliverTx(tx)
			st.Ok, st.Log = res.Code == 0, res.Log
		}
		if len(st.Log) > 100 {
			st.Log = st.Log[:100]
		}
		st.Obs = c20Observe(rn.rep.View(), rn.actors)
		rn.tr.Steps = append(rn.tr.Steps, st)
		rn.syncOpts()
		return &rn.tr.Steps[len(rn.tr.Steps)-1]
	}
	rn.syncOpts()
	res := rn.rep.DeliverTx(c20BuildTx(rn.actors, &op, memo))
	st := c20Step{Op: &op, H: rn.h, V: rn.v, Ok: res.Code == 0}
	if st.Ok {
		st.Fee = new(big.Int).Mul(price, big.NewInt(res.GasUsed)).String()
	} else {
		// the fee of a failed transaction is unknown; the model gets the upper bound gas limit x price
		st.Fee = new(big.Int).Mul(price, big.NewInt(GAS)).String()
		st.Log = res.Log
		if len(st.Log) > 100 {
			st.Log = st.Log[:100]
		}
	}
	st.Obs = c20Observe(rn.rep.View(), rn.actors)
	rn.tr.Steps = append(rn.tr.Steps, st)
	return &rn.tr.Steps[len(rn.tr.Steps)-1]
}

// c20Run executes a scenario on a fresh replica.
func c20Run(sc *c20Scenario) *c20Trace {
	rn := c20NewRunner(sc)
	defer rn.rep.Close()
	for _, blk := range sc.Blocks {
		rn.begin()
		for i := range blk {
			rn.exec(blk[i])
		}
		rn.end()
	}
	rn.tr.Scenario = *sc
	return rn.tr
}

// ---- Coq output ----

func c20Z(s string) string {
	if s == "" {
		s = "0"
	}
	return "(" + s + ")"
}

func c20Name(s string) string {
	parts := strings.Split(s, ".")
	q := make([]string, len(parts))
	for i, p := range parts {
		// Coq string literal: raw bytes, only the double quote is escaped (by doubling)
		q[i] = "\"" + strings.ReplaceAll(p, "\"", "\"\"") + "\""
	}
	return "[" + strings.Join(q, "; ") + "]"
}

func c20OptAddr(i int) string {
	if i < 0 {
		return "None"
	}
	return fmt.Sprintf("(Some %d%%N)", i)
}

func c20Bool(b bool) string {
	if b {
		return "true"
	}
	return "false"
}

func c20UriOk(u string) bool {
	o := &ons.Options{}
	return o.IsValidURI(u)
}

func c20CoqOp(o *c20Op) string {
	s := fmt.Sprintf("%d%%N", o.Signer)
	switch o.Kind {
	case "create":
		return fmt.Sprintf("Create %s %s %s %s %q %s", s, c20OptAddr(o.Benef), c20Name(o.Name), c20Bool(c20UriOk(o.Uri)), o.Uri, c20Z(o.Amount))
	case "update":
		return fmt.Sprintf("Update %s %s %s %s %s %q", s, c20OptAddr(o.Benef), c20Name(o.Name), c20Bool(o.Active), c20Bool(c20UriOk(o.Uri)), o.Uri)
	case "sell":
		return fmt.Sprintf("Sell %s %s %s %s", s, c20Name(o.Name), c20Z(o.Amount), c20Bool(o.Cancel))
	case "purchase":
		return fmt.Sprintf("Purchase %s %s %s %s", s, c20OptAddr(o.Benef), c20Name(o.Name), c20Z(o.Amount))
	case "send":
		return fmt.Sprintf("Send %s %s %s", s, c20Name(o.Name), c20Z(o.Amount))
	case "renew":
		return fmt.Sprintf("Renew %s %s %s", s, c20Name(o.Name), c20Z(o.Amount))
	case "deletesub":
		return fmt.Sprintf("DeleteSub %s %s", s, c20Name(o.Name))
	}
	panic("kind")
}

func c20CoqObs(ob *c20Obs) string {
	var b strings.Builder
	b.WriteString("{| ob_reg := [")
	for i, d := range ob.Reg {
		if i > 0 {
			b.WriteString("; ")
		}
		pr := "None"
		if d.Price != "" {
			pr = "(Some " + c20Z(d.Price) + ")"
		}
		fmt.Fprintf(&b, "(%s, mkd %d%%N %s %d %d (%d) %s %s %s %q)", c20Name(d.Name), d.Owner, c20OptAddr(d.Benef), d.Created, d.Updated, d.Expiry,
			c20Bool(d.Active), c20Bool(d.OnSale), pr, d.Uri)
	}
	b.WriteString("]; ob_bal := [")
	for i, z := range ob.Bal {
		if i > 0 {
			b.WriteString("; ")
		}
		b.WriteString(c20Z(z))
	}
	fmt.Fprintf(&b, "]; ob_pool := %s |}", c20Z(ob.Pool))
	return b.String()
}

func c20CoqCase(tr *c20Trace) string {
	var b strings.Builder
	fmt.Fprintf(&b, "{| c_opts := {| o_perblock := %s; o_base := %s; o_tlds := [\"ol\"] |};\n   c_init := %s;\n   c_steps := [\n", c20Z(tr.Scenario.PerBlock), c20Z(tr.Scenario.Base), c20CoqObs(&tr.Init))
	for i, st := range tr.Steps {
		if i > 0 {
			b.WriteString(";\n")
		}
		if st.End {
			fmt.Fprintf(&b, "    SEnd %s", c20CoqObs(&st.Obs))
		} else if st.Opts != nil {
			fmt.Fprintf(&b, "    SOpts %s %s", c20Z(st.Opts[0]), c20Z(st.Opts[1]))
		} else if st.Aux {
			fmt.Fprintf(&b, "    SAux %s", c20CoqObs(&st.Obs))
		} else {
			fee := "(Some " + c20Z(st.Fee) + ")"
			fmt.Fprintf(&b, "    STx (%s) %d %d %s %s %s %s %s", c20CoqOp(st.Op), st.H, st.V, fee, c20Bool(c20StaticOk(st.Op)), c20Bool(st.Op.BenefNull), c20Bool(st.Ok), c20CoqObs(&st.Obs))
		}
	}
	b.WriteString("] |}")
	return b.String()
}

// ---- generation ----

var c20Names = []string{"n.ol", "nn.ol", "xn.ol", "nx.ol", "a.n.ol", "b.n.ol", "a.nn.ol", "a.xn.ol", "c.a.n.ol", "m.ol", "a.m.ol", "an.ol"}
var c20BadNames = []string{"n.xx", "ol", "a..ol", "n_.ol", "x.n.zz"}

type c20View struct {
	reg map[string]c20Dom
}

func c20Mul(a string, k int64) string {
	x, _ := new(big.Int).SetString(a, 10)
	return new(big.Int).Mul(x, big.NewInt(k)).String()
}
func c20Add(a, b string) string {
	x, _ := new(big.Int).SetString(a, 10)
	y, _ := new(big.Int).SetString(b, 10)
	return new(big.Int).Add(x, y).String()
}

// c20GenOp draws one operation, biased by the current registry (as last observed) so that a good
// share of operations passes the existence/ownership/expiry gates and the rest are strangers'.
// c20CaseVariant changes the letter case of one label (never the TLD's: "OL" is another,
// not allowed, first-level domain) — a DIFFERENT name for the case-sensitive registry
func c20CaseVariant(r *rand.Rand, name string) string {
	parts := strings.Split(name, ".")
	if len(parts) < 2 {
		return strings.ToUpper(name)
	}
	i := r.Intn(len(parts) - 1)
	if parts[i] == "" {
		return strings.ToUpper(name[:1]) + name[1:]
	}
	switch r.Intn(3) {
	case 0:
		parts[i] = strings.ToUpper(parts[i])
	case 1:
		parts[i] = strings.ToUpper(parts[i][:1]) + parts[i][1:]
	default:
		parts[i] = parts[i][:len(parts[i])-1] + strings.ToUpper(parts[i][len(parts[i])-1:])
	}
	return strings.Join(parts, ".")
}

// c20NearMiss: names one keystroke away from a registered one; all but the first are refused by IsValid /
// IsNameAllowed (they belong in the refused stream)
func c20NearMiss(r *rand.Rand, name string) string {
	switch r.Intn(7) {
	case 0:
		return c20CaseVariant(r, name)
	case 1:
		return name + "."
	case 2:
		return strings.Replace(name, ".", "..", 1)
	case 3:
		return " " + name
	case 4:
		return name + " "
	case 5:
		return strings.Replace(name, "o", "\u043e", 1) // cyrillic o
	default:
		i := strings.LastIndex(name, ".")
		if i < 0 {
			return strings.ToUpper(name)
		}
		return name[:i] + strings.ToUpper(name[i:])
	}
}

func c20GenOp(r *rand.Rand, sc *c20Scenario, reg map[string]c20Dom, h int64) c20Op {
	o := c20GenOp0(r, sc, reg, h)
	// address a registered name (or the name about to be used) by a case variant / near-miss:
	// the registry is keyed by the exact string of the transaction
	if k := r.Intn(100); k < 12 {
		base := o.Name
		if len(reg) > 0 && r.Intn(3) != 0 {
			ns := []string{}
			for n := range reg {
				ns = append(ns, n)
			}
			sort.Strings(ns)
			base = ns[r.Intn(len(ns))]
			if o.Kind == "create" && r.Intn(2) == 0 && strings.Count(base, ".") == 1 {
				base = []string{"a.", "pay."}[r.Intn(2)] + base
			}
		}
		if k < 8 {
			o.Name = c20CaseVariant(r, base)
		} else {
			o.Name = c20NearMiss(r, base)
		}
		if o.Kind == "create" && r.Intn(2) == 0 {
			o.Signer = r.Intn(c20NActors) // a stranger's self-signed create
		}
	}
	// inputs only Validate rejects: foreign signature, foreign / unknown currency, nil beneficiary
	switch r.Intn(40) {
	case 0:
		o.SignBy = 1 + r.Intn(c20NActors)
	case 1:
		if o.Kind == "create" || o.Kind == "sell" || o.Kind == "purchase" || o.Kind == "renew" {
			o.Cur = []string{"ETH", "XYZ"}[r.Intn(2)]
		}
	case 2, 3:
		if o.Benef < 0 && (o.Kind == "create" || o.Kind == "update" || o.Kind == "purchase") {
			o.BenefNull = true
		}
	}
	return o
}

func c20GenOp0(r *rand.Rand, sc *c20Scenario, reg map[string]c20Dom, h int64) c20Op {
	name := c20Names[r.Intn(len(c20Names))]
	if r.Intn(25) == 0 {
		name = c20BadNames[r.Intn(len(c20BadNames))]
	}
	existing := []string{}
	for n := range reg {
		existing = append(existing, n)
	}
	sort.Strings(existing)
	pickExisting := func() {
		if len(existing) > 0 && r.Intn(5) != 0 {
			name = existing[r.Intn(len(existing))]
		}
	}
	signerFor := func(n string) int {
		d, ok := reg[n]
		if !ok {
			// sub-name: the parent's owner most of the time
			parts := strings.Split(n, ".")
			if len(parts) >= 3 {
				if p, ok := reg[strings.Join(parts[len(parts)-2:], ".")]; ok && r.Intn(4) != 0 && p.Owner < c20NActors {
					return p.Owner
				}
			}
			return r.Intn(c20NActors)
		}
		if r.Intn(10) < 7 && d.Owner >= 0 && d.Owner < c20NActors {
			return d.Owner
		}
		return r.Intn(c20NActors)
	}
	benef := func() int {
		if r.Intn(6) == 0 {
			return -1
		}
		return r.Intn(c20NActors)
	}
	uri := func() string {
		switch r.Intn(6) {
		case 0:
			return ""
		case 1:
			return "gopher://x"
		case 2:
			return "ipfs://abc"
		}
		return "http://x.y"
	}
	blocksPrice := func(basis string) string {
		// basis + k*perblock + junk
		k := int64(r.Intn(7))
		if r.Intn(8) == 0 {
			k = int64(20 + r.Intn(40))
		}
		p := c20Add(basis, c20Mul(sc.PerBlock, k))
		switch r.Intn(4) {
		case 0:
			p = c20Add(p, "1")
		case 1:
			p = c20Add(p, "-1")
		}
		return p
	}
	w := r.Intn(100)
	switch {
	case w < 24:
		if r.Intn(3) == 0 {
			// a sub-name of an existing name
			tops := []string{}
			for _, n := range existing {
				if strings.Count(n, ".") == 1 {
					tops = append(tops, n)
				}
			}
			if len(tops) > 0 {
				name = []string{"a.", "b.", "c.a.", "api.", "pay.", "www."}[r.Intn(6)] + tops[r.Intn(len(tops))]
			}
		}
		return c20Op{Kind: "create", Signer: signerFor(name), Benef: benef(), Name: name, Uri: uri(), Amount: blocksPrice(sc.Base)}
	case w < 40:
		pickExisting()
		return c20Op{Kind: "update", Signer: signerFor(name), Benef: benef(), Name: name, Active: r.Intn(3) != 0, Uri: uri()}
	case w < 55:
		pickExisting()
		return c20Op{Kind: "sell", Signer: signerFor(name), Benef: -1, Name: name, Amount: blocksPrice(c20Mul(sc.PerBlock, int64(r.Intn(4)))), Cancel: r.Intn(4) == 0}
	case w < 72:
		pickExisting()
		offer := blocksPrice(sc.Base)
		if d, ok := reg[name]; ok && d.OnSale && d.Price != "" && r.Intn(5) != 0 {
			offer = blocksPrice(d.Price)
		}
		return c20Op{Kind: "purchase", Signer: r.Intn(c20NActors), Benef: benef(), Name: name, Amount: offer}
	case w < 80:
		pickExisting()
		if r.Intn(2) == 0 {
			// a sub-name: it must be alive exactly as long as its parent
			subs := []string{}
			for _, n := range existing {
				if strings.Count(n, ".") >= 2 {
					subs = append(subs, n)
				}
			}
			if len(subs) > 0 {
				name = subs[r.Intn(len(subs))]
			}
		}
		a := c20Mul("1000000000000000", int64(r.Intn(50)))
		return c20Op{Kind: "send", Signer: r.Intn(c20NActors), Benef: -1, Name: name, Amount: a}
	case w < 91:
		pickExisting()
		// prefer a parent with several sub-names (each must follow the renewal)
		if r.Intn(2) == 0 {
			best, cnt := "", 1
			for _, n := range existing {
				if strings.Count(n, ".") != 1 {
					continue
				}
				c := 0
				for _, m := range existing {
					if strings.HasSuffix(m, "."+n) {
						c++
					}
				}
				if c > cnt {
					best, cnt = n, c
				}
			}
			if best != "" {
				name = best
			}
		}
		return c20Op{Kind: "renew", Signer: signerFor(name), Benef: -1, Name: name, Amount: blocksPrice("0")}
	default:
		pickExisting()
		return c20Op{Kind: "deletesub", Signer: signerFor(name), Benef: -1, Name: name}
	}
}

var c20OptionSets = [][2]string{
	{"1000000000000000000", "5000000000000000000"},       // 1 OLT per block, base 5 OLT: expiry within a few blocks
	{"1000000000000000000", "5000000000000000000"},
	{"100000000000000", "1000000000000000000000"},        // the default genesis values
	{"3", "10"},                                          // tiny prices: large block counts
	{"2000000000000000", "1000000000000000"},             // per-block fee above the base price
}

// c20GenRun generates a scenario WHILE running it (the generator looks at the observed registry).
// In about 40% of the histories a governance thread runs alongside: a config-update proposal for
// onsOptions.perBlockFees / baseDomainPrice is created, funded and voted through, its
// PROPOSAL_FINALIZE is sent to the mempool only (CheckTx) while ONS transactions keep being
// delivered before, in the same block as, and after the real (internal) finalisation.
func c20GenRun(r *rand.Rand, idx int, nblocks int) *c20Trace {
	os := c20OptionSets[r.Intn(len(c20OptionSets))]
	sc := &c20Scenario{Label: fmt.Sprintf("gen%d", idx), PerBlock: os[0], Base: os[1]}
	rn := c20NewRunner(sc)
	defer rn.rep.Close()
	reg := map[string]c20Dom{}
	govAt, govN := -1, 0
	if r.Intn(5) < 2 {
		govAt = 2 + r.Intn(6)
	}
	govID, govStage := "", 0
	for b := 0; b < nblocks; b++ {
		ntx := r.Intn(5)
		if r.Intn(4) == 0 {
			ntx = 0
		}
		rn.begin()
		blk := []c20Op{}
		run := func(o c20Op) *c20Step {
			blk = append(blk, o)
			return rn.exec(o)
		}
		// governance thread
		if govAt >= 0 && b >= govAt {
			switch govStage {
			case 0:
				govN++
				govID = fmt.Sprintf("c20g%d_%d", idx, govN)
				cur := rn.opts
				upd := ""
				two := big.NewInt(2)
				pbv, _ := new(big.Int).SetString(cur[0], 10)
				bsv, _ := new(big.Int).SetString(cur[1], 10)
				switch r.Intn(4) {
				case 0:
					upd = "onsOptions.perBlockFees:" + new(big.Int).Mul(pbv, two).String()
				case 1:
					h := new(big.Int).Div(pbv, two)
					if h.Sign() <= 0 {
						h = big.NewInt(1)
					}
					upd = "onsOptions.perBlockFees:" + h.String()
				case 2:
					upd = "onsOptions.baseDomainPrice:" + new(big.Int).Add(bsv, new(big.Int).Mul(pbv, big.NewInt(3))).String()
				default:
					upd = "onsOptions.baseDomainPrice:" + new(big.Int).Div(bsv, two).String()
				}
				run(c20Op{Kind: "gov_propose", Name: govID, Uri: upd})
			case 1:
				run(c20Op{Kind: "gov_fund", Name: govID, Amount: "9000000000"})
			case 2:
				for vi := range rn.vals {
					run(c20Op{Kind: "gov_vote", Signer: vi, Name: govID})
				}
			case 3:
				// the finalize transaction reaches the mempool only; this block's transactions are
				// delivered BEFORE the internal finalisation at the end of the block
				run(c20Op{Kind: "check_finalize", Name: govID})
				if ntx < 3 {
					ntx = 3
				}
			case 5:
				if r.Intn(2) == 0 {
					govStage = -1 // another proposal
				}
			}
			govStage++
		}
		for i := 0; i < ntx; i++ {
			st := run(c20GenOp(r, sc, reg, rn.h))
			reg = map[string]c20Dom{}
			for _, d := range st.Obs.Reg {
				reg[d.Name] = d
			}
		}
		sc.Blocks = append(sc.Blocks, blk)
		rn.end()
		// offers are generated around the prices in force
		sc.PerBlock, sc.Base = rn.opts[0], rn.opts[1]
	}
	sc.PerBlock, sc.Base = os[0], os[1]
	rn.tr.Scenario = *sc
	return rn.tr
}

// ---- directed scenarios (always run first) ----

func c20Directed() []c20Scenario {
	olt := func(n int64) string { return c20Mul("1000000000000000000", n) }
	pb, base := olt(1), olt(5)
	cr := func(s int, name string, amount string) c20Op {
		return c20Op{Kind: "create", Signer: s, Benef: s, Name: name, Uri: "http://x.y", Amount: amount}
	}
	return []c20Scenario{
		// D0: a sub-name created in the same block as the parent's purchase survives the purchase
		{Label: "uncommitted_sub_survives_purchase", PerBlock: pb, Base: base, Blocks: [][]c20Op{
			{cr(0, "n.ol", olt(100))},
			{{Kind: "sell", Signer: 0, Benef: -1, Name: "n.ol", Amount: olt(20)}},
			{cr(0, "a.n.ol", olt(6)), {Kind: "purchase", Signer: 1, Benef: 1, Name: "n.ol", Amount: olt(30)}},
			{},
			{{Kind: "update", Signer: 0, Benef: 0, Name: "a.n.ol", Active: true, Uri: "http://old.owner"}},
		}},
		// D1: the committed variant: all sub-names go, look-alike names stay
		{Label: "purchase_deletes_exactly_the_subnames", PerBlock: pb, Base: base, Blocks: [][]c20Op{
			{cr(0, "n.ol", olt(100)), cr(2, "xn.ol", olt(100)), cr(2, "nx.ol", olt(100)), cr(2, "nn.ol", olt(100)), cr(2, "an.ol", olt(100))},
			{cr(0, "a.n.ol", olt(6)), cr(0, "c.a.n.ol", olt(6)), cr(2, "a.xn.ol", olt(6)), cr(2, "a.nn.ol", olt(6)), cr(2, "n.nx.ol", olt(6))},
			{{Kind: "sell", Signer: 0, Benef: -1, Name: "n.ol", Amount: olt(20)}},
			{{Kind: "purchase", Signer: 1, Benef: -1, Name: "n.ol", Amount: olt(19)}, {Kind: "purchase", Signer: 1, Benef: -1, Name: "n.ol", Amount: olt(23)}},
			{{Kind: "deletesub", Signer: 2, Benef: -1, Name: "xn.ol"}},
		}},
		// D2: block count beyond int64 (refused since /repo bd3d183)
		{Label: "expiry_blocks_ge_2p63", PerBlock: "1", Base: "1", Blocks: [][]c20Op{
			{cr(0, "n.ol", olt(10)), cr(1, "m.ol", olt(9))},
			{},
		}},
		// D8: a sub-name expires with its parent: two parents with 3 and 2 committed sub-names each are
		// renewed by their owners; past the OLD expiry height every sub-name still receives sends
		{Label: "renew_extends_every_subname", PerBlock: pb, Base: base, Blocks: [][]c20Op{
			{cr(0, "shop.ol", olt(9)), cr(1, "store.ol", olt(9))},
			{cr(0, "www.shop.ol", olt(6)), cr(1, "b.store.ol", olt(6)), cr(0, "api.shop.ol", olt(6)), cr(1, "a.store.ol", olt(6)), cr(0, "pay.shop.ol", olt(6)), cr(0, "v2.api.shop.ol", olt(6))},
			{{Kind: "renew", Signer: 0, Benef: -1, Name: "shop.ol", Amount: olt(10)}},
			{{Kind: "renew", Signer: 1, Benef: -1, Name: "store.ol", Amount: olt(12)}, {Kind: "renew", Signer: 2, Benef: -1, Name: "shop.ol", Amount: olt(3)}},
			{}, {}, {}, {},
			{{Kind: "send", Signer: 4, Benef: -1, Name: "api.shop.ol", Amount: olt(1)}, {Kind: "send", Signer: 4, Benef: -1, Name: "pay.shop.ol", Amount: olt(1)},
				{Kind: "send", Signer: 4, Benef: -1, Name: "www.shop.ol", Amount: olt(1)}, {Kind: "send", Signer: 4, Benef: -1, Name: "v2.api.shop.ol", Amount: olt(1)},
				{Kind: "send", Signer: 4, Benef: -1, Name: "a.store.ol", Amount: olt(1)}, {Kind: "send", Signer: 4, Benef: -1, Name: "b.store.ol", Amount: olt(1)}},
			{{Kind: "renew", Signer: 0, Benef: -1, Name: "shop.ol", Amount: olt(2)}, {Kind: "update", Signer: 0, Benef: 0, Name: "shop.ol", Active: false, Uri: ""}},
			{{Kind: "send", Signer: 4, Benef: -1, Name: "pay.shop.ol", Amount: olt(1)}},
		}},
		// D11: names differing only in letter case are DIFFERENT names (exact, case-sensitive keys): a stranger's
		// "Shop.ol" / "Pay.shop.ol" never touches the owner's shop.ol / pay.shop.ol; near-miss spellings are refused
		{Label: "case_variants_are_other_names", PerBlock: pb, Base: base, Blocks: [][]c20Op{
			{cr(0, "shop.ol", olt(40)), cr(0, "n.ol", olt(40))},
			{cr(0, "pay.shop.ol", olt(6))},
			{cr(1, "Shop.ol", olt(20)), cr(1, "Pay.shop.ol", olt(6)), cr(1, "pay.SHOP.ol", olt(6)), cr(2, "shop.OL", olt(20))},
			{cr(0, "Pay.shop.ol", olt(6)), cr(1, "pay.Shop.ol", olt(6)), cr(2, "N.ol", olt(9))},
			{{Kind: "update", Signer: 1, Benef: 1, Name: "shop.ol", Active: true, Uri: "http://attacker"}, {Kind: "update", Signer: 0, Benef: 0, Name: "Shop.ol", Active: true, Uri: ""},
				{Kind: "sell", Signer: 1, Benef: -1, Name: "Shop.ol", Amount: olt(2)}, {Kind: "renew", Signer: 0, Benef: -1, Name: "sHop.ol", Amount: olt(3)}},
			{{Kind: "purchase", Signer: 3, Benef: 3, Name: "SHOP.ol", Amount: olt(3)}, {Kind: "purchase", Signer: 3, Benef: 3, Name: "shop.ol", Amount: olt(3)},
				{Kind: "purchase", Signer: 3, Benef: 3, Name: "Shop.ol", Amount: olt(3)}},
			{{Kind: "send", Signer: 4, Benef: -1, Name: "shop.ol", Amount: olt(1)}, {Kind: "send", Signer: 4, Benef: -1, Name: "Shop.ol", Amount: olt(1)},
				{Kind: "send", Signer: 4, Benef: -1, Name: "pay.shop.ol", Amount: olt(1)}, {Kind: "send", Signer: 4, Benef: -1, Name: "Pay.shop.ol", Amount: olt(1)},
				{Kind: "deletesub", Signer: 1, Benef: -1, Name: "Shop.ol"}, {Kind: "deletesub", Signer: 3, Benef: -1, Name: "Shop.ol"}},
			{cr(2, "shop.ol.", olt(20)), cr(2, "shop..ol", olt(20)), cr(2, " shop.ol", olt(20)), cr(2, "shop.ol ", olt(20)), cr(2, "sh\u043ep.ol", olt(20)),
				{Kind: "update", Signer: 0, Benef: 0, Name: "shop.ol.", Active: true, Uri: ""}, {Kind: "send", Signer: 4, Benef: -1, Name: "shop..ol", Amount: olt(1)}},
		}},
		// D10: price-option change vs the mempool: a passed onsOptions.perBlockFees proposal (1 -> 2 OLT per
		// block) whose PROPOSAL_FINALIZE has only gone through CheckTx must not change what a payment
		// buys until the finalisation is executed (end of that block); then baseDomainPrice 5 -> 8 OLT
		{Label: "price_change_reaches_mempool_first", PerBlock: pb, Base: base, Blocks: [][]c20Op{
			{cr(0, "n.ol", olt(15)), cr(1, "p.ol", olt(25))},
			{{Kind: "gov_propose", Name: "c20pb", Uri: "onsOptions.perBlockFees:" + olt(2)}, {Kind: "sell", Signer: 1, Benef: -1, Name: "p.ol", Amount: olt(3)}},
			{{Kind: "gov_fund", Name: "c20pb", Amount: "9000000000"}, {Kind: "check_propose", Name: "c20x", Uri: "onsOptions.perBlockFees:" + olt(7)}},
			{{Kind: "gov_vote", Signer: 0, Name: "c20pb"}, {Kind: "gov_vote", Signer: 1, Name: "c20pb"}},
			{{Kind: "check_finalize", Name: "c20pb"}, cr(2, "m.ol", olt(15)), {Kind: "renew", Signer: 0, Benef: -1, Name: "n.ol", Amount: olt(4)},
				{Kind: "purchase", Signer: 3, Benef: 3, Name: "p.ol", Amount: olt(9)}},
			{cr(4, "q.ol", olt(15)), {Kind: "renew", Signer: 0, Benef: -1, Name: "n.ol", Amount: olt(4)}},
			{{Kind: "gov_propose", Name: "c20base", Uri: "onsOptions.baseDomainPrice:" + olt(8)}},
			{{Kind: "gov_fund", Name: "c20base", Amount: "9000000000"}},
			{{Kind: "gov_vote", Signer: 0, Name: "c20base"}, {Kind: "gov_vote", Signer: 1, Name: "c20base"}},
			{{Kind: "check_finalize", Name: "c20base"}, cr(2, "r.ol", olt(7)), cr(3, "s.ol", olt(19))},
			{{Kind: "check_finalize", Name: "c20base"}, cr(2, "t.ol", olt(7)), cr(3, "u.ol", olt(19))},
		}},
		// D9: the known trigger region for renewals: a sub-name registered in the block of its parent's
		// renewal is left behind with the old expiry (same cause as D0)
		{Label: "uncommitted_sub_misses_renewal", PerBlock: pb, Base: base, Blocks: [][]c20Op{
			{cr(0, "n.ol", olt(100))}, {cr(0, "b.n.ol", olt(6))},
			{cr(0, "a.n.ol", olt(6)), {Kind: "renew", Signer: 0, Benef: -1, Name: "n.ol", Amount: olt(10)}},
			{},
		}},
		// D4: a listing must not outlive an expired-name purchase: sell at P, expire, B buys the expired
		// name (sub-name present), stranger C offers the old price P / more: refused
		{Label: "stale_listing_after_expired_purchase", PerBlock: pb, Base: base, Blocks: [][]c20Op{
			{cr(0, "n.ol", olt(8))}, {cr(0, "a.n.ol", olt(6))},
			{{Kind: "sell", Signer: 0, Benef: -1, Name: "n.ol", Amount: olt(2)}},
			{}, {}, {},
			{{Kind: "purchase", Signer: 1, Benef: 1, Name: "n.ol", Amount: olt(8)}},
			{{Kind: "purchase", Signer: 2, Benef: 2, Name: "n.ol", Amount: olt(2)}, {Kind: "purchase", Signer: 3, Benef: 3, Name: "n.ol", Amount: olt(4)}},
			{{Kind: "update", Signer: 1, Benef: 1, Name: "n.ol", Active: true, Uri: "http://b.owner"}},
		}},
		// D5: neighbour — the sale is cancelled before the name expires
		{Label: "cancelled_listing_then_expired_purchase", PerBlock: pb, Base: base, Blocks: [][]c20Op{
			{cr(0, "n.ol", olt(9))},
			{{Kind: "sell", Signer: 0, Benef: -1, Name: "n.ol", Amount: olt(2)}},
			{{Kind: "sell", Signer: 0, Benef: -1, Name: "n.ol", Amount: olt(2), Cancel: true}},
			{}, {}, {}, {},
			{{Kind: "purchase", Signer: 1, Benef: 1, Name: "n.ol", Amount: olt(8)}},
			{{Kind: "purchase", Signer: 2, Benef: 2, Name: "n.ol", Amount: olt(3)}},
		}},
		// D6: neighbour — renewed instead of expired: the live listing is bought once (legitimately), not twice
		{Label: "renewed_listing_bought_once", PerBlock: pb, Base: base, Blocks: [][]c20Op{
			{cr(0, "n.ol", olt(8))}, {cr(0, "a.n.ol", olt(6)), cr(0, "b.n.ol", olt(6))},
			{{Kind: "sell", Signer: 0, Benef: -1, Name: "n.ol", Amount: olt(2)}},
			{{Kind: "renew", Signer: 0, Benef: -1, Name: "n.ol", Amount: olt(6)}},
			{}, {},
			{{Kind: "purchase", Signer: 1, Benef: 1, Name: "n.ol", Amount: olt(3)}},
			{{Kind: "purchase", Signer: 2, Benef: 2, Name: "n.ol", Amount: olt(3)}},
			{{Kind: "sell", Signer: 1, Benef: -1, Name: "n.ol", Amount: olt(4)}},
			{{Kind: "purchase", Signer: 2, Benef: 2, Name: "n.ol", Amount: olt(4)}},
		}},
		// D7: what only Validate rejects: foreign signature, foreign currency, nil beneficiary on deactivation
		{Label: "validate_only_rejections", PerBlock: pb, Base: base, Blocks: [][]c20Op{
			{cr(0, "n.ol", olt(50))},
			{{Kind: "update", Signer: 0, Benef: 2, Name: "n.ol", Active: true, Uri: "", SignBy: 2}, {Kind: "sell", Signer: 0, Benef: -1, Name: "n.ol", Amount: olt(2), SignBy: 3}},
			{{Kind: "sell", Signer: 0, Benef: -1, Name: "n.ol", Amount: olt(2)}},
			{{Kind: "purchase", Signer: 1, Benef: 1, Name: "n.ol", Amount: olt(3), Cur: "ETH"}, {Kind: "renew", Signer: 0, Benef: -1, Name: "n.ol", Amount: olt(3), Cur: "XYZ"}},
			{{Kind: "update", Signer: 0, Benef: -1, Name: "n.ol", Active: false, Uri: "", BenefNull: true}, {Kind: "update", Signer: 0, Benef: -1, Name: "n.ol", Active: false, Uri: ""}},
		}},
		// D3: expiry, renewal, purchase of an expired name
		{Label: "expire_and_rebuy", PerBlock: pb, Base: base, Blocks: [][]c20Op{
			{cr(0, "n.ol", olt(8))}, {cr(0, "a.n.ol", olt(6))},
			{{Kind: "renew", Signer: 0, Benef: -1, Name: "n.ol", Amount: olt(2)}},
			{}, {}, {}, {}, {}, {},
			{{Kind: "renew", Signer: 0, Benef: -1, Name: "n.ol", Amount: olt(2)}, {Kind: "purchase", Signer: 3, Benef: 3, Name: "n.ol", Amount: olt(4)}},
			{{Kind: "purchase", Signer: 3, Benef: 3, Name: "n.ol", Amount: olt(9)}},
			{{Kind: "send", Signer: 4, Benef: -1, Name: "n.ol", Amount: olt(1)}},
		}},
	}
}

// ---- main ----

func c20Main(args []string) int {
	fs := flag.NewFlagSet("c20", flag.ExitOnError)
	seed := fs.Int64("seed", 1, "seed")
	n := fs.Int("n", 20, "generated histories")
	nb := fs.Int("blocks", 25, "blocks per history")
	outDir := fs.String("out", ".", "output directory")
	chunk := fs.Int("chunk", 4, "cases per Coq file")
	replay := fs.String("replay", "", "JSON file with a list of scenarios to run instead of the directed ones")
	corpusF := fs.String("corpus", "", "corpus file {scenarios:[...]}: run after the directed scenarios")
	fs.Parse(args)

	traces := []*c20Trace{}
	dir := c20Directed()
	if *replay != "" {
		bz, err := os.ReadFile(*replay)
		must(err)
		dir = nil
		must(json.Unmarshal(bz, &dir))
	}
	if *corpusF != "" {
		bz, err := os.ReadFile(*corpusF)
		must(err)
		var cf struct {
			Scenarios []c20Scenario `json:"scenarios"`
		}
		must(json.Unmarshal(bz, &cf))
		dir = append(dir, cf.Scenarios...)
	}
	for i := range dir {
		traces = append(traces, c20Run(&dir[i]))
	}
	for i := 0; i < *n; i++ {
		r := rand.New(rand.NewSource(*seed*1000003 + int64(i)))
		traces = append(traces, c20GenRun(r, i, *nb))
	}

	kinds, outcomes := map[string]int{}, map[string]int{}
	ntx, nend, nopts, naux := 0, 0, 0, 0
	maxreg := 0
	distinct := map[string]bool{}
	for _, tr := range traces {
		for _, st := range tr.Steps {
			if st.End {
				nend++
				continue
			}
			if st.Opts != nil {
				nopts++
				continue
			}
			if st.Aux {
				naux++
				continue
			}
			ntx++
			kinds[st.Op.Kind]++
			oc := st.Op.Kind + ":fail"
			if st.Ok {
				oc = st.Op.Kind + ":ok"
			}
			outcomes[oc]++
			if len(st.Obs.Reg) > maxreg {
				maxreg = len(st.Obs.Reg)
			}
			bz, _ := json.Marshal(st.Op)
			distinct[fmt.Sprintf("%s|%v|%d", bz, st.Ok, len(st.Obs.Reg))] = true
		}
	}

	files := []string{}
	for lo := 0; lo < len(traces); lo += *chunk {
		hi := lo + *chunk
		if hi > len(traces) {
			hi = len(traces)
		}
		var b strings.Builder
		b.WriteString("From Coq Require Import ZArith Ascii String.\nFrom stdpp Require Import gmap list strings.\nFrom OL Require Import theories.Ons theories.OnsCheck.\nLocal Open Scope Z_scope.\nLocal Open Scope string_scope.\n")
		b.WriteString("Definition cases : list case := [\n")
		for i := lo; i < hi; i++ {
			if i > lo {
				b.WriteString(";\n")
			}
			b.WriteString(c20CoqCase(traces[i]))
		}
		b.WriteString("].\n")
		fmt.Fprintf(&b, "Definition MM := Eval vm_compute in flat2 (model_mismatches %d cases).\n", lo)
		fmt.Fprintf(&b, "Definition MV := Eval vm_compute in flat3 (monitor_violations %d cases).\n", lo)
		fmt.Fprintf(&b, "Definition ST := Eval vm_compute in stats cases.\n")
		b.WriteString("Print MM.\nPrint MV.\nPrint ST.\n")
		name := fmt.Sprintf("%s/c20_cases_%d.v", *outDir, lo / *chunk)
		must(os.WriteFile(name, []byte(b.String()), 0644))
		files = append(files, name)
	}
	bz, _ := json.Marshal(traces)
	must(os.WriteFile(*outDir+"/c20_cases.json", bz, 0644))
	samples := []interface{}{}
	for i := 0; i < len(traces) && i < 2; i++ {
		k := len(traces[i].Steps)
		if k > 6 {
			k = 6
		}
		samples = append(samples, map[string]interface{}{"label": traces[i].Scenario.Label, "steps": traces[i].Steps[:k]})
	}
	rep := map[string]interface{}{"files": files, "cases": len(traces), "directed": len(dir), "txs": ntx, "blocks": nend,
		"kinds": kinds, "outcomes": outcomes, "option_changes": nopts, "aux_txs": naux, "max_registry": maxreg, "distinct": len(distinct), "samples": samples}
	bz, _ = json.Marshal(rep)
	must(os.WriteFile(*outDir+"/c20_report.json", bz, 0644))
	say("c20: %d cases, %d txs, %d blocks, outcomes %v\n", len(traces), ntx, nend, outcomes)
	return 0
}
