package main

// C17: OLVM transactions keep one ledger and charge exactly the gas used.
// Real app.App (Replica) driven with mixes of native SEND and OLVM transactions; per transaction
// the ledger (b_*_OLT, fee pool, keeper nonces) before/after is recorded and written as Coq cases.

import (
	"crypto/ecdsa"
	"encoding/hex"
	"encoding/json"
	"flag"
	"fmt"
	"io/ioutil"
	"math/big"
	"math/rand"
	"os"
	"path/filepath"
	"sort"
	"strconv"
	"strings"

	"github.com/Oneledger/protocol/action"
	"github.com/Oneledger/protocol/action/olvm"
	"github.com/Oneledger/protocol/action/transfer"
	"github.com/Oneledger/protocol/data/balance"
	"github.com/Oneledger/protocol/data/evm"
	"github.com/Oneledger/protocol/data/fees"
	"github.com/Oneledger/protocol/data/keys"
	"github.com/Oneledger/protocol/log"
	"github.com/Oneledger/protocol/serialize"
	"github.com/Oneledger/protocol/utils"
	"github.com/Oneledger/protocol/vm"
	ethcmn "github.com/ethereum/go-ethereum/common"
	ethtypes "github.com/ethereum/go-ethereum/core/types"
	ethcrypto "github.com/ethereum/go-ethereum/crypto"
	ethparams "github.com/ethereum/go-ethereum/params"
)

func init() { subcmds["c17"] = c17Main }

// ---------------------------------------------------------------------------------------------
// keys and transaction builders

type c17EthKey struct {
	Priv *ecdsa.PrivateKey
	Addr keys.Address
}

func c17Key(b byte) c17EthKey {
	seed := make([]byte, 32)
	for i := range seed {
		seed[i] = b
	}
	seed[0] = 1
	p, err := ethcrypto.ToECDSA(seed)
	must(err)
	a := ethcrypto.PubkeyToAddress(p.PublicKey)
	return c17EthKey{p, keys.Address(append([]byte{}, a.Bytes()...))}
}

// c17Tx: the model-level description of one generated transaction
type c17Tx struct {
	Kind     string // "olvm" | "send"
	Descr    string
	From     int    // account index (olvm: eth key; send: native user)
	To       int    // account index in the address table, -1 = contract creation
	Value    string // decimal
	Gas      int64
	Price    string // decimal
	Nonce    uint64
	Memo     string
	Data     string // hex
	ChainOK  bool   // signed for and declares this chain's id
	ChainFld bool   // the ChainID field of the payload is this chain's id
	TxType   int64  // unsigned "for future" field: re-encoding handle
	Bytes    []byte `json:"-"`
}

// c17TxOLVM builds a signed OLVM transaction the way action/olvm's tests and the web3 service do:
// an EIP-155 legacy Ethereum transaction signed over the chain id derived from the chain id
// string, embedded in an action.SignedTx whose memo is the nonce.
func c17TxOLVM(k c17EthKey, to *keys.Address, nonce uint64, value, price *big.Int, gas int64, data []byte,
	signChain, fieldChain *big.Int, memo string, txType int64) []byte {
	av := &olvm.Transaction{
		From:    k.Addr,
		To:      to,
		Amount:  action.Amount{Currency: "OLT", Value: *balance.NewAmountFromBigInt(value)},
		Data:    data,
		Nonce:   nonce,
		ChainID: fieldChain,
		TxType:  txType,
	}
	fee := action.Fee{Price: action.Amount{Currency: "OLT", Value: *balance.NewAmountFromBigInt(price)}, Gas: gas}
	payload, err := av.Marshal()
	must(err)
	raw := action.RawTx{Type: action.OLVM, Data: payload, Fee: fee, Memo: memo}

	var ethTo *ethcmn.Address
	if to != nil {
		t := ethcmn.BytesToAddress(to.Bytes())
		ethTo = &t
	}
	etx := ethtypes.NewTx(&ethtypes.LegacyTx{Nonce: nonce, GasPrice: price, Gas: uint64(gas), To: ethTo, Value: value, Data: data})
	signer := ethtypes.NewEIP155Signer(signChain)
	sig, err := ethcrypto.Sign(signer.Hash(etx).Bytes(), k.Priv) // R || S || V(0/1)
	must(err)
	pub, err := keys.GetPublicKeyFromBytes(ethcrypto.CompressPubkey(&k.Priv.PublicKey), keys.ETHSECP)
	must(err)
	stx := action.SignedTx{RawTx: raw, Signatures: []action.Signature{{Signer: pub, Signed: sig}}}
	bz, err := serialize.GetSerializer(serialize.NETWORK).Serialize(stx)
	must(err)
	return bz
}

// ---------------------------------------------------------------------------------------------
// bytecode

// init code that returns the given runtime code
func c17Deployer(runtime []byte) []byte {
	if len(runtime) > 255 {
		panic("runtime too long")
	}
	// PUSH1 len DUP1 PUSH1 0x0b PUSH1 0 CODECOPY PUSH1 0 RETURN
	return append([]byte{0x60, byte(len(runtime)), 0x80, 0x60, 0x0b, 0x60, 0x00, 0x39, 0x60, 0x00, 0xf3}, runtime...)
}

var (
	c17RtStop     = []byte{0x00}                               // accepts value
	c17RtRevert   = []byte{0x60, 0x00, 0x60, 0x00, 0xfd}       // REVERT(0,0)
	c17RtLoop     = []byte{0x5b, 0x60, 0x00, 0x56}             // JUMPDEST PUSH1 0 JUMP: burns all gas
	c17RtSuicide  = []byte{0x33, 0xff}                         // SELFDESTRUCT(CALLER)
	c17RtToggle   = []byte{0x36, 0x15, 0x60, 0x00, 0x55, 0x00} // slot0 := (calldatasize == 0); clearing earns a refund
	c17RtInvalid  = []byte{0xfe}                               // INVALID: consumes all gas
	c17InitStore  = []byte{0x60, 0x2a, 0x60, 0x00, 0x55, 0x00} // init: slot0 := 42, empty runtime
	c17InitRevert = []byte{0x60, 0x00, 0x60, 0x00, 0xfd}       // init code reverts
)

// runtime that forwards the call value to addr: CALL(gas, addr, callvalue, 0,0,0,0); STOP
func c17RtForward(addr keys.Address) []byte {
	b := []byte{0x60, 0x00, 0x60, 0x00, 0x60, 0x00, 0x60, 0x00, 0x34, 0x73}
	b = append(b, addr.Bytes()...)
	return append(b, 0x5a, 0xf1, 0x00)
}

// ---------------------------------------------------------------------------------------------
// ledger projection

type c17Ledger struct {
	Bal   map[string]string // address hex -> OLT balance (decimal), from b_<addr>_OLT
	Nonce map[string]uint64 // address hex -> keeper sequence
	Has   map[string]bool   // keeper record present
	Pool  string            // fee pool
}

func c17AddrKey(a keys.Address) string { return hex.EncodeToString(a.Bytes()) }

// c17Project decodes the OLT ledger of a key->value view
func c17Project(view map[string]string) c17Ledger {
	l := c17Ledger{Bal: map[string]string{}, Nonce: map[string]uint64{}, Has: map[string]bool{}, Pool: "0"}
	ser := serialize.GetSerializer(serialize.PERSISTENT)
	for k, v := range view {
		switch {
		case strings.HasPrefix(k, "b_") && strings.HasSuffix(k, "_OLT"):
			mid := k[2 : len(k)-4]
			a := &keys.Address{}
			if err := a.UnmarshalText([]byte(mid)); err != nil {
				// non-hex owners (pool names) are keyed by their raw string
				l.Bal["raw:"+mid] = c17Amount(ser, v)
				continue
			}
			l.Bal[c17AddrKey(*a)] = c17Amount(ser, v)
		case strings.HasPrefix(k, "keeper_"):
			raw := []byte(k[len("keeper_"):])
			ea := &balance.EthAccount{}
			if err := ser.Deserialize([]byte(v), ea); err == nil {
				l.Nonce[hex.EncodeToString(raw)] = ea.Sequence
				l.Has[hex.EncodeToString(raw)] = true
			}
		case k == c17PoolKey:
			l.Pool = c17Amount(ser, v)
		}
	}
	return l
}

var c17PoolKey = "f_" + fees.POOL_KEY

func c17Amount(ser serialize.Serializer, v string) string {
	c := &balance.Amount{}
	if err := ser.Deserialize([]byte(v), c); err == nil {
		return c.BigInt().String()
	}
	return "?" + v
}

// ---------------------------------------------------------------------------------------------
// recorded steps

type c17Delta struct {
	Addr int
	D    string
}

type c17View struct {
	Addr   int
	Keeper string
	SDB    string
}

type c17LedgerIdx struct {
	Bal  [][2]string // index, amount
	Non  [][2]string // index, sequence
	Pool string
}

type c17Step struct {
	Kind  string // olvm | send
	Descr string
	Class string // generator class (histogram)
	// transaction
	From, To     int
	Value, Price string
	Gas          int64
	Nonce        uint64
	NZ, Z        int
	ChainOK      bool
	MemoOK       bool
	Amount       string // send
	SigOK        bool   // send: signed by the declared sender
	Again        bool   // olvm: the same signed Ethereum transaction was executed earlier in this history
	// environment
	BlockGas   string
	SenderCode bool
	Created    int
	Dup        bool
	// oracle (derived from the observation and from what the called program does)
	Left   string
	Failed bool
	Int    []c17Delta
	Dead   []int
	// observation
	Code     uint32
	GasUsed  int64
	Pre      c17LedgerIdx
	Post     c17LedgerIdx
	Addrs    []int
	Check    int
	CheckPre c17LedgerIdx
	MinFee   string
	Views    []c17View
	Height   int64
	TxHex    string
	Log      string
}

type c17Contract struct {
	Addr   keys.Address
	Kind   string // stop revert loop suicide toggle invalid forward empty
	Target keys.Address
	Alive  bool
}

type c17Run struct {
	rep         *Replica
	w           *World
	chain       *big.Int
	r           *rand.Rand
	ek          []c17EthKey
	fresh       []keys.Address
	contracts   []*c17Contract
	idx         map[string]int
	names       []string
	committed   c17Ledger
	seen        map[string]bool // tx bytes committed in an earlier block
	inBlock     []string
	executed    []c17Tx // executed OLVM transactions (for re-encoded replays)
	minFee      *big.Int
	lastSendGas int64
	execKeys    map[string]bool
	steps       []c17Step
	hist        map[string]int
	outcomes    map[string]int
}

func (c *c17Run) index(hexaddr string) int {
	if i, ok := c.idx[hexaddr]; ok {
		return i
	}
	i := len(c.names)
	c.idx[hexaddr] = i
	c.names = append(c.names, hexaddr)
	return i
}

func (c *c17Run) toIdx(l c17Ledger, only map[string]bool) c17LedgerIdx {
	o := c17LedgerIdx{Pool: l.Pool}
	ks := make([]string, 0, len(l.Bal))
	for k := range l.Bal {
		ks = append(ks, k)
	}
	sort.Strings(ks)
	for _, k := range ks {
		if only != nil && !only[k] {
			continue
		}
		o.Bal = append(o.Bal, [2]string{strconv.Itoa(c.index(k)), l.Bal[k]})
	}
	ks = ks[:0]
	for k := range l.Nonce {
		ks = append(ks, k)
	}
	sort.Strings(ks)
	for _, k := range ks {
		if only != nil && !only[k] {
			continue
		}
		o.Non = append(o.Non, [2]string{strconv.Itoa(c.index(k)), strconv.FormatUint(l.Nonce[k], 10)})
	}
	return o
}

func c17NewRun(seed int64) *c17Run {
	w := NewWorld(3, 3, 0)
	g := w.Genesis()
	c := &c17Run{w: w, r: rand.New(rand.NewSource(seed)), idx: map[string]int{}, seen: map[string]bool{}, hist: map[string]int{}, outcomes: map[string]int{}, execKeys: map[string]bool{}}
	for i := 0; i < 8; i++ { // 0-3 funded, 4 poor, 5-7 hold nothing (funded natively during the run, drained by send-max)
		c.ek = append(c.ek, c17Key(byte(1+i)))
	}
	for _, k := range c.ek[:4] {
		g.Funded = append(g.Funded, k.Addr)
	}
	g.Poor = append(g.Poor, Key{Addr: c.ek[4].Addr}) // 0.002 OLT: a few dozen plain transfers
	// c.ek[5] holds nothing
	for i := 0; i < 3; i++ {
		c.fresh = append(c.fresh, c17Key(byte(100+i)).Addr)
	}
	c.rep = NewReplica(g, ReplicaOpts{NodeVal: w.Vals[0].Val})
	c.rep.InitChain()
	c.chain = utils.HashToBigInt(c.rep.Chain)
	fo := &fees.FeeOption{FeeCurrency: OLT, MinFeeDecimal: 9}
	c.minFee = fo.MinFee().Amount.BigInt()
	c.lastSendGas = 15000
	c.rep.RunBlock(&BlockIn{})
	c.committed = c17Project(c.rep.Dump())
	return c
}

func (c *c17Run) evmViews(addrs []keys.Address) []c17View {
	st := c.rep.A.VerifDeliver()
	cur := balance.NewCurrencySet()
	_ = cur.Register(OLT)
	keeper := balance.NewNesterAccountKeeper(st, balance.NewStore("b", st), cur)
	sdb := vm.NewCommitStateDB(evm.NewContractStore(st), keeper, log.NewLoggerWithPrefix(ioutil.Discard, "c17"))
	var vs []c17View
	done := map[string]bool{}
	for _, a := range addrs {
		k := c17AddrKey(a)
		if done[k] || len(a) != 20 {
			continue
		}
		done[k] = true
		vs = append(vs, c17View{Addr: c.index(k), Keeper: keeper.GetBalance(a).String(), SDB: sdb.GetBalance(ethcmn.BytesToAddress(a)).String()})
	}
	return vs
}

// deliverOLVM runs one OLVM transaction through CheckTx and DeliverTx and records the step
func (c *c17Run) deliverOLVM(class, descr string, k c17EthKey, fromAddr keys.Address, to *keys.Address, nonce uint64, value, price *big.Int,
	gas int64, data []byte, signChain, fieldChain *big.Int, memo string, txType int64, callee *c17Contract, raw []byte) {
	var bz []byte
	if raw != nil {
		bz = raw
	} else {
		kk := k
		kk.Addr = fromAddr // the declared sender (differs from the signing key for the "not an EOA" stream)
		bz = c17TxOLVM(kk, to, nonce, value, price, gas, data, signChain, fieldChain, memo, txType)
	}
	hexTx := hex.EncodeToString(bz)
	pre := c17Project(c.rep.View())
	st := c17Step{Kind: "olvm", Class: class, Descr: descr, Value: value.String(), Price: price.String(), Gas: gas, Nonce: nonce, Height: c.rep.H, TxHex: hexTx, MinFee: c.minFee.String()}
	st.From = c.index(c17AddrKey(fromAddr))
	st.To = -1
	if to != nil {
		st.To = c.index(c17AddrKey(*to))
	}
	for _, b := range data {
		if b != 0 {
			st.NZ++
		} else {
			st.Z++
		}
	}
	sameKey := c17AddrKey(k.Addr) == c17AddrKey(fromAddr)
	st.ChainOK = signChain.Cmp(c.chain) == 0 && fieldChain.Cmp(c.chain) == 0 && sameKey
	st.MemoOK = memo == strconv.FormatUint(nonce, 10)
	st.Dup = c.seen[hexTx]
	signedKey := fmt.Sprintf("%s|%d|%s|%s|%d|%s|%x", c17AddrKey(fromAddr), nonce, c17ToHex(to), value, gas, price, data)
	st.Again = c.execKeys[signedKey] && sameKey
	// environment
	st.BlockGas = strconv.FormatUint(c.rep.A.VerifDeliver().GetCalculator().GetLeft(), 10)
	st.SenderCode = c.senderHasCode(fromAddr)
	stNonce := pre.Nonce[c17AddrKey(fromAddr)]
	created := keys.Address(ethcrypto.CreateAddress(ethcmn.BytesToAddress(fromAddr), stNonce).Bytes())
	st.Created = c.index(c17AddrKey(created))
	// CheckTx (on the check state = last committed state)
	st.Check = -1
	if !st.Dup {
		ck := c.rep.CheckTx(bz)
		if ck.Code == 0 {
			st.Check = 1
		} else {
			st.Check = 0
		}
		st.CheckPre = c.toIdx(c.committed, map[string]bool{c17AddrKey(fromAddr): true})
	}
	res := c.rep.DeliverTx(bz)
	post := c17Project(c.rep.View())
	st.Code, st.GasUsed, st.Log = res.Code, res.GasUsed, res.Log
	if len(st.Log) > 160 {
		st.Log = st.Log[:160]
	}
	status := ""
	for _, ev := range res.Events {
		for _, at := range ev.Attributes {
			if string(at.Key) == "tx.status" {
				status = string(at.Value)
			}
		}
	}
	st.Failed = status == "0"
	st.Left = "0"
	if res.Code == 0 && !st.Dup {
		st.Left = strconv.FormatInt(gas-res.GasUsed, 10)
	}
	// what the called program does with OLT on success
	touched := []keys.Address{fromAddr, created}
	if to != nil {
		touched = append(touched, *to)
	}
	if res.Code == 0 && !st.Failed && !st.Dup && callee != nil && callee.Alive {
		switch callee.Kind {
		case "forward":
			if value.Sign() > 0 {
				st.Int = []c17Delta{{c.index(c17AddrKey(callee.Addr)), "-" + value.String()}, {c.index(c17AddrKey(callee.Target)), value.String()}}
			}
			touched = append(touched, callee.Target)
		case "suicide":
			held, _ := new(big.Int).SetString(c17Or0(pre.Bal[c17AddrKey(callee.Addr)]), 10)
			all := new(big.Int).Add(held, value)
			if all.Sign() > 0 {
				st.Int = []c17Delta{{c.index(c17AddrKey(callee.Addr)), "-" + all.String()}, {st.From, all.String()}}
			}
			st.Dead = []int{c.index(c17AddrKey(callee.Addr))}
			callee.Alive = false
		}
	}
	// new contract bookkeeping
	if res.Code == 0 && !st.Failed && !st.Dup && to == nil {
		kind, target := c17InitKind(data)
		c.contracts = append(c.contracts, &c17Contract{Addr: created, Kind: kind, Target: target, Alive: true})
	}
	c.finish(&st, pre, post, touched)
	if res.Code == 0 && !st.Dup {
		c.execKeys[signedKey] = true
		c.executed = append(c.executed, c17Tx{From: c.ekIndex(fromAddr), Value: value.String(), Gas: gas, Price: price.String(), Nonce: nonce, Data: hex.EncodeToString(data), TxType: txType,
			Descr: c17ToHex(to)})
	}
}

func c17ToHex(to *keys.Address) string {
	if to == nil {
		return ""
	}
	return c17AddrKey(*to)
}

func c17Or0(s string) string {
	if s == "" {
		return "0"
	}
	return s
}

func (c *c17Run) ekIndex(a keys.Address) int {
	for i, k := range c.ek {
		if c17AddrKey(k.Addr) == c17AddrKey(a) {
			return i
		}
	}
	return -1
}

func (c *c17Run) senderHasCode(a keys.Address) bool {
	v, ok := c.rep.View()["keeper_"+string(a.Bytes())]
	if !ok {
		return false
	}
	ea := &balance.EthAccount{}
	if err := serialize.GetSerializer(serialize.PERSISTENT).Deserialize([]byte(v), ea); err != nil {
		return false
	}
	empty := ethcrypto.Keccak256(nil)
	return len(ea.CodeHash) > 0 && hex.EncodeToString(ea.CodeHash) != hex.EncodeToString(empty) && hex.EncodeToString(ea.CodeHash) != strings.Repeat("00", 32)
}

func (c *c17Run) finish(st *c17Step, pre, post c17Ledger, touched []keys.Address) {
	// the ledgers are restricted to the addresses the transaction names plus EVERY address whose
	// balance or keeper record differs between pre and post (so the comparison covers the frame:
	// an untouched account that changed is in the set and fails the model comparison)
	keep := map[string]bool{}
	for _, a := range touched {
		keep[c17AddrKey(a)] = true
	}
	for _, d := range st.Int {
		keep[c.names[d.Addr]] = true
	}
	for k, v := range pre.Bal {
		if w, ok := post.Bal[k]; !ok || w != v {
			keep[k] = true
		}
	}
	for k := range post.Bal {
		if _, ok := pre.Bal[k]; !ok {
			keep[k] = true
		}
	}
	for k, v := range pre.Nonce {
		if w, ok := post.Nonce[k]; !ok || w != v {
			keep[k] = true
		}
	}
	for k := range post.Nonce {
		if _, ok := pre.Nonce[k]; !ok {
			keep[k] = true
		}
	}
	st.Pre = c.toIdx(pre, keep)
	st.Post = c.toIdx(post, keep)
	kk := make([]string, 0, len(keep))
	for k := range keep {
		kk = append(kk, k)
	}
	sort.Strings(kk)
	for _, k := range kk {
		st.Addrs = append(st.Addrs, c.index(k))
	}
	sort.Ints(st.Addrs)
	st.Views = c.evmViews(touched)
	c.inBlock = append(c.inBlock, st.TxHex)
	c.hist[st.Class]++
	oc := "rejected"
	if st.Dup {
		oc = "duplicate"
	} else if st.Code == 0 && st.Failed {
		oc = "executed-vm-failed"
	} else if st.Code == 0 {
		oc = "executed"
	}
	c.outcomes[st.Kind+":"+oc]++
	c.steps = append(c.steps, *st)
}

func c17InitKind(init []byte) (string, keys.Address) {
	h := hex.EncodeToString(init)
	for _, p := range []struct {
		k  string
		rt []byte
	}{{"stop", c17RtStop}, {"revert", c17RtRevert}, {"loop", c17RtLoop}, {"suicide", c17RtSuicide}, {"toggle", c17RtToggle}, {"invalid", c17RtInvalid}} {
		if h == hex.EncodeToString(c17Deployer(p.rt)) {
			return p.k, nil
		}
	}
	if len(init) == 11+33 && init[11+9] == 0x73 {
		return "forward", keys.Address(append([]byte{}, init[11+10:11+30]...))
	}
	return "empty", nil
}

func (c *c17Run) deliverSend(class, descr string, from Key, to keys.Address, amount string, gas int64) {
	c.deliverSendX(class, descr, from, from, to, amount, gas, "1000000000")
}

// deliverSendX: SEND declared from [from], signed by [signer], with an explicit gas price
func (c *c17Run) deliverSendX(class, descr string, from, signer Key, to keys.Address, amount string, gas int64, price string) {
	data, err := transfer.Send{From: from.Addr, To: to, Amount: oltAmt(amount)}.Marshal()
	must(err)
	fee := action.Fee{Price: action.Amount{Currency: "OLT", Value: bigAmt(price)}, Gas: gas}
	bz := signRaw(action.RawTx{Type: action.SEND, Data: data, Fee: fee, Memo: fmt.Sprintf("c17-%d", len(c.steps))}, signer)
	pre := c17Project(c.rep.View())
	st := c17Step{Kind: "send", Class: class, Descr: descr, Amount: amount, Price: price, Gas: gas, SigOK: c17AddrKey(from.Addr) == c17AddrKey(signer.Addr), Height: c.rep.H, TxHex: hex.EncodeToString(bz), Check: -1, MinFee: c.minFee.String(), To: c.index(c17AddrKey(to))}
	st.From = c.index(c17AddrKey(from.Addr))
	res := c.rep.DeliverTx(bz)
	post := c17Project(c.rep.View())
	st.Code, st.GasUsed, st.Log = res.Code, res.GasUsed, res.Log
	if len(st.Log) > 160 {
		st.Log = st.Log[:160]
	}
	// the storage gas the wrapper measured is an input of the model; a failed SEND does not report
	// it, so the figure of the last successful SEND (same size, same store accesses) stands in
	if res.Code == 0 {
		c.lastSendGas = res.GasUsed
	} else {
		st.GasUsed = c.lastSendGas
	}
	c.finish(&st, pre, post, []keys.Address{from.Addr, to})
}

func (c *c17Run) userIndex(u Key) int {
	for i, x := range c.w.Users {
		if c17AddrKey(x.Addr) == c17AddrKey(u.Addr) {
			return i
		}
	}
	return 0
}

func (c *c17Run) beginBlock() { c.rep.BeginBlock(&BlockIn{}); c.inBlock = nil }
func (c *c17Run) endBlock() {
	c.rep.EndBlock()
	c.rep.Commit()
	c.committed = c17Project(c.rep.Dump())
	for _, h := range c.inBlock {
		c.seen[h] = true
	}
}

// ---------------------------------------------------------------------------------------------
// generation

var c17Gwei = big.NewInt(1000000000)

func (c *c17Run) stNonce(a keys.Address) uint64 {
	return c17Project(c.rep.View()).Nonce[c17AddrKey(a)]
}

func (c *c17Run) anyAddr() keys.Address {
	switch c.r.Intn(5) {
	case 0:
		return c.fresh[c.r.Intn(len(c.fresh))]
	case 1:
		return c.w.Users[c.r.Intn(len(c.w.Users))].Addr
	case 2:
		if len(c.contracts) > 0 {
			return c.contracts[c.r.Intn(len(c.contracts))].Addr
		}
	}
	return c.ek[c.r.Intn(len(c.ek))].Addr
}

func (c *c17Run) contractAt(a keys.Address) *c17Contract {
	for _, k := range c.contracts {
		if c17AddrKey(k.Addr) == c17AddrKey(a) {
			return k
		}
	}
	return nil
}

func (c *c17Run) pickValue() *big.Int {
	switch c.r.Intn(8) {
	case 0, 1:
		return big.NewInt(0)
	case 2:
		return big.NewInt(1)
	case 3:
		v, _ := new(big.Int).SetString("2000000000000000000000000", 10) // more than anyone holds
		return v
	case 4:
		return big.NewInt(1000000000000000) // half of what the poor account holds
	}
	return big.NewInt(int64(1 + c.r.Intn(1000000)))
}

// one random step
func (c *c17Run) genStep() {
	r := c.r
	if r.Intn(6) == 0 {
		u := c.w.Users[r.Intn(len(c.w.Users))]
		amount := strconv.Itoa(1 + r.Intn(100000))
		gas := int64(1000000)
		class := "send"
		switch r.Intn(14) {
		case 0:
			amount = "3000000000000000000000000"
			class = "send-too-much"
		case 1:
			gas = 1000
			class = "send-gas-low"
		case 2:
			c.deliverSendX("send-wrong-signer", "native send signed by someone else", u, c.w.Users[(r.Intn(2)+1+c.userIndex(u))%len(c.w.Users)], c.anyAddr(), amount, gas, "1000000000")
			return
		case 3:
			c.deliverSendX("send-price-below-min", "native send priced below the minimum fee", u, u, c.anyAddr(), amount, gas, []string{"0", "999999999"}[r.Intn(2)])
			return
		case 4:
			c.deliverSendX("send-negative-amount", "native send of a negative amount", u, u, c.anyAddr(), "-"+amount, gas, "1000000000")
			return
		}
		c.deliverSend(class, "native send", u, c.anyAddr(), amount, gas)
		return
	}
	k := c.ek[r.Intn(len(c.ek))]
	if r.Intn(3) > 0 {
		k = c.ek[r.Intn(4)] // mostly the funded ones
	}
	from := k.Addr
	nonce := c.stNonce(from)
	price := new(big.Int).Set(c17Gwei)
	sign, field := c.chain, c.chain
	class := ""
	// nonce variants
	switch r.Intn(12) {
	case 0:
		nonce++
		class = "nonce+1"
	case 1:
		nonce += 2
		class = "nonce+2"
	case 2:
		if nonce > 0 {
			nonce--
			class = "nonce-1"
		}
	}
	memo := strconv.FormatUint(nonce, 10)
	switch r.Intn(25) {
	case 0:
		memo = "x"
		class += "|memo-bad"
	case 1:
		sign = big.NewInt(1)
		class += "|chain-sign-wrong"
	case 2:
		field = big.NewInt(1)
		class += "|chain-field-wrong"
	case 3:
		price = big.NewInt(0)
		class += "|price0"
	case 4:
		price = big.NewInt(1)
		class += "|price-below-min"
	case 5:
		price = big.NewInt(3000000000)
		class += "|price3"
	}
	value := c.pickValue()
	var to *keys.Address
	var data []byte
	var callee *c17Contract
	gas := int64(0)
	switch kind := r.Intn(10); {
	case kind < 3: // plain transfer
		a := c.anyAddr()
		to = &a
		callee = c.contractAt(a)
		gas = []int64{21000, 30000, 100000, 20999, 25000}[r.Intn(5)]
		if callee != nil {
			gas = []int64{100000, 30000, 21000, 60000}[r.Intn(4)]
		}
		class = "transfer|" + class
	case kind < 6: // creation
		inits := [][]byte{c17InitStore, c17InitRevert, c17Deployer(c17RtStop), c17Deployer(c17RtRevert), c17Deployer(c17RtLoop), c17Deployer(c17RtSuicide),
			c17Deployer(c17RtToggle), c17Deployer(c17RtInvalid), c17Deployer(c17RtForward(c.fresh[0])), {0xfe}}
		data = inits[r.Intn(len(inits))]
		gas = []int64{200000, 200000, 60000, 53000, 54000, 1000000}[r.Intn(6)]
		if r.Intn(2) == 0 {
			value = big.NewInt(int64(r.Intn(3) * 5000))
		}
		class = "create|" + class
	default: // call a contract
		if len(c.contracts) == 0 {
			a := c.anyAddr()
			to = &a
			gas = 30000
			class = "transfer|" + class
			break
		}
		callee = c.contracts[r.Intn(len(c.contracts))]
		a := callee.Addr
		to = &a
		data = [][]byte{nil, {1}, {0, 0, 1}, {0}}[r.Intn(4)]
		gas = []int64{100000, 100000, 30000, 21000, 22000, 500000}[r.Intn(6)]
		if r.Intn(2) == 0 {
			value = big.NewInt(int64(r.Intn(3) * 7))
		}
		class = "call-" + callee.Kind + "|" + class
		if !callee.Alive {
			class = "call-dead|" + class
		}
	}
	switch r.Intn(40) {
	case 0:
		gas = -1
		class += "|gas-negative"
	case 1:
		gas = 9223372036854775807
		class += "|gas-maxint64"
	case 2:
		gas = 0
		class += "|gas0"
	}
	c.deliverOLVM(class, class, k, from, to, nonce, value, price, gas, data, sign, field, memo, 0, callee, nil)
}

// re-encoding of an executed transaction: same signed Ethereum transaction, different bytes
func (c *c17Run) genReplay() {
	if len(c.executed) == 0 {
		return
	}
	e := c.executed[c.r.Intn(len(c.executed))]
	if e.From < 0 {
		return
	}
	k := c.ek[e.From]
	var to *keys.Address
	if e.Descr != "" {
		b, _ := hex.DecodeString(e.Descr)
		a := keys.Address(b)
		to = &a
	}
	value, _ := new(big.Int).SetString(e.Value, 10)
	price, _ := new(big.Int).SetString(e.Price, 10)
	data, _ := hex.DecodeString(e.Data)
	var callee *c17Contract
	if to != nil {
		callee = c.contractAt(*to)
	}
	c.deliverOLVM("replay-reencoded", "re-encoded replay", k, k.Addr, to, e.Nonce, value, price, e.Gas, data, c.chain, c.chain, strconv.FormatUint(e.Nonce, 10), e.TxType+1+int64(c.r.Intn(1000)), callee, nil)
}

// identical bytes again (same block: pre-checks decide; later block: the node's index answers)
func (c *c17Run) genIdentical() {
	var olvmSteps []int
	for i, s := range c.steps {
		if s.Kind == "olvm" && !s.Dup {
			olvmSteps = append(olvmSteps, i)
		}
	}
	if len(olvmSteps) == 0 {
		return
	}
	s := c.steps[olvmSteps[c.r.Intn(len(olvmSteps))]]
	bz, _ := hex.DecodeString(s.TxHex)
	stx := &action.SignedTx{}
	if err := serialize.GetSerializer(serialize.NETWORK).Deserialize(bz, stx); err != nil {
		return
	}
	tx := &olvm.Transaction{}
	if err := tx.Unmarshal(stx.Data); err != nil {
		return
	}
	var callee *c17Contract
	if tx.To != nil {
		callee = c.contractAt(*tx.To)
	}
	ki := c.ekIndex(tx.From)
	if ki < 0 {
		return
	}
	sign, field := c.chain, c.chain
	if !s.ChainOK {
		field = big.NewInt(1) // only used to recompute the ChainOK flag
	}
	c.deliverOLVM("replay-identical", "identical bytes", c.ek[ki], tx.From, tx.To, tx.Nonce, tx.Amount.Value.BigInt(), stx.Fee.Price.Value.BigInt(), stx.Fee.Gas, tx.Data, sign, field, stx.Memo, tx.TxType, callee, bz)
}

// directed scenarios: the histories of the repaired findings (corpus) and the corner cases, replayed on every run
func (c *c17Run) directed() {
	e0, e1, e2 := c.ek[0], c.ek[1], c.ek[2]
	zero := big.NewInt(0)
	dl := func(class string, k c17EthKey, to *keys.Address, nonce uint64, value *big.Int, gas int64, data []byte, txType int64) {
		var callee *c17Contract
		if to != nil {
			callee = c.contractAt(*to)
		}
		c.deliverOLVM(class, class, k, k.Addr, to, nonce, value, c17Gwei, gas, data, c.chain, c.chain, strconv.FormatUint(nonce, 10), txType, callee, nil)
	}
	c.beginBlock()
	f0 := c.fresh[0]
	// corpus C17.nonce_gap (fixed 579eea0): nonce = account nonce + 2 in four encodings; CheckTx accepts, execution must reject
	dl("directed-nonce-gap", e1, &f0, 2, big.NewInt(5), 21000, nil, 0)
	dl("directed-nonce-gap-replay", e1, &f0, 2, big.NewInt(5), 21000, nil, 1)
	dl("directed-nonce-gap-replay", e1, &f0, 2, big.NewInt(5), 21000, nil, 2)
	dl("directed-nonce-gap-replay", e1, &f0, 2, big.NewInt(5), 21000, nil, 3) // now too low
	// exact nonce: the re-encoding is rejected
	dl("directed-exact", e2, &f0, 0, big.NewInt(5), 21000, nil, 0)
	dl("directed-exact-replay", e2, &f0, 0, big.NewInt(5), 21000, nil, 1)
	// contracts
	dl("directed-create", e0, nil, 0, big.NewInt(5000), 200000, c17Deployer(c17RtSuicide), 0)
	dl("directed-create", e0, nil, 1, zero, 200000, c17Deployer(c17RtToggle), 0)
	dl("directed-create", e0, nil, 2, zero, 200000, c17Deployer(c17RtRevert), 0)
	dl("directed-create", e0, nil, 3, zero, 200000, c17Deployer(c17RtLoop), 0)
	dl("directed-create", e0, nil, 4, zero, 200000, c17Deployer(c17RtForward(c.fresh[1])), 0)
	dl("directed-create", e0, nil, 5, zero, 200000, c17Deployer(c17RtStop), 0)
	c.endBlock()
	c.beginBlock()
	byKind := func(k string) *keys.Address {
		for _, x := range c.contracts {
			if x.Kind == k && x.Alive {
				a := x.Addr
				return &a
			}
		}
		return nil
	}
	if a := byKind("toggle"); a != nil {
		dl("directed-sstore-set", e0, a, c.stNonce(e0.Addr), zero, 100000, nil, 0)
		dl("directed-sstore-clear-refund", e0, a, c.stNonce(e0.Addr), zero, 100000, []byte{1}, 0)
	}
	if a := byKind("revert"); a != nil {
		dl("directed-revert-with-value", e0, a, c.stNonce(e0.Addr), big.NewInt(77), 100000, nil, 0)
	}
	if a := byKind("loop"); a != nil {
		dl("directed-out-of-gas-with-value", e0, a, c.stNonce(e0.Addr), big.NewInt(77), 60000, nil, 0)
	}
	if a := byKind("forward"); a != nil {
		dl("directed-forward", e0, a, c.stNonce(e0.Addr), big.NewInt(700), 100000, nil, 0)
	}
	if a := byKind("stop"); a != nil {
		dl("directed-payable", e0, a, c.stNonce(e0.Addr), big.NewInt(9), 100000, nil, 0)
	}
	// corpus C17.selfdestruct_funded (fixed 8b9b1c9): SELFDESTRUCT of a funded contract must conserve OLT
	if a := byKind("suicide"); a != nil {
		dl("directed-selfdestruct-funded", e1, a, c.stNonce(e1.Addr), big.NewInt(11), 100000, nil, 0)
		dl("directed-call-dead", e0, a, c.stNonce(e0.Addr), big.NewInt(3), 100000, nil, 0)
	}
	// sender that is a contract (a byzantine proposer can deliver it: DeliverTx does not validate)
	if a := byKind("stop"); a != nil {
		c.deliverOLVM("directed-sender-not-eoa", "sender is a contract", e0, *a, &f0, c.stNonce(*a), big.NewInt(1), c17Gwei, 30000, nil, c.chain, c.chain, strconv.FormatUint(c.stNonce(*a), 10), 0, nil, nil)
	}
	// low balance, zero price, below intrinsic, unfunded sender
	dl("directed-unfunded", c.ek[5], &f0, 0, zero, 21000, nil, 0)
	dl("directed-value-exceeds", c.ek[4], &f0, 0, big.NewInt(2000000000000000), 21000, nil, 0)
	dl("directed-intrinsic", e0, &f0, c.stNonce(e0.Addr), zero, 20999, nil, 0)
	c.deliverOLVM("directed-price0", "zero gas price", e0, e0.Addr, &f0, c.stNonce(e0.Addr), big.NewInt(4), zero, 21000, nil, c.chain, c.chain, strconv.FormatUint(c.stNonce(e0.Addr), 10), 0, nil, nil)
	c.deliverOLVM("directed-wrong-chain", "wrong chain id", e0, e0.Addr, &f0, c.stNonce(e0.Addr), big.NewInt(4), c17Gwei, 21000, nil, big.NewInt(1), big.NewInt(1), strconv.FormatUint(c.stNonce(e0.Addr), 10), 0, nil, nil)
	c.deliverSendX("directed-send-wrong-signer", "native send signed by someone else", c.w.Users[0], c.w.Users[1], c.ek[5].Addr, "5", 1000000, "1000000000")
	c.deliverSendX("directed-send-price0", "native send at zero price", c.w.Users[0], c.w.Users[0], c.ek[5].Addr, "5", 1000000, "0")
	c.deliverSend("directed-send", "native send to an eth account", c.w.Users[0], c.ek[5].Addr, "50000000000000", 1000000)
	dl("directed-after-native-credit", c.ek[5], &f0, 0, big.NewInt(1), 21000, nil, 0)
	c.endBlock()
	// in-block interference through the block-long CommitStateDB: an OLVM transaction of A that passes
	// Validate but fails its pre-check (nonce ahead), then native credits of A, then OLVM from / to A
	e3 := c.ek[3]
	u0, u1 := c.w.Users[0], c.w.Users[1]
	a3 := e3.Addr
	c.beginBlock()
	dl("directed-seq-precheck-fail", e3, &f0, c.stNonce(a3)+1, big.NewInt(9), 21000, nil, 0)
	c.deliverSend("directed-seq-native-credit", "native credit of the failed sender", u0, a3, "123456789", 1000000)
	dl("directed-seq-olvm-from", e3, &f0, c.stNonce(a3), big.NewInt(7), 21000, nil, 0)
	dl("directed-seq-precheck-fail", e3, nil, c.stNonce(a3)+2, zero, 200000, c17Deployer(c17RtStop), 0)
	c.rep.CheckTx(c17TxOLVM(e0, &f0, c.stNonce(e0.Addr), big.NewInt(1), c17Gwei, 21000, nil, c.chain, c.chain, strconv.FormatUint(c.stNonce(e0.Addr), 10), 77))
	c.deliverSend("directed-seq-native-credit", "native credit of the failed sender", u1, a3, "55555", 1000000)
	c.deliverSend("directed-seq-native-credit", "native credit of the failed sender", u0, a3, "44444", 1000000)
	dl("directed-seq-olvm-to", e0, &a3, c.stNonce(e0.Addr), big.NewInt(31), 21000, nil, 0)
	dl("directed-seq-olvm-from", e3, nil, c.stNonce(a3), big.NewInt(3), 200000, c17Deployer(c17RtStop), 0)
	c.endBlock()
	// send max: an account funded natively spends its whole balance (exactly 0 left, nonce 1), is
	// touched by zero-value transfers, re-funded natively; its old transactions must be refused
	d := c.ek[6]
	c.beginBlock()
	c.deliverSend("directed-drain-fund", "native funding of an empty eth account", u0, d.Addr, "30000000000005", 1000000)
	c.sendMax("directed-send-max", d, f0)
	dl("directed-zero-value-to-drained", e0, &d.Addr, c.stNonce(e0.Addr), zero, 21000, nil, 0)
	dl("directed-zero-value-to-drained", e0, &d.Addr, c.stNonce(e0.Addr), zero, 30000, nil, 0)
	c.replayOld("directed-drain-replay-unfunded", d)
	c.endBlock()
	c.beginBlock()
	c.deliverSend("directed-drain-refund", "native re-funding of a drained account", u1, d.Addr, "90000000000000", 1000000)
	c.replayOld("directed-drain-replay", d)
	dl("directed-drain-continues", d, &f0, c.stNonce(d.Addr), big.NewInt(1), 21000, nil, 0)
	if a := byKind("stop"); a != nil { // send max through a call to a contract whose code is STOP (uses 21000)
		c.sendMax("directed-send-max-call", d, *a)
	}
	dl("directed-zero-value-to-drained", e0, &d.Addr, c.stNonce(e0.Addr), zero, 21000, nil, 0)
	c.deliverSend("directed-drain-refund", "native re-funding of a drained account", u0, d.Addr, "90000000000000", 1000000)
	c.replayOld("directed-drain-replay", d)
	c.replayOld("directed-drain-replay", d)
	c.endBlock()
	// creation at an address that already holds OLT (native SEND to CreateAddress(sender, nonce)): the
	// contract holds exactly the native amount plus the transferred value, natively and in the EVM
	c.beginBlock()
	fut := c.futureContract(e2)
	c.deliverSend("directed-prefund-native", "native send to a future contract address", u0, fut, "1000", 1000000)
	c.deliverSend("directed-prefund-native", "native send to a future contract address", u1, fut, "2345", 1000000)
	dl("directed-prefund-create", e2, nil, c.stNonce(e2.Addr), zero, 200000, c17Deployer(c17RtStop), 0)
	dl("directed-prefund-call", e0, &fut, c.stNonce(e0.Addr), big.NewInt(9), 100000, nil, 0)
	fut2 := c.futureContract(e2)
	c.deliverSend("directed-prefund-native", "native send to a future contract address", u0, fut2, "777000000000", 1000000)
	c.endBlock()
	c.beginBlock()
	dl("directed-prefund-create-with-value", e2, nil, c.stNonce(e2.Addr), big.NewInt(5000), 200000, c17Deployer(c17RtToggle), 0)
	fut3 := c.futureContract(e2)
	c.deliverSend("directed-prefund-native", "native send to a future contract address", u0, fut3, "99", 1000000)
	dl("directed-prefund-create-ctor-reverts", e2, nil, c.stNonce(e2.Addr), big.NewInt(12), 200000, c17InitRevert, 0)
	dl("directed-prefund-transfer-to-unused", e0, &fut3, c.stNonce(e0.Addr), big.NewInt(1), 21000, nil, 0)
	fut4 := c.futureContract(e2)
	c.deliverSend("directed-prefund-native", "native send to a future contract address", u1, fut4, "5", 1000000)
	dl("directed-prefund-create-with-value", e2, nil, c.stNonce(e2.Addr), big.NewInt(7), 200000, c17InitStore, 0)
	fut5 := c.futureContract(e2)
	c.deliverSend("directed-prefund-native", "native send to a future contract address", u1, fut5, "4000", 1000000)
	dl("directed-prefund-create-suicide", e2, nil, c.stNonce(e2.Addr), big.NewInt(3), 200000, c17Deployer(c17RtSuicide), 0)
	dl("directed-prefund-selfdestruct", e1, &fut5, c.stNonce(e1.Addr), big.NewInt(2), 100000, nil, 0)
	c.endBlock()
	// the same three steps split over blocks (control)
	c.beginBlock()
	dl("directed-seq-precheck-fail", e3, &f0, c.stNonce(a3)+1, big.NewInt(9), 21000, nil, 0)
	c.endBlock()
	c.beginBlock()
	c.deliverSend("directed-seq-native-credit", "native credit, next block", u0, a3, "777", 1000000)
	c.endBlock()
	c.beginBlock()
	dl("directed-seq-olvm-from", e3, &f0, c.stNonce(a3), big.NewInt(7), 21000, nil, 0)
	c.endBlock()
}

func c17Lookup(l [][2]string, idx int) string {
	k := strconv.Itoa(idx)
	for _, e := range l {
		if e[0] == k {
			return e[1]
		}
	}
	return "0"
}

func (c *c17Run) balanceOf(a keys.Address) *big.Int {
	b, _ := new(big.Int).SetString(c17Or0(c17Project(c.rep.View()).Bal[c17AddrKey(a)]), 10)
	return b
}

// sendMax: a plain transfer of the sender's WHOLE balance (value = balance - 21000*price, gas limit
// = the 21000 it uses): the sender ends at exactly 0 with its nonce raised
func (c *c17Run) sendMax(class string, A c17EthKey, to keys.Address) bool {
	bal := c.balanceOf(A.Addr)
	cost := new(big.Int).Mul(big.NewInt(21000), c17Gwei)
	if bal.Cmp(cost) < 0 {
		return false
	}
	n := c.stNonce(A.Addr)
	c.deliverOLVM(class, "send max", A, A.Addr, &to, n, new(big.Int).Sub(bal, cost), c17Gwei, 21000, nil, c.chain, c.chain, strconv.FormatUint(n, 10), 0, c.contractAt(to), nil)
	return true
}

// replayOld: an executed transaction of A again, re-encoded (must be refused: nonce too low)
func (c *c17Run) replayOld(class string, A c17EthKey) {
	ai := c.ekIndex(A.Addr)
	var mine []c17Tx
	for _, e := range c.executed {
		if e.From == ai {
			mine = append(mine, e)
		}
	}
	if len(mine) == 0 {
		return
	}
	e := mine[c.r.Intn(len(mine))]
	var to *keys.Address
	if e.Descr != "" {
		b, _ := hex.DecodeString(e.Descr)
		a := keys.Address(b)
		to = &a
	}
	value, _ := new(big.Int).SetString(e.Value, 10)
	price, _ := new(big.Int).SetString(e.Price, 10)
	data, _ := hex.DecodeString(e.Data)
	var callee *c17Contract
	if to != nil {
		callee = c.contractAt(*to)
	}
	c.deliverOLVM(class, "old transaction of a drained and re-funded account", A, A.Addr, to, e.Nonce, value, price, e.Gas, data, c.chain, c.chain, strconv.FormatUint(e.Nonce, 10), e.TxType+1+int64(c.r.Intn(100000)), callee, nil)
}

func (c *c17Run) futureContract(A c17EthKey) keys.Address {
	return keys.Address(ethcrypto.CreateAddress(ethcmn.BytesToAddress(A.Addr), c.stNonce(A.Addr)).Bytes())
}

// genPrefundedCreate: native SENDs to the address at which an eth key's next contract will be
// created, then the creation (with / without value; successful, reverting, self-destructing
// constructor results), then traffic to the new contract.  The contract must hold exactly
// what was sent natively plus the transferred value, natively and through the EVM.
func (c *c17Run) genPrefundedCreate() {
	r := c.r
	A := c.ek[r.Intn(4)]
	u := c.w.Users[r.Intn(len(c.w.Users))]
	fut := c.futureContract(A)
	for i, k := 0, 1+r.Intn(2); i < k; i++ {
		amount := []string{"1", "1000", strconv.Itoa(1 + r.Intn(1000000000)), "5000000000000000000"}[r.Intn(4)]
		c.deliverSend("prefund-native", "native send to a future contract address", u, fut, amount, 1000000)
	}
	if r.Intn(3) == 0 {
		c.endBlock()
		c.beginBlock()
	}
	if r.Intn(8) == 0 { // control: another transaction first, the contract lands elsewhere
		n := c.stNonce(A.Addr)
		f := c.fresh[r.Intn(len(c.fresh))]
		c.deliverOLVM("prefund-control-other-first", "nonce moves on before the creation", A, A.Addr, &f, n, big.NewInt(1), c17Gwei, 21000, nil, c.chain, c.chain, strconv.FormatUint(n, 10), 0, nil, nil)
	}
	inits := []struct {
		k string
		b []byte
	}{{"stop", c17Deployer(c17RtStop)}, {"store", c17InitStore}, {"toggle", c17Deployer(c17RtToggle)}, {"suicide", c17Deployer(c17RtSuicide)},
		{"forward", c17Deployer(c17RtForward(c.fresh[0]))}, {"ctor-revert", c17InitRevert}, {"ctor-invalid", []byte{0xfe}}, {"stop", c17Deployer(c17RtStop)}}
	in := inits[r.Intn(len(inits))]
	value := big.NewInt(0)
	if r.Intn(2) == 0 {
		value = big.NewInt(int64(1 + r.Intn(100000)))
	}
	gas := []int64{200000, 200000, 1000000, 60000}[r.Intn(4)]
	n := c.stNonce(A.Addr)
	c.deliverOLVM("prefund-create|"+in.k, "creation at a pre-funded address", A, A.Addr, nil, n, value, c17Gwei, gas, in.b, c.chain, c.chain, strconv.FormatUint(n, 10), 0, nil, nil)
	if k := c.contractAt(fut); k != nil && r.Intn(2) == 0 { // traffic to the new contract
		B := c.ek[r.Intn(4)]
		bn := c.stNonce(B.Addr)
		c.deliverOLVM("prefund-call|"+k.Kind, "call of a contract created at a pre-funded address", B, B.Addr, &fut, bn, big.NewInt(int64(r.Intn(3)*7)), c17Gwei, 100000, nil, c.chain, c.chain, strconv.FormatUint(bn, 10), 0, k, nil)
	}
}

// genDrainSeq: fund an empty eth account natively, let it spend its whole balance (exactly 0 left,
// nonce > 0), touch it with zero-value transfers, re-fund it natively and replay its old transactions
func (c *c17Run) genDrainSeq() {
	r := c.r
	A := c.ek[4+r.Intn(4)]
	a := A.Addr
	u := c.w.Users[r.Intn(len(c.w.Users))]
	maybeNewBlock := func() {
		if r.Intn(3) == 0 {
			c.endBlock()
			c.beginBlock()
		}
	}
	if c.balanceOf(a).Cmp(new(big.Int).Mul(big.NewInt(21000), c17Gwei)) < 0 {
		c.deliverSend("drain-fund", "native funding of an empty eth account", u, a, strconv.FormatInt(21000000000000+int64(r.Intn(1000000000)), 10), 1000000)
		maybeNewBlock()
	}
	if r.Intn(4) == 0 { // an ordinary transaction first, so that the nonce is higher
		n := c.stNonce(a)
		f := c.fresh[r.Intn(len(c.fresh))]
		c.deliverOLVM("drain-ordinary", "ordinary transfer before the drain", A, a, &f, n, big.NewInt(int64(r.Intn(50))), c17Gwei, 21000, nil, c.chain, c.chain, strconv.FormatUint(n, 10), 0, nil, nil)
		if c.balanceOf(a).Cmp(new(big.Int).Mul(big.NewInt(21000), c17Gwei)) < 0 {
			c.deliverSend("drain-fund", "native funding of an empty eth account", u, a, strconv.FormatInt(21000000000000+int64(r.Intn(1000000000)), 10), 1000000)
		}
	}
	to := c.fresh[r.Intn(len(c.fresh))]
	if r.Intn(3) == 0 {
		to = c.ek[r.Intn(4)].Addr
	}
	if !c.sendMax("drain-send-max", A, to) {
		return
	}
	maybeNewBlock()
	for i, k := 0, r.Intn(3); i < k; i++ { // zero-value transfers to the drained account
		B := c.ek[r.Intn(4)]
		bn := c.stNonce(B.Addr)
		c.deliverOLVM("drain-zero-value-to", "zero-value transfer to a drained account", B, B.Addr, &a, bn, big.NewInt(0), c17Gwei, int64(21000+r.Intn(2)*9000), nil, c.chain, c.chain, strconv.FormatUint(bn, 10), 0, nil, nil)
	}
	if r.Intn(4) == 0 {
		c.replayOld("drain-replay-unfunded", A)
	}
	maybeNewBlock()
	c.deliverSend("drain-refund", "native re-funding of a drained account", u, a, strconv.FormatInt(50000000000000+int64(r.Intn(1000000000)), 10), 1000000)
	if r.Intn(2) == 0 {
		maybeNewBlock()
	}
	for i, k := 0, 1+r.Intn(2); i < k; i++ {
		c.replayOld("drain-replay", A)
	}
	if r.Intn(2) == 0 { // and the account goes on with its real nonce
		n := c.stNonce(a)
		f := c.fresh[r.Intn(len(c.fresh))]
		c.deliverOLVM("drain-continues", "next transaction of the re-funded account", A, a, &f, n, big.NewInt(int64(r.Intn(50))), c17Gwei, 21000, nil, c.chain, c.chain, strconv.FormatUint(n, 10), 0, nil, nil)
	}
}

// genStaleSeq: inside the current block — OLVM of A that passes Validate but fails its pre-check,
// (optional CheckTx traffic), native SENDs crediting A (and others), then OLVM from A and/or to A.
// The application keeps one CommitStateDB per block: nothing of the failed transaction may survive.
func (c *c17Run) genStaleSeq() {
	r := c.r
	A := c.ek[r.Intn(5)]
	a := A.Addr
	f := c.fresh[r.Intn(len(c.fresh))]
	n := c.stNonce(a)
	ahead := n + uint64(1+r.Intn(3))
	// 1: fails the pre-check (nonce ahead of the account's), in one of three shapes
	switch r.Intn(3) {
	case 0:
		c.deliverOLVM("seq-precheck-fail|transfer", "nonce ahead", A, a, &f, ahead, big.NewInt(int64(r.Intn(100))), c17Gwei, 21000, nil, c.chain, c.chain, strconv.FormatUint(ahead, 10), 0, nil, nil)
	case 1:
		c.deliverOLVM("seq-precheck-fail|create", "nonce ahead", A, a, nil, ahead, big.NewInt(0), c17Gwei, 200000, c17Deployer(c17RtStop), c.chain, c.chain, strconv.FormatUint(ahead, 10), 0, nil, nil)
	default:
		to := c.anyAddr()
		c.deliverOLVM("seq-precheck-fail|call", "nonce ahead", A, a, &to, ahead, big.NewInt(0), c17Gwei, 100000, []byte{1}, c.chain, c.chain, strconv.FormatUint(ahead, 10), 0, c.contractAt(to), nil)
	}
	if r.Intn(2) == 0 { // mempool traffic in between
		k := c.ek[r.Intn(4)]
		kn := c.stNonce(k.Addr)
		c.rep.CheckTx(c17TxOLVM(k, &f, kn, big.NewInt(1), c17Gwei, 21000, nil, c.chain, c.chain, strconv.FormatUint(kn, 10), int64(1000+r.Intn(1000))))
	}
	// 2: native changes of A's balance (SEND can only credit an eth-key account: its key cannot sign
	// native transactions), mixed with sends elsewhere and failing sends
	for i, k := 0, 1+r.Intn(3); i < k; i++ {
		u := c.w.Users[r.Intn(len(c.w.Users))]
		switch r.Intn(5) {
		case 0:
			c.deliverSend("seq-native-other", "native send elsewhere", u, c.anyAddr(), strconv.Itoa(1+r.Intn(100000)), 1000000)
		case 1:
			c.deliverSend("seq-native-credit-fails", "native credit that fails", u, a, "3000000000000000000000000", 1000000)
		default:
			c.deliverSend("seq-native-credit", "native credit of the failed sender", u, a, strconv.Itoa(1+r.Intn(1000000000)), 1000000)
		}
	}
	// 3: OLVM from A and/or to A
	m := r.Intn(4)
	if m != 1 {
		n = c.stNonce(a)
		switch r.Intn(3) {
		case 0:
			c.deliverOLVM("seq-olvm-from|transfer", "after native credit", A, a, &f, n, big.NewInt(int64(r.Intn(1000))), c17Gwei, 21000, nil, c.chain, c.chain, strconv.FormatUint(n, 10), 0, nil, nil)
		case 1:
			c.deliverOLVM("seq-olvm-from|create", "after native credit", A, a, nil, n, big.NewInt(int64(r.Intn(3)*5000)), c17Gwei, 200000, c17Deployer(c17RtToggle), c.chain, c.chain, strconv.FormatUint(n, 10), 0, nil, nil)
		default:
			to := c.anyAddr()
			c.deliverOLVM("seq-olvm-from|call", "after native credit", A, a, &to, n, big.NewInt(int64(r.Intn(3)*7)), c17Gwei, 100000, nil, c.chain, c.chain, strconv.FormatUint(n, 10), 0, c.contractAt(to), nil)
		}
	}
	if m != 0 {
		B := c.ek[r.Intn(4)]
		if c17AddrKey(B.Addr) == c17AddrKey(a) {
			B = c.ek[(c.ekIndex(a)+1)%4]
		}
		bn := c.stNonce(B.Addr)
		c.deliverOLVM("seq-olvm-to|transfer", "value to the failed sender", B, B.Addr, &a, bn, big.NewInt(int64(1+r.Intn(1000))), c17Gwei, 21000, nil, c.chain, c.chain, strconv.FormatUint(bn, 10), 0, nil, nil)
	}
}

// ---------------------------------------------------------------------------------------------
// output

func c17Z(s string) string {
	if strings.HasPrefix(s, "-") {
		return "(" + s + ")"
	}
	if s == "" {
		return "0"
	}
	return s
}

func c17LedgerCoq(l c17LedgerIdx) string {
	var b, n []string
	for _, e := range l.Bal {
		b = append(b, e[0], c17Z(e[1]))
	}
	for _, e := range l.Non {
		n = append(n, e[0], c17Z(e[1]))
	}
	return fmt.Sprintf("(mkL [%s] [%s] %s)", strings.Join(b, ";"), strings.Join(n, ";"), c17Z(l.Pool))
}

func c17Bool(b bool) string {
	if b {
		return "true"
	}
	return "false"
}

func c17StepCoq(s *c17Step) string {
	var in string
	if s.Kind == "olvm" {
		var ints, dead []string
		for _, d := range s.Int {
			ints = append(ints, strconv.Itoa(d.Addr), c17Z(d.D))
		}
		for _, d := range s.Dead {
			dead = append(dead, strconv.Itoa(d))
		}
		in = fmt.Sprintf("(IOlvm (mkE %s %s %d %s %s) (mkT %d %s %s %s %s %d %d %d %s %s) (mkO %s %s [%s] [%s]))",
			s.BlockGas, c17Bool(s.SenderCode), s.Created, c17Bool(s.Dup), c17Z(s.MinFee),
			s.From, c17Z(strconv.Itoa(s.To)), c17Z(s.Value), c17Z(strconv.FormatInt(s.Gas, 10)), c17Z(s.Price), s.Nonce, s.NZ, s.Z, c17Bool(s.ChainOK), c17Bool(s.MemoOK),
			c17Z(s.Left), c17Bool(s.Failed), strings.Join(ints, ";"), strings.Join(dead, ";"))
	} else {
		in = fmt.Sprintf("(ISend %s (mkN %d %d %s %s %d %s) %d)", c17Z(s.MinFee), s.From, s.To, c17Z(s.Amount), c17Z(s.Price), s.Gas, c17Bool(s.SigOK), s.GasUsed)
	}
	var addrs, views []string
	for _, a := range s.Addrs {
		addrs = append(addrs, strconv.Itoa(a))
	}
	for _, v := range s.Views {
		views = append(views, strconv.Itoa(v.Addr), c17Z(v.Keeper), c17Z(v.SDB))
	}
	return fmt.Sprintf("mkC %s\n %s\n %s %s\n %s\n [%s] %s %s %s [%s] %s",
		c17LedgerCoq(s.Pre), in, c17Bool(s.Code == 0), c17Z(strconv.FormatInt(s.GasUsed, 10)), c17LedgerCoq(s.Post), strings.Join(addrs, ";"),
		c17Z(strconv.Itoa(s.Check)), c17LedgerCoq(s.CheckPre), c17Z(s.MinFee), strings.Join(views, ";"), c17Bool(s.Again))
}

func c17WriteCases(path string, steps []c17Step) {
	var sb strings.Builder
	sb.WriteString("From stdpp Require Import gmap list.\nFrom Coq Require Import ZArith.\nFrom OL Require Import theories.Olvm theories.OlvmCheck.\nLocal Open Scope Z_scope.\n")
	sb.WriteString("Definition cases : list scase := [\n")
	for i := range steps {
		if i > 0 {
			sb.WriteString(";\n")
		}
		sb.WriteString(c17StepCoq(&steps[i]))
	}
	sb.WriteString("\n].\n")
	sb.WriteString("Definition MM := Eval vm_compute in mismatches 0 cases.\nPrint MM.\n")
	sb.WriteString("Definition PV := Eval vm_compute in violations 0 cases.\nPrint PV.\n")
	sb.WriteString("Definition OH := Eval vm_compute in [count_outside_hyp cases].\nPrint OH.\n")
	sb.WriteString(fmt.Sprintf("Definition CK := Eval vm_compute in [if consts_ok %d %d %d %d %d %d then 1 else 0].\nPrint CK.\n",
		vm.RefundQuotientFrankenstein, ethparams.TxGas, ethparams.TxGasContractCreation, ethparams.TxDataNonZeroGasEIP2028, ethparams.TxDataZeroGas, vm.SimulationBlockGasLimit))
	must(ioutil.WriteFile(path, []byte(sb.String()), 0644))
}

type c17Report struct {
	Files                 []string
	Steps                 int
	Distinct              int
	Classes               map[string]int
	Outcomes              map[string]int
	Checks                map[string]int
	ViewsRead             int
	SenderZero            int // executed OLVM transactions that left the sender's balance at exactly 0
	ZeroToDrained         int // executed zero-value transfers to an account with balance 0 and nonce > 0
	PrefundedCreate       int // successful creations at an address holding OLT before the transaction
	PrefundedCreateFailed int // creations at such an address whose constructor failed
	Contracts             int
	Samples               []c17Step
}

func c17Main(args []string) int {
	fs := flag.NewFlagSet("c17", flag.ExitOnError)
	outDir := fs.String("out", "", "output directory")
	seed := fs.Int64("seed", 1, "seed")
	nblocks := fs.Int("blocks", 30, "random blocks")
	perBlock := fs.Int("txs", 8, "transactions per block")
	chunk := fs.Int("chunk", 120, "steps per cases file")
	tag := fs.String("tag", "0", "file name tag")
	noDirected := fs.Bool("nodirected", false, "skip the directed scenarios")
	replay := fs.String("replay", "", "replay file (JSON list of transaction hex strings with block boundaries)")
	fs.Parse(args)
	if *outDir == "" {
		fmt.Fprintln(os.Stderr, "need -out")
		return 2
	}
	must(os.MkdirAll(*outDir, 0755))
	c := c17NewRun(*seed)
	defer c.rep.Close()
	_ = replay
	if !*noDirected {
		c.directed()
	}
	for b := 0; b < *nblocks; b++ {
		c.beginBlock()
		n := 1 + c.r.Intn(*perBlock)
		for j := 0; j < n; j++ {
			switch c.r.Intn(12) {
			case 0:
				c.genReplay()
			case 1:
				c.genIdentical()
			case 2:
				c.genStaleSeq()
			case 3:
				switch c.r.Intn(3) {
				case 0:
					c.genDrainSeq()
				case 1:
					c.genPrefundedCreate()
				default:
					c.genStep()
				}
			default:
				c.genStep()
			}
		}
		c.endBlock()
	}
	rep := c17Report{Steps: len(c.steps), Classes: c.hist, Outcomes: c.outcomes, Checks: map[string]int{}, Contracts: len(c.contracts)}
	distinct := map[string]bool{}
	for i := range c.steps {
		s := &c.steps[i]
		if s.Kind == "olvm" && s.Code == 0 && !s.Dup {
			if c17Lookup(s.Post.Bal, s.From) == "0" {
				rep.SenderZero++
			}
			if s.To < 0 && c17Lookup(s.Pre.Bal, s.Created) != "0" {
				if s.Failed {
					rep.PrefundedCreateFailed++
				} else {
					rep.PrefundedCreate++
				}
			}
			if s.To >= 0 && s.To != s.From && s.Value == "0" && c17Lookup(s.Pre.Bal, s.To) == "0" && c17Lookup(s.Pre.Non, s.To) != "0" {
				rep.ZeroToDrained++
			}
		}
		distinct[fmt.Sprintf("%s|%d|%d|%s|%d|%s|%d|%d|%v|%d|%v", s.Class, s.From, s.To, s.Value, s.Gas, s.Price, s.Nonce, s.NZ+s.Z, s.Failed, s.Code, s.Dup)] = true
		rep.ViewsRead += len(s.Views)
		if s.Kind == "olvm" {
			rep.Checks[fmt.Sprintf("check=%d,deliver=%d", s.Check, s.Code)]++
		}
	}
	rep.Distinct = len(distinct)
	for i := 0; i < len(c.steps); i += *chunk {
		j := i + *chunk
		if j > len(c.steps) {
			j = len(c.steps)
		}
		f := filepath.Join(*outDir, fmt.Sprintf("c17_cases_%s_%d.v", *tag, i / *chunk))
		c17WriteCases(f, c.steps[i:j])
		rep.Files = append(rep.Files, f)
	}
	for i := 0; i < len(c.steps) && len(rep.Samples) < 6; i += 1 + len(c.steps)/6 {
		rep.Samples = append(rep.Samples, c.steps[i])
	}
	bz, _ := json.Marshal(c.steps)
	must(ioutil.WriteFile(filepath.Join(*outDir, fmt.Sprintf("c17_steps_%s.json", *tag)), bz, 0644))
	bz, _ = json.MarshalIndent(rep, "", " ")
	must(ioutil.WriteFile(filepath.Join(*outDir, fmt.Sprintf("c17_report_%s.json", *tag)), bz, 0644))
	say("c17: %d steps, %d distinct, %d files\n", rep.Steps, rep.Distinct, len(rep.Files))
	return 0
}
